import Ach.Props.AcceptedAmounts
/-!
# The file control's count, hash and totals are the sums over the batch controls (C03)

`File.isEntryAddendaCount`, `File.isFileAmount`, `File.calculateEntryHash` / `File.isEntryHash` walk the batches and the
IAT batches and add up fields of their control records.  Their translations are shown to be — today — the programs
below, built from one summing loop; that loop is unrolled by induction for any number of batches.
(`File.ValidateWith` calls the three with `IsADV = false` for a file of standard / IAT batches.)
-/
namespace Ach.Props.AcceptedFile
open Ach Ach.GoLite Ach.Gen

/-- `x += v.F.G` -/
def addSel (x v F G : String) : Prog := .assign x (.add (.var x) (.sel (.sel (.var v) F) G))

theorem addSel_exec (c : Ctx) (x v F G : String) (hne : (v == x) = false) (ep cp : String) (val a : Int) (rest : Locals)
    (hcp : lookup c.fields (joinPath ep F) = .ref cp)
    (hv : lookup c.fields (joinPath cp G) = .int val) :
    exec (addSel x v F G) c ((v, .ref ep) :: (x, .int a) :: rest) =
      ((v, .ref ep) :: (x, .int (a + val)) :: rest, .next) := by
  have hxx : (x == x) = true := by simp
  simp [addSel, exec, eval, lookup, hne, hxx, hcp, hv, arith, update]

theorem addSel_iter (c : Ctx) (x v F G : String) (hne : (v == x) = false) (p : String) (n : Nat) (cp : Nat → String)
    (val : Nat → Int) (rest : Locals)
    (hcp : ∀ i, i < n → lookup c.fields (joinPath (elemPath p i) F) = .ref (cp i))
    (hv : ∀ i, i < n → lookup c.fields (joinPath (cp i) G) = .int (val i)) :
    ∀ is : List Nat, (∀ i ∈ is, i < n) → ∀ a : Int,
      iter (fun l' => exec (addSel x v F G) c l') (fun i => .ref (elemPath p i)) v is ((x, .int a) :: rest) =
        ((x, .int (a + (is.map val).sum)) :: rest, .next) := by
  intro is
  induction is with
  | nil => intro _ a; simp [iter]
  | cons j is ih =>
      intro hlt a
      have hj := hlt j (List.mem_cons_self ..)
      have hb := addSel_exec c x v F G hne (elemPath p j) (cp j) (val j) a rest (hcp j hj) (hv j hj)
      simp only [iter, hb]
      have hsc : scopeExit ((x, Val.int a) :: rest) ((v, Val.ref (elemPath p j)) :: (x, Val.int (a + val j)) :: rest) =
          (x, Val.int (a + val j)) :: rest := by simp [scopeExit]
      rw [hsc, ih (fun k hk => hlt k (List.mem_cons_of_mem _ hk))]
      simp only [List.map_cons, List.sum_cons]
      have : a + val j + (List.map val is).sum = a + (val j + (List.map val is).sum) := by omega
      rw [this]


/-! ## entry hash -/

def fileHashProg : Prog :=
  seqs [(.bind "hash" (.int 0)),
    (.ite (.not (.var "IsADV"))
      (seqs [(.forEach "batch" (.fld "Batches") (addSel "hash" "batch" "Control" "EntryHash")),
        (.forEach "iatBatch" (.fld "IATBatches") (addSel "hash" "iatBatch" "Control" "EntryHash"))])
      (.forEach "batch" (.fld "Batches") (addSel "hash" "batch" "ADVControl" "EntryHash"))),
    (.ret (.call2 "leastSignificantDigits" (.var "hash") (.int 10)))]

/-- the translated `File.calculateEntryHash` is that program -/
theorem file_calculateEntryHash_shape : v_File_calculateEntryHash = fileHashProg := by decide +kernel

/-- the batches of a file of standard and IAT batches: where they are stored, where their controls are -/
structure Batches (c : Ctx) where
  bp : String
  nb : Nat
  ip : String
  ni : Nat
  bc : Nat → String
  ic : Nat → String
  hB : lookup c.fields (joinPath c.recv "Batches") = .lst bp nb
  hI : lookup c.fields (joinPath c.recv "IATBatches") = .lst ip ni
  hbc : ∀ i, i < nb → lookup c.fields (joinPath (elemPath bp i) "Control") = .ref (bc i)
  hic : ∀ i, i < ni → lookup c.fields (joinPath (elemPath ip i) "Control") = .ref (ic i)

/-- Σ over the batch controls, then over the IAT batch controls, of an integer field -/
def total {c : Ctx} (B : Batches c) (vb vi : Nat → Int) : Int :=
  ((List.range B.nb).map vb).sum + ((List.range B.ni).map vi).sum

/-- `File.calculateEntryHash(false)` returns the ten least significant digits of the sum of the batch controls' hashes -/
theorem file_calculateEntryHash_spec (c : Ctx) (B : Batches c) (vb vi : Nat → Int)
    (hvb : ∀ i, i < B.nb → lookup c.fields (joinPath (B.bc i) "EntryHash") = .int (vb i))
    (hvi : ∀ i, i < B.ni → lookup c.fields (joinPath (B.ic i) "EntryHash") = .int (vi i)) :
    (exec v_File_calculateEntryHash c [("IsADV", .bool false)]).2 =
      .ret (.int (leastSignificantDigits (total B vb vi) 10)) := by
  rw [file_calculateEntryHash_shape]
  have h1 := addSel_iter c "hash" "batch" "Control" "EntryHash" (by decide) B.bp B.nb B.bc vb [("IsADV", .bool false)]
    B.hbc hvb (List.range B.nb) (fun k hk => List.mem_range.mp hk) 0
  have h2 := addSel_iter c "hash" "iatBatch" "Control" "EntryHash" (by decide) B.ip B.ni B.ic vi [("IsADV", .bool false)]
    B.hic hvi (List.range B.ni) (fun k hk => List.mem_range.mp hk) (0 + ((List.range B.nb).map vb).sum)
  simp only [Int.zero_add] at h1 h2
  simp [fileHashProg, seqs, exec, eval, lookup, B.hB, B.hI, h1, h2, scopeExit, builtin2, total]

def fileIsHashProg : Prog :=
  seqs [(seqs [(.sub "_t1" ["IsADV"] [(.var "IsADV")] v_File_calculateEntryHash), (.bind "hashField" (.var "_t1"))]),
    (.ite (.not (.var "IsADV"))
      (.ite (.ne (.var "hashField") (.sel (.fld "Control") "EntryHash")) (.ret (.mkErr "EntryHash")) .skip)
      (.ite (.ne (.var "hashField") (.sel (.fld "ADVControl") "EntryHash")) (.ret (.mkErr "EntryHash")) .skip)),
    (.ret .nil)]

theorem file_isEntryHash_shape : v_File_isEntryHash = fileIsHashProg := by decide +kernel

/-- C03, file control — `File.isEntryHash(false)` returns nil only if the file control's entry hash is the ten least
significant digits of the sum of the batch controls' entry hashes (standard and IAT batches, any number of them) -/
theorem file_isEntryHash_accepts (c : Ctx) (B : Batches c) (vb vi : Nat → Int) (cp : String) (e : Int)
    (hvb : ∀ i, i < B.nb → lookup c.fields (joinPath (B.bc i) "EntryHash") = .int (vb i))
    (hvi : ∀ i, i < B.ni → lookup c.fields (joinPath (B.ic i) "EntryHash") = .int (vi i))
    (hC : lookup c.fields (joinPath c.recv "Control") = .ref cp)
    (he : lookup c.fields (joinPath cp "EntryHash") = .int e)
    (h : (exec v_File_isEntryHash c [("IsADV", .bool false)]).2 = .ret (.err none)) :
    e = leastSignificantDigits (total B vb vi) 10 := by
  rw [file_isEntryHash_shape] at h
  have hcalc := file_calculateEntryHash_spec c B vb vi hvb hvi
  by_cases heq : leastSignificantDigits (total B vb vi) 10 = e
  · exact heq.symm
  · simp [fileIsHashProg, seqs, exec, eval, lookup, hcalc, subResult, hC, he, cmpVals, scopeExit, heq] at h

/-! ## entry/addenda count -/

def fileCountGuard (ctl : String) : Prog :=
  .ite (.ne (.sel (.fld ctl) "EntryAddendaCount") (.var "count"))
    (seqs [(.ite (.flag "recv" "UnequalAddendaCounts") (.ret .nil) .skip), (.ret (.mkErr "EntryAddendaCount"))])
    .skip

def fileCountProg : Prog :=
  seqs [(.bind "count" (.int 0)),
    (.ite (.not (.var "IsADV"))
      (seqs [(.forEach "batch" (.fld "Batches") (addSel "count" "batch" "Control" "EntryAddendaCount")),
        (.forEach "iatBatch" (.fld "IATBatches") (addSel "count" "iatBatch" "Control" "EntryAddendaCount")),
        fileCountGuard "Control"])
      (seqs [(.forEach "batch" (.fld "Batches") (addSel "count" "batch" "ADVControl" "EntryAddendaCount")),
        fileCountGuard "ADVControl"])),
    (.ret .nil)]

theorem file_isEntryAddendaCount_shape : v_File_isEntryAddendaCount = fileCountProg := by decide +kernel

/-- C03, file control — `File.isEntryAddendaCount(false)` returns nil, with `UnequalAddendaCounts` off, only if the file
control's entry/addenda count is the sum of the batch controls' counts -/
theorem file_isEntryAddendaCount_accepts (c : Ctx) (B : Batches c) (vb vi : Nat → Int) (cp : String) (e : Int)
    (hflag : hasFlag c "recv" "UnequalAddendaCounts" = false)
    (hvb : ∀ i, i < B.nb → lookup c.fields (joinPath (B.bc i) "EntryAddendaCount") = .int (vb i))
    (hvi : ∀ i, i < B.ni → lookup c.fields (joinPath (B.ic i) "EntryAddendaCount") = .int (vi i))
    (hC : lookup c.fields (joinPath c.recv "Control") = .ref cp)
    (he : lookup c.fields (joinPath cp "EntryAddendaCount") = .int e)
    (h : (exec v_File_isEntryAddendaCount c [("IsADV", .bool false)]).2 = .ret (.err none)) :
    e = total B vb vi := by
  rw [file_isEntryAddendaCount_shape] at h
  have h1 := addSel_iter c "count" "batch" "Control" "EntryAddendaCount" (by decide) B.bp B.nb B.bc vb [("IsADV", .bool false)]
    B.hbc hvb (List.range B.nb) (fun k hk => List.mem_range.mp hk) 0
  have h2 := addSel_iter c "count" "iatBatch" "Control" "EntryAddendaCount" (by decide) B.ip B.ni B.ic vi [("IsADV", .bool false)]
    B.hic hvi (List.range B.ni) (fun k hk => List.mem_range.mp hk) (0 + ((List.range B.nb).map vb).sum)
  simp only [Int.zero_add] at h1 h2
  by_cases heq : e = total B vb vi
  · exact heq
  · have heq' : ¬ e = ((List.range B.nb).map vb).sum + ((List.range B.ni).map vi).sum := heq
    simp [fileCountProg, fileCountGuard, seqs, exec, eval, lookup, B.hB, B.hI, h1, h2, scopeExit, hC, he, cmpVals, hflag, heq'] at h


/-! ## debit and credit totals -/

def amtBody (v ctl : String) : Prog :=
  seqs [addSel "debit" v ctl "TotalDebitEntryDollarAmount", addSel "credit" v ctl "TotalCreditEntryDollarAmount"]

theorem amtBody_iter (c : Ctx) (v : String) (hv1 : (v == "debit") = false) (hv2 : (v == "credit") = false)
    (p : String) (n : Nat) (cp : Nat → String) (db cr : Nat → Int) (rest : Locals)
    (hcp : ∀ i, i < n → lookup c.fields (joinPath (elemPath p i) "Control") = .ref (cp i))
    (hdb : ∀ i, i < n → lookup c.fields (joinPath (cp i) "TotalDebitEntryDollarAmount") = .int (db i))
    (hcr : ∀ i, i < n → lookup c.fields (joinPath (cp i) "TotalCreditEntryDollarAmount") = .int (cr i)) :
    ∀ is : List Nat, (∀ i ∈ is, i < n) → ∀ a b : Int,
      iter (fun l' => exec (amtBody v "Control") c l') (fun i => .ref (elemPath p i)) v is
          (("credit", .int a) :: ("debit", .int b) :: rest) =
        (("credit", .int (a + (is.map cr).sum)) :: ("debit", .int (b + (is.map db).sum)) :: rest, .next) := by
  intro is
  induction is with
  | nil => intro _ a b; simp [iter]
  | cons j is ih =>
      intro hlt a b
      have hj := hlt j (List.mem_cons_self ..)
      have hb : exec (amtBody v "Control") c ((v, .ref (elemPath p j)) :: ("credit", .int a) :: ("debit", .int b) :: rest) =
          ((v, .ref (elemPath p j)) :: ("credit", .int (a + cr j)) :: ("debit", .int (b + db j)) :: rest, .next) := by
        simp [amtBody, addSel, seqs, exec, eval, lookup, hv1, hv2, hcp j hj, hdb j hj, hcr j hj, arith, update]
      simp only [iter, hb]
      have hsc : scopeExit (("credit", Val.int a) :: ("debit", Val.int b) :: rest)
          ((v, Val.ref (elemPath p j)) :: ("credit", Val.int (a + cr j)) :: ("debit", Val.int (b + db j)) :: rest) =
          ("credit", Val.int (a + cr j)) :: ("debit", Val.int (b + db j)) :: rest := by simp [scopeExit]
      rw [hsc, ih (fun k hk => hlt k (List.mem_cons_of_mem _ hk))]
      simp only [List.map_cons, List.sum_cons]
      have e1 : a + cr j + (List.map cr is).sum = a + (cr j + (List.map cr is).sum) := by omega
      have e2 : b + db j + (List.map db is).sum = b + (db j + (List.map db is).sum) := by omega
      rw [e1, e2]

def fileAmountProg : Prog :=
  seqs [(.bind "debit" (.int 0)), (.bind "credit" (.int 0)),
    (.ite (.not (.var "IsADV"))
      (seqs [(.forEach "batch" (.fld "Batches") (amtBody "batch" "Control")),
        (.forEach "iatBatch" (.fld "IATBatches") (amtBody "iatBatch" "Control")),
        (.ite (.ne (.sel (.fld "Control") "TotalDebitEntryDollarAmountInFile") (.var "debit")) (.ret (.mkErr "TotalDebitEntryDollarAmountInFile")) .skip),
        (.ite (.ne (.sel (.fld "Control") "TotalCreditEntryDollarAmountInFile") (.var "credit")) (.ret (.mkErr "TotalCreditEntryDollarAmountInFile")) .skip)])
      (seqs [(.forEach "batch" (.fld "Batches") (amtBody "batch" "ADVControl")),
        (.ite (.ne (.sel (.fld "ADVControl") "TotalDebitEntryDollarAmountInFile") (.var "debit")) (.ret (.mkErr "TotalDebitEntryDollarAmountInFile")) .skip),
        (.ite (.ne (.sel (.fld "ADVControl") "TotalCreditEntryDollarAmountInFile") (.var "credit")) (.ret (.mkErr "TotalCreditEntryDollarAmountInFile")) .skip)])),
    (.ret .nil)]

theorem file_isFileAmount_shape : v_File_isFileAmount = fileAmountProg := by decide +kernel

/-- C03, file control — `File.isFileAmount(false)` returns nil only if the file control's debit and credit totals are the
sums of the batch controls' totals (standard and IAT batches, any number of them) -/
theorem file_isFileAmount_accepts (c : Ctx) (B : Batches c) (dbb crb dbi cri : Nat → Int) (cp : String) (td tc : Int)
    (h1d : ∀ i, i < B.nb → lookup c.fields (joinPath (B.bc i) "TotalDebitEntryDollarAmount") = .int (dbb i))
    (h1c : ∀ i, i < B.nb → lookup c.fields (joinPath (B.bc i) "TotalCreditEntryDollarAmount") = .int (crb i))
    (h2d : ∀ i, i < B.ni → lookup c.fields (joinPath (B.ic i) "TotalDebitEntryDollarAmount") = .int (dbi i))
    (h2c : ∀ i, i < B.ni → lookup c.fields (joinPath (B.ic i) "TotalCreditEntryDollarAmount") = .int (cri i))
    (hC : lookup c.fields (joinPath c.recv "Control") = .ref cp)
    (htd : lookup c.fields (joinPath cp "TotalDebitEntryDollarAmountInFile") = .int td)
    (htc : lookup c.fields (joinPath cp "TotalCreditEntryDollarAmountInFile") = .int tc)
    (h : (exec v_File_isFileAmount c [("IsADV", .bool false)]).2 = .ret (.err none)) :
    td = total B dbb dbi ∧ tc = total B crb cri := by
  rw [file_isFileAmount_shape] at h
  have i1 := amtBody_iter c "batch" (by decide) (by decide) B.bp B.nb B.bc dbb crb [("IsADV", .bool false)]
    B.hbc h1d h1c (List.range B.nb) (fun k hk => List.mem_range.mp hk) 0 0
  have i2 := amtBody_iter c "iatBatch" (by decide) (by decide) B.ip B.ni B.ic dbi cri [("IsADV", .bool false)]
    B.hic h2d h2c (List.range B.ni) (fun k hk => List.mem_range.mp hk)
    (0 + ((List.range B.nb).map crb).sum) (0 + ((List.range B.nb).map dbb).sum)
  simp only [Int.zero_add] at i1 i2
  unfold total
  by_cases e1 : td = ((List.range B.nb).map dbb).sum + ((List.range B.ni).map dbi).sum <;>
    by_cases e2 : tc = ((List.range B.nb).map crb).sum + ((List.range B.ni).map cri).sum <;>
    simp [fileAmountProg, seqs, exec, eval, lookup, B.hB, B.hI, i1, i2, scopeExit, hC, htd, htc, cmpVals, e1, e2] at h ⊢

end Ach.Props.AcceptedFile
