import Ach.Props.AcceptedCount
/-!
# The debit and credit totals of an accepted batch are the sums over its entries (C03)

`Batch.calculateBatchAmounts` walks the entries and adds each amount to the credit or to the debit total by the entry's
transaction code (two `case` lists); `Batch.isBatchAmount` compares the totals with the control.  Both translations are
shown to be — today — the programs below, with the two code lists as data; the loop is unrolled by induction with the
two running totals as the invariant.
-/
namespace Ach.Props.AcceptedAmounts
open Ach Ach.GoLite Ach.Gen

/-- `_tag == k1 || _tag == k2 || …` as the translator writes a `case k1, k2, …:` -/
def orEq : List Int → Expr
  | [] => .bool false
  | [k] => .eq (.var "_tag") (.int k)
  | k :: ks => .or (.eq (.var "_tag") (.int k)) (orEq ks)

def creditCodes : List Int := [22, 21, 23, 24, 32, 31, 33, 34, 42, 41, 43, 44, 52, 51, 53, 54]
def debitCodes : List Int := [27, 26, 28, 29, 37, 36, 38, 39, 47, 46, 48, 49, 55, 56]

def amountBody : Prog :=
  .block (seqs [(.bind "_tag" (.sel (.var "entry") "TransactionCode")),
    (.ite (orEq creditCodes)
      (.block (.assign "credit" (.add (.var "credit") (.sel (.var "entry") "Amount"))))
      (.ite (orEq debitCodes)
        (.block (.assign "debit" (.add (.var "debit") (.sel (.var "entry") "Amount"))))
        .skip))])

def amountsProg : Prog :=
  seqs [(.bind "credit" (.int 0)), (.bind "debit" (.int 0)),
    (seqs [(.forEach "entry" (.fld "Entries") amountBody), (.ret (.pair (.var "credit") (.var "debit")))])]

/-- the translated `Batch.calculateBatchAmounts` is that program: the credit codes are all standard credit, return/NOC
credit, prenote credit and zero-dollar credit codes, the debit codes their debit counterparts (loan: 55, 56 only) -/
theorem calculateBatchAmounts_shape : v_Batch_calculateBatchAmounts = amountsProg := by decide +kernel

theorem orEq_eval (c : Ctx) (l : Locals) (t : Int) (hl : lookup l "_tag" = .int t) :
    ∀ codes : List Int, codes ≠ [] → eval c l (orEq codes) = .bool (codes.contains t) := by
  intro codes
  induction codes with
  | nil => intro h; exact absurd rfl h
  | cons k ks ih =>
      intro _
      cases ks with
      | nil =>
          simp only [orEq, eval, hl, cmpVals]
          by_cases h : t = k <;> simp [h]
      | cons k2 ks2 =>
          have ih' := ih (by simp)
          simp only [orEq, eval, hl, cmpVals] at ih' ⊢
          rw [ih']
          by_cases h : t = k
          · simp [h]
          · simp [h]


/-- what entry `i` adds to the credit / debit total -/
def creditPart (t a : Int) : Int := if creditCodes.contains t then a else 0
def debitPart (t a : Int) : Int := if creditCodes.contains t then 0 else if debitCodes.contains t then a else 0

theorem amountBody_exec (c : Ctx) (ep : String) (t a cr d : Int) (rest : Locals)
    (ht : lookup c.fields (joinPath ep "TransactionCode") = .int t)
    (ha : lookup c.fields (joinPath ep "Amount") = .int a) :
    (exec amountBody c (("entry", .ref ep) :: ("debit", .int d) :: ("credit", .int cr) :: rest)).2 = .next ∧
    scopeExit (("debit", Val.int d) :: ("credit", Val.int cr) :: rest)
      (exec amountBody c (("entry", .ref ep) :: ("debit", .int d) :: ("credit", .int cr) :: rest)).1 =
      ("debit", .int (d + debitPart t a)) :: ("credit", .int (cr + creditPart t a)) :: rest := by
  have hl : lookup (("_tag", Val.int t) :: ("entry", Val.ref ep) :: ("debit", Val.int d) :: ("credit", Val.int cr) :: rest) "_tag" = .int t := by
    simp [lookup]
  have h1 := orEq_eval c _ t hl creditCodes (by decide)
  have h2 := orEq_eval c _ t hl debitCodes (by decide)
  unfold creditPart debitPart
  by_cases hc : t ∈ creditCodes
  · simp [amountBody, seqs, exec, eval, lookup, ht, ha, h1, hc, arith, update, scopeExit]
  · by_cases hd : t ∈ debitCodes
    · simp [amountBody, seqs, exec, eval, lookup, ht, ha, h1, h2, hc, hd, arith, update, scopeExit]
    · simp [amountBody, seqs, exec, eval, lookup, ht, ha, h1, h2, hc, hd, arith, update, scopeExit]


theorem amount_iter (c : Ctx) (p : String) (n : Nat) (tc am : Nat → Int) (rest : Locals)
    (ht : ∀ i, i < n → lookup c.fields (joinPath (elemPath p i) "TransactionCode") = .int (tc i))
    (ha : ∀ i, i < n → lookup c.fields (joinPath (elemPath p i) "Amount") = .int (am i)) :
    ∀ is : List Nat, (∀ i ∈ is, i < n) → ∀ cr d : Int,
      iter (fun l' => exec amountBody c l') (fun i => .ref (elemPath p i)) "entry" is
          (("debit", .int d) :: ("credit", .int cr) :: rest) =
        (("debit", .int (d + (is.map (fun i => debitPart (tc i) (am i))).sum)) ::
          ("credit", .int (cr + (is.map (fun i => creditPart (tc i) (am i))).sum)) :: rest, .next) := by
  intro is
  induction is with
  | nil => intro _ cr d; simp [iter]
  | cons j is ih =>
      intro hlt cr d
      have hj := hlt j (List.mem_cons_self ..)
      obtain ⟨h1, h2⟩ := amountBody_exec c (elemPath p j) (tc j) (am j) cr d rest (ht j hj) (ha j hj)
      simp only [iter, h1, h2]
      rw [ih (fun k hk => hlt k (List.mem_cons_of_mem _ hk))]
      simp only [List.map_cons, List.sum_cons]
      have e1 : d + debitPart (tc j) (am j) + (List.map (fun i => debitPart (tc i) (am i)) is).sum =
          d + (debitPart (tc j) (am j) + (List.map (fun i => debitPart (tc i) (am i)) is).sum) := by omega
      have e2 : cr + creditPart (tc j) (am j) + (List.map (fun i => creditPart (tc i) (am i)) is).sum =
          cr + (creditPart (tc j) (am j) + (List.map (fun i => creditPart (tc i) (am i)) is).sum) := by omega
      rw [e1, e2]

/-- `Batch.calculateBatchAmounts()` returns (Σ credit parts, Σ debit parts) — for batches of any size -/
theorem calculateBatchAmounts_spec (c : Ctx) (p : String) (n : Nat) (tc am : Nat → Int)
    (hE : lookup c.fields (joinPath c.recv "Entries") = .lst p n)
    (ht : ∀ i, i < n → lookup c.fields (joinPath (elemPath p i) "TransactionCode") = .int (tc i))
    (ha : ∀ i, i < n → lookup c.fields (joinPath (elemPath p i) "Amount") = .int (am i)) :
    (exec v_Batch_calculateBatchAmounts c []).2 =
      .ret (.pair (.int (((List.range n).map (fun i => creditPart (tc i) (am i))).sum))
        (.int (((List.range n).map (fun i => debitPart (tc i) (am i))).sum))) := by
  rw [calculateBatchAmounts_shape]
  have hit := amount_iter c p n tc am [] ht ha (List.range n) (fun k hk => List.mem_range.mp hk) 0 0
  simp [amountsProg, seqs, exec, eval, hE, lookup, hit]

def advAmountHalf : Prog :=
  seqs [(seqs [(.sub "_t2" [] [] v_Batch_calculateADVBatchAmounts), (.assign2 "credit" "debit" (.var "_t2"))]),
    (.ite (.ne (.var "debit") (.sel (.fld "ADVControl") "TotalDebitEntryDollarAmount")) (.ret (.mkErr "TotalDebitEntryDollarAmount")) .skip),
    (.ite (.ne (.var "credit") (.sel (.fld "ADVControl") "TotalCreditEntryDollarAmount")) (.ret (.mkErr "TotalCreditEntryDollarAmount")) .skip)]

def isBatchAmountProg : Prog :=
  seqs [(seqs [(.bind "credit" (.int 0)), (.bind "debit" (.int 0))]),
    (.block (seqs [(.sub "_t3" [] [] v_Batch_IsADV),
      (.ite (.not (.var "_t3"))
        (seqs [(seqs [(.sub "_t1" [] [] v_Batch_calculateBatchAmounts), (.assign2 "credit" "debit" (.var "_t1"))]),
          (.ite (.ne (.var "debit") (.sel (.fld "Control") "TotalDebitEntryDollarAmount")) (.ret (.mkErr "TotalDebitEntryDollarAmount")) .skip),
          (.ite (.ne (.var "credit") (.sel (.fld "Control") "TotalCreditEntryDollarAmount")) (.ret (.mkErr "TotalCreditEntryDollarAmount")) .skip)])
        advAmountHalf)])),
    (.ret .nil)]

/-- the translated `Batch.isBatchAmount` is that program -/
theorem isBatchAmount_shape : v_Batch_isBatchAmount = isBatchAmountProg := by decide +kernel

theorem isBatchAmount_accepts (c : Ctx) (hp cp : String) (sec : Str) (C D tcr tdb : Int)
    (hH : lookup c.fields (joinPath c.recv "Header") = .ref hp)
    (hsec : lookup c.fields (joinPath hp "StandardEntryClassCode") = .str sec) (hnadv : sec ≠ ['A', 'D', 'V'])
    (hC : lookup c.fields (joinPath c.recv "Control") = .ref cp)
    (hcr : lookup c.fields (joinPath cp "TotalCreditEntryDollarAmount") = .int tcr)
    (hdb : lookup c.fields (joinPath cp "TotalDebitEntryDollarAmount") = .int tdb)
    (hcalc : (exec v_Batch_calculateBatchAmounts c []).2 = .ret (.pair (.int C) (.int D)))
    (h : (exec v_Batch_isBatchAmount c []).2 = .ret (.err none)) : tcr = C ∧ tdb = D := by
  rw [isBatchAmount_shape] at h
  have hadv : (exec v_Batch_IsADV c []).2 = .ret (.bool false) := by
    simp [v_Batch_IsADV, seqs, exec, eval, hH, hsec, cmpVals, lookup, hnadv]
  by_cases h1 : D = tdb <;> by_cases h2 : C = tcr <;>
    simp [isBatchAmountProg, seqs, exec, eval, hC, hcr, hdb, hadv, hcalc, subResult, lookup, cmpVals, scopeExit, update, h1, h2] at h ⊢

/-- the statement of `Batch.verify` that runs `isBatchAmount` is the sixth, and the five before it can only reject -/
theorem verify_runs_amount_check :
    (stmts v_Batch_verify).drop 5 = (.check none v_Batch_isBatchAmount) :: (stmts v_Batch_verify).drop 6 ∧
    (stmts v_Batch_verify).drop 6 ≠ [] ∧
    ((stmts v_Batch_verify).take 5).all (fun q => rejectOnly q && noAssign q) = true := by
  decide +kernel

/-- C03, debit and credit totals — for every standard (non-ADV) batch value, of any size: if `Batch.verify()`
(translated from the source on this run) returns nil, the control's credit total is the sum of the amounts of the entries
whose transaction code is a credit code, and its debit total the sum over the debit codes -/
theorem accepted_batch_totals (c : Ctx) (hp cp p : String) (n : Nat) (tc am : Nat → Int) (sec : Str) (tcr tdb : Int)
    (hH : lookup c.fields (joinPath c.recv "Header") = .ref hp)
    (hsec : lookup c.fields (joinPath hp "StandardEntryClassCode") = .str sec) (hnadv : sec ≠ ['A', 'D', 'V'])
    (hC : lookup c.fields (joinPath c.recv "Control") = .ref cp)
    (hcr : lookup c.fields (joinPath cp "TotalCreditEntryDollarAmount") = .int tcr)
    (hdb : lookup c.fields (joinPath cp "TotalDebitEntryDollarAmount") = .int tdb)
    (hE : lookup c.fields (joinPath c.recv "Entries") = .lst p n)
    (ht : ∀ i, i < n → lookup c.fields (joinPath (elemPath p i) "TransactionCode") = .int (tc i))
    (ham : ∀ i, i < n → lookup c.fields (joinPath (elemPath p i) "Amount") = .int (am i))
    (ha : run c v_Batch_verify = .accept) :
    tcr = ((List.range n).map (fun i => creditPart (tc i) (am i))).sum ∧
    tdb = ((List.range n).map (fun i => debitPart (tc i) (am i))).sum := by
  have hres := Ach.Props.Validators.accept_ret c _ ha
  obtain ⟨hd, hne, hall⟩ := verify_runs_amount_check
  have hs : stmts v_Batch_verify = (stmts v_Batch_verify).take 5 ++ (stmts v_Batch_verify).drop 5 :=
    (List.take_append_drop _ _).symm
  obtain ⟨pre, hpre⟩ := accept_reaches c _ _ _ hs (by rw [hd]; simp) hall hres
  rw [hd, seqs_cons_ne _ _ hne] at hpre
  have hpass := Ach.Props.Accepted.accept_seq_left (by decide) hpre
  exact isBatchAmount_accepts c hp cp sec _ _ tcr tdb hH hsec hnadv hC hcr hdb
    (calculateBatchAmounts_spec c p n tc am hE ht ham) (Ach.Props.AcceptedHash.check_passes c pre none _ hpass)

/-- the code lists are disjoint, so every entry counts on one side at most -/
theorem credit_debit_disjoint : creditCodes.all (fun k => !debitCodes.contains k) = true := by decide

end Ach.Props.AcceptedAmounts
