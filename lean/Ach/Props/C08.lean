import Ach.Proofs.Merge
import Ach.Generated.Pipeline
/-!
# C08 — merging conserves entries: nothing lost, duplicated or invented

Model `Ach.Model.Merge` of merge.go (`outFile.add` with `pickOutFile` / `findOutBatch` / the ordered map's `Set`,
and `convertToFiles`).  Entries are abstract (trace key, line count, amount, opaque payload); a batch header is the key
`BatchHeader.Equal` compares; a file header its (origin, destination) pair.

* `merge_conserves` — for every list of files (any length, any order, repeated files, colliding traces) the multiset of
  (route, header key, entry) triples accumulated equals the inputs' multiset;
* `merge_order_independent` — hence any permutation of the inputs gives the same multiset;
* `merge_separates_routes` — out-files have pairwise different routes, and every entry sits in the out-file of its own route;
* `convert_conserves` — `convertToFiles` writes each route's entries, in order, each into exactly one output batch,
  whatever the limits (splits inside a batch included).

Tie: body hashes of the merge functions (`merge_functions_unchanged`, regenerated); behavioural: the C08/C09 oracles
compare multisets on the real `MergeFiles` over the same input space.  Not modelled: `Batch.Create` on the output
batches (C05), IAT/ADV batches (ignored by merge), ValidateOpts merging.
-/
namespace Ach.Props.C08
open Ach.Merge

theorem merge_conserves (fs : List InFile) : (triplesOut (addFiles fs [])).Perm (triplesIn fs) := by
  have := addFiles_perm fs []
  simpa [triplesOut] using this

theorem merge_order_independent (fs fs' : List InFile) (h : fs.Perm fs') :
    (triplesOut (addFiles fs [])).Perm (triplesOut (addFiles fs' [])) :=
  (merge_conserves fs).trans ((triplesIn_perm h).trans (merge_conserves fs').symm)

theorem merge_separates_routes (fs : List InFile) :
    routesDistinct (addFiles fs []) ∧
    ∀ o ∈ addFiles fs [], ∀ t ∈ batchTriples o.route o.batches, t.1 = o.route := by
  refine ⟨addFiles_distinct fs [] (by simp [routesDistinct]), ?_⟩
  intro o _ t ht
  simp only [batchTriples, List.mem_flatMap, List.mem_map] at ht
  obtain ⟨b, _, e, _, rfl⟩ := ht
  rfl

theorem convert_conserves (c : Cond) (o : OutFile) :
    (convertOne c o).flatMap wfileEntries = o.batches.flatMap (·.entries) := convertOne_entries c o

/-- F: the merge functions the model mirrors are unchanged -/
theorem merge_functions_unchanged :
    (Ach.Gen.pipeHashes.filter (fun p => ["outFile.add", "convertToFiles", "pickOutFile", "findOutBatch", "MergeFilesWith"].contains p.1)) =
      [("outFile.add", 9671880382220691324), ("convertToFiles", 15561074837895817077),
       ("pickOutFile", 2740749275185348098), ("findOutBatch", 13694440567599775285), ("MergeFilesWith", 6631182081924706875)] := by decide +kernel

/-- non-vacuity: two files on one route with a colliding trace under the same header: three triples in, three out,
the colliding entry in a second batch -/
example : let f1 : InFile := ⟨(1, 2), [⟨7, [⟨1, 1, 100, 0⟩, ⟨2, 1, 50, 1⟩]⟩]⟩
          let f2 : InFile := ⟨(1, 2), [⟨7, [⟨1, 1, 30, 2⟩]⟩]⟩
    (addFiles [f1, f2] []).map (fun o => o.batches.map (fun b => b.entries.map (·.payload))) = [[[0, 1], [2]]] := by decide

end Ach.Props.C08
