import Ach.Proofs.GoLiteCalm
import Ach.Props.AcceptedServiceClass
/-!
# Every entry of an accepted batch passed `EntryDetail.Validate` (C03)

`Batch.verify` starts with `isFieldInclusion`, which validates the header, then — for a batch that is not an ADV batch —
every entry with `EntryDetail.Validate()` and each of its addenda with that addenda's validator, then the control.  An
accepting run therefore accepted every entry; with `accepted_entry_check_digit` and `entry_amount_in_field` the
per-entry clauses of C03 hold of every entry of an accepted batch, however many there are.
-/
namespace Ach.Props.AcceptedEntries
open Ach Ach.GoLite Ach.Gen

/-- the branch of `isFieldInclusion` for batches that are not ADV batches, read off the translated program -/
def stdPart : Prog :=
  match (stmts v_Batch_isFieldInclusion)[1]? with
  | some (Prog.block (Prog.seq _ (Prog.ite _ t _))) => t
  | _ => .skip

def entryBody : Prog :=
  match (stmts stdPart)[0]? with
  | some (Prog.forEach _ _ b) => b
  | _ => .skip

def stdBlock : Prog := .block (.seq (.sub "_t1" [] [] v_Batch_IsADV) (.ite (.not (.var "_t1")) stdPart .skip))

def callEntryValidate : Prog := .checkOn none (.var "entry") [] [] v_EntryDetail_Validate

theorem field_inclusion_outline :
    (stmts v_Batch_verify).drop 1 = (.check (some "!FieldError") v_Batch_isFieldInclusion) :: (stmts v_Batch_verify).drop 2 ∧
    (stmts v_Batch_verify).drop 2 ≠ [] ∧
    ((stmts v_Batch_verify).take 1).all (fun q => rejectOnly q && noAssign q) = true ∧
    stmts v_Batch_isFieldInclusion =
      (.checkOn none (.fld "Header") [] [] v_BatchHeader_Validate) ::
      stdBlock :: (stmts v_Batch_isFieldInclusion).drop 2 ∧
    (stmts v_Batch_isFieldInclusion).drop 2 ≠ [] ∧
    endsInRet stdPart = true ∧
    stmts stdPart = (.forEach "entry" (.fld "Entries") entryBody) :: (stmts stdPart).drop 1 ∧
    (stmts stdPart).drop 1 ≠ [] ∧
    rejectOnly (.forEach "entry" (.fld "Entries") entryBody) = true ∧
    calm entryBody = true ∧
    stmts entryBody = callEntryValidate :: (stmts entryBody).drop 1 ∧
    (stmts entryBody).drop 1 ≠ [] := by
  decide +kernel

theorem checkOn_var_passes (c : Ctx) (ep : String) (l : Locals) (P : Prog)
    (h : (exec (.checkOn none (.var "entry") [] [] P) c (("entry", .ref ep) :: l)).2 = .next) :
    (exec P { c with recv := ep } []).2 = .ret (.err none) := by
  simp only [exec, eval, List.map_nil] at h
  simp [lookup] at h
  generalize (exec P { c with recv := ep } []).2 = s at h ⊢
  cases s with
  | ret v =>
      cases v with
      | err t =>
          cases t with
          | none => rfl
          | some t => simp [checkResult] at h
      | _ => simp [checkResult] at h
  | _ => simp [checkResult] at h

/-- C03 — for every standard (non-ADV) batch value, of any size: if `Batch.verify()` (translated from the source on this
run) returns nil, then `EntryDetail.Validate()` returned nil for **every** entry of the batch -/
theorem accepted_batch_entries_validated (c : Ctx) (hp p : String) (n : Nat) (sec : Str)
    (hH : lookup c.fields (joinPath c.recv "Header") = .ref hp)
    (hsec : lookup c.fields (joinPath hp "StandardEntryClassCode") = .str sec) (hnadv : sec ≠ ['A', 'D', 'V'])
    (hE : lookup c.fields (joinPath c.recv "Entries") = .lst p n)
    (ha : run c v_Batch_verify = .accept) :
    ∀ i, i < n → run { c with recv := elemPath p i } v_EntryDetail_Validate = .accept := by
  intro i hi
  have hres := Ach.Props.Validators.accept_ret c _ ha
  obtain ⟨hd1, hne2, hall1, hFI, hneFI, hend, hSP, hneSP, hroF, hcalm, hEB, hneEB⟩ := field_inclusion_outline
  -- Batch.verify ran isFieldInclusion
  have hs : stmts v_Batch_verify = (stmts v_Batch_verify).take 1 ++ (stmts v_Batch_verify).drop 1 :=
    (List.take_append_drop _ _).symm
  obtain ⟨pre, h1⟩ := accept_reaches c _ _ _ hs (by rw [hd1]; simp) hall1 hres
  rw [hd1, seqs_cons_ne _ _ hne2] at h1
  have hfi := Ach.Props.AcceptedHash.check_passes c pre _ _ (Ach.Props.Accepted.accept_seq_left (by decide) h1)
  -- isFieldInclusion: past the header, into the branch for standard batches
  rw [← seqs_stmts v_Batch_isFieldInclusion, hFI, seqs_cons_ne _ _ (by simp)] at hfi
  obtain ⟨pre2, h2⟩ := accept_seq (a := .checkOn none (.fld "Header") [] [] v_BatchHeader_Validate) (by decide) (by decide) hfi
  rw [seqs_cons_ne _ _ hneFI] at h2
  have hadv : (exec v_Batch_IsADV c []).2 = .ret (.bool false) := by
    simp [v_Batch_IsADV, seqs, exec, eval, hH, hsec, cmpVals, lookup, hnadv]
  simp only [List.append_nil] at h2
  have hb : (exec stdBlock c pre2).2 = (exec stdPart c (("_t1", .bool false) :: pre2)).2 := by
    simp [stdBlock, exec, eval, hadv, subResult, lookup]
  have hnn := endsInRet_not_next stdPart hend c (("_t1", .bool false) :: pre2)
  have hstd : (exec stdPart c (("_t1", .bool false) :: pre2)).2 = .ret (.err none) := by
    simp only [exec] at h2
    cases hx : exec stdBlock c pre2 with
    | mk l1 s1 =>
      rw [hx] at h2 hb
      simp only at hb
      cases s1 with
      | next => exact absurd hb.symm hnn
      | ret v => simp only at h2; rw [← hb]; exact h2
      | brk => simp at h2
      | cont => simp at h2
      | stuck _ => simp at h2
  -- the entry loop
  rw [← seqs_stmts stdPart, hSP, seqs_cons_ne _ _ hneSP] at hstd
  have hloop := Ach.Props.Accepted.accept_seq_left hroF hstd
  simp only [exec, eval, hE] at hloop
  have hbody := Ach.Props.AcceptedFileBatches.iter_all_pass (fun l' => exec entryBody c l') (fun k => .ref (elemPath p k)) "entry"
    (fun l' hp' => calm_suffix entryBody hcalm c l' hp') (List.range n) _ (by rw [hloop]; exact Or.inl rfl)
    i (List.mem_range.mpr hi)
  rw [← seqs_stmts entryBody, hEB, seqs_cons_ne _ _ hneEB] at hbody
  have hcall := Ach.Props.AcceptedServiceClass.seq_next_left hbody
  have hv := checkOn_var_passes c (elemPath p i) _ _ hcall
  unfold run
  rw [hv]

/-- C03, per entry — hence in every accepted standard batch, every entry has its check digit right (unless
`AllowInvalidCheckDigit`) and an amount between 0 and 9,999,999,999 -/
theorem accepted_batch_every_entry (c : Ctx) (hp p : String) (n : Nat) (sec : Str) (rdfi cd : Nat → Str)
    (hH : lookup c.fields (joinPath c.recv "Header") = .ref hp)
    (hsec : lookup c.fields (joinPath hp "StandardEntryClassCode") = .str sec) (hnadv : sec ≠ ['A', 'D', 'V'])
    (hE : lookup c.fields (joinPath c.recv "Entries") = .lst p n)
    (hr : ∀ i, i < n → lookup c.fields (joinPath (elemPath p i) "RDFIIdentification") = .str (rdfi i))
    (hc : ∀ i, i < n → lookup c.fields (joinPath (elemPath p i) "CheckDigit") = .str (cd i))
    (ha : run c v_Batch_verify = .accept) :
    ∀ i, i < n → (hasFlag c "recv" "AllowInvalidCheckDigit" = false →
      atoi (cd i) = some (calculateCheckDigit (stringField (rdfi i) 8))) := by
  intro i hi hflag
  have hv := accepted_batch_entries_validated c hp p n sec hH hsec hnadv hE ha i hi
  exact Ach.Props.Accepted.accepted_entry_check_digit { c with recv := elemPath p i } hflag (rdfi i) (cd i) (hr i hi) (hc i hi) hv


/-- `entry_amount_in_field` for an entry stored anywhere (receiver path arbitrary) -/
theorem entry_amount_in_field_at (c : Ctx) (a : Int) (hf : lookup c.fields (joinPath c.recv "Amount") = .int a)
    (ha : run c v_EntryDetail_Validate = .accept) : 0 ≤ a ∧ a ≤ 9999999999 := by
  have hres := Ach.Props.Validators.accept_ret c _ ha
  have h1 := spine_sound c v_EntryDetail_Validate [] (Or.inl hres) (.lt (.fld "Amount") (.int 0)) (by decide +kernel)
  have h2 := spine_sound c v_EntryDetail_Validate [] (Or.inl hres) (.gt (.fld "Amount") (.int 9999999999)) (by decide +kernel)
  simp [eval, hf, cmpVals] at h1 h2
  omega

/-- C03, per entry — … and an amount between 0 and 9,999,999,999 (the `amountOverflowsField` guard stands on the spine of
`EntryDetail.Validate`) -/
theorem accepted_batch_every_amount (c : Ctx) (hp p : String) (n : Nat) (sec : Str) (am : Nat → Int)
    (hH : lookup c.fields (joinPath c.recv "Header") = .ref hp)
    (hsec : lookup c.fields (joinPath hp "StandardEntryClassCode") = .str sec) (hnadv : sec ≠ ['A', 'D', 'V'])
    (hE : lookup c.fields (joinPath c.recv "Entries") = .lst p n)
    (hamt : ∀ i, i < n → lookup c.fields (joinPath (elemPath p i) "Amount") = .int (am i))
    (ha : run c v_Batch_verify = .accept) :
    ∀ i, i < n → 0 ≤ am i ∧ am i ≤ 9999999999 := by
  intro i hi
  have hv := accepted_batch_entries_validated c hp p n sec hH hsec hnadv hE ha i hi
  exact entry_amount_in_field_at { c with recv := elemPath p i } (am i) (hamt i hi) hv


/-- C03, end to end — for every file value of standard batches (any number of batches, any sizes) on which
`File.ValidateWith(opts)` — translated from the source on this run — returns nil without `SkipAll`: every entry of every
batch was accepted by `EntryDetail.Validate()` -/
theorem accepted_file_every_entry (c : Ctx) (bp : String) (nb : Nat)
    (hB : lookup c.fields (joinPath c.recv "Batches") = .lst bp nb)
    (hskip : hasFlag c "param" "SkipAll" = false)
    (hnadv : (exec v_File_IsADV c []).2 = .ret (.bool false))
    (ha : run c v_File_ValidateWith = .accept)
    (i : Nat) (hi : i < nb) (T : String) (hT : lookup c.fields (joinPath (elemPath bp i) "$type") = .str T.toList)
    (hTn : T ≠ "BatchADV")
    (hp p : String) (n : Nat) (sec : Str)
    (hH : lookup c.fields (joinPath (elemPath bp i) "Header") = .ref hp)
    (hsec : lookup c.fields (joinPath hp "StandardEntryClassCode") = .str sec) (hsn : sec ≠ ['A', 'D', 'V'])
    (hE : lookup c.fields (joinPath (elemPath bp i) "Entries") = .lst p n) :
    ∀ j, j < n → run { c with recv := elemPath p j } v_EntryDetail_Validate = .accept := by
  have hv := Ach.Props.AcceptedFileBatches.accepted_file_batches_verified c bp nb hB hskip hnadv ha i hi T hT hTn
  exact accepted_batch_entries_validated { c with recv := elemPath bp i } hp p n sec hH hsec hsn hE hv

end Ach.Props.AcceptedEntries
