import Ach.Generated.Addenda
/-!
# Which addenda records hang off an entry: every function agrees (shared by C02, C05, C09)

`EntryDetail.addendaCount` is what `Batch.build`, `Batch.isBatchEntryCount` and the merge line budget use for "records
this entry occupies"; `Writer.writeBatch` decides what is physically written.  The Addenda* fields each of them selects
are re-extracted from the source on every run; the obligations say they are the same sets, and that no addenda field of
the entry structs is forgotten by either.  Same for IAT entries (`IATBatch.isBatchEntryCount` vs `Writer.writeIATBatch`).
-/
namespace Ach.Props.Addenda
open Ach.Gen

def fieldsOf (k : String) : List String := (addendaFields.lookup k).getD ["?"]

def sameSet (a b : List String) : Bool := a.all b.contains && b.all a.contains

/-- standard entries: what is counted = what is written = every addenda field of the struct -/
theorem addenda_counted_are_written :
    sameSet (fieldsOf "EntryDetail.addendaCount") (fieldsOf "Writer.writeBatch") = true ∧
    sameSet (fieldsOf "EntryDetail.addendaCount") (fieldsOf "struct:EntryDetail") = true := by decide

/-- IAT entries: what the batch counts = what is written = every addenda field of the struct -/
theorem iat_addenda_counted_are_written :
    sameSet (fieldsOf "IATBatch.isBatchEntryCount") (fieldsOf "Writer.writeIATBatch") = true ∧
    sameSet (fieldsOf "IATBatch.isBatchEntryCount") (fieldsOf "struct:IATEntryDetail") = true := by decide

/-- ADV entries carry at most an Addenda99, which the standard writer loop emits for them -/
theorem adv_addenda_written :
    (fieldsOf "struct:ADVEntryDetail").all (fieldsOf "Writer.writeBatch").contains = true := by decide

/-- C05: every SEC-specific `Create` is "build, then Validate" — `Batch.build` is the model of `Ach.Model.Create`
(C05's theorems), `BatchXXX.Validate` the translated validator of `Ach.Props.Validators`; there is one wrapper per SEC
code, and one for IAT batches -/
theorem create_wrappers_are_build_then_validate :
    createWrappers.all (fun w => w.2 == "if err := r.build(); err != nil { return err }; return r.Validate()") = true ∧
    createWrappers.length = 23 := by decide

end Ach.Props.Addenda
