import Ach.Props.AcceptedAmounts
import Ach.Model.Validate
/-!
# The hand-written validation model computes what the translated code computes

`Ach.Model.Validate` (`batchHash`, `creditTotal`, `debitTotal`: used by C03's `validate_sound_batch`, by the `Create`
model of C05 for the control it tabulates, and by C04) was written by hand from batch.go.  Here its three sums are shown
to be the values the functions `Batch.calculateEntryHash` and `Batch.calculateBatchAmounts` return **as translated from
the source on this run**, for every entry list stored in a context.
-/
namespace Ach.Props.ModelBridge
open Ach Ach.GoLite Ach.Gen

theorem sumBy_eq_sum {α} (f : α → Int) (l : List α) : sumBy f l = (l.map f).sum := by
  unfold sumBy
  have : ∀ (acc : Int), l.foldl (fun acc x => acc + f x) acc = acc + (l.map f).sum := by
    induction l with
    | nil => intro acc; simp
    | cons x xs ih => intro acc; simp only [List.foldl_cons, List.map_cons, List.sum_cons]; rw [ih]; omega
  rw [this 0]; simp

theorem map_range_getD {α β} (l : List α) (d : α) (g : α → β) :
    (List.range l.length).map (fun i => g (l.getD i d)) = l.map g := by
  apply List.ext_getElem
  · simp
  · intro i h1 h2
    simp at h1
    simp [List.getD, h1]

instance : Inhabited VEntry := ⟨⟨0, [], [], 0, [], 0, true⟩⟩

/-- the entries of a standard batch, stored under `p[0] … p[n-1]` -/
structure Stored (c : Ctx) (es : List VEntry) where
  hp : String
  p : String
  sec : Str
  hH : lookup c.fields (joinPath c.recv "Header") = .ref hp
  hsec : lookup c.fields (joinPath hp "StandardEntryClassCode") = .str sec
  hnadv : sec ≠ ['A', 'D', 'V']
  hE : lookup c.fields (joinPath c.recv "Entries") = .lst p es.length
  hr : ∀ i, i < es.length → lookup c.fields (joinPath (elemPath p i) "RDFIIdentification") = .str (es.getD i default).rdfi
  ht : ∀ i, i < es.length → lookup c.fields (joinPath (elemPath p i) "TransactionCode") = .int (es.getD i default).code
  ha : ∀ i, i < es.length → lookup c.fields (joinPath (elemPath p i) "Amount") = .int (es.getD i default).amount

theorem rdfiNumber_eq (e : VEntry) : Ach.Props.AcceptedHash.rdfiNumber e.rdfi = rdfiValue e := by
  unfold Ach.Props.AcceptedHash.rdfiNumber rdfiValue
  cases atoi (aba8 e.rdfi) <;> rfl

/-- the model's `batchHash` is what the translated `Batch.calculateEntryHash` returns -/
theorem code_hash_is_model_hash (c : Ctx) (es : List VEntry) (S : Stored c es)
    (hascii : ∀ e ∈ es, allAscii e.rdfi = true) :
    (exec v_Batch_calculateEntryHash c []).2 = .ret (.int (batchHash es)) := by
  have hc : ∀ i, i < es.length → Ach.Props.AcceptedHash.rdfiContribution c (es.getD i default).rdfi =
      some (Ach.Props.AcceptedHash.rdfiNumber (es.getD i default).rdfi) := by
    intro i hi
    apply Ach.Props.AcceptedHash.rdfiContribution_ascii
    apply hascii
    simp [List.getD, hi]
  rw [Ach.Props.AcceptedHash.calculateEntryHash_spec c S.hp S.p es.length (fun i => (es.getD i default).rdfi)
    (fun i => Ach.Props.AcceptedHash.rdfiNumber (es.getD i default).rdfi) S.sec S.hH S.hsec S.hnadv S.hE S.hr hc]
  unfold batchHash
  rw [sumBy_eq_sum, ← map_range_getD es default rdfiValue]
  simp only [rdfiNumber_eq]

/-- the code lists read off the translated program are the lists the model takes from the generated switch table -/
theorem code_lists_agree :
    (Ach.Props.AcceptedAmounts.creditCodes.all (fun k => Ach.creditCodes.contains k) &&
     Ach.creditCodes.all (fun k => Ach.Props.AcceptedAmounts.creditCodes.contains k) &&
     Ach.Props.AcceptedAmounts.debitCodes.all (fun k => Ach.debitCodes.contains k) &&
     Ach.debitCodes.all (fun k => Ach.Props.AcceptedAmounts.debitCodes.contains k)) = true := by
  decide +kernel

theorem contains_agree {A B : List Int} (h1 : A.all (fun k => B.contains k) = true) (h2 : B.all (fun k => A.contains k) = true)
    (t : Int) : A.contains t = B.contains t := by
  rw [Bool.eq_iff_iff]
  simp only [List.contains_iff_mem]
  constructor
  · intro h; have := List.all_eq_true.mp h1 t h; simpa using this
  · intro h; have := List.all_eq_true.mp h2 t h; simpa using this

/-- the model's `creditTotal` / `debitTotal` are what the translated `Batch.calculateBatchAmounts` returns -/
theorem code_totals_are_model_totals (c : Ctx) (es : List VEntry) (S : Stored c es) :
    (exec v_Batch_calculateBatchAmounts c []).2 = .ret (.pair (.int (creditTotal es)) (.int (debitTotal es))) := by
  rw [Ach.Props.AcceptedAmounts.calculateBatchAmounts_spec c S.p es.length (fun i => (es.getD i default).code)
    (fun i => (es.getD i default).amount) S.hE S.ht S.ha]
  have hl := code_lists_agree
  simp only [Bool.and_eq_true] at hl
  obtain ⟨⟨⟨c1, c2⟩, d1⟩, d2⟩ := hl
  have hdis := Ach.Props.AcceptedAmounts.credit_debit_disjoint
  have hcp : ∀ e : VEntry, Ach.Props.AcceptedAmounts.creditPart e.code e.amount =
      (if Ach.creditCodes.contains e.code then e.amount else 0) := by
    intro e
    unfold Ach.Props.AcceptedAmounts.creditPart
    rw [contains_agree c1 c2]
  have hdp : ∀ e : VEntry, Ach.Props.AcceptedAmounts.debitPart e.code e.amount =
      (if Ach.debitCodes.contains e.code then e.amount else 0) := by
    intro e
    unfold Ach.Props.AcceptedAmounts.debitPart
    rw [← contains_agree d1 d2]
    by_cases hc : e.code ∈ Ach.Props.AcceptedAmounts.creditCodes
    · have hnd : e.code ∉ Ach.Props.AcceptedAmounts.debitCodes := by
        have := List.all_eq_true.mp hdis e.code hc
        simpa using this
      simp [hc, hnd]
    · simp [hc]
  unfold creditTotal debitTotal
  rw [sumBy_eq_sum, sumBy_eq_sum, ← map_range_getD es default (fun e => if Ach.creditCodes.contains e.code then e.amount else 0),
    ← map_range_getD es default (fun e => if Ach.debitCodes.contains e.code then e.amount else 0)]
  simp only [hcp, hdp]

end Ach.Props.ModelBridge
