import Ach.Proofs.GoLite
import Ach.Generated.Validators
/-!
# `BatchHeader.Equal` is equality of a key (shared by C08, C09)

The merge model (`Ach.Model.Merge`) groups batches by an abstract header key; the theorems of C08 / C09 hold for any
key.  What the real `MergeFiles` groups by is `BatchHeader.Equal`.  That function is translated from the source on
every run (`v_BatchHeader_Equal`); here it is shown to be — today — the comparison program over seven fields
(`equal_is_key_comparison`, by evaluation), and every program of that form is shown to return `true` exactly when the
two headers have the same key (`equalProg_spec`, `equal_true_iff_same_key`): so `Equal` is an equivalence relation and
the harness' `HeaderID` (the same seven fields, company name case-folded) is the key the model speaks about.  A change
to `Equal` that makes it something other than a conjunction of field comparisons, or changes the fields, breaks the
first obligation.

Domain: headers whose `ServiceClassCode` is an int, whose other six fields are strings and whose `CompanyName` is
ASCII (`strings.EqualFold` on non-ASCII text is outside the embedding).
-/
namespace Ach.Props.HeaderKey
open Ach Ach.GoLite Ach.Gen

/-- one comparison: field name, whether it is compared with `strings.EqualFold`, whether the field is an int -/
def cmpStmt (f : String × Bool × Bool) : Prog :=
  if f.2.1 then
    .ite (.not (.call2 "strings.EqualFold" (.fld f.1) (.sel (.var "other") f.1))) (.ret (.bool false)) .skip
  else
    .ite (.ne (.fld f.1) (.sel (.var "other") f.1)) (.ret (.bool false)) .skip

def tailProg (fs : List (String × Bool × Bool)) : Prog := seqs (fs.map cmpStmt ++ [.ret (.bool true)])

def nilGuard : Prog := .ite (.or (.bool false) (.eq (.var "other") .nil)) (.ret (.bool false)) .skip

def equalProg (fs : List (String × Bool × Bool)) : Prog := .seq nilGuard (tailProg fs)

/-- the fields `BatchHeader.Equal` compares today -/
def keyFields : List (String × Bool × Bool) :=
  [("ServiceClassCode", false, true), ("CompanyName", true, false), ("CompanyIdentification", false, false),
   ("StandardEntryClassCode", false, false), ("CompanyEntryDescription", false, false), ("EffectiveEntryDate", false, false),
   ("ODFIIdentification", false, false)]

/-- the translated `BatchHeader.Equal` is the comparison program over `keyFields` -/
theorem equal_is_key_comparison : v_BatchHeader_Equal = equalProg keyFields := by decide +kernel

/-- normalised value of a key field: strings compared with EqualFold are upper-cased -/
def norm (k : Bool × Bool) (v : Val) : Option Val :=
  match v with
  | .int i => if k.2 && !k.1 then some (.int i) else none
  | .str s => if k.2 then none else if k.1 then (if allAscii s then some (.str (s.map toUpperAscii)) else none) else some (.str s)
  | _ => none

/-- the key of the header stored under path `p` -/
def key (c : Ctx) (p : String) (fs : List (String × Bool × Bool)) : List (Option Val) :=
  fs.map (fun f => norm f.2 (lookup c.fields (joinPath p f.1)))

def wellTyped (c : Ctx) (p : String) (fs : List (String × Bool × Bool)) : Prop := ∀ k ∈ key c p fs, k ≠ none

theorem seqs_cons (p : Prog) (ps : List Prog) (h : ps ≠ []) : seqs (p :: ps) = .seq p (seqs ps) := by
  cases ps with
  | nil => exact absurd rfl h
  | cons q qs => rfl

theorem tailProg_cons (f : String × Bool × Bool) (fs : List (String × Bool × Bool)) :
    tailProg (f :: fs) = .seq (cmpStmt f) (tailProg fs) := by
  unfold tailProg
  rw [List.map_cons, List.cons_append, seqs_cons _ _ (by simp)]

/-- one comparison statement: falls through when the normalised values agree, returns false when they differ -/
theorem cmpStmt_exec (c : Ctx) (q : String) (l : Locals) (hl : lookup l "other" = .ref q) (f : String × Bool × Bool)
    (a b : Val) (ha : norm f.2 (lookup c.fields (joinPath c.recv f.1)) = some a)
    (hb : norm f.2 (lookup c.fields (joinPath q f.1)) = some b) :
    exec (cmpStmt f) c l = if a = b then (l, .next) else (l, .ret (.bool false)) := by
  obtain ⟨n, fold, isInt⟩ := f
  cases fold with
  | false =>
      show exec (.ite (.ne (.fld n) (.sel (.var "other") n)) (.ret (.bool false)) .skip) c l = _
      simp only [exec, eval, hl]
      generalize lookup c.fields (joinPath c.recv n) = va at ha
      generalize lookup c.fields (joinPath q n) = vb at hb
      cases isInt <;> cases va <;> cases vb <;> simp [norm] at ha hb
      · rename_i x y
        subst ha; subst hb
        by_cases he : x = y <;> simp [cmpVals, he, scopeExit, exec, eval]
      · rename_i x y
        subst ha; subst hb
        by_cases he : x = y <;> simp [cmpVals, he, scopeExit, exec, eval]
  | true =>
      show exec (.ite (.not (.call2 "strings.EqualFold" (.fld n) (.sel (.var "other") n))) (.ret (.bool false)) .skip) c l = _
      simp only [exec, eval, hl]
      generalize lookup c.fields (joinPath c.recv n) = va at ha
      generalize lookup c.fields (joinPath q n) = vb at hb
      cases isInt <;> cases va <;> cases vb <;> simp [norm] at ha hb
      rename_i s t
      obtain ⟨hs, ha⟩ := ha
      obtain ⟨ht, hb⟩ := hb
      subst ha; subst hb
      by_cases he : List.map toUpperAscii s = List.map toUpperAscii t
      · simp [builtin2, hs, ht, he, scopeExit, exec, eval]
      · have hne : (List.map toUpperAscii s == List.map toUpperAscii t) = false := by simpa using he
        simp [builtin2, hs, ht, he, hne, scopeExit, exec, eval]

/-- every program of the comparison form returns whether the two keys are equal -/
theorem tailProg_spec (c : Ctx) (q : String) (l : Locals) (hl : lookup l "other" = .ref q) :
    ∀ fs, wellTyped c c.recv fs → wellTyped c q fs →
      (exec (tailProg fs) c l).2 = .ret (.bool (decide (key c c.recv fs = key c q fs))) := by
  intro fs
  induction fs with
  | nil => intro _ _; simp [tailProg, seqs, exec, eval, key]
  | cons f fs ih =>
      intro h1 h2
      rw [tailProg_cons]
      have w1 : wellTyped c c.recv fs := fun k hk => h1 k (by simp [key] at hk ⊢; exact Or.inr hk)
      have w2 : wellTyped c q fs := fun k hk => h2 k (by simp [key] at hk ⊢; exact Or.inr hk)
      have ha := h1 (norm f.2 (lookup c.fields (joinPath c.recv f.1))) (by simp [key])
      have hb := h2 (norm f.2 (lookup c.fields (joinPath q f.1))) (by simp [key])
      obtain ⟨a, ha'⟩ := Option.ne_none_iff_exists'.mp ha
      obtain ⟨b, hb'⟩ := Option.ne_none_iff_exists'.mp hb
      simp only [exec, cmpStmt_exec c q l hl f a b ha' hb']
      by_cases hab : a = b
      · simp only [hab, if_true]
        rw [ih w1 w2]
        have : (key c c.recv (f :: fs) = key c q (f :: fs)) ↔ (key c c.recv fs = key c q fs) := by
          simp only [key, List.map_cons, List.cons.injEq, ha', hb', hab, true_and]
        simp only [this]
      · simp only [hab, if_false]
        have : ¬ (key c c.recv (f :: fs) = key c q (f :: fs)) := by
          simp only [key, List.map_cons, List.cons.injEq, ha', hb', Option.some.injEq, hab, false_and, not_false_eq_true]
        simp [this]

/-- C08 / C09: `BatchHeader.Equal(a, b)` (a the receiver, b a non-nil header) is `true` exactly when the two headers
have the same key — for every pair of well-typed headers.  Hence it is reflexive, symmetric and transitive, and two
batches are merged together exactly when their keys coincide. -/
theorem equal_true_iff_same_key (c : Ctx) (q : String)
    (h1 : wellTyped c c.recv keyFields) (h2 : wellTyped c q keyFields) :
    (exec v_BatchHeader_Equal c [("other", .ref q)]).2 =
      .ret (.bool (decide (key c c.recv keyFields = key c q keyFields))) := by
  rw [equal_is_key_comparison]
  have hl : lookup [("other", Val.ref q)] "other" = .ref q := by simp [lookup]
  have hg : exec nilGuard c [("other", Val.ref q)] = ([("other", Val.ref q)], .next) := by
    simp [nilGuard, exec, eval, lookup, cmpVals, scopeExit]
  simp only [equalProg, exec, hg]
  exact tailProg_spec c q _ hl keyFields h1 h2

/-- non-vacuity: two concrete headers that differ only in the case of the company name are equal; changing the
effective entry date makes them different -/
def twoHeaders (date2 : String) : Ctx where
  fields := [("a.ServiceClassCode", .int 200), ("a.CompanyName", .str "Acme Corp".toList), ("a.CompanyIdentification", .str "121042882".toList),
    ("a.StandardEntryClassCode", .str "PPD".toList), ("a.CompanyEntryDescription", .str "PAYROLL".toList),
    ("a.EffectiveEntryDate", .str "240301".toList), ("a.ODFIIdentification", .str "12104288".toList),
    ("b.ServiceClassCode", .int 200), ("b.CompanyName", .str "ACME CORP".toList), ("b.CompanyIdentification", .str "121042882".toList),
    ("b.StandardEntryClassCode", .str "PPD".toList), ("b.CompanyEntryDescription", .str "PAYROLL".toList),
    ("b.EffectiveEntryDate", .str date2.toList), ("b.ODFIIdentification", .str "12104288".toList)]
  recvFlags := []
  paramFlags := []
  ext := []
  recv := "a"

example : (exec v_BatchHeader_Equal (twoHeaders "240301") [("other", .ref "b")]).2 = .ret (.bool true) := by decide +kernel
example : (exec v_BatchHeader_Equal (twoHeaders "240302") [("other", .ref "b")]).2 = .ret (.bool false) := by decide +kernel


/-- the same comparison with the roles exchanged: the context whose receiver is the header stored under `q` -/
def swapped (c : Ctx) (q : String) : Ctx := { c with recv := q }

/-- C08 / C09: `Equal` is symmetric — `a.Equal(b)` and `b.Equal(a)` return the same value, for every pair of well-typed
headers -/
theorem equal_symm (c : Ctx) (q : String)
    (h1 : wellTyped c c.recv keyFields) (h2 : wellTyped c q keyFields) :
    (exec v_BatchHeader_Equal c [("other", .ref q)]).2 =
      (exec v_BatchHeader_Equal (swapped c q) [("other", .ref c.recv)]).2 := by
  rw [equal_true_iff_same_key c q h1 h2]
  have h1' : wellTyped (swapped c q) (swapped c q).recv keyFields := h2
  have h2' : wellTyped (swapped c q) c.recv keyFields := h1
  rw [equal_true_iff_same_key (swapped c q) c.recv h1' h2']
  have : (key c c.recv keyFields = key c q keyFields) ↔ (key (swapped c q) (swapped c q).recv keyFields = key (swapped c q) c.recv keyFields) := by
    show (key c c.recv keyFields = key c q keyFields) ↔ (key c q keyFields = key c c.recv keyFields)
    exact eq_comm
  simp only [this]

/-- C08 / C09: `Equal` is transitive — if `a.Equal(b)` and `b.Equal(c)` return true then so does `a.Equal(c)` -/
theorem equal_trans (c : Ctx) (q r : String)
    (h1 : wellTyped c c.recv keyFields) (h2 : wellTyped c q keyFields) (h3 : wellTyped c r keyFields)
    (hab : (exec v_BatchHeader_Equal c [("other", .ref q)]).2 = .ret (.bool true))
    (hbc : (exec v_BatchHeader_Equal (swapped c q) [("other", .ref r)]).2 = .ret (.bool true)) :
    (exec v_BatchHeader_Equal c [("other", .ref r)]).2 = .ret (.bool true) := by
  rw [equal_true_iff_same_key c q h1 h2] at hab
  have h2' : wellTyped (swapped c q) (swapped c q).recv keyFields := h2
  have h3' : wellTyped (swapped c q) r keyFields := h3
  rw [equal_true_iff_same_key (swapped c q) r h2' h3'] at hbc
  rw [equal_true_iff_same_key c r h1 h3]
  have e1 : key c c.recv keyFields = key c q keyFields := by simpa using hab
  have e2 : key c q keyFields = key c r keyFields := by
    have : key (swapped c q) (swapped c q).recv keyFields = key (swapped c q) r keyFields := by simpa using hbc
    exact this
  simp [e1.trans e2]

/-- … and reflexive -/
theorem equal_refl (c : Ctx) (h1 : wellTyped c c.recv keyFields) :
    (exec v_BatchHeader_Equal c [("other", .ref c.recv)]).2 = .ret (.bool true) := by
  rw [equal_true_iff_same_key c c.recv h1 h1]
  simp

end Ach.Props.HeaderKey
