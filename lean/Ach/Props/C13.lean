import Ach.Model.Reversal
import Ach.Generated.Topics
import Ach.Proofs.Classify
/-!
# C13 — Reversal flips every entry and yields a valid reversing file

Statements only (plus their proofs by evaluation over the *generated* switch of
`File.Reversal` and short structural arguments).  The code switch is the table
`Ach.Gen.sw_Reversal` re-extracted from reversal.go on every run; the
classification tables are those of `calculateBatchAmounts`,
`StandardTransactionCode` and `CreditOrDebit`.
-/
namespace Ach.Props.C13
open Ach Ach.Gen

/-- F: the switch has the expected shape and every effect text is understood. -/
theorem reversal_switch_decodes : revTable.isSome = true := by decide

/-- the decoded table (total thanks to `reversal_switch_decodes`) -/
def tbl : List RevClause := revTable.getD []

/-- everything the property asks of one transaction code -/
def codeOK (c : Int) : Bool :=
  let r := reverseCode tbl c
  -- the result is a standard code of the opposite direction …
  standardEntryCodes.contains r.1 &&
  creditOrDebit c ≠ .neither && creditOrDebit r.1 ≠ .neither && creditOrDebit r.1 ≠ creditOrDebit c &&
  -- … within the same account type (checking 2x, savings 3x, GL 4x, loan 5x) …
  r.1 / 10 = c / 10 &&
  -- … the hasCredits / hasDebits flags describe the direction of the *new* code …
  (r.2.1 == (creditOrDebit r.1 == .credit)) && (r.2.2 == (creditOrDebit r.1 == .debit)) &&
  -- … and reversing twice restores the original code
  (reverseCode tbl r.1).1 = c

/-- **reversal_code_map**: for every transaction code in the property's domain
(all standard entry codes except loan prenote 53 and loan zero-dollar 54) the
switch flips the direction inside the account type, lands on a standard code,
reports the new direction in its flags, and is an involution. -/
theorem reversal_code_map : ∀ c ∈ reversibleCodes, codeOK c = true := by decide

/-- F: the domain really is the 28 codes the property names -/
theorem reversible_domain :
    reversibleCodes = [21, 22, 23, 24, 26, 27, 28, 29, 31, 32, 33, 34, 36, 37, 38, 39,
                       41, 42, 43, 44, 46, 47, 48, 49, 51, 52, 55, 56] := by decide

/-- F: direction by second digit agrees with the credit/debit lists that `calculateBatchAmounts` sums -/
theorem direction_agrees_with_totals :
    (∀ c ∈ creditCodes, creditOrDebit c = .credit) ∧ (∀ c ∈ debitCodes, creditOrDebit c = .debit) ∧
    (∀ c ∈ standardEntryCodes, creditCodes.contains c || debitCodes.contains c) := by decide

/-! ## batch level -/

def isCredit (c : Int) : Bool := creditOrDebit c == .credit
def isDebit (c : Int) : Bool := creditOrDebit c == .debit

/-- amounts, account numbers and trace numbers are untouched; only codes change -/
theorem reversal_preserves_entries (date : List Char) (b : RBatch) :
    (reverseBatch tbl date b).entries.map (fun e => (e.amount, e.account, e.trace)) =
      b.entries.map (fun e => (e.amount, e.account, e.trace)) := by
  simp [reverseBatch, List.map_map, Function.comp_def]

theorem reversal_description_date (date : List Char) (b : RBatch) :
    (reverseBatch tbl date b).description = "REVERSAL".toList ∧ (reverseBatch tbl date b).effectiveDate = date := by
  simp [reverseBatch]

theorem reversal_totals_swapped (date : List Char) (b : RBatch) :
    (reverseBatch tbl date b).ctlDebit = b.ctlCredit ∧ (reverseBatch tbl date b).ctlCredit = b.ctlDebit := by
  simp [reverseBatch]

private theorem codeOK_of_mem {c : Int} (h : c ∈ reversibleCodes) : codeOK c = true := reversal_code_map c h

/-- every entry of a batch over the domain has its direction flipped inside its account type -/
theorem reversal_flips_direction (date : List Char) (b : RBatch)
    (hdom : ∀ e ∈ b.entries, e.code ∈ reversibleCodes) :
    (reverseBatch tbl date b).entries = b.entries.map (fun e => { e with code := (reverseCode tbl e.code).1 }) ∧
    ∀ e ∈ b.entries,
      creditOrDebit (reverseCode tbl e.code).1 ≠ creditOrDebit e.code ∧
      creditOrDebit (reverseCode tbl e.code).1 ≠ .neither ∧
      (reverseCode tbl e.code).1 / 10 = e.code / 10 ∧
      standardEntryCodes.contains (reverseCode tbl e.code).1 = true := by
  refine ⟨by simp [reverseBatch], ?_⟩
  intro e he
  have h := codeOK_of_mem (hdom e he)
  simp only [codeOK, Bool.and_eq_true, decide_eq_true_eq, ne_eq] at h
  obtain ⟨⟨⟨⟨⟨⟨⟨h1, _⟩, h3⟩, h4⟩, h5⟩, _⟩, _⟩, _⟩ := h
  exact ⟨h4, h3, h5, h1⟩

/-- reversing twice restores every transaction code -/
theorem reversal_twice_codes (d1 d2 : List Char) (b : RBatch)
    (hdom : ∀ e ∈ b.entries, e.code ∈ reversibleCodes) :
    (reverseBatch tbl d2 (reverseBatch tbl d1 b)).entries.map (·.code) = b.entries.map (·.code) := by
  simp only [reverseBatch, List.map_map]
  apply List.map_congr_left
  intro e he
  have h := codeOK_of_mem (hdom e he)
  simp only [codeOK, Bool.and_eq_true, decide_eq_true_eq] at h
  simpa using h.2

/-- the service class written to header and control matches the new directions:
credits-only iff every new entry is a credit, debits-only iff every one is a debit, mixed otherwise -/
theorem reversal_service_class (date : List Char) (b : RBatch) (hne : b.entries ≠ [])
    (hdom : ∀ e ∈ b.entries, e.code ∈ reversibleCodes) :
    (reverseBatch tbl date b).serviceClass =
      (if (reverseBatch tbl date b).entries.all (fun e => isCredit e.code) = true then K.CreditsOnly
       else if (reverseBatch tbl date b).entries.all (fun e => isDebit e.code) = true then K.DebitsOnly
       else K.MixedDebitsAndCredits) ∧
    (reverseBatch tbl date b).ctlServiceClass = (reverseBatch tbl date b).serviceClass := by
  -- the list of (isCredit, isDebit) of the new codes
  let l : List (Bool × Bool) := b.entries.map (fun e => (isCredit (reverseCode tbl e.code).1, isDebit (reverseCode tbl e.code).1))
  have hflag : ∀ e ∈ b.entries, (reverseCode tbl e.code).2.1 = isCredit (reverseCode tbl e.code).1 ∧
      (reverseCode tbl e.code).2.2 = isDebit (reverseCode tbl e.code).1 ∧
      (isCredit (reverseCode tbl e.code).1 ≠ isDebit (reverseCode tbl e.code).1) := by
    intro e he
    have h := codeOK_of_mem (hdom e he)
    simp only [codeOK, Bool.and_eq_true, decide_eq_true_eq, ne_eq, beq_iff_eq] at h
    obtain ⟨⟨⟨⟨⟨⟨⟨_, _⟩, h3⟩, _⟩, _⟩, h6⟩, h7⟩, _⟩ := h
    refine ⟨by simpa [isCredit] using h6, by simpa [isDebit] using h7, ?_⟩
    simp only [isCredit, isDebit]
    cases hd : creditOrDebit (reverseCode tbl e.code).1 <;> simp_all
  have hlne : l ≠ [] := by simpa [l] using hne
  have hlx : ∀ p ∈ l, p.1 ≠ p.2 := by
    intro p hp
    simp only [l, List.mem_map] at hp
    obtain ⟨e, he, rfl⟩ := hp
    exact (hflag e he).2.2
  have hC : (b.entries.map (fun e => reverseCode tbl e.code)).any (fun r => r.2.1) = l.any (·.1) := by
    simp only [l, List.any_map]
    exact Ach.Proofs.any_congr_mem (fun e he => by simp [(hflag e he).1])
  have hD : (b.entries.map (fun e => reverseCode tbl e.code)).any (fun r => r.2.2) = l.any (·.2) := by
    simp only [l, List.any_map]
    exact Ach.Proofs.any_congr_mem (fun e he => by simp [(hflag e he).2.1])
  have hAC : (reverseBatch tbl date b).entries.all (fun e => isCredit e.code) = l.all (·.1) := by
    simp [reverseBatch, l, List.all_map, Function.comp_def]
  have hAD : (reverseBatch tbl date b).entries.all (fun e => isDebit e.code) = l.all (·.2) := by
    simp [reverseBatch, l, List.all_map, Function.comp_def]
  have hcls := fun old => Ach.Proofs.classify_flags K.MixedDebitsAndCredits K.DebitsOnly K.CreditsOnly old l hlne hlx
  constructor
  · rw [hAC, hAD, ← hcls b.serviceClass]
    simp only [reverseBatch, serviceClassFor, hC, hD]
  · have e1 : (reverseBatch tbl date b).ctlServiceClass =
        (if (l.any (·.1) && l.any (·.2)) = true then K.MixedDebitsAndCredits
         else if l.any (·.2) = true then K.DebitsOnly else if l.any (·.1) = true then K.CreditsOnly else b.ctlServiceClass) := by
      simp only [reverseBatch, serviceClassFor, hC, hD]
    have e2 : (reverseBatch tbl date b).serviceClass =
        (if (l.any (·.1) && l.any (·.2)) = true then K.MixedDebitsAndCredits
         else if l.any (·.2) = true then K.DebitsOnly else if l.any (·.1) = true then K.CreditsOnly else b.serviceClass) := by
      simp only [reverseBatch, serviceClassFor, hC, hD]
    rw [e1, e2, hcls, hcls]

/-- non-vacuity: a mixed PPD-like batch over the domain satisfies the hypotheses -/
example : let b : RBatch := { serviceClass := 200, description := "PAYROLL".toList, effectiveDate := "240101".toList,
                              entries := [⟨22, 100, "12".toList, "1".toList⟩, ⟨27, 50, "34".toList, "2".toList⟩, ⟨55, 7, "56".toList, "3".toList⟩],
                              ctlDebit := 57, ctlCredit := 100, ctlServiceClass := 200 }
    b.entries ≠ [] ∧ (∀ e ∈ b.entries, e.code ∈ reversibleCodes) ∧
    (reverseBatch tbl "240102".toList b).entries.map (·.code) = [27, 22, 52] := by decide

/-- F: `File.Reversal` has the body `Ach.Model.Reversal` was written against (its switch is interpreted from the generated table) -/
theorem reversal_function_unchanged : hashes_reversal = [("File.Reversal", 3157941019159632718)] := by decide +kernel

end Ach.Props.C13
