import Ach.Props.AcceptedEntries
import Ach.Props.AcceptedIAT
/-!
# Every entry of an accepted IAT batch passed `IATEntryDetail.Validate` (C03)
-/
namespace Ach.Props.AcceptedIATEntries
open Ach Ach.GoLite Ach.Gen

def iatEntryBody : Prog :=
  match (stmts v_IATBatch_isFieldInclusion)[1]? with
  | some (Prog.forEach _ _ b) => b
  | _ => .skip

def callIATEntryValidate : Prog := .checkOn none (.var "entry") [] [] v_IATEntryDetail_Validate

theorem iat_field_inclusion_outline :
    (stmts v_IATBatch_verify).drop 1 = (.check (some "!FieldError") v_IATBatch_isFieldInclusion) :: (stmts v_IATBatch_verify).drop 2 ∧
    (stmts v_IATBatch_verify).drop 2 ≠ [] ∧
    ((stmts v_IATBatch_verify).take 1).all (fun q => rejectOnly q && noAssign q) = true ∧
    stmts v_IATBatch_isFieldInclusion =
      (.checkOn none (.fld "Header") [] [] v_IATBatchHeader_Validate) ::
      (.forEach "entry" (.fld "Entries") iatEntryBody) :: (stmts v_IATBatch_isFieldInclusion).drop 2 ∧
    (stmts v_IATBatch_isFieldInclusion).drop 2 ≠ [] ∧
    rejectOnly (.forEach "entry" (.fld "Entries") iatEntryBody) = true ∧
    calm iatEntryBody = true ∧
    stmts iatEntryBody = callIATEntryValidate :: (stmts iatEntryBody).drop 1 ∧
    (stmts iatEntryBody).drop 1 ≠ [] := by
  decide +kernel

/-- C03, IAT — for every IAT batch value, of any size: if `IATBatch.verify()` (translated from the source on this run)
returns nil, then `IATEntryDetail.Validate()` returned nil for **every** entry, and so every entry's check digit is the one
computed from its routing number -/
theorem accepted_iat_batch_entries_validated (c : Ctx) (p : String) (n : Nat)
    (hE : lookup c.fields (joinPath c.recv "Entries") = .lst p n)
    (ha : run c v_IATBatch_verify = .accept) :
    ∀ i, i < n → run { c with recv := elemPath p i } v_IATEntryDetail_Validate = .accept := by
  intro i hi
  have hres := Ach.Props.Validators.accept_ret c _ ha
  obtain ⟨hd1, hne2, hall1, hFI, hneFI, hroF, hcalm, hEB, hneEB⟩ := iat_field_inclusion_outline
  have hs : stmts v_IATBatch_verify = (stmts v_IATBatch_verify).take 1 ++ (stmts v_IATBatch_verify).drop 1 :=
    (List.take_append_drop _ _).symm
  obtain ⟨pre, h1⟩ := accept_reaches c _ _ _ hs (by rw [hd1]; simp) hall1 hres
  rw [hd1, seqs_cons_ne _ _ hne2] at h1
  have hfi := Ach.Props.AcceptedHash.check_passes c pre _ _ (Ach.Props.Accepted.accept_seq_left (by decide) h1)
  rw [← seqs_stmts v_IATBatch_isFieldInclusion, hFI, seqs_cons_ne _ _ (by simp)] at hfi
  obtain ⟨pre2, h2⟩ := accept_seq (a := .checkOn none (.fld "Header") [] [] v_IATBatchHeader_Validate) (by decide) (by decide) hfi
  rw [seqs_cons_ne _ _ hneFI] at h2
  have hloop := Ach.Props.Accepted.accept_seq_left hroF h2
  simp only [exec, eval, hE] at hloop
  have hbody := Ach.Props.AcceptedFileBatches.iter_all_pass (fun l' => exec iatEntryBody c l') (fun k => .ref (elemPath p k)) "entry"
    (fun l' hp' => calm_suffix iatEntryBody hcalm c l' hp') (List.range n) _ (by rw [hloop]; exact Or.inl rfl)
    i (List.mem_range.mpr hi)
  rw [← seqs_stmts iatEntryBody, hEB, seqs_cons_ne _ _ hneEB] at hbody
  have hcall := Ach.Props.AcceptedServiceClass.seq_next_left hbody
  have hv := Ach.Props.AcceptedEntries.checkOn_var_passes c (elemPath p i) _ _ hcall
  unfold run
  rw [hv]

theorem accepted_iat_batch_every_check_digit (c : Ctx) (p : String) (n : Nat) (rdfi cd : Nat → Str)
    (hE : lookup c.fields (joinPath c.recv "Entries") = .lst p n)
    (hr : ∀ i, i < n → lookup c.fields (joinPath (elemPath p i) "RDFIIdentification") = .str (rdfi i))
    (hc : ∀ i, i < n → lookup c.fields (joinPath (elemPath p i) "CheckDigit") = .str (cd i))
    (ha : run c v_IATBatch_verify = .accept) :
    ∀ i, i < n → atoi (cd i) = some (calculateCheckDigit (stringField (rdfi i) 8)) := by
  intro i hi
  exact Ach.Props.AcceptedIAT.accepted_iat_entry_check_digit { c with recv := elemPath p i } (rdfi i) (cd i) (hr i hi) (hc i hi)
    (accepted_iat_batch_entries_validated c p n hE ha i hi)

end Ach.Props.AcceptedIATEntries
