import Ach.Props.C03Code
import Ach.Props.C03IATCode
import Ach.Props.C03IATSample
/-!
# A batch whose control no longer matches its entries is refused (C04), standard and IAT, on the translated code

Contrapositives of `c03_standard_batch` and `c03_iat_batch`, stated once per batch kind: if **any** of the protected
figures of a stored batch differs from the value recomputed from its entries — however the difference came about (a
changed digit in a control record, in an amount, in a routing number, in a check digit, in a header) — then
`Batch.verify()` / `IATBatch.verify()` as translated from the source on this run does not return nil under the default
options.  Batches of any size.
-/
namespace Ach.Props.TamperRejectedBatch
open Ach Ach.GoLite Ach.Gen Ach.Props.C03Code Ach.Props.C03IATCode

/-- the protected figures of a standard batch all agree with its entries -/
def StdConsistent {c : Ctx} (B : StdBatch c) : Prop :=
  B.count = ((List.range B.n).map (fun i => 1 + B.cnt i)).sum ∧
  B.hash = leastSignificantDigits (((List.range B.n).map (fun i => Ach.Props.AcceptedHash.rdfiNumber (B.rdfi i))).sum) 10 ∧
  B.credit = ((List.range B.n).map (fun i => Ach.Props.AcceptedAmounts.creditPart (B.tc i) (B.am i))).sum ∧
  B.debit = ((List.range B.n).map (fun i => Ach.Props.AcceptedAmounts.debitPart (B.tc i) (B.am i))).sum ∧
  B.hscc = B.cscc ∧ B.hodfi = B.codfi ∧ B.hbn = B.cbn ∧ B.hcid = B.ccid ∧
  (∀ i, i < B.n → atoi (B.cd i) = some (calculateCheckDigit (stringField (B.rdfi i) 8)))

/-- C04, standard batches: an inconsistent batch is not accepted -/
theorem tampered_standard_batch_rejected (c : Ctx) (B : StdBatch c) (hdef : defaultOpts c) (hbad : ¬ StdConsistent B) :
    run c v_Batch_verify ≠ .accept := by
  intro ha
  obtain ⟨k1, k2, k3, k4, a1, a2, a3, a4, e1, _, _, _⟩ := c03_standard_batch c B hdef ha
  exact hbad ⟨k1, k2, k3, k4, a1, a2, a3, a4, e1⟩

/-- the protected figures of an IAT batch all agree with its entries -/
def IATConsistent {c : Ctx} (B : IATStd c) : Prop :=
  B.count = ((List.range B.n).map (fun i => (B.recs i).sum)).sum ∧
  B.hash = leastSignificantDigits (((List.range B.n).map (fun i => Ach.Props.AcceptedHash.rdfiNumber (B.rdfi i))).sum) 10 ∧
  B.credit = ((List.range B.n).map (fun i => Ach.Props.AcceptedAmounts.creditPart (B.tc i) (B.am i))).sum ∧
  B.debit = ((List.range B.n).map (fun i => Ach.Props.AcceptedAmounts.debitPart (B.tc i) (B.am i))).sum ∧
  B.hscc = B.cscc ∧ B.hodfi = B.codfi ∧ B.hbn = B.cbn ∧
  (∀ i, i < B.n → atoi (B.cd i) = some (calculateCheckDigit (stringField (B.rdfi i) 8)))

/-- C04, IAT batches: an inconsistent IAT batch is not accepted -/
theorem tampered_iat_batch_rejected (c : Ctx) (B : IATStd c) (hdef : defaultOpts c) (hbad : ¬ IATConsistent B) :
    run c v_IATBatch_verify ≠ .accept := by
  intro ha
  obtain ⟨k1, k2, k3, k4, a1, a2, a3, e1, _, _⟩ := c03_iat_batch c B hdef ha
  exact hbad ⟨k1, k2, k3, k4, a1, a2, a3, e1⟩

/-- in particular: one amount changed by any non-zero difference, nothing else touched, in a batch that was consistent —
the totals cannot both still match, so the batch is refused (credit and debit code lists are disjoint, so the entry's
amount enters at most one total; stated for the total it enters) -/
theorem changed_credit_amount_rejected (c : Ctx) (B : StdBatch c) (hdef : defaultOpts c)
    (total : Int) (hsum : ((List.range B.n).map (fun i => Ach.Props.AcceptedAmounts.creditPart (B.tc i) (B.am i))).sum = total)
    (hne : B.credit ≠ total) : run c v_Batch_verify ≠ .accept := by
  apply tampered_standard_batch_rejected c B hdef
  intro h
  exact hne (h.2.2.1.trans hsum)

/-- non-vacuity, by evaluation: the sample IAT batch with one digit of its control hash changed is refused by the
translated `IATBatch.verify`, with the error naming the field (a test on one batch, not the theorem) -/
def tamperedIAT : Ctx :=
  { Ach.Props.C03IATSample.iatSample with
    fields := ("Control.EntryHash", .int 29968351) :: Ach.Props.C03IATSample.iatSample.fields }

theorem tampered_sample_rejected : run tamperedIAT v_IATBatch_verify = .reject "EntryHash" := by decide +kernel

end Ach.Props.TamperRejectedBatch
