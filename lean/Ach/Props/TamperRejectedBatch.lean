import Ach.Props.C03Code
import Ach.Props.C03IATCode
import Ach.Props.C03IATSample
import Ach.Props.AcceptedADV
/-!
# A batch whose control no longer matches its entries is refused (C04), standard and IAT, on the translated code

Contrapositives of `c03_standard_batch` and `c03_iat_batch`, stated once per batch kind: if **any** of the protected
figures of a stored batch differs from the value recomputed from its entries — however the difference came about (a
changed digit in a control record, in an amount, in a routing number, in a check digit, in a header) — then
`Batch.verify()` / `IATBatch.verify()` as translated from the source on this run does not return nil under the default
options.  Batches of any size.
-/
namespace Ach.Props.TamperRejectedBatch
open Ach Ach.GoLite Ach.Gen Ach.Props.C03Code Ach.Props.C03IATCode

/-- the protected figures of a standard batch all agree with its entries -/
def StdConsistent {c : Ctx} (B : StdBatch c) : Prop :=
  B.count = ((List.range B.n).map (fun i => 1 + B.cnt i)).sum ∧
  B.hash = leastSignificantDigits (((List.range B.n).map (fun i => Ach.Props.AcceptedHash.rdfiNumber (B.rdfi i))).sum) 10 ∧
  B.credit = ((List.range B.n).map (fun i => Ach.Props.AcceptedAmounts.creditPart (B.tc i) (B.am i))).sum ∧
  B.debit = ((List.range B.n).map (fun i => Ach.Props.AcceptedAmounts.debitPart (B.tc i) (B.am i))).sum ∧
  B.hscc = B.cscc ∧ B.hodfi = B.codfi ∧ B.hbn = B.cbn ∧ B.hcid = B.ccid ∧
  (∀ i, i < B.n → atoi (B.cd i) = some (calculateCheckDigit (stringField (B.rdfi i) 8)))

/-- C04, standard batches: an inconsistent batch is not accepted -/
theorem tampered_standard_batch_rejected (c : Ctx) (B : StdBatch c) (hdef : defaultOpts c) (hbad : ¬ StdConsistent B) :
    run c v_Batch_verify ≠ .accept := by
  intro ha
  obtain ⟨k1, k2, k3, k4, a1, a2, a3, a4, e1, _, _, _⟩ := c03_standard_batch c B hdef ha
  exact hbad ⟨k1, k2, k3, k4, a1, a2, a3, a4, e1⟩

/-- the protected figures of an IAT batch all agree with its entries -/
def IATConsistent {c : Ctx} (B : IATStd c) : Prop :=
  B.count = ((List.range B.n).map (fun i => (B.recs i).sum)).sum ∧
  B.hash = leastSignificantDigits (((List.range B.n).map (fun i => Ach.Props.AcceptedHash.rdfiNumber (B.rdfi i))).sum) 10 ∧
  B.credit = ((List.range B.n).map (fun i => Ach.Props.AcceptedAmounts.creditPart (B.tc i) (B.am i))).sum ∧
  B.debit = ((List.range B.n).map (fun i => Ach.Props.AcceptedAmounts.debitPart (B.tc i) (B.am i))).sum ∧
  B.hscc = B.cscc ∧ B.hodfi = B.codfi ∧ B.hbn = B.cbn ∧
  (∀ i, i < B.n → atoi (B.cd i) = some (calculateCheckDigit (stringField (B.rdfi i) 8)))

/-- C04, IAT batches: an inconsistent IAT batch is not accepted -/
theorem tampered_iat_batch_rejected (c : Ctx) (B : IATStd c) (hdef : defaultOpts c) (hbad : ¬ IATConsistent B) :
    run c v_IATBatch_verify ≠ .accept := by
  intro ha
  obtain ⟨k1, k2, k3, k4, a1, a2, a3, e1, _, _⟩ := c03_iat_batch c B hdef ha
  exact hbad ⟨k1, k2, k3, k4, a1, a2, a3, e1⟩

/-- in particular: one amount changed by any non-zero difference, nothing else touched, in a batch that was consistent —
the totals cannot both still match, so the batch is refused (credit and debit code lists are disjoint, so the entry's
amount enters at most one total; stated for the total it enters) -/
theorem changed_credit_amount_rejected (c : Ctx) (B : StdBatch c) (hdef : defaultOpts c)
    (total : Int) (hsum : ((List.range B.n).map (fun i => Ach.Props.AcceptedAmounts.creditPart (B.tc i) (B.am i))).sum = total)
    (hne : B.credit ≠ total) : run c v_Batch_verify ≠ .accept := by
  apply tampered_standard_batch_rejected c B hdef
  intro h
  exact hne (h.2.2.1.trans hsum)

open Ach.Props.AcceptedADV Ach.Props.AcceptedHash in
/-- C04, ADV batches: if a total, the entry hash or (without `UnequalAddendaCounts`) the entry/addenda count of the ADV
control differs from the sum over the advices, the translated `Batch.verify()` does not return nil — any number of advices -/
theorem tampered_adv_batch_rejected (c : Ctx) (hp cp p : String) (n : Nat) (tc am : Nat → Int) (r : Nat → Str)
    (hv cnt : Nat → Int) (tcr tdb e k : Int)
    (hH : lookup c.fields (joinPath c.recv "Header") = .ref hp)
    (hsec : lookup c.fields (joinPath hp "StandardEntryClassCode") = .str ['A', 'D', 'V'])
    (hC : lookup c.fields (joinPath c.recv "ADVControl") = .ref cp)
    (hcr : lookup c.fields (joinPath cp "TotalCreditEntryDollarAmount") = .int tcr)
    (hdb : lookup c.fields (joinPath cp "TotalDebitEntryDollarAmount") = .int tdb)
    (he : lookup c.fields (joinPath cp "EntryHash") = .int e)
    (hk : lookup c.fields (joinPath cp "EntryAddendaCount") = .int k)
    (hE : lookup c.fields (joinPath c.recv "ADVEntries") = .lst p n)
    (ht : ∀ i, i < n → lookup c.fields (joinPath (elemPath p i) "TransactionCode") = .int (tc i))
    (ham : ∀ i, i < n → lookup c.fields (joinPath (elemPath p i) "Amount") = .int (am i))
    (hr : ∀ i, i < n → lookup c.fields (joinPath (elemPath p i) "RDFIIdentification") = .str (r i))
    (hc : ∀ i, i < n → rdfiContribution c (r i) = some (hv i))
    (hcn : ∀ i, i < n → advRecords c (elemPath p i) = some (cnt i))
    (hflag : hasFlag c "recv" "UnequalAddendaCounts" = false)
    (hbad : tcr ≠ ((List.range n).map (fun i => advCredit (tc i) (am i))).sum ∨
            tdb ≠ ((List.range n).map (fun i => advDebit (tc i) (am i))).sum ∨
            e ≠ leastSignificantDigits (((List.range n).map hv).sum) 10 ∨
            k ≠ ((List.range n).map cnt).sum) :
    run c v_Batch_verify ≠ .accept := by
  intro ha
  obtain ⟨h1, h2, h3, h4⟩ := accepted_adv_batch c hp cp p n tc am r hv cnt tcr tdb e k hH hsec hC hcr hdb he hk hE ht ham hr hc hcn ha
  rcases hbad with h | h | h | h
  · exact h h1
  · exact h h2
  · exact h h3
  · exact h (h4 hflag)

/-- non-vacuity, by evaluation: the sample IAT batch with one digit of its control hash changed is refused by the
translated `IATBatch.verify`, with the error naming the field (a test on one batch, not the theorem) -/
def tamperedIAT : Ctx :=
  { Ach.Props.C03IATSample.iatSample with
    fields := ("Control.EntryHash", .int 29968351) :: Ach.Props.C03IATSample.iatSample.fields }

theorem tampered_sample_rejected : run tamperedIAT v_IATBatch_verify = .reject "EntryHash" := by decide +kernel

end Ach.Props.TamperRejectedBatch
