import Ach.Props.AcceptedFileValidate
/-!
# `File.IsADV()` on a file of complete, non-ADV batches (hypothesis of the accepted-file theorems, C03)
-/
namespace Ach.Props.AcceptedFileIsADV
open Ach Ach.GoLite Ach.Gen

def isAdvBody : Prog :=
  seqs [(.block (seqs [(.bind "v" (.sel (.idx (.fld "Batches") (.var "i")) "Header")),
      (.ite (.eq (.var "v") .nil) (.effect "f.Batches[i].SetHeader(NewBatchHeader())") .skip)])),
    (.block (seqs [(.bind "v" (.sel (.idx (.fld "Batches") (.var "i")) "Control")),
      (.ite (.eq (.var "v") .nil) (.effect "f.Batches[i].SetControl(NewBatchControl())") .skip)])),
    (.ite (.eq (.sel (.sel (.idx (.fld "Batches") (.var "i")) "Header") "StandardEntryClassCode") (.str "ADV"))
      (.ret (.bool true)) .skip)]

def isAdvProg : Prog := seqs [(.forIdx "i" (.fld "Batches") isAdvBody), (.ret (.bool false))]

/-- the translated `File.IsADV` is that program (the two repairs of a missing header / control are effects: outside the
embedding) -/
theorem file_isADV_shape : v_File_IsADV = isAdvProg := by decide +kernel

theorem isAdvBody_exec (c : Ctx) (bp : String) (nb i : Nat) (hi : i < nb) (hp cp : String) (sec : Str)
    (hB : lookup c.fields (joinPath c.recv "Batches") = .lst bp nb)
    (hH : lookup c.fields (joinPath (elemPath bp i) "Header") = .ref hp)
    (hC : lookup c.fields (joinPath (elemPath bp i) "Control") = .ref cp)
    (hsec : lookup c.fields (joinPath hp "StandardEntryClassCode") = .str sec) (hn : sec ≠ ['A', 'D', 'V']) :
    exec isAdvBody c [("i", .int i)] = ([("i", .int i)], .next) := by
  have hlt : ((i : Int) < (nb : Int)) := by omega
  have hA : ("ADV" : String).toList = ['A', 'D', 'V'] := by decide
  simp [isAdvBody, seqs, exec, eval, lookup, hB, hlt, hH, hC, hsec, cmpVals, scopeExit, hA, hn]

/-- `File.IsADV()` returns false on a file each of whose batches has a header, a control and a class other than ADV —
any number of batches -/
theorem file_isADV_false (c : Ctx) (bp : String) (nb : Nat) (hp cp : Nat → String) (sec : Nat → Str)
    (hB : lookup c.fields (joinPath c.recv "Batches") = .lst bp nb)
    (hH : ∀ i, i < nb → lookup c.fields (joinPath (elemPath bp i) "Header") = .ref (hp i))
    (hC : ∀ i, i < nb → lookup c.fields (joinPath (elemPath bp i) "Control") = .ref (cp i))
    (hsec : ∀ i, i < nb → lookup c.fields (joinPath (hp i) "StandardEntryClassCode") = .str (sec i))
    (hn : ∀ i, i < nb → sec i ≠ ['A', 'D', 'V']) :
    (exec v_File_IsADV c []).2 = .ret (.bool false) := by
  rw [file_isADV_shape]
  have hit : ∀ is : List Nat, (∀ i ∈ is, i < nb) →
      iter (fun l' => exec isAdvBody c l') (fun k => .int k) "i" is [] = ([], .next) := by
    intro is
    induction is with
    | nil => intro _; simp [iter]
    | cons j is ih =>
        intro hlt
        have hj := hlt j (List.mem_cons_self ..)
        have hb := isAdvBody_exec c bp nb j hj (hp j) (cp j) (sec j) hB (hH j hj) (hC j hj) (hsec j hj) (hn j hj)
        simp only [iter, hb]
        have : scopeExit ([] : Locals) [("i", Val.int (j : Int))] = [] := by simp [scopeExit]
        rw [this]
        exact ih (fun k hk => hlt k (List.mem_cons_of_mem _ hk))
  have := hit (List.range nb) (fun k hk => List.mem_range.mp hk)
  simp [isAdvProg, seqs, exec, eval, hB, this]

end Ach.Props.AcceptedFileIsADV
