import Ach.Props.C03Code
import Ach.Props.ModelBridge
import Ach.Props.DirBridge
import Ach.Props.NoPanicCode
import Ach.Props.C03
import Ach.Props.C03CodeSample
/-!
# What the code accepts, the hand-written model accepts (C03, standard batches)

`Ach.Model.Validate.batchValidate` is the hand-written model the older C03 / C04 theorems (`validate_sound_batch`, the
tamper theorems) speak about; the `validate` correspondence stream ties it to the real code on sampled batches.  Here the
tie is a theorem, in the direction soundness needs: for a standard batch of any size stored in a context, **if
`Batch.verify()` as translated from the source on this run returns nil under the default options, then
`batchValidate {}` holds of the model batch read off the same fields** (`toModel`).  Every consequence the model theorems
draw from `batchValidate {} b = true` therefore holds of every batch the code accepts
(`model_theorems_apply_to_the_code`).

The per-entry service-class clause is checked by the SEC validators, not by `verify`; it enters as the hypothesis
`hcls`, which `Ach.Props.DirBridge.accepted_batch_classOK` discharges for the 20 shaped classes.
-/
namespace Ach.Props.C03ModelAccept
open Ach Ach.GoLite Ach.Gen Ach.Props.C03Code Ach.Props.ModelBridge

/-- the model entry read off the fields of entry `i` -/
def entryOf {c : Ctx} (B : StdBatch c) (i : Nat) : VEntry :=
  { code := B.tc i, rdfi := B.rdfi i, checkDigit := B.cd i, amount := B.am i, trace := B.tr i,
    addendaCount := (B.cnt i).toNat, extraOK := true }

/-- the model batch read off the stored batch -/
def toModel {c : Ctx} (B : StdBatch c) : VBatch :=
  { header := { serviceClass := B.hscc, companyId := B.hcid, odfi := B.hodfi, batchNumber := B.hbn },
    entries := (List.range B.n).map (entryOf B),
    control := { serviceClass := B.cscc, entryAddendaCount := B.count, entryHash := B.hash, totalDebit := B.debit,
                 totalCredit := B.credit, companyId := B.ccid, odfi := B.codfi, batchNumber := B.cbn },
    extraOK := true }

theorem creditPart_model (t a : Int) :
    Ach.Props.AcceptedAmounts.creditPart t a = (if Ach.creditCodes.contains t then a else 0) := by
  have hl := code_lists_agree
  simp only [Bool.and_eq_true] at hl
  obtain ⟨⟨⟨c1, c2⟩, _⟩, _⟩ := hl
  unfold Ach.Props.AcceptedAmounts.creditPart
  rw [contains_agree c1 c2]

theorem debitPart_model (t a : Int) :
    Ach.Props.AcceptedAmounts.debitPart t a = (if Ach.debitCodes.contains t then a else 0) := by
  have hl := code_lists_agree
  simp only [Bool.and_eq_true] at hl
  obtain ⟨⟨⟨_, _⟩, d1⟩, d2⟩ := hl
  have hdis := Ach.Props.AcceptedAmounts.credit_debit_disjoint
  unfold Ach.Props.AcceptedAmounts.debitPart
  rw [← contains_agree d1 d2]
  by_cases hc : t ∈ Ach.Props.AcceptedAmounts.creditCodes
  · have hnd : t ∉ Ach.Props.AcceptedAmounts.debitCodes := by
      have := List.all_eq_true.mp hdis t hc
      simpa using this
    simp [hc, hnd]
  · simp [hc]

theorem length_le_byteLen (s : Str) : s.length ≤ byteLen s := by
  unfold byteLen
  induction s with
  | nil => simp
  | cons a s ih =>
      have h1 : 1 ≤ runeLen a := by unfold runeLen; simp only; split <;> (try split) <;> (try split) <;> omega
      simp only [List.map_cons, List.sum_cons, List.length_cons]
      omega

/-- the code's prefix comparison is the model's -/
theorem tracePrefix_model (t b : Str) (h : Ach.Props.AcceptedTraces.tracePrefix t = .str b) :
    (if t.length ≥ 8 then t.take 8 else []) = b := by
  unfold Ach.Props.AcceptedTraces.tracePrefix at h
  by_cases h8 : 8 ≤ byteLen t
  · simp only [h8, if_true] at h
    unfold sliceAscii at h
    by_cases hA : allAscii t = true
    · have hl := Ach.Props.NoPanicCode.byteLen_ascii t hA
      have h8l : 8 ≤ t.length := by omega
      have h8i : (8 : Int) ≤ (t.length : Int) := by omega
      simp [hA, h8i] at h
      simp [h8l, h]
    · simp [hA] at h
  · simp only [h8, if_false] at h
    have := length_le_byteLen t
    have hlt : ¬ t.length ≥ 8 := by omega
    simp only [hlt, if_false]
    simpa using h

theorem strLt_model (x t : Str) (h : strLt x t = true) : (!(strLE t x)) = true := by
  unfold strLt at h
  unfold strLE
  simp only [decide_eq_true_eq] at h
  simp only [Bool.not_eq_true', decide_eq_false_iff_not]
  exact List.not_le.mpr h

/-- the code's ascending chain is the model's -/
theorem ascending_model (tr : Nat → Str) (mk : Nat → VEntry) (hmk : ∀ i, (mk i).trace = tr i) :
    ∀ (is : List Nat) (x : Str), Ach.Props.AcceptedAscending.ascending tr x is → tracesAscend x (is.map mk) = true := by
  intro is
  induction is with
  | nil => intro x _; rfl
  | cons i is ih =>
      intro x h
      obtain ⟨h1, h2⟩ := h
      simp only [List.map_cons, tracesAscend, Bool.and_eq_true, hmk]
      exact ⟨strLt_model x (tr i) h1, ih (tr i) h2⟩

theorem map_sum_congr {α} (l : List α) (f g : α → Int) (h : ∀ x ∈ l, f x = g x) : (l.map f).sum = (l.map g).sum := by
  induction l with
  | nil => rfl
  | cons a l ih =>
      simp only [List.map_cons, List.sum_cons]
      rw [h a (List.mem_cons_self ..), ih (fun x hx => h x (List.mem_cons_of_mem _ hx))]

/-- **what the code accepts, the model accepts**: a non-empty standard batch of any size, default options, addenda counts
that are counts (≥ 0), service-class clause as checked by the SEC validator (`hcls`) -/
theorem code_accept_implies_model_accept (c : Ctx) (B : StdBatch c) (hdef : defaultOpts c)
    (hn : 0 < B.n) (hcnt : ∀ i, i < B.n → 0 ≤ B.cnt i)
    (hcls : ∀ i, i < B.n → Ach.Props.DirBridge.classOKOf B.hscc (B.tc i) = true)
    (ha : run c v_Batch_verify = .accept) :
    batchValidate {} (toModel B) = true := by
  obtain ⟨k1, k2, k3, k4, a1, a2, a3, a4, e1, e2, e3, e4⟩ := c03_standard_batch c B hdef ha
  have hmem : ∀ e ∈ (toModel B).entries, ∃ i, i < B.n ∧ e = entryOf B i := by
    intro e he
    simp only [toModel, List.mem_map, List.mem_range] at he
    obtain ⟨i, hi, rfl⟩ := he
    exact ⟨i, hi, rfl⟩
  simp only [batchValidate, Bool.and_eq_true, Bool.or_eq_true, decide_eq_true_eq, Bool.false_eq_true, false_or,
    List.all_eq_true, Bool.not_eq_true']
  refine ⟨⟨⟨⟨⟨⟨⟨⟨⟨⟨⟨⟨⟨?_, rfl⟩, ?_⟩, a1⟩, a4⟩, a2⟩, a3⟩, ?_⟩, ?_⟩, ?_⟩, ?_⟩, ?_⟩, ?_⟩, ?_⟩
  · -- not empty
    have : (toModel B).entries.length = B.n := by simp [toModel]
    cases hl : (toModel B).entries with
    | nil => rw [hl] at this; simp at this; omega
    | cons _ _ => rfl
  · -- every entry passes entryOK
    intro e he
    obtain ⟨i, hi, rfl⟩ := hmem e he
    have hcd := e1 i hi
    have ham := e2 i hi
    simp only [entryOK, entryOf, Bool.and_eq_true, decide_eq_true_eq, Bool.or_eq_true, Bool.false_eq_true, false_or, hcd]
    exact ⟨⟨⟨trivial, decide_eq_true ham.1⟩, decide_eq_true ham.2⟩, trivial⟩
  · -- entry / addenda count
    unfold entryCount
    rw [sumBy_eq_sum]
    simp only [toModel, List.map_map]
    rw [k1]
    apply map_sum_congr
    intro i hi
    have := hcnt i (List.mem_range.mp hi)
    simp only [Function.comp, entryOf]
    omega
  · -- ascending
    simp only [toModel]
    exact ascending_model B.tr (entryOf B) (fun _ => rfl) (List.range B.n) ['0'] e4
  · -- debit total
    unfold debitTotal
    rw [sumBy_eq_sum]
    simp only [toModel, List.map_map]
    rw [k4]
    apply map_sum_congr
    intro i _
    simp only [Function.comp, entryOf]
    rw [debitPart_model]
    simp
  · -- credit total
    unfold creditTotal
    rw [sumBy_eq_sum]
    simp only [toModel, List.map_map]
    rw [k3]
    apply map_sum_congr
    intro i _
    simp only [Function.comp, entryOf]
    rw [creditPart_model]
    simp
  · -- hash
    unfold batchHash
    rw [sumBy_eq_sum]
    simp only [toModel, List.map_map]
    rw [k2]
    congr 1
    apply map_sum_congr
    intro i _
    simp only [Function.comp]
    exact (rdfiNumber_eq (entryOf B i)).symm
  · -- ODFI prefix
    unfold tracePrefixOK
    simp only [List.all_eq_true, decide_eq_true_eq]
    intro e he
    obtain ⟨i, hi, rfl⟩ := hmem e he
    exact tracePrefix_model (B.tr i) _ (e3 i hi)
  · -- service class
    intro e he
    obtain ⟨i, hi, rfl⟩ := hmem e he
    rw [Ach.Props.DirBridge.classOK_eq]
    exact hcls i hi

/-- hence every consequence `validate_sound_batch` draws from the model's acceptance holds of the batch the code accepted -/
theorem model_theorems_apply_to_the_code (c : Ctx) (B : StdBatch c) (hdef : defaultOpts c)
    (hn : 0 < B.n) (hcnt : ∀ i, i < B.n → 0 ≤ B.cnt i)
    (hcls : ∀ i, i < B.n → Ach.Props.DirBridge.classOKOf B.hscc (B.tc i) = true)
    (ha : run c v_Batch_verify = .accept) :
    entryCount (toModel B).entries = B.count ∧ batchHash (toModel B).entries = B.hash ∧
    debitTotal (toModel B).entries = B.debit ∧ creditTotal (toModel B).entries = B.credit ∧
    tracesAscend ['0'] (toModel B).entries = true ∧
    tracePrefixOK (stringField B.hodfi 8) (toModel B).entries = true := by
  have h := Ach.Props.C03.validate_sound_batch (toModel B) (code_accept_implies_model_accept c B hdef hn hcnt hcls ha)
  exact ⟨h.1, h.2.1, h.2.2.1, h.2.2.2.1, h.2.2.2.2.2.2.2.1, h.2.2.2.2.2.2.2.2.1⟩

/-- non-vacuity: the theorem applies to the sample file's batch (accepted by the translated `Batch.verify`), whose model
batch is therefore accepted by the hand model -/
theorem sample_model_accepts :
    batchValidate {} (toModel Ach.Props.C03CodeSample.sampleStd) = true :=
  code_accept_implies_model_accept _ Ach.Props.C03CodeSample.sampleStd Ach.Props.C03CodeSample.sample_default_opts
    (by decide) (fun _ _ => by show (0 : Int) ≤ 0; decide) (fun _ _ => by show DirBridge.classOKOf 200 47 = true; decide +kernel) Ach.Props.AcceptedSample.sample_batch_verified

end Ach.Props.C03ModelAccept
