import Ach.Proofs.Mask
import Ach.Generated.Mask
/-!
# C20 — achcli masking never reveals protected account data or names

`maskNumber` and `maskName` are modelled on bytes exactly as written
(`Ach.Model.Mask`; tied to cmd/achcli/describe by the `mask` correspondence
stream, exhaustive over short strings, and by the body hashes below).

* `maskNumber_reveals` / `maskNumber_hides` — for **every** string: the first two positions are masked, each output
  byte is `*`, blank or the input byte, at most four bytes are in clear, and a value with ≥ 5 non-blank bytes after
  position 2 always has one of them hidden.  The complement — ≤ 4 non-blank characters preceded by ≥ 2 characters —
  is shown completely: known finding D20 (`mask_short_number_counterexample`).
* `maskName_word` — a word of ≥ 4 runes shows only its first two bytes.
* `describe_masks_protected` (F) — in `describe`, the protected values reach `Fprintf` only through the masked
  variables, under the flags the CLI wires to `-mask*`.
-/
namespace Ach.Props.C20
open Ach Ach.Gen

theorem maskNumber_reveals (bs : List UInt8) (length : Nat) (h5 : 5 ≤ length) :
    (maskNumberBytes bs length).take 2 = [star, star] ∧
    onlyMasks ((bs.take length).drop 2).reverse (maskedTail bs length) = true ∧
    revealed ((bs.take length).drop 2).reverse (maskedTail bs length) ≤ 4 :=
  Ach.maskNumber_reveals bs length h5

theorem maskNumber_short_all_stars (bs : List UInt8) (length : Nat) (h : length < 5) :
    maskNumberBytes bs length = List.replicate 5 star := Ach.maskNumber_short bs length h

theorem maskNumber_hides (bs : List UInt8) (length : Nat) (h5 : 5 ≤ length)
    (hnb : nonBlank ((bs.take length).drop 2) ≥ 5) :
    hidesOne ((bs.take length).drop 2).reverse (maskedTail bs length) = true :=
  Ach.maskNumber_hides bs length h5 hnb

/-- the output has exactly as many bytes as the value has runes -/
theorem maskNumber_width (s : Str) (h5 : 5 ≤ s.length) : (maskNumber s).length = s.length :=
  Ach.maskNumber_length (utf8 s) s.length h5 (length_le_utf8_length s)

/-- known finding D20, on the model: a four-character number after two blanks is printed completely -/
theorem mask_short_number_counterexample : maskNumber "  1234".toList = (utf8 "**1234".toList) := by decide

theorem maskName_word (w : Str) (h : w.length > 3) :
    maskWord w = (utf8 w).take 2 ++ List.replicate (w.length - 2) star ∧
    (maskWord w).drop 2 = List.replicate (w.length - 2) star :=
  ⟨(maskWord_reveals w).1 h, maskWord_hides w h⟩

theorem maskName_short_word (w : Str) (h : w.length ≤ 3) : maskWord w = List.replicate w.length star :=
  (maskWord_reveals w).2 h

/-! ## facts about `describe` -/

def protectedAccessors : List String :=
  ["e.DFIAccountNumberField()", "e.DFIAccountNumber", "e.IndividualNameField()", "e.IndividualName",
   "a.CorrectedData", "a.CorrectedDataField()", "paymentInfo.IndividualName", "paymentInfo.IndividualIdentification",
   "paymentInfo.DFIAccountNumber", "paymentInfo.CustomerSSN", "a.PaymentRelatedInformationField()", "a.PaymentRelatedInformation"]

/-- **describe_masks_protected** (F): no protected accessor is handed to `Fprintf` directly, every masked variable is
masked under the flag that the property names, and the CLI wires `-mask` to all three flags -/
theorem describe_masks_protected :
    ((printArgs.filter (fun p => ["File", "dumpAddenda05", "dumpAddenda98"].contains p.1)).all
        (fun p => p.2.all (fun a => !protectedAccessors.contains a))) = true ∧
    maskCalls = [
      ⟨"File", "accountNumber", "maskNumber", "accountNumber", "opts.MaskAccountNumbers"⟩,
      ⟨"File", "name", "maskName", "name", "opts.MaskNames"⟩,
      ⟨"File", "accountNumber", "maskNumber", "accountNumber", "opts.MaskAccountNumbers"⟩,
      ⟨"dumpAddenda05", "paymentInfo.IndividualName", "maskName", "paymentInfo.IndividualName", "type *ach.BatchENR && paymentInfo != nil && opts.MaskNames"⟩,
      ⟨"dumpAddenda05", "paymentInfo.IndividualIdentification", "maskNumber", "paymentInfo.IndividualIdentification", "type *ach.BatchENR && paymentInfo != nil && opts.MaskAccountNumbers"⟩,
      ⟨"dumpAddenda05", "paymentInfo.DFIAccountNumber", "maskNumber", "paymentInfo.DFIAccountNumber", "type *ach.BatchENR && paymentInfo != nil && opts.MaskAccountNumbers"⟩,
      ⟨"dumpAddenda05", "paymentInfo.CustomerSSN", "maskNumber", "paymentInfo.CustomerSSN", "type *ach.BatchDNE && paymentInfo != nil && (opts.MaskNames || opts.MaskAccountNumbers)"⟩,
      ⟨"dumpAddenda98", "data", "maskNumber", "data", "opts.MaskCorrectedData"⟩] ∧
    describeOptsWiring.contains ("MaskAccountNumbers", "*flagMask || *flagMaskAccounts") = true ∧
    describeOptsWiring.contains ("MaskCorrectedData", "*flagMask || *flagMaskCorrectedData") = true ∧
    describeOptsWiring.contains ("MaskNames", "*flagMask || *flagMaskNames") = true := by
  decide +kernel

/-- F: the two mask functions are the ones the model was written against -/
theorem mask_functions_unchanged :
    maskHashes = [("maskNumber", 4286901667357287956), ("maskName", 15877321523339964340)] := by decide +kernel

/-- non-vacuity: a 17-byte account number meets the hypothesis of `maskNumber_hides` -/
example : nonBlank (((utf8 "12345678901234567".toList).take 17).drop 2) ≥ 5 := by decide

end Ach.Props.C20
