import Ach.Proofs.IO
import Ach.Generated.Sites
/-!
# C16 — I/O failures are reported, never swallowed

Model: `Ach.Model.IO` (I/O skeleton of writer.go `Write`/`writeBatch`/`writeIATBatch`/`writeLine`/`Flush` and of
reader.go `NewReaderWithContentType`/`Read`); lemmas: `Ach.Proofs.IO`; correspondence stream `io`
(`Ach.Model.IODriver`): the real Writer/Reader over fault-injecting `io.Writer`/`io.Reader`.

Writer (all three clauses hold, for *every* way of checking or dropping intermediate error results, as long as
`Write` ends in `return w.w.Flush()` — the sticky error of `bufio.Writer` does the rest):
* `write_reports_failure`, `write_ok_complete`, `write_error_at_flush_only`; `flush_result_needed_counterexample`
  shows that the hypothesis read off the facts (`code_policy`) is load-bearing.
Reader:
* `read_reports_failure` — any error other than `io.EOF` / `io.ErrUnexpectedEOF`, at every offset: reported;
* `read_reports_unexpectedEOF_partial` — `io.ErrUnexpectedEOF` at offset ≥ 1024: reported;
* `read_swallows_unexpectedEOF_in_sniff` / `…_counterexample` — **the code violates the clause here**: an underlying
  reader that fails with `io.ErrUnexpectedEOF` within the first 1024 bytes is taken for a short file by
  `charset.NewReader` (`io.ReadFull` cannot tell the two apart); `Read` reports no I/O error and parses the prefix.
* `read_ok_complete` — no failure: every byte reaches the parser.

## Trusted / modelled, not verified
* the contracts of `bufio.Writer` (`Flush`, `WriteString`, `Available`; default size 4096), `io.ReadFull`,
  `io.MultiReader`, `bytes.Reader`, `bufio.Scanner` + `ScanRunes`, `transform.Reader` (passes the source's error on after
  the data), and of x/net `charset.NewReader`, as transcribed in the header of `Ach.Model.IO`;
* the fault injectors: the underlying writer is a plain `io.Writer` (no `WriteString` method); the underlying reader's
  failure is persistent (every later `Read` returns `(0, err)` again);
* that `Write`'s calls are exactly the `writeLine` sequence + padding loop + final `Flush` (early `return err` only with a
  non-nil `err`): pinned by `writer_functions_unchanged` (body hashes), not re-derived from the AST;
* `NewReaderWithContentType` and `NewWriterWithOpts` are not in `ioFuncs` (only in `driftHashes`, whose 800 string keys
  make `decide` take > 10 s): the way the constructor error of `charset.NewReader` is handled is modelled from the
  source text and checked by the `io` stream only;
* record contents (`String()`), `file.Validate()` (runs before any I/O) and the line parser are not part of this model.
-/
namespace Ach.Props.C16
open Ach.IO Ach.Gen

variable {α : Type}

/-! ## facts from writer.go / reader.go -/

/-- F: no `Write`/`WriteString`/`Flush`/`writeBatch`/`writeIATBatch` result is discarded anywhere in the Writer, and
`Write`'s last statement is `return w.w.Flush()` (receiver normalised to `r` by the generator) -/
theorem code_policy : policyOf ioFuncs = { checkLineWS := true, checkPadWS := true, checkCalls := true, returnsFlush := true } := by
  decide

theorem write_ends_in_flush : (policyOf ioFuncs).returnsFlush = true := by decide

/-- F: `Reader.Read` consults `scanner.Err()`; the only discarded result is `bytes.Buffer.WriteString` (never fails) -/
theorem read_checks_scanner_err :
    checksScannerErr ioFuncs = true ∧ dropped ioFuncs "Reader.Read" = ["currentLine.WriteString"] := by decide

/-- F: the functions the model was written against -/
theorem writer_functions_unchanged :
    (ioFuncs.filter (fun f => f.fn.startsWith "Writer.")).map (fun f => (f.fn, f.lastReturn, f.hash)) =
      [("Writer.Write", "return r.w.Flush()", 647901554185630992),
       ("Writer.Flush", "return r.w.Flush()", 1266472369869030050),
       ("Writer.writeBatch", "return nil", 11647795274641545808),
       ("Writer.writeIATBatch", "return nil", 16352563860775370297),
       ("Writer.writeLine", "return nil", 8220964415537587164)] := by decide +kernel

theorem reader_functions_unchanged :
    (ioFuncs.filter (fun f => ["Reader.Read", "NewReader", "NewWriter"].contains f.fn)).map (fun f => (f.fn, f.lastReturn, f.hash)) =
      [("Reader.Read", "return r.File, r.errors", 14029065647283193467),
       ("NewReader", "return NewReaderWithContentType(r, \"text/plain\")", 3010030418815538912),
       ("NewWriter", "return NewWriterWithOpts(w, nil)", 17891989422190391091)] := by decide +kernel

/-! ## Writer -/

/-- the writer `NewWriterWithOpts` builds over an underlying writer that will accept `k` more bytes -/
def fresh (cap k : Nat) (mode : Mode) : W α := newWriter cap { mode := mode, room := k, got := [] }

/-- **write_reports_failure** (clause "if the underlying io.Writer fails at any offset, Write (or the Flush that follows)
returns an error"): for every file, every line ending, every buffer size, every offset `k` smaller than the size of the
output and every fault mode (hard error, short write without error, short write with `io.ErrShortWrite`), `Write`
returns an error. -/
theorem write_reports_failure (cfg : Cfg α) (f : WFile α) (cap k : Nat) (mode : Mode)
    (hk : k < (render cfg f).length) : (write (policyOf ioFuncs) cfg f (fresh cap k mode)).2 ≠ none :=
  write_fails _ write_ends_in_flush cfg f _ (by simpa [fresh, newWriter] using hk)

/-- the same for any policy of checking or dropping the intermediate results: only the final `return w.w.Flush()`
matters, because the error of `bufio.Writer` is sticky -/
theorem write_reports_failure_any_policy (p : Policy) (hp : p.returnsFlush = true) (cfg : Cfg α) (f : WFile α)
    (cap k : Nat) (mode : Mode) (hk : k < (render cfg f).length) : (write p cfg f (fresh cap k mode)).2 ≠ none :=
  write_fails p hp cfg f _ (by simpa [fresh, newWriter] using hk)

/-- **write_ok_complete** (clause "never reports success for output that was not completely written"): if `Write`
returns nil, the underlying writer has received exactly the rendering of the file — every record followed by the line
ending, in order, then the nines padding — nothing more, nothing less, nothing left in the buffer. -/
theorem write_ok_complete (cfg : Cfg α) (f : WFile α) (cap k : Nat) (mode : Mode)
    (h : (write (policyOf ioFuncs) cfg f (fresh cap k mode)).2 = none) :
    (write (policyOf ioFuncs) cfg f (fresh cap k mode)).1.bw.wr.got = render cfg f ∧
    (write (policyOf ioFuncs) cfg f (fresh cap k mode)).1.bw.buf = [] := by
  have := write_ok _ write_ends_in_flush cfg f _ h
  exact ⟨by simpa [fresh, newWriter] using this.1, this.2.1⟩

/-- a second `Write` on the same Writer appends: success means the stream is the old output followed by the new file -/
theorem write_ok_complete_general (p : Policy) (hp : p.returnsFlush = true) (cfg : Cfg α) (f : WFile α) (w : W α)
    (h : (write p cfg f w).2 = none) :
    (write p cfg f w).1.bw.wr.got = w.bw.wr.got ++ w.bw.buf ++ render cfg f ∧ (write p cfg f w).1.bw.buf = [] :=
  ⟨(write_ok p hp cfg f w h).1, (write_ok p hp cfg f w h).2.1⟩

/-- **write_error_at_flush_only** (clause "errors that appear only at Flush"): a file that fits the buffer with 94
bytes to spare causes no underlying write before the last statement — no `WriteString`/`writeLine` can fail, the body
ends without error with the whole rendering buffered — so a failing writer can only be noticed by the final `Flush`;
`Write` returns precisely that `Flush`'s result, and it is an error for every `k < total`. -/
theorem write_error_at_flush_only (cfg : Cfg α) (f : WFile α) (cap k : Nat) (mode : Mode)
    (hfit : (render cfg f).length + 94 ≤ cap) (hk : k < (render cfg f).length) :
    let body := writeBody (policyOf ioFuncs) cfg f (fresh cap k mode)
    body.2 = none ∧ body.1.bw.wr.got = [] ∧ body.1.bw.buf = render cfg f ∧ body.1.bw.err = none ∧
    (write (policyOf ioFuncs) cfg f (fresh cap k mode)).2 = body.1.bw.flush.2 ∧ body.1.bw.flush.2 ≠ none := by
  intro body
  have hb := fit_writeBody (policyOf ioFuncs) cfg f cap { mode := mode, room := k, got := [] } hfit
  have hw : (write (policyOf ioFuncs) cfg f (fresh cap k mode)).2 = body.1.bw.flush.2 := by
    have h2 : body.2 = none := hb.1
    show (andThen true body _).2 = _
    rw [andThen_none h2]
    simp [write_ends_in_flush, wflush]
  refine ⟨hb.1, ?_, hb.2.2.2.1, hb.2.1, hw, ?_⟩
  · have : body.1.bw.wr = _ := hb.2.2.1
    rw [this]
  · rw [← hw]; exact write_reports_failure cfg f cap k mode hk

/-- the hypothesis taken from the facts is needed: were the last statement `w.w.Flush(); return nil`, a one-record file
written to a writer that accepts nothing would be reported as success -/
theorem flush_result_needed_counterexample :
    (write { checkLineWS := true, checkPadWS := true, checkCalls := true, returnsFlush := false }
      { ending := [10], padLine := [57, 57] } { header := [49, 48], batches := [], iat := [], control := [] }
      (fresh 4096 0 .hard : W Nat)).2 = none := by decide

/-- non-vacuity of `write_reports_failure` / `write_error_at_flush_only`: two records + eight padding lines = 33 bytes;
the writer fails after 7; cap 4096 -/
example : let cfg : Cfg Nat := { ending := [13, 10], padLine := [57] }
    let f : WFile Nat := { header := [49, 48, 49], batches := [[]], iat := [], control := [57, 48] }
    (render cfg f).length = 33 ∧ (render cfg f).length + 94 ≤ 4096 ∧
    (write (policyOf ioFuncs) cfg f (fresh 4096 7 .short)).2 = some .shortWrite ∧
    (write (policyOf ioFuncs) cfg f (fresh 4096 7 .short)).1.bw.wr.got = [49, 48, 49, 13, 10, 57, 48] := by decide

/-- non-vacuity of `write_ok_complete`, with a buffer so small that lines are flushed in pieces -/
example : let cfg : Cfg Nat := { ending := [10], padLine := [57, 57, 57] }
    let f : WFile Nat := { header := [1, 2, 3, 4, 5, 6, 7], batches := [[8, 9], []], iat := [[10]], control := [11, 12] }
    (write (policyOf ioFuncs) cfg f (fresh 5 1000 .hard)).2 = none ∧
    (write (policyOf ioFuncs) cfg f (fresh 5 1000 .hard)).1.bw.wr.got = render cfg f := by decide

/-- the model's buffer never exceeds its capacity and `WriteString`'s loop stops by its own condition (the recursion
fuel of the model is never the reason) -/
theorem bufio_model_wellformed (b : BW α) (s : List α) (h : b.Wf) :
    b.flush.1.Wf ∧ (b.writeString s).1.Wf ∧
    ((b.wsLoop (s.length + 1) s).1.err = none → (b.wsLoop (s.length + 1) s).2.length ≤ (b.wsLoop (s.length + 1) s).1.avail) :=
  ⟨(flush_wf b h).1, writeString_wf b s h, (wsLoop_exit _ b s h (fun _ => by split <;> omega)).2.2⟩

/-! ## Reader -/

/-- the underlying reader fails: it has `total` bytes but returns `e` after delivering `k ≤ total` of them -/
def failing (total k : Nat) (e : RErr) (chunk : Nat) : Plan := { total := total, k := k, e := e, chunk := chunk }

/-- **read_reports_failure** (clause "if the underlying io.Reader fails at any byte offset, Read returns an error
instead of a silently shortened file") for every error value other than `io.EOF`/`io.ErrUnexpectedEOF`: whatever the
offset `k ≤ total` and however the reader chunks its data, `Read` returns an error — "nil scanner" when the failure hits
`charset.NewReader`'s 1024-byte pre-read (the constructor error is kept in `r.errors` and the scanner stays nil), the
reader's own error from `scanner.Err()` otherwise. -/
theorem read_reports_failure (total k chunk : Nat) (hk : k ≤ total) :
    (readFile (checksScannerErr ioFuncs) (failing total k .other chunk)).isErr = true ∧
    readFile (checksScannerErr ioFuncs) (failing total k .other chunk) =
      if k < sniffLen then .errNilScanner else .errScan .other k := by
  rw [read_checks_scanner_err.1, readFile_eq]
  have hl : (failing total k .other chunk).limit = k := by simp [failing, Plan.limit]; omega
  have he : (failing total k .other chunk).endErr = .other := by simp [failing, Plan.endErr, hk]
  rw [hl, he]
  by_cases h : sniffLen ≤ k
  · simp [h, ReadRes.isErr, Nat.not_lt.mpr h]
  · simp [h, ReadRes.isErr, Nat.lt_of_not_le h]

/- Full statement wanted for `io.ErrUnexpectedEOF` too:
     ∀ total k chunk, k ≤ total → (readFile … (failing total k .unexpectedEOF chunk)).isErr = true
   It is false for k < 1024 (`read_swallows_unexpectedEOF_in_sniff`); proved for 1024 ≤ k: -/
/-- **read_reports_unexpectedEOF_partial**: a reader failing with `io.ErrUnexpectedEOF` after at least 1024 bytes is reported -/
theorem read_reports_unexpectedEOF_partial (total k chunk : Nat) (hk : k ≤ total) (hs : sniffLen ≤ k) :
    readFile (checksScannerErr ioFuncs) (failing total k .unexpectedEOF chunk) = .errScan .unexpectedEOF k := by
  rw [read_checks_scanner_err.1, readFile_eq]
  have hl : (failing total k .unexpectedEOF chunk).limit = k := by simp [failing, Plan.limit]; omega
  have he : (failing total k .unexpectedEOF chunk).endErr = .unexpectedEOF := by simp [failing, Plan.endErr, hk]
  simp [hl, he, hs]

/-- **violation**: a reader failing with `io.ErrUnexpectedEOF` after `k < 1024` bytes (k ≤ total) makes `Read` report no
I/O error; the first `k` bytes are parsed as if they were the whole file -/
theorem read_swallows_unexpectedEOF_in_sniff (total k chunk : Nat) (hk : k ≤ total) (hs : k < sniffLen) :
    readFile (checksScannerErr ioFuncs) (failing total k .unexpectedEOF chunk) = .ok k := by
  rw [read_checks_scanner_err.1, readFile_eq]
  have hl : (failing total k .unexpectedEOF chunk).limit = k := by simp [failing, Plan.limit]; omega
  have he : (failing total k .unexpectedEOF chunk).endErr = .unexpectedEOF := by simp [failing, Plan.endErr, hk]
  simp [hl, he, Nat.not_le.mpr hs]

/-- the concrete witness: 950-byte file (ten records), connection cut after 500 bytes with `io.ErrUnexpectedEOF` -/
theorem read_unexpectedEOF_counterexample :
    (readFile true (failing 950 500 .unexpectedEOF 0)).isErr = false ∧
    readFile true (failing 950 500 .unexpectedEOF 0) = .ok 500 := by decide

/-- **read_ok_complete**: without a failure every byte reaches the parser; and whenever `Read` reports no I/O error on a
reader whose failure value is not `io.EOF`/`io.ErrUnexpectedEOF`, there was no failure and nothing was cut -/
theorem read_ok_complete (total k chunk : Nat) (e : RErr) :
    (total < k → readFile (checksScannerErr ioFuncs) (failing total k e chunk) = .ok total) ∧
    (∀ n, readFile (checksScannerErr ioFuncs) (failing total k .other chunk) = .ok n → total < k ∧ n = total) := by
  rw [read_checks_scanner_err.1]
  constructor
  · intro hk
    rw [readFile_eq]
    have hl : (failing total k e chunk).limit = total := by simp [failing, Plan.limit]; omega
    have he : (failing total k e chunk).endErr = .eof := by simp [failing, Plan.endErr, Nat.not_le.mpr hk]
    simp [hl, he]
  · intro n h
    by_cases hk : k ≤ total
    · have := (read_reports_failure total k chunk hk).1
      rw [read_checks_scanner_err.1, h] at this
      simp [ReadRes.isErr] at this
    · have hk' : total < k := by omega
      rw [readFile_eq] at h
      have hl : (failing total k .other chunk).limit = total := by simp [failing, Plan.limit]; omega
      have he : (failing total k .other chunk).endErr = .eof := by simp [failing, Plan.endErr, hk]
      simp [hl, he] at h
      exact ⟨hk', h.symm⟩

/-- the fact is needed: without the `scanner.Err()` test a failure after the pre-read would be a silently shortened file -/
theorem scanner_err_check_needed_counterexample :
    readFile false (failing 3000 2000 .other 0) = .ok 2000 ∧ readFile true (failing 3000 2000 .other 0) = .errScan .other 2000 := by
  decide

/-- non-vacuity: failures inside and outside the pre-read window, chunked reader -/
example : readFile true (failing 950 949 .other 7) = .errNilScanner ∧
    readFile true (failing 5000 4999 .other 100) = .errScan .other 4999 ∧
    readFile true (failing 5000 5001 .other 100) = .ok 5000 := by decide

end Ach.Props.C16
