import Ach.Proofs.Create
import Ach.Generated.Topics
import Ach.Model.CreateDriver
import Ach.Proofs.FileCreate
/-!
# C05 — Create tabulates a valid, stable file; offsets balance every batch  (batch level)

Model: `Ach.Model.Create` (`build`, `upsertOffsets` with the removal loop exactly as written, parameterised by the
slice expression found in the source).  Tie: the `create` correspondence stream runs the real `(*Batch).build`
(through the `verif` hook) and the model on random batches × offsets × 1–3 repetitions and compares entries, trace and
addenda sequence numbers and the control record; the slice expression is the generated fact `removeStride`.

* `upsert_slice_is_i_plus_1` (F) — the removal loop drops exactly the element it found.
* `build_controls` — count, totals and hash of the control equal the values recomputed from the entries.
* `offset_balanced` — with an Offset configured, debits = credits, through at most one OFFSET entry per direction.
* `build_idempotent`, `build_repeated` — any number of further `build` calls changes nothing.
* `upsert_counterexample_*` — with the historical `Entries[i+i:]` the model panics, hangs, or silently loses an
  offset entry (this is the defect fixed in /repo commit f0940535).

File level — model `Ach.Model.FileCreate` (the numbering loop over standard then IAT batches with one running counter,
the file control summed from the batch controls), tied by the `filecreate` correspondence stream (real `File.Create` on
files whose batch numbers and control figures were set to arbitrary values):

* `file_create_validates` — the file `File.Create` leaves passes `File.ValidateWith` whenever its header validates, its
  batches validate (Create only renumbers them) and the numbering the loop leaves is ascending;
* `file_create_fresh_ascending` — which it always is for batches numbered ≤ 1 (fresh from the constructors): 1, 2, 3, …;
* `file_create_control` — the file control equals the figures recomputed from the batch controls, for every input;
* `file_create_idempotent` — `Create` again changes nothing (numbers and control).
A file with pre-set numbers > 1 can come out non-ascending (`[5, 0] ↦ [5, 2]`, known finding, `Props.C11`).

Not modelled: `createFileADV` and the SEC-specific `Create` wrappers — covered by the oracle only.
-/
namespace Ach.Props.C05
open Ach Ach.Gen

/-- F: `upsertOffsets` removes an OFFSET entry with `append(b.Entries[:i], b.Entries[i+1:]...)` -/
theorem upsert_slice_is_i_plus_1 : removeStride = some 1 := by decide +kernel

/-- **build_controls** -/
theorem build_controls (b b' : CBatch) (hw : OffsetsWellFormed b.entries) (h : build 1 b = .ok b') :
    b'.control.entryAddendaCount = cCount b'.entries ∧ b'.control.totalDebit = cDebit b'.entries ∧
    b'.control.totalCredit = cCredit b'.entries ∧ b'.control.entryHash = cHash b'.entries := by
  obtain ⟨⟨a, b1, c⟩, d, _⟩ := Ach.build_controls b b' hw h
  exact ⟨a, b1, c, d⟩

/-- **offset_balanced**: with an Offset configured every built batch is balanced -/
theorem offset_balanced (b b' : CBatch) (hw : OffsetsWellFormed b.entries) (h : build 1 b = .ok b')
    (ho : b.offset ≠ none) : b'.control.totalDebit = b'.control.totalCredit :=
  (Ach.build_controls b b' hw h).2.2 ho

/-- at most one OFFSET entry per direction is appended -/
theorem offsets_at_most_one_each (off : COffset) (k : OffsetKind) (last D C : Int) :
    ((newOffsets off k last D C).filter (fun e => e.code = dcodeOf k)).length ≤ 1 ∧
    ((newOffsets off k last D C).filter (fun e => e.code = ccodeOf k)).length ≤ 1 :=
  newOffsets_at_most_one_each off k last D C

/-- **build_idempotent** -/
theorem build_idempotent (b b' : CBatch) (hw : OffsetsWellFormed b.entries) (h : build 1 b = .ok b')
    (hreg : ∃ e ∈ b.entries, e.isOffset = false)
    (hoff : ∀ e ∈ b'.entries, e.isOffset = true → ∀ s, buildEntry b' s e = some e) :
    build 1 b' = .ok b' := Ach.build_idempotent b b' hw h hreg hoff

def iterBuild : Nat → CBatch → Except BuildErr CBatch
  | 0, b => .ok b
  | n + 1, b => match build 1 b with
    | .ok b' => iterBuild n b'
    | .error e => .error e

/-- **build_repeated**: however many times `build` is repeated after the first, the batch stays the same -/
theorem build_repeated (b b' : CBatch) (hw : OffsetsWellFormed b.entries) (h : build 1 b = .ok b')
    (hreg : ∃ e ∈ b.entries, e.isOffset = false)
    (hoff : ∀ e ∈ b'.entries, e.isOffset = true → ∀ s, buildEntry b' s e = some e) :
    ∀ n, iterBuild n b' = .ok b' := by
  have hfix := Ach.build_idempotent b b' hw h hreg hoff
  intro n
  induction n with
  | zero => rfl
  | succ n ih => simp only [iterBuild, hfix, ih]

/-- `upsertOffsets` alone is idempotent on a tallied batch -/
theorem upsert_idempotent (b b' : CBatch) (off : COffset) (k : OffsetKind)
    (ho : b.offset = some off) (hr : off.routingOK = true) (hk : off.kind = some k)
    (hw : OffsetsWellFormed b.entries) (ht : Tallied b.entries b.control)
    (h : upsertOffsets 1 b = .ok b') : upsertOffsets 1 b' = .ok b' :=
  Ach.upsert_idempotent b b' off k ho hr hk hw ht h

/-! ## the historical defect, on the model -/

def demoEntry (code amount : Int) (trace : String) (isOffset : Bool) : CEntry :=
  ⟨code, amount, "23138010".toList, trace.toList, isOffset, [], 0⟩

def demoOffset : COffset := ⟨"23138010".toList, true, some .checking⟩

def demoBatch (es : List CEntry) : CBatch :=
  ⟨true, 200, "12104288".toList, es, ⟨200, 0, 0, 0, 0⟩, some demoOffset, true⟩

def failsWith : Except BuildErr CBatch → Fault → Bool
  | .error (.fault f), g => f == g
  | _, _ => false

/-- three entries + offsets, second build with `Entries[i+i:]`: slice bounds out of range -/
theorem upsert_counterexample_panic :
    failsWith (CreateDriver.repeatBuild 0 2 (demoBatch [demoEntry 22 100 "" false, demoEntry 27 50 "" false, demoEntry 22 7 "" false]))
      .panic = true := by decide +kernel

/-- an OFFSET entry at index 0 with `Entries[i+i:]`: the loop never advances -/
theorem upsert_counterexample_hang :
    failsWith (build 0 (demoBatch [demoEntry 27 100 "" true, demoEntry 22 100 "" false])) .hang = true := by decide +kernel

/-- and with `Entries[i+1:]` the same inputs build, stay balanced, and are stable -/
example : (CreateDriver.repeatBuild 1 3 (demoBatch [demoEntry 22 100 "" false, demoEntry 27 50 "" false, demoEntry 22 7 "" false])).toOption.map
    (fun b => (b.entries.length, b.control.totalDebit, b.control.totalCredit)) = some (5, 157, 157) := by decide +kernel

/-- non-vacuity of `build_idempotent`'s hypotheses on that batch -/
example : ∃ b', build 1 (demoBatch [demoEntry 22 100 "" false, demoEntry 27 50 "" false]) = .ok b' ∧
    (∀ e ∈ b'.entries, e.isOffset = true → buildEntry b' 0 e = some e) := by
  refine ⟨_, rfl, ?_⟩
  decide +kernel

/-! ## File.Create -/

open Ach.FileCreate in
theorem file_create_validates (o : Opts) (f : VFile) (hdrs : List Int) (hlen : hdrs.length = f.iatControls.length)
    (hh : o.allowMissingFileHeader = true ∨ f.headerOK = true)
    (hb : ∀ b ∈ f.batches, batchValidate o b = true)
    (hasc : o.allowUnorderedBatchNumbers = true ∨ o.customTraceNumbers = true ∨ batchNumbersAscend 0 (renumber 1 f.batches) = true) :
    fileValidate o (fileCreate f hdrs true) = true := fileCreate_validates o f hdrs hlen hh hb hasc

open Ach.FileCreate in
theorem file_create_fresh_ascending (bs : List VBatch) (h : ∀ b ∈ bs, b.header.batchNumber ≤ 1) :
    batchNumbersAscend 0 (renumber 1 bs) = true := renumber_fresh_ascending bs 1 0 (by omega) h

open Ach.FileCreate in
theorem file_create_control (f : VFile) (hdrs : List Int) (ok : Bool) :
    let g := fileCreate f hdrs ok
    g.control.batchCount = (allControls g).length ∧
    g.control.entryAddendaCount = sumBy (·.entryAddendaCount) (allControls g) ∧
    g.control.entryHash = leastSignificantDigits (sumBy (·.entryHash) (allControls g)) 10 ∧
    g.control.totalDebit = sumBy (·.totalDebit) (allControls g) ∧
    g.control.totalCredit = sumBy (·.totalCredit) (allControls g) := by
  simp [fileCreate, allControls, sumControls]

open Ach.FileCreate in
theorem file_create_idempotent (f : VFile) (hdrs : List Int) (hlen : hdrs.length = f.iatControls.length) (ok : Bool) :
    fileCreate (fileCreate f hdrs ok) (newNumbers (1 + f.batches.length) hdrs) ok = fileCreate f hdrs ok :=
  fileCreate_idempotent f hdrs hlen ok

def demoVBatch (n eac hash d c : Int) : VBatch := ⟨⟨200, [], [], n⟩, [], ⟨200, eac, hash, d, c, [], [], n⟩, true⟩

/-- non-vacuity: three batches numbered 0, 0, 7 come out 1, 2, 7 with the control summed (hash cut to 10 digits) -/
example :
    let g := Ach.FileCreate.fileCreate ⟨true, [demoVBatch 0 3 1234 100 50, demoVBatch 0 2 99 0 10, demoVBatch 7 5 9999999999 7 7], [], ⟨0, 0, 0, 0, 0⟩, true⟩ [] true
    (g.batches.map (·.header.batchNumber), g.batches.map (·.control.batchNumber), g.control) =
      ([1, 2, 7], [1, 2, 7], ⟨3, 10, 1332, 107, 67⟩) := by decide +kernel

/-- F: the functions `Ach.Model.Create` mirrors by hand have the bodies the model was written against -/
theorem create_functions_unchanged : hashes_create = [("File.Create", 206460734504824362), ("File.createFileADV", 7914545407192902951), ("Batch.build", 9945901091926620191), ("Batch.upsertOffsets", 13389808617865457086), ("createOffsetEntryDetail", 819736143008900615), ("lastTraceNumber", 11642321305391312867), ("EntryDetail.SetTraceNumber", 556215407367731719), ("IATBatch.build", 9896163527177086157), ("IATBatch.Create", 16606746237067222751)] := by decide +kernel

end Ach.Props.C05
