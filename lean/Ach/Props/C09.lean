import Ach.Proofs.Merge
import Ach.Props.C05
/-!
# C09 — merged files are valid and respect the line and dollar limits

On the merge model (`Ach.Model.Merge`, see C08):

* `merge_lines_bounded` — for every accumulated state and every `MaxLines` (0 = unlimited, or ≥ 2; the API admits 0 or ≥ 5)
  each file `convertToFiles` writes has at most `MaxLines` records (file header/control, batch headers/controls, entries,
  addenda — the 9-filler excluded), unless it holds a single entry;  proved through a loop invariant relating the code's
  running counter (`currentFileLineCount`, incremented by 2 per batch *before* its first entry, reset to 4 on overflow)
  to the real size of the file being assembled;
* `merge_traces_ascending` — inside every accumulated batch trace numbers are unique and strictly ascending (the ordered
  map invariant), for every input list;
* `merge_outputs_keep_order` — output batches are consecutive runs of those ordered entries (`convert_conserves`).

Validity of each output batch/file (`Create` tabulates, C05 `build_controls`) is not re-proved on this abstract model;
the dollar limit and "exactly one file per route when no limit binds" are searched by the oracle (the same invariant
shape, with an exact counter, would prove the dollar bound — left as `merge_dollars_bounded` TODO).
-/
namespace Ach.Props.C09
open Ach.Merge

theorem merge_lines_bounded (c : Cond) (hmax : c.maxLines = 0 ∨ 2 ≤ c.maxLines) (fs : List InFile) :
    ∀ o ∈ addFiles fs [], ∀ f ∈ convertOne c o,
      c.maxLines = 0 ∨ wfileLines f ≤ c.maxLines ∨ (wfileEntries f).length = 1 :=
  fun o _ f hf => convertOne_lines_bounded c hmax o f hf

theorem merge_traces_ascending (fs : List InFile) : ∀ o ∈ addFiles fs [], ∀ b ∈ o.batches, StrictAsc b.entries :=
  fun o ho => addFiles_sorted fs [] (by intro o ho; simp at ho) o ho

theorem merge_outputs_keep_order (c : Cond) (o : OutFile) :
    (convertOne c o).flatMap wfileEntries = o.batches.flatMap (·.entries) := convertOne_entries c o

/-- non-vacuity: MaxLines = 7 splits a 4-entry batch into files of 7 and 5 records -/
example : (convertOne ⟨7, 1000000⟩ ⟨(1, 2), [⟨7, [⟨1, 1, 10, 0⟩, ⟨2, 1, 10, 1⟩, ⟨3, 1, 10, 2⟩, ⟨4, 1, 10, 3⟩]⟩]⟩).map wfileLines = [7, 5] := by
  decide

end Ach.Props.C09
