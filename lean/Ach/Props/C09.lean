import Ach.Proofs.Merge
import Ach.Props.C05
/-!
# C09 — merged files are valid and respect the line and dollar limits

On the merge model (`Ach.Model.Merge`, see C08):

* `merge_lines_bounded` — for every accumulated state and every `MaxLines` (0 = unlimited, or ≥ 2; the API admits 0 or ≥ 5)
  each file `convertToFiles` writes has at most `MaxLines` records (file header/control, batch headers/controls, entries,
  addenda — the 9-filler excluded), unless it holds a single entry;  proved through a loop invariant relating the code's
  running counter (`currentFileLineCount`, incremented by 2 per batch *before* its first entry, reset to 4 on overflow)
  to the real size of the file being assembled;
* `merge_traces_ascending` — inside every accumulated batch trace numbers are unique and strictly ascending (the ordered
  map invariant), for every input list;
* `merge_outputs_keep_order` — output batches are consecutive runs of those ordered entries (`convert_conserves`).

* `merge_dollars_bounded` — the same loop with its exact dollar counter: the entry amounts of every written file sum to
  at most `MaxDollarAmount` (whenever that is positive; `convertToFiles` forces 0 and anything above the Nacha limit to
  the Nacha limit), unless the file holds a single entry;
* `merge_one_file_when_unlimited` — if a route's accumulated batches fit under both limits (lines as the code counts
  them: 2 per batch even when it has no entries) and no amount is negative, exactly the route's entries end up in at most
  one file; with `C08.merge_routes_distinct` that is one file per origin/destination pair;
* `merge_equal_headers_share_batch` — two accumulated batches with equal headers exist only because of trace collisions:
  every entry of the later one has a trace number the earlier one already holds.

Validity of each output batch/file (`Create` tabulates, C05 `build_controls`) is not re-proved on this abstract model; the
oracle checks it on the real outputs.
-/
namespace Ach.Props.C09
open Ach.Merge

theorem merge_lines_bounded (c : Cond) (hmax : c.maxLines = 0 ∨ 2 ≤ c.maxLines) (fs : List InFile) :
    ∀ o ∈ addFiles fs [], ∀ f ∈ convertOne c o,
      c.maxLines = 0 ∨ wfileLines f ≤ c.maxLines ∨ (wfileEntries f).length = 1 :=
  fun o _ f hf => convertOne_lines_bounded c hmax o f hf

theorem merge_traces_ascending (fs : List InFile) : ∀ o ∈ addFiles fs [], ∀ b ∈ o.batches, StrictAsc b.entries :=
  fun o ho => addFiles_sorted fs [] (by intro o ho; simp at ho) o ho

theorem merge_outputs_keep_order (c : Cond) (o : OutFile) :
    (convertOne c o).flatMap wfileEntries = o.batches.flatMap (·.entries) := convertOne_entries c o

theorem merge_dollars_bounded (c : Cond) (fs : List InFile) :
    ∀ o ∈ addFiles fs [], ∀ f ∈ convertOne c o,
      c.maxDollars ≤ 0 ∨ wfileDollars f ≤ c.maxDollars ∨ (wfileEntries f).length = 1 :=
  fun o _ f hf => convertOne_dollars_bounded c o f hf

theorem merge_one_file_when_unlimited (c : Cond) (o : OutFile) (hpos : ∀ b ∈ o.batches, ∀ e ∈ b.entries, 0 ≤ e.amount)
    (hl : c.maxLines = 0 ∨ 2 + countedLines o.batches ≤ c.maxLines)
    (hd : c.maxDollars ≤ 0 ∨ totalAmt o.batches ≤ c.maxDollars) :
    (convertOne c o).length ≤ 1 ∧ (convertOne c o).flatMap wfileEntries = o.batches.flatMap (·.entries) :=
  ⟨convertOne_single c o hpos hl hd, convertOne_entries c o⟩

theorem merge_equal_headers_share_batch (fs : List InFile) :
    ∀ o ∈ addFiles fs [], o.batches.Pairwise (fun a b => a.key = b.key → ∀ x ∈ b.entries, contains x.trace a.entries = true) :=
  fun o ho => addFiles_pairwise fs [] (by intro o ho; simp at ho) o ho

/-- non-vacuity: a dollar limit of 25 splits four 10-dollar entries into files of 20 and 20; without limits one file;
two equal-header input batches whose traces collide give two accumulated batches, the second holding only the collisions -/
example : (convertOne ⟨0, 25⟩ ⟨(1, 2), [⟨7, [⟨1, 1, 10, 0⟩, ⟨2, 1, 10, 1⟩, ⟨3, 1, 10, 2⟩, ⟨4, 1, 10, 3⟩]⟩]⟩).map wfileDollars = [20, 20] ∧
    (convertOne ⟨0, 1000⟩ ⟨(1, 2), [⟨7, [⟨1, 1, 10, 0⟩, ⟨2, 1, 10, 1⟩]⟩, ⟨8, [⟨1, 1, 10, 2⟩]⟩]⟩).length = 1 ∧
    (addFiles [⟨(1, 2), [⟨7, [⟨1, 1, 10, 0⟩, ⟨2, 1, 10, 1⟩]⟩, ⟨7, [⟨2, 1, 5, 2⟩, ⟨3, 1, 5, 3⟩]⟩]⟩] []).map (·.batches.map (·.entries.map (·.payload))) =
      [[[0, 1, 3], [2]]] := by
  decide

/-- non-vacuity: MaxLines = 7 splits a 4-entry batch into files of 7 and 5 records -/
example : (convertOne ⟨7, 1000000⟩ ⟨(1, 2), [⟨7, [⟨1, 1, 10, 0⟩, ⟨2, 1, 10, 1⟩, ⟨3, 1, 10, 2⟩, ⟨4, 1, 10, 3⟩]⟩]⟩).map wfileLines = [7, 5] := by
  decide

end Ach.Props.C09
