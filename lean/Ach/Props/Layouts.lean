import Ach.Model.Layout
import Ach.Generated.Layouts
/-!
# Fact obligations shared by C01 and C02: every record's `Parse` and `String()` line up

One theorem per record type: the layout extracted from the current Go source
compiles, i.e. the columns `Parse` cuts are exactly the columns `String()`
writes, converter pairs are known, every cut is by rune offsets, widths sum to
94.  An off-by-one in any offset or width, a byte-offset cut, a new or changed
custom `XField()` method makes exactly that record's theorem fail.
-/
set_option maxRecDepth 100000
namespace Ach.Props.Layouts
open Ach Ach.Gen

theorem record_types : recordTypes = ["ADVBatchControl", "ADVEntryDetail", "ADVFileControl", "Addenda02", "Addenda05", "Addenda10",
    "Addenda11", "Addenda12", "Addenda13", "Addenda14", "Addenda15", "Addenda16", "Addenda17", "Addenda18", "Addenda98",
    "Addenda98Refused", "Addenda99", "Addenda99Contested", "Addenda99Dishonored", "BatchControl", "BatchHeader", "EntryDetail",
    "FileControl", "FileHeader", "IATBatchHeader", "IATEntryDetail"] := by decide +kernel

theorem layout_ADVBatchControl : compileOK parse_ADVBatchControl render_ADVBatchControl = true := by decide +kernel
theorem layout_ADVEntryDetail : compileOK parse_ADVEntryDetail render_ADVEntryDetail = true := by decide +kernel
theorem layout_ADVFileControl : compileOK parse_ADVFileControl render_ADVFileControl = true := by decide +kernel
theorem layout_Addenda02 : compileOK parse_Addenda02 render_Addenda02 = true := by decide +kernel
theorem layout_Addenda05 : compileOK parse_Addenda05 render_Addenda05 = true := by decide +kernel
theorem layout_Addenda10 : compileOK parse_Addenda10 render_Addenda10 = true := by decide +kernel
theorem layout_Addenda11 : compileOK parse_Addenda11 render_Addenda11 = true := by decide +kernel
theorem layout_Addenda12 : compileOK parse_Addenda12 render_Addenda12 = true := by decide +kernel
theorem layout_Addenda13 : compileOK parse_Addenda13 render_Addenda13 = true := by decide +kernel
theorem layout_Addenda14 : compileOK parse_Addenda14 render_Addenda14 = true := by decide +kernel
theorem layout_Addenda15 : compileOK parse_Addenda15 render_Addenda15 = true := by decide +kernel
theorem layout_Addenda16 : compileOK parse_Addenda16 render_Addenda16 = true := by decide +kernel
theorem layout_Addenda17 : compileOK parse_Addenda17 render_Addenda17 = true := by decide +kernel
theorem layout_Addenda18 : compileOK parse_Addenda18 render_Addenda18 = true := by decide +kernel
theorem layout_Addenda98 : compileOK parse_Addenda98 render_Addenda98 = true := by decide +kernel
theorem layout_Addenda98Refused : compileOK parse_Addenda98Refused render_Addenda98Refused = true := by decide +kernel
theorem layout_Addenda99 : compileOK parse_Addenda99 render_Addenda99 = true := by decide +kernel
theorem layout_Addenda99Contested : compileOK parse_Addenda99Contested render_Addenda99Contested = true := by decide +kernel
theorem layout_Addenda99Dishonored : compileOK parse_Addenda99Dishonored render_Addenda99Dishonored = true := by decide +kernel
theorem layout_BatchControl : compileOK parse_BatchControl render_BatchControl = true := by decide +kernel
theorem layout_BatchHeader : compileOK parse_BatchHeader render_BatchHeader = true := by decide +kernel
theorem layout_EntryDetail : compileOK parse_EntryDetail render_EntryDetail = true := by decide +kernel
theorem layout_FileControl : compileOK parse_FileControl render_FileControl = true := by decide +kernel
theorem layout_FileHeader : compileOK parse_FileHeader render_FileHeader = true := by decide +kernel
theorem layout_IATBatchHeader : compileOK parse_IATBatchHeader render_IATBatchHeader = true := by decide +kernel
theorem layout_IATEntryDetail : compileOK parse_IATEntryDetail render_IATEntryDetail = true := by decide +kernel

end Ach.Props.Layouts
