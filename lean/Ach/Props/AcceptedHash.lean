import Ach.Props.AcceptedTraces
/-!
# The entry hash of an accepted batch is the sum over its entries (C03)

`Batch.calculateEntryHash` adds up, over all entries, the number read from the first eight digits of the receiving
routing number (`aba8`, then `strconv.Atoi` whose error is ignored) and keeps the ten least significant digits;
`Batch.isEntryHash` compares that with the control record.  Both are translated from the source on every run and shown
to be — today — the programs below; the loop is unrolled by induction with the running sum as the invariant.
-/
namespace Ach.Props.AcceptedHash
open Ach Ach.GoLite Ach.Gen

def hashBody : Prog :=
  seqs [(seqs [(.sub "_t1" ["rtn"] [(.sel (.var "entry") "RDFIIdentification")] v_aba8),
      (.bind2 "entryRDFI" "_" (.call1 "strconv.Atoi" (.var "_t1")))]),
    (.assign "hash" (.add (.var "hash") (.var "entryRDFI")))]

/-- the standard-batch half of `calculateEntryHash` (the ADV half walks `ADVEntries` the same way) -/
def hashProgShape (p : Prog) : Prop :=
  ∃ advLoop : Prog, p =
    seqs [(.bind "hash" (.int 0)),
      (.block (seqs [(.sub "_t3" [] [] v_Batch_IsADV),
        (.ite (.not (.var "_t3")) (.forEach "entry" (.fld "Entries") hashBody) advLoop)])),
      (.ret (.call2 "leastSignificantDigits" (.var "hash") (.int 10)))]

def advHashLoop : Prog :=
  .forEach "entry" (.fld "ADVEntries")
    (seqs [(seqs [(.sub "_t2" ["rtn"] [(.sel (.var "entry") "RDFIIdentification")] v_aba8),
        (.bind2 "entryRDFI" "_" (.call1 "strconv.Atoi" (.var "_t2")))]),
      (.assign "hash" (.add (.var "hash") (.var "entryRDFI")))])

def hashProg : Prog :=
  seqs [(.bind "hash" (.int 0)),
    (.block (seqs [(.sub "_t3" [] [] v_Batch_IsADV),
      (.ite (.not (.var "_t3")) (.forEach "entry" (.fld "Entries") hashBody) advHashLoop)])),
    (.ret (.call2 "leastSignificantDigits" (.var "hash") (.int 10)))]

/-- the translated `Batch.calculateEntryHash` is that program -/
theorem calculateEntryHash_shape : v_Batch_calculateEntryHash = hashProg := by decide +kernel

/-- what one entry adds to the hash, as the code computes it: `aba8(rdfi)` read as a number (0 when it is not one) -/
def rdfiContribution (c : Ctx) (r : Str) : Option Int :=
  match (exec v_aba8 c [("rtn", .str r)]).2 with
  | .ret (.str s) =>
      match builtin1 c.ext "strconv.Atoi" (.str s) with
      | .pair (.int v) _ => some v
      | _ => none
  | _ => none

theorem hashBody_exec (c : Ctx) (ep : String) (r : Str) (v a : Int) (rest : Locals)
    (hr : lookup c.fields (joinPath ep "RDFIIdentification") = .str r)
    (hv : rdfiContribution c r = some v) :
    (exec hashBody c (("entry", .ref ep) :: ("_t3", .bool false) :: ("hash", .int a) :: rest)).2 = .next ∧
    scopeExit (("_t3", Val.bool false) :: ("hash", Val.int a) :: rest)
      (exec hashBody c (("entry", .ref ep) :: ("_t3", .bool false) :: ("hash", .int a) :: rest)).1 =
      ("_t3", .bool false) :: ("hash", .int (a + v)) :: rest := by
  unfold rdfiContribution at hv
  generalize hS : (exec v_aba8 c [("rtn", Val.str r)]).2 = S at hv
  cases S with
  | ret w =>
      cases w with
      | str s =>
          simp only at hv
          generalize hA : builtin1 c.ext "strconv.Atoi" (Val.str s) = A at hv
          cases A with
          | pair x y =>
              cases x with
              | int v' =>
                  simp at hv
                  subst hv
                  simp [hashBody, seqs, exec, eval, lookup, hr, hS, subResult, hA, arith, update, scopeExit]
              | _ => simp at hv
          | _ => simp at hv
      | _ => simp at hv
  | _ => simp at hv


/-- the loop: the running sum grows by each visited entry's contribution -/
theorem hash_iter (c : Ctx) (p : String) (n : Nat) (r : Nat → Str) (hv : Nat → Int) (rest : Locals)
    (hr : ∀ i, i < n → lookup c.fields (joinPath (elemPath p i) "RDFIIdentification") = .str (r i))
    (hc : ∀ i, i < n → rdfiContribution c (r i) = some (hv i)) :
    ∀ is : List Nat, (∀ i ∈ is, i < n) → ∀ a : Int,
      iter (fun l' => exec hashBody c l') (fun i => .ref (elemPath p i)) "entry" is
          (("_t3", .bool false) :: ("hash", .int a) :: rest) =
        (("_t3", .bool false) :: ("hash", .int (a + (is.map hv).sum)) :: rest, .next) := by
  intro is
  induction is with
  | nil => intro _ a; simp [iter]
  | cons j is ih =>
      intro hlt a
      have hj := hlt j (List.mem_cons_self ..)
      obtain ⟨h1, h2⟩ := hashBody_exec c (elemPath p j) (r j) (hv j) a rest (hr j hj) (hc j hj)
      simp only [iter, h1, h2]
      rw [ih (fun k hk => hlt k (List.mem_cons_of_mem _ hk)) (a + hv j)]
      simp only [List.map_cons, List.sum_cons]
      have : a + hv j + (List.map hv is).sum = a + (hv j + (List.map hv is).sum) := by omega
      rw [this]

/-- `Batch.calculateEntryHash()` of a standard batch returns the ten least significant digits of the sum of the entries'
contributions — for batches of any size -/
theorem calculateEntryHash_spec (c : Ctx) (hp p : String) (n : Nat) (r : Nat → Str) (hv : Nat → Int) (sec : Str)
    (hH : lookup c.fields (joinPath c.recv "Header") = .ref hp)
    (hsec : lookup c.fields (joinPath hp "StandardEntryClassCode") = .str sec) (hnadv : sec ≠ ['A', 'D', 'V'])
    (hE : lookup c.fields (joinPath c.recv "Entries") = .lst p n)
    (hr : ∀ i, i < n → lookup c.fields (joinPath (elemPath p i) "RDFIIdentification") = .str (r i))
    (hc : ∀ i, i < n → rdfiContribution c (r i) = some (hv i)) :
    (exec v_Batch_calculateEntryHash c []).2 =
      .ret (.int (leastSignificantDigits (((List.range n).map hv).sum) 10)) := by
  rw [calculateEntryHash_shape]
  have hadv : (exec v_Batch_IsADV c []).2 = .ret (.bool false) := by
    simp [v_Batch_IsADV, seqs, exec, eval, hH, hsec, cmpVals, lookup, hnadv]
  have hit := hash_iter c p n r hv [] hr hc (List.range n) (fun k hk => List.mem_range.mp hk) 0
  simp [hashProg, seqs, exec, eval, hE, hadv, subResult, lookup, hit, scopeExit, builtin2]


def isEntryHashProg : Prog :=
  seqs [(seqs [(.sub "_t1" [] [] v_Batch_calculateEntryHash), (.bind "hashField" (.var "_t1"))]),
    (.block (seqs [(.sub "_t2" [] [] v_Batch_IsADV),
      (.ite (.not (.var "_t2"))
        (.ite (.ne (.var "hashField") (.sel (.fld "Control") "EntryHash")) (.ret (.mkErr "EntryHash")) .skip)
        (.ite (.ne (.var "hashField") (.sel (.fld "ADVControl") "EntryHash")) (.ret (.mkErr "EntryHash")) .skip))])),
    (.ret .nil)]

/-- the translated `Batch.isEntryHash` is that program -/
theorem isEntryHash_shape : v_Batch_isEntryHash = isEntryHashProg := by decide +kernel

theorem isEntryHash_accepts (c : Ctx) (hp cp : String) (sec : Str) (H e : Int)
    (hH : lookup c.fields (joinPath c.recv "Header") = .ref hp)
    (hsec : lookup c.fields (joinPath hp "StandardEntryClassCode") = .str sec) (hnadv : sec ≠ ['A', 'D', 'V'])
    (hC : lookup c.fields (joinPath c.recv "Control") = .ref cp)
    (he : lookup c.fields (joinPath cp "EntryHash") = .int e)
    (hcalc : (exec v_Batch_calculateEntryHash c []).2 = .ret (.int H))
    (h : (exec v_Batch_isEntryHash c []).2 = .ret (.err none)) : e = H := by
  rw [isEntryHash_shape] at h
  have hadv : (exec v_Batch_IsADV c []).2 = .ret (.bool false) := by
    simp [v_Batch_IsADV, seqs, exec, eval, hH, hsec, cmpVals, lookup, hnadv]
  by_cases heq : H = e
  · exact heq.symm
  · simp [isEntryHashProg, seqs, exec, eval, hC, he, hadv, hcalc, subResult, lookup, cmpVals, scopeExit, heq] at h

/-- the statement of `Batch.verify` that runs `isEntryHash` is the seventh, and the six before it can only reject -/
theorem verify_runs_entry_hash_check :
    (stmts v_Batch_verify).drop 6 = (.check none v_Batch_isEntryHash) :: (stmts v_Batch_verify).drop 7 ∧
    (stmts v_Batch_verify).drop 7 ≠ [] ∧
    ((stmts v_Batch_verify).take 6).all (fun q => rejectOnly q && noAssign q) = true := by
  decide +kernel

theorem check_passes (c : Ctx) (pre : Locals) (tag : Option String) (body : Prog)
    (h : (exec (.check tag body) c pre).2 = .next) : (exec body c []).2 = .ret (.err none) := by
  simp only [exec] at h
  generalize (exec body c []).2 = s at h ⊢
  cases s with
  | ret v =>
      cases v with
      | err t =>
          cases t with
          | none => rfl
          | some t => simp [checkResult] at h
      | _ => simp [checkResult] at h
  | _ => simp [checkResult] at h

/-- C03, entry hash — for every standard (non-ADV) batch value, of any size: if `Batch.verify()` (translated from the
source on this run) returns nil, the control's entry hash is the ten least significant digits of the sum, over the
entries, of the number `aba8` and `strconv.Atoi` read from the receiving routing number -/
theorem accepted_batch_entry_hash (c : Ctx) (hp cp p : String) (n : Nat) (r : Nat → Str) (hv : Nat → Int) (sec : Str) (e : Int)
    (hH : lookup c.fields (joinPath c.recv "Header") = .ref hp)
    (hsec : lookup c.fields (joinPath hp "StandardEntryClassCode") = .str sec) (hnadv : sec ≠ ['A', 'D', 'V'])
    (hC : lookup c.fields (joinPath c.recv "Control") = .ref cp)
    (he : lookup c.fields (joinPath cp "EntryHash") = .int e)
    (hE : lookup c.fields (joinPath c.recv "Entries") = .lst p n)
    (hr : ∀ i, i < n → lookup c.fields (joinPath (elemPath p i) "RDFIIdentification") = .str (r i))
    (hc : ∀ i, i < n → rdfiContribution c (r i) = some (hv i))
    (ha : run c v_Batch_verify = .accept) :
    e = leastSignificantDigits (((List.range n).map hv).sum) 10 := by
  have hres := Ach.Props.Validators.accept_ret c _ ha
  obtain ⟨hd, hne, hall⟩ := verify_runs_entry_hash_check
  have hs : stmts v_Batch_verify = (stmts v_Batch_verify).take 6 ++ (stmts v_Batch_verify).drop 6 :=
    (List.take_append_drop _ _).symm
  obtain ⟨pre, hpre⟩ := accept_reaches c _ _ _ hs (by rw [hd]; simp) hall hres
  rw [hd, seqs_cons_ne _ _ hne] at hpre
  have hpass := Ach.Props.Accepted.accept_seq_left (by decide) hpre
  exact isEntryHash_accepts c hp cp sec _ e hH hsec hnadv hC he
    (calculateEntryHash_spec c hp p n r hv sec hH hsec hnadv hE hr hc) (check_passes c pre none _ hpass)


/-- the translated `aba8` computes the model's `aba8` on ASCII routing numbers -/
theorem aba8_exec (c : Ctx) (r : Str) (ha : allAscii r = true) :
    (exec v_aba8 c [("rtn", .str r)]).2 = .ret (.str (aba8 r)) := by
  have h48 : ∀ a : Char, a.toNat = 48 ↔ a = '0' := fun a => by
    rw [show (48 : Nat) = ('0' : Char).toNat from rfl]; exact Char.toNat_inj
  have h49 : ∀ a : Char, a.toNat = 49 ↔ a = '1' := fun a => by
    rw [show (49 : Nat) = ('1' : Char).toNat from rfl]; exact Char.toNat_inj
  by_cases h1 : 10 < r.length
  · have h1i : (10 : Int) < (r.length : Int) := by omega
    simp [v_aba8, seqs, exec, eval, lookup, builtin1, cmpVals, scopeExit, aba8, h1, h1i]
  · have h1i : ¬ (10 : Int) < (r.length : Int) := by omega
    by_cases h2 : r.length = 10
    · have h2i : (r.length : Int) = 10 := by omega
      cases r with
      | nil => simp at h2
      | cons a rest =>
          have hl : rest.length = 9 := by simpa using h2
          simp [allAscii] at ha
          have har : (∀ (x : Char), x ∈ rest → isAscii x = true) = True := eq_true ha.2
          by_cases ha0 : a = '0'
          · subst ha0
            simp [v_aba8, seqs, exec, eval, lookup, builtin1, builtin2, builtin3, sliceAscii, allAscii, ha, har, cmpVals, scopeExit, aba8, hl, h2]
          · by_cases ha1 : a = '1'
            · subst ha1
              simp [v_aba8, seqs, exec, eval, lookup, builtin1, builtin2, builtin3, sliceAscii, allAscii, ha, har, cmpVals, scopeExit, aba8, hl, h2]
            · have n48 : ¬ a.toNat = 48 := fun h => ha0 ((h48 a).mp h)
              have n49 : ¬ a.toNat = 49 := fun h => ha1 ((h49 a).mp h)
              have n48i : ¬ ((a.toNat : Int) = 48) := by omega
              have n49i : ¬ ((a.toNat : Int) = 49) := by omega
              simp [v_aba8, seqs, exec, eval, lookup, builtin1, builtin2, builtin3, sliceAscii, allAscii, ha, har, cmpVals, scopeExit, aba8, hl, h2, ha0, ha1, n48, n49, n48i, n49i]
    · have h2i : ¬ (r.length : Int) = 10 := by omega
      by_cases h8 : r.length = 8
      · have h8i : (r.length : Int) = 8 := by omega
        simp [v_aba8, seqs, exec, eval, lookup, builtin1, builtin3, sliceAscii, ha, cmpVals, scopeExit, aba8, h1, h1i, h2, h2i, h8, h8i]
      · have h8i : ¬ (r.length : Int) = 8 := by omega
        by_cases h9 : r.length = 9
        · have h9i : (r.length : Int) = 9 := by omega
          simp [v_aba8, seqs, exec, eval, lookup, builtin1, builtin3, sliceAscii, ha, cmpVals, scopeExit, aba8, h1, h1i, h2, h2i, h8, h8i, h9, h9i]
        · have h9i : ¬ (r.length : Int) = 9 := by omega
          simp [v_aba8, seqs, exec, eval, lookup, builtin1, builtin3, sliceAscii, ha, cmpVals, scopeExit, aba8, h1, h1i, h2, h2i, h8, h8i, h9, h9i]


theorem signSplit_len (s : Str) : (signSplit s).2.length ≤ s.length := by
  unfold signSplit
  split <;> simp

theorem aba8_len (r : Str) : (aba8 r).length ≤ 8 := by
  unfold aba8
  simp only
  split
  · simp
  · split
    · split <;> simp [List.length_take]; omega
    · split
      · simp
      · simp [List.length_take]; omega

/-- the number an entry adds to the hash: `aba8(rdfi)` read by `strconv.Atoi`, 0 when that fails (Go ignores the error) -/
def rdfiNumber (r : Str) : Int :=
  match atoi (aba8 r) with
  | some v => v
  | none => 0

/-- for an ASCII routing number the code's contribution is that number -/
theorem rdfiContribution_ascii (c : Ctx) (r : Str) (ha : allAscii r = true) :
    rdfiContribution c r = some (rdfiNumber r) := by
  unfold rdfiContribution rdfiNumber
  rw [aba8_exec c r ha]
  have hlen : ¬ 18 < (signSplit (aba8 r)).2.length := by
    have := signSplit_len (aba8 r)
    have := aba8_len r
    omega
  cases hat : atoi (aba8 r) with
  | none => simp [builtin1, hat]
  | some v => simp [builtin1, hat, hlen]

/-- C03, entry hash, closed form — for every standard batch whose receiving routing numbers are ASCII text (any size):
an accepted batch's control carries the ten least significant digits of the sum of the numbers read from the first
eight digits of the routing numbers -/
theorem accepted_batch_entry_hash_ascii (c : Ctx) (hp cp p : String) (n : Nat) (r : Nat → Str) (sec : Str) (e : Int)
    (hH : lookup c.fields (joinPath c.recv "Header") = .ref hp)
    (hsec : lookup c.fields (joinPath hp "StandardEntryClassCode") = .str sec) (hnadv : sec ≠ ['A', 'D', 'V'])
    (hC : lookup c.fields (joinPath c.recv "Control") = .ref cp)
    (he : lookup c.fields (joinPath cp "EntryHash") = .int e)
    (hE : lookup c.fields (joinPath c.recv "Entries") = .lst p n)
    (hr : ∀ i, i < n → lookup c.fields (joinPath (elemPath p i) "RDFIIdentification") = .str (r i))
    (hascii : ∀ i, i < n → allAscii (r i) = true)
    (ha : run c v_Batch_verify = .accept) :
    e = leastSignificantDigits (((List.range n).map (fun i => rdfiNumber (r i))).sum) 10 :=
  accepted_batch_entry_hash c hp cp p n r (fun i => rdfiNumber (r i)) sec e hH hsec hnadv hC he hE hr
    (fun i hi => rdfiContribution_ascii c (r i) (hascii i hi)) ha

example : rdfiNumber "23138010".toList = 23138010 := by decide +kernel
example : rdfiNumber "231380104".toList = 23138010 := by decide +kernel
example : rdfiNumber "0231380104".toList = 23138010 := by decide +kernel

end Ach.Props.AcceptedHash
