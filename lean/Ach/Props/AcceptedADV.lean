import Ach.Props.AcceptedCount
import Ach.Props.AcceptedAmounts
/-!
# ADV batches: totals, hash and count of an accepted batch (C03)

The ADV halves of `Batch.isBatchAmount`, `isEntryHash`, `isBatchEntryCount` walk `ADVEntries` and compare with
`ADVControl`.  `Batch.calculateADVBatchAmounts` adds an advice's amount to the credit side for codes 81 83 85 87 and to the
debit side for 82 84 86 88.
-/
namespace Ach.Props.AcceptedADV
open Ach Ach.GoLite Ach.Gen
open Ach.Props.AcceptedHash Ach.Props.AcceptedAmounts Ach.Props.AcceptedCount

/-- `e.TransactionCode == a || … == b || …` left-nested, as the translator writes an `if` condition -/
def tcIs (k : Int) : Expr := .eq (.sel (.var "entry") "TransactionCode") (.int k)

def advAmountBody : Prog :=
  seqs [(.ite (.or (.or (.or (tcIs 81) (tcIs 83)) (tcIs 85)) (tcIs 87))
      (.assign "credit" (.add (.var "credit") (.sel (.var "entry") "Amount"))) .skip),
    (.ite (.or (.or (.or (tcIs 82) (tcIs 84)) (tcIs 86)) (tcIs 88))
      (.assign "debit" (.add (.var "debit") (.sel (.var "entry") "Amount"))) .skip)]

def advAmountsProg : Prog :=
  seqs [(.bind "credit" (.int 0)), (.bind "debit" (.int 0)),
    (seqs [(.forEach "entry" (.fld "ADVEntries") advAmountBody), (.ret (.pair (.var "credit") (.var "debit")))])]

theorem calculateADVBatchAmounts_shape : v_Batch_calculateADVBatchAmounts = advAmountsProg := by decide +kernel

def advCredit (t a : Int) : Int := if t = 81 ∨ t = 83 ∨ t = 85 ∨ t = 87 then a else 0
def advDebit (t a : Int) : Int := if t = 82 ∨ t = 84 ∨ t = 86 ∨ t = 88 then a else 0

theorem advAmountBody_exec (c : Ctx) (ep : String) (t a cr d : Int) (rest : Locals)
    (ht : lookup c.fields (joinPath ep "TransactionCode") = .int t)
    (ha : lookup c.fields (joinPath ep "Amount") = .int a) :
    exec advAmountBody c (("entry", .ref ep) :: ("debit", .int d) :: ("credit", .int cr) :: rest) =
      (("entry", .ref ep) :: ("debit", .int (d + advDebit t a)) :: ("credit", .int (cr + advCredit t a)) :: rest, .next) := by
  unfold advCredit advDebit
  by_cases h81 : t = 81 <;> by_cases h83 : t = 83 <;> by_cases h85 : t = 85 <;> by_cases h87 : t = 87 <;>
  by_cases h82 : t = 82 <;> by_cases h84 : t = 84 <;> by_cases h86 : t = 86 <;> by_cases h88 : t = 88 <;>
    first
    | (exfalso; omega)
    | simp [advAmountBody, tcIs, seqs, exec, eval, lookup, ht, ha, cmpVals, arith, update, scopeExit, h81, h83, h85, h87, h82, h84, h86, h88]


theorem adv_amount_iter (c : Ctx) (p : String) (n : Nat) (tc am : Nat → Int) (rest : Locals)
    (ht : ∀ i, i < n → lookup c.fields (joinPath (elemPath p i) "TransactionCode") = .int (tc i))
    (ha : ∀ i, i < n → lookup c.fields (joinPath (elemPath p i) "Amount") = .int (am i)) :
    ∀ is : List Nat, (∀ i ∈ is, i < n) → ∀ cr d : Int,
      iter (fun l' => exec advAmountBody c l') (fun i => .ref (elemPath p i)) "entry" is
          (("debit", .int d) :: ("credit", .int cr) :: rest) =
        (("debit", .int (d + (is.map (fun i => advDebit (tc i) (am i))).sum)) ::
          ("credit", .int (cr + (is.map (fun i => advCredit (tc i) (am i))).sum)) :: rest, .next) := by
  intro is
  induction is with
  | nil => intro _ cr d; simp [iter]
  | cons j is ih =>
      intro hlt cr d
      have hj := hlt j (List.mem_cons_self ..)
      have hb := advAmountBody_exec c (elemPath p j) (tc j) (am j) cr d rest (ht j hj) (ha j hj)
      simp only [iter, hb]
      have hsc : scopeExit (("debit", Val.int d) :: ("credit", Val.int cr) :: rest)
          (("entry", Val.ref (elemPath p j)) :: ("debit", Val.int (d + advDebit (tc j) (am j))) ::
            ("credit", Val.int (cr + advCredit (tc j) (am j))) :: rest) =
          ("debit", Val.int (d + advDebit (tc j) (am j))) :: ("credit", Val.int (cr + advCredit (tc j) (am j))) :: rest := by
        simp [scopeExit]
      rw [hsc, ih (fun k hk => hlt k (List.mem_cons_of_mem _ hk))]
      simp only [List.map_cons, List.sum_cons]
      have e1 : d + advDebit (tc j) (am j) + (List.map (fun i => advDebit (tc i) (am i)) is).sum =
          d + (advDebit (tc j) (am j) + (List.map (fun i => advDebit (tc i) (am i)) is).sum) := by omega
      have e2 : cr + advCredit (tc j) (am j) + (List.map (fun i => advCredit (tc i) (am i)) is).sum =
          cr + (advCredit (tc j) (am j) + (List.map (fun i => advCredit (tc i) (am i)) is).sum) := by omega
      rw [e1, e2]

/-- `Batch.calculateADVBatchAmounts()` returns (Σ credit advices, Σ debit advices) — any number of advices -/
theorem calculateADVBatchAmounts_spec (c : Ctx) (p : String) (n : Nat) (tc am : Nat → Int)
    (hE : lookup c.fields (joinPath c.recv "ADVEntries") = .lst p n)
    (ht : ∀ i, i < n → lookup c.fields (joinPath (elemPath p i) "TransactionCode") = .int (tc i))
    (ha : ∀ i, i < n → lookup c.fields (joinPath (elemPath p i) "Amount") = .int (am i)) :
    (exec v_Batch_calculateADVBatchAmounts c []).2 =
      .ret (.pair (.int (((List.range n).map (fun i => advCredit (tc i) (am i))).sum))
        (.int (((List.range n).map (fun i => advDebit (tc i) (am i))).sum))) := by
  rw [calculateADVBatchAmounts_shape]
  have hit := adv_amount_iter c p n tc am [] ht ha (List.range n) (fun k hk => List.mem_range.mp hk) 0 0
  simp [advAmountsProg, seqs, exec, eval, hE, lookup, hit]

/-- C03, ADV — `Batch.isBatchAmount()` of an ADV batch returns nil only if the ADV control's totals are those sums -/
theorem adv_isBatchAmount_accepts (c : Ctx) (hp cp p : String) (n : Nat) (tc am : Nat → Int) (tcr tdb : Int)
    (hH : lookup c.fields (joinPath c.recv "Header") = .ref hp)
    (hsec : lookup c.fields (joinPath hp "StandardEntryClassCode") = .str ['A', 'D', 'V'])
    (hC : lookup c.fields (joinPath c.recv "ADVControl") = .ref cp)
    (hcr : lookup c.fields (joinPath cp "TotalCreditEntryDollarAmount") = .int tcr)
    (hdb : lookup c.fields (joinPath cp "TotalDebitEntryDollarAmount") = .int tdb)
    (hE : lookup c.fields (joinPath c.recv "ADVEntries") = .lst p n)
    (ht : ∀ i, i < n → lookup c.fields (joinPath (elemPath p i) "TransactionCode") = .int (tc i))
    (ha : ∀ i, i < n → lookup c.fields (joinPath (elemPath p i) "Amount") = .int (am i))
    (h : (exec v_Batch_isBatchAmount c []).2 = .ret (.err none)) :
    tcr = ((List.range n).map (fun i => advCredit (tc i) (am i))).sum ∧
    tdb = ((List.range n).map (fun i => advDebit (tc i) (am i))).sum := by
  rw [isBatchAmount_shape] at h
  have hadv : (exec v_Batch_IsADV c []).2 = .ret (.bool true) := by
    simp [v_Batch_IsADV, seqs, exec, eval, hH, hsec, cmpVals, lookup]
  have hcalc := calculateADVBatchAmounts_spec c p n tc am hE ht ha
  by_cases h1 : ((List.range n).map (fun i => advDebit (tc i) (am i))).sum = tdb <;>
    by_cases h2 : ((List.range n).map (fun i => advCredit (tc i) (am i))).sum = tcr <;>
    simp [isBatchAmountProg, advAmountHalf, seqs, exec, eval, hC, hcr, hdb, hadv, hcalc, subResult, lookup, cmpVals, scopeExit,
      update, h1, h2] at h ⊢

/-! ## hash -/

def advHashBody : Prog :=
  seqs [(seqs [(.sub "_t2" ["rtn"] [(.sel (.var "entry") "RDFIIdentification")] v_aba8),
      (.bind2 "entryRDFI" "_" (.call1 "strconv.Atoi" (.var "_t2")))]),
    (.assign "hash" (.add (.var "hash") (.var "entryRDFI")))]

theorem advHashLoop_eq : advHashLoop = .forEach "entry" (.fld "ADVEntries") advHashBody := by decide +kernel

def advCountBody : Prog :=
  seqs [(.assign "entryCount" (.add (.var "entryCount") (.int 1))),
    (.ite (.ne (.sel (.var "entry") "Addenda99") .nil) (.assign "entryCount" (.add (.var "entryCount") (.int 1))) .skip)]

theorem advCountLoop_eq : advCountLoop = .forEach "entry" (.fld "ADVEntries") advCountBody := by decide +kernel

theorem adv_hashBody_exec (c : Ctx) (ep : String) (r : Str) (v a : Int) (rest : Locals)
    (hr : lookup c.fields (joinPath ep "RDFIIdentification") = .str r)
    (hv : rdfiContribution c r = some v) :
    (exec advHashBody c
        (("entry", .ref ep) :: ("_t3", .bool true) :: ("hash", .int a) :: rest)).2 = .next ∧
    scopeExit (("_t3", Val.bool true) :: ("hash", Val.int a) :: rest)
      (exec advHashBody c
        (("entry", .ref ep) :: ("_t3", .bool true) :: ("hash", .int a) :: rest)).1 =
      ("_t3", .bool true) :: ("hash", .int (a + v)) :: rest := by
  unfold rdfiContribution at hv
  generalize hS : (exec v_aba8 c [("rtn", Val.str r)]).2 = S at hv
  cases S with
  | ret w =>
      cases w with
      | str s =>
          simp only at hv
          generalize hA : builtin1 c.ext "strconv.Atoi" (Val.str s) = A at hv
          cases A with
          | pair x y =>
              cases x with
              | int v' =>
                  simp at hv
                  subst hv
                  simp [advHashBody, seqs, exec, eval, lookup, hr, hS, subResult, hA, arith, update, scopeExit]
              | _ => simp at hv
          | _ => simp at hv
      | _ => simp at hv
  | _ => simp at hv



theorem adv_hash_iter (c : Ctx) (p : String) (n : Nat) (r : Nat → Str) (hv : Nat → Int) (rest : Locals)
    (hr : ∀ i, i < n → lookup c.fields (joinPath (elemPath p i) "RDFIIdentification") = .str (r i))
    (hc : ∀ i, i < n → rdfiContribution c (r i) = some (hv i)) :
    ∀ is : List Nat, (∀ i ∈ is, i < n) → ∀ a : Int,
      iter (fun l' => exec advHashBody c l') (fun i => .ref (elemPath p i)) "entry" is
          (("_t3", .bool true) :: ("hash", .int a) :: rest) =
        (("_t3", .bool true) :: ("hash", .int (a + (is.map hv).sum)) :: rest, .next) := by
  intro is
  induction is with
  | nil => intro _ a; simp [iter]
  | cons j is ih =>
      intro hlt a
      have hj := hlt j (List.mem_cons_self ..)
      obtain ⟨h1, h2⟩ := adv_hashBody_exec c (elemPath p j) (r j) (hv j) a rest (hr j hj) (hc j hj)
      simp only [iter, h1, h2]
      rw [ih (fun k hk => hlt k (List.mem_cons_of_mem _ hk)) (a + hv j)]
      simp only [List.map_cons, List.sum_cons]
      have : a + hv j + (List.map hv is).sum = a + (hv j + (List.map hv is).sum) := by omega
      rw [this]

/-- `Batch.calculateEntryHash()` of an ADV batch: the ten least significant digits of the sum over the advices -/
theorem adv_calculateEntryHash_spec (c : Ctx) (hp p : String) (n : Nat) (r : Nat → Str) (hv : Nat → Int)
    (hH : lookup c.fields (joinPath c.recv "Header") = .ref hp)
    (hsec : lookup c.fields (joinPath hp "StandardEntryClassCode") = .str ['A', 'D', 'V'])
    (hE : lookup c.fields (joinPath c.recv "ADVEntries") = .lst p n)
    (hr : ∀ i, i < n → lookup c.fields (joinPath (elemPath p i) "RDFIIdentification") = .str (r i))
    (hc : ∀ i, i < n → rdfiContribution c (r i) = some (hv i)) :
    (exec v_Batch_calculateEntryHash c []).2 = .ret (.int (leastSignificantDigits (((List.range n).map hv).sum) 10)) := by
  rw [calculateEntryHash_shape]
  have hadv : (exec v_Batch_IsADV c []).2 = .ret (.bool true) := by
    simp [v_Batch_IsADV, seqs, exec, eval, hH, hsec, cmpVals, lookup]
  have hit := adv_hash_iter c p n r hv [] hr hc (List.range n) (fun k hk => List.mem_range.mp hk) 0
  simp only [Int.zero_add] at hit
  simp [hashProg, advHashLoop_eq, seqs, exec, eval, hE, hadv, subResult, lookup, hit, scopeExit, builtin2]

/-- C03, ADV — `Batch.isEntryHash()` of an ADV batch returns nil only if the ADV control's hash is that value -/
theorem adv_isEntryHash_accepts (c : Ctx) (hp cp p : String) (n : Nat) (r : Nat → Str) (hv : Nat → Int) (e : Int)
    (hH : lookup c.fields (joinPath c.recv "Header") = .ref hp)
    (hsec : lookup c.fields (joinPath hp "StandardEntryClassCode") = .str ['A', 'D', 'V'])
    (hC : lookup c.fields (joinPath c.recv "ADVControl") = .ref cp)
    (he : lookup c.fields (joinPath cp "EntryHash") = .int e)
    (hE : lookup c.fields (joinPath c.recv "ADVEntries") = .lst p n)
    (hr : ∀ i, i < n → lookup c.fields (joinPath (elemPath p i) "RDFIIdentification") = .str (r i))
    (hc : ∀ i, i < n → rdfiContribution c (r i) = some (hv i))
    (h : (exec v_Batch_isEntryHash c []).2 = .ret (.err none)) :
    e = leastSignificantDigits (((List.range n).map hv).sum) 10 := by
  rw [isEntryHash_shape] at h
  have hadv : (exec v_Batch_IsADV c []).2 = .ret (.bool true) := by
    simp [v_Batch_IsADV, seqs, exec, eval, hH, hsec, cmpVals, lookup]
  have hcalc := adv_calculateEntryHash_spec c hp p n r hv hH hsec hE hr hc
  by_cases heq : leastSignificantDigits (((List.range n).map hv).sum) 10 = e
  · exact heq.symm
  · simp [isEntryHashProg, seqs, exec, eval, hC, he, hadv, hcalc, subResult, lookup, cmpVals, scopeExit, heq] at h

/-! ## entry/addenda count -/

/-- an advice counts one record, two when it carries an Addenda99 -/
def advRecords (c : Ctx) (ep : String) : Option Int :=
  match lookup c.fields (joinPath ep "Addenda99") with
  | .ref _ => some 2
  | .nilp => some 1
  | _ => none

theorem advCountBody_exec (c : Ctx) (ep : String) (k a : Int) (rest : Locals) (hk : advRecords c ep = some k) :
    exec advCountBody c (("entry", .ref ep) :: ("_t2", .bool true) :: ("entryCount", .int a) :: rest) =
      (("entry", .ref ep) :: ("_t2", .bool true) :: ("entryCount", .int (a + k)) :: rest, .next) := by
  unfold advRecords at hk
  cases hx : lookup c.fields (joinPath ep "Addenda99") <;> rw [hx] at hk <;> simp at hk
  · subst hk
    simp [advCountBody, seqs, exec, eval, lookup, hx, cmpVals, arith, update, scopeExit]
    omega
  · subst hk
    simp [advCountBody, seqs, exec, eval, lookup, hx, cmpVals, arith, update, scopeExit]

theorem adv_count_iter (c : Ctx) (p : String) (n : Nat) (cnt : Nat → Int) (rest : Locals)
    (hc : ∀ i, i < n → advRecords c (elemPath p i) = some (cnt i)) :
    ∀ is : List Nat, (∀ i ∈ is, i < n) → ∀ a : Int,
      iter (fun l' => exec advCountBody c l') (fun i => .ref (elemPath p i)) "entry" is
          (("_t2", .bool true) :: ("entryCount", .int a) :: rest) =
        (("_t2", .bool true) :: ("entryCount", .int (a + (is.map cnt).sum)) :: rest, .next) := by
  intro is
  induction is with
  | nil => intro _ a; simp [iter]
  | cons j is ih =>
      intro hlt a
      have hj := hlt j (List.mem_cons_self ..)
      have hb := advCountBody_exec c (elemPath p j) (cnt j) a rest (hc j hj)
      simp only [iter, hb]
      have hsc : scopeExit (("_t2", Val.bool true) :: ("entryCount", Val.int a) :: rest)
          (("entry", Val.ref (elemPath p j)) :: ("_t2", Val.bool true) :: ("entryCount", Val.int (a + cnt j)) :: rest) =
          ("_t2", Val.bool true) :: ("entryCount", Val.int (a + cnt j)) :: rest := by simp [scopeExit]
      rw [hsc, ih (fun k hk => hlt k (List.mem_cons_of_mem _ hk))]
      simp only [List.map_cons, List.sum_cons]
      have : a + cnt j + (List.map cnt is).sum = a + (cnt j + (List.map cnt is).sum) := by omega
      rw [this]

/-- C03, ADV — `Batch.isBatchEntryCount()` of an ADV batch returns nil, with `UnequalAddendaCounts` off, only if the ADV
control's count is the number of advice records plus their Addenda99 records -/
theorem adv_isBatchEntryCount_accepts (c : Ctx) (hp cp p : String) (n : Nat) (cnt : Nat → Int) (e : Int)
    (hflag : hasFlag c "recv" "UnequalAddendaCounts" = false)
    (hH : lookup c.fields (joinPath c.recv "Header") = .ref hp)
    (hsec : lookup c.fields (joinPath hp "StandardEntryClassCode") = .str ['A', 'D', 'V'])
    (hC : lookup c.fields (joinPath c.recv "ADVControl") = .ref cp)
    (he : lookup c.fields (joinPath cp "EntryAddendaCount") = .int e)
    (hE : lookup c.fields (joinPath c.recv "ADVEntries") = .lst p n)
    (hc : ∀ i, i < n → advRecords c (elemPath p i) = some (cnt i))
    (h : (exec v_Batch_isBatchEntryCount c []).2 = .ret (.err none)) :
    e = ((List.range n).map cnt).sum := by
  rw [isBatchEntryCount_shape] at h
  have hadv : (exec v_Batch_IsADV c []).2 = .ret (.bool true) := by
    simp [v_Batch_IsADV, seqs, exec, eval, hH, hsec, cmpVals, lookup]
  have hit := adv_count_iter c p n cnt [] hc (List.range n) (fun k hk => List.mem_range.mp hk) 0
  simp only [Int.zero_add] at hit
  by_cases heq : ((List.range n).map cnt).sum = e
  · exact heq.symm
  · simp [countProg, countGuard, advCountLoop_eq, seqs, exec, eval, hE, hC, he, hadv, subResult, lookup, hit, scopeExit, cmpVals,
      hflag, heq] at h


/-- C03, ADV batches — for every ADV batch value, of any size: if `Batch.verify()` (translated from the source on this run)
returns nil, the ADV control's totals, entry hash and (unless `UnequalAddendaCounts`) entry/addenda count are the sums
over the advices -/
theorem accepted_adv_batch (c : Ctx) (hp cp p : String) (n : Nat) (tc am : Nat → Int) (r : Nat → Str) (hv cnt : Nat → Int)
    (tcr tdb e k : Int)
    (hH : lookup c.fields (joinPath c.recv "Header") = .ref hp)
    (hsec : lookup c.fields (joinPath hp "StandardEntryClassCode") = .str ['A', 'D', 'V'])
    (hC : lookup c.fields (joinPath c.recv "ADVControl") = .ref cp)
    (hcr : lookup c.fields (joinPath cp "TotalCreditEntryDollarAmount") = .int tcr)
    (hdb : lookup c.fields (joinPath cp "TotalDebitEntryDollarAmount") = .int tdb)
    (he : lookup c.fields (joinPath cp "EntryHash") = .int e)
    (hk : lookup c.fields (joinPath cp "EntryAddendaCount") = .int k)
    (hE : lookup c.fields (joinPath c.recv "ADVEntries") = .lst p n)
    (ht : ∀ i, i < n → lookup c.fields (joinPath (elemPath p i) "TransactionCode") = .int (tc i))
    (ham : ∀ i, i < n → lookup c.fields (joinPath (elemPath p i) "Amount") = .int (am i))
    (hr : ∀ i, i < n → lookup c.fields (joinPath (elemPath p i) "RDFIIdentification") = .str (r i))
    (hc : ∀ i, i < n → rdfiContribution c (r i) = some (hv i))
    (hcn : ∀ i, i < n → advRecords c (elemPath p i) = some (cnt i))
    (ha : run c v_Batch_verify = .accept) :
    tcr = ((List.range n).map (fun i => advCredit (tc i) (am i))).sum ∧
    tdb = ((List.range n).map (fun i => advDebit (tc i) (am i))).sum ∧
    e = leastSignificantDigits (((List.range n).map hv).sum) 10 ∧
    (hasFlag c "recv" "UnequalAddendaCounts" = false → k = ((List.range n).map cnt).sum) := by
  have hres := Ach.Props.Validators.accept_ret c _ ha
  -- count: statement 4
  obtain ⟨hd3, hne3, hall3⟩ := verify_runs_entry_count_check
  have hs3 : stmts v_Batch_verify = (stmts v_Batch_verify).take 3 ++ (stmts v_Batch_verify).drop 3 := (List.take_append_drop _ _).symm
  obtain ⟨pre3, h3⟩ := accept_reaches c _ _ _ hs3 (by rw [hd3]; simp) hall3 hres
  rw [hd3, seqs_cons_ne _ _ hne3] at h3
  have hcount := check_passes c pre3 none _ (Ach.Props.Accepted.accept_seq_left (by decide) h3)
  -- amounts: statement 6
  obtain ⟨hd5, hne5, hall5⟩ := verify_runs_amount_check
  have hs5 : stmts v_Batch_verify = (stmts v_Batch_verify).take 5 ++ (stmts v_Batch_verify).drop 5 := (List.take_append_drop _ _).symm
  obtain ⟨pre5, h5⟩ := accept_reaches c _ _ _ hs5 (by rw [hd5]; simp) hall5 hres
  rw [hd5, seqs_cons_ne _ _ hne5] at h5
  have hamt := check_passes c pre5 none _ (Ach.Props.Accepted.accept_seq_left (by decide) h5)
  -- hash: statement 7
  obtain ⟨hd6, hne6, hall6⟩ := verify_runs_entry_hash_check
  have hs6 : stmts v_Batch_verify = (stmts v_Batch_verify).take 6 ++ (stmts v_Batch_verify).drop 6 := (List.take_append_drop _ _).symm
  obtain ⟨pre6, h6⟩ := accept_reaches c _ _ _ hs6 (by rw [hd6]; simp) hall6 hres
  rw [hd6, seqs_cons_ne _ _ hne6] at h6
  have hhash := check_passes c pre6 none _ (Ach.Props.Accepted.accept_seq_left (by decide) h6)
  obtain ⟨t1, t2⟩ := adv_isBatchAmount_accepts c hp cp p n tc am tcr tdb hH hsec hC hcr hdb hE ht ham hamt
  exact ⟨t1, t2, adv_isEntryHash_accepts c hp cp p n r hv e hH hsec hC he hE hr hc hhash,
    fun hf => adv_isBatchEntryCount_accepts c hp cp p n cnt k hf hH hsec hC hk hE hcn hcount⟩

end Ach.Props.AcceptedADV
