import Ach.Model.Json
import Ach.Generated.Schemas
import Ach.Generated.Layouts
import Ach.Generated.Topics
/-!
# C07 — JSON and NACHA text are interchangeable representations of a file  (schema level)

`encoding/json` is modelled, not verified: its rules for exported fields, `json:"-"`, `omitempty` and absent keys are
restated as `Ach.Json.encodeField/decodeField`.

* `json_roundtrip_struct` — for every schema and every struct value whose fields satisfy `fieldOK` (an unexported
  field holds its constructor default; an `omitempty` field holding the zero value has a zero default),
  `decode (encode v) = v`;
* `rendered_fields_exported` (F, regenerated struct tags × regenerated layouts) — every field that a record's `String()`
  writes or its `Parse` fills is exported and not `json:"-"`, except the four constant fields of `FileHeader`
  (always equal to the constructor's values) and `Addenda98.iatCorrectedData` (known finding D18: lost through JSON);
* `omitempty_defaults_zero` (F) — every `omitempty` field of a record has a zero constructor default, except the
  `Category` fields and `FileHeader.FileIDModifier`, whose zero value no valid record holds.  (Before the fix of D7 this
  obligation failed for `BatchHeader.OriginatorStatusCode`, default 1, zero value 0 used by ADV.)
* `json_functions_unchanged` (F) — the decode path (`FileFromJSONWith`, `setBatchesFromJSON`, …) is the one read.

The re-tabulation that `FileFromJSON` performs (`Create`) is C05; CTX/ATX re-inference of the addenda-records sub-field
in `setBatchesFromJSON` is not modelled (the oracle found a defect there: known finding).
-/
namespace Ach.Props.C07
open Ach.Json Ach.Gen

theorem field_roundtrip (f : FInfo) (v : Nat) (h : fieldOK f v = true) : decodeField f (encodeField f v) = v := by
  unfold fieldOK at h
  unfold encodeField decodeField
  cases hx : f.exported <;> cases ho : f.omitempty <;> by_cases hv : v = 0 <;> simp_all

/-- **json_roundtrip_struct** -/
theorem json_roundtrip_struct : ∀ (S : List FInfo) (vs : List Nat), valuesOK S vs = true → decode S (encode S vs) = vs
  | [], [], _ => rfl
  | f :: fs, v :: vs, h => by
    simp only [valuesOK, Bool.and_eq_true] at h
    simp only [encode, decode, field_roundtrip f v h.1, json_roundtrip_struct fs vs h.2]
  | [], _ :: _, h => by simp [valuesOK] at h
  | _ :: _, [], h => by simp [valuesOK] at h

/-- and the condition is necessary: an unexported field holding a non-default value is lost -/
theorem unexported_field_lost : decodeField ⟨false, false, 0⟩ (encodeField ⟨false, false, 0⟩ 7) ≠ 7 := by decide

def schemaOf (name : String) : Option Schema := schemas.find? (fun s => s.name = name)

def fieldExported (rec field : String) : Bool :=
  match schemaOf rec with
  | some s => match s.fields.find? (fun f => f.go = field) with
    | some f => f.exported && f.json ≠ "-"
    | none => false
  | none => false

def constantFields : List (String × String) :=
  [("FileHeader", "priorityCode"), ("FileHeader", "recordSize"), ("FileHeader", "blockingFactor"), ("FileHeader", "formatCode")]

/-- known finding D18 -/
def knownLost : List (String × String) := [("Addenda98", "iatCorrectedData")]

/-- **rendered_fields_exported** (F) -/
theorem rendered_fields_exported :
    (renderFacts.all (fun r => (r.segs.filter (fun s => s.kind ≠ "lit" && s.kind ≠ "custom")).all
        (fun s => fieldExported r.recName s.field || constantFields.contains (r.recName, s.field)))) = true ∧
    (parseFacts.all (fun p => (p.spans.filter (fun s => s.field ≠ "")).all
        (fun s => fieldExported p.recName s.field || knownLost.contains (p.recName, s.field)))) = true := by
  decide +kernel

def zeroDefault (d : String) : Bool := d = "0" || d = "\"\"" || d = "false"

def zeroNeverValid : List (String × String) :=
  [("ADVEntryDetail", "Category"), ("EntryDetail", "Category"), ("IATEntryDetail", "Category"), ("FileHeader", "FileIDModifier")]

/-- **omitempty_defaults_zero** (F) -/
theorem omitempty_defaults_zero :
    ((schemas.filter (fun s => recordTypes.contains s.name)).all (fun s => s.fields.all (fun f =>
      !f.omitempty ||
      (match ctorDefaults.find? (fun d => d.1 = s.name && d.2.1 = f.go) with
       | some d => zeroDefault d.2.2 || zeroNeverValid.contains (s.name, f.go)
       | none => true)))) = true := by
  decide +kernel

theorem json_functions_unchanged : hashes_json = [("FileFromJSON", 15973811254979343774), ("FileFromJSONWith", 7455445818279454872), ("File.MarshalJSON", 5540854320919699578), ("File.UnmarshalJSON", 1408470529038950611), ("File.setBatchesFromJSON", 1024348192002621846), ("readValidateOpts", 11425622088199532189), ("setEntryRecordType", 12965703014794471618), ("setADVEntryRecordType", 12875969952171026290), ("setIATEntryRecordType", 10832346033924216576), ("File.overwriteDateTimeFields", 17951009745717038826), ("Batch.MarshalJSON", 4569099446902544474), ("Batch.UnmarshalJSON", 3599784032339515092)] := by decide +kernel

/-- non-vacuity: a three-field struct (exported, exported+omitempty with zero default, unexported at its default) -/
example : valuesOK [⟨true, false, 0⟩, ⟨true, true, 0⟩, ⟨false, false, 3⟩] [5, 0, 3] = true ∧
    decode [⟨true, false, 0⟩, ⟨true, true, 0⟩, ⟨false, false, 3⟩] (encode [⟨true, false, 0⟩, ⟨true, true, 0⟩, ⟨false, false, 3⟩] [5, 0, 3]) = [5, 0, 3] := by decide

end Ach.Props.C07
