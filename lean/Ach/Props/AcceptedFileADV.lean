import Ach.Props.AcceptedFileValidate
/-!
# ADV files: the ADV file control carries the sums over the ADV batch controls (C03)
-/
namespace Ach.Props.AcceptedFileADV
open Ach Ach.GoLite Ach.Gen Ach.Props.AcceptedFile Ach.Props.AcceptedFileValidate

/-- the batches of an ADV file: where they are stored, where their ADV controls are -/
structure AdvBatches (c : Ctx) where
  bp : String
  nb : Nat
  bc : Nat → String
  hB : lookup c.fields (joinPath c.recv "Batches") = .lst bp nb
  hbc : ∀ i, i < nb → lookup c.fields (joinPath (elemPath bp i) "ADVControl") = .ref (bc i)

def advTotal {c : Ctx} (B : AdvBatches c) (v : Nat → Int) : Int := ((List.range B.nb).map v).sum

theorem adv_file_calculateEntryHash_spec (c : Ctx) (B : AdvBatches c) (v : Nat → Int)
    (hv : ∀ i, i < B.nb → lookup c.fields (joinPath (B.bc i) "EntryHash") = .int (v i)) :
    (exec v_File_calculateEntryHash c [("IsADV", .bool true)]).2 = .ret (.int (leastSignificantDigits (advTotal B v) 10)) := by
  rw [file_calculateEntryHash_shape]
  have h1 := addSel_iter c "hash" "batch" "ADVControl" "EntryHash" (by decide) B.bp B.nb B.bc v [("IsADV", .bool true)]
    B.hbc hv (List.range B.nb) (fun k hk => List.mem_range.mp hk) 0
  simp only [Int.zero_add] at h1
  simp [fileHashProg, seqs, exec, eval, lookup, B.hB, h1, scopeExit, builtin2, advTotal]

theorem adv_file_isEntryHash_accepts (c : Ctx) (B : AdvBatches c) (v : Nat → Int) (cp : String) (e : Int)
    (hv : ∀ i, i < B.nb → lookup c.fields (joinPath (B.bc i) "EntryHash") = .int (v i))
    (hC : lookup c.fields (joinPath c.recv "ADVControl") = .ref cp)
    (he : lookup c.fields (joinPath cp "EntryHash") = .int e)
    (h : (exec v_File_isEntryHash c [("IsADV", .bool true)]).2 = .ret (.err none)) :
    e = leastSignificantDigits (advTotal B v) 10 := by
  rw [file_isEntryHash_shape] at h
  have hcalc := adv_file_calculateEntryHash_spec c B v hv
  by_cases heq : leastSignificantDigits (advTotal B v) 10 = e
  · exact heq.symm
  · simp [fileIsHashProg, seqs, exec, eval, lookup, hcalc, subResult, hC, he, cmpVals, scopeExit, heq] at h

theorem adv_file_isEntryAddendaCount_accepts (c : Ctx) (B : AdvBatches c) (v : Nat → Int) (cp : String) (e : Int)
    (hflag : hasFlag c "recv" "UnequalAddendaCounts" = false)
    (hv : ∀ i, i < B.nb → lookup c.fields (joinPath (B.bc i) "EntryAddendaCount") = .int (v i))
    (hC : lookup c.fields (joinPath c.recv "ADVControl") = .ref cp)
    (he : lookup c.fields (joinPath cp "EntryAddendaCount") = .int e)
    (h : (exec v_File_isEntryAddendaCount c [("IsADV", .bool true)]).2 = .ret (.err none)) :
    e = advTotal B v := by
  rw [file_isEntryAddendaCount_shape] at h
  have h1 := addSel_iter c "count" "batch" "ADVControl" "EntryAddendaCount" (by decide) B.bp B.nb B.bc v [("IsADV", .bool true)]
    B.hbc hv (List.range B.nb) (fun k hk => List.mem_range.mp hk) 0
  simp only [Int.zero_add] at h1
  by_cases heq : e = advTotal B v
  · exact heq
  · have heq' : ¬ e = ((List.range B.nb).map v).sum := heq
    simp [fileCountProg, fileCountGuard, seqs, exec, eval, lookup, B.hB, h1, scopeExit, hC, he, cmpVals, hflag, heq'] at h

theorem adv_amtBody_iter (c : Ctx) (p : String) (n : Nat) (cp : Nat → String) (db cr : Nat → Int) (rest : Locals)
    (hcp : ∀ i, i < n → lookup c.fields (joinPath (elemPath p i) "ADVControl") = .ref (cp i))
    (hdb : ∀ i, i < n → lookup c.fields (joinPath (cp i) "TotalDebitEntryDollarAmount") = .int (db i))
    (hcr : ∀ i, i < n → lookup c.fields (joinPath (cp i) "TotalCreditEntryDollarAmount") = .int (cr i)) :
    ∀ is : List Nat, (∀ i ∈ is, i < n) → ∀ a b : Int,
      iter (fun l' => exec (amtBody "batch" "ADVControl") c l') (fun i => .ref (elemPath p i)) "batch" is
          (("credit", .int a) :: ("debit", .int b) :: rest) =
        (("credit", .int (a + (is.map cr).sum)) :: ("debit", .int (b + (is.map db).sum)) :: rest, .next) := by
  intro is
  induction is with
  | nil => intro _ a b; simp [iter]
  | cons j is ih =>
      intro hlt a b
      have hj := hlt j (List.mem_cons_self ..)
      have hb : exec (amtBody "batch" "ADVControl") c (("batch", .ref (elemPath p j)) :: ("credit", .int a) :: ("debit", .int b) :: rest) =
          (("batch", .ref (elemPath p j)) :: ("credit", .int (a + cr j)) :: ("debit", .int (b + db j)) :: rest, .next) := by
        simp [amtBody, addSel, seqs, exec, eval, lookup, hcp j hj, hdb j hj, hcr j hj, arith, update]
      simp only [iter, hb]
      have hsc : scopeExit (("credit", Val.int a) :: ("debit", Val.int b) :: rest)
          (("batch", Val.ref (elemPath p j)) :: ("credit", Val.int (a + cr j)) :: ("debit", Val.int (b + db j)) :: rest) =
          ("credit", Val.int (a + cr j)) :: ("debit", Val.int (b + db j)) :: rest := by simp [scopeExit]
      rw [hsc, ih (fun k hk => hlt k (List.mem_cons_of_mem _ hk))]
      simp only [List.map_cons, List.sum_cons]
      have e1 : a + cr j + (List.map cr is).sum = a + (cr j + (List.map cr is).sum) := by omega
      have e2 : b + db j + (List.map db is).sum = b + (db j + (List.map db is).sum) := by omega
      rw [e1, e2]

theorem adv_file_isFileAmount_accepts (c : Ctx) (B : AdvBatches c) (db cr : Nat → Int) (cp : String) (td tc : Int)
    (h1d : ∀ i, i < B.nb → lookup c.fields (joinPath (B.bc i) "TotalDebitEntryDollarAmount") = .int (db i))
    (h1c : ∀ i, i < B.nb → lookup c.fields (joinPath (B.bc i) "TotalCreditEntryDollarAmount") = .int (cr i))
    (hC : lookup c.fields (joinPath c.recv "ADVControl") = .ref cp)
    (htd : lookup c.fields (joinPath cp "TotalDebitEntryDollarAmountInFile") = .int td)
    (htc : lookup c.fields (joinPath cp "TotalCreditEntryDollarAmountInFile") = .int tc)
    (h : (exec v_File_isFileAmount c [("IsADV", .bool true)]).2 = .ret (.err none)) :
    td = advTotal B db ∧ tc = advTotal B cr := by
  rw [file_isFileAmount_shape] at h
  have i1 := adv_amtBody_iter c B.bp B.nb B.bc db cr [("IsADV", .bool true)] B.hbc h1d h1c (List.range B.nb)
    (fun k hk => List.mem_range.mp hk) 0 0
  simp only [Int.zero_add] at i1
  unfold advTotal
  by_cases e1 : td = ((List.range B.nb).map db).sum <;> by_cases e2 : tc = ((List.range B.nb).map cr).sum <;>
    simp [fileAmountProg, seqs, exec, eval, lookup, B.hB, i1, scopeExit, hC, htd, htc, cmpVals, e1, e2] at h ⊢


def callCountT : Prog := .checkOn none .self ["IsADV"] [(.bool true)] v_File_isEntryAddendaCount
def callAmountT : Prog := .checkOn none .self ["IsADV"] [(.bool true)] v_File_isFileAmount
def callHashT : Prog := .checkOn none .self ["IsADV"] [(.bool true)] v_File_isEntryHash

/-- the part of the translated `File.ValidateWith` that an ADV file runs after the branch for other files -/
theorem file_validate_adv_outline :
    (stmts v_File_ValidateWith).drop 5 = callCountT :: callAmountT :: (stmts v_File_ValidateWith).drop 7 ∧
    (stmts v_File_ValidateWith).drop 7 = [callHashT, .ret .nil] ∧
    (((stmts v_File_ValidateWith).drop 3).take 2).all (fun q => rejectOnly q && quiet q) = true ∧
    (((stmts v_File_ValidateWith).drop 3).take 4).all (fun q => rejectOnly q && quiet q) = true ∧
    (stmts v_File_ValidateWith).drop 7 ≠ [] := by
  decide +kernel

theorem checkOn_self_true_passes (c : Ctx) (l : Locals) (tag : Option String) (body : Prog)
    (h : (exec (.checkOn tag .self ["IsADV"] [(.bool true)] body) c l).2 = .next) :
    (exec body c [("IsADV", .bool true)]).2 = .ret (.err none) := by
  simp only [exec, eval, List.map_cons, List.map_nil] at h
  have hc : ({ c with recv := c.recv } : Ctx) = c := rfl
  simp [hc] at h
  generalize (exec body c [("IsADV", Val.bool true)]).2 = s at h ⊢
  cases s with
  | ret v =>
      cases v with
      | err t =>
          cases t with
          | none => rfl
          | some t => simp [checkResult] at h
      | _ => simp [checkResult] at h
  | _ => simp [checkResult] at h

/-- an accepting run of `File.ValidateWith` on an ADV file, without `SkipAll`, ran the three helpers with `IsADV = true` -/
theorem accepted_adv_file_ran_helpers (c : Ctx) (hskip : hasFlag c "param" "SkipAll" = false)
    (hadv : (exec v_File_IsADV c []).2 = .ret (.bool true))
    (ha : run c v_File_ValidateWith = .accept) :
    (exec v_File_isEntryAddendaCount c [("IsADV", .bool true)]).2 = .ret (.err none) ∧
    (exec v_File_isFileAmount c [("IsADV", .bool true)]).2 = .ret (.err none) ∧
    (exec v_File_isEntryHash c [("IsADV", .bool true)]).2 = .ret (.err none) := by
  have hres := Ach.Props.Validators.accept_ret c _ ha
  obtain ⟨hS, hR, hro1, hq1, _, _, _, _, _⟩ := file_validate_outline2
  obtain ⟨hd5, hd8, hall2, hall5, hne7⟩ := file_validate_adv_outline
  rw [← seqs_stmts v_File_ValidateWith, hS, seqs_cons_ne _ _ (by simp)] at hres
  have hg : exec skipGuard c [] = ([], .next) := by simp [skipGuard, exec, eval, hskip, scopeExit]
  simp only [exec, hg] at hres
  rw [seqs_cons_ne _ _ (by simp)] at hres
  obtain ⟨pre, h1⟩ := accept_seq_q hro1 hq1 hres
  simp only [List.append_nil] at h1
  rw [seqs_cons_ne _ _ hR] at h1
  -- the block for other files falls through
  have hb : exec mainBlock c pre = (pre, .next) := by
    simp [mainBlock, exec, eval, hadv, subResult, lookup, scopeExit]
  simp only [exec, hb] at h1
  -- the ADV statements
  have hq : ∀ (ps : List Prog), ps.all (fun q => rejectOnly q && quiet q) = true →
      ∀ q ∈ ps, rejectOnly q = true ∧ quiet q = true := by
    intro ps hall q hq
    have := List.all_eq_true.mp hall q hq
    simpa using this
  have hT2 : (stmts v_File_ValidateWith).drop 3 =
      ((stmts v_File_ValidateWith).drop 3).take 2 ++ (callCountT :: callAmountT :: (stmts v_File_ValidateWith).drop 7) := by
    have := (List.take_append_drop 2 ((stmts v_File_ValidateWith).drop 3)).symm
    rw [List.drop_drop] at this
    rw [← hd5]
    exact this
  have h2 := h1
  rw [hT2, seqs_append_tail _ _ (by simp)] at h2
  obtain ⟨pre2, h3⟩ := accept_drop_q c _ _ pre (hq _ hall2) h2
  rw [seqs_cons_ne _ _ (by simp)] at h3
  have hcount := checkOn_self_true_passes c _ none _ (Ach.Props.Accepted.accept_seq_left (by decide) h3)
  obtain ⟨pre3, h4⟩ := accept_seq_q (a := callCountT) (by decide) (by decide) h3
  rw [seqs_cons_ne _ _ hne7] at h4
  have hamount := checkOn_self_true_passes c _ none _ (Ach.Props.Accepted.accept_seq_left (by decide) h4)
  have hT5 : (stmts v_File_ValidateWith).drop 3 =
      ((stmts v_File_ValidateWith).drop 3).take 4 ++ [callHashT, .ret .nil] := by
    have := (List.take_append_drop 4 ((stmts v_File_ValidateWith).drop 3)).symm
    rw [List.drop_drop] at this
    rw [← hd8]
    exact this
  rw [hT5, seqs_append_tail _ _ (by simp)] at h1
  obtain ⟨pre5, h5⟩ := accept_drop_q c _ _ pre (hq _ hall5) h1
  have hhash := checkOn_self_true_passes c _ none _
    (Ach.Props.Accepted.accept_seq_left (a := callHashT) (b := .ret .nil) (by decide) h5)
  exact ⟨hcount, hamount, hhash⟩

/-- C03, ADV files — for every ADV file value (any number of ADV batches) on which `File.ValidateWith(opts)` — translated
from the source on this run — returns nil without `SkipAll`: the ADV file control's entry/addenda count (unless
`UnequalAddendaCounts`), debit total, credit total and entry hash are the sums over the ADV batch controls -/
theorem accepted_adv_file_control_sums (c : Ctx) (B : AdvBatches c) (cp : String) (cntB dbB crB hsB : Nat → Int)
    (cnt td tc hash : Int)
    (hskip : hasFlag c "param" "SkipAll" = false)
    (hadv : (exec v_File_IsADV c []).2 = .ret (.bool true))
    (hC : lookup c.fields (joinPath c.recv "ADVControl") = .ref cp)
    (h1 : ∀ i, i < B.nb → lookup c.fields (joinPath (B.bc i) "EntryAddendaCount") = .int (cntB i))
    (h3 : ∀ i, i < B.nb → lookup c.fields (joinPath (B.bc i) "TotalDebitEntryDollarAmount") = .int (dbB i))
    (h4 : ∀ i, i < B.nb → lookup c.fields (joinPath (B.bc i) "TotalCreditEntryDollarAmount") = .int (crB i))
    (h7 : ∀ i, i < B.nb → lookup c.fields (joinPath (B.bc i) "EntryHash") = .int (hsB i))
    (e1 : lookup c.fields (joinPath cp "EntryAddendaCount") = .int cnt)
    (e2 : lookup c.fields (joinPath cp "TotalDebitEntryDollarAmountInFile") = .int td)
    (e3 : lookup c.fields (joinPath cp "TotalCreditEntryDollarAmountInFile") = .int tc)
    (e4 : lookup c.fields (joinPath cp "EntryHash") = .int hash)
    (ha : run c v_File_ValidateWith = .accept) :
    (hasFlag c "recv" "UnequalAddendaCounts" = false → cnt = advTotal B cntB) ∧
    td = advTotal B dbB ∧ tc = advTotal B crB ∧ hash = leastSignificantDigits (advTotal B hsB) 10 := by
  obtain ⟨a1, a2, a3⟩ := accepted_adv_file_ran_helpers c hskip hadv ha
  obtain ⟨t1, t2⟩ := adv_file_isFileAmount_accepts c B dbB crB cp td tc h3 h4 hC e2 e3 a2
  exact ⟨fun hf => adv_file_isEntryAddendaCount_accepts c B cntB cp cnt hf h1 hC e1 a1, t1, t2,
    adv_file_isEntryHash_accepts c B hsB cp hash h7 hC e4 a3⟩

end Ach.Props.AcceptedFileADV
