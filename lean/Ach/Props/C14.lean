import Ach.Model.ReadOnly
import Ach.Proofs.Field
import Ach.Generated.Sites
import Ach.Generated.Topics
/-!
# C14 — validating, rendering and serialising never modify the file  (partial)

* `write_set_census` (F) — the functions reachable from the read-only API (names `Validate*`, `String`, `*Field`,
  `MarshalJSON`, `is*`, `verify`, `calculate*`, `Write`, …) that assign through their receiver or call a mutator on
  it are exactly: `File.IsADV`, the two routing-number field methods of `FileHeader`, `EntryDetail.PaymentTypeField`
  (and `Writer.Write`'s own line counter).  A new assignment in any such function breaks this obligation.
* for each of the three, the effect is the identity on canonical values:
  `routing_field_noop` (stored value already trimmed — true of everything the Reader produces, `reader_routing_trimmed`),
  `payment_type_noop` (DiscretionaryData already "R" or "S" — what WEB/TEL validation requires),
  `isADV_noop` (every batch has a header and a control — true of Reader output and of constructor-built batches).
* `routing_field_counterexample` — an API-built header `" 231380104"` is changed by rendering (known finding D16).

Partial: that the remaining functions are pure is the census (syntactic, one level of calls); aliasing through
third-party code and `time.Now()` in the creation date/time (D10) are not exhibited.
-/
namespace Ach.Props.C14
open Ach Ach.ReadOnly Ach.Gen

theorem write_set_census : receiverWrites =
    [("EntryDetail.PaymentTypeField", ["call:r.SetPaymentType"]),
     ("File.IsADV", ["call:r.Batches[i].SetHeader", "call:r.Batches[i].SetControl"]),
     ("FileHeader.ImmediateDestinationField", ["r.ImmediateDestination"]),
     ("FileHeader.ImmediateOriginField", ["r.ImmediateOrigin"]),
     ("Writer.Write", ["r.lineNum"])] := by decide +kernel

theorem mutators_unchanged : hashes_readonly = [("File.IsADV", 10105026287465456566), ("FileHeader.ImmediateDestinationField", 1518624854799193882), ("FileHeader.ImmediateOriginField", 16313789297560827662), ("EntryDetail.PaymentTypeField", 12723899991876305975), ("EntryDetail.SetPaymentType", 16810997189714608945)] := by decide +kernel

/-- rendering the routing field of a header whose stored value is trimmed leaves it alone -/
theorem routing_field_noop (stored : Str) (h : Trimmed stored) : routingFieldEffect stored = stored := by
  unfold routingFieldEffect; split
  · rfl
  · exact h

/-- whatever the Reader stores in those fields is trimmed (`trimRoutingNumberLeadingZero` ends in `TrimSpace`) -/
theorem reader_routing_trimmed (cols : Str) : Trimmed (trimSpace cols) := trimmed_trimSpace cols

theorem payment_type_noop (dd : Str) (h : dd = ['R'] ∨ dd = ['S']) : paymentTypeEffect dd = dd := by
  rcases h with h | h <;> subst h <;> decide

theorem isADV_noop : ∀ (bs : List BatchShell), (∀ b ∈ bs, b.hasHeader = true ∧ b.hasControl = true) → isADVEffect bs = bs
  | [], _ => rfl
  | b :: bs, h => by
    obtain ⟨h1, h2⟩ := h b (List.mem_cons_self ..)
    have hb : ({ b with hasHeader := true, hasControl := true } : BatchShell) = b := by
      cases b; simp_all
    unfold isADVEffect
    simp only [hb]
    split
    · rfl
    · rw [isADV_noop bs (fun x hx => h x (List.mem_cons_of_mem _ hx))]

/-- known finding D16 on the model: a stored value with a leading blank is rewritten by the first rendering -/
theorem routing_field_counterexample : routingFieldEffect " 231380104".toList ≠ " 231380104".toList := by decide

end Ach.Props.C14
