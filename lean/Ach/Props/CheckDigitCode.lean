import Ach.Props.Validators
/-!
# The translated `CalculateCheckDigit` computes the model's `calculateCheckDigit` (C03, C04)

`CalculateCheckDigit` (validators.go) is a built-in of the GoLite interpreter: the validators call the hand-written Lean
function `calculateCheckDigit`.  Here the Go function itself — translated from the source on every run, its
`for i, r := range routingNumber` loop as a loop over the indices of an ASCII string — is executed symbolically on every
ASCII argument and shown to return the very number the built-in returns: the built-in is no longer trusted on ASCII
input.  (Arguments of 8 or 9 characters: the loop is unrolled on the characters; any other length returns -1 at once.)
-/
namespace Ach.Props.CheckDigitCode
open Ach Ach.GoLite Ach.Gen

theorem isDigit_iff (a : Char) : isDigit a = true ↔ 48 ≤ a.toNat ∧ a.toNat ≤ 57 := by
  unfold isDigit
  simp only [Bool.and_eq_true, decide_eq_true_eq]
  constructor
  · rintro ⟨h1, h2⟩
    exact ⟨Char.le_def.mp h1, Char.le_def.mp h2⟩
  · rintro ⟨h1, h2⟩
    exact ⟨Char.le_def.mpr h1, Char.le_def.mpr h2⟩

theorem digit_facts (a : Char) (h : isDigit a = true) :
    ¬ ((a.toNat : Int) < 48) ∧ ¬ ((a.toNat : Int) > 57) ∧ ((a.toNat : Int) - 48 = (digitVal a : Int)) := by
  have := (isDigit_iff a).mp h
  unfold digitVal
  have h0 : ('0' : Char).toNat = 48 := rfl
  rw [h0]
  omega

theorem nondigit_facts (a : Char) (h : ¬ isDigit a = true) : ((a.toNat : Int) < 48) ∨ ((a.toNat : Int) > 57) := by
  have : ¬ (48 ≤ a.toNat ∧ a.toNat ≤ 57) := fun hh => h ((isDigit_iff a).mpr hh)
  omega


set_option maxHeartbeats 4000000 in
theorem ccd8 (c : Ctx) (a0 a1 a2 a3 a4 a5 a6 a7 : Char) (hA : allAscii [a0, a1, a2, a3, a4, a5, a6, a7] = true) :
    (exec v_CalculateCheckDigit c [("routingNumber", .str [a0, a1, a2, a3, a4, a5, a6, a7])]).2 =
      .ret (.int (calculateCheckDigit [a0, a1, a2, a3, a4, a5, a6, a7])) := by
  have hr : List.range 8 = [0, 1, 2, 3, 4, 5, 6, 7] := by decide
  by_cases h0 : isDigit a0 = true
  · obtain ⟨p0, q0, e0⟩ := digit_facts a0 h0
    by_cases h1 : isDigit a1 = true
    · obtain ⟨p1, q1, e1⟩ := digit_facts a1 h1
      by_cases h2 : isDigit a2 = true
      · obtain ⟨p2, q2, e2⟩ := digit_facts a2 h2
        by_cases h3 : isDigit a3 = true
        · obtain ⟨p3, q3, e3⟩ := digit_facts a3 h3
          by_cases h4 : isDigit a4 = true
          · obtain ⟨p4, q4, e4⟩ := digit_facts a4 h4
            by_cases h5 : isDigit a5 = true
            · obtain ⟨p5, q5, e5⟩ := digit_facts a5 h5
              by_cases h6 : isDigit a6 = true
              · obtain ⟨p6, q6, e6⟩ := digit_facts a6 h6
                by_cases h7 : isDigit a7 = true
                · obtain ⟨p7, q7, e7⟩ := digit_facts a7 h7
                  simp [v_CalculateCheckDigit, seqs, exec, eval, lookup, builtin1, builtin2, hA, cmpVals, arith, update, scopeExit, iter, hr,
                    p0, q0, e0, h0, p1, q1, e1, h1, p2, q2, e2, h2, p3, q3, e3, h3, p4, q4, e4, h4, p5, q5, e5, h5, p6, q6, e6, h6, p7, q7, e7, h7, calculateCheckDigit, weightedSum, checkWeights]
                  generalize digitVal a0 = d0
                  generalize digitVal a1 = d1
                  generalize digitVal a2 = d2
                  generalize digitVal a3 = d3
                  generalize digitVal a4 = d4
                  generalize digitVal a5 = d5
                  generalize digitVal a6 = d6
                  generalize digitVal a7 = d7
                  have hpos : (0 : Int) ≤ ↑d0 * 3 + ↑d1 * 7 + ↑d2 + ↑d3 * 3 + ↑d4 * 7 + ↑d5 + ↑d6 * 3 + ↑d7 * 7 := by omega
                  have htn : ((↑d0 * 3 + ↑d1 * 7 + ↑d2 + ↑d3 * 3 + ↑d4 * 7 + ↑d5 + ↑d6 * 3 + ↑d7 * 7 : Int)).toNat =
                      d0 * 3 + d1 * 7 + d2 + d3 * 3 + d4 * 7 + d5 + d6 * 3 + d7 * 7 := by omega
                  rw [if_pos hpos, htn]
                  have harg : d0 * 3 + d1 * 7 + d2 + d3 * 3 + d4 * 7 + d5 + d6 * 3 + d7 * 7 =
                      3 * d0 + (7 * d1 + (d2 + (3 * d3 + (7 * d4 + (d5 + (3 * d6 + 7 * d7)))))) := by omega
                  rw [harg]
                  show Val.int (_ - _) = _
                  congr 1
                  omega
                · rcases nondigit_facts a7 h7 with hlt | hgt
                  · simp [v_CalculateCheckDigit, seqs, exec, eval, lookup, builtin1, builtin2, hA, cmpVals, arith, update, scopeExit, iter, hr,
                      p0, q0, e0, h0, p1, q1, e1, h1, p2, q2, e2, h2, p3, q3, e3, h3, p4, q4, e4, h4, p5, q5, e5, h5, p6, q6, e6, h6, h7, hlt, calculateCheckDigit]
                  · have hnl : ¬ ((a7.toNat : Int) < 48) := by omega
                    simp [v_CalculateCheckDigit, seqs, exec, eval, lookup, builtin1, builtin2, hA, cmpVals, arith, update, scopeExit, iter, hr,
                      p0, q0, e0, h0, p1, q1, e1, h1, p2, q2, e2, h2, p3, q3, e3, h3, p4, q4, e4, h4, p5, q5, e5, h5, p6, q6, e6, h6, h7, hgt, hnl, calculateCheckDigit]
              · rcases nondigit_facts a6 h6 with hlt | hgt
                · simp [v_CalculateCheckDigit, seqs, exec, eval, lookup, builtin1, builtin2, hA, cmpVals, arith, update, scopeExit, iter, hr,
                    p0, q0, e0, h0, p1, q1, e1, h1, p2, q2, e2, h2, p3, q3, e3, h3, p4, q4, e4, h4, p5, q5, e5, h5, h6, hlt, calculateCheckDigit]
                · have hnl : ¬ ((a6.toNat : Int) < 48) := by omega
                  simp [v_CalculateCheckDigit, seqs, exec, eval, lookup, builtin1, builtin2, hA, cmpVals, arith, update, scopeExit, iter, hr,
                    p0, q0, e0, h0, p1, q1, e1, h1, p2, q2, e2, h2, p3, q3, e3, h3, p4, q4, e4, h4, p5, q5, e5, h5, h6, hgt, hnl, calculateCheckDigit]
            · rcases nondigit_facts a5 h5 with hlt | hgt
              · simp [v_CalculateCheckDigit, seqs, exec, eval, lookup, builtin1, builtin2, hA, cmpVals, arith, update, scopeExit, iter, hr,
                  p0, q0, e0, h0, p1, q1, e1, h1, p2, q2, e2, h2, p3, q3, e3, h3, p4, q4, e4, h4, h5, hlt, calculateCheckDigit]
              · have hnl : ¬ ((a5.toNat : Int) < 48) := by omega
                simp [v_CalculateCheckDigit, seqs, exec, eval, lookup, builtin1, builtin2, hA, cmpVals, arith, update, scopeExit, iter, hr,
                  p0, q0, e0, h0, p1, q1, e1, h1, p2, q2, e2, h2, p3, q3, e3, h3, p4, q4, e4, h4, h5, hgt, hnl, calculateCheckDigit]
          · rcases nondigit_facts a4 h4 with hlt | hgt
            · simp [v_CalculateCheckDigit, seqs, exec, eval, lookup, builtin1, builtin2, hA, cmpVals, arith, update, scopeExit, iter, hr,
                p0, q0, e0, h0, p1, q1, e1, h1, p2, q2, e2, h2, p3, q3, e3, h3, h4, hlt, calculateCheckDigit]
            · have hnl : ¬ ((a4.toNat : Int) < 48) := by omega
              simp [v_CalculateCheckDigit, seqs, exec, eval, lookup, builtin1, builtin2, hA, cmpVals, arith, update, scopeExit, iter, hr,
                p0, q0, e0, h0, p1, q1, e1, h1, p2, q2, e2, h2, p3, q3, e3, h3, h4, hgt, hnl, calculateCheckDigit]
        · rcases nondigit_facts a3 h3 with hlt | hgt
          · simp [v_CalculateCheckDigit, seqs, exec, eval, lookup, builtin1, builtin2, hA, cmpVals, arith, update, scopeExit, iter, hr,
              p0, q0, e0, h0, p1, q1, e1, h1, p2, q2, e2, h2, h3, hlt, calculateCheckDigit]
          · have hnl : ¬ ((a3.toNat : Int) < 48) := by omega
            simp [v_CalculateCheckDigit, seqs, exec, eval, lookup, builtin1, builtin2, hA, cmpVals, arith, update, scopeExit, iter, hr,
              p0, q0, e0, h0, p1, q1, e1, h1, p2, q2, e2, h2, h3, hgt, hnl, calculateCheckDigit]
      · rcases nondigit_facts a2 h2 with hlt | hgt
        · simp [v_CalculateCheckDigit, seqs, exec, eval, lookup, builtin1, builtin2, hA, cmpVals, arith, update, scopeExit, iter, hr,
            p0, q0, e0, h0, p1, q1, e1, h1, h2, hlt, calculateCheckDigit]
        · have hnl : ¬ ((a2.toNat : Int) < 48) := by omega
          simp [v_CalculateCheckDigit, seqs, exec, eval, lookup, builtin1, builtin2, hA, cmpVals, arith, update, scopeExit, iter, hr,
            p0, q0, e0, h0, p1, q1, e1, h1, h2, hgt, hnl, calculateCheckDigit]
    · rcases nondigit_facts a1 h1 with hlt | hgt
      · simp [v_CalculateCheckDigit, seqs, exec, eval, lookup, builtin1, builtin2, hA, cmpVals, arith, update, scopeExit, iter, hr,
          p0, q0, e0, h0, h1, hlt, calculateCheckDigit]
      · have hnl : ¬ ((a1.toNat : Int) < 48) := by omega
        simp [v_CalculateCheckDigit, seqs, exec, eval, lookup, builtin1, builtin2, hA, cmpVals, arith, update, scopeExit, iter, hr,
          p0, q0, e0, h0, h1, hgt, hnl, calculateCheckDigit]
  · rcases nondigit_facts a0 h0 with hlt | hgt
    · simp [v_CalculateCheckDigit, seqs, exec, eval, lookup, builtin1, builtin2, hA, cmpVals, arith, update, scopeExit, iter, hr,
        h0, hlt, calculateCheckDigit]
    · have hnl : ¬ ((a0.toNat : Int) < 48) := by omega
      simp [v_CalculateCheckDigit, seqs, exec, eval, lookup, builtin1, builtin2, hA, cmpVals, arith, update, scopeExit, iter, hr,
        h0, hgt, hnl, calculateCheckDigit]

set_option maxHeartbeats 4000000 in
theorem ccd9 (c : Ctx) (a0 a1 a2 a3 a4 a5 a6 a7 a8 : Char) (hA : allAscii [a0, a1, a2, a3, a4, a5, a6, a7, a8] = true) :
    (exec v_CalculateCheckDigit c [("routingNumber", .str [a0, a1, a2, a3, a4, a5, a6, a7, a8])]).2 =
      .ret (.int (calculateCheckDigit [a0, a1, a2, a3, a4, a5, a6, a7, a8])) := by
  have hr : List.range 9 = [0, 1, 2, 3, 4, 5, 6, 7, 8] := by decide
  by_cases h0 : isDigit a0 = true
  · obtain ⟨p0, q0, e0⟩ := digit_facts a0 h0
    by_cases h1 : isDigit a1 = true
    · obtain ⟨p1, q1, e1⟩ := digit_facts a1 h1
      by_cases h2 : isDigit a2 = true
      · obtain ⟨p2, q2, e2⟩ := digit_facts a2 h2
        by_cases h3 : isDigit a3 = true
        · obtain ⟨p3, q3, e3⟩ := digit_facts a3 h3
          by_cases h4 : isDigit a4 = true
          · obtain ⟨p4, q4, e4⟩ := digit_facts a4 h4
            by_cases h5 : isDigit a5 = true
            · obtain ⟨p5, q5, e5⟩ := digit_facts a5 h5
              by_cases h6 : isDigit a6 = true
              · obtain ⟨p6, q6, e6⟩ := digit_facts a6 h6
                by_cases h7 : isDigit a7 = true
                · obtain ⟨p7, q7, e7⟩ := digit_facts a7 h7
                  simp [v_CalculateCheckDigit, seqs, exec, eval, lookup, builtin1, builtin2, hA, cmpVals, arith, update, scopeExit, iter, hr,
                    p0, q0, e0, h0, p1, q1, e1, h1, p2, q2, e2, h2, p3, q3, e3, h3, p4, q4, e4, h4, p5, q5, e5, h5, p6, q6, e6, h6, p7, q7, e7, h7, calculateCheckDigit, weightedSum, checkWeights]
                  generalize digitVal a0 = d0
                  generalize digitVal a1 = d1
                  generalize digitVal a2 = d2
                  generalize digitVal a3 = d3
                  generalize digitVal a4 = d4
                  generalize digitVal a5 = d5
                  generalize digitVal a6 = d6
                  generalize digitVal a7 = d7
                  have hpos : (0 : Int) ≤ ↑d0 * 3 + ↑d1 * 7 + ↑d2 + ↑d3 * 3 + ↑d4 * 7 + ↑d5 + ↑d6 * 3 + ↑d7 * 7 := by omega
                  have htn : ((↑d0 * 3 + ↑d1 * 7 + ↑d2 + ↑d3 * 3 + ↑d4 * 7 + ↑d5 + ↑d6 * 3 + ↑d7 * 7 : Int)).toNat =
                      d0 * 3 + d1 * 7 + d2 + d3 * 3 + d4 * 7 + d5 + d6 * 3 + d7 * 7 := by omega
                  rw [if_pos hpos, htn]
                  have harg : d0 * 3 + d1 * 7 + d2 + d3 * 3 + d4 * 7 + d5 + d6 * 3 + d7 * 7 =
                      3 * d0 + (7 * d1 + (d2 + (3 * d3 + (7 * d4 + (d5 + (3 * d6 + 7 * d7)))))) := by omega
                  rw [harg]
                  show Val.int (_ - _) = _
                  congr 1
                  omega
                · rcases nondigit_facts a7 h7 with hlt | hgt
                  · simp [v_CalculateCheckDigit, seqs, exec, eval, lookup, builtin1, builtin2, hA, cmpVals, arith, update, scopeExit, iter, hr,
                      p0, q0, e0, h0, p1, q1, e1, h1, p2, q2, e2, h2, p3, q3, e3, h3, p4, q4, e4, h4, p5, q5, e5, h5, p6, q6, e6, h6, h7, hlt, calculateCheckDigit]
                  · have hnl : ¬ ((a7.toNat : Int) < 48) := by omega
                    simp [v_CalculateCheckDigit, seqs, exec, eval, lookup, builtin1, builtin2, hA, cmpVals, arith, update, scopeExit, iter, hr,
                      p0, q0, e0, h0, p1, q1, e1, h1, p2, q2, e2, h2, p3, q3, e3, h3, p4, q4, e4, h4, p5, q5, e5, h5, p6, q6, e6, h6, h7, hgt, hnl, calculateCheckDigit]
              · rcases nondigit_facts a6 h6 with hlt | hgt
                · simp [v_CalculateCheckDigit, seqs, exec, eval, lookup, builtin1, builtin2, hA, cmpVals, arith, update, scopeExit, iter, hr,
                    p0, q0, e0, h0, p1, q1, e1, h1, p2, q2, e2, h2, p3, q3, e3, h3, p4, q4, e4, h4, p5, q5, e5, h5, h6, hlt, calculateCheckDigit]
                · have hnl : ¬ ((a6.toNat : Int) < 48) := by omega
                  simp [v_CalculateCheckDigit, seqs, exec, eval, lookup, builtin1, builtin2, hA, cmpVals, arith, update, scopeExit, iter, hr,
                    p0, q0, e0, h0, p1, q1, e1, h1, p2, q2, e2, h2, p3, q3, e3, h3, p4, q4, e4, h4, p5, q5, e5, h5, h6, hgt, hnl, calculateCheckDigit]
            · rcases nondigit_facts a5 h5 with hlt | hgt
              · simp [v_CalculateCheckDigit, seqs, exec, eval, lookup, builtin1, builtin2, hA, cmpVals, arith, update, scopeExit, iter, hr,
                  p0, q0, e0, h0, p1, q1, e1, h1, p2, q2, e2, h2, p3, q3, e3, h3, p4, q4, e4, h4, h5, hlt, calculateCheckDigit]
              · have hnl : ¬ ((a5.toNat : Int) < 48) := by omega
                simp [v_CalculateCheckDigit, seqs, exec, eval, lookup, builtin1, builtin2, hA, cmpVals, arith, update, scopeExit, iter, hr,
                  p0, q0, e0, h0, p1, q1, e1, h1, p2, q2, e2, h2, p3, q3, e3, h3, p4, q4, e4, h4, h5, hgt, hnl, calculateCheckDigit]
          · rcases nondigit_facts a4 h4 with hlt | hgt
            · simp [v_CalculateCheckDigit, seqs, exec, eval, lookup, builtin1, builtin2, hA, cmpVals, arith, update, scopeExit, iter, hr,
                p0, q0, e0, h0, p1, q1, e1, h1, p2, q2, e2, h2, p3, q3, e3, h3, h4, hlt, calculateCheckDigit]
            · have hnl : ¬ ((a4.toNat : Int) < 48) := by omega
              simp [v_CalculateCheckDigit, seqs, exec, eval, lookup, builtin1, builtin2, hA, cmpVals, arith, update, scopeExit, iter, hr,
                p0, q0, e0, h0, p1, q1, e1, h1, p2, q2, e2, h2, p3, q3, e3, h3, h4, hgt, hnl, calculateCheckDigit]
        · rcases nondigit_facts a3 h3 with hlt | hgt
          · simp [v_CalculateCheckDigit, seqs, exec, eval, lookup, builtin1, builtin2, hA, cmpVals, arith, update, scopeExit, iter, hr,
              p0, q0, e0, h0, p1, q1, e1, h1, p2, q2, e2, h2, h3, hlt, calculateCheckDigit]
          · have hnl : ¬ ((a3.toNat : Int) < 48) := by omega
            simp [v_CalculateCheckDigit, seqs, exec, eval, lookup, builtin1, builtin2, hA, cmpVals, arith, update, scopeExit, iter, hr,
              p0, q0, e0, h0, p1, q1, e1, h1, p2, q2, e2, h2, h3, hgt, hnl, calculateCheckDigit]
      · rcases nondigit_facts a2 h2 with hlt | hgt
        · simp [v_CalculateCheckDigit, seqs, exec, eval, lookup, builtin1, builtin2, hA, cmpVals, arith, update, scopeExit, iter, hr,
            p0, q0, e0, h0, p1, q1, e1, h1, h2, hlt, calculateCheckDigit]
        · have hnl : ¬ ((a2.toNat : Int) < 48) := by omega
          simp [v_CalculateCheckDigit, seqs, exec, eval, lookup, builtin1, builtin2, hA, cmpVals, arith, update, scopeExit, iter, hr,
            p0, q0, e0, h0, p1, q1, e1, h1, h2, hgt, hnl, calculateCheckDigit]
    · rcases nondigit_facts a1 h1 with hlt | hgt
      · simp [v_CalculateCheckDigit, seqs, exec, eval, lookup, builtin1, builtin2, hA, cmpVals, arith, update, scopeExit, iter, hr,
          p0, q0, e0, h0, h1, hlt, calculateCheckDigit]
      · have hnl : ¬ ((a1.toNat : Int) < 48) := by omega
        simp [v_CalculateCheckDigit, seqs, exec, eval, lookup, builtin1, builtin2, hA, cmpVals, arith, update, scopeExit, iter, hr,
          p0, q0, e0, h0, h1, hgt, hnl, calculateCheckDigit]
  · rcases nondigit_facts a0 h0 with hlt | hgt
    · simp [v_CalculateCheckDigit, seqs, exec, eval, lookup, builtin1, builtin2, hA, cmpVals, arith, update, scopeExit, iter, hr,
        h0, hlt, calculateCheckDigit]
    · have hnl : ¬ ((a0.toNat : Int) < 48) := by omega
      simp [v_CalculateCheckDigit, seqs, exec, eval, lookup, builtin1, builtin2, hA, cmpVals, arith, update, scopeExit, iter, hr,
        h0, hgt, hnl, calculateCheckDigit]


/-- C03 / C04: the Go function `CalculateCheckDigit`, as translated from the source on this run, returns on every ASCII
argument the number the model function `calculateCheckDigit` returns — the function `check_digit_spec`
(`Ach.Props.C03`) characterises and that the validators' built-in call stands for -/
theorem calculateCheckDigit_exec (c : Ctx) (s : Str) (hA : allAscii s = true) :
    (exec v_CalculateCheckDigit c [("routingNumber", .str s)]).2 = .ret (.int (calculateCheckDigit s)) := by
  by_cases h8 : s.length = 8
  · match s, h8, hA with
    | [a0, a1, a2, a3, a4, a5, a6, a7], _, hA => exact ccd8 c a0 a1 a2 a3 a4 a5 a6 a7 hA
  · by_cases h9 : s.length = 9
    · match s, h9, hA with
      | [a0, a1, a2, a3, a4, a5, a6, a7, a8], _, hA => exact ccd9 c a0 a1 a2 a3 a4 a5 a6 a7 a8 hA
    · have h8i : ¬ ((s.length : Int) = 8) := by omega
      have h9i : ¬ ((s.length : Int) = 9) := by omega
      simp [v_CalculateCheckDigit, seqs, exec, eval, lookup, builtin1, cmpVals, arith, scopeExit, calculateCheckDigit, h8, h9, h8i, h9i]

/-- the built-in the validators call and the translated function agree (ASCII arguments) -/
theorem builtin_is_translated (c : Ctx) (s : Str) (hA : allAscii s = true) :
    .ret (builtin1 c.ext "CalculateCheckDigit" (.str s)) = (exec v_CalculateCheckDigit c [("routingNumber", .str s)]).2 := by
  rw [calculateCheckDigit_exec c s hA]
  simp [builtin1]

example : (exec v_CalculateCheckDigit { fields := [], recvFlags := [], paramFlags := [], ext := [] }
    [("routingNumber", .str "23138010".toList)]).2 = .ret (.int 4) := by decide +kernel

end Ach.Props.CheckDigitCode
