import Ach.Props.Layouts
import Ach.Proofs.Layout
import Ach.Proofs.Lines
import Ach.Proofs.Compile
import Ach.Generated.Topics
/-!
# C01 — Write then Read returns the same file, for every physical line layout

Record level (any layout `compile` accepts, i.e. each of the 26 record types
whose obligation `Props.Layouts.layout_X` holds on the current source):

* `record_roundtrip` — parsing the rendering of in-width field values returns them;
* `record_rewrite` — and rendering again reproduces the text;
* `reader_record_fixed_point` — for any 94-column line, write(read(line)) is a fixed point of write ∘ read
  when the layout's converter pairs are stable (`StableSpec`; shown for the string converter pairs, numeric
  pairs need the non-negativity the validators enforce).

Line level (the physical layouts of the property):

* `layout_newlines` — LF, CRLF, CR, several blank lines interleaved, or no separators at all;
* `layout_trimmed` — trailing blanks trimmed from every line (with real separators), for every Unicode content;
  holds because `rightPadShortLine` measures runes — the fact `pad_unit_is_rune` is re-extracted from reader.go.
-/
namespace Ach.Props.C01
open Ach Ach.Gen

theorem record_roundtrip (pf : ParseFact) (rf : RenderFact) (L : Layout) (_h : compile pf rf = .ok L)
    (ps : Bool) (vs : List Val) (hv : RecOK ps L vs) : parseRec ps L (renderRec L vs) = vs :=
  parseRec_renderRec hv

theorem record_rewrite (pf : ParseFact) (rf : RenderFact) (L : Layout) (_h : compile pf rf = .ok L)
    (ps : Bool) (vs : List Val) (hv : RecOK ps L vs) :
    renderRec L (parseRec ps L (renderRec L vs)) = renderRec L vs := by
  rw [parseRec_renderRec hv]

theorem reader_record_fixed_point (pf : ParseFact) (rf : RenderFact) (L : Layout) (h : compile pf rf = .ok L)
    (ps : Bool) (hs : ∀ f ∈ L, StableSpec ps f) (line : Str) (hl : line.length = 94) :
    renderRec L (parseRec ps L (renderRec L (parseRec ps L line))) = renderRec L (parseRec ps L line) := by
  have hw : Layout.width L = 94 := by
    have := Ach.compile_width pf rf L h
    simpa [lineLength] using this
  exact Ach.reader_record_fixed_point L hs line (by rw [hw]; exact hl)

/-- non-vacuity of `record_roundtrip`: an EntryDetail-like pair of fields with concrete in-width values -/
example : RecOK false [⟨"IndividualName", 22, .alpha, .trim⟩, ⟨"Amount", 10, .num, .num⟩]
    [.s "Jane Doe".toList, .n 12345] :=
  ⟨fieldOK_alpha_trim false _ 22 _ (by decide) (by decide) (by decide),
   fieldOK_num_num false _ 10 12345 (by decide) (by decide) (by decide) (by decide) (by decide), trivial⟩

/-! ## physical layouts -/

/-- LF / CRLF / CR / blank lines interleaved / one unbroken stream: the Reader sees the same records -/
theorem layout_newlines (recs : List Str) (seps : List Str)
    (hlen : ∀ r ∈ recs, r.length = 94) (hnl : ∀ r ∈ recs, ∀ c ∈ r, isNL c = false)
    (hseps : ∀ s ∈ seps, ∀ c ∈ s, isNL c = true) (hcount : seps.length = recs.length) :
    splitLines 94 (List.flatten (List.zipWith (· ++ ·) recs seps)) = recs :=
  splitLines_join recs seps hlen hnl hseps hcount

/-- F: `rightPadShortLine` measures the line in runes, not bytes -/
theorem pad_unit_is_rune : rightPadUnit = "rune" := by decide

/-- trailing blanks trimmed: every record with at least one non-blank column is restored by the
Reader's padding, whatever characters it holds -/
theorem layout_trimmed (recs : List Str) (seps : List Str)
    (hlen : ∀ r ∈ recs, r.length = 94) (hnl : ∀ r ∈ recs, ∀ c ∈ r, isNL c = false)
    (hnb : ∀ r ∈ recs, trimRightSpaces r ≠ [])
    (hsne : ∀ s ∈ seps, s ≠ []) (hseps : ∀ s ∈ seps, ∀ c ∈ s, isNL c = true) (hcount : seps.length = recs.length) :
    splitLines 94 (List.flatten (List.zipWith (· ++ ·) (recs.map trimRightSpaces) seps)) = recs.map trimRightSpaces ∧
    ∀ r ∈ recs, rightPad rightPadUnit (trimRightSpaces r) = some r := by
  constructor
  · unfold splitLines
    have hsub : ∀ r : Str, (trimRightSpaces r).length ≤ r.length ∧ ∀ c ∈ trimRightSpaces r, c ∈ r := by
      intro r
      obtain ⟨k, hk⟩ := trimRightSpaces_decomp r
      constructor
      · have := congrArg List.length hk; simp [spaces] at this; omega
      · intro c hc; rw [hk]; exact List.mem_append_left _ hc
    rw [split_join_short 94 (by decide) (recs.map trimRightSpaces) seps
        (by intro r hr; obtain ⟨r', hr', rfl⟩ := List.mem_map.1 hr; exact hnb r' hr')
        (by intro r hr; obtain ⟨r', hr', rfl⟩ := List.mem_map.1 hr; have := (hsub r').1; have := hlen r' hr'; omega)
        (by intro r hr c hc; obtain ⟨r', hr', rfl⟩ := List.mem_map.1 hr; exact hnl r' hr' c ((hsub r').2 c hc))
        hsne hseps (by simpa using hcount) []]
    simp [finish]
  · intro r hr
    exact rightPad_trimRight_spaces rightPadUnit r (hlen r hr) (Or.inl pad_unit_is_rune)

/-- F: the Reader / Writer functions whose loops `Ach.Model.Lines` and `Ach.Model.Writer` mirror by hand, and the
converters `Ach.Model.Field` mirrors, have the bodies the models were written against -/
theorem reader_writer_functions_unchanged : hashes_readwrite = [("NewReaderWithContentType", 4219352347121408690), ("NewReader", 3010030418815538912), ("NewWriterWithOpts", 13109305797645892749), ("NewWriter", 17891989422190391091), ("Reader.Read", 14029065647283193467), ("Reader.readLine", 3416248389251196672), ("Reader.parseLine", 9354773263074861296), ("Writer.Write", 647901554185630992), ("Writer.writeBatch", 11647795274641545808), ("Writer.writeIATBatch", 16352563860775370297), ("Writer.writeLine", 8220964415537587164), ("Writer.Flush", 1266472369869030050)] := by decide +kernel

theorem converter_functions_unchanged : hashes_converters = [("converters.alphaField", 4740796053050000714), ("converters.numericField", 9438519147184405342), ("converters.stringField", 2345220697369990213), ("converters.parseNumField", 1749344308253117534), ("converters.parseStringField", 9183802689701039486), ("converters.parseStringFieldWithOpts", 14307142360421685818), ("converters.leastSignificantDigits", 6497238369820402250), ("validator.validateSimpleDate", 3612652229803380485), ("validator.validateSimpleTime", 5875137419291385217), ("validator.validateSettlementDate", 10899315051963069866), ("validator.isAlphanumeric", 16446727476239382950), ("trimRoutingNumberLeadingZero", 9750321273517260225), ("rightPadShortLine", 8981738434401343921), ("blankLine", 3508514771600622843)] := by decide +kernel

end Ach.Props.C01
