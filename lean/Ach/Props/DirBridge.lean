import Ach.Props.AcceptedServiceClass
import Ach.Model.Validate
/-!
# The hand model's direction function is the translated `EntryDetail.CreditOrDebit`

`Ach.creditOrDebit` (Model/Codes.lean) is used by the hand-written validation model (C03), by the segmentation model
(C11) and by the reversal model (C13) to say which way an entry moves money.  Here it is shown to be, for **every**
integer transaction code (not only the two-digit ones), the value the function `EntryDetail.CreditOrDebit` returns **as
translated from the source on this run**.
-/
namespace Ach.Props.DirBridge
open Ach Ach.GoLite Ach.Gen Ach.Props.AcceptedServiceClass

/-- the Go string a direction stands for -/
def dirStr : Dir → Str
  | .credit => ['C']
  | .debit => ['D']
  | .neither => []

theorem dirStr_injective (a b : Dir) (h : dirStr a = dirStr b) : a = b := by
  cases a <;> cases b <;> simp [dirStr] at h <;> rfl

/-- on two-digit codes the model function and the closed form proved of the translation agree -/
theorem model_dir_two_digit (t : Int) (h10 : 10 ≤ t) (h99 : t ≤ 99) :
    dirStr (creditOrDebit t) = creditOrDebitOf t := by
  have hd : t % 10 = 0 ∨ t % 10 = 1 ∨ t % 10 = 2 ∨ t % 10 = 3 ∨ t % 10 = 4 ∨ t % 10 = 5 ∨ t % 10 = 6 ∨ t % 10 = 7 ∨
      t % 10 = 8 ∨ t % 10 = 9 := by omega
  have h1 : ¬ t < 10 := by omega
  have h2 : ¬ t > 99 := by omega
  unfold creditOrDebit creditOrDebitOf
  rcases hd with hk | hk | hk | hk | hk | hk | hk | hk | hk | hk <;> simp [h1, h2, hk, dirStr]

/-- a code outside 10..99: the translated function returns "" at its first statement -/
theorem creditOrDebit_exec_out (c : Ctx) (t : Int) (hout : t < 10 ∨ t > 99)
    (ht : lookup c.fields (joinPath c.recv "TransactionCode") = .int t) :
    (exec v_EntryDetail_CreditOrDebit c []).2 = .ret (.str []) := by
  rcases hout with h | h
  · simp [v_EntryDetail_CreditOrDebit, seqs, exec, eval, lookup, ht, cmpVals, h]
  · have h1 : ¬ t < 10 := by omega
    simp [v_EntryDetail_CreditOrDebit, seqs, exec, eval, lookup, ht, cmpVals, h, h1]

/-- **the model's direction is the code's direction**, for every integer transaction code: the translated
`EntryDetail.CreditOrDebit`, run on an entry whose `TransactionCode` is `t`, returns the string of `Ach.creditOrDebit t` -/
theorem code_dir_is_model_dir (c : Ctx) (t : Int)
    (ht : lookup c.fields (joinPath c.recv "TransactionCode") = .int t) :
    (exec v_EntryDetail_CreditOrDebit c []).2 = .ret (.str (dirStr (creditOrDebit t))) := by
  by_cases hin : 10 ≤ t ∧ t ≤ 99
  · rw [model_dir_two_digit t hin.1 hin.2]
    exact creditOrDebit_exec c t hin.1 hin.2 ht
  · have hout : t < 10 ∨ t > 99 := by omega
    rw [creditOrDebit_exec_out c t hout ht]
    have : creditOrDebit t = .neither := by
      unfold creditOrDebit
      rcases hout with h | h <;> simp [h]
    rw [this]; rfl

/-- so an accepted credits-only (220) batch holds only entries the *model* calls credits, and a debits-only (225) batch
only debits (restating `accepted_batch_service_class` in the model's vocabulary) -/
theorem accepted_service_class_in_model_terms (t : Int) (h10 : 10 ≤ t) (h99 : t ≤ 99) :
    (creditOrDebitOf t = ['C'] ↔ creditOrDebit t = .credit) ∧ (creditOrDebitOf t = ['D'] ↔ creditOrDebit t = .debit) := by
  rw [← model_dir_two_digit t h10 h99]
  constructor
  · constructor
    · intro h; exact dirStr_injective _ .credit h
    · intro h; rw [h]; rfl
  · constructor
    · intro h; exact dirStr_injective _ .debit h
    · intro h; rw [h]; rfl

/-- non-vacuity: 22 is a credit, 27 a debit, 20 and 7 and 122 neither, and the code says the same -/
example : creditOrDebit 22 = .credit ∧ creditOrDebit 27 = .debit ∧ creditOrDebit 20 = .neither ∧
    creditOrDebit 7 = .neither ∧ creditOrDebit 122 = .neither := by decide
example : (exec v_EntryDetail_CreditOrDebit (codCtx 122) []).2 = .ret (.str []) := by decide +kernel

end Ach.Props.DirBridge

namespace Ach.Props.DirBridge
open Ach Ach.GoLite Ach.Gen Ach.Props.AcceptedServiceClass

/-- the constants the model's `classOK` reads are the literals of the translated switch -/
theorem classOK_constants :
    advCreditCodes ++ advDebitCodes = [81, 83, 85, 87, 82, 84, 86, 88] ∧ K.AutomatedAccountingAdvices = 280 ∧
    K.MixedDebitsAndCredits = 200 ∧ K.CreditsOnly = 220 ∧ K.DebitsOnly = 225 := by decide

/-- the model's per-entry service-class check, as a function of the two numbers it reads -/
def classOKOf (s t : Int) : Bool :=
  !(advCreditCodes.contains t || advDebitCodes.contains t) &&
  (if s = K.AutomatedAccountingAdvices then false
   else if s = K.MixedDebitsAndCredits then true
   else if s = K.CreditsOnly then creditOrDebit t == .credit
   else if s = K.DebitsOnly then creditOrDebit t == .debit
   else true)

theorem classOK_eq (s : Int) (e : VEntry) : classOK s e = classOKOf s e.code := rfl

/-- **the model's `classOK` decides exactly what the code decides** (both directions, every service class code and every
integer transaction code): without a `CheckTransactionCode` callback the translated
`Batch.ValidTranCodeForServiceClassCode(entry)` returns nil if and only if `classOK` holds -/
theorem code_classOK_is_model_classOK (c : Ctx) (ep hp : String) (t s : Int)
    (hflag : hasFlag c "recv" "CheckTransactionCode" = false)
    (ht : lookup c.fields (joinPath ep "TransactionCode") = .int t)
    (hH : lookup c.fields (joinPath c.recv "Header") = .ref hp)
    (hs : lookup c.fields (joinPath hp "ServiceClassCode") = .int s) :
    (exec v_Batch_ValidTranCodeForServiceClassCode c [("entry", .ref ep)]).2 = .ret (.err none) ↔ classOKOf s t = true := by
  have hcd := code_dir_is_model_dir { c with recv := ep } t ht
  rw [validTranCode_shape]
  have hl : lookup [("_tag", Val.int t), ("entry", Val.ref ep)] "_tag" = .int t := by simp [lookup]
  have hor := Ach.Props.AcceptedAmounts.orEq_eval c _ t hl [81, 83, 85, 87, 82, 84, 86, 88] (by decide)
  have hC : ("C" : String).toList = ['C'] := by decide
  have hD : ("D" : String).toList = ['D'] := by decide
  have hk := classOK_constants
  have hmem : (advCreditCodes.contains t || advDebitCodes.contains t) = decide (t ∈ ([81, 83, 85, 87, 82, 84, 86, 88] : List Int)) := by
    rw [← hk.1]; simp
  unfold classOKOf
  rw [hmem, hk.2.1, hk.2.2.1, hk.2.2.2.1, hk.2.2.2.2]
  by_cases hadv : t ∈ ([81, 83, 85, 87, 82, 84, 86, 88] : List Int)
  · simp [svcProg, seqs, exec, eval, lookup, ht, hor, hadv, scopeExit]
  · by_cases e280 : s = 280
    · subst e280
      simp [svcProg, seqs, exec, eval, lookup, ht, hor, hadv, hflag, hH, hs, cmpVals, scopeExit]
    · by_cases e200 : s = 200
      · subst e200
        simp [svcProg, seqs, exec, eval, lookup, ht, hor, hadv, hflag, hH, hs, cmpVals, scopeExit]
      · by_cases e220 : s = 220
        · subst e220
          cases hdir : creditOrDebit t <;>
            simp [svcProg, seqs, exec, eval, lookup, ht, hor, hadv, hflag, hH, hs, cmpVals, scopeExit, hcd, subResult, hC, hdir, dirStr]
        · by_cases e225 : s = 225
          · subst e225
            cases hdir : creditOrDebit t <;>
              simp [svcProg, seqs, exec, eval, lookup, ht, hor, hadv, hflag, hH, hs, cmpVals, scopeExit, hcd, subResult, hD, hdir, dirStr]
          · have i280 : ¬ (s : Int) = 280 := e280
            simp [svcProg, seqs, exec, eval, lookup, ht, hor, hadv, hflag, hH, hs, cmpVals, scopeExit, e280, e200, e220, e225]

/-- non-vacuity: a 220 batch takes 22 and refuses 27 and 82; a 280 header refuses everything here -/
example : classOKOf 220 22 = true ∧ classOKOf 220 27 = false ∧ classOKOf 200 82 = false ∧ classOKOf 280 22 = false ∧
    classOKOf 225 27 = true := by decide

end Ach.Props.DirBridge

namespace Ach.Props.DirBridge
open Ach Ach.GoLite Ach.Gen Ach.Props.AcceptedServiceClass Ach.Props.AcceptedFileBatches

/-- C03, service class, in the model's terms and **without** the two-digit assumption of
`accepted_batch_service_class`: for the 20 shaped classes and a batch of any size, if `BatchXXX.Validate()` (translated
from the source on this run) returns nil and no `CheckTransactionCode` callback is set, the model's `classOK` holds of
every entry — whatever integers the transaction codes are -/
theorem accepted_batch_classOK (name : String) (P : Prog) (hm : (name, P) ∈ dispatchTable)
    (hshaped : name ∈ shapedClasses) (c : Ctx) (hp p : String) (n : Nat) (tc : Nat → Int) (s : Int)
    (hflag : hasFlag c "recv" "CheckTransactionCode" = false)
    (hH : lookup c.fields (joinPath c.recv "Header") = .ref hp)
    (hs : lookup c.fields (joinPath hp "ServiceClassCode") = .int s)
    (hE : lookup c.fields (joinPath c.recv "Entries") = .lst p n)
    (ht : ∀ i, i < n → lookup c.fields (joinPath (elemPath p i) "TransactionCode") = .int (tc i))
    (ha : run c P = .accept) :
    ∀ i, i < n → classOKOf s (tc i) = true := by
  intro i hi
  have hres := Ach.Props.Validators.accept_ret c _ ha
  have hrow := List.all_eq_true.mp validators_walk_entries.1 (name, P) hm
  have hsh : shapeOK P = true := by
    simp only [Bool.or_eq_true, Bool.not_eq_true'] at hrow
    rcases hrow with hno | hok
    · have : shapedClasses.contains name = true := by simpa using hshaped
      rw [this] at hno
      cases hno
    · exact hok
  have hcall := svc_checked P hsh c p n hE hres i hi
  exact (code_classOK_is_model_classOK c (elemPath p i) hp (tc i) s hflag (ht i hi) hH hs).mp hcall

end Ach.Props.DirBridge
