import Ach.Props.Accepted
/-!
# Every entry of an accepted batch carries a trace number that begins with the batch's ODFI (C03)

`Batch.isTraceNumberODFI` is a loop over the entries.  Its translation (`v_Batch_isTraceNumberODFI`, regenerated on every
run) is shown to be — today — the program `odfiProg`; the loop is then unrolled by induction over the entry list: a run
that returns nil passed the comparison for *every* entry, however many there are.
-/
namespace Ach.Props.AcceptedTraces
open Ach Ach.GoLite Ach.Gen

def odfiBody : Prog :=
  seqs [(.bind "entryODFI" (.str "")),
    (.ite (.ge (.call1 "len" (.sel (.var "entry") "TraceNumber")) (.int 8))
      (.assign "entryODFI" (.call3 "slice" (.sel (.var "entry") "TraceNumber") (.int 0) (.int 8)))
      .skip),
    (.ite (.ne (.var "bhODFI") (.var "entryODFI")) (.ret (.mkErr "ODFIIdentificationField")) .skip)]

def odfiProg : Prog :=
  seqs [(.ite (.flag "recv" "BypassOriginValidation") (.ret .nil) .skip),
    (.bind "bhODFI" (.call2 "stringField" (.sel (.fld "Header") "ODFIIdentification") (.int 8))),
    (.forEach "entry" (.fld "Entries") odfiBody),
    (.ret .nil)]

/-- the translated `Batch.isTraceNumberODFI` is that program -/
theorem isTraceNumberODFI_shape : v_Batch_isTraceNumberODFI = odfiProg := by decide +kernel

/-- what `isTraceNumberODFI` compares with the header's ODFI: the first eight bytes of the trace number, or nothing when
it is shorter (`.bad` when the trace number is not ASCII: byte slicing is outside the embedding) -/
def tracePrefix (t : Str) : Val := if 8 ≤ byteLen t then sliceAscii t 0 8 else .str []

theorem odfiBody_next (c : Ctx) (b : Str) (ep : String) (t : Str)
    (ht : lookup c.fields (joinPath ep "TraceNumber") = .str t)
    (h : (exec odfiBody c [("entry", .ref ep), ("bhODFI", .str b)]).2 = .next ∨
         (exec odfiBody c [("entry", .ref ep), ("bhODFI", .str b)]).2 = .cont) :
    tracePrefix t = .str b ∧
      scopeExit [("bhODFI", Val.str b)] (exec odfiBody c [("entry", .ref ep), ("bhODFI", .str b)]).1 = [("bhODFI", .str b)] := by
  have hlen : builtin1 c.ext "len" (Val.str t) = .int (byteLen t) := by simp [builtin1]
  have hsl : builtin3 "slice" (Val.str t) (Val.int 0) (Val.int 8) = sliceAscii t 0 8 := by simp [builtin3]
  unfold tracePrefix
  by_cases h8 : 8 ≤ byteLen t
  · have h8i : (8 : Int) ≤ (byteLen t : Int) := by omega
    have hv : sliceAscii t 0 8 = .bad ∨ ∃ e, sliceAscii t 0 8 = .str e := by
      unfold sliceAscii; split <;> simp
    rcases hv with hv | ⟨e, hv⟩
    · simp [odfiBody, seqs, exec, eval, lookup, ht, hlen, hsl, cmpVals, h8, h8i, hv, scopeExit] at h
    · by_cases hbe : b = e <;>
        simp [odfiBody, seqs, exec, eval, lookup, ht, hlen, hsl, cmpVals, h8, h8i, hv, update, hbe, scopeExit] at h ⊢
  · have h8i : ¬ (8 : Int) ≤ (byteLen t : Int) := by omega
    by_cases hbe : b = [] <;>
      simp [odfiBody, seqs, exec, eval, lookup, ht, hlen, hsl, cmpVals, h8, h8i, hbe, scopeExit] at h ⊢


/-- the loop: if it falls through, every visited entry passed the comparison -/
theorem odfi_iter (c : Ctx) (p : String) (n : Nat) (tr : Nat → Str) (b : Str)
    (htr : ∀ i, i < n → lookup c.fields (joinPath (elemPath p i) "TraceNumber") = .str (tr i)) :
    ∀ is : List Nat, (∀ i ∈ is, i < n) →
      (iter (fun l' => exec odfiBody c l') (fun i => .ref (elemPath p i)) "entry" is [("bhODFI", .str b)]).2 = .next →
      ∀ i ∈ is, tracePrefix (tr i) = .str b := by
  intro is
  induction is with
  | nil => intro _ _ i hi; simp at hi
  | cons j is ih =>
      intro hlt h i hi
      have hj := htr j (hlt j (List.mem_cons_self ..))
      simp only [iter] at h
      cases hs : (exec odfiBody c [("entry", .ref (elemPath p j)), ("bhODFI", .str b)]).2 with
      | next =>
          obtain ⟨hpj, hsc⟩ := odfiBody_next c b (elemPath p j) (tr j) hj (Or.inl hs)
          rw [hs] at h
          simp only [hsc] at h
          rcases List.mem_cons.mp hi with rfl | hi'
          · exact hpj
          · exact ih (fun k hk => hlt k (List.mem_cons_of_mem _ hk)) h i hi'
      | cont =>
          obtain ⟨hpj, hsc⟩ := odfiBody_next c b (elemPath p j) (tr j) hj (Or.inr hs)
          rw [hs] at h
          simp only [hsc] at h
          rcases List.mem_cons.mp hi with rfl | hi'
          · exact hpj
          · exact ih (fun k hk => hlt k (List.mem_cons_of_mem _ hk)) h i hi'
      | brk =>
          -- the body has no `break`
          exfalso
          have : (exec odfiBody c [("entry", .ref (elemPath p j)), ("bhODFI", .str b)]).2 ≠ .brk := by
            have hb := rejectOnly_no_accept odfiBody (by decide) c [("entry", .ref (elemPath p j)), ("bhODFI", .str b)]
            intro hbrk
            have hlen : builtin1 c.ext "len" (Val.str (tr j)) = .int (byteLen (tr j)) := by simp [builtin1]
            simp only [odfiBody, seqs, exec, eval] at hbrk
            revert hbrk
            simp [lookup, hj, hlen, cmpVals]
            repeat' split
            all_goals simp
          exact this hs
      | ret v => rw [hs] at h; simp at h
      | stuck w => rw [hs] at h; simp at h


/-- C03 — `Batch.isTraceNumberODFI()` returns nil without `BypassOriginValidation` only if the trace number of **every**
entry begins with the header's ODFI identification (eight columns), for batches of any size -/
theorem isTraceNumberODFI_accepts (c : Ctx) (hp p : String) (n : Nat) (tr : Nat → Str) (odfi : Str)
    (hflag : hasFlag c "recv" "BypassOriginValidation" = false)
    (hH : lookup c.fields (joinPath c.recv "Header") = .ref hp)
    (ho : lookup c.fields (joinPath hp "ODFIIdentification") = .str odfi)
    (hE : lookup c.fields (joinPath c.recv "Entries") = .lst p n)
    (htr : ∀ i, i < n → lookup c.fields (joinPath (elemPath p i) "TraceNumber") = .str (tr i))
    (h : (exec v_Batch_isTraceNumberODFI c []).2 = .ret (.err none)) :
    ∀ i, i < n → tracePrefix (tr i) = .str (stringField odfi 8) := by
  rw [isTraceNumberODFI_shape] at h
  have h8 : builtin2 "stringField" (Val.str odfi) (Val.int 8) = .str (stringField odfi 8) := by simp [builtin2]
  simp only [odfiProg, seqs, exec, eval, hflag, hH, ho, hE, h8, scopeExit_self] at h
  have hne : (Val.str (stringField odfi 8) == Val.bad) = false := by simp
  cases hs : (iter (fun l' => exec odfiBody c l') (fun i => Val.ref (elemPath p i)) "entry" (List.range n)
      [("bhODFI", Val.str (stringField odfi 8))]).2 with
  | next =>
      intro i hi
      exact odfi_iter c p n tr (stringField odfi 8) htr (List.range n) (fun k hk => List.mem_range.mp hk) hs i
        (List.mem_range.mpr hi)
  | ret v =>
      exfalso
      have hna := iter_no_accept (fun l' => exec odfiBody c l') (fun i => Val.ref (elemPath p i)) "entry"
        (fun l => rejectOnly_no_accept odfiBody (by decide) c l) (List.range n) [("bhODFI", Val.str (stringField odfi 8))]
      rw [hs] at hna
      revert h
      generalize (iter _ _ _ _ _) = r at hs hna ⊢
      obtain ⟨l1, s1⟩ := r
      simp only at hs
      subst hs
      intro h
      exact hna h
  | brk | cont | stuck _ =>
      exfalso
      revert h
      generalize (iter _ _ _ _ _) = r at hs ⊢
      obtain ⟨l1, s1⟩ := r
      simp only at hs
      subst hs
      simp


/-- the statement of `Batch.verify` that runs `isTraceNumberODFI` (and `isAddendaSequence`) -/
def traceBlock : Prog :=
  .ite (.not (.flag "recv" "CustomTraceNumbers"))
    (seqs [(.check none v_Batch_isTraceNumberODFI), (.check none v_Batch_isAddendaSequence)])
    .skip

/-- today that statement is the third from the end of `Batch.verify`, and every statement before it can only reject -/
theorem verify_runs_trace_checks :
    (stmts v_Batch_verify).drop ((stmts v_Batch_verify).length - 3) = traceBlock :: (stmts v_Batch_verify).drop ((stmts v_Batch_verify).length - 2) ∧
    (stmts v_Batch_verify).drop ((stmts v_Batch_verify).length - 2) ≠ [] ∧
    ((stmts v_Batch_verify).take ((stmts v_Batch_verify).length - 3)).all (fun q => rejectOnly q && noAssign q) = true ∧
    rejectOnly traceBlock = true := by
  decide +kernel

theorem traceBlock_passes (c : Ctx) (pre : Locals) (hflag : hasFlag c "recv" "CustomTraceNumbers" = false)
    (h : (exec traceBlock c pre).2 = .next) : (exec v_Batch_isTraceNumberODFI c []).2 = .ret (.err none) := by
  simp only [traceBlock, seqs, exec, eval, hflag] at h
  generalize (exec v_Batch_isTraceNumberODFI c []).2 = s at h ⊢
  cases s with
  | ret v =>
      cases v with
      | err t =>
          cases t with
          | none => rfl
          | some t => simp [checkResult] at h
      | _ => simp [checkResult] at h
  | _ => simp [checkResult] at h

/-- C03, trace numbers begin with the ODFI — for every standard batch value, of any size: if `Batch.verify()`
(translated from the source on this run) returns nil and neither `CustomTraceNumbers` nor `BypassOriginValidation` is on,
then the trace number of every entry begins with the eight columns of the header's ODFI identification -/
theorem accepted_batch_traces_begin_with_odfi (c : Ctx) (hp p : String) (n : Nat) (tr : Nat → Str) (odfi : Str)
    (hf1 : hasFlag c "recv" "CustomTraceNumbers" = false)
    (hf2 : hasFlag c "recv" "BypassOriginValidation" = false)
    (hH : lookup c.fields (joinPath c.recv "Header") = .ref hp)
    (ho : lookup c.fields (joinPath hp "ODFIIdentification") = .str odfi)
    (hE : lookup c.fields (joinPath c.recv "Entries") = .lst p n)
    (htr : ∀ i, i < n → lookup c.fields (joinPath (elemPath p i) "TraceNumber") = .str (tr i))
    (ha : run c v_Batch_verify = .accept) :
    ∀ i, i < n → tracePrefix (tr i) = .str (stringField odfi 8) := by
  have hres := Ach.Props.Validators.accept_ret c _ ha
  obtain ⟨hd, hne, hall, hro⟩ := verify_runs_trace_checks
  have hs : stmts v_Batch_verify = (stmts v_Batch_verify).take ((stmts v_Batch_verify).length - 3) ++
      (stmts v_Batch_verify).drop ((stmts v_Batch_verify).length - 3) := (List.take_append_drop _ _).symm
  obtain ⟨pre, hpre⟩ := accept_reaches c _ _ _ hs (by rw [hd]; simp) hall hres
  rw [hd, seqs_cons_ne _ _ hne] at hpre
  have hpass := Ach.Props.Accepted.accept_seq_left hro hpre
  exact isTraceNumberODFI_accepts c hp p n tr odfi hf2 hH ho hE htr (traceBlock_passes c pre hf1 hpass)

/-- non-vacuity of the prefix function: an ASCII trace number of fifteen digits has its first eight as prefix -/
example : tracePrefix "121042880000001".toList = .str "12104288".toList := by decide +kernel

end Ach.Props.AcceptedTraces
