import Ach.Props.Layouts
import Ach.Proofs.Layout
import Ach.Proofs.Compile
import Ach.Proofs.Writer
import Ach.Proofs.IO
/-!
# C02 — every successfully written file is physically well-formed NACHA  (record level)

`compile_width` : whatever the extracted facts are, a layout that `compile`
accepts is exactly 94 columns wide.

File level, on the Writer model (`Ach.Model.Writer`: emission order of `Write` / `writeBatch` / `writeIATBatch` and the
padding loop, over the file's tree shape; tied by the `write` correspondence stream, which compares the kinds of the
records the real Writer emits for generated files of every SEC, IAT and ADV, all record-count residues mod 10):
`written_blocking` (count is a multiple of ten), `written_filler_only_after_control`, `written_order` (the output is in
the grammar FH (BH (ED AD*)* BC)* FC 9* and parses back to the file's tree), `create_counts_physical` (the block count
`File.Create` stores equals the blocks physically written; its record total equals the records emitted).  `written_record_94` : every record whose
field values are within their widths (`RecFix`, implied by `RecOK`) renders to
exactly 94 characters.  The per-record obligations `Props.Layouts.layout_X`
say that today's source compiles for each of the 26 record types.

Line endings, on the byte-level Writer model of C16 (`Ach.Model.IO`, tied by the `io` stream): `written_lines_terminated`
— what a successful `Write` leaves in the sink is exactly every non-empty record followed by the configured line ending,
then the all-9 filler records each followed by it (`C16.write_ok_complete` says the sink holds `render` whenever `Write`
returns nil, for every buffer size and failure plan).
-/
namespace Ach.Props.C02
open Ach Ach.Gen

/-- `compile` only ever returns layouts of width 94 -/
theorem compile_width (pf : ParseFact) (rf : RenderFact) (L : Layout) (h : compile pf rf = .ok L) :
    Layout.width L = lineLength := Ach.compile_width pf rf L h

/-- **written_record_94**: a record within its widths is written as exactly 94 characters -/
theorem written_record_94 (pf : ParseFact) (rf : RenderFact) (L : Layout) (h : compile pf rf = .ok L)
    (ps : Bool) (vs : List Val) (hv : RecFix ps L vs) : (renderRec L vs).length = 94 := by
  rw [renderRec_length hv, compile_width pf rf L h]; rfl

/-- every record the Reader parses from a 94-column line is written back as 94 columns,
for layouts whose converter pairs are all stable -/
theorem reread_record_94 (pf : ParseFact) (rf : RenderFact) (L : Layout) (h : compile pf rf = .ok L)
    (ps : Bool) (hs : ∀ f ∈ L, StableSpec ps f) (line : Str) (hl : line.length = 94) :
    (renderRec L (parseRec ps L line)).length = 94 := by
  have hw := compile_width pf rf L h
  exact written_record_94 pf rf L h ps _ (parseRec_recFix L hs line (by rw [hw]; exact hl))

/-! ## file level -/

open Ach.Writer in
/-- **written_blocking** -/
theorem written_blocking (f : WFile) : (write f).length % 10 = 0 := write_length_mod f

open Ach.Writer in
/-- **written_filler_only_after_control**: the output is the records in order, ending with the file control, followed
by fewer than ten all-9 records and nothing else -/
theorem written_filler_only_after_control (f : WFile) : ∃ body, write f = body ++ [Kind.fileControl] ++
    List.replicate (padCount (emit f).length) Kind.filler ∧ padCount (emit f).length < 10 := by
  obtain ⟨body, _, h⟩ := write_tail_filler f
  exact ⟨body, h, (padCount_spec _).2⟩

open Ach.Writer in
/-- **written_order**: file header, then batches of (batch header, entries each immediately followed by their own
addenda, batch control), then one file control, then filler — and that sequence determines the file's tree -/
theorem written_order (f : WFile) : parse (write f) = some f := parse_write f

open Ach.Writer in
/-- **create_counts_physical** -/
theorem create_counts_physical (f : WFile) :
    createTotalRecords f = (emit f).length ∧ createBlockCount f * 10 = (write f).length ∧
    (emit f).count Kind.batchHeader = f.batches.length := by
  refine ⟨createTotalRecords_eq f, createBlockCount_physical f, ?_⟩
  have hE : ∀ es : List WEntry, (es.flatMap emitEntry).count Kind.batchHeader = 0 := by
    intro es
    induction es with
    | nil => rfl
    | cons e es ih =>
      simp only [List.flatMap_cons, List.count_append, ih, emitEntry, List.count_cons, List.count_replicate]
      simp
  have hB : ∀ bs : List WBatch, (bs.flatMap emitBatch).count Kind.batchHeader = bs.length := by
    intro bs
    induction bs with
    | nil => rfl
    | cons b bs ih =>
      simp only [List.flatMap_cons, List.count_append, ih, emitBatch, List.count_cons, hE, List.length_cons]
      simp; omega
  simp only [emit, List.count_cons, List.count_append, hB]
  simp

/-- non-vacuity: a file with two batches and 2+1 entries carrying 1, 0 and 2 addenda -/
example : (Ach.Writer.write ⟨[⟨[⟨1⟩, ⟨0⟩]⟩, ⟨[⟨2⟩]⟩]⟩).length = 20 := by decide

/-- every record the Writer emits, and every filler record, is followed by the configured line ending and nothing else
separates them -/
theorem written_lines_terminated {α : Type} (cfg : Ach.IO.Cfg α) (f : Ach.IO.WFile α) :
    Ach.IO.render cfg f =
      ((f.lines.filter (fun l => !l.isEmpty)) ++
        List.replicate (Ach.IO.padCount (Ach.IO.countLines f.lines)) cfg.padLine).flatMap (· ++ cfg.ending) := by
  unfold Ach.IO.render Ach.IO.emitLines Ach.IO.padding
  rw [List.flatMap_append]
  congr 1
  · generalize f.lines = ls
    induction ls with
    | nil => rfl
    | cons l ls ih =>
      simp only [List.flatMap_cons, List.filter_cons, ih, Ach.IO.emitLine]
      cases h : l.isEmpty <;> simp [h]
  · generalize Ach.IO.padCount (Ach.IO.countLines f.lines) = n
    induction n with
    | zero => rfl
    | succ n ih => simp [List.replicate_succ, ih]

end Ach.Props.C02
