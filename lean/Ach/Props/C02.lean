import Ach.Props.Layouts
import Ach.Proofs.Layout
import Ach.Proofs.Compile
/-!
# C02 — every successfully written file is physically well-formed NACHA  (record level)

`compile_width` : whatever the extracted facts are, a layout that `compile`
accepts is exactly 94 columns wide.  `written_record_94` : every record whose
field values are within their widths (`RecFix`, implied by `RecOK`) renders to
exactly 94 characters.  The per-record obligations `Props.Layouts.layout_X`
say that today's source compiles for each of the 26 record types.
-/
namespace Ach.Props.C02
open Ach Ach.Gen

/-- `compile` only ever returns layouts of width 94 -/
theorem compile_width (pf : ParseFact) (rf : RenderFact) (L : Layout) (h : compile pf rf = .ok L) :
    Layout.width L = lineLength := Ach.compile_width pf rf L h

/-- **written_record_94**: a record within its widths is written as exactly 94 characters -/
theorem written_record_94 (pf : ParseFact) (rf : RenderFact) (L : Layout) (h : compile pf rf = .ok L)
    (ps : Bool) (vs : List Val) (hv : RecFix ps L vs) : (renderRec L vs).length = 94 := by
  rw [renderRec_length hv, compile_width pf rf L h]; rfl

/-- every record the Reader parses from a 94-column line is written back as 94 columns,
for layouts whose converter pairs are all stable -/
theorem reread_record_94 (pf : ParseFact) (rf : RenderFact) (L : Layout) (h : compile pf rf = .ok L)
    (ps : Bool) (hs : ∀ f ∈ L, StableSpec ps f) (line : Str) (hl : line.length = 94) :
    (renderRec L (parseRec ps L line)).length = 94 := by
  have hw := compile_width pf rf L h
  exact written_record_94 pf rf L h ps _ (parseRec_recFix L hs line (by rw [hw]; exact hl))

end Ach.Props.C02
