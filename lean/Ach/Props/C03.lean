import Ach.Model.Validate
import Ach.Generated.Topics
/-!
# C03 — files that pass validation satisfy the NACHA control arithmetic

* `check_digit_spec` — the accepted check digit is the unique digit that makes the 3-7-1 weighted sum a multiple of 10;
* `classification_consistent` — the credit/debit code lists used for totals, for segmenting and for IAT/ADV agree with
  each other and with `CreditOrDebit`, and partition the standard codes (generated tables, kernel evaluation);
* `validate_sound_batch`, `validate_sound_file_partial` — acceptance by the model of `Batch.verify` / `File.ValidateWith`
  implies every clause the property lists.  The model may accept more than the code (opaque conjuncts only reject more);
  the correspondence stream checks `implementation accepts ⇒ model accepts`.
* `hash_is_sum_mod` — the entry hash is the sum of the routing prefixes modulo 10^10, also when the sum needs more digits.

`validate_sound_file_partial` is *partial*: `File.ValidateWith` never validates IAT batches nor the batches of ADV
files (known finding D6), so for those the property holds only for files that came through the Reader (which
validates each batch at its control record).
-/
namespace Ach.Props.C03
open Ach Ach.Gen

/-! ## check digit -/

theorem roundUp10_sub (n : Nat) : (roundUp10 n : Int) - n = ((10 - n % 10) % 10 : Nat) := by
  unfold roundUp10; omega

/-- **check_digit_spec**: for every weighted sum `n`, `d = roundUp10 n - n` is a digit, `n + d ≡ 0 (mod 10)`,
and no other digit has that property -/
theorem check_digit_spec (n : Nat) :
    let d := roundUp10 n - n
    d ≤ 9 ∧ (n + d) % 10 = 0 ∧ ∀ d' : Nat, d' ≤ 9 → (n + d') % 10 = 0 → d' = d := by
  unfold roundUp10
  refine ⟨by omega, by omega, ?_⟩
  intro d' h1 h2; omega

/-- the model's `calculateCheckDigit` on an 8-digit string is that digit -/
theorem calculateCheckDigit_digits (s : Str) (hl : s.length = 8) (hd : s.all isDigit = true) :
    calculateCheckDigit s = ((roundUp10 (weightedSum (s.map digitVal)) - weightedSum (s.map digitVal) : Nat) : Int) := by
  unfold calculateCheckDigit
  have h8 : s.take 8 = s := List.take_of_length_le (by omega)
  simp only [hl, h8, hd]
  have : weightedSum (s.map digitVal) ≤ roundUp10 (weightedSum (s.map digitVal)) := by unfold roundUp10; omega
  simp; omega

/-! ## classification tables -/

/-- **classification_consistent** (F, on the generated tables): the five copies of the credit and debit lists agree;
they are disjoint, together they are exactly the standard two-digit codes, and they agree with `CreditOrDebit`. -/
theorem classification_consistent :
    creditCodes = segCreditCodes ∧ debitCodes = segDebitCodes ∧
    creditCodes = iatCreditCodes ∧ debitCodes = iatDebitCodes ∧
    creditCodes = segIatCreditCodes ∧ debitCodes = segIatDebitCodes ∧
    advCreditCodes = segAdvCreditCodes ∧ advDebitCodes = segAdvDebitCodes ∧
    (∀ c ∈ creditCodes, creditOrDebit c = .credit ∧ !debitCodes.contains c) ∧
    (∀ c ∈ debitCodes, creditOrDebit c = .debit) ∧
    (∀ c ∈ standardEntryCodes, creditCodes.contains c || debitCodes.contains c) ∧
    (∀ c ∈ creditCodes ++ debitCodes, standardEntryCodes.contains c) ∧
    (∀ c ∈ advCreditCodes ++ advDebitCodes, standardCodes.contains c && !(standardEntryCodes.contains c)) := by
  decide

/-- for all 100 two-digit codes × the three entry service classes, `classOK` admits exactly the matching direction -/
theorem service_class_direction :
    ∀ c ∈ List.range 100, ∀ sc ∈ [K.CreditsOnly, K.DebitsOnly],
      classOK sc ⟨c, [], [], 0, [], 0, true⟩ = true →
        (sc = K.CreditsOnly → creditOrDebit c = .credit) ∧ (sc = K.DebitsOnly → creditOrDebit c = .debit) := by
  decide

/-! ## soundness of acceptance -/

theorem and_true_split {a b : Bool} (h : (a && b) = true) : a = true ∧ b = true := by simpa using h

/-- **validate_sound_batch**: a standard batch accepted under default options satisfies every clause of the property -/
theorem validate_sound_batch (b : VBatch) (h : batchValidate {} b = true) :
    entryCount b.entries = b.control.entryAddendaCount ∧
    batchHash b.entries = b.control.entryHash ∧
    debitTotal b.entries = b.control.totalDebit ∧ creditTotal b.entries = b.control.totalCredit ∧
    b.header.serviceClass = b.control.serviceClass ∧ b.header.odfi = b.control.odfi ∧
    b.header.batchNumber = b.control.batchNumber ∧
    tracesAscend ['0'] b.entries = true ∧ tracePrefixOK (stringField b.header.odfi 8) b.entries = true ∧
    (∀ e ∈ b.entries, 0 ≤ e.amount ∧ e.amount ≤ 9999999999 ∧ classOK b.header.serviceClass e = true ∧
        ∃ d, atoi e.checkDigit = some d ∧ calculateCheckDigit (stringField e.rdfi 8) = d) := by
  simp only [batchValidate, Bool.and_eq_true, Bool.or_eq_true, decide_eq_true_eq, Bool.false_eq_true, false_or,
    List.all_eq_true, Bool.not_eq_true'] at h
  obtain ⟨⟨⟨⟨⟨⟨⟨⟨⟨⟨⟨⟨⟨_, _⟩, hent⟩, hsc⟩, _⟩, hodfi⟩, hbn⟩, hcnt⟩, hasc⟩, hdeb⟩, hcred⟩, hhash⟩, hpre⟩, hcls⟩ := h
  refine ⟨hcnt, hhash, hdeb, hcred, hsc, hodfi, hbn, hasc, hpre, ?_⟩
  intro e he
  have h1 := hent e he
  simp only [entryOK, Bool.and_eq_true, decide_eq_true_eq, Bool.or_eq_true, Bool.false_eq_true, false_or] at h1
  obtain ⟨⟨⟨_, h0⟩, hmax⟩, hcd⟩ := h1
  refine ⟨h0, hmax, hcls e he, ?_⟩
  cases hd : atoi e.checkDigit with
  | none => simp [hd] at hcd
  | some d => exact ⟨d, rfl, by simpa [hd] using hcd⟩

/-- **validate_sound_iat_batch**: an IAT batch accepted under default options (the Reader validates every IAT batch at
its batch control record) satisfies the same clauses — count, hash, totals (IAT copy of the credit / debit lists, equal
to the standard one by `classification_consistent`), header/control agreement, trace numbers strictly ascending and
starting with the header's ODFI, every entry's check digit -/
theorem validate_sound_iat_batch (b : VBatch) (h : iatBatchValidate {} b = true) :
    entryCount b.entries = b.control.entryAddendaCount ∧
    batchHash b.entries = b.control.entryHash ∧
    iatDebitTotal b.entries = b.control.totalDebit ∧ iatCreditTotal b.entries = b.control.totalCredit ∧
    b.header.serviceClass = b.control.serviceClass ∧ b.header.odfi = b.control.odfi ∧
    b.header.batchNumber = b.control.batchNumber ∧
    tracesAscend ['-', '1'] b.entries = true ∧ iatTracePrefixOK (stringField b.header.odfi 8) b.entries = true ∧
    (∀ e ∈ b.entries, ∃ d, atoi e.checkDigit = some d ∧ calculateCheckDigit (stringField e.rdfi 8) = d) := by
  simp only [iatBatchValidate, Bool.and_eq_true, Bool.or_eq_true, decide_eq_true_eq, Bool.false_eq_true, false_or,
    List.all_eq_true, Bool.not_eq_true'] at h
  obtain ⟨⟨⟨⟨⟨⟨⟨⟨⟨⟨⟨_, _⟩, hent⟩, hsc⟩, hodfi⟩, hbn⟩, hcnt⟩, hasc⟩, hdeb⟩, hcred⟩, hhash⟩, hpre⟩ := h
  refine ⟨hcnt, hhash, hdeb, hcred, hsc, hodfi, hbn, hasc, hpre, ?_⟩
  intro e he
  have h1 := hent e he
  simp only [iatEntryOK, Bool.and_eq_true] at h1
  obtain ⟨_, hcd⟩ := h1
  cases hd : atoi e.checkDigit with
  | none => simp [hd] at hcd
  | some d => exact ⟨d, rfl, by simpa [hd] using hcd⟩

/-- the IAT totals are the standard totals (the two copies of the code lists agree on the current source) -/
theorem iat_totals_eq_standard (es : List VEntry) : iatCreditTotal es = creditTotal es ∧ iatDebitTotal es = debitTotal es := by
  have h := classification_consistent
  unfold iatCreditTotal iatDebitTotal creditTotal debitTotal
  rw [← h.2.2.1, ← h.2.2.2.1]
  exact ⟨rfl, rfl⟩

/-- **validate_sound_file_partial**: an accepted non-ADV file has a file control equal to the sums over its batch
controls, ascending batch numbers, and every *standard* batch satisfies `validate_sound_batch`.
(IAT batches are only summed, never validated, by `File.ValidateWith`: known finding D6.) -/
theorem validate_sound_file_partial (f : VFile) (h : fileValidate {} f = true) :
    f.control.batchCount = (f.batches.length + f.iatControls.length : Nat) ∧
    f.control.entryAddendaCount = sumBy (·.entryAddendaCount) (allControls f) ∧
    f.control.totalDebit = sumBy (·.totalDebit) (allControls f) ∧
    f.control.totalCredit = sumBy (·.totalCredit) (allControls f) ∧
    f.control.entryHash = leastSignificantDigits (sumBy (·.entryHash) (allControls f)) 10 ∧
    batchNumbersAscend 0 f.batches = true ∧
    ∀ b ∈ f.batches, batchValidate {} b = true := by
  simp only [fileValidate, Bool.and_eq_true, Bool.or_eq_true, decide_eq_true_eq, Bool.false_eq_true, false_or,
    List.all_eq_true] at h
  obtain ⟨⟨⟨⟨⟨⟨⟨⟨_, hbc⟩, hb⟩, _⟩, hcnt⟩, hd⟩, hc⟩, hasc⟩, hh⟩ := h
  exact ⟨hbc, hcnt, hd, hc, hh, hasc, hb⟩

/-- non-vacuity: an IAT credit batch with foreign-looking traces starting with the ODFI is accepted -/
example : iatBatchValidate {} {
    header := ⟨220, [], "12345678".toList, 1⟩,
    entries := [⟨22, "99999999".toList, "2".toList, 100, "123456780000001".toList, 7, true⟩,
                ⟨32, "99999999".toList, "2".toList, 250, "123456780000002".toList, 8, true⟩],
    control := ⟨220, 17, 199999998, 0, 350, [], "12345678".toList, 1⟩,
    extraOK := true } = true := by decide

/-! ## hash -/

/-- **hash_is_sum_mod**: with non-negative routing values the batch entry hash is the sum modulo 10^10 -/
theorem hash_is_sum_mod (es : List VEntry) (h : 0 ≤ sumBy rdfiValue es) :
    batchHash es = (sumBy rdfiValue es) % 10000000000 := by
  unfold batchHash leastSignificantDigits
  have : ¬ (10 > lineLength) := by decide
  simp only [this, if_false]
  rw [Int.tmod_eq_emod_of_nonneg h]
  have : (10 : Int) ^ 10 = 10000000000 := by decide
  rw [this]

/-- non-vacuity: a two-entry credit batch whose hash exceeds ten digits is accepted and meets the hypotheses -/
example : batchValidate {} {
    header := ⟨220, "1234567890".toList, "12345678".toList, 1⟩,
    entries := [⟨22, "99999999".toList, "2".toList, 100, "123456780000001".toList, 0, true⟩,
                ⟨32, "99999999".toList, "2".toList, 250, "123456780000002".toList, 0, true⟩],
    control := ⟨220, 2, 199999998, 0, 350, "1234567890".toList, "12345678".toList, 1⟩,
    extraOK := true } = true := by decide

/-- F: the functions `Ach.Model.Validate` mirrors by hand have the bodies the model was written against -/
theorem validate_functions_unchanged : hashes_validate = [("File.ValidateWith", 10445232728897984769), ("File.Validate", 17213404748645969548), ("File.isEntryAddendaCount", 12696631380225462658), ("File.isFileAmount", 3480241912098899524), ("File.isEntryHash", 13734886812924259799), ("File.calculateEntryHash", 3784837326344583080), ("File.isSequenceAscending", 15571422516586788164), ("Batch.verify", 9460724674896680126), ("Batch.isBatchEntryCount", 13106519829678733205), ("Batch.isBatchAmount", 16505843045935765689), ("Batch.calculateBatchAmounts", 11949208757700908045), ("Batch.isSequenceAscending", 8180904180479630633), ("Batch.isEntryHash", 17906983948369032829), ("Batch.calculateEntryHash", 64307238646473242), ("Batch.isTraceNumberODFI", 6050489006599716682), ("Batch.ValidTranCodeForServiceClassCode", 839994114162879679), ("EntryDetail.Validate", 11966679055281504975), ("CalculateCheckDigit", 3833185090430182084), ("roundUp10", 9984175844447061339), ("aba8", 10864741332486296470), ("EntryDetail.CreditOrDebit", 9496558388189731941)] := by decide +kernel

end Ach.Props.C03
