import Ach.Props.AcceptedIATCount
import Ach.Props.AcceptedFileBatches
/-!
# IAT batches: every trace number begins with the ODFI (C03)
-/
namespace Ach.Props.AcceptedIATTraces
open Ach Ach.GoLite Ach.Gen

def iatOdfiBody : Prog :=
  .ite (.ne (.call2 "stringField" (.sel (.fld "Header") "ODFIIdentification") (.int 8))
      (.call3 "slice" (.call2 "stringField" (.sel (.var "entry") "TraceNumber") (.int 15)) (.int 0) (.int 8)))
    (.ret (.mkErr "ODFIIdentificationField")) .skip

def iatOdfiProg : Prog :=
  seqs [(.ite (.flag "recv" "BypassOriginValidation") (.ret .nil) .skip),
    (.forEach "entry" (.fld "Entries") iatOdfiBody), (.ret .nil)]

theorem iat_isTraceNumberODFI_shape : v_IATBatch_isTraceNumberODFI = iatOdfiProg := by decide +kernel

/-- the first eight columns of the trace number as `IATBatch.isTraceNumberODFI` takes them: of the 15-column field -/
def iatTracePrefix (t : Str) : Val := sliceAscii (stringField t 15) 0 8

/-- C03, IAT — `IATBatch.isTraceNumberODFI()` returns nil without `BypassOriginValidation` only if the first eight columns
of **every** entry's trace number field are the header's ODFI identification -/
theorem iat_isTraceNumberODFI_accepts (c : Ctx) (hp p : String) (n : Nat) (tr : Nat → Str) (odfi : Str)
    (hflag : hasFlag c "recv" "BypassOriginValidation" = false)
    (hH : lookup c.fields (joinPath c.recv "Header") = .ref hp)
    (ho : lookup c.fields (joinPath hp "ODFIIdentification") = .str odfi)
    (hE : lookup c.fields (joinPath c.recv "Entries") = .lst p n)
    (htr : ∀ i, i < n → lookup c.fields (joinPath (elemPath p i) "TraceNumber") = .str (tr i))
    (h : (exec v_IATBatch_isTraceNumberODFI c []).2 = .ret (.err none)) :
    ∀ i, i < n → iatTracePrefix (tr i) = .str (stringField odfi 8) := by
  rw [iat_isTraceNumberODFI_shape] at h
  simp only [iatOdfiProg, seqs, exec, eval, hflag, hE, scopeExit_self] at h
  have hpass : passing (iter (fun l' => exec iatOdfiBody c l') (fun i => Val.ref (elemPath p i)) "entry" (List.range n) []).2 := by
    cases hs : (iter (fun l' => exec iatOdfiBody c l') (fun i => Val.ref (elemPath p i)) "entry" (List.range n) []).2 with
    | next => exact Or.inl rfl
    | brk => exact Or.inr (Or.inl rfl)
    | cont => exact Or.inr (Or.inr rfl)
    | ret v =>
        exfalso
        have hna := iter_no_accept (fun l' => exec iatOdfiBody c l') (fun i => Val.ref (elemPath p i)) "entry"
          (fun l => rejectOnly_no_accept iatOdfiBody (by decide) c l) (List.range n) []
        rw [hs] at hna
        revert h
        generalize (iter _ _ _ _ _) = r at hs hna ⊢
        obtain ⟨l1, s1⟩ := r
        simp only at hs
        subst hs
        intro h
        simp at h
        exact hna (by rw [h])
    | stuck w =>
        exfalso
        revert h
        generalize (iter _ _ _ _ _) = r at hs ⊢
        obtain ⟨l1, s1⟩ := r
        simp only at hs
        subst hs
        simp
  intro i hi
  have hb := Ach.Props.AcceptedFileBatches.iter_all_pass (fun l' => exec iatOdfiBody c l') (fun k => .ref (elemPath p k)) "entry"
    (fun l' hp' => noAssign_suffix iatOdfiBody (by decide) c l' hp') (List.range n) [] hpass i (List.mem_range.mpr hi)
  have h8 : builtin2 "stringField" (Val.str odfi) (Val.int 8) = .str (stringField odfi 8) := by simp [builtin2]
  have h15 : builtin2 "stringField" (Val.str (tr i)) (Val.int 15) = .str (stringField (tr i) 15) := by simp [builtin2]
  have hsl : builtin3 "slice" (Val.str (stringField (tr i) 15)) (Val.int 0) (Val.int 8) = sliceAscii (stringField (tr i) 15) 0 8 := by
    simp [builtin3]
  unfold iatTracePrefix
  have hv : sliceAscii (stringField (tr i) 15) 0 8 = .bad ∨ ∃ e, sliceAscii (stringField (tr i) 15) 0 8 = .str e := by
    unfold sliceAscii; split <;> simp
  rcases hv with hv | ⟨e, hv⟩
  · simp [iatOdfiBody, exec, eval, lookup, hH, ho, htr i hi, h8, h15, hsl, hv, cmpVals] at hb
  · rw [hv]
    by_cases heq : stringField odfi 8 = e
    · rw [heq]
    · simp [iatOdfiBody, exec, eval, lookup, hH, ho, htr i hi, h8, h15, hsl, hv, cmpVals, heq, scopeExit] at hb

end Ach.Props.AcceptedIATTraces
