import Ach.Proofs.ReaderSM
import Ach.Model.ReaderDriver
import Ach.Model.Writer
import Ach.Generated.Topics
import Ach.Generated.Layouts
/-!
# The Reader's record dispatcher (shared by C01, C02 and C04)

Model: `Ach.ReaderSM` (`Ach/Model/ReaderSM.lean`) — `parseLine` and everything it calls as a state machine over
abstract records, plus the tail of `Read`; `classify` (`Ach/Model/ReaderDriver.lean`) maps a 94-column line to the
abstract record.  Tie: the `reader` correspondence stream (valid, mutated, truncated, concatenated files and arbitrary
record sequences: real `Reader.Read` vs `read ∘ classify`, tree of line numbers and error classes in order) and the
facts below, re-extracted from reader.go on every run.

Trusted / modelled, not verified: the outcome of every record-level and batch-level `Validate()` is an input of the
model (the stream supplies the real outcomes); the byte-vs-character slicing of `r.line` is identified (ASCII).
-/
namespace Ach.Props.Dispatch
open Ach Ach.Gen Ach.ReaderSM

/-! ## F: the source still has the shape the model mirrors -/

/-- every function the dispatcher model mirrors by hand has the body it was written against -/
theorem dispatch_functions_unchanged : hashes_dispatch = [("Reader.parseLine", 9354773263074861296), ("Reader.parseBH", 259601855583249320), ("Reader.parseED", 11587424247892398044), ("Reader.parseEDAddenda", 18036587564753202478), ("Reader.parseFileHeader", 12143495728072788486), ("Reader.parseBatchHeader", 16757155537065265750), ("Reader.parseEntryDetail", 14179005576981857029), ("Reader.parseAddenda", 17912293228272891323), ("Reader.parseADVAddenda", 17763170913395419680), ("Reader.parseBatchControl", 15993292339887807459), ("Reader.parseFileControl", 16359385392563525906), ("Reader.parseIATBatchHeader", 13931769634893129415), ("Reader.parseIATEntryDetail", 13098000140981218828), ("Reader.parseIATAddenda", 15724125762380673849), ("Reader.switchIATAddenda", 2041972110074576618), ("Reader.mandatoryOptionalIATAddenda", 11265651372768187792), ("Reader.nocIATAddenda", 16171707985875300198), ("Reader.returnIATAddenda", 1743759350996969195), ("Reader.addCurrentBatch", 5211845995868350317), ("Reader.addIATCurrentBatch", 11134415336968845929), ("maybeValidate", 10307993758593246238), ("File.IsADV", 10105026287465456566), ("File.AddBatch", 286752064724496751), ("File.AddIATBatch", 8516330373366649668), ("NewIATBatch", 18310525992506084835), ("IATBatch.AddEntry", 52444354139118889), ("IATBatch.GetEntries", 203076998109167791), ("Batch.AddEntry", 3038206299650006946), ("Batch.AddADVEntry", 4400327255012259311), ("Batch.GetEntries", 203076998109167791), ("EntryDetail.AddAddenda05", 17576443769531133691), ("IATEntryDetail.AddAddenda17", 9511652058978471596), ("IATEntryDetail.AddAddenda18", 7366408766726201681), ("IsRefusedChangeCode", 8049444941795956086), ("IsDishonoredReturnCode", 12016782453472631544), ("IsContestedReturnCode", 11823052691814436629)] := by decide +kernel

/-- `parseLine` switches on the first column with exactly these cases, in this order, and a default (unknown record type) -/
theorem parseLine_cases : caseLists sw_parseLine 0 = [["1"], ["5"], ["6"], ["7"], ["8"], ["9"]] ∧
    (sw_parseLine.map (·.hasDflt)) = [true] ∧ (sw_parseLine.map (·.tag)) = ["r.line[:1]"] := by decide +kernel

/-- `parseAddenda` switches on columns 2-3 with these cases and no default (other type codes are dropped) -/
theorem parseAddenda_cases : caseLists sw_parseAddenda 0 = [["02"], ["05"], ["98"], ["99"]] ∧
    (sw_parseAddenda.map (·.tag)) = ["r.line[1:3]", "", ""] ∧ (sw_parseAddenda.map (·.hasDflt)) = [false, true, true] ∧
    caseLists sw_parseAddenda 1 = [["expr:IsRefusedChangeCode(r.line[3:6])"]] ∧
    caseLists sw_parseAddenda 2 = [["expr:IsDishonoredReturnCode(r.line[3:6])"], ["expr:IsContestedReturnCode(r.line[3:6])"]] := by
  decide +kernel

/-- the IAT addenda switches -/
theorem iatAddenda_cases :
    caseLists sw_switchIATAddenda 0 = [["10", "11", "12", "13", "14", "15", "16", "17", "18"], ["98"], ["99"]] ∧
    caseLists sw_mandatoryOptionalIATAddenda 0 = [["10"], ["11"], ["12"], ["13"], ["14"], ["15"], ["16"], ["17"], ["18"]] ∧
    (sw_switchIATAddenda.map (·.hasDflt)) = [false] ∧ (sw_mandatoryOptionalIATAddenda.map (·.hasDflt)) = [false] := by
  decide +kernel

def spanOf (pf : ParseFact) (field : String) : Option (Int × Int × String) :=
  (pf.spans.find? (·.field == field)).map fun s => (s.lo, s.hi, s.conv)

/-- the addenda record indicator is column 79 of all three entry layouts, the SEC code columns 51-53 of a batch header -/
theorem dispatch_columns :
    spanOf parse_EntryDetail "AddendaRecordIndicator" = some (78, 79, "r.parseNumField($)") ∧
    spanOf parse_ADVEntryDetail "AddendaRecordIndicator" = some (78, 79, "r.parseNumField($)") ∧
    spanOf parse_IATEntryDetail "AddendaRecordIndicator" = some (78, 79, "r.parseNumField($)") ∧
    spanOf parse_BatchHeader "StandardEntryClassCode" = some (50, 53, "$") := by decide +kernel

/-! ## T: theorems about the dispatcher -/

/-- **Reading what the Writer emits rebuilds the file**: for every well-formed tree (records in Writer order: file
header, standard / ADV batches, IAT batches, file control), every record validating, followed by any number of all-9
filler records, the Reader returns exactly that tree — every record in the place it was written from — and no error
unless the file control record itself fails validation (`vc`). -/
theorem read_emit (t : Tree) (ht : WFTree t) (vc : Bits) (fill : List Bits) :
    read (emitted t vc fill) = expected t vc := ReaderSM.read_emit t ht vc fill

/-- in particular a file whose control validates is accepted, with or without its blocking filler -/
theorem read_emit_accepted (t : Tree) (ht : WFTree t) (fill : List Bits) :
    (read (emitted t Bits.all fill)).errs = [] := by
  rw [ReaderSM.read_emit t ht Bits.all fill]
  cases h : isADV t.batches <;> simp [expected, controlValid, Bits.all, h]

/-- **No file control, no file**: whatever the records are and however they validate, if none of them is a file
control record the Reader reports `ErrFileControl` (default options). -/
theorem read_without_control (rs : List (Rec × Bits)) (hrs : ∀ r ∈ rs, r.1.isFC = false) :
    Err.missingControl ∈ (read rs).errs := ReaderSM.read_without_control rs hrs

/-- **Truncation before the file control** (at a record boundary, or inside a record: `tail` is what is left of
the cut record — its first column survives, so it is not a file control record) is rejected. -/
theorem read_truncated_body (t : Tree) (ht : WFTree t) (j : Nat) (vs : List Bits) (tail : List (Rec × Bits))
    (htail : ∀ r ∈ tail, r.1.isFC = false) :
    Err.missingControl ∈ (read (((body t).take j).zip vs ++ tail)).errs :=
  ReaderSM.read_truncated_body t ht j vs tail htail

/-- **Truncation inside the file control record**: the Reader returns the same tree with the cut control record in
place of the original (and rejects the text unless that record validates, `vc`) — see `C04.truncated_count_differs`
and `C04.tamper_file_control_rejected` for what validation then does. -/
theorem read_truncated_control (t : Tree) (ht : WFTree t) (id : Nat) (vc : Bits) :
    read (allOK (body t) ++ [(.fc id, vc)]) = expected { t with control := .fc id } vc := by
  have h := ReaderSM.read_emit { t with control := .fc id } ⟨ht.header, ht.batches, ht.iatBatches, ⟨id, rfl⟩⟩ vc []
  simpa [emitted, body] using h

/-- **Truncation inside the blocking filler**: a filler record cut after its first column reads as a second file
control record and is refused; cut anywhere later it is still filler and `read_emit` applies. -/
theorem read_truncated_filler (t : Tree) (ht : WFTree t) (vc : Bits) (fill : List Bits) (i : Nat) (v : Bits) :
    (read (emitted t vc fill ++ [(.fc i, v)])).errs ≠ [] := ReaderSM.read_extra_control t ht vc fill i v

/-- **The Reader only relaxes** (C15 at the level of `Read`): a record sequence accepted under some outcomes of the
record- and batch-level validations is accepted when more of them succeed and when a missing file header / control
becomes allowed. -/
theorem read_monotone (rs : List Rec) (vs ws : List Bits) (hv : vs.length = rs.length) (hw : ws.length = rs.length)
    (hle : ∀ i (h1 : i < vs.length) (h2 : i < ws.length), Bits.le vs[i] ws[i])
    (a b a' b' : Bool) (ha : a = true → a' = true) (hb : b = true → b' = true)
    (h : (finish a b (run init (rs.zip vs))).errs = []) : (finish a' b' (run init (rs.zip ws))).errs = [] :=
  ReaderSM.read_mono rs vs ws hv hw hle a b a' b' ha hb h

/-! ## the emission order is the Writer model's (`Ach.Writer.emit`, tied to writer.go by the `write` stream) -/

def kindOf : Rec → Writer.Kind
  | .fh .. => .fileHeader
  | .bh .. => .batchHeader
  | .ed .. => .entry
  | .ad .. => .addenda
  | .bc .. => .batchControl
  | .fc .. => .fileControl
  | .filler => .filler
  | .unknown _ => .filler

def shapeBatch (b : TBatch) : Writer.WBatch := ⟨b.entries.map fun e => ⟨e.addenda.length⟩⟩
def shape (t : Tree) : Writer.WFile := ⟨(t.batches ++ t.iatBatches).map shapeBatch⟩

theorem addenda_kinds (l : List (Slot × Rec)) (h : ∀ x ∈ l, kindOf x.2 = Writer.Kind.addenda) :
    (l.map (·.2)).map kindOf = List.replicate l.length Writer.Kind.addenda := by
  induction l with
  | nil => rfl
  | cons a as ih =>
    simp only [List.map_cons, List.length_cons, List.replicate_succ]
    rw [h a (by simp), ih (fun x hx => h x (by simp [hx]))]

theorem entries_kinds (k : BKind) (es : List TEntry) (he : ∀ e ∈ es, WFEntry k e) :
    (es.flatMap emitEntry).map kindOf = (es.map fun e => (⟨e.addenda.length⟩ : Writer.WEntry)).flatMap Writer.emitEntry := by
  induction es with
  | nil => rfl
  | cons e es ih =>
    simp only [List.flatMap_cons, List.map_append, List.map_cons]
    rw [ih (fun e' he' => he e' (by simp [he']))]
    congr 1
    have hwe := he e (by simp)
    have hl := hwe.line
    have hk : kindOf e.line = Writer.Kind.entry := by
      cases hline : e.line <;> simp_all [EntryOK, kindOf]
    have ha := addenda_kinds e.addenda (by
      intro x hx
      have := hwe.slots x hx
      cases hx2 : x.2 <;> simp_all [SlotOK, kindOf])
    simp only [emitEntry, Writer.emitEntry, List.map_cons, hk, ha]

theorem emitBatch_kinds (b : TBatch) (hb : WFBatch b) : (emitBatch b).map kindOf = Writer.emitBatch (shapeBatch b) := by
  obtain ⟨kind, header, entries, control⟩ := b
  have hh := hb.header
  have hc := hb.control
  have he := hb.entries
  simp only at hh hc he
  cases header <;> simp [HeaderOK] at hh
  cases control with
  | none => simp [ControlOK] at hc
  | some c =>
    cases c <;> simp [ControlOK] at hc
    simp only [emitBatch, Writer.emitBatch, shapeBatch, List.map_cons, List.map_append, kindOf, Option.toList,
      List.map_nil, entries_kinds kind entries he]

theorem batches_kinds (bs : List TBatch) (h : ∀ b ∈ bs, WFBatch b) :
    (bs.flatMap emitBatch).map kindOf = (bs.map shapeBatch).flatMap Writer.emitBatch := by
  induction bs with
  | nil => rfl
  | cons b bs ih =>
    simp only [List.flatMap_cons, List.map_append, List.map_cons]
    rw [emitBatch_kinds b (h b (by simp)), ih (fun b' hb' => h b' (by simp [hb']))]

theorem emit_kinds (t : Tree) (ht : WFTree t) : (emit t).map kindOf = Writer.emit (shape t) := by
  obtain ⟨hid, hh⟩ := ht.header
  obtain ⟨cid, hc⟩ := ht.control
  simp only [emit, Writer.emit, shape, List.map_cons, List.map_append, hh, hc, kindOf, List.map_nil, List.flatMap_append,
    batches_kinds t.batches (fun b hb => (ht.batches b hb).2), batches_kinds t.iatBatches (fun b hb => (ht.iatBatches b hb).2)]

/-! ## non-vacuity: a concrete well-formed tree (header, a standard batch with an entry carrying two Addenda05, an
IAT batch with a three-addenda entry, control), read back by the executable model -/

def demoTree : Tree :=
  { header := .fh 1,
    batches := [⟨.std, .bh .std 2,
      [⟨.ed true 3, true, [(⟨1, true⟩, .ad (some ⟨1, true⟩) none 4), (⟨1, true⟩, .ad (some ⟨1, true⟩) none 5)]⟩,
       ⟨.ed false 6, false, []⟩],
      some (.bc 7)⟩],
    iatBatches := [⟨.iat, .bh .iat 8,
      [⟨.ed true 9, true, [(⟨0, false⟩, .ad none (some ⟨0, false⟩) 10), (⟨1, false⟩, .ad none (some ⟨1, false⟩) 11),
                           (⟨7, true⟩, .ad none (some ⟨7, true⟩) 12)]⟩],
      some (.bc 13)⟩],
    control := .fc 14 }

example : read (emitted demoTree Bits.all (List.replicate 6 Bits.all)) = expected demoTree Bits.all ∧
    (expected demoTree Bits.all).errs = [] := by decide

/-- the same records with one entry failing validation are rejected; `read_monotone`'s hypothesis is not vacuous -/
example : (read ((emit demoTree).zip (List.replicate 14 Bits.all))).errs = [] ∧
    (read ((emit demoTree).zip ((List.replicate 14 Bits.all).set 2 ⟨false, true, true, true⟩))).errs ≠ [] := by decide

example : WFTree demoTree := by
  refine ⟨⟨1, rfl⟩, ?_, ?_, ⟨14, rfl⟩⟩
  · intro b hb
    simp only [demoTree, List.mem_singleton] at hb
    subst hb
    refine ⟨by decide, ⟨by simp [HeaderOK], ?_, by simp [ControlOK], by simp⟩⟩
    intro e he
    simp only [List.mem_cons, List.mem_nil_iff, or_false] at he
    rcases he with rfl | rfl
    · exact ⟨by simp [EntryOK], by simp, by simp [SlotOK], by simp [SlotLE]⟩
    · exact ⟨by simp [EntryOK], by simp, by simp, by simp⟩
  · intro b hb
    simp only [demoTree, List.mem_singleton] at hb
    subst hb
    refine ⟨rfl, ⟨by simp [HeaderOK], ?_, by simp [ControlOK], by simp⟩⟩
    intro e he
    simp only [List.mem_singleton] at he
    subst he
    exact ⟨by simp [EntryOK], by simp, by simp [SlotOK], by simp [SlotLE]⟩

end Ach.Props.Dispatch
