import Ach.Proofs.Mono
import Ach.Generated.Checks
import Ach.Props.Dispatch
/-!
# C15 — relaxation options only ever relax

* `accept_monotone_batch`, `accept_monotone_file` — on the validation model (`Ach.Model.Validate`, the arithmetic and
  equality checks of `Batch.verify` / `File.ValidateWith` with their option guards exactly as written; record-level
  checks are opaque, option-independent conjuncts): acceptance under `o` implies acceptance under every `o' ≥ o`,
  for all inputs and all pairs of option sets.
* `guards_only_relax` (F) — the census of *every* reference to one of the 15 relaxation flags in the non-test source of
  package ach (regenerated on every run): in validation code each reference is either `if !flag { …may reject… }`
  or `if flag { return nil }` — never the other polarity.  An inverted guard, or a new guard with tightening polarity,
  breaks this obligation.  This is what justifies treating the unmodelled record-level checks as monotone.
* `flag_list` (F) — the option structure still has the flags the property names.

* `reader_accept_monotone` — on the model of the Reader's record dispatcher (`Ach.ReaderSM`, tied by the `reader`
  stream): a record sequence `Read` accepts stays accepted when more of the record- and batch-level validations it
  runs succeed and when a missing file header / control becomes allowed.  With `guards_only_relax` (every validation
  can only succeed more often under a larger option set) this lifts monotonicity from `Validate` to `Read`.

Not covered by a theorem: that *parsing* (field extraction) is independent of the 15 flags (the Reader consults only
`PreserveSpaces`, `AllowMissingFileHeader/Control`, `SkipAll`); the oracle searches pairs O ⊆ O' on the real Reader.
-/
namespace Ach.Props.C15
open Ach Ach.Gen

theorem accept_monotone_batch (o o' : Opts) (h : o.le o') (b : VBatch) :
    batchValidate o b = true → batchValidate o' b = true := batchValidate_mono h b

theorem accept_monotone_iat_batch (o o' : Opts) (h : o.le o') (b : VBatch) :
    iatBatchValidate o b = true → iatBatchValidate o' b = true := iatBatchValidate_mono h b

theorem accept_monotone_file (o o' : Opts) (h : o.le o') (f : VFile) :
    fileValidate o f = true → fileValidate o' f = true := fileValidate_mono h f

open Ach.ReaderSM in
theorem reader_accept_monotone (rs : List Rec) (vs ws : List Bits) (hv : vs.length = rs.length) (hw : ws.length = rs.length)
    (hle : ∀ i (h1 : i < vs.length) (h2 : i < ws.length), Bits.le vs[i] ws[i])
    (allowNoHeader allowNoControl allowNoHeader' allowNoControl' : Bool)
    (ha : allowNoHeader = true → allowNoHeader' = true) (hb : allowNoControl = true → allowNoControl' = true)
    (h : (finish allowNoHeader allowNoControl (run init (rs.zip vs))).errs = []) :
    (finish allowNoHeader' allowNoControl' (run init (rs.zip ws))).errs = [] :=
  Dispatch.read_monotone rs vs ws hv hw hle _ _ _ _ ha hb h

def relaxationFlags : List String :=
  ["BypassOriginValidation", "BypassDestinationValidation", "CustomTraceNumbers", "AllowZeroBatches",
   "AllowMissingFileHeader", "AllowMissingFileControl", "BypassCompanyIdentificationMatch", "CustomReturnCodes",
   "UnequalServiceClassCode", "AllowUnorderedBatchNumbers", "AllowInvalidCheckDigit", "UnequalAddendaCounts",
   "AllowInvalidAmounts", "AllowZeroEntryAmount", "AllowSpecialCharacters"]

/-- functions that build or render rather than accept/reject: their flag references do not bear on acceptance -/
def notAcceptance (fn : String) : Bool :=
  fn = "Batch.build" || fn = "IATBatch.build" || fn = "File.Create" ||
  fn = "FileHeader.ImmediateDestinationField" || fn = "FileHeader.ImmediateOriginField"

/-- a reference relaxes when the flag switches a check off: `if !flag {check}` or `if flag {return nil}` -/
def relaxing (r : OptRef) : Bool :=
  (r.negated && (r.effect = "may-err" || r.effect = "return-err")) ||
  (!r.negated && r.effect = "return-nil")

/-- **guards_only_relax** (F) -/
theorem guards_only_relax :
    (optRefs.filter (fun r => relaxationFlags.contains r.flag && !notAcceptance r.fn)).all relaxing = true := by
  decide +kernel

/-- the census is not empty: every one of the 15 flags except AllowZeroBatches (consulted only by `File.Create`)
guards at least one acceptance check -/
theorem every_flag_guards_something :
    (relaxationFlags.filter (· ≠ "AllowZeroBatches")).all
      (fun f => optRefs.any (fun r => r.flag = f && !notAcceptance r.fn)) = true := by
  decide +kernel

theorem flag_list : relaxationFlags.all (fun f => optFlags.contains f) = true := by decide +kernel

/-- non-vacuity: a batch rejected under `{}` only for its service class mismatch is accepted once the flag is set,
and `{} ≤ {unequalServiceClassCode}` -/
example : let b : VBatch := {
      header := ⟨220, "1234567890".toList, "12345678".toList, 1⟩,
      entries := [⟨22, "99999999".toList, "2".toList, 100, "123456780000001".toList, 0, true⟩],
      control := ⟨200, 1, 99999999, 0, 100, "1234567890".toList, "12345678".toList, 1⟩,
      extraOK := true }
    batchValidate {} b = false ∧ batchValidate { unequalServiceClassCode := true } b = true := by decide

end Ach.Props.C15
