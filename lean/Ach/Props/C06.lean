import Ach.Proofs.Lines
import Ach.Proofs.Create
import Ach.Go.Utf8
import Ach.Generated.Sites
/-!
# C06 — no input makes the library or the HTTP server panic or hang  (partial)

What a theorem can carry — the panic and hang sites that are *logic*:

* `index_site_census` (F) — every slice / index expression in the functions reachable from the C06 entry points
  (Reader dispatch, record accessors, build / upsertOffsets, merge, flatten, reversal, segment, the byte-cutting
  `Parse` functions) is the expected one; a new or changed slice expression breaks this obligation and sends the
  oracle searching;
* `lines_at_most_94` — for *every* byte/rune stream the Reader's loop flushes lines of 1..94 runes, so the
  long-line branch of `readLine`, `trimSpacesFromLongLine` and `processFixedWidthFile` are unreachable through `Read`,
  and the rune-measured padding never fails (`short_line_padding_total`);
* `padded_accessor_in_bounds` — the sub-field accessors slice `alphaField(v, n)`, whose byte length is at least `n`,
  whatever `v` is (the defect fixed in /repo commit 4c8c8aa1: they used to slice `v` itself);
* `offset_removal_total` — the removal loop of `upsertOffsets` with `Entries[i+1:]` neither panics nor spins, for every
  entry list (`removeLoop_mode1`); with `Entries[i+i:]` it does both (C05 `upsert_counterexample_*`);
* all model functions are total Lean functions: every loop is a structural recursion or carries fuel with a
  proved bound.

Not exhibited by any model: nil dereferences on partially built files (ADV files with a missing control, nil entries from
JSON `null`, a nil file in the server's segment endpoint — found by the oracle, known findings), `encoding/json`,
gorilla/mux, go-kit, stack depth, the scheduler.
-/
namespace Ach.Props.C06
open Ach Ach.Gen

theorem index_site_census : indexSites = [
  ("Reader.parseLine", ["r.line[:1]", "r.line[:2]", "r.line[:1]"]),
  ("Reader.parseBatchHeader", []),
  ("Reader.parseAddenda", ["r.currentBatch.GetEntries()[entryIndex]", "r.line[1:3]", "r.currentBatch.GetEntries()[entryIndex]", "r.currentBatch.GetEntries()[entryIndex]", "r.line[3:6]", "r.currentBatch.GetEntries()[entryIndex]", "r.currentBatch.GetEntries()[entryIndex]", "r.currentBatch.GetEntries()[entryIndex]", "r.currentBatch.GetEntries()[entryIndex]", "r.line[3:6]", "r.currentBatch.GetEntries()[entryIndex]", "r.currentBatch.GetEntries()[entryIndex]", "r.line[3:6]", "r.currentBatch.GetEntries()[entryIndex]", "r.currentBatch.GetEntries()[entryIndex]", "r.currentBatch.GetEntries()[entryIndex]", "r.currentBatch.GetEntries()[entryIndex]"]),
  ("Reader.parseEntryDetail", []),
  ("Reader.readLine", []),
  ("Reader.Read", []),
  ("Reader.parseFileControl", []),
  ("Reader.parseED", []),
  ("Batch.upsertOffsets", ["r.Entries[i]", "r.Entries[i]", "r.Entries[i]", "r.Entries[i]", "r.Entries[i]", "r.Entries[:i]", "r.Entries[i+1:]"]),
  ("Batch.build", ["entry.TraceNumberField()[:8]", "r.Header.ODFIIdentificationField()[:8]", "r.Entries[i].TraceNumberField()[8:]", "r.Entries[i]", "r.ADVEntries[i]"]),
  ("aba8", ["rtn[0]", "rtn[0]", "rtn[1:9]", "rtn[:8]"]),
  ("Batch.isTraceNumberODFI", ["entry.TraceNumber[:8]"]),
  ("EntryDetail.SetRDFI", ["s[:8]", "s[8:9]"]),
  ("EntryDetail.SetTraceNumber", []),
  ("EntryDetail.CreditOrDebit", ["tc[1:2]"]),
  ("EntryDetail.CheckSerialNumberField", []),
  ("EntryDetail.ProcessControlField", ["r.alphaField(r.IndividualName, 22)[0:6]"]),
  ("EntryDetail.ItemResearchNumberField", ["absent"]),
  ("EntryDetail.ItemResearchNumber", ["r.alphaField(r.IndividualName, 22)[6:22]"]),
  ("EntryDetail.ProcessControl", ["absent"]),
  ("EntryDetail.SHRCardExpirationDateField", ["r.alphaField(r.IdentificationNumber, 15)[0:4]"]),
  ("EntryDetail.SHRDocumentReferenceNumberField", ["r.alphaField(r.IdentificationNumber, 15)[4:15]"]),
  ("EntryDetail.SHRIndividualCardAccountNumberField", []),
  ("EntryDetail.POPCheckSerialNumberField", ["r.alphaField(r.IdentificationNumber, 15)[0:9]"]),
  ("EntryDetail.POPTerminalCityField", ["r.alphaField(r.IdentificationNumber, 15)[9:13]"]),
  ("EntryDetail.POPTerminalStateField", ["r.alphaField(r.IdentificationNumber, 15)[13:15]"]),
  ("EntryDetail.CATXAddendaRecordsField", ["r.IndividualName[:4]"]),
  ("EntryDetail.CATXReceivingCompanyField", ["r.IndividualName[4:]"]),
  ("EntryDetail.CATXReservedField", ["r.alphaField(r.IndividualName, 22)[20:22]"]),
  ("EntryDetail.OriginalTraceNumberField", []),
  ("EntryDetail.PaymentTypeField", []),
  ("EntryDetail.ReceivingCompanyField", []),
  ("File.FlattenBatches", []),
  ("File.Reversal", ["r.Batches[i]", "r.Batches[i]", "entries[j]", "entries[j]", "entries[j]", "entries[j]", "entries[j]", "r.Batches[i]", "r.Batches[i]", "r.Batches[i]", "r.Batches[i]"]),
  ("File.SegmentFile", []),
  ("File.segmentFileBatches", []),
  ("File.segmentFileIATBatches", []),
  ("outFile.add", ["incoming.Batches[j]", "incoming.Batches[j]", "entries[m]", "entries[m]", "entries[m]"]),
  ("convertToFiles", ["sorted.batches[i]"]),
  ("lineCount", ["absent"]),
  ("MergeFiles", []),
  ("trimRoutingNumberLeadingZero", ["s[0]", "s[1:]"]),
  ("CalculateCheckDigit", []),
  ("CheckRoutingNumber", ["routingNumber[len(routingNumber)-1]"]),
  ("FileHeader.Parse", ["runes[3:13]", "runes[13:23]", "runes[23:29]", "runes[29:33]", "runes[33:34]", "runes[40:63]", "runes[63:86]", "runes[86:94]"]),
  ("ADVEntryDetail.Parse", ["runes[1:3]", "runes[3:11]", "runes[11:12]", "runes[12:27]", "runes[27:39]", "runes[39:48]", "runes[48:53]", "runes[53:54]", "runes[54:76]", "runes[76:78]", "runes[78:79]", "runes[79:87]", "runes[87:90]", "runes[90:94]"]),
  ("ADVFileControl.Parse", ["runes[1:7]", "runes[7:13]", "runes[13:21]", "runes[21:31]", "runes[31:51]", "runes[51:71]"]),
  ("BatchControl.Parse", ["runes[1:4]", "runes[4:10]", "runes[10:20]", "runes[20:32]", "runes[32:44]", "runes[44:54]", "runes[54:73]", "runes[79:87]", "runes[87:94]"]),
  ("IATEntryDetail.SetRDFI", ["s[:8]", "s[8:9]"]),
  ("ADVEntryDetail.SetRDFI", ["s[:8]", "s[8:9]"])
] := by decide +kernel

theorem lines_at_most_94 (text : Str) : ∀ l ∈ splitLines 94 text, 0 < l.length ∧ l.length ≤ 94 := splitLines_width text

theorem short_line_padding_total (text : Str) : ∀ l ∈ splitLines 94 text, ∃ p, rightPad "rune" l = some p ∧ p.length = 94 :=
  fun l hl => rightPad_rune_ok l (splitLines_width text l hl).2

/-- F: and rune-measured is what the source does today -/
theorem pad_unit_is_rune : rightPadUnit = "rune" := by decide

/-- a value padded to its field width can be sliced anywhere below that width, in bytes -/
theorem padded_accessor_in_bounds (v : Str) (n : Nat) (hn : n ≤ lineLength) : n ≤ (utf8 (alphaField v n)).length := by
  have h1 := length_le_utf8_length (alphaField v n)
  have h2 := alphaField_length v n hn
  omega

theorem offset_removal_total (es : List CEntry) (ctl : CControl) :
    ∃ r, removeLoop 1 (2 * es.length + 2) 0 es ctl = .ok r :=
  ⟨_, removeLoop_mode1 (2 * es.length + 2) 0 es ctl (by omega) (by omega)⟩

end Ach.Props.C06
