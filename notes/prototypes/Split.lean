import Proto.Basic
namespace Proto

/-- Reader.Read's accumulation loop: state = current line (reversed not needed), output lines so far -/
structure SplitSt where
  cur : List Char
  out : List (List Char)   -- flushed lines, in order
deriving Repr

def isNL (c : Char) : Bool := c = '\n' || c = '\r'

def stepChar (w : Nat) (s : SplitSt) (c : Char) : SplitSt :=
  if isNL c then
    if s.cur.length > 0 then { cur := [], out := s.out ++ [s.cur] } else s
  else
    let cur' := s.cur ++ [c]
    if cur'.length < w then { s with cur := cur' } else { cur := [], out := s.out ++ [cur'] }

def runChars (w : Nat) (s : SplitSt) (cs : List Char) : SplitSt := cs.foldl (stepChar w) s

def finish (s : SplitSt) : List (List Char) := if s.cur.length > 0 then s.out ++ [s.cur] else s.out

def splitLines (w : Nat) (cs : List Char) : List (List Char) := finish (runChars w ⟨[], []⟩ cs)

theorem runChars_append (w s a b) : runChars w s (a ++ b) = runChars w (runChars w s a) b := by
  simp [runChars, List.foldl_append]

/-- feeding k non-newline chars to a state whose buffer has room -/
theorem run_partial (w : Nat) (l : List Char) (hl : ∀ c ∈ l, isNL c = false) :
    ∀ (pre : List Char) (out), pre.length + l.length < w →
    runChars w ⟨pre, out⟩ l = ⟨pre ++ l, out⟩ := by
  induction l with
  | nil => intro pre out _; simp [runChars]
  | cons c cs ih =>
    intro pre out h
    have hc : isNL c = false := hl c (by simp)
    have : runChars w ⟨pre, out⟩ (c :: cs) = runChars w (stepChar w ⟨pre, out⟩ c) cs := by simp [runChars]
    rw [this]
    have hs : stepChar w ⟨pre, out⟩ c = ⟨pre ++ [c], out⟩ := by
      simp [stepChar, hc]; simp at h; omega
    rw [hs, ih (fun c hc' => hl c (by simp [hc'])) (pre ++ [c]) out (by simp at h ⊢; omega)]
    simp

/-- a full record of exactly w non-newline chars is flushed as one line -/
theorem run_full (w : Nat) (hw : 0 < w) (l : List Char) (hlen : l.length = w) (hl : ∀ c ∈ l, isNL c = false) (out) :
    runChars w ⟨[], out⟩ l = ⟨[], out ++ [l]⟩ := by
  -- split l into init ++ [last]
  have hne : l ≠ [] := by intro h; simp [h] at hlen; omega
  obtain ⟨init, last, rfl⟩ : ∃ init last, l = init ++ [last] := ⟨l.dropLast, l.getLast hne, (List.dropLast_concat_getLast hne).symm⟩
  rw [runChars_append, run_partial w init (fun c hc => hl c (by simp [hc])) [] out (by simp at hlen ⊢; omega)]
  have hc : isNL last = false := hl last (by simp)
  simp [runChars, stepChar, hc]
  simp at hlen; omega

/-- newline characters in the empty-buffer state are skipped -/
theorem run_sep_empty (w : Nat) (sep : List Char) (hs : ∀ c ∈ sep, isNL c = true) (out) :
    runChars w ⟨[], out⟩ sep = ⟨[], out⟩ := by
  induction sep with
  | nil => simp [runChars]
  | cons c cs ih =>
    have : runChars w ⟨[], out⟩ (c :: cs) = runChars w (stepChar w ⟨[], out⟩ c) cs := by simp [runChars]
    rw [this]
    have : stepChar w ⟨[], out⟩ c = ⟨[], out⟩ := by simp [stepChar, hs c (by simp)]
    rw [this]; exact ih (fun c hc => hs c (by simp [hc]))

/-- Main: any list of full-width records joined with any newline-only separators splits back to the records. -/
theorem split_join (w : Nat) (hw : 0 < w) (recs : List (List Char)) (seps : List (List Char))
    (hlen : ∀ r ∈ recs, r.length = w) (hnl : ∀ r ∈ recs, ∀ c ∈ r, isNL c = false)
    (hseps : ∀ s ∈ seps, ∀ c ∈ s, isNL c = true) (hcount : seps.length = recs.length) :
    ∀ out, runChars w ⟨[], out⟩ (List.flatten (List.zipWith (· ++ ·) recs seps)) = ⟨[], out ++ recs⟩ := by
  induction recs generalizing seps with
  | nil => intro out; simp [runChars]
  | cons r rs ih =>
    intro out
    match seps, hcount with
    | s :: ss, hcount =>
      simp only [List.zipWith_cons_cons, List.flatten_cons]
      rw [runChars_append, runChars_append, run_full w hw r (hlen r (by simp)) (hnl r (by simp)),
          run_sep_empty w s (hseps s (by simp))]
      rw [ih ss (fun r hr => hlen r (by simp [hr])) (fun r hr => hnl r (by simp [hr]))
            (fun s hs => hseps s (by simp [hs])) (by simpa using hcount)]
      simp

end Proto
