/-! prototype: field codec + line splitter -/

namespace Proto

abbrev Str := List Char

def isSpaceGo (c : Char) : Bool :=
  c = ' ' || c = '\t' || c = '\n' || c = '\x0b' || c = '\x0c' || c = '\r' || c.val = 0x85 || c.val = 0xA0

def trimLeft (s : Str) : Str := s.dropWhile isSpaceGo
def trimRight (s : Str) : Str := (s.reverse.dropWhile isSpaceGo).reverse
def trimSpace (s : Str) : Str := trimRight (trimLeft s)

def alphaField (s : Str) (w : Nat) : Str :=
  if s.length > w then s.take w else s ++ List.replicate (w - s.length) ' '

theorem alphaField_length (s : Str) (w : Nat) : (alphaField s w).length = w := by
  unfold alphaField
  split
  · simp; omega
  · simp; omega

/-- canonical: no leading/trailing space -/
def Trimmed (s : Str) : Prop := trimSpace s = s

theorem dropWhile_append_replicate_space (s : Str) (n : Nat) :
    ((s ++ List.replicate n ' ').reverse.dropWhile isSpaceGo) = s.reverse.dropWhile isSpaceGo := by
  rw [List.reverse_append, List.reverse_replicate]
  induction n with
  | zero => simp
  | succ n ih =>
    rw [List.replicate_succ, List.cons_append, List.dropWhile_cons]
    simp [isSpaceGo]
    exact ih

theorem trimRight_alpha (s : Str) (n : Nat) : trimRight (s ++ List.replicate n ' ') = trimRight s := by
  unfold trimRight
  rw [dropWhile_append_replicate_space]

end Proto
