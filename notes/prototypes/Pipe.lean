namespace Pipe

inductive W | idle | holding (f : Nat) | exitedOk | exitedErr
deriving DecidableEq, Repr

structure St where
  remaining : List (Option Nat)
  walkerDone : Bool
  workers : List W
  acc : List Nat
  mergerDone : Bool
deriving Repr

def W.exited : W → Bool
  | .exitedOk | .exitedErr => true
  | _ => false

def afterParse : Option Nat → W
  | some f => W.holding f
  | none => W.exitedErr

inductive Step (cancellable : Bool) : St → St → Prop
  | dispatch (s : St) (i : Nat) (p) (ps) (h1 : s.walkerDone = false) (h2 : s.remaining = p :: ps)
      (h3 : s.workers[i]? = some W.idle) :
      Step cancellable s { s with remaining := ps, workers := s.workers.set i (afterParse p) }
  | walkerFinish (s : St) (h1 : s.walkerDone = false) (h2 : s.remaining = []) :
      Step cancellable s { s with walkerDone := true }
  | walkerAbort (s : St) (hc : cancellable = true) (h1 : s.walkerDone = false) (h2 : W.exitedErr ∈ s.workers) :
      Step cancellable s { s with walkerDone := true, remaining := [] }
  | deliver (s : St) (i : Nat) (f) (h1 : s.mergerDone = false) (h3 : s.workers[i]? = some (W.holding f)) :
      Step cancellable s { s with acc := s.acc ++ [f], workers := s.workers.set i W.idle }
  | workerExit (s : St) (i : Nat) (h1 : s.walkerDone = true) (h3 : s.workers[i]? = some W.idle) :
      Step cancellable s { s with workers := s.workers.set i W.exitedOk }
  | mergerFinish (s : St) (h1 : s.mergerDone = false) (h2 : ∀ w ∈ s.workers, w.exited = true) :
      Step cancellable s { s with mergerDone := true }

def Terminal (s : St) : Prop := s.mergerDone = true ∧ s.walkerDone = true ∧ ∀ w ∈ s.workers, w.exited = true

/-- invariant: merger finishes only after all workers exited; a worker exits ok only after the walker is done -/
def Inv (s : St) : Prop :=
  (s.mergerDone = true → ∀ w ∈ s.workers, w.exited = true) ∧
  (W.exitedOk ∈ s.workers → s.walkerDone = true) ∧
  s.workers ≠ []

theorem mem_set_cases {l : List W} {i : Nat} {a w : W} (h : w ∈ l.set i a) : w = a ∨ w ∈ l := by
  rcases List.mem_or_eq_of_mem_set h with h | h
  · exact Or.inr h
  · exact Or.inl h

theorem inv_step {c} {s t : St} (hi : Inv s) (hs : Step c s t) : Inv t := by
  obtain ⟨h1, h2, h3⟩ := hi
  cases hs with
  | dispatch i p ps a b d =>
    refine ⟨?_, ?_, by simpa using h3⟩
    · intro hm; simp at hm
      have := h1 hm W.idle (List.mem_of_getElem? d); simp [W.exited] at this
    · intro hmem; simp at hmem
      rcases mem_set_cases hmem with h | h
      · cases p <;> simp [afterParse] at h
      · have := h2 h; simp [a] at this
  | walkerFinish a b => exact ⟨h1, fun _ => rfl, h3⟩
  | walkerAbort hc a b => exact ⟨h1, fun _ => rfl, h3⟩
  | deliver i f a d =>
    refine ⟨?_, ?_, by simpa using h3⟩
    · intro hm; simp at hm; simp [a] at hm
    · intro hmem; simp at hmem
      rcases mem_set_cases hmem with h | h
      · cases h
      · exact h2 h
  | workerExit i a d =>
    refine ⟨?_, fun _ => a, by simpa using h3⟩
    intro hm w hw; simp at hm hw
    rcases mem_set_cases hw with h | h
    · simp [h, W.exited]
    · exact h1 hm w h
  | mergerFinish a b => exact ⟨fun _ => b, h2, h3⟩

/-- progress with a cancellable walker -/
theorem progress (s : St) (hi : Inv s) (hnt : ¬ Terminal s) : ∃ t, Step true s t := by
  obtain ⟨h1, h2, h3⟩ := hi
  by_cases hall : ∀ w ∈ s.workers, w.exited = true
  · -- all workers exited
    by_cases hw : s.walkerDone = true
    · by_cases hm : s.mergerDone = true
      · exact absurd ⟨hm, hw, hall⟩ hnt
      · exact ⟨_, Step.mergerFinish s (by simpa using hm) hall⟩
    · have hw' : s.walkerDone = false := by simpa using hw
      -- some worker exists and it is exitedErr (exitedOk would force walkerDone)
      obtain ⟨w, ws, hws⟩ := List.exists_cons_of_ne_nil h3
      have hwmem : w ∈ s.workers := by simp [hws]
      have hex := hall w hwmem
      have : w = W.exitedErr := by
        cases w with
        | idle => simp [W.exited] at hex
        | holding f => simp [W.exited] at hex
        | exitedOk => exact absurd (h2 hwmem) hw
        | exitedErr => rfl
      exact ⟨_, Step.walkerAbort s rfl hw' (this ▸ hwmem)⟩
  · -- some worker not exited: idle or holding
    have : ∃ w ∈ s.workers, w.exited = false := by
      apply Classical.byContradiction; intro hc; apply hall; intro w hw
      cases hx : w.exited with
      | true => rfl
      | false => exact absurd ⟨w, hw, hx⟩ hc
    obtain ⟨w, hwm, hwx⟩ := this
    obtain ⟨i, hi', hget⟩ := List.getElem_of_mem hwm
    have hget? : s.workers[i]? = some w := by simp [List.getElem?_eq_getElem hi', hget]
    have hmF : s.mergerDone = false := by
      cases hm : s.mergerDone with
      | false => rfl
      | true => have := h1 hm w hwm; simp [hwx] at this
    cases w with
    | holding f => exact ⟨_, Step.deliver s i f hmF hget?⟩
    | idle =>
      cases hwd : s.walkerDone with
      | true => exact ⟨_, Step.workerExit s i hwd hget?⟩
      | false =>
        cases hr : s.remaining with
        | nil => exact ⟨_, Step.walkerFinish s hwd hr⟩
        | cons p ps => exact ⟨_, Step.dispatch s i p ps hwd hr hget?⟩
    | exitedOk => simp [W.exited] at hwx
    | exitedErr => simp [W.exited] at hwx

/-- without cancellation a stuck, non-terminal, reachable-shaped state exists -/
theorem stuck_without_cancel :
    let s : St := ⟨[some 7], false, [W.exitedErr], [], true⟩
    Inv s ∧ ¬ Terminal s ∧ ¬ ∃ t, Step false s t := by
  refine ⟨⟨by simp [W.exited], by simp, by simp⟩, by simp [Terminal], ?_⟩
  rintro ⟨t, h⟩
  cases h with
  | dispatch i p ps a b d =>
    simp at d
    rcases i with _ | i <;> simp at d
  | walkerFinish a b => simp at b
  | walkerAbort hc a b => simp at hc
  | deliver i f a d => rcases i with _ | i <;> simp at d
  | workerExit i a d => simp at a
  | mergerFinish a b => simp at a

end Pipe
