namespace ProtoMerge

structure Entry where
  trace : String
  payload : Nat
deriving DecidableEq, Repr

structure Hdr where
  key : Nat
deriving DecidableEq, Repr

structure OutBatch where
  hdr : Hdr
  entries : List Entry    -- kept sorted by trace, unique traces
deriving Repr

def insertSorted (e : Entry) : List Entry → List Entry
  | [] => [e]
  | x :: xs => if e.trace < x.trace then e :: x :: xs
               else if e.trace = x.trace then e :: xs   -- treemap.Set overwrites
               else x :: insertSorted e xs

def contains (t : String) (es : List Entry) : Bool := es.any (·.trace = t)

/-- findOutBatch + Set -/
def place (h : Hdr) (e : Entry) : List OutBatch → List OutBatch
  | [] => [⟨h, [e]⟩]
  | b :: bs => if b.hdr = h && !contains e.trace b.entries then ⟨b.hdr, insertSorted e b.entries⟩ :: bs
               else b :: place h e bs

def allEntries (bs : List OutBatch) : List (Hdr × Entry) := bs.flatMap (fun b => b.entries.map (fun e => (b.hdr, e)))

theorem insertSorted_perm (e : Entry) (es : List Entry) (h : contains e.trace es = false) :
    (insertSorted e es).Perm (e :: es) := by
  induction es with
  | nil => simp [insertSorted]
  | cons x xs ih =>
    simp [contains] at h
    unfold insertSorted
    split
    · exact List.Perm.refl _
    · split
      · rename_i heq; exact absurd heq.symm h.1
      · have := ih (by simp [contains]; exact h.2)
        exact (List.Perm.cons x this).trans (List.Perm.swap e x xs)

theorem place_perm (h : Hdr) (e : Entry) (bs : List OutBatch) :
    (allEntries (place h e bs)).Perm ((h, e) :: allEntries bs) := by
  induction bs with
  | nil => simp [place, allEntries]
  | cons b bs ih =>
    unfold place
    split
    · rename_i hc
      simp at hc
      obtain ⟨hh, hnc⟩ := hc
      simp only [allEntries, List.flatMap_cons]
      have := insertSorted_perm e b.entries (by simpa using hnc)
      have h2 := (this.map (fun e => (b.hdr, e)))
      simp only [List.map_cons] at h2
      rw [hh] at h2 ⊢
      exact (List.Perm.append_right _ h2)
    · simp only [allEntries, List.flatMap_cons] at ih ⊢
      refine (List.Perm.append_left _ ih).trans ?_
      exact List.perm_middle

end ProtoMerge
