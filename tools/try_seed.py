#!/usr/bin/env python3
"""Run the property's check against a seeded defect: apply <seed>/patch.diff to /repo, run ./check <prop> (quick),
undo the patch straight afterwards.  usage: tools/try_seed.py <seed dir> [...]   -> one JSON line per seed"""
import json, os, subprocess, sys, time

def sh(cmd, cwd="/verif", timeout=3600):
    p = subprocess.run(cmd, cwd=cwd, stdout=subprocess.PIPE, stderr=subprocess.STDOUT, text=True, timeout=timeout)
    return p.returncode, p.stdout

for seed in sys.argv[1:]:
    seed = seed.rstrip("/")
    meta = json.load(open(os.path.join(seed, "meta.json")))
    pid = meta["property"]
    res = {"seed": os.path.basename(seed), "property": pid}
    st = subprocess.run(["git", "-C", "/repo", "status", "--porcelain"], stdout=subprocess.PIPE, text=True).stdout.strip()
    if st:
        print(json.dumps({"error": "/repo is not clean: " + st[:200]})); sys.exit(2)
    rc, out = sh(["git", "-C", "/repo", "apply", os.path.join(seed, "patch.diff")])
    if rc != 0:
        res["error"] = "patch does not apply: " + out[-200:]
        print(json.dumps(res)); continue
    evp = f"/verif/evidence/{pid}.json"
    ev_backup = open(evp).read() if os.path.exists(evp) else None
    try:
        t0 = time.time()
        checks = [pid] + [p for p in sys.argv[1:0]]
        rc, out = sh(["./check", pid, "--tier", os.environ.get("SEED_TIER", "quick")])
        res["exit"] = rc
        res["wall_s"] = round(time.time() - t0, 1)
        res["violations"] = [l for l in out.splitlines() if l.startswith("VIOLATION")]
        res["summary"] = [l for l in out.splitlines() if l.startswith(pid + " tier")]
        res["caught"] = rc == 1 and bool(res["violations"])
        if rc not in (0, 1):
            res["error"] = out[-600:]
        # what caught it
        ev = json.load(open(f"/verif/evidence/{pid}.json"))
        c = ev["coverage"]
        res["broken_obligations"] = [b["theorem"] for b in c.get("broken_obligations", [])][:8]
        res["stream_disagreements"] = {s["stream"]: len(s.get("disagreements", [])) + s.get("more_disagreements", 0) for s in c.get("correspondence", []) if s.get("disagreements") or s.get("error")}
        sigs = set()
        for v in res["violations"]:
            path = v.split("replay=")[1].split()[0]
            try:
                sigs.add(json.load(open(path)).get("signature", json.load(open(path)).get("kind")))
            except Exception:
                pass
        res["signatures"] = sorted(s for s in sigs if s)
    finally:
        sh(["git", "-C", "/repo", "checkout", "--", "."])
        sh(["git", "-C", "/repo", "clean", "-fdq"])
        # the evidence committed under /verif/evidence describes the unchanged tree: put it back
        if ev_backup is not None:
            open(evp, "w").write(ev_backup)
    if os.path.abspath(seed).startswith("/verif/seeded/"):
        keep = {k: res.get(k) for k in ("exit", "caught", "violations", "broken_obligations", "stream_disagreements", "signatures", "summary", "wall_s")}
        keep["tier"] = os.environ.get("SEED_TIER", "quick")
        keep["violations"] = len(res.get("violations") or [])
        keep["no_failing_input_found_only"] = bool(res.get("violations")) and all("no-failing-input-found" in v for v in res["violations"])
        json.dump(keep, open(os.path.join(seed, "caught.json"), "w"), indent=1)
    res["violations"] = (res.get("violations") or [])[:4]
    print(json.dumps(res), flush=True)
