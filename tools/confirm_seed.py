#!/usr/bin/env python3
"""Confirm a seeded defect independently: in a scratch worktree of /repo (outside /repo and /verif)
  1. the patch applies at HEAD and the packages build;
  2. the whole existing suite still passes with it;
  3. the demonstration FAILS with the patch and PASSES without it.
usage: tools/confirm_seed.py <seed dir> [<seed dir> ...]   -> prints one JSON line per seed"""
import json, os, re, shutil, subprocess, sys

ENV = dict(os.environ, GOFLAGS="-mod=mod", GOPROXY="off", GOSUMDB="off", GOTOOLCHAIN="local")
WT = "/tmp/confirm-wt"


def sh(cmd, cwd, timeout=1800):
    p = subprocess.run(cmd, cwd=cwd, env=ENV, stdout=subprocess.PIPE, stderr=subprocess.STDOUT, text=True, timeout=timeout, shell=isinstance(cmd, str))
    return p.returncode, p.stdout


def placement(meta, seed):
    text = meta.get("demo_placement", "")
    if os.path.exists(os.path.join(seed, "demo", "main.go")):
        return ("prog", "")
    for d in ("cmd/achcli/describe", "cmd/achcli", "server", "cmd/server"):
        if re.search(r"\b" + re.escape(d) + r"/?\b", text) and ("into the " + d in text or "in " + d in text or d + "/" in text):
            return ("test", d)
    return ("test", "")


def demo_pkg(seed):
    src = open(os.path.join(seed, "demo_test.go")).read()
    m = re.search(r"^package (\w+)", src, re.M)
    return m.group(1) if m else ""


def main():
    if not os.path.exists(WT):
        rc, out = sh(["git", "-C", "/repo", "worktree", "add", "--detach", WT, "HEAD"], "/")
        if rc != 0:
            print(out); sys.exit(2)
    for seed in sys.argv[1:]:
        seed = seed.rstrip("/")
        res = {"seed": os.path.basename(seed)}
        try:
            meta = json.load(open(os.path.join(seed, "meta.json")))
            res["property"] = meta.get("property")
            sh(["git", "checkout", "--", "."], WT); sh(["git", "clean", "-fdq"], WT)
            sh(["git", "checkout", "--detach", "-q", subprocess.run(["git", "-C", "/repo", "rev-parse", "HEAD"], stdout=subprocess.PIPE, text=True).stdout.strip()], WT)
            patch = os.path.join(seed, "patch.diff")
            rc, out = sh(["git", "apply", "--check", patch], WT)
            res["applies"] = rc == 0
            if rc != 0:
                res["error"] = out[-300:]
                print(json.dumps(res)); continue
            kind, d = placement(meta, seed)
            pkgdir = os.path.join(WT, d)
            if kind == "test":
                pk = demo_pkg(seed)
                # trust the package clause over the free text
                if pk.startswith("server"):
                    d = "server"
                elif pk.startswith("describe"):
                    d = "cmd/achcli/describe"
                elif pk.startswith("ach"):
                    d = ""
                elif pk == "main":
                    d = d or "cmd/achcli"
                pkgdir = os.path.join(WT, d)
                demo_dst = os.path.join(pkgdir, "zz_seed_demo_test.go")
                names = re.findall(r"^func (Test\w+)\(", open(os.path.join(seed, "demo_test.go")).read(), re.M)
                run_demo = ["go", "test", "-vet=off", "-count=1", "-run", "^(" + "|".join(names) + ")$", "./" + (d or ".")]
            else:
                demo_dst = None
                shutil.rmtree(os.path.join(WT, "zzdemo"), ignore_errors=True)
                run_demo = ["go", "run", "./zzdemo"]
            # without the patch: demo passes
            if demo_dst:
                shutil.copyfile(os.path.join(seed, "demo_test.go"), demo_dst)
            else:
                shutil.copytree(os.path.join(seed, "demo"), os.path.join(WT, "zzdemo"))
            rc0, out0 = sh(run_demo, WT)
            res["demo_passes_without"] = rc0 == 0 and "no tests to run" not in out0
            # with the patch
            sh(["git", "apply", patch], WT)
            rc1, out1 = sh(run_demo, WT)
            res["demo_fails_with"] = rc1 != 0
            if "-race" in meta.get("demo_placement", "") and rc1 == 0:
                rc1, out1 = sh(run_demo[:2] + ["-race"] + run_demo[2:], WT)
                res["demo_fails_with"] = rc1 != 0
                res["needs_race"] = True
            # suite with the patch, demo removed
            if demo_dst:
                os.remove(demo_dst)
            else:
                shutil.rmtree(os.path.join(WT, "zzdemo"))
            rc2, out2 = sh(["go", "test", "-vet=off", "-count=1", "./..."], WT, timeout=3000)
            fails = [l for l in out2.splitlines() if l.startswith("FAIL") or l.startswith("--- FAIL")]
            res["suite_passes_with"] = rc2 == 0 or not fails
            if fails:
                res["suite_failures"] = fails[:5]
            res["demo_out_with"] = out1[-400:]
            if not res["demo_passes_without"]:
                res["demo_out_without"] = out0[-400:]
        except Exception as e:
            res["error"] = repr(e)
        finally:
            sh(["git", "checkout", "--", "."], WT); sh(["git", "clean", "-fdq"], WT)
        print(json.dumps(res), flush=True)


if __name__ == "__main__":
    main()
