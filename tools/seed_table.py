#!/usr/bin/env python3
"""Developer tool: rewrite the table between the SEEDED-TABLE markers of DESIGN.md from seeded/*/meta.json and
seeded/*/caught.json (written by tools/try_seed.py)."""
import glob, json, os, re
rows = []
for d in sorted(glob.glob('/verif/seeded/C*')):
    m = json.load(open(d + '/meta.json'))
    c = json.load(open(d + '/caught.json')) if os.path.exists(d + '/caught.json') else {}
    by = []
    ob = c.get('broken_obligations') or []
    if ob:
        names = sorted({o.split('.')[-1] for o in ob}, key=lambda n: (0 if 'unchanged' in n or 'from_source' in n else 1, n))
        by.append('F/T: ' + ', '.join(names[:3]) + (' …' if len(names) > 3 else ''))
    for s, n in (c.get('stream_disagreements') or {}).items():
        by.append(f'K: {s} ({n} disagreements)')
    sigs = [s for s in (c.get('signatures') or []) if s and not s.endswith('obligation-broken')]
    osigs = [s for s in sigs if '/' in s]
    if osigs:
        by.append('O: ' + osigs[0] + (f' (+{len(osigs)-1})' if len(osigs) > 1 else ''))
    verdict = 'VIOLATION with failing input' if c.get('caught') and not c.get('no_failing_input_found_only') else \
              ('VIOLATION no-failing-input-found' if c.get('caught') else 'MISSED')
    what = (m.get('name') or '').replace('|', '/')
    files = ', '.join(m.get('files_changed') or [])
    rows.append(f"| {m['id']} | {what} ({files}) | {verdict} ({c.get('tier','quick')}, {c.get('wall_s','?')} s) | {'; '.join(by) or '-'} |")
table = "| seed | change | result of `./check` | caught by |\n|---|---|---|---|\n" + "\n".join(rows)
p = '/verif/DESIGN.md'
s = open(p).read()
s2 = re.sub(r'(<!-- SEEDED-TABLE-BEGIN -->\n).*?(<!-- SEEDED-TABLE-END -->)', lambda mm: mm.group(1) + table + "\n" + mm.group(2), s, flags=re.S)
if s2 == s and '<!-- SEEDED-TABLE-BEGIN -->' not in s:
    print(table)
else:
    open(p, 'w').write(s2)
    print(f"{len(rows)} rows written")
