#!/usr/bin/env python3
"""Developer tool (never run by a check): after a *reviewed* change to a Go function that a Lean model mirrors,
rewrite the body-hash pins `("Func.Name", <hash>)` inside the given Props files to the currently generated values.
usage: tools/repin.py Ach/Props/C08.lean [...]   (run from /verif/lean after ./bin/gofacts)"""
import re, sys, glob
cur = {}
for f in glob.glob('/verif/lean/Ach/Generated/*.lean'):
    for m in re.finditer(r'\("([A-Za-z0-9_.]+)", (\d{6,})\)', open(f).read()):
        cur.setdefault(m.group(1), set()).add(m.group(2))
for path in sys.argv[1:]:
    s = open(path).read()
    def rep(m):
        name, old = m.group(1), m.group(2)
        vals = cur.get(name)
        if not vals or len(vals) != 1:
            return m.group(0)
        new = next(iter(vals))
        if new != old:
            print(f"{path}: {name}: {old} -> {new}")
        return f'("{name}", {new})'
    s2 = re.sub(r'\("([A-Za-z0-9_.]+)", (\d{6,})\)', rep, s)
    if s2 != s:
        open(path, 'w').write(s2)
