#!/usr/bin/env python3
"""Developer tool: rewrite the per-property summary between the PROP-TABLE markers of DESIGN.md from registry.py and
the theorem names found in lean/Ach/Props."""
import re, sys
sys.path.insert(0, '/verif')
import registry
rows = []
for pid in sorted(registry.PROPS):
    v = registry.PROPS[pid]
    mods = v.get('props_modules') or ['Ach.Props.' + pid]
    names = []
    for m in mods:
        if m.endswith('Layouts'):
            names.append('26 × layout_X')
            continue
        path = '/verif/lean/' + m.replace('.', '/') + '.lean'
        names += re.findall(r'^theorem (\w+)', open(path).read(), re.M)
    streams = ', '.join(s[0] for s in v.get('streams', [])) or '-'
    thm = ', '.join(names[:14]) + (f' … ({len(names)} in all)' if len(names) > 14 else '')
    rows.append(f"**{pid}** — streams: {streams}{'; -race in thorough' if v.get('race') else ''}.  {v['level_text']}\n\n  *Theorems*: {thm}.\n\n  *Trusted / not verified*: {v['level_note']}\n")
text = "\n".join(rows)
p = '/verif/DESIGN.md'
s = open(p).read()
s2 = re.sub(r'(<!-- PROP-TABLE-BEGIN -->\n).*?(<!-- PROP-TABLE-END -->)', lambda mm: mm.group(1) + text + mm.group(2), s, flags=re.S)
open(p, 'w').write(s2)
print(len(rows), 'properties written' if s2 != s else 'no marker / unchanged')
