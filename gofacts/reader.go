package main

import (
	"go/ast"
	"strings"
)

// Reader facts: how short lines are padded, which bytes of the line select the record kind.
func emitReader(p *pkg, out string) {
	lf := newLean("Reader", "Ach.Facts")
	unit := ""
	if fd := p.funcs["rightPadShortLine"]; fd != nil {
		usesLen, usesRunes := false, false
		ast.Inspect(fd.Body, func(n ast.Node) bool {
			if ce, ok := n.(*ast.CallExpr); ok {
				switch p.src(ce.Fun) {
				case "len":
					usesLen = true
				case "utf8.RuneCountInString":
					usesRunes = true
				}
			}
			return true
		})
		switch {
		case usesLen && !usesRunes:
			unit = "byte"
		case usesRunes && !usesLen:
			unit = "rune"
		default:
			unit = unrec("rightPadShortLine: mixes len and RuneCountInString")
		}
	} else {
		unit = unrec("rightPadShortLine: not found")
	}
	lf.pf("/-- unit in which `rightPadShortLine` measures a short line before padding it to 94 -/\ndef rightPadUnit : String := %s\n\n", leanStr(unit))

	// every slice of r.line in the dispatch functions (these are byte slices of a string)
	lf.pf("def lineSlices : List (String × List String) := [\n")
	keys := []string{"Reader.parseLine", "Reader.parseBH", "Reader.parseED", "Reader.parseEDAddenda", "Reader.parseBatchHeader", "Reader.parseAddenda", "Reader.parseADVAddenda", "Reader.parseIATAddenda", "Reader.parseFileControl", "Reader.parseBatchControl"}
	for i, k := range keys {
		var sl []string
		if fd := p.funcs[k]; fd != nil {
			ast.Inspect(fd.Body, func(n ast.Node) bool {
				if se, ok := n.(*ast.SliceExpr); ok && strings.HasSuffix(p.src(se.X), ".line") {
					sl = append(sl, normRecv(p.src(se), recvIdent(fd)))
				}
				return true
			})
		}
		sep := ","
		if i == len(keys)-1 {
			sep = ""
		}
		lf.pf("  (%s, %s)%s\n", leanStr(k), leanStrList(sl), sep)
	}
	lf.pf("]\n\n")
	lf.pf("def readerHashes : List (String × Nat) := [")
	for i, k := range []string{"Reader.Read", "Reader.readLine", "blankLine", "rightPadShortLine", "trimSpacesFromLongLine", "Reader.processFixedWidthFile", "Reader.parseLine"} {
		if i > 0 {
			lf.pf(", ")
		}
		lf.pf("(%s, %d)", leanStr(k), p.bodyHash(k))
	}
	lf.pf("]\n")
	lf.write(out)
}
