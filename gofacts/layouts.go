package main

import (
	"fmt"
	"go/ast"
	"go/token"
	"hash/fnv"
	"sort"
	"strings"
)

// A parse span: rune (or byte) columns [lo,hi) of the 94-column record are
// assigned to `field` through converter `conv` (the right-hand side with the
// source slice replaced by `$` and the receiver replaced by `r`).
type span struct {
	field string
	lo    int64
	hi    int64
	unit  string // "rune" | "byte"
	conv  string
}

type constAssign struct{ field, value string }

type parseFact struct {
	rec    string
	idiom  string // "switch" | "byteslice" | "runeslice" | unrecognised…
	guard  string // condition under which Parse returns without touching the record
	spans  []span
	consts []constAssign
}

// A render segment of String().
type seg struct {
	kind  string // "lit" | "itoa" | "raw" | "alpha" | "string" | "numeric" | "custom"
	field string // struct field (or method name for custom)
	width int64  // declared width for alpha/string/numeric, len for lit; 0 when unknown
	lit   string
	hash  uint64 // FNV-1a of the normalised method body for custom segments
	cond  string // enclosing if-condition, "" when unconditional
}

type renderFact struct {
	rec      string
	segs     []seg
	nilGuard bool
}

func fnv64(s string) uint64 {
	h := fnv.New64a()
	h.Write([]byte(s))
	return h.Sum64()
}

func recvIdent(fd *ast.FuncDecl) string {
	if fd.Recv != nil && len(fd.Recv.List) > 0 && len(fd.Recv.List[0].Names) > 0 {
		return fd.Recv.List[0].Names[0].Name
	}
	return ""
}

// normRecv replaces the receiver identifier by `r` in already-rendered source.
func normRecv(s, recv string) string {
	if recv == "" {
		return s
	}
	// token-wise replace: recv followed by '.' or as whole word
	var out strings.Builder
	i := 0
	isId := func(c byte) bool {
		return c == '_' || c >= '0' && c <= '9' || c >= 'a' && c <= 'z' || c >= 'A' && c <= 'Z'
	}
	for i < len(s) {
		if strings.HasPrefix(s[i:], recv) && (i == 0 || !isId(s[i-1]) && s[i-1] != '.') && (i+len(recv) == len(s) || !isId(s[i+len(recv)])) {
			out.WriteString("r")
			i += len(recv)
			continue
		}
		out.WriteByte(s[i])
		i++
	}
	return out.String()
}

// findSource looks inside e for the record slice being converted.  It returns
// the node to be replaced by `$`, and its bounds when they are explicit.
func (p *pkg) findSource(e ast.Expr) (node ast.Expr, lo, hi int64, unit string, ok bool) {
	var found ast.Expr
	ast.Inspect(e, func(n ast.Node) bool {
		if found != nil {
			return false
		}
		switch n := n.(type) {
		case *ast.CallExpr:
			if id, ok := n.Fun.(*ast.Ident); ok {
				if id.Name == "reset" && len(n.Args) == 0 {
					found = n
					unit = "rune"
					lo, hi = -1, -1
					return false
				}
				if id.Name == "string" && len(n.Args) == 1 {
					if se, ok := n.Args[0].(*ast.SliceExpr); ok {
						if x, ok := se.X.(*ast.Ident); ok && x.Name == "runes" {
							l, ok1 := p.evalInt(se.Low)
							h, ok2 := p.evalInt(se.High)
							if ok1 && ok2 {
								found, lo, hi, unit = n, l, h, "rune"
								return false
							}
						}
					}
				}
			}
		case *ast.SliceExpr:
			if x, ok := n.X.(*ast.Ident); ok && (x.Name == "record" || x.Name == "runes") {
				l, ok1 := p.evalInt(n.Low)
				h, ok2 := p.evalInt(n.High)
				if ok1 && ok2 {
					found, lo, hi = n, l, h
					unit = "byte"
					if x.Name == "runes" {
						unit = "rune"
					}
					return false
				}
			}
		}
		return true
	})
	return found, lo, hi, unit, found != nil
}

func (p *pkg) convText(rhs ast.Expr, srcNode ast.Expr, recv string) string {
	full := p.src(rhs)
	part := p.src(srcNode)
	return normRecv(strings.Replace(full, part, "$", 1), recv)
}

func (p *pkg) extractParse(rec string) parseFact {
	pf := parseFact{rec: rec}
	fd := p.funcs[rec+".Parse"]
	if fd == nil {
		pf.idiom = unrec("%s.Parse: not found", rec)
		return pf
	}
	recv := recvIdent(fd)
	// guard: first if statement with a return
	for _, st := range fd.Body.List {
		if is, ok := st.(*ast.IfStmt); ok {
			if len(is.Body.List) == 1 {
				if _, ok := is.Body.List[0].(*ast.ReturnStmt); ok {
					pf.guard = p.src(is.Cond)
					break
				}
			}
		}
	}
	// Is there a `for _, r := range record` loop with a switch on idx?
	var loop *ast.RangeStmt
	for _, st := range fd.Body.List {
		if rs, ok := st.(*ast.RangeStmt); ok {
			loop = rs
		}
	}
	handleAssign := func(as *ast.AssignStmt, lo, hi int64, unitHint string) {
		if len(as.Lhs) != 1 || len(as.Rhs) != 1 || as.Tok != token.ASSIGN {
			return
		}
		sel, ok := as.Lhs[0].(*ast.SelectorExpr)
		if !ok {
			return
		}
		if id, ok := sel.X.(*ast.Ident); !ok || id.Name != recv {
			return
		}
		node, l, h, unit, ok := p.findSource(as.Rhs[0])
		if !ok {
			if s, ok := p.evalStr(as.Rhs[0]); ok {
				pf.consts = append(pf.consts, constAssign{sel.Sel.Name, s})
			} else {
				pf.spans = append(pf.spans, span{field: sel.Sel.Name, lo: lo, hi: hi, unit: unitHint,
					conv: unrec("%s.Parse: %s = %s", rec, sel.Sel.Name, p.src(as.Rhs[0]))})
			}
			return
		}
		if l < 0 { // reset(): bounds from the enclosing case clause
			l, h = lo, hi
		}
		pf.spans = append(pf.spans, span{field: sel.Sel.Name, lo: l, hi: h, unit: unit, conv: p.convText(as.Rhs[0], node, recv)})
	}
	if loop != nil {
		pf.idiom = "switch"
		// shape check: idx++ ; buf.WriteRune(r) ; switch idx {...}
		var sw *ast.SwitchStmt
		sawInc, sawWrite := false, false
		for _, st := range loop.Body.List {
			switch st := st.(type) {
			case *ast.IncDecStmt:
				if sw == nil && st.Tok == token.INC {
					sawInc = true
				}
			case *ast.ExprStmt:
				if sw == nil && strings.HasSuffix(p.src(st.X), ".WriteRune(r)") {
					sawWrite = true
				}
			case *ast.SwitchStmt:
				sw = st
			}
		}
		if sw == nil || !sawInc || !sawWrite {
			pf.idiom = unrec("%s.Parse: rune loop without idx++/WriteRune/switch shape", rec)
			return pf
		}
		var prev int64
		for _, st := range sw.Body.List {
			cc := st.(*ast.CaseClause)
			if cc.List == nil {
				pf.idiom = unrec("%s.Parse: default clause in cutoff switch", rec)
				continue
			}
			var hi int64 = -1
			for _, e := range cc.List {
				v, ok := p.evalInt(e)
				if !ok {
					pf.idiom = unrec("%s.Parse: non-constant cutoff %s", rec, p.src(e))
				}
				if v > hi {
					hi = v
				}
			}
			nAssign := 0
			sawReset := false
			for _, bs := range cc.Body {
				switch bs := bs.(type) {
				case *ast.AssignStmt:
					before := len(pf.spans) + len(pf.consts)
					handleAssign(bs, prev, hi, "rune")
					if len(pf.spans)+len(pf.consts) > before {
						nAssign++
					}
				case *ast.ExprStmt:
					if p.src(bs.X) == "reset()" {
						sawReset = true
					} else {
						pf.spans = append(pf.spans, span{field: "?", lo: prev, hi: hi, unit: "rune", conv: unrec("%s.Parse: statement %s", rec, p.src(bs))})
					}
				default:
					pf.spans = append(pf.spans, span{field: "?", lo: prev, hi: hi, unit: "rune", conv: unrec("%s.Parse: statement %s", rec, p.src(bs))})
				}
			}
			if nAssign == 0 && sawReset {
				pf.spans = append(pf.spans, span{field: "", lo: prev, hi: hi, unit: "rune", conv: "skip"})
			}
			if nAssign == 0 && !sawReset {
				pf.spans = append(pf.spans, span{field: "?", lo: prev, hi: hi, unit: "rune", conv: unrec("%s.Parse: cutoff %d neither assigns nor resets", rec, hi)})
			}
			prev = hi
		}
		// constant assignments outside the loop
		for _, st := range fd.Body.List {
			if as, ok := st.(*ast.AssignStmt); ok {
				handleAssign(as, -1, -1, "rune")
			}
		}
		return pf
	}
	// slice idioms: straight-line assignments
	pf.idiom = "slice"
	for _, st := range fd.Body.List {
		switch st := st.(type) {
		case *ast.AssignStmt:
			handleAssign(st, -1, -1, "byte")
		case *ast.IfStmt, *ast.DeclStmt, *ast.ReturnStmt:
		default:
			pf.spans = append(pf.spans, span{field: "?", conv: unrec("%s.Parse: statement %s", rec, p.src(st))})
		}
	}
	return pf
}

// fieldMethod classifies r.XField(): a single `return r.alphaField(r.F, n)`
// (or stringField / numericField) gives that converter; anything else is custom.
func (p *pkg) fieldMethod(rec, method string) seg {
	fd := p.funcs[rec+"."+method]
	if fd == nil {
		return seg{kind: "custom", field: method, lit: unrec("%s.%s: method not found", rec, method)}
	}
	recv := recvIdent(fd)
	if len(fd.Body.List) == 1 {
		if rs, ok := fd.Body.List[0].(*ast.ReturnStmt); ok && len(rs.Results) == 1 {
			if c, ok := rs.Results[0].(*ast.CallExpr); ok && len(c.Args) == 2 {
				if cs, ok := c.Fun.(*ast.SelectorExpr); ok {
					if w, ok := p.evalInt(c.Args[1]); ok {
						if fs, ok := c.Args[0].(*ast.SelectorExpr); ok {
							if id, ok := fs.X.(*ast.Ident); ok && id.Name == recv {
								switch cs.Sel.Name {
								case "alphaField":
									return seg{kind: "alpha", field: fs.Sel.Name, width: w}
								case "stringField":
									return seg{kind: "string", field: fs.Sel.Name, width: w}
								case "numericField":
									return seg{kind: "numeric", field: fs.Sel.Name, width: w}
								}
							}
						}
					}
				}
			}
		}
	}
	body := normRecv(p.stmtsSrc(fd.Body.List), recv)
	return seg{kind: "custom", field: method, hash: fnv64(body), lit: body}
}

func (p *pkg) extractRender(rec string) renderFact {
	rf := renderFact{rec: rec}
	fd := p.funcs[rec+".String"]
	if fd == nil {
		rf.segs = append(rf.segs, seg{kind: "custom", lit: unrec("%s.String: not found", rec)})
		return rf
	}
	recv := recvIdent(fd)
	var walk func(ss []ast.Stmt, cond string)
	walk = func(ss []ast.Stmt, cond string) {
		for _, st := range ss {
			switch st := st.(type) {
			case *ast.ExprStmt:
				ce, ok := st.X.(*ast.CallExpr)
				if !ok {
					continue
				}
				se, ok := ce.Fun.(*ast.SelectorExpr)
				if !ok || se.Sel.Name != "WriteString" || len(ce.Args) != 1 {
					rf.segs = append(rf.segs, seg{kind: "custom", cond: cond, lit: unrec("%s.String: statement %s", rec, p.src(st))})
					continue
				}
				s := p.classifyArg(rec, recv, ce.Args[0])
				s.cond = cond
				rf.segs = append(rf.segs, s)
			case *ast.IfStmt:
				c := normRecv(p.src(st.Cond), recv)
				if len(st.Body.List) == 1 {
					if r, ok := st.Body.List[0].(*ast.ReturnStmt); ok && c == "r == nil" && len(r.Results) == 1 && p.src(r.Results[0]) == `""` {
						rf.nilGuard = true
						continue
					}
				}
				walk(st.Body.List, joinCond(cond, c))
				if st.Else != nil {
					if eb, ok := st.Else.(*ast.BlockStmt); ok {
						walk(eb.List, joinCond(cond, "!("+c+")"))
					} else {
						rf.segs = append(rf.segs, seg{kind: "custom", lit: unrec("%s.String: else-if chain", rec)})
					}
				}
			case *ast.AssignStmt, *ast.DeferStmt, *ast.ReturnStmt, *ast.DeclStmt:
				// buf := getBuffer(); defer saveBuffer(buf); return buf.String()
			default:
				rf.segs = append(rf.segs, seg{kind: "custom", cond: cond, lit: unrec("%s.String: statement %s", rec, p.src(st))})
			}
		}
	}
	walk(fd.Body.List, "")
	return rf
}

func joinCond(a, b string) string {
	if strings.Contains(b, "||") {
		b = "(" + b + ")"
	}
	if a == "" {
		return b
	}
	return a + " && " + b
}

func (p *pkg) classifyArg(rec, recv string, arg ast.Expr) seg {
	if s, ok := p.evalStr(arg); ok {
		return seg{kind: "lit", lit: s, width: int64(len([]rune(s)))}
	}
	switch a := arg.(type) {
	case *ast.SelectorExpr:
		if id, ok := a.X.(*ast.Ident); ok && id.Name == recv {
			return seg{kind: "raw", field: a.Sel.Name}
		}
	case *ast.CallExpr:
		fn := p.src(a.Fun)
		switch {
		case fn == "strconv.Itoa" && len(a.Args) == 1:
			if fs, ok := a.Args[0].(*ast.SelectorExpr); ok {
				if id, ok := fs.X.(*ast.Ident); ok && id.Name == recv {
					return seg{kind: "itoa", field: fs.Sel.Name}
				}
			}
		case fn == "strings.Repeat" && len(a.Args) == 2:
			s, ok1 := p.evalStr(a.Args[0])
			n, ok2 := p.evalInt(a.Args[1])
			if ok1 && ok2 {
				return seg{kind: "lit", lit: strings.Repeat(s, int(n)), width: n * int64(len([]rune(s)))}
			}
		default:
			if se, ok := a.Fun.(*ast.SelectorExpr); ok && len(a.Args) == 0 {
				if id, ok := se.X.(*ast.Ident); ok && id.Name == recv {
					return p.fieldMethod(rec, se.Sel.Name)
				}
			}
			// r.alphaField(r.F, n) written inline
			if se, ok := a.Fun.(*ast.SelectorExpr); ok && len(a.Args) == 2 {
				if w, ok := p.evalInt(a.Args[1]); ok {
					if fs, ok := a.Args[0].(*ast.SelectorExpr); ok {
						switch se.Sel.Name {
						case "alphaField":
							return seg{kind: "alpha", field: fs.Sel.Name, width: w}
						case "stringField":
							return seg{kind: "string", field: fs.Sel.Name, width: w}
						case "numericField":
							return seg{kind: "numeric", field: fs.Sel.Name, width: w}
						}
					}
				}
			}
		}
	}
	return seg{kind: "custom", lit: unrec("%s.String: argument %s", rec, p.src(arg))}
}

// recordTypes: every type with both Parse(record string) and String().
func (p *pkg) recordTypes() []string {
	var rs []string
	for k := range p.funcs {
		if strings.HasSuffix(k, ".Parse") {
			r := strings.TrimSuffix(k, ".Parse")
			if p.funcs[r+".String"] != nil {
				fd := p.funcs[k]
				if fd.Type.Params != nil && len(fd.Type.Params.List) == 1 && p.src(fd.Type.Params.List[0].Type) == "string" {
					rs = append(rs, r)
				}
			}
		}
	}
	sort.Strings(rs)
	return rs
}

func emitLayouts(p *pkg, out string) {
	lf := newLean("Layouts", "Ach.Facts")
	recs := p.recordTypes()
	lf.pf("def recordTypes : List String := %s\n\n", leanStrList(recs))
	var names []string
	for _, r := range recs {
		pf := p.extractParse(r)
		rf := p.extractRender(r)
		lf.pf("def parse_%s : ParseFact := {\n  recName := %s, idiom := %s, guard := %s,\n  spans := [\n", r, leanStr(r), leanStr(pf.idiom), leanStr(pf.guard))
		for i, s := range pf.spans {
			sep := ","
			if i == len(pf.spans)-1 {
				sep = ""
			}
			lf.pf("    { field := %s, lo := %s, hi := %s, unit := %s, conv := %s }%s\n", leanStr(s.field), leanInt(s.lo), leanInt(s.hi), leanStr(s.unit), leanStr(s.conv), sep)
		}
		lf.pf("  ],\n  consts := [")
		for i, c := range pf.consts {
			if i > 0 {
				lf.pf(", ")
			}
			lf.pf("(%s, %s)", leanStr(c.field), leanStr(c.value))
		}
		lf.pf("] }\n\n")
		lf.pf("def render_%s : RenderFact := {\n  recName := %s, nilGuard := %v,\n  segs := [\n", r, leanStr(r), rf.nilGuard)
		for i, s := range rf.segs {
			sep := ","
			if i == len(rf.segs)-1 {
				sep = ""
			}
			lit := s.lit
			if s.kind == "custom" && len(unrecognised) == 0 {
				lit = "" // body text is in the comment below; the hash is the fact
			}
			if s.kind == "custom" && strings.Contains(s.lit, "unrecognised") {
				lit = s.lit
			}
			lf.pf("    { kind := %s, field := %s, width := %s, lit := %s, hash := %d, cond := %s }%s\n", leanStr(s.kind), leanStr(s.field), leanInt(s.width), leanStr(lit), s.hash, leanStr(s.cond), sep)
			if s.kind == "custom" {
				lf.pf("      -- body: %s\n", strings.ReplaceAll(s.lit, "\n", " "))
			}
		}
		lf.pf("  ] }\n\n")
		names = append(names, r)
	}
	lf.pf("def parseFacts : List ParseFact := [%s]\n", joinPrefixed("parse_", names))
	lf.pf("def renderFacts : List RenderFact := [%s]\n", joinPrefixed("render_", names))
	lf.write(out)
}

func joinPrefixed(pre string, names []string) string {
	var parts []string
	for _, n := range names {
		parts = append(parts, pre+n)
	}
	return strings.Join(parts, ", ")
}

var _ = fmt.Sprintf
