package main

import (
	"go/ast"
	"go/token"
	"sort"
	"strings"
)

// ---------- MergeDir pipeline shape (C10) ----------

type sendFact struct {
	fn, ch      string
	inSelect    bool
	selectsDone bool
}

func (p *pkg) sendsIn(key string) []sendFact {
	fd := p.funcs[key]
	if fd == nil || fd.Body == nil {
		return nil
	}
	var res []sendFact
	var visit func(n ast.Node, inSel, done bool)
	visit = func(n ast.Node, inSel, done bool) {
		ast.Inspect(n, func(m ast.Node) bool {
			switch m := m.(type) {
			case *ast.SelectStmt:
				hasDone := false
				for _, c := range m.Body.List {
					cc := c.(*ast.CommClause)
					if cc.Comm != nil && strings.Contains(p.src(cc.Comm), ".Done()") {
						hasDone = true
					}
				}
				for _, c := range m.Body.List {
					cc := c.(*ast.CommClause)
					if ss, ok := cc.Comm.(*ast.SendStmt); ok {
						res = append(res, sendFact{fn: key, ch: p.src(ss.Chan), inSelect: true, selectsDone: hasDone})
					}
					for _, b := range cc.Body {
						visit(b, false, false)
					}
				}
				return false
			case *ast.SendStmt:
				res = append(res, sendFact{fn: key, ch: p.src(m.Chan), inSelect: inSel, selectsDone: done})
			}
			return true
		})
	}
	visit(fd.Body, false, false)
	return res
}

// recvSelects: for each select in fn, the receive channels and whether a Done() case exists.
func (p *pkg) recvSelects(key string) []sendFact {
	fd := p.funcs[key]
	if fd == nil || fd.Body == nil {
		return nil
	}
	var res []sendFact
	ast.Inspect(fd.Body, func(m ast.Node) bool {
		sel, ok := m.(*ast.SelectStmt)
		if !ok {
			return true
		}
		hasDone := false
		var chans []string
		for _, c := range sel.Body.List {
			cc := c.(*ast.CommClause)
			if cc.Comm == nil {
				chans = append(chans, "default")
				continue
			}
			s := p.src(cc.Comm)
			if strings.Contains(s, ".Done()") {
				hasDone = true
				continue
			}
			if i := strings.Index(s, "<-"); i >= 0 {
				chans = append(chans, strings.TrimSpace(s[i+2:]))
			}
		}
		sort.Strings(chans)
		res = append(res, sendFact{fn: key, ch: strings.Join(chans, ","), inSelect: true, selectsDone: hasDone})
		return true
	})
	return res
}

func emitPipeline(p *pkg, out string) {
	lf := newLean("Pipeline", "Ach.Facts")
	// walkDir: what happens after recursing into a sub-directory
	subdir := "absent"
	if fd := p.funcs["walkDir"]; fd != nil {
		ast.Inspect(fd.Body, func(n ast.Node) bool {
			is, ok := n.(*ast.IfStmt)
			if !ok || !strings.Contains(p.src(is.Cond), "SubDirectories") {
				return true
			}
			if len(is.Body.List) == 1 {
				if rs, ok := is.Body.List[0].(*ast.ReturnStmt); ok && len(rs.Results) == 1 && strings.HasPrefix(p.src(rs.Results[0]), "walkDir(") {
					subdir = "return-recursive-call"
					return false
				}
			}
			// `if err := walkDir(...); err != nil { return err }` or `err = walkDir(...); if err != nil {return err}`
			txt := p.stmtsSrc(is.Body.List)
			if strings.Contains(txt, "walkDir(") && strings.Contains(txt, "!= nil") && strings.Contains(txt, "return") {
				subdir = "recurse-check-err-continue"
			} else {
				subdir = unrec("walkDir: sub-directory branch: %s", txt)
			}
			return false
		})
	}
	usesCtxGroup := false
	if fd := p.funcs["MergeDir"]; fd != nil {
		usesCtxGroup = strings.Contains(p.stmtsSrc(fd.Body.List), "errgroup.WithContext(")
	}
	lf.pf("def walkSubdir : String := %s\n", leanStr(subdir))
	lf.pf("def mergeDirUsesGroupCtx : Bool := %v\n", usesCtxGroup)
	emitSends := func(name string, fs []sendFact) {
		lf.pf("def %s : List SendFact := [", name)
		for i, s := range fs {
			if i > 0 {
				lf.pf(", ")
			}
			lf.pf("{ fn := %s, ch := %s, inSelect := %v, selectsDone := %v }", leanStr(s.fn), leanStr(s.ch), s.inSelect, s.selectsDone)
		}
		lf.pf("]\n")
	}
	var sends, recvs []sendFact
	for _, k := range []string{"walkDir", "queueFileForMerging", "MergeDir"} {
		sends = append(sends, p.sendsIn(k)...)
		recvs = append(recvs, p.recvSelects(k)...)
	}
	emitSends("pipeSends", sends)
	emitSends("pipeSelects", recvs)
	lf.pf("def pipeHashes : List (String × Nat) := [")
	for i, k := range []string{"MergeDir", "walkDir", "queueFileForMerging", "readFile", "readValidateOptsFromFile", "MergeFiles", "outFile.add", "convertToFiles", "pickOutFile", "findOutBatch", "MergeFilesWith", "merger.MergeWith"} {
		if i > 0 {
			lf.pf(", ")
		}
		lf.pf("(%s, %d)", leanStr(k), p.bodyHash(k))
	}
	lf.pf("]\n")
	lf.write(out)
}

// ---------- achcli masking (C20) ----------

func emitMask(d *pkg, cli *pkg, out string) {
	lf := newLean("Mask", "Ach.Facts")
	lf.pf("def maskHashes : List (String × Nat) := [(\"maskNumber\", %d), (\"maskName\", %d)]\n\n", d.bodyHash("maskNumber"), d.bodyHash("maskName"))
	// every assignment `x = maskNumber(y)` / maskName with its guard
	type mc struct{ fn, target, mask, arg, guard string }
	var mcs []mc
	var prints [][]string
	var printFns []string
	for _, key := range sortedKeys(d.funcs) {
		fd := d.funcs[key]
		if fd.Body == nil {
			continue
		}
		var walk func(ss []ast.Stmt, guard string)
		scan := func(st ast.Stmt, guard string) {
			ast.Inspect(st, func(n ast.Node) bool {
				switch n := n.(type) {
				case *ast.AssignStmt:
					if len(n.Rhs) == 1 {
						if ce, ok := n.Rhs[0].(*ast.CallExpr); ok {
							fn := d.src(ce.Fun)
							if (fn == "maskNumber" || fn == "maskName") && len(ce.Args) == 1 {
								mcs = append(mcs, mc{key, d.src(n.Lhs[0]), fn, d.src(ce.Args[0]), guard})
							}
						}
					}
				case *ast.CallExpr:
					fn := d.src(n.Fun)
					if fn == "fmt.Fprintf" && len(n.Args) > 2 {
						var as []string
						for _, a := range n.Args[2:] {
							as = append(as, d.src(a))
						}
						prints = append(prints, as)
						printFns = append(printFns, key)
					}
				}
				return true
			})
		}
		walk = func(ss []ast.Stmt, guard string) {
			for _, st := range ss {
				switch st := st.(type) {
				case *ast.IfStmt:
					walk(st.Body.List, joinCond(guard, d.src(st.Cond)))
					if eb, ok := st.Else.(*ast.BlockStmt); ok {
						walk(eb.List, joinCond(guard, "else:"+d.src(st.Cond)))
					}
				case *ast.ForStmt:
					walk(st.Body.List, guard)
				case *ast.RangeStmt:
					walk(st.Body.List, guard)
				case *ast.TypeSwitchStmt:
					for _, c := range st.Body.List {
						cc := c.(*ast.CaseClause)
						walk(cc.Body, joinCond(guard, "type "+d.caseText(cc)))
					}
				case *ast.SwitchStmt:
					for _, c := range st.Body.List {
						cc := c.(*ast.CaseClause)
						walk(cc.Body, joinCond(guard, "case "+d.caseText(cc)))
					}
				default:
					scan(st, guard)
				}
			}
		}
		walk(fd.Body.List, "")
	}
	lf.pf("def maskCalls : List MaskCall := [\n")
	for i, m := range mcs {
		sep := ","
		if i == len(mcs)-1 {
			sep = ""
		}
		lf.pf("  { fn := %s, target := %s, mask := %s, arg := %s, guard := %s }%s\n", leanStr(m.fn), leanStr(m.target), leanStr(m.mask), leanStr(m.arg), leanStr(m.guard), sep)
	}
	lf.pf("]\n\ndef printArgs : List (String × List String) := [\n")
	for i, as := range prints {
		sep := ","
		if i == len(prints)-1 {
			sep = ""
		}
		lf.pf("  (%s, %s)%s\n", leanStr(printFns[i]), leanStrList(as), sep)
	}
	lf.pf("]\n\n")
	// flag wiring in cmd/achcli: the describe.Opts literal
	lf.pf("def describeOptsWiring : List (String × String) := [")
	first := true
	for _, key := range sortedKeys(cli.funcs) {
		fd := cli.funcs[key]
		if fd.Body == nil {
			continue
		}
		ast.Inspect(fd.Body, func(n ast.Node) bool {
			cl, ok := n.(*ast.CompositeLit)
			if !ok || cli.src(cl.Type) != "describe.Opts" {
				return true
			}
			for _, el := range cl.Elts {
				if kv, ok := el.(*ast.KeyValueExpr); ok {
					if !first {
						lf.pf(", ")
					}
					first = false
					lf.pf("(%s, %s)", leanStr(cli.src(kv.Key)), leanStr(cli.src(kv.Value)))
				}
			}
			return true
		})
	}
	lf.pf("]\n")
	lf.write(out)
}

// ---------- site censuses (C06 panic sites, C14 write sets, C19 pool use, C16 io errors) ----------

func emitSites(p *pkg, server *pkg, out string) {
	lf := newLean("Sites", "Ach.Facts")

	// (1) slice / index expressions per function, for the functions reachable from the C06 entry points
	panicFuncs := []string{
		"Reader.parseLine", "Reader.parseBatchHeader", "Reader.parseAddenda", "Reader.parseEntryDetail", "Reader.readLine", "Reader.Read", "Reader.parseFileControl", "Reader.parseED",
		"Batch.upsertOffsets", "Batch.build", "aba8", "Batch.isTraceNumberODFI",
		"EntryDetail.SetRDFI", "EntryDetail.SetTraceNumber", "EntryDetail.CreditOrDebit",
		"EntryDetail.CheckSerialNumberField", "EntryDetail.ProcessControlField", "EntryDetail.ItemResearchNumberField", "EntryDetail.ItemResearchNumber", "EntryDetail.ProcessControl",
		"EntryDetail.SHRCardExpirationDateField", "EntryDetail.SHRDocumentReferenceNumberField", "EntryDetail.SHRIndividualCardAccountNumberField",
		"EntryDetail.POPCheckSerialNumberField", "EntryDetail.POPTerminalCityField", "EntryDetail.POPTerminalStateField",
		"EntryDetail.CATXAddendaRecordsField", "EntryDetail.CATXReceivingCompanyField", "EntryDetail.CATXReservedField",
		"EntryDetail.OriginalTraceNumberField", "EntryDetail.PaymentTypeField", "EntryDetail.ReceivingCompanyField",
		"File.FlattenBatches", "File.Reversal", "File.SegmentFile", "File.segmentFileBatches", "File.segmentFileIATBatches",
		"outFile.add", "convertToFiles", "lineCount", "MergeFiles", "trimRoutingNumberLeadingZero", "CalculateCheckDigit", "CheckRoutingNumber",
		"FileHeader.Parse", "ADVEntryDetail.Parse", "ADVFileControl.Parse", "BatchControl.Parse",
		"IATEntryDetail.SetRDFI", "ADVEntryDetail.SetRDFI",
	}
	lf.pf("def indexSites : List (String × List String) := [\n")
	for i, key := range panicFuncs {
		fd := p.funcs[key]
		var sites []string
		if fd != nil && fd.Body != nil {
			ast.Inspect(fd.Body, func(n ast.Node) bool {
				switch n := n.(type) {
				case *ast.SliceExpr:
					sites = append(sites, normRecv(p.src(n), recvIdent(fd)))
				case *ast.IndexExpr:
					sites = append(sites, normRecv(p.src(n), recvIdent(fd)))
				}
				return true
			})
		}
		sep := ","
		if i == len(panicFuncs)-1 {
			sep = ""
		}
		if fd == nil {
			lf.pf("  (%s, [\"absent\"])%s\n", leanStr(key), sep)
		} else {
			lf.pf("  (%s, %s)%s\n", leanStr(key), leanStrList(sites), sep)
		}
	}
	lf.pf("]\n\n")

	// (2) write sets: assignments through the receiver in functions that are meant to be read-only
	lf.pf("def receiverWrites : List (String × List String) := [\n")
	first := true
	for _, key := range sortedKeys(p.funcs) {
		i := strings.LastIndex(key, ".")
		if i < 0 {
			continue
		}
		name := key[i+1:]
		readOnly := strings.HasPrefix(name, "Validate") || name == "String" || strings.HasSuffix(name, "Field") || name == "MarshalJSON" ||
			strings.HasPrefix(name, "is") || strings.HasPrefix(name, "verify") || strings.HasPrefix(name, "calculate") || strings.HasSuffix(name, "Inclusion") ||
			name == "Write" || name == "writeBatch" || name == "writeIATBatch" || name == "writeADVBatch" || name == "Equal" || name == "IsADV" ||
			name == "CreditOrDebit" || name == "addendaCount" || name == "GetValidation" || name == "Flush" || name == "Error" || name == "validate"
		if !readOnly || strings.HasPrefix(name, "Set") {
			continue
		}
		fd := p.funcs[key]
		if fd.Body == nil {
			continue
		}
		recv := recvIdent(fd)
		if recv == "" {
			continue
		}
		var ws []string
		ast.Inspect(fd.Body, func(n ast.Node) bool {
			switch n := n.(type) {
			case *ast.AssignStmt:
				if n.Tok == token.DEFINE {
					return true
				}
				for _, l := range n.Lhs {
					s := p.src(l)
					if strings.HasPrefix(s, recv+".") || strings.HasPrefix(s, "*"+recv) {
						ws = append(ws, normRecv(s, recv))
					}
				}
			case *ast.IncDecStmt:
				s := p.src(n.X)
				if strings.HasPrefix(s, recv+".") {
					ws = append(ws, normRecv(s, recv))
				}
			case *ast.CallExpr:
				// mutator calls on (something reachable from) the receiver
				if se, ok := n.Fun.(*ast.SelectorExpr); ok {
					nm := se.Sel.Name
					base := p.src(se.X)
					if !strings.HasSuffix(nm, "Field") && (strings.HasPrefix(nm, "Set") || strings.HasPrefix(nm, "Add") || strings.HasPrefix(nm, "Remove") || nm == "Create" || nm == "build") &&
						(base == recv || strings.HasPrefix(base, recv+".")) {
						ws = append(ws, "call:"+normRecv(base, recv)+"."+nm)
					}
				}
			}
			return true
		})
		if len(ws) == 0 {
			continue
		}
		if !first {
			lf.pf(",\n")
		}
		first = false
		lf.pf("  (%s, %s)", leanStr(key), leanStrList(ws))
	}
	lf.pf("\n]\n\n")

	// (3) pool discipline: functions that call getBuffer()
	lf.pf("def poolUsers : List PoolUse := [\n")
	first = true
	for _, key := range sortedKeys(p.funcs) {
		fd := p.funcs[key]
		if fd.Body == nil || key == "getBuffer" || key == "saveBuffer" {
			continue
		}
		gets, defers, escapes := 0, 0, 0
		bufName := ""
		ast.Inspect(fd.Body, func(n ast.Node) bool {
			switch n := n.(type) {
			case *ast.AssignStmt:
				if len(n.Rhs) == 1 && p.src(n.Rhs[0]) == "getBuffer()" {
					gets++
					bufName = p.src(n.Lhs[0])
				}
			case *ast.DeferStmt:
				if bufName != "" && p.src(n.Call) == "saveBuffer("+bufName+")" {
					defers++
				}
			case *ast.ReturnStmt:
				for _, r := range n.Results {
					if bufName != "" && (p.src(r) == bufName || p.src(r) == bufName+".Bytes()") {
						escapes++
					}
				}
			case *ast.SendStmt:
				if bufName != "" && p.src(n.Value) == bufName {
					escapes++
				}
			case *ast.GoStmt:
				if bufName != "" && strings.Contains(p.src(n.Call), bufName) {
					escapes++
				}
			}
			return true
		})
		if gets == 0 {
			continue
		}
		if !first {
			lf.pf(",\n")
		}
		first = false
		lf.pf("  { fn := %s, gets := %d, deferSaves := %d, escapes := %d }", leanStr(key), gets, defers, escapes)
	}
	lf.pf("\n]\n")
	lf.pf("def poolHashes : List (String × Nat) := [(\"getBuffer\", %d), (\"saveBuffer\", %d)]\n\n", p.bodyHash("getBuffer"), p.bodyHash("saveBuffer"))
	p.emitGlobalWrites(lf, "lib")
	if server != nil {
		server.emitGlobalWrites(lf, "server")
	}

	// (4) I/O error handling in writer.go / reader.go: calls whose error result is dropped
	lf.pf("def ioFuncs : List IOFact := [\n")
	ioKeys := []string{"Writer.Write", "Writer.Flush", "Writer.writeBatch", "Writer.writeIATBatch", "Writer.writeLine", "Reader.Read", "Reader.readLine", "NewReader", "NewWriter"}
	for i, key := range ioKeys {
		fd := p.funcs[key]
		dropped := []string{}
		lastReturn := ""
		checksScanErr := false
		if fd != nil && fd.Body != nil {
			for _, st := range fd.Body.List {
				if rs, ok := st.(*ast.ReturnStmt); ok {
					lastReturn = normRecv(p.src(rs), recvIdent(fd))
				}
			}
			ast.Inspect(fd.Body, func(n ast.Node) bool {
				switch n := n.(type) {
				case *ast.ExprStmt: // call statement whose results are discarded
					if ce, ok := n.X.(*ast.CallExpr); ok {
						s := normRecv(p.src(ce.Fun), recvIdent(fd))
						if strings.HasSuffix(s, ".WriteString") || strings.HasSuffix(s, ".Write") || strings.HasSuffix(s, ".Flush") || strings.HasSuffix(s, ".writeBatch") || strings.HasSuffix(s, ".writeIATBatch") || strings.HasSuffix(s, ".writeADVBatch") {
							if !strings.HasPrefix(s, "buf.") && !strings.HasPrefix(s, "line.") {
								dropped = append(dropped, s)
							}
						}
					}
				case *ast.AssignStmt:
					for i, l := range n.Lhs {
						if p.src(l) == "_" && len(n.Rhs) == 1 {
							if ce, ok := n.Rhs[0].(*ast.CallExpr); ok && i == len(n.Lhs)-1 {
								s := normRecv(p.src(ce.Fun), recvIdent(fd))
								if strings.Contains(s, "Write") || strings.Contains(s, "Flush") {
									dropped = append(dropped, s)
								}
							}
						}
					}
				case *ast.CallExpr:
					if strings.HasSuffix(p.src(n.Fun), ".Err") {
						checksScanErr = true
					}
				}
				return true
			})
		}
		sep := ","
		if i == len(ioKeys)-1 {
			sep = ""
		}
		lf.pf("  { fn := %s, present := %v, droppedErrors := %s, lastReturn := %s, checksScannerErr := %v, hash := %d }%s\n",
			leanStr(key), fd != nil, leanStrList(dropped), leanStr(lastReturn), checksScanErr, p.bodyHash(key), sep)
	}
	lf.pf("]\n\n")

	// (5) body hashes of hand-modelled functions: drift signals (a changed hash makes the driver search harder; it is not an obligation by itself)
	lf.pf("def driftHashes : List (String × Nat) := [\n")
	keys := sortedKeys(p.funcs)
	for i, k := range keys {
		sep := ","
		if i == len(keys)-1 {
			sep = ""
		}
		lf.pf("  (%s, %d)%s\n", leanStr(k), p.bodyHash(k), sep)
	}
	lf.pf("]\n\ndef serverHashes : List (String × Nat) := [\n")
	keys = sortedKeys(server.funcs)
	for i, k := range keys {
		sep := ","
		if i == len(keys)-1 {
			sep = ""
		}
		lf.pf("  (%s, %d)%s\n", leanStr(k), server.bodyHash(k), sep)
	}
	lf.pf("]\n")
	lf.write(out)
}

// ---------- which addenda an entry carries, as each function sees it (C02, C09) ----------

// addendaFieldsIn lists, in source order without repeats, the struct fields named Addenda* that a function
// selects (x.Addenda02, entry.Addenda05, ...).
func (p *pkg) addendaFieldsIn(key string) []string {
	fd, ok := p.funcs[key]
	if !ok || fd.Body == nil {
		return []string{unrec("addenda fields: no function %s", key)}
	}
	var out []string
	seen := map[string]bool{}
	ast.Inspect(fd.Body, func(n ast.Node) bool {
		if se, ok := n.(*ast.SelectorExpr); ok && strings.HasPrefix(se.Sel.Name, "Addenda") && !seen[se.Sel.Name] {
			if _, isCall := se.X.(*ast.CallExpr); !isCall {
				seen[se.Sel.Name] = true
				out = append(out, se.Sel.Name)
			}
		}
		return true
	})
	return out
}

func (p *pkg) addendaStructFields(typ string) []string {
	var out []string
	if ts := p.types[typ]; ts != nil {
		if st, ok := ts.Type.(*ast.StructType); ok {
			for _, f := range st.Fields.List {
				for _, n := range f.Names {
					if strings.HasPrefix(n.Name, "Addenda") && strings.Contains(p.src(f.Type), "*Addenda") {
						out = append(out, n.Name)
					}
				}
			}
		}
	}
	return out
}

// createWrappers: the normalised body of every SEC-specific `BatchXXX.Create` (receiver renamed to r, comments and
// layout dropped): expected to be "build, then Validate" for all of them
func (p *pkg) createWrappers() [][2]string {
	var out [][2]string
	for _, t := range sortedKeys(p.types) {
		if (!strings.HasPrefix(t, "Batch") || t == "Batch") && t != "IATBatch" {
			continue
		}
		fd, ok := p.funcs[t+".Create"]
		if !ok || fd.Body == nil {
			continue
		}
		out = append(out, [2]string{t + ".Create", normRecv(p.stmtsSrc(fd.Body.List), recvIdent(fd))})
	}
	return out
}

func emitAddenda(p *pkg, out string) {
	lf := newLean("Addenda")
	lf.pf("/-- normalised bodies of the SEC-specific Create methods -/\ndef createWrappers : List (String × String) := [\n")
	cw := p.createWrappers()
	for i, w := range cw {
		sep := ","
		if i == len(cw)-1 {
			sep = ""
		}
		lf.pf("  (%s, %s)%s\n", leanStr(w[0]), leanStr(w[1]), sep)
	}
	lf.pf("]\n\n")
	lf.pf("/-- the Addenda* fields each function selects, in source order; `struct:<T>` = the addenda-record fields of T -/\n")
	lf.pf("def addendaFields : List (String × List String) := [\n")
	keys := []string{"EntryDetail.addendaCount", "Writer.writeBatch", "Writer.writeIATBatch", "IATBatch.isBatchEntryCount",
		"IATBatch.addendaFieldInclusion", "Batch.isAddendaSequence", "IATBatch.isAddendaSequence"}
	for _, k := range keys {
		lf.pf("  (%s, %s),\n", leanStr(k), leanStrList(p.addendaFieldsIn(k)))
	}
	for i, t := range []string{"EntryDetail", "IATEntryDetail", "ADVEntryDetail"} {
		sep := ","
		if i == 2 {
			sep = ""
		}
		lf.pf("  (%s, %s)%s\n", leanStr("struct:"+t), leanStrList(p.addendaStructFields(t)), sep)
	}
	lf.pf("]\n")
	lf.write(out)
}
