package main

import (
	"regexp"
	"go/ast"
	"go/token"
	"reflect"
	"sort"
	"strings"
)

// ---------- option-flag guard census (C15) ----------

type optRef struct {
	fn      string
	flag    string
	cond    string // the whole enclosing if-condition ("" if not inside a condition)
	negated bool   // the flag occurs under an odd number of `!` inside cond
	effect  string // "return-nil" | "return-err" | "may-err" | "no-err" | "expr"
}

var optFlagNames = map[string]bool{}

func (p *pkg) optFlags() []string {
	ts := p.types["ValidateOpts"]
	var res []string
	if ts == nil {
		return res
	}
	st, ok := ts.Type.(*ast.StructType)
	if !ok {
		return res
	}
	for _, f := range st.Fields.List {
		for _, n := range f.Names {
			res = append(res, n.Name)
		}
	}
	return res
}

// blockEffect classifies what an if-body can do.
func (p *pkg) blockEffect(b *ast.BlockStmt) string {
	if b == nil {
		return "none"
	}
	if len(b.List) == 1 {
		if rs, ok := b.List[0].(*ast.ReturnStmt); ok {
			if len(rs.Results) == 0 {
				return "return"
			}
			last := p.src(rs.Results[len(rs.Results)-1])
			if last == "nil" {
				return "return-nil"
			}
			if last == "true" || last == "false" {
				return "return-" + last
			}
			return "return-err"
		}
		if bs, ok := b.List[0].(*ast.BranchStmt); ok {
			return strings.ToLower(bs.Tok.String())
		}
	}
	mayErr := false
	ast.Inspect(b, func(n ast.Node) bool {
		if rs, ok := n.(*ast.ReturnStmt); ok && len(rs.Results) > 0 {
			if p.src(rs.Results[len(rs.Results)-1]) != "nil" {
				mayErr = true
			}
		}
		if ce, ok := n.(*ast.CallExpr); ok {
			s := p.src(ce.Fun)
			if strings.HasSuffix(s, ".Add") && strings.Contains(s, "rrors") {
				mayErr = true
			}
		}
		return true
	})
	if mayErr {
		return "may-err"
	}
	return "no-err"
}

func (p *pkg) optRefsIn(key string) []optRef {
	fd := p.funcs[key]
	if fd == nil || fd.Body == nil {
		return nil
	}
	var res []optRef
	// map each flag selector node to its nearest enclosing IfStmt condition
	var stack []ast.Node
	ast.Inspect(fd.Body, func(n ast.Node) bool {
		if n == nil {
			stack = stack[:len(stack)-1]
			return true
		}
		stack = append(stack, n)
		se, ok := n.(*ast.SelectorExpr)
		if !ok || !optFlagNames[se.Sel.Name] {
			return true
		}
		base := p.src(se.X)
		if !(strings.HasSuffix(base, "validateOpts") || base == "opts" || base == "vOpts" || strings.HasSuffix(base, "Opts") || strings.HasSuffix(base, "ValidateOpts")) {
			return true
		}
		r := optRef{fn: key, flag: se.Sel.Name, effect: "expr"}
		// find enclosing if whose Cond contains this node; count negations on the path inside cond
		for i := len(stack) - 1; i >= 0; i-- {
			is, ok := stack[i].(*ast.IfStmt)
			if !ok {
				continue
			}
			if i+1 < len(stack) && stack[i+1] == ast.Node(is.Cond) || containsNode(is.Cond, se) {
				r.cond = p.src(is.Cond)
				neg := 0
				for j := i + 1; j < len(stack); j++ {
					if ue, ok := stack[j].(*ast.UnaryExpr); ok && ue.Op == token.NOT {
						neg++
					}
				}
				r.negated = neg%2 == 1
				r.effect = p.blockEffect(is.Body)
				if is.Else != nil {
					r.effect += "+else"
				}
				break
			}
		}
		res = append(res, r)
		return true
	})
	return res
}

func containsNode(root ast.Node, target ast.Node) bool {
	found := false
	ast.Inspect(root, func(n ast.Node) bool {
		if n == target {
			found = true
		}
		return !found
	})
	return found
}

// ---------- call sequences (Checks) ----------

type callFact struct {
	callee string
	guard  string
}

// callsIn lists the method/function calls of a function body in source order
// whose callee name passes `keep`, each with the conjunction of enclosing if
// conditions (else branches are marked with a leading "else:").
func (p *pkg) callsIn(key string, keep func(string) bool) []callFact {
	fd := p.funcs[key]
	if fd == nil || fd.Body == nil {
		return []callFact{{callee: unrec("%s: function not found", key)}}
	}
	recv := recvIdent(fd)
	var res []callFact
	var walkStmts func(ss []ast.Stmt, guard string)
	collect := func(n ast.Node, guard string) {
		ast.Inspect(n, func(m ast.Node) bool {
			if _, ok := m.(*ast.FuncLit); ok {
				return false
			}
			if ce, ok := m.(*ast.CallExpr); ok {
				name := normRecv(p.src(ce.Fun), recv)
				if keep(name) {
					res = append(res, callFact{callee: name, guard: guard})
				}
			}
			return true
		})
	}
	walkStmts = func(ss []ast.Stmt, guard string) {
		for _, st := range ss {
			switch st := st.(type) {
			case *ast.IfStmt:
				if st.Init != nil {
					collect(st.Init, guard)
				}
				collect(st.Cond, guard)
				c := normRecv(p.src(st.Cond), recv)
				walkStmts(st.Body.List, joinCond(guard, c))
				switch e := st.Else.(type) {
				case *ast.BlockStmt:
					walkStmts(e.List, joinCond(guard, "else:"+c))
				case *ast.IfStmt:
					walkStmts([]ast.Stmt{e}, joinCond(guard, "else:"+c))
				}
			case *ast.ForStmt:
				walkStmts(st.Body.List, joinCond(guard, "for"))
			case *ast.RangeStmt:
				collect(st.X, guard)
				walkStmts(st.Body.List, joinCond(guard, "range "+normRecv(p.src(st.X), recv)))
			case *ast.BlockStmt:
				walkStmts(st.List, guard)
			case *ast.SwitchStmt:
				for _, c := range st.Body.List {
					cc := c.(*ast.CaseClause)
					walkStmts(cc.Body, joinCond(guard, "case "+p.caseText(cc)))
				}
			default:
				collect(st, guard)
			}
		}
	}
	walkStmts(fd.Body.List, "")
	return res
}

func (p *pkg) caseText(cc *ast.CaseClause) string {
	if cc.List == nil {
		return "default"
	}
	var parts []string
	for _, e := range cc.List {
		parts = append(parts, p.src(e))
	}
	return strings.Join(parts, ",")
}

func (p *pkg) bodyHash(key string) uint64 {
	fd := p.funcs[key]
	if fd == nil || fd.Body == nil {
		return 0
	}
	return fnv64(normRecv(p.stmtsSrc(fd.Body.List), recvIdent(fd)))
}

// Functions whose call sequence the validation / creation model mirrors.
var checkFuncs = []string{
	"File.ValidateWith", "File.Create", "File.createFileADV",
	"Batch.verify", "Batch.build", "Batch.upsertOffsets", "IATBatch.verify", "IATBatch.build", "IATBatch.Validate", "IATBatch.Create",
	"Reader.parseLine", "Reader.parseFileHeader", "Reader.parseBatchHeader", "Reader.parseEntryDetail", "Reader.parseAddenda",
	"Reader.parseBatchControl", "Reader.parseFileControl", "Reader.Read", "Reader.readLine", "Reader.parseED", "Reader.parseBH", "Reader.parseEDAddenda", "Reader.parseADVAddenda", "Reader.parseIATBatchHeader", "Reader.parseIATEntryDetail", "Reader.parseIATAddenda", "maybeValidate",
	"Writer.Write", "Writer.writeBatch", "Writer.writeIATBatch", "Writer.writeLine", "Writer.Flush",
	"EntryDetail.Validate", "BatchHeader.Validate", "BatchControl.Validate", "FileHeader.ValidateWith", "FileControl.Validate",
}

func isValidationCall(name string) bool {
	last := name
	if i := strings.LastIndex(name, "."); i >= 0 {
		last = name[i+1:]
	}
	switch {
	case strings.HasPrefix(last, "is"), strings.HasPrefix(last, "Validate"), strings.HasPrefix(last, "verify"),
		strings.HasPrefix(last, "Valid"), strings.HasPrefix(last, "calculate"), strings.HasPrefix(last, "Calculate"),
		strings.HasSuffix(last, "Inclusion"), last == "build", last == "Create", last == "upsertOffsets",
		strings.HasPrefix(last, "parse"), strings.HasPrefix(last, "maybeValidate"), last == "Flush", last == "WriteString", last == "Write",
		strings.HasPrefix(last, "write"), last == "Err", last == "IsADV", strings.HasPrefix(last, "Add"), strings.HasPrefix(last, "add"):
		return true
	}
	return false
}

func emitChecks(p *pkg, out string) {
	for _, f := range p.optFlags() {
		optFlagNames[f] = true
	}
	lf := newLean("Checks", "Ach.Facts")
	lf.pf("def optFlags : List String := %s\n\n", leanStrList(p.optFlags()))
	p.emitOptsMerge(lf)

	// batch types: which common checks each SEC Validate calls
	var batchTypes []string
	for k := range p.funcs {
		if strings.HasPrefix(k, "Batch") && strings.HasSuffix(k, ".Validate") && k != "Batch.Validate" && k != "BatchHeader.Validate" && k != "BatchControl.Validate" {
			batchTypes = append(batchTypes, strings.TrimSuffix(k, ".Validate"))
		}
	}
	sort.Strings(batchTypes)
	all := append([]string{}, checkFuncs...)
	for _, b := range batchTypes {
		all = append(all, b+".Validate")
	}
	lf.pf("def funcFacts : List FuncFact := [\n")
	for i, key := range all {
		calls := p.callsIn(key, isValidationCall)
		lf.pf("  { fn := %s, hash := %d, calls := [\n", leanStr(key), p.bodyHash(key))
		for j, c := range calls {
			sep := ","
			if j == len(calls)-1 {
				sep = ""
			}
			lf.pf("      (%s, %s)%s\n", leanStr(c.callee), leanStr(c.guard), sep)
		}
		sep := ","
		if i == len(all)-1 {
			sep = ""
		}
		lf.pf("    ] }%s\n", sep)
	}
	lf.pf("]\n\n")

	// guards: every reference to a ValidateOpts flag in any non-test function of the package
	var refs []optRef
	for _, key := range sortedKeys(p.funcs) {
		if key == "ValidateOpts.merge" {
			continue
		}
		refs = append(refs, p.optRefsIn(key)...)
	}
	lf.pf("def optRefs : List OptRef := [\n")
	for i, r := range refs {
		sep := ","
		if i == len(refs)-1 {
			sep = ""
		}
		lf.pf("  { fn := %s, flag := %s, negated := %v, effect := %s, cond := %s }%s\n", leanStr(r.fn), leanStr(r.flag), r.negated, leanStr(r.effect), leanStr(r.cond), sep)
	}
	lf.pf("]\n")
	lf.write(out)
}

// ---------- JSON struct schemas (C07) ----------

func emitSchemas(p *pkg, out string) {
	lf := newLean("Schemas", "Ach.Facts")
	var names []string
	for _, name := range sortedKeys(p.types) {
		ts := p.types[name]
		st, ok := ts.Type.(*ast.StructType)
		if !ok {
			continue
		}
		hasJSON := false
		for _, f := range st.Fields.List {
			if f.Tag != nil && strings.Contains(f.Tag.Value, "json:") {
				hasJSON = true
			}
		}
		if !hasJSON {
			continue
		}
		names = append(names, name)
		lf.pf("def schema_%s : Schema := { name := %s, custom := %v, fields := [\n", name, leanStr(name),
			p.funcs[name+".MarshalJSON"] != nil || p.funcs[name+".UnmarshalJSON"] != nil)
		first := true
		for _, f := range st.Fields.List {
			tag := ""
			if f.Tag != nil {
				tag = reflect.StructTag(strings.Trim(f.Tag.Value, "`")).Get("json")
			}
			typ := p.src(f.Type)
			fnames := f.Names
			if len(fnames) == 0 { // embedded
				fnames = []*ast.Ident{{Name: "embedded:" + typ}}
			}
			for _, n := range fnames {
				if !first {
					lf.pf(",\n")
				}
				first = false
				jname, omit := tag, false
				if i := strings.Index(tag, ","); i >= 0 {
					jname = tag[:i]
					omit = strings.Contains(tag[i:], "omitempty")
				}
				exported := ast.IsExported(n.Name) && !strings.HasPrefix(n.Name, "embedded:")
				lf.pf("    { go := %s, json := %s, omitempty := %v, exported := %v, typ := %s }", leanStr(n.Name), leanStr(jname), omit, exported, leanStr(typ))
			}
		}
		lf.pf("\n  ] }\n\n")
	}
	lf.pf("def schemas : List Schema := [%s]\n\n", joinPrefixed("schema_", names))

	// constructor defaults: NewX() functions returning &X{...} or setting fields
	lf.pf("def ctorDefaults : List (String × String × String) := [\n")
	first := true
	for _, key := range sortedKeys(p.funcs) {
		if !strings.HasPrefix(key, "New") || strings.Contains(key, ".") {
			continue
		}
		fd := p.funcs[key]
		typ := strings.TrimPrefix(key, "New")
		ast.Inspect(fd.Body, func(n ast.Node) bool {
			switch n := n.(type) {
			case *ast.CompositeLit:
				if p.src(n.Type) != typ {
					return true
				}
				for _, el := range n.Elts {
					if kv, ok := el.(*ast.KeyValueExpr); ok {
						if !first {
							lf.pf(",\n")
						}
						first = false
						lf.pf("  (%s, %s, %s)", leanStr(typ), leanStr(p.src(kv.Key)), leanStr(p.constText(kv.Value)))
					}
				}
			case *ast.AssignStmt:
				if len(n.Lhs) == 1 && len(n.Rhs) == 1 {
					if se, ok := n.Lhs[0].(*ast.SelectorExpr); ok {
						if _, ok := se.X.(*ast.Ident); ok {
							if !first {
								lf.pf(",\n")
							}
							first = false
							lf.pf("  (%s, %s, %s)", leanStr(typ), leanStr(se.Sel.Name), leanStr(p.constText(n.Rhs[0])))
						}
					}
				}
			}
			return true
		})
	}
	lf.pf("\n]\n")
	lf.write(out)
}

func (p *pkg) constText(e ast.Expr) string {
	if v, ok := p.evalInt(e); ok {
		return leanInt(v)
	}
	if s, ok := p.evalStr(e); ok {
		return "\"" + s + "\""
	}
	return p.src(e)
}

// ---------- repository lock discipline (C18) ----------

var lockCallRe = regexp.MustCompile(`^r\.(\w+)\.(Lock|RLock|Unlock|RUnlock)\(\)$`)

func emitLocks(p *pkg, out string) {
	lf := newLean("Locks", "Ach.Facts")
	lf.pf("def repoMethods : List LockFact := [\n")
	first := true
	for _, key := range sortedKeys(p.funcs) {
		if !strings.HasPrefix(key, "repositoryInMemory.") {
			continue
		}
		fd := p.funcs[key]
		recv := recvIdent(fd)
		firstLock, deferUnlock := "", ""
		stmtIdx, lockIdx := 0, -1
		var touches []string
		writes := false
		for i, st := range fd.Body.List {
			stmtIdx = i
			s := normRecv(p.src(st), recv)
			if m := lockCallRe.FindStringSubmatch(s); firstLock == "" && m != nil && (m[2] == "Lock" || m[2] == "RLock") {
				if _, isExpr := st.(*ast.ExprStmt); isExpr {
					firstLock = m[2]
					lockIdx = i
				}
			}
			if ds, ok := st.(*ast.DeferStmt); ok {
				d := normRecv(p.src(ds.Call), recv)
				if m := lockCallRe.FindStringSubmatch(d); m != nil && (m[2] == "Unlock" || m[2] == "RUnlock") && i == lockIdx+1 {
					deferUnlock = m[2]
				}
			}
		}
		_ = stmtIdx
		// shared state accesses: r.files reads and writes (index assign, delete) and mutations of stored files
		ast.Inspect(fd.Body, func(n ast.Node) bool {
			switch n := n.(type) {
			case *ast.AssignStmt:
				for _, l := range n.Lhs {
					if strings.HasPrefix(normRecv(p.src(l), recv), "r.files") {
						writes = true
					}
				}
			case *ast.CallExpr:
				s := normRecv(p.src(n), recv)
				if strings.HasPrefix(s, "delete(r.files") {
					writes = true
				}
				fn := p.src(n.Fun)
				if strings.HasSuffix(fn, ".AddBatch") || strings.HasSuffix(fn, ".RemoveBatch") {
					writes = true
				}
			case *ast.SelectorExpr:
				if normRecv(p.src(n), recv) == "r.files" {
					touches = append(touches, "files")
				}
			}
			return true
		})
		// any statement touching r.files before the lock?
		beforeLock := false
		for i, st := range fd.Body.List {
			if lockIdx >= 0 && i >= lockIdx {
				break
			}
			if strings.Contains(normRecv(p.src(st), recv), "r.files") {
				beforeLock = true
			}
		}
		if !first {
			lf.pf(",\n")
		}
		first = false
		lf.pf("  { method := %s, lock := %s, deferUnlock := %s, touchesShared := %v, writesShared := %v, accessBeforeLock := %v, hash := %d }",
			leanStr(strings.TrimPrefix(key, "repositoryInMemory.")), leanStr(firstLock), leanStr(deferUnlock), len(touches) > 0, writes, beforeLock || (len(touches) > 0 && lockIdx < 0), p.bodyHash(key))
	}
	lf.pf("\n]\n")
	lf.write(out)
}

// emitOptsMerge reads ValidateOpts.merge: the boolean fields of ValidateOpts, the rows `F: v.L || other.R` of the
// composite literal it returns, whether it starts with the two nil guards, and which fields the statements after the
// literal assign.
func (p *pkg) emitOptsMerge(lf *leanFile) {
	var boolFlags []string
	if ts := p.types["ValidateOpts"]; ts != nil {
		if st, ok := ts.Type.(*ast.StructType); ok {
			for _, f := range st.Fields.List {
				if p.src(f.Type) == "bool" {
					for _, n := range f.Names {
						boolFlags = append(boolFlags, n.Name)
					}
				}
			}
		}
	}
	lf.pf("def optBoolFlags : List String := %s\n\n", leanStrList(boolFlags))
	type row struct{ f, l, r string }
	var rows []row
	guards := false
	var later []string
	shape := true
	fd := p.funcs["ValidateOpts.merge"]
	if fd == nil || fd.Body == nil || fd.Recv == nil || len(fd.Recv.List) != 1 || len(fd.Recv.List[0].Names) != 1 ||
		fd.Type.Params == nil || len(fd.Type.Params.List) != 1 || len(fd.Type.Params.List[0].Names) != 1 {
		shape = false
	} else {
		rv := fd.Recv.List[0].Names[0].Name
		ov := fd.Type.Params.List[0].Names[0].Name
		body := fd.Body.List
		isGuard := func(s ast.Stmt, nilVar, retVar string) bool {
			is, ok := s.(*ast.IfStmt)
			if !ok || is.Init != nil || is.Else != nil || len(is.Body.List) != 1 {
				return false
			}
			return p.src(is.Cond) == nilVar+" == nil" && p.src(is.Body.List[0]) == "return "+retVar
		}
		if len(body) >= 2 && isGuard(body[0], rv, ov) && isGuard(body[1], ov, rv) {
			guards = true
			body = body[2:]
		}
		outVar := ""
		for i, s := range body {
			if i == 0 {
				as, ok := s.(*ast.AssignStmt)
				if !ok || len(as.Lhs) != 1 || len(as.Rhs) != 1 {
					shape = false
					break
				}
				ue, ok := as.Rhs[0].(*ast.UnaryExpr)
				if !ok || ue.Op != token.AND {
					shape = false
					break
				}
				cl, ok := ue.X.(*ast.CompositeLit)
				if !ok || p.src(cl.Type) != "ValidateOpts" {
					shape = false
					break
				}
				outVar = p.src(as.Lhs[0])
				for _, el := range cl.Elts {
					kv, ok := el.(*ast.KeyValueExpr)
					if !ok {
						shape = false
						continue
					}
					be, ok := kv.Value.(*ast.BinaryExpr)
					if !ok || be.Op != token.LOR {
						rows = append(rows, row{p.src(kv.Key), "?" + p.src(kv.Value), "?"})
						continue
					}
					l, r := p.src(be.X), p.src(be.Y)
					if strings.HasPrefix(l, rv+".") && strings.HasPrefix(r, ov+".") {
						rows = append(rows, row{p.src(kv.Key), strings.TrimPrefix(l, rv+"."), strings.TrimPrefix(r, ov+".")})
					} else {
						rows = append(rows, row{p.src(kv.Key), "?" + l, "?" + r})
					}
				}
				continue
			}
			if rs, ok := s.(*ast.ReturnStmt); ok {
				if i != len(body)-1 || len(rs.Results) != 1 || p.src(rs.Results[0]) != outVar {
					shape = false
				}
				continue
			}
			// anything else: record every `out.X = …` it contains
			ast.Inspect(s, func(n ast.Node) bool {
				switch x := n.(type) {
				case *ast.AssignStmt:
					for _, l := range x.Lhs {
						src := p.src(l)
						if strings.HasPrefix(src, outVar+".") {
							later = append(later, strings.TrimPrefix(src, outVar+"."))
						} else {
							later = append(later, "?"+src)
						}
					}
				case *ast.IncDecStmt:
					later = append(later, "?"+p.src(x.X))
				case *ast.ReturnStmt:
					later = append(later, "?return")
				}
				return true
			})
		}
		if len(body) == 0 {
			shape = false
		}
	}
	lf.pf("/-- `ValidateOpts.merge`: rows (field, receiver field, argument field) of the literal `F: v.L || other.R` -/\n")
	lf.pf("def optsMergeRows : List (String × String × String) := [\n")
	for i, r := range rows {
		sep := ","
		if i == len(rows)-1 {
			sep = ""
		}
		lf.pf("  (%s, %s, %s)%s\n", leanStr(r.f), leanStr(r.l), leanStr(r.r), sep)
	}
	lf.pf("]\n\n")
	lf.pf("def optsMergeNilGuards : Bool := %v\n", guards)
	lf.pf("def optsMergeShape : Bool := %v\n", shape)
	lf.pf("def optsMergeLaterAssigned : List String := %s\n\n", leanStrList(later))
}
