package main

import (
	"go/ast"
	"go/token"
	"strings"
)

// ---------- header copy functions (C11) ----------
//
// SegmentFile builds the headers of its outputs with createSegmentFileBatchHeader / createSegmentFileIATBatchHeader /
// File.addFileHeaderData.  For each: the assignments `dst.F = …` of the body, classified as
//   copy  : dst.F = src.G          (src the header parameter, or f.Header for addFileHeaderData)
//   param : dst.F = <a parameter>
//   cond  : assigned inside an if / else
//   other : anything else (base.ID(), time.Now()…)
// and the exported non-embedded fields of the three header structs.

type copyRow struct{ dst, kind, src string }

func (p *pkg) exportedFields(typ string) []string {
	ts := p.types[typ]
	if ts == nil {
		return nil
	}
	st, ok := ts.Type.(*ast.StructType)
	if !ok {
		return nil
	}
	var out []string
	for _, f := range st.Fields.List {
		for _, n := range f.Names {
			if ast.IsExported(n.Name) {
				out = append(out, n.Name)
			}
		}
	}
	return out
}

func (p *pkg) headerCopyRows(key, dstPrefix, srcPrefix string) []copyRow {
	fd := p.funcs[key]
	if fd == nil || fd.Body == nil {
		return nil
	}
	params := map[string]bool{}
	if fd.Type.Params != nil {
		for _, f := range fd.Type.Params.List {
			for _, n := range f.Names {
				params[n.Name] = true
			}
		}
	}
	var rows []copyRow
	var walk func(stmts []ast.Stmt, cond bool)
	walk = func(stmts []ast.Stmt, cond bool) {
		for _, s := range stmts {
			switch x := s.(type) {
			case *ast.AssignStmt:
				if x.Tok != token.ASSIGN || len(x.Lhs) != 1 || len(x.Rhs) != 1 {
					continue
				}
				l := p.src(x.Lhs[0])
				if !strings.HasPrefix(l, dstPrefix) {
					continue
				}
				dst := strings.TrimPrefix(l, dstPrefix)
				r := p.src(x.Rhs[0])
				switch {
				case cond:
					rows = append(rows, copyRow{dst, "cond", r})
				case strings.HasPrefix(r, srcPrefix) && !strings.ContainsAny(strings.TrimPrefix(r, srcPrefix), ".( "):
					rows = append(rows, copyRow{dst, "copy", strings.TrimPrefix(r, srcPrefix)})
				case params[r]:
					rows = append(rows, copyRow{dst, "param", r})
				default:
					rows = append(rows, copyRow{dst, "other", r})
				}
			case *ast.IfStmt:
				walk(x.Body.List, true)
				switch e := x.Else.(type) {
				case *ast.BlockStmt:
					walk(e.List, true)
				case *ast.IfStmt:
					walk([]ast.Stmt{e}, true)
				}
			case *ast.BlockStmt:
				walk(x.List, cond)
			}
		}
	}
	walk(fd.Body.List, false)
	return rows
}

func (p *pkg) emitHeaderCopies(lf *leanFile) {
	lf.pf("/-- exported fields of the header structs -/\n")
	lf.pf("def headerFields : List (String × List String) := [\n")
	hs := []string{"BatchHeader", "IATBatchHeader", "FileHeader"}
	for i, h := range hs {
		sep := ","
		if i == len(hs)-1 {
			sep = ""
		}
		lf.pf("  (%s, %s)%s\n", leanStr(h), leanStrList(p.exportedFields(h)), sep)
	}
	lf.pf("]\n\n")
	type fn struct{ key, dst, src string }
	fns := []fn{
		{"createSegmentFileBatchHeader", "nbh.", "bh."},
		{"createSegmentFileIATBatchHeader", "nbh.", "IATBh."},
		{"File.addFileHeaderData", "file.Header.", "f.Header."},
	}
	lf.pf("/-- (function, [(destination field, copy | param | cond | other, source)]) -/\n")
	lf.pf("def headerCopies : List (String × List (String × String × String)) := [\n")
	for i, f := range fns {
		sep := ","
		if i == len(fns)-1 {
			sep = ""
		}
		lf.pf("  (%s, [", leanStr(f.key))
		for j, r := range p.headerCopyRows(f.key, f.dst, f.src) {
			if j > 0 {
				lf.pf(", ")
			}
			lf.pf("(%s, %s, %s)", leanStr(r.dst), leanStr(r.kind), leanStr(r.src))
		}
		lf.pf("])%s\n", sep)
	}
	lf.pf("]\n\n")
}
