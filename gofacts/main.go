// gofacts re-extracts, from /repo's current Go source, the tables and shapes the
// Lean model of moov-io/ach interprets, and writes them as Lean data definitions
// under <out>/Ach/Generated/*.lean.  It is deliberately syntactic: it tolerates
// renamed locals, comments and formatting; it does not tolerate changed
// constants, case lists, offsets, widths, guards, lock calls or call order.
// Anything it does not recognise is emitted as an `unrecognised` marker so that
// the Lean obligation over that table fails instead of silently passing.
//
// usage: gofacts -repo /repo -out /verif/lean
package main

import (
	"bytes"
	"flag"
	"fmt"
	"go/ast"
	"go/constant"
	"go/parser"
	"go/printer"
	"go/token"
	"os"
	"path/filepath"
	"sort"
	"strconv"
	"strings"
)

type pkg struct {
	dir    string
	fset   *token.FileSet
	files  map[string]*ast.File     // base name -> file
	funcs  map[string]*ast.FuncDecl // "Recv.Name" or "Name"
	fnFile map[string]string
	ints   map[string]int64
	strs   map[string]string
	types  map[string]*ast.TypeSpec
}

func loadPkg(dir string) *pkg {
	p := &pkg{dir: dir, fset: token.NewFileSet(), files: map[string]*ast.File{}, funcs: map[string]*ast.FuncDecl{},
		fnFile: map[string]string{}, ints: map[string]int64{}, strs: map[string]string{}, types: map[string]*ast.TypeSpec{}}
	names, _ := filepath.Glob(filepath.Join(dir, "*.go"))
	sort.Strings(names)
	for _, n := range names {
		if strings.HasSuffix(n, "_test.go") {
			continue
		}
		src, err := os.ReadFile(n)
		if err != nil {
			fatal("read %s: %v", n, err)
		}
		// files guarded by the verif build tag are our own hooks: not facts
		if bytes.Contains(src[:min(len(src), 400)], []byte("go:build verif")) {
			continue
		}
		af, err := parser.ParseFile(p.fset, n, src, parser.ParseComments)
		if err != nil {
			fatal("parse %s: %v", n, err)
		}
		base := filepath.Base(n)
		p.files[base] = af
		for _, d := range af.Decls {
			switch d := d.(type) {
			case *ast.FuncDecl:
				key := d.Name.Name
				if d.Recv != nil && len(d.Recv.List) > 0 {
					key = recvName(d.Recv.List[0].Type) + "." + key
				}
				p.funcs[key] = d
				p.fnFile[key] = base
			case *ast.GenDecl:
				if d.Tok == token.TYPE {
					for _, s := range d.Specs {
						ts := s.(*ast.TypeSpec)
						p.types[ts.Name.Name] = ts
					}
				}
			}
		}
	}
	p.collectConsts()
	return p
}

func recvName(t ast.Expr) string {
	switch t := t.(type) {
	case *ast.StarExpr:
		return recvName(t.X)
	case *ast.Ident:
		return t.Name
	case *ast.IndexExpr:
		return recvName(t.X)
	}
	return "?"
}

func fatal(f string, a ...any) {
	fmt.Fprintf(os.Stderr, "gofacts: "+f+"\n", a...)
	os.Exit(2)
}

// collectConsts evaluates top-level const and simple var declarations whose
// values are integer or string literals (or simple arithmetic over earlier ones).
func (p *pkg) collectConsts() {
	for pass := 0; pass < 3; pass++ {
		for _, name := range sortedKeys(p.files) {
			af := p.files[name]
			for _, d := range af.Decls {
				gd, ok := d.(*ast.GenDecl)
				if !ok || (gd.Tok != token.CONST && gd.Tok != token.VAR) {
					continue
				}
				for _, s := range gd.Specs {
					vs := s.(*ast.ValueSpec)
					for i, n := range vs.Names {
						if i >= len(vs.Values) {
							continue
						}
						if v, ok := p.evalInt(vs.Values[i]); ok {
							p.ints[n.Name] = v
						} else if s, ok := p.evalStr(vs.Values[i]); ok {
							p.strs[n.Name] = s
						}
					}
				}
			}
		}
	}
}

func (p *pkg) evalInt(e ast.Expr) (int64, bool) {
	switch e := e.(type) {
	case *ast.BasicLit:
		if e.Kind == token.INT {
			v := constant.MakeFromLiteral(e.Value, token.INT, 0)
			if x, ok := constant.Int64Val(v); ok {
				return x, true
			}
		}
		if e.Kind == token.CHAR {
			v := constant.MakeFromLiteral(e.Value, token.CHAR, 0)
			if x, ok := constant.Int64Val(v); ok {
				return x, true
			}
		}
	case *ast.Ident:
		v, ok := p.ints[e.Name]
		return v, ok
	case *ast.ParenExpr:
		return p.evalInt(e.X)
	case *ast.UnaryExpr:
		if v, ok := p.evalInt(e.X); ok && e.Op == token.SUB {
			return -v, true
		}
	case *ast.BinaryExpr:
		a, ok1 := p.evalInt(e.X)
		b, ok2 := p.evalInt(e.Y)
		if ok1 && ok2 {
			switch e.Op {
			case token.ADD:
				return a + b, true
			case token.SUB:
				return a - b, true
			case token.MUL:
				return a * b, true
			}
		}
	case *ast.CallExpr: // int(x), uint(x)
		if id, ok := e.Fun.(*ast.Ident); ok && len(e.Args) == 1 && (id.Name == "int" || id.Name == "uint" || id.Name == "int64") {
			return p.evalInt(e.Args[0])
		}
	case *ast.IndexExpr: // []rune("…")[k]: the k-th rune of a string constant
		if ce, ok := e.X.(*ast.CallExpr); ok && len(ce.Args) == 1 {
			if at, ok := ce.Fun.(*ast.ArrayType); ok && at.Len == nil {
				if id, ok := at.Elt.(*ast.Ident); ok && id.Name == "rune" {
					if str, ok := p.evalStr(ce.Args[0]); ok {
						if k, ok := p.evalInt(e.Index); ok {
							rs := []rune(str)
							if k >= 0 && int(k) < len(rs) {
								return int64(rs[k]), true
							}
						}
					}
				}
			}
		}
	}
	return 0, false
}

func (p *pkg) evalStr(e ast.Expr) (string, bool) {
	switch e := e.(type) {
	case *ast.BasicLit:
		if e.Kind == token.STRING {
			s, err := strconv.Unquote(e.Value)
			return s, err == nil
		}
	case *ast.Ident:
		v, ok := p.strs[e.Name]
		return v, ok
	case *ast.ParenExpr:
		return p.evalStr(e.X)
	case *ast.CallExpr: // strings.Repeat("0", 9)
		if p.src(e.Fun) == "strings.Repeat" && len(e.Args) == 2 {
			s, ok1 := p.evalStr(e.Args[0])
			n, ok2 := p.evalInt(e.Args[1])
			if ok1 && ok2 && n >= 0 && n < 200 {
				return strings.Repeat(s, int(n)), true
			}
		}
	}
	return "", false
}

func (p *pkg) src(n ast.Node) string {
	var b bytes.Buffer
	printer.Fprint(&b, p.fset, n)
	return strings.Join(strings.Fields(b.String()), " ")
}

// stmtsSrc renders a statement list as normalised source text, comments dropped.
func (p *pkg) stmtsSrc(ss []ast.Stmt) string {
	var parts []string
	for _, s := range ss {
		parts = append(parts, p.src(s))
	}
	return strings.Join(parts, "; ")
}

func sortedKeys[V any](m map[string]V) []string {
	var ks []string
	for k := range m {
		ks = append(ks, k)
	}
	sort.Strings(ks)
	return ks
}

// ---------- Lean emission helpers ----------

func leanStr(s string) string {
	var b strings.Builder
	b.WriteByte('"')
	for _, r := range s {
		switch {
		case r == '"':
			b.WriteString("\\\"")
		case r == '\\':
			b.WriteString("\\\\")
		case r == '\n':
			b.WriteString("\\n")
		case r == '\t':
			b.WriteString("\\t")
		case r < 0x20 || r == 0x7f:
			fmt.Fprintf(&b, "\\x%02x", r)
		default:
			b.WriteRune(r)
		}
	}
	b.WriteByte('"')
	return b.String()
}

func leanInt(v int64) string {
	if v < 0 {
		return fmt.Sprintf("(%d)", v)
	}
	return fmt.Sprintf("%d", v)
}

func leanIntList(vs []int64) string {
	var parts []string
	for _, v := range vs {
		parts = append(parts, leanInt(v))
	}
	return "[" + strings.Join(parts, ", ") + "]"
}

func leanStrList(vs []string) string {
	var parts []string
	for _, v := range vs {
		parts = append(parts, leanStr(v))
	}
	return "[" + strings.Join(parts, ", ") + "]"
}

func leanIdent(s string) string {
	var b strings.Builder
	for _, r := range s {
		if r == '.' || r == '-' || r == '/' || r == '#' {
			b.WriteByte('_')
		} else {
			b.WriteRune(r)
		}
	}
	return b.String()
}

type leanFile struct {
	name string
	b    strings.Builder
}

func newLean(name string, imports ...string) *leanFile {
	lf := &leanFile{name: name}
	lf.b.WriteString("-- GENERATED by /verif/gofacts from /repo's Go source on every check.  Do not edit.\n")
	for _, im := range imports {
		fmt.Fprintf(&lf.b, "import %s\n", im)
	}
	lf.b.WriteString("set_option maxRecDepth 4096\n")
	lf.b.WriteString("namespace Ach.Gen\n\n")
	return lf
}

func (lf *leanFile) pf(f string, a ...any) { fmt.Fprintf(&lf.b, f, a...) }

func (lf *leanFile) write(outDir string) {
	lf.b.WriteString("\nend Ach.Gen\n")
	path := filepath.Join(outDir, "Ach", "Generated", lf.name+".lean")
	_ = os.MkdirAll(filepath.Dir(path), 0o755)
	old, err := os.ReadFile(path)
	if err == nil && string(old) == lf.b.String() {
		return // unchanged: keep mtime so lake does not rebuild
	}
	if err := os.WriteFile(path, []byte(lf.b.String()), 0o644); err != nil {
		fatal("write %s: %v", path, err)
	}
}

var unrecognised []string

func unrec(f string, a ...any) string {
	s := "unrecognised: " + fmt.Sprintf(f, a...)
	unrecognised = append(unrecognised, s)
	return s
}

func main() {
	repo := flag.String("repo", "/repo", "path to moov-io/ach working tree")
	out := flag.String("out", "/verif/lean", "lake project root")
	flag.Parse()

	root := loadPkg(*repo)
	server := loadPkg(filepath.Join(*repo, "server"))
	describe := loadPkg(filepath.Join(*repo, "cmd", "achcli", "describe"))
	achcli := loadPkg(filepath.Join(*repo, "cmd", "achcli"))

	emitConsts(root, *out)
	emitTables(root, *out)
	emitLayouts(root, *out)
	emitReader(root, *out)
	emitChecks(root, *out)
	emitSchemas(root, *out)
	emitLocks(server, *out)
	emitPipeline(root, *out)
	emitMask(describe, achcli, *out)
	emitSites(root, server, *out)
	emitTopics(root, *out)
	emitValidators(root, *out)
	emitAddenda(root, *out)

	// summary for the driver
	fmt.Printf("gofacts: ok unrecognised=%d\n", len(unrecognised))
	for _, u := range unrecognised {
		fmt.Printf("gofacts: unrecognised %s\n", u)
	}
}
