package main

// Body hashes of the functions each hand-written model mirrors, grouped by topic, so that a Props file can pin
// them with a cheap `decide` (the full drift table in Sites.lean is too large for that).
var topicFuncs = map[string][]string{
	"flatten": {"Flatten", "File.FlattenBatches", "canMerge", "mergeableBatcher.GetHeaderSignature", "mergeableBatcher.GetTraceNumbers",
		"mergeableBatcher.Consume", "mergeableBatcher.Copy", "mergeableBatcher.AddToFile", "mergeableIATBatch.GetHeaderSignature",
		"mergeableIATBatch.Consume", "mergeableIATBatch.Copy", "mergeableIATBatch.AddToFile"},
	"segment": {"File.SegmentFile", "File.segmentFileBatches", "File.segmentFileIATBatches", "createSegmentFileBatchHeader",
		"createSegmentFileIATBatchHeader", "File.addFileHeaderData", "segmentFileBatchAddEntry", "segmentFileBatchAddADVEntry"},
	"create": {"File.Create", "File.createFileADV", "Batch.build", "Batch.upsertOffsets", "createOffsetEntryDetail", "lastTraceNumber",
		"EntryDetail.SetTraceNumber", "IATBatch.build", "IATBatch.Create"},
	"validate": {"File.ValidateWith", "File.Validate", "File.isEntryAddendaCount", "File.isFileAmount", "File.isEntryHash", "File.calculateEntryHash",
		"File.isSequenceAscending", "Batch.verify", "Batch.isBatchEntryCount", "Batch.isBatchAmount", "Batch.calculateBatchAmounts",
		"Batch.isSequenceAscending", "Batch.isEntryHash", "Batch.calculateEntryHash", "Batch.isTraceNumberODFI",
		"Batch.ValidTranCodeForServiceClassCode", "EntryDetail.Validate", "CalculateCheckDigit", "roundUp10", "aba8", "EntryDetail.CreditOrDebit"},
	"json": {"FileFromJSON", "FileFromJSONWith", "File.MarshalJSON", "File.UnmarshalJSON", "File.setBatchesFromJSON", "readValidateOpts",
		"setEntryRecordType", "setADVEntryRecordType", "setIATEntryRecordType", "File.overwriteDateTimeFields", "Batch.MarshalJSON", "Batch.UnmarshalJSON"},
	"readwrite": {"NewReaderWithContentType", "NewReader", "NewWriterWithOpts", "NewWriter", "Reader.Read", "Reader.readLine", "Reader.parseLine",
		"Writer.Write", "Writer.writeBatch", "Writer.writeIATBatch", "Writer.writeLine", "Writer.Flush"},
	"readonly": {"File.IsADV", "FileHeader.ImmediateDestinationField", "FileHeader.ImmediateOriginField", "EntryDetail.PaymentTypeField",
		"EntryDetail.SetPaymentType"},
	"reversal": {"File.Reversal"},
	"dispatch": {"Reader.parseLine", "Reader.parseBH", "Reader.parseED", "Reader.parseEDAddenda", "Reader.parseFileHeader",
		"Reader.parseBatchHeader", "Reader.parseEntryDetail", "Reader.parseAddenda", "Reader.parseADVAddenda", "Reader.parseBatchControl",
		"Reader.parseFileControl", "Reader.parseIATBatchHeader", "Reader.parseIATEntryDetail", "Reader.parseIATAddenda",
		"Reader.switchIATAddenda", "Reader.mandatoryOptionalIATAddenda", "Reader.nocIATAddenda", "Reader.returnIATAddenda",
		"Reader.addCurrentBatch", "Reader.addIATCurrentBatch", "maybeValidate", "File.IsADV", "File.AddBatch", "File.AddIATBatch",
		"NewIATBatch", "IATBatch.AddEntry", "IATBatch.GetEntries", "Batch.AddEntry", "Batch.AddADVEntry", "Batch.GetEntries",
		"EntryDetail.AddAddenda05", "IATEntryDetail.AddAddenda17", "IATEntryDetail.AddAddenda18", "IsRefusedChangeCode",
		"IsDishonoredReturnCode", "IsContestedReturnCode"},
	"converters": {"converters.alphaField", "converters.numericField", "converters.stringField", "converters.parseNumField",
		"converters.parseStringField", "converters.parseStringFieldWithOpts", "converters.leastSignificantDigits",
		"validator.validateSimpleDate", "validator.validateSimpleTime", "validator.validateSettlementDate", "validator.isAlphanumeric",
		"trimRoutingNumberLeadingZero", "rightPadShortLine", "blankLine"},
}

func emitTopics(p *pkg, out string) {
	lf := newLean("Topics", "Ach.Facts")
	for _, topic := range sortedKeys(topicFuncs) {
		lf.pf("def hashes_%s : List (String × Nat) := [", topic)
		for i, k := range topicFuncs[topic] {
			if i > 0 {
				lf.pf(", ")
			}
			lf.pf("(%s, %d)", leanStr(k), p.bodyHash(k))
		}
		lf.pf("]\n\n")
	}
	p.emitHeaderCopies(lf)
	lf.write(out)
}
