package main

import (
	"go/ast"
	"go/token"
	"sort"
	"strings"
)

// ---------- writes to package-level variables (C19) ----------
//
// For every package-level variable of the package (non-test files) the functions, other than `init`, that contain
//   an assignment / inc-dec whose left-hand side is rooted in it (v = …, v[k] = …, v.f = …, *v = …),
//   delete(v, …) or clear(v),
//   &v (its address taken),
//   for a variable of map or slice type (declared or initialised as one): the bare variable passed to a call other
//   than len / cap (the callee could write through it).
// Method calls on the variable (sync.Pool.Get/Put, sync.Once.Do, a logger) are listed apart as `globalMethodCalls`.
// A name shadowed by a parameter or local is not the global: the parser's object resolution tells them apart.

type gWrite struct{ v, fn, kind string }

func (p *pkg) globalVars() (names map[string]*ast.ValueSpec, refKind map[string]string) {
	names = map[string]*ast.ValueSpec{}
	refKind = map[string]string{}
	for _, fname := range sortedKeys(p.files) {
		for _, d := range p.files[fname].Decls {
			gd, ok := d.(*ast.GenDecl)
			if !ok || gd.Tok != token.VAR {
				continue
			}
			for _, s := range gd.Specs {
				vs := s.(*ast.ValueSpec)
				for i, n := range vs.Names {
					if n.Name == "_" {
						continue
					}
					names[n.Name] = vs
					kind := ""
					classify := func(e ast.Expr) string {
						switch t := e.(type) {
						case *ast.MapType:
							return "map"
						case *ast.ArrayType:
							if t.Len == nil {
								return "slice"
							}
						case *ast.StarExpr:
							return "pointer"
						}
						return ""
					}
					if vs.Type != nil {
						kind = classify(vs.Type)
					}
					if kind == "" && i < len(vs.Values) {
						switch v := vs.Values[i].(type) {
						case *ast.CompositeLit:
							kind = classify(v.Type)
						case *ast.CallExpr:
							if id, ok := v.Fun.(*ast.Ident); ok && id.Name == "make" && len(v.Args) > 0 {
								kind = classify(v.Args[0])
							}
						case *ast.UnaryExpr:
							if v.Op == token.AND {
								kind = "pointer"
							}
						}
					}
					refKind[n.Name] = kind
				}
			}
		}
	}
	return
}

func (p *pkg) globalWrites() (writes []gWrite, methodCalls []gWrite) {
	globals, refKind := p.globalVars()
	isGlobal := func(id *ast.Ident) bool {
		vs, ok := globals[id.Name]
		if !ok {
			return false
		}
		if id.Obj == nil {
			return true // unresolved in this file: declared in another file of the package
		}
		d, ok := id.Obj.Decl.(*ast.ValueSpec)
		return ok && d == vs
	}
	var root func(e ast.Expr) *ast.Ident
	root = func(e ast.Expr) *ast.Ident {
		switch x := e.(type) {
		case *ast.Ident:
			return x
		case *ast.IndexExpr:
			return root(x.X)
		case *ast.SelectorExpr:
			return root(x.X)
		case *ast.StarExpr:
			return root(x.X)
		case *ast.ParenExpr:
			return root(x.X)
		case *ast.SliceExpr:
			return root(x.X)
		}
		return nil
	}
	for _, key := range sortedKeys(p.funcs) {
		fd := p.funcs[key]
		if fd.Body == nil || (fd.Recv == nil && fd.Name.Name == "init") {
			continue
		}
		add := func(id *ast.Ident, kind string) {
			if id != nil && isGlobal(id) {
				writes = append(writes, gWrite{id.Name, key, kind})
			}
		}
		ast.Inspect(fd.Body, func(n ast.Node) bool {
			switch x := n.(type) {
			case *ast.AssignStmt:
				for _, l := range x.Lhs {
					if x.Tok == token.DEFINE {
						if _, plain := l.(*ast.Ident); plain {
							continue // a new local (or a redeclared local)
						}
					}
					add(root(l), "assign")
				}
			case *ast.IncDecStmt:
				add(root(x.X), "assign")
			case *ast.RangeStmt:
				if x.Tok == token.ASSIGN {
					if x.Key != nil {
						add(root(x.Key), "assign")
					}
					if x.Value != nil {
						add(root(x.Value), "assign")
					}
				}
			case *ast.UnaryExpr:
				if x.Op == token.AND {
					add(root(x.X), "address")
				}
			case *ast.CallExpr:
				if id, ok := x.Fun.(*ast.Ident); ok && (id.Name == "delete" || id.Name == "clear") && id.Obj == nil && len(x.Args) > 0 {
					add(root(x.Args[0]), id.Name)
					return true
				}
				if sel, ok := x.Fun.(*ast.SelectorExpr); ok {
					if id, ok := sel.X.(*ast.Ident); ok && isGlobal(id) {
						methodCalls = append(methodCalls, gWrite{id.Name, key, sel.Sel.Name})
					}
				}
				if id, ok := x.Fun.(*ast.Ident); ok && (id.Name == "len" || id.Name == "cap") && id.Obj == nil {
					return true
				}
				for _, a := range x.Args {
					if id, ok := a.(*ast.Ident); ok && isGlobal(id) && (refKind[id.Name] == "map" || refKind[id.Name] == "slice" || refKind[id.Name] == "pointer") {
						writes = append(writes, gWrite{id.Name, key, "passed"})
					}
				}
			}
			return true
		})
	}
	dedup := func(ws []gWrite) []gWrite {
		seen := map[gWrite]bool{}
		var out []gWrite
		for _, w := range ws {
			if !seen[w] {
				seen[w] = true
				out = append(out, w)
			}
		}
		sort.Slice(out, func(i, j int) bool {
			a, b := out[i], out[j]
			if a.v != b.v {
				return a.v < b.v
			}
			if a.fn != b.fn {
				return a.fn < b.fn
			}
			return a.kind < b.kind
		})
		return out
	}
	return dedup(writes), dedup(methodCalls)
}

func (p *pkg) emitGlobalWrites(lf *leanFile, prefix string) {
	globals, refKind := p.globalVars()
	var names []string
	for n := range globals {
		names = append(names, n)
	}
	sort.Strings(names)
	lf.pf("/-- package-level variables (name, \"map\" | \"slice\" | \"pointer\" | \"\") -/\n")
	lf.pf("def %sGlobalVars : List (String × String) := [", prefix)
	for i, n := range names {
		if i > 0 {
			lf.pf(", ")
		}
		lf.pf("(%s, %s)", leanStr(n), leanStr(refKind[n]))
	}
	lf.pf("]\n\n")
	ws, ms := p.globalWrites()
	emit := func(name, doc string, xs []gWrite) {
		lf.pf("/-- %s -/\n", doc)
		lf.pf("def %s : List (String × String × String) := [", name)
		for i, w := range xs {
			if i > 0 {
				lf.pf(",")
			}
			lf.pf("\n  (%s, %s, %s)", leanStr(w.v), leanStr(w.fn), leanStr(w.kind))
		}
		lf.pf("]\n\n")
	}
	emit(prefix+"GlobalWrites", "(variable, function other than init, how) for every write to a package-level variable", ws)
	emit(prefix+"GlobalMethodCalls", "(variable, function, method) for every method call on a package-level variable", ms)
	_ = strings.TrimSpace
}
