module verif/gofacts

go 1.23.0
