package main

import (
	"go/ast"
	"go/token"
	"sort"
	"strings"
)

// ---------------- Consts ----------------

func emitConsts(p *pkg, out string) {
	lf := newLean("Consts")
	lf.pf("/-- every top-level integer constant of package ach whose value is a literal -/\n")
	lf.pf("def constInts : List (String × Int) := [\n")
	ks := sortedKeys(p.ints)
	for i, k := range ks {
		sep := ","
		if i == len(ks)-1 {
			sep = ""
		}
		lf.pf("  (%s, %s)%s\n", leanStr(k), leanInt(p.ints[k]), sep)
	}
	lf.pf("]\n\nnamespace K\n")
	for _, k := range ks {
		lf.pf("def %s : Int := %s\n", leanConstName(k), leanInt(p.ints[k]))
	}
	lf.pf("end K\n\nnamespace S\n")
	for _, k := range sortedKeys(p.strs) {
		v := p.strs[k]
		if len(v) > 60 || strings.ContainsAny(v, "\n") {
			continue
		}
		lf.pf("def %s : String := %s\n", leanConstName(k), leanStr(v))
	}
	lf.pf("end S\n")
	lf.write(out)
}

var leanKeywords = map[string]bool{"end": true, "from": true, "at": true, "in": true, "do": true, "then": true, "else": true, "if": true, "fun": true, "have": true, "show": true, "with": true, "open": true, "local": true, "class": true, "instance": true, "structure": true, "def": true, "theorem": true, "section": true, "namespace": true, "import": true, "where": true, "let": true, "match": true, "Type": true, "Prop": true, "Sort": true}

func leanConstName(k string) string {
	if leanKeywords[k] {
		return "«" + k + "»"
	}
	return k
}

// ---------------- Switch / if-equality tables ----------------

type clause struct {
	ivals  []int64
	svals  []string
	effect string
}

type swFact struct {
	fn      string
	tag     string
	clauses []clause
	dflt    string
	hasDflt bool
}

// switchesIn returns every expression switch in the body of fn, in source order.
func (p *pkg) switchesIn(key string) []swFact {
	fd := p.funcs[key]
	if fd == nil || fd.Body == nil {
		return []swFact{{fn: key, tag: unrec("%s: function not found", key)}}
	}
	var res []swFact
	ast.Inspect(fd.Body, func(n ast.Node) bool {
		ss, ok := n.(*ast.SwitchStmt)
		if !ok {
			return true
		}
		f := swFact{fn: key}
		if ss.Tag != nil {
			f.tag = p.src(ss.Tag)
		}
		if ss.Init != nil {
			f.tag = unrec("%s: switch with init statement", key)
		}
		for _, st := range ss.Body.List {
			cc := st.(*ast.CaseClause)
			if cc.List == nil {
				f.hasDflt = true
				f.dflt = p.stmtsSrc(cc.Body)
				continue
			}
			c := clause{effect: p.stmtsSrc(cc.Body)}
			for _, e := range cc.List {
				if v, ok := p.evalInt(e); ok {
					c.ivals = append(c.ivals, v)
				} else if s, ok := p.evalStr(e); ok {
					c.svals = append(c.svals, s)
				} else {
					c.svals = append(c.svals, "expr:"+p.src(e))
				}
			}
			f.clauses = append(f.clauses, c)
		}
		res = append(res, f)
		return true
	})
	return res
}

// ifEqIn returns, for every `if` in fn whose condition is a chain of
// `x == C || x == C' ...` over one expression x, the constants and the body.
func (p *pkg) ifEqIn(key string) []swFact {
	fd := p.funcs[key]
	if fd == nil || fd.Body == nil {
		return []swFact{{fn: key, tag: unrec("%s: function not found", key)}}
	}
	var res []swFact
	ast.Inspect(fd.Body, func(n ast.Node) bool {
		is, ok := n.(*ast.IfStmt)
		if !ok {
			return true
		}
		var lhs string
		var c clause
		good := true
		var walk func(e ast.Expr)
		walk = func(e ast.Expr) {
			switch e := e.(type) {
			case *ast.ParenExpr:
				walk(e.X)
			case *ast.BinaryExpr:
				if e.Op == token.LOR {
					walk(e.X)
					walk(e.Y)
					return
				}
				if e.Op == token.EQL {
					l := p.src(e.X)
					if lhs == "" {
						lhs = l
					}
					if l != lhs {
						good = false
						return
					}
					if v, ok := p.evalInt(e.Y); ok {
						c.ivals = append(c.ivals, v)
					} else if s, ok := p.evalStr(e.Y); ok {
						c.svals = append(c.svals, s)
					} else {
						good = false
					}
					return
				}
				good = false
			default:
				good = false
			}
		}
		walk(is.Cond)
		if good && is.Init == nil && (len(c.ivals)+len(c.svals)) > 0 {
			c.effect = p.stmtsSrc(is.Body.List)
			res = append(res, swFact{fn: key, tag: lhs, clauses: []clause{c}})
		}
		return true
	})
	return res
}

func emitSwitchList(lf *leanFile, name string, doc string, fs []swFact) {
	lf.pf("/-- %s -/\ndef %s : List Switch := [\n", doc, name)
	for i, f := range fs {
		lf.pf("  { fn := %s, tag := %s, dflt := %s, hasDflt := %v, clauses := [\n", leanStr(f.fn), leanStr(f.tag), leanStr(f.dflt), f.hasDflt)
		for j, c := range f.clauses {
			sep := ","
			if j == len(f.clauses)-1 {
				sep = ""
			}
			lf.pf("      { ivals := %s, svals := %s, effect := %s }%s\n", leanIntList(c.ivals), leanStrList(c.svals), leanStr(c.effect), sep)
		}
		sep := ","
		if i == len(fs)-1 {
			sep = ""
		}
		lf.pf("    ] }%s\n", sep)
	}
	lf.pf("]\n\n")
}

// tableFuncs lists, per generated definition, the Go function whose switch /
// if-equality shape is extracted.
var tableFuncs = []struct{ lean, fn, kind string }{
	{"sw_Reversal", "File.Reversal", "switch"},
	{"sw_calculateBatchAmounts", "Batch.calculateBatchAmounts", "switch"},
	{"sw_iatCalculateBatchAmounts", "IATBatch.calculateBatchAmounts", "switch"},
	{"if_calculateADVBatchAmounts", "Batch.calculateADVBatchAmounts", "ifeq"},
	{"sw_segmentFileBatchAddEntry", "segmentFileBatchAddEntry", "switch"},
	{"sw_segmentFileBatchAddADVEntry", "segmentFileBatchAddADVEntry", "switch"},
	{"sw_segmentFileIATBatches", "File.segmentFileIATBatches", "switch"},
	{"sw_StandardTransactionCode", "StandardTransactionCode", "switch"},
	{"sw_isPrenote", "validator.isPrenote", "switch"},
	{"sw_CreditOrDebit", "EntryDetail.CreditOrDebit", "switch"},
	{"sw_isServiceClass", "validator.isServiceClass", "switch"},
	{"sw_isSECCode", "validator.isSECCode", "switch"},
	{"sw_NewBatch", "NewBatch", "switch"},
	{"sw_ValidTranCodeForServiceClassCode", "Batch.ValidTranCodeForServiceClassCode", "switch"},
	{"sw_isTypeCode", "validator.isTypeCode", "switch"},
	{"sw_isOriginatorStatusCode", "validator.isOriginatorStatusCode", "switch"},
	{"sw_IsRefusedChangeCode", "IsRefusedChangeCode", "switch"},
	{"sw_IsDishonoredReturnCode", "IsDishonoredReturnCode", "switch"},
	{"sw_IsContestedReturnCode", "IsContestedReturnCode", "switch"},
	{"sw_parseLine", "Reader.parseLine", "switch"},
	{"sw_parseAddenda", "Reader.parseAddenda", "switch"},
	{"sw_switchIATAddenda", "Reader.switchIATAddenda", "switch"},
	{"sw_mandatoryOptionalIATAddenda", "Reader.mandatoryOptionalIATAddenda", "switch"},
}

func emitTables(p *pkg, out string) {
	lf := newLean("Tables", "Ach.Facts")
	for _, tf := range tableFuncs {
		var fs []swFact
		if tf.kind == "switch" {
			fs = p.switchesIn(tf.fn)
		} else {
			fs = p.ifEqIn(tf.fn)
		}
		emitSwitchList(lf, tf.lean, "from `"+tf.fn+"` ("+p.fnFile[tf.fn]+")", fs)
	}
	lf.write(out)
}

var _ = sort.Strings
