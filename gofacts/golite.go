package main

// GoLite: a translator from the loop-free, first-error-wins validator functions of /repo (the `Validate`,
// `fieldInclusion`, ... methods of the record types, and the small helper functions of validators.go they call)
// into terms of the deep embedding `Ach.GoLite.Prog` (lean/Ach/Model/GoLite.lean).  The Lean side *interprets*
// these terms, so the record-level validation model is regenerated from the source on every run; the theorems
// (monotonicity in the relaxation flags, "accepted implies ..." facts) are re-checked against what the code says
// now.  Anything the translator does not understand becomes `Prog.unknown` / `Expr.unknown`, which the Lean
// obligation `validators_translated` rejects.
//
// The translation is syntactic (go/ast, no type checker).  Conventions:
//   recv.F                       -> .fld "F"            (F a field of the receiver's struct)
//   local / parameter            -> .var "x"
//   named constants              -> their current value (.int / .str)
//   X == nil || !X.F, !X.F ...   -> .not (.flag src "F")   where X = recv.validateOpts (src "recv") or a *ValidateOpts
//   X != nil && X.F, X.F         -> .flag src "F"          parameter (src "param"); nil options = no flag set
//   fieldError("T", ...)         -> .mkErr "T"          (a non-nil error whose FieldName is T)
//   if err := recv.m(); err != nil { return err | return fieldError("T", err, ..) }  with m translatable
//                                -> .check (none | some "T") <program of m>
//   if err := f(args); err != nil {...}   otherwise   -> scoped .bind + .ite
//   return err  inside `if ...; err != nil`           -> .ret (.nonNil (.var "err"))
//   one-line accessor methods (return recv.conv(recv.F, n)) are inlined as expressions
//   switch tag { case a, b: ... }                      -> chain of .ite (.or (.eq tag a) (.eq tag b))

import (
	"fmt"
	"go/ast"
	"go/token"
	"sort"
	"strings"
)

type glCtx struct {
	p       *pkg
	recv    string          // receiver identifier in the function being translated
	rtype   string          // receiver struct type
	optsPar map[string]bool // parameters / locals that hold a *ValidateOpts
	depth   int
	errGuard string // name of the error variable known non-nil in the current block ("" if none)
	used    map[string]bool // programs referenced
	q       *glQueue
	pre     []string // hoisted helper calls (.sub statements) waiting to be emitted before the current statement
	tmp     *int
}

type glQueue struct {
	order []string
	done  map[string]string // key -> lean term
	busy  map[string]bool
}

func (p *pkg) structFieldType(rtype, field string) (string, bool) {
	ts := p.types[rtype]
	if ts == nil {
		return "", false
	}
	st, ok := ts.Type.(*ast.StructType)
	if !ok {
		return "", false
	}
	for _, f := range st.Fields.List {
		for _, n := range f.Names {
			if n.Name == field {
				return p.src(f.Type), true
			}
		}
	}
	return "", false
}

func glName(key string) string { return "v_" + leanIdent(key) }

// method lookup through the embedded helper structs (validator, converters)
func (p *pkg) findMethod(rtype, name string) (string, *ast.FuncDecl) {
	for _, t := range []string{rtype, "validator", "converters"} {
		if fd, ok := p.funcs[t+"."+name]; ok {
			return t + "." + name, fd
		}
	}
	return "", nil
}

func (c *glCtx) unknownE(n ast.Node) string {
	return fmt.Sprintf("(.unknown %s)", leanStr(unrec("golite expr in %s: %s", c.rtype, c.p.src(n))))
}

func (c *glCtx) isOptsExpr(e ast.Expr) (string, bool) {
	switch e := e.(type) {
	case *ast.SelectorExpr:
		if id, ok := e.X.(*ast.Ident); ok && id.Name == c.recv && e.Sel.Name == "validateOpts" {
			return "recv", true
		}
	case *ast.Ident:
		if c.optsPar[e.Name] {
			return "param", true
		}
	}
	return "", false
}

// flagRef: X.F with X an options expression
func (c *glCtx) flagRef(e ast.Expr) (src, flag string, ok bool) {
	se, ok2 := e.(*ast.SelectorExpr)
	if !ok2 {
		return "", "", false
	}
	s, ok3 := c.isOptsExpr(se.X)
	if !ok3 {
		return "", "", false
	}
	return s, se.Sel.Name, true
}

func isNilIdent(e ast.Expr) bool {
	id, ok := e.(*ast.Ident)
	return ok && id.Name == "nil"
}

// optsPattern recognises the nil-safe flag tests; returns a Lean Expr term.
func (c *glCtx) optsPattern(e ast.Expr) (string, bool) {
	switch e := e.(type) {
	case *ast.ParenExpr:
		return c.optsPattern(e.X)
	case *ast.UnaryExpr:
		if e.Op == token.NOT {
			if s, f, ok := c.flagRef(e.X); ok {
				return fmt.Sprintf("(.not (.flag %s %s))", leanStr(s), leanStr(f)), true
			}
		}
	case *ast.SelectorExpr:
		if s, f, ok := c.flagRef(e); ok {
			return fmt.Sprintf("(.flag %s %s)", leanStr(s), leanStr(f)), true
		}
	case *ast.BinaryExpr:
		// X.F != nil / X.F == nil   (function-valued option)
		if (e.Op == token.NEQ || e.Op == token.EQL) && isNilIdent(e.Y) {
			if s, f, ok := c.flagRef(e.X); ok {
				t := fmt.Sprintf("(.flag %s %s)", leanStr(s), leanStr(f))
				if e.Op == token.EQL {
					t = "(.not " + t + ")"
				}
				return t, true
			}
		}
		// X == nil || <neg flag test on X>      X != nil && <pos flag test on X>
		if be, ok := e.X.(*ast.BinaryExpr); ok && isNilIdent(be.Y) {
			if s, ok := c.isOptsExpr(be.X); ok {
				if e.Op == token.LOR && be.Op == token.EQL {
					if t, ok := c.optsPattern(e.Y); ok && strings.HasPrefix(t, "(.not (.flag "+leanStr(s)) {
						return t, true
					}
				}
				if e.Op == token.LAND && be.Op == token.NEQ {
					if t, ok := c.optsPattern(e.Y); ok && strings.HasPrefix(t, "(.flag "+leanStr(s)) {
						return t, true
					}
				}
			}
		}
	}
	return "", false
}

var glBinOps = map[token.Token]string{
	token.LAND: "and", token.LOR: "or", token.EQL: "eq", token.NEQ: "ne", token.LSS: "lt", token.LEQ: "le",
	token.GTR: "gt", token.GEQ: "ge", token.ADD: "add", token.SUB: "sub", token.MUL: "mul", token.REM: "mod", token.QUO: "div",
}

func (c *glCtx) call(name string, args []ast.Expr, at ast.Node) string {
	if len(args) > 3 {
		return c.unknownE(at)
	}
	var as []string
	for _, a := range args {
		as = append(as, c.expr(a))
	}
	return fmt.Sprintf("(.call%d %s%s)", len(args), leanStr(name), strings.Join(append([]string{""}, as...), " "))
}

// accessor: a method whose body is a single `return <expr>` (optionally preceded by nothing), no parameters
func (c *glCtx) inlineAccessor(key string, fd *ast.FuncDecl) (string, bool) {
	if fd.Body == nil || len(fd.Body.List) != 1 || c.depth > 4 {
		return "", false
	}
	if fd.Type.Params != nil && len(fd.Type.Params.List) > 0 {
		return "", false
	}
	rs, ok := fd.Body.List[0].(*ast.ReturnStmt)
	if !ok || len(rs.Results) != 1 {
		return "", false
	}
	sub := &glCtx{p: c.p, recv: recvIdent(fd), rtype: strings.SplitN(key, ".", 2)[0], optsPar: map[string]bool{}, depth: c.depth + 1, used: c.used, q: c.q}
	defer func() { c.pre = append(c.pre, sub.pre...) }()
	sub.tmp = c.tmp
	if sub.rtype == "validator" || sub.rtype == "converters" {
		sub.rtype = c.rtype
	}
	return sub.expr(rs.Results[0]), true
}

func (c *glCtx) expr(e ast.Expr) string {
	if t, ok := c.optsPattern(e); ok {
		return t
	}
	switch e := e.(type) {
	case *ast.ParenExpr:
		return c.expr(e.X)
	case *ast.BasicLit:
		if v, ok := c.p.evalInt(e); ok {
			return fmt.Sprintf("(.int %s)", leanInt(v))
		}
		if s, ok := c.p.evalStr(e); ok {
			return fmt.Sprintf("(.str %s)", leanStr(s))
		}
	case *ast.Ident:
		switch e.Name {
		case "nil":
			return ".nil"
		case "true":
			return "(.bool true)"
		case "false":
			return "(.bool false)"
		}
		if e.Obj != nil {
			switch e.Obj.Decl.(type) {
			case *ast.AssignStmt, *ast.Field:
				return fmt.Sprintf("(.var %s)", leanStr(e.Name))
			}
		}
		if v, ok := c.p.ints[e.Name]; ok {
			return fmt.Sprintf("(.int %s)", leanInt(v))
		}
		if s, ok := c.p.strs[e.Name]; ok {
			return fmt.Sprintf("(.str %s)", leanStr(s))
		}
		if e.Obj != nil && e.Obj.Kind == ast.Var {
			return fmt.Sprintf("(.var %s)", leanStr(e.Name))
		}
		if c.p.errVars()[e.Name] {
			return "(.mkErr \"\")"
		}
		return fmt.Sprintf("(.glob %s)", leanStr(e.Name))
	case *ast.UnaryExpr:
		switch e.Op {
		case token.NOT:
			return "(.not " + c.expr(e.X) + ")"
		case token.SUB:
			return "(.sub (.int 0) " + c.expr(e.X) + ")"
		}
	case *ast.BinaryExpr:
		// `recv == nil`: the receiver is never nil in the runs the model speaks about
		if id, ok := e.X.(*ast.Ident); ok && id.Name == c.recv && c.recv != "" && isNilIdent(e.Y) {
			if e.Op == token.EQL {
				return "(.bool false)"
			}
			if e.Op == token.NEQ {
				return "(.bool true)"
			}
		}
		if op, ok := glBinOps[e.Op]; ok {
			return fmt.Sprintf("(.%s %s %s)", op, c.expr(e.X), c.expr(e.Y))
		}
	case *ast.SelectorExpr:
		if id, ok := e.X.(*ast.Ident); ok && id.Name == c.recv {
			if _, ok := c.p.structFieldType(c.rtype, e.Sel.Name); ok {
				return fmt.Sprintf("(.fld %s)", leanStr(e.Sel.Name))
			}
		}
	case *ast.CallExpr:
		switch f := e.Fun.(type) {
		case *ast.Ident:
			switch f.Name {
			case "fieldError":
				if len(e.Args) >= 2 {
					if s, ok := c.p.evalStr(e.Args[0]); ok {
						// fieldError(tag, err, ...) keeps err when it already is a *FieldError
						if id, ok := e.Args[1].(*ast.Ident); ok && id.Obj != nil {
							switch id.Obj.Decl.(type) {
							case *ast.AssignStmt, *ast.Field:
								if id.Name == c.errGuard {
									return fmt.Sprintf("(.wrapErr %s (.nonNil (.var %s)))", leanStr(s), leanStr(id.Name))
								}
								return fmt.Sprintf("(.wrapErr %s (.var %s))", leanStr(s), leanStr(id.Name))
							}
						}
						return fmt.Sprintf("(.mkErr %s)", leanStr(s))
					}
				}
			case "int", "int32", "int64", "uint", "rune", "string":
				if len(e.Args) == 1 && f.Name != "string" {
					return c.expr(e.Args[0])
				}
			}
			if t, ok := c.helperCall(f.Name, e.Args); ok {
				return t
			}
			return c.call(f.Name, e.Args, e)
		case *ast.SelectorExpr:
			if id, ok := f.X.(*ast.Ident); ok {
				if id.Name == c.recv {
					key, fd := c.p.findMethod(c.rtype, f.Sel.Name)
					if fd != nil && len(e.Args) == 0 {
						if t, ok := c.inlineAccessor(key, fd); ok {
							return t
						}
					}
					if key != "" {
						if t, ok := c.helperCall(key, e.Args); ok {
							return t
						}
					}
					return c.call(f.Sel.Name, e.Args, e)
				}
				if id.Obj == nil { // package-qualified: strconv.Atoi, utf8.RuneCountInString, strings.X
					return c.call(id.Name+"."+f.Sel.Name, e.Args, e)
				}
			}
			// X.validateOpts.CheckTransactionCode(arg)
			if s, fl, ok := c.flagRef(f); ok {
				return c.call("opt."+s+"."+fl, e.Args, e)
			}
		}
	case *ast.SliceExpr:
		if e.Slice3 || e.Low == nil && e.High == nil {
			break
		}
		lo, hi := "(.int 0)", ""
		if e.Low != nil {
			lo = c.expr(e.Low)
		}
		if e.High != nil {
			hi = c.expr(e.High)
			return fmt.Sprintf("(.call3 \"slice\" %s %s %s)", c.expr(e.X), lo, hi)
		}
		return fmt.Sprintf("(.call2 \"sliceFrom\" %s %s)", c.expr(e.X), lo)
	case *ast.IndexExpr:
		if id, ok := e.X.(*ast.Ident); ok {
			local := false
			if id.Obj != nil {
				switch id.Obj.Decl.(type) {
				case *ast.AssignStmt, *ast.Field:
					local = true
				}
			}
			if !local {
				if _, ok := c.p.dictKeys(id.Name); ok {
					return fmt.Sprintf("(.call1 %s %s)", leanStr("dict."+id.Name), c.expr(e.Index))
				}
			}
		}
		return fmt.Sprintf("(.call2 \"index\" %s %s)", c.expr(e.X), c.expr(e.Index))
	}
	return c.unknownE(e)
}

func (c *glCtx) unknownS(n ast.Node) string {
	return fmt.Sprintf("(.unknown %s)", leanStr(unrec("golite stmt in %s: %s", c.rtype, c.p.src(n))))
}

func seqs(parts []string) string {
	if len(parts) == 0 {
		return ".skip"
	}
	if len(parts) == 1 {
		return parts[0]
	}
	return "(seqs [" + strings.Join(parts, ",\n    ") + "])"
}

func (c *glCtx) block(ss []ast.Stmt) string {
	var parts []string
	for _, s := range ss {
		parts = append(parts, c.stmt(s))
	}
	return seqs(parts)
}

// isErrNeNil: cond is `<name> != nil`
func isErrNeNil(e ast.Expr) (string, bool) {
	be, ok := e.(*ast.BinaryExpr)
	if !ok || be.Op != token.NEQ || !isNilIdent(be.Y) {
		return "", false
	}
	id, ok := be.X.(*ast.Ident)
	if !ok {
		return "", false
	}
	return id.Name, true
}

// validatorProgram: the callee is a parameterless receiver method returning error that we translate as a program
func (c *glCtx) validatorProgram(call *ast.CallExpr) (string, bool) {
	se, ok := call.Fun.(*ast.SelectorExpr)
	if !ok || len(call.Args) != 0 {
		return "", false
	}
	id, ok := se.X.(*ast.Ident)
	if !ok || id.Name != c.recv {
		return "", false
	}
	fd, ok := c.p.funcs[c.rtype+"."+se.Sel.Name]
	if !ok || fd.Type.Results == nil || len(fd.Type.Results.List) != 1 || c.p.src(fd.Type.Results.List[0].Type) != "error" {
		return "", false
	}
	if fd.Type.Params != nil && len(fd.Type.Params.List) > 0 {
		return "", false
	}
	key := c.rtype + "." + se.Sel.Name
	c.q.translate(c.p, key)
	return glName(key), true
}

func (c *glCtx) ifStmt(s *ast.IfStmt) string {
	// pattern: if err := recv.m(); err != nil { return err | return fieldError("T", err, ...) }
	if as, ok := s.Init.(*ast.AssignStmt); ok && as.Tok == token.DEFINE && len(as.Lhs) == 1 && len(as.Rhs) == 1 && s.Else == nil {
		if ev, ok := isErrNeNil(s.Cond); ok && c.p.src(as.Lhs[0]) == ev && len(s.Body.List) == 1 {
			if rs, ok := s.Body.List[0].(*ast.ReturnStmt); ok && len(rs.Results) == 1 {
				if ce, ok := as.Rhs[0].(*ast.CallExpr); ok {
					if prog, ok := c.validatorProgram(ce); ok {
						if id, ok := rs.Results[0].(*ast.Ident); ok && id.Name == ev {
							return fmt.Sprintf("(.check none %s)", prog)
						}
						if fe, ok := rs.Results[0].(*ast.CallExpr); ok && c.p.src(fe.Fun) == "fieldError" && len(fe.Args) >= 2 {
							if tag, ok := c.p.evalStr(fe.Args[0]); ok && c.p.src(fe.Args[1]) == ev {
								return fmt.Sprintf("(.check (some %s) %s)", leanStr(tag), prog)
							}
						}
					}
				}
			}
		}
	}
	var parts []string
	if s.Init != nil {
		parts = append(parts, c.stmt(s.Init))
	}
	saved := c.errGuard
	if ev, ok := isErrNeNil(s.Cond); ok {
		c.errGuard = ev
	}
	thn := c.block(s.Body.List)
	c.errGuard = saved
	els := ".skip"
	switch e := s.Else.(type) {
	case *ast.BlockStmt:
		els = c.block(e.List)
	case *ast.IfStmt:
		els = c.ifStmt(e)
	case nil:
	default:
		els = c.unknownS(s.Else)
	}
	savedPre := c.pre
	c.pre = nil
	condT := c.expr(s.Cond)
	parts = append(parts, c.pre...)
	c.pre = savedPre
	parts = append(parts, fmt.Sprintf("(.ite %s\n    %s\n    %s)", condT, thn, els))
	if len(parts) == 1 {
		return parts[0]
	}
	// the init statement's variable is scoped to the if: wrap in a block
	return "(.block " + seqs(parts) + ")"
}

func (c *glCtx) stmt(s ast.Stmt) string {
	if is, ok := s.(*ast.IfStmt); ok {
		return c.ifStmt(is)
	}
	saved := c.pre
	c.pre = nil
	t := c.stmt0(s)
	pre := c.pre
	c.pre = saved
	if len(pre) == 0 {
		return t
	}
	return seqs(append(pre, t))
}

func (c *glCtx) stmt0(s ast.Stmt) string {
	switch s := s.(type) {
	case *ast.IfStmt:
		return c.ifStmt(s)
	case *ast.BlockStmt:
		return "(.block " + c.block(s.List) + ")"
	case *ast.ReturnStmt:
		if len(s.Results) == 1 {
			if id, ok := s.Results[0].(*ast.Ident); ok && id.Name == c.errGuard && c.errGuard != "" {
				return fmt.Sprintf("(.ret (.nonNil (.var %s)))", leanStr(id.Name))
			}
			// return recv.m() with m a validator program: tail call
			if ce, ok := s.Results[0].(*ast.CallExpr); ok {
				if prog, ok := c.validatorProgram(ce); ok {
					return fmt.Sprintf("(seqs [(.check none %s), (.ret .nil)])", prog)
				}
			}
			return "(.ret " + c.expr(s.Results[0]) + ")"
		}
	case *ast.AssignStmt:
		if len(s.Rhs) == 1 && (s.Tok == token.DEFINE || s.Tok == token.ASSIGN) {
			// opts = &ValidateOpts{}  after `if opts == nil`
			if len(s.Lhs) == 1 {
				if id, ok := s.Lhs[0].(*ast.Ident); ok && c.optsPar[id.Name] && c.p.src(s.Rhs[0]) == "&ValidateOpts{}" {
					return ".skip"
				}
			}
			ctor := "bind"
			if s.Tok == token.ASSIGN {
				ctor = "assign"
			}
			if len(s.Lhs) == 1 {
				if id, ok := s.Lhs[0].(*ast.Ident); ok {
					return fmt.Sprintf("(.%s %s %s)", ctor, leanStr(id.Name), c.expr(s.Rhs[0]))
				}
			}
			if len(s.Lhs) == 2 {
				a, ok1 := s.Lhs[0].(*ast.Ident)
				b, ok2 := s.Lhs[1].(*ast.Ident)
				if ok1 && ok2 {
					return fmt.Sprintf("(.%s2 %s %s %s)", ctor, leanStr(a.Name), leanStr(b.Name), c.expr(s.Rhs[0]))
				}
			}
		}
		if len(s.Lhs) == 1 && len(s.Rhs) == 1 && (s.Tok == token.ADD_ASSIGN || s.Tok == token.SUB_ASSIGN) {
			if id, ok := s.Lhs[0].(*ast.Ident); ok {
				op := "add"
				if s.Tok == token.SUB_ASSIGN {
					op = "sub"
				}
				return fmt.Sprintf("(.assign %s (.%s (.var %s) %s))", leanStr(id.Name), op, leanStr(id.Name), c.expr(s.Rhs[0]))
			}
		}
	case *ast.SwitchStmt:
		if s.Init == nil && s.Tag != nil {
			tag := c.expr(s.Tag)
			bindTag := ""
			if !strings.HasPrefix(tag, "(.var ") && !strings.HasPrefix(tag, "(.fld ") {
				bindTag = fmt.Sprintf("(.bind \"_tag\" %s)", tag)
				tag = "(.var \"_tag\")"
			}
			res := ".skip"
			var clauses []*ast.CaseClause
			for _, cl := range s.Body.List {
				clauses = append(clauses, cl.(*ast.CaseClause))
			}
			// default clause (if any) is the final else
			for _, cl := range clauses {
				if cl.List == nil {
					res = "(.block " + c.block(cl.Body) + ")"
				}
			}
			for i := len(clauses) - 1; i >= 0; i-- {
				cl := clauses[i]
				if cl.List == nil {
					continue
				}
				var conds []string
				for _, v := range cl.List {
					conds = append(conds, fmt.Sprintf("(.eq %s %s)", tag, c.expr(v)))
				}
				cond := conds[len(conds)-1]
				for j := len(conds) - 2; j >= 0; j-- {
					cond = fmt.Sprintf("(.or %s %s)", conds[j], cond)
				}
				for _, b := range cl.Body {
					if br, ok := b.(*ast.BranchStmt); ok && br.Tok == token.FALLTHROUGH {
						return c.unknownS(s)
					}
				}
				res = fmt.Sprintf("(.ite %s\n    (.block %s)\n    %s)", cond, c.block(cl.Body), res)
			}
			if bindTag != "" {
				return "(.block (seqs [" + bindTag + ",\n    " + res + "]))"
			}
			return res
		}
	case *ast.DeclStmt:
		if gd, ok := s.Decl.(*ast.GenDecl); ok && gd.Tok == token.VAR && len(gd.Specs) == 1 {
			vs := gd.Specs[0].(*ast.ValueSpec)
			if len(vs.Names) == 1 {
				if len(vs.Values) == 1 {
					return fmt.Sprintf("(.bind %s %s)", leanStr(vs.Names[0].Name), c.expr(vs.Values[0]))
				}
				switch c.p.src(vs.Type) {
				case "int", "int32", "int64":
					return fmt.Sprintf("(.bind %s (.int 0))", leanStr(vs.Names[0].Name))
				case "string":
					return fmt.Sprintf("(.bind %s (.str \"\"))", leanStr(vs.Names[0].Name))
				}
			}
		}
	}
	return c.unknownS(s)
}

// helperCall: a call to a function of the package whose body translates completely (if / switch / return only):
// hoisted as `.sub tmp params args <program>` in front of the current statement; the expression becomes `.var tmp`.
func (c *glCtx) helperCall(key string, args []ast.Expr) (string, bool) {
	fd, ok := c.p.funcs[key]
	if !ok || fd.Body == nil || fd.Type.Results == nil || len(fd.Type.Results.List) != 1 || c.tmp == nil {
		return "", false
	}
	switch key { // hand-modelled built-ins (loops, float arithmetic, rune slicing): see Ach/Model/GoLite.lean
	case "validator.isAlphanumeric", "validator.isUpperASCII", "CalculateCheckDigit", "validator.CalculateCheckDigit":
		return "", false
	}
	var params []string
	if fd.Type.Params != nil {
		for _, f := range fd.Type.Params.List {
			for _, n := range f.Names {
				params = append(params, n.Name)
			}
		}
	}
	if len(params) != len(args) {
		return "", false
	}
	// the callee must not touch its receiver (validator / converters are empty structs; package functions have none)
	rt := strings.SplitN(key, ".", 2)[0]
	if strings.Contains(key, ".") && rt != "validator" {
		return "", false // converters.* are hand-modelled (Ach/Model/Field.lean, tied by the field stream)
	}
	mark := len(unrecognised)
	c.q.translate(c.p, key)
	if strings.Contains(c.q.done[key], ".unknown") || c.q.busy[key] {
		unrecognised = unrecognised[:mark]
		c.q.drop(key)
		return "", false
	}
	var as []string
	for _, a := range args {
		as = append(as, c.expr(a))
	}
	*c.tmp++
	tmp := fmt.Sprintf("_t%d", *c.tmp)
	c.pre = append(c.pre, fmt.Sprintf("(.sub %s %s [%s] %s)", leanStr(tmp), leanStrList(params), strings.Join(as, ", "), glName(key)))
	return fmt.Sprintf("(.var %s)", leanStr(tmp)), true
}

func (q *glQueue) drop(key string) {
	delete(q.done, key)
	var o []string
	for _, k := range q.order {
		if k != key {
			o = append(o, k)
		}
	}
	q.order = o
}

// dictKeys: keys of a package-level map filled by `make<Name>()`: the first string of every element of the
// composite literal in that function (changeCodeDict, returnCodeDict)
func (p *pkg) dictKeys(name string) ([]string, bool) {
	if len(name) == 0 {
		return nil, false
	}
	fd, ok := p.funcs["make"+strings.ToUpper(name[:1])+name[1:]]
	if !ok || fd.Body == nil {
		return nil, false
	}
	var keys []string
	ast.Inspect(fd.Body, func(n ast.Node) bool {
		cl, ok := n.(*ast.CompositeLit)
		if !ok {
			return true
		}
		if _, isArr := cl.Type.(*ast.ArrayType); !isArr {
			return true
		}
		for _, el := range cl.Elts {
			if ecl, ok := el.(*ast.CompositeLit); ok && len(ecl.Elts) > 0 {
				if s, ok := p.evalStr(ecl.Elts[0]); ok {
					keys = append(keys, s)
				}
			}
		}
		return false
	})
	return keys, len(keys) > 0
}

var errVarCache map[*pkg]map[string]bool

// errVars: package-level variables initialised with errors.New / fmt.Errorf (always non-nil errors)
func (p *pkg) errVars() map[string]bool {
	if errVarCache == nil {
		errVarCache = map[*pkg]map[string]bool{}
	}
	if m, ok := errVarCache[p]; ok {
		return m
	}
	m := map[string]bool{}
	for _, af := range p.files {
		for _, d := range af.Decls {
			gd, ok := d.(*ast.GenDecl)
			if !ok || gd.Tok != token.VAR {
				continue
			}
			for _, sp := range gd.Specs {
				vs := sp.(*ast.ValueSpec)
				for i, n := range vs.Names {
					if i < len(vs.Values) {
						if ce, ok := vs.Values[i].(*ast.CallExpr); ok {
							f := p.src(ce.Fun)
							if f == "errors.New" || f == "fmt.Errorf" {
								m[n.Name] = true
							}
						}
					}
				}
			}
		}
	}
	errVarCache[p] = m
	return m
}

// translate one function (key "Type.Method") into a named Lean Prog definition
func (q *glQueue) translate(p *pkg, key string) {
	if _, ok := q.done[key]; ok || q.busy[key] {
		return
	}
	fd, ok := p.funcs[key]
	if !ok || fd.Body == nil {
		q.done[key] = fmt.Sprintf("(.unknown %s)", leanStr(unrec("golite: no function %s", key)))
		q.order = append(q.order, key)
		return
	}
	q.busy[key] = true
	c := &glCtx{p: p, recv: recvIdent(fd), rtype: strings.SplitN(key, ".", 2)[0], optsPar: map[string]bool{}, q: q, tmp: new(int)}
	if !strings.Contains(key, ".") {
		c.recv, c.rtype = "", ""
	}
	if fd.Type.Params != nil {
		for _, f := range fd.Type.Params.List {
			if p.src(f.Type) == "*ValidateOpts" {
				for _, n := range f.Names {
					c.optsPar[n.Name] = true
				}
			}
		}
	}
	body := fd.Body.List
	// `if opts == nil { opts = &ValidateOpts{} }` : nil options and the zero value set no flag
	var kept []ast.Stmt
	for _, s := range body {
		if is, ok := s.(*ast.IfStmt); ok && is.Init == nil && is.Else == nil {
			if be, ok := is.Cond.(*ast.BinaryExpr); ok && be.Op == token.EQL && isNilIdent(be.Y) {
				if id, ok := be.X.(*ast.Ident); ok && c.optsPar[id.Name] && len(is.Body.List) == 1 && p.src(is.Body.List[0]) == id.Name+" = &ValidateOpts{}" {
					continue
				}
			}
		}
		kept = append(kept, s)
	}
	term := c.block(kept)
	delete(q.busy, key)
	q.done[key] = term
	q.order = append(q.order, key)
}

// recordValidators: entry points "Type.Validate" (or ValidateWith) of every record type with a layout
func (p *pkg) recordValidators() []string {
	var res []string
	for _, r := range p.recordTypes() {
		for _, m := range []string{"ValidateWith", "Validate"} {
			if _, ok := p.funcs[r+"."+m]; ok {
				res = append(res, r+"."+m)
				break
			}
		}
	}
	sort.Strings(res)
	return res
}

func emitValidators(p *pkg, out string) {
	df := newLean("Dicts")
	df.pf("/-- keys of the code dictionaries (first string of every element of the literal in make<Dict>) -/\ndef dictKeys : List (String × List String) := [\n")
	for i, d := range []string{"changeCodeDict", "returnCodeDict"} {
		ks, _ := p.dictKeys(d)
		sep := ","
		if i == 1 {
			sep = ""
		}
		df.pf("  (%s, %s)%s\n", leanStr(d), leanStrList(ks), sep)
	}
	df.pf("]\n")
	df.write(out)
	lf := newLean("Validators", "Ach.Model.GoLite")
	lf.pf("open Ach.GoLite\n\n")
	q := &glQueue{done: map[string]string{}, busy: map[string]bool{}}
	entries := p.recordValidators()
	for _, k := range entries {
		q.translate(p, k)
	}
	for _, k := range q.order {
		lf.pf("def %s : Prog :=\n  %s\n\n", glName(k), q.done[k])
	}
	lf.pf("/-- every translated function, callees first -/\ndef validatorProgs : List (String × Prog) := [\n")
	for i, k := range q.order {
		sep := ","
		if i == len(q.order)-1 {
			sep = ""
		}
		lf.pf("  (%s, %s)%s\n", leanStr(k), glName(k), sep)
	}
	lf.pf("]\n\n/-- the record-level entry points -/\ndef validatorEntries : List String := %s\n\n", leanStrList(entries))
	// field types of the receiver structs (string / int / bool / other)
	lf.pf("def validatorFieldTypes : List (String × List (String × String)) := [\n")
	seen := map[string]bool{}
	var types []string
	for _, k := range q.order {
		t := strings.SplitN(k, ".", 2)[0]
		if !seen[t] {
			seen[t] = true
			types = append(types, t)
		}
	}
	for i, t := range types {
		var fs []string
		if ts := p.types[t]; ts != nil {
			if st, ok := ts.Type.(*ast.StructType); ok {
				for _, f := range st.Fields.List {
					for _, n := range f.Names {
						fs = append(fs, fmt.Sprintf("(%s, %s)", leanStr(n.Name), leanStr(p.src(f.Type))))
					}
				}
			}
		}
		sep := ","
		if i == len(types)-1 {
			sep = ""
		}
		lf.pf("  (%s, [%s])%s\n", leanStr(t), strings.Join(fs, ", "), sep)
	}
	lf.pf("]\n")
	lf.write(out)
}
