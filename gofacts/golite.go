package main

// GoLite: a translator from the loop-free, first-error-wins validator functions of /repo (the `Validate`,
// `fieldInclusion`, ... methods of the record types, and the small helper functions of validators.go they call)
// into terms of the deep embedding `Ach.GoLite.Prog` (lean/Ach/Model/GoLite.lean).  The Lean side *interprets*
// these terms, so the record-level validation model is regenerated from the source on every run; the theorems
// (monotonicity in the relaxation flags, "accepted implies ..." facts) are re-checked against what the code says
// now.  Anything the translator does not understand becomes `Prog.unknown` / `Expr.unknown`, which the Lean
// obligation `validators_translated` rejects.
//
// The translation is syntactic (go/ast, no type checker).  Conventions:
//   recv.F                       -> .fld "F"            (F a field of the receiver's struct)
//   local / parameter            -> .var "x"
//   named constants              -> their current value (.int / .str)
//   X == nil || !X.F, !X.F ...   -> .not (.flag src "F")   where X = recv.validateOpts (src "recv") or a *ValidateOpts
//   X != nil && X.F, X.F         -> .flag src "F"          parameter (src "param"); nil options = no flag set
//   fieldError("T", ...)         -> .mkErr "T"          (a non-nil error whose FieldName is T)
//   if err := recv.m(); err != nil { return err | return fieldError("T", err, ..) }  with m translatable
//                                -> .check (none | some "T") <program of m>
//   if err := f(args); err != nil {...}   otherwise   -> scoped .bind + .ite
//   return err  inside `if ...; err != nil`           -> .ret (.nonNil (.var "err"))
//   one-line accessor methods (return recv.conv(recv.F, n)) are inlined as expressions
//   switch tag { case a, b: ... }                      -> chain of .ite (.or (.eq tag a) (.eq tag b))

import (
	"fmt"
	"go/ast"
	"go/token"
	"sort"
	"strings"
)

type glCtx struct {
	p       *pkg
	recv    string          // receiver identifier in the function being translated
	rtype   string          // receiver struct type
	optsPar map[string]bool // parameters / locals that hold a *ValidateOpts
	depth   int
	errGuard string // name of the error variable known non-nil in the current block ("" if none)
	used    map[string]bool // programs referenced
	q       *glQueue
	pre     []string // hoisted helper calls (.sub statements) waiting to be emitted before the current statement
	tmp     *int
	types   map[string]string // Go type of locals / parameters ("*EntryDetail", "[]*Addenda05", "int", ...)
	inSwitch int              // depth of enclosing switch statements inside the innermost loop (a `break` there leaves the switch)
	named   []string          // named results of the function being translated
	selfTerm string           // when inlining an accessor of another object: the Lean term of that object
	errOnly  bool             // translating a (T, error) function whose callers all discard T: `return a, b` is `return b`
}

type glQueue struct {
	order []string
	done  map[string]string // key -> lean term
	busy  map[string]bool
}

func (p *pkg) structFieldType(rtype, field string) (string, bool) {
	return p.structFieldTypeD(rtype, field, 0)
}

func (p *pkg) structFieldTypeD(rtype, field string, depth int) (string, bool) {
	ts := p.types[rtype]
	if ts == nil || depth > 3 {
		return "", false
	}
	st, ok := ts.Type.(*ast.StructType)
	if !ok {
		return "", false
	}
	for _, f := range st.Fields.List {
		for _, n := range f.Names {
			if n.Name == field {
				return p.src(f.Type), true
			}
		}
	}
	for _, f := range st.Fields.List { // embedded structs (BatchPPD{Batch}): their fields are promoted
		if len(f.Names) == 0 {
			if t, ok := p.structFieldTypeD(strings.TrimPrefix(p.src(f.Type), "*"), field, depth+1); ok {
				return t, true
			}
		}
	}
	return "", false
}

// embedded lists the embedded struct types of rtype (depth first), rtype itself first
func (p *pkg) embedded(rtype string, depth int) []string {
	out := []string{rtype}
	ts := p.types[rtype]
	if ts == nil || depth > 3 {
		return out
	}
	if st, ok := ts.Type.(*ast.StructType); ok {
		for _, f := range st.Fields.List {
			if len(f.Names) == 0 {
				out = append(out, p.embedded(strings.TrimPrefix(p.src(f.Type), "*"), depth+1)...)
			}
		}
	}
	return out
}

func glName(key string) string { return "v_" + leanIdent(key) }

// method lookup through the embedded helper structs (validator, converters)
func (p *pkg) findMethod(rtype, name string) (string, *ast.FuncDecl) {
	for _, t := range append(p.embedded(rtype, 0), "validator", "converters") {
		if fd, ok := p.funcs[t+"."+name]; ok {
			return t + "." + name, fd
		}
	}
	return "", nil
}

func (c *glCtx) unknownE(n ast.Node) string {
	return fmt.Sprintf("(.unknown %s)", leanStr(unrec("golite expr in %s: %s", c.rtype, c.p.src(n))))
}

// typeOf: the Go type of an expression, as far as struct fields, locals, method results and indexing go ("" = unknown)
func (c *glCtx) typeOf(e ast.Expr) string {
	switch e := e.(type) {
	case *ast.ParenExpr:
		return c.typeOf(e.X)
	case *ast.Ident:
		if e.Name == c.recv && c.recv != "" {
			return "*" + c.rtype
		}
		return c.types[e.Name]
	case *ast.SelectorExpr:
		t := staticType(c.typeOf(e.X))
		if t == "" {
			return ""
		}
		ft, _ := c.p.structFieldType(t, e.Sel.Name)
		return ft
	case *ast.CallExpr:
		if se, ok := e.Fun.(*ast.SelectorExpr); ok {
			t := staticType(c.typeOf(se.X))
			if t != "" {
				if _, fd := c.p.findMethod(t, se.Sel.Name); fd != nil && fd.Type.Results != nil && len(fd.Type.Results.List) >= 1 {
					return c.p.src(fd.Type.Results.List[0].Type)
				}
			}
		}
	case *ast.IndexExpr:
		t := c.typeOf(e.X)
		if strings.HasPrefix(t, "[]") {
			return t[2:]
		}
	}
	return ""
}

// ifaceImpl: interface types whose values are, statically, treated as the struct all implementations embed
var ifaceImpl = map[string]string{"Batcher": "Batch"}

func staticType(t string) string {
	t = strings.TrimPrefix(t, "*")
	if impl, ok := ifaceImpl[t]; ok {
		return impl
	}
	return t
}

// dynTypes: the struct types embedding `base` that define method m themselves (dynamic dispatch targets)
func (p *pkg) dynTypes(base, m string) []string {
	var out []string
	for _, t := range sortedKeys(p.types) {
		if t == base {
			continue
		}
		em := p.embedded(t, 0)
		if len(em) > 1 && em[1] == base {
			if _, ok := p.funcs[t+"."+m]; ok {
				out = append(out, t)
			}
		}
	}
	return out
}

func (c *glCtx) isStructPtr(t string) bool {
	t = staticType(t)
	ts := c.p.types[t]
	if ts == nil {
		return false
	}
	_, ok := ts.Type.(*ast.StructType)
	return ok
}

func (c *glCtx) isOptsExpr(e ast.Expr) (string, bool) {
	switch e := e.(type) {
	case *ast.SelectorExpr:
		if id, ok := e.X.(*ast.Ident); ok && id.Name == c.recv && e.Sel.Name == "validateOpts" {
			return "recv", true
		}
		// any record's own options: the model speaks about batches whose records all carry the same options
		if e.Sel.Name == "validateOpts" && c.isStructPtr(c.typeOf(e.X)) {
			return "recv", true
		}
	case *ast.Ident:
		if c.optsPar[e.Name] {
			return "param", true
		}
	}
	return "", false
}

// flagRef: X.F with X an options expression
func (c *glCtx) flagRef(e ast.Expr) (src, flag string, ok bool) {
	se, ok2 := e.(*ast.SelectorExpr)
	if !ok2 {
		return "", "", false
	}
	s, ok3 := c.isOptsExpr(se.X)
	if !ok3 {
		return "", "", false
	}
	return s, se.Sel.Name, true
}

func isNilIdent(e ast.Expr) bool {
	id, ok := e.(*ast.Ident)
	return ok && id.Name == "nil"
}

// optsPattern recognises the nil-safe flag tests; returns a Lean Expr term.
func (c *glCtx) optsPattern(e ast.Expr) (string, bool) {
	switch e := e.(type) {
	case *ast.ParenExpr:
		return c.optsPattern(e.X)
	case *ast.UnaryExpr:
		if e.Op == token.NOT {
			if s, f, ok := c.flagRef(e.X); ok {
				return fmt.Sprintf("(.not (.flag %s %s))", leanStr(s), leanStr(f)), true
			}
		}
	case *ast.SelectorExpr:
		if s, f, ok := c.flagRef(e); ok {
			return fmt.Sprintf("(.flag %s %s)", leanStr(s), leanStr(f)), true
		}
	case *ast.BinaryExpr:
		// X.F != nil / X.F == nil   (function-valued option)
		if (e.Op == token.NEQ || e.Op == token.EQL) && isNilIdent(e.Y) {
			if s, f, ok := c.flagRef(e.X); ok {
				t := fmt.Sprintf("(.flag %s %s)", leanStr(s), leanStr(f))
				if e.Op == token.EQL {
					t = "(.not " + t + ")"
				}
				return t, true
			}
		}
		// X == nil || <neg flag test on X>      X != nil && <pos flag test on X>
		if be, ok := e.X.(*ast.BinaryExpr); ok && isNilIdent(be.Y) {
			if s, ok := c.isOptsExpr(be.X); ok {
				if e.Op == token.LOR && be.Op == token.EQL {
					if t, ok := c.optsPattern(e.Y); ok && strings.HasPrefix(t, "(.not (.flag "+leanStr(s)) {
						return t, true
					}
				}
				if e.Op == token.LAND && be.Op == token.NEQ {
					if t, ok := c.optsPattern(e.Y); ok && strings.HasPrefix(t, "(.flag "+leanStr(s)) {
						return t, true
					}
				}
			}
		}
	}
	return "", false
}

var glBinOps = map[token.Token]string{
	token.LAND: "and", token.LOR: "or", token.EQL: "eq", token.NEQ: "ne", token.LSS: "lt", token.LEQ: "le",
	token.GTR: "gt", token.GEQ: "ge", token.ADD: "add", token.SUB: "sub", token.MUL: "mul", token.REM: "mod", token.QUO: "div",
}

func (c *glCtx) call(name string, args []ast.Expr, at ast.Node) string {
	if len(args) > 3 {
		return c.unknownE(at)
	}
	var as []string
	for _, a := range args {
		as = append(as, c.expr(a))
	}
	return fmt.Sprintf("(.call%d %s%s)", len(args), leanStr(name), strings.Join(append([]string{""}, as...), " "))
}

// accessor: a method whose body is a single `return <expr>` (optionally preceded by nothing), no parameters
func (c *glCtx) inlineAccessor(key string, fd *ast.FuncDecl, recvTerm string) (string, bool) {
	if fd.Body == nil || len(fd.Body.List) != 1 || c.depth > 4 {
		return "", false
	}
	if fd.Type.Params != nil && len(fd.Type.Params.List) > 0 {
		return "", false
	}
	rs, ok := fd.Body.List[0].(*ast.ReturnStmt)
	if !ok || len(rs.Results) != 1 {
		return "", false
	}
	sub := &glCtx{p: c.p, recv: recvIdent(fd), rtype: strings.SplitN(key, ".", 2)[0], optsPar: map[string]bool{}, depth: c.depth + 1, used: c.used, q: c.q,
		types: map[string]string{}, selfTerm: recvTerm}
	defer func() { c.pre = append(c.pre, sub.pre...) }()
	sub.tmp = c.tmp
	if sub.rtype == "validator" || sub.rtype == "converters" {
		sub.rtype = c.rtype
	}
	mark := len(unrecognised)
	t := sub.expr(rs.Results[0])
	if strings.Contains(t, ".unknown") {
		unrecognised = unrecognised[:mark]
		return "", false
	}
	return t, true
}

func (c *glCtx) expr(e ast.Expr) string {
	if t, ok := c.optsPattern(e); ok {
		return t
	}
	switch e := e.(type) {
	case *ast.ParenExpr:
		return c.expr(e.X)
	case *ast.BasicLit:
		if v, ok := c.p.evalInt(e); ok {
			return fmt.Sprintf("(.int %s)", leanInt(v))
		}
		if s, ok := c.p.evalStr(e); ok {
			return fmt.Sprintf("(.str %s)", leanStr(s))
		}
	case *ast.Ident:
		switch e.Name {
		case "nil":
			return ".nil"
		case "true":
			return "(.bool true)"
		case "false":
			return "(.bool false)"
		}
		if e.Obj != nil {
			switch e.Obj.Decl.(type) {
			case *ast.AssignStmt, *ast.Field:
				return fmt.Sprintf("(.var %s)", leanStr(e.Name))
			}
		}
		if v, ok := c.p.ints[e.Name]; ok {
			return fmt.Sprintf("(.int %s)", leanInt(v))
		}
		if s, ok := c.p.strs[e.Name]; ok {
			return fmt.Sprintf("(.str %s)", leanStr(s))
		}
		if e.Obj != nil && e.Obj.Kind == ast.Var {
			return fmt.Sprintf("(.var %s)", leanStr(e.Name))
		}
		if c.p.errVars()[e.Name] {
			return "(.mkErr \"\")"
		}
		return fmt.Sprintf("(.glob %s)", leanStr(e.Name))
	case *ast.UnaryExpr:
		switch e.Op {
		case token.NOT:
			return "(.not " + c.expr(e.X) + ")"
		case token.SUB:
			return "(.sub (.int 0) " + c.expr(e.X) + ")"
		}
	case *ast.BinaryExpr:
		// `recv == nil`: the receiver is never nil in the runs the model speaks about
		if id, ok := e.X.(*ast.Ident); ok && id.Name == c.recv && c.recv != "" && isNilIdent(e.Y) {
			if e.Op == token.EQL {
				return "(.bool false)"
			}
			if e.Op == token.NEQ {
				return "(.bool true)"
			}
		}
		if op, ok := glBinOps[e.Op]; ok {
			return fmt.Sprintf("(.%s %s %s)", op, c.expr(e.X), c.expr(e.Y))
		}
	case *ast.SelectorExpr:
		if id, ok := e.X.(*ast.Ident); ok && id.Name == c.recv {
			if _, ok := c.p.structFieldType(c.rtype, e.Sel.Name); ok {
				if c.selfTerm != "" {
					return fmt.Sprintf("(.sel %s %s)", c.selfTerm, leanStr(e.Sel.Name))
				}
				return fmt.Sprintf("(.fld %s)", leanStr(e.Sel.Name))
			}
		}
		if xt := staticType(c.typeOf(e.X)); xt != "" && c.isStructPtr(xt) {
			if _, ok := c.p.structFieldType(xt, e.Sel.Name); ok {
				return fmt.Sprintf("(.sel %s %s)", c.expr(e.X), leanStr(e.Sel.Name))
			}
		}
	case *ast.CallExpr:
		switch f := e.Fun.(type) {
		case *ast.Ident:
			switch f.Name {
			case "fieldError":
				if len(e.Args) >= 2 {
					if s, ok := c.p.evalStr(e.Args[0]); ok {
						// fieldError(tag, err, ...) keeps err when it already is a *FieldError
						if id, ok := e.Args[1].(*ast.Ident); ok && id.Obj != nil {
							switch id.Obj.Decl.(type) {
							case *ast.AssignStmt, *ast.Field:
								if id.Name == c.errGuard {
									return fmt.Sprintf("(.wrapErr %s (.nonNil (.var %s)))", leanStr(s), leanStr(id.Name))
								}
								return fmt.Sprintf("(.wrapErr %s (.var %s))", leanStr(s), leanStr(id.Name))
							}
						}
						return fmt.Sprintf("(.mkErr %s)", leanStr(s))
					}
				}
			case "int", "int32", "int64", "uint", "rune", "string":
				if f.Name == "string" {
					break
				}
				fallthrough
			case "__never__":
				if len(e.Args) == 1 && f.Name != "string" {
					return c.expr(e.Args[0])
				}
			}
			if strings.HasPrefix(f.Name, "NewErr") { // error constructors: a non-nil error named by its first string argument, else by its type
				if len(e.Args) >= 1 {
					if s, ok := c.p.evalStr(e.Args[0]); ok {
						return fmt.Sprintf("(.mkErr %s)", leanStr(s))
					}
				}
				return fmt.Sprintf("(.mkErr %s)", leanStr(strings.TrimPrefix(f.Name, "New")))
			}
			if t, ok := c.helperCall(f.Name, e.Args); ok {
				return t
			}
			return c.call(f.Name, e.Args, e)
		case *ast.SelectorExpr:
			if t, ok := c.methodCall(e, f); ok {
				return t
			}
			if id, ok := f.X.(*ast.Ident); ok {
				if id.Name == c.recv {
					return c.call(f.Sel.Name, e.Args, e)
				}
				if id.Obj == nil && c.types[id.Name] == "" { // package-qualified: strconv.Atoi, utf8.RuneCountInString, strings.X
					return c.call(id.Name+"."+f.Sel.Name, e.Args, e)
				}
			}
			// X.validateOpts.CheckTransactionCode(arg)
			if s, fl, ok := c.flagRef(f); ok {
				return c.call("opt."+s+"."+fl, e.Args, e)
			}
		}
	case *ast.SliceExpr:
		if e.Slice3 || e.Low == nil && e.High == nil {
			break
		}
		lo, hi := "(.int 0)", ""
		if e.Low != nil {
			lo = c.expr(e.Low)
		}
		if e.High != nil {
			hi = c.expr(e.High)
			return fmt.Sprintf("(.call3 \"slice\" %s %s %s)", c.expr(e.X), lo, hi)
		}
		return fmt.Sprintf("(.call2 \"sliceFrom\" %s %s)", c.expr(e.X), lo)
	case *ast.IndexExpr:
		if id, ok := e.X.(*ast.Ident); ok {
			local := false
			if id.Obj != nil {
				switch id.Obj.Decl.(type) {
				case *ast.AssignStmt, *ast.Field:
					local = true
				}
			}
			if !local {
				if _, ok := c.p.dictKeys(id.Name); ok {
					return fmt.Sprintf("(.call1 %s %s)", leanStr("dict."+id.Name), c.expr(e.Index))
				}
			}
		}
		if strings.HasPrefix(c.typeOf(e.X), "[]") {
			return fmt.Sprintf("(.idx %s %s)", c.expr(e.X), c.expr(e.Index))
		}
		return fmt.Sprintf("(.call2 \"index\" %s %s)", c.expr(e.X), c.expr(e.Index))
	}
	return c.unknownE(e)
}

// recvTermOf: the Lean term of the object a method is called on ("" = the current receiver itself)
func (c *glCtx) recvTermOf(x ast.Expr) string {
	if id, ok := x.(*ast.Ident); ok && id.Name == c.recv && c.recv != "" {
		return c.selfTerm
	}
	return c.expr(x)
}

func paramNames(fd *ast.FuncDecl) []string {
	var ps []string
	if fd.Type.Params != nil {
		for _, f := range fd.Type.Params.List {
			for _, n := range f.Names {
				ps = append(ps, n.Name)
			}
		}
	}
	return ps
}

// methodCall translates X.m(args) for X of a known struct type: batch.Error(tag, ...) -> a tagged error; accessors
// (single `return expr`) are inlined; helper methods of the embedded validator / converters go the helper way;
// any other method whose body translates is hoisted as a call statement in front of the current statement.
func (c *glCtx) methodCall(e *ast.CallExpr, f *ast.SelectorExpr) (string, bool) {
	xt := staticType(c.typeOf(f.X))
	if xt == "" || !c.isStructPtr(xt) {
		return "", false
	}
	key, fd := c.p.findMethod(xt, f.Sel.Name)
	if fd == nil {
		return "", false
	}
	declT := strings.SplitN(key, ".", 2)[0]
	if f.Sel.Name == "Error" && len(e.Args) >= 1 {
		if s, ok := c.p.evalStr(e.Args[0]); ok {
			return fmt.Sprintf("(.mkErr %s)", leanStr(s)), true
		}
	}
	if declT == "validator" || declT == "converters" {
		if len(e.Args) == 0 {
			if t, ok := c.inlineAccessor(key, fd, c.recvTermOf(f.X)); ok {
				return t, true
			}
		}
		if t, ok := c.helperCall(key, e.Args); ok {
			return t, true
		}
		return c.call(f.Sel.Name, e.Args, e), true
	}
	rt := c.recvTermOf(f.X)
	if len(e.Args) == 0 {
		if t, ok := c.inlineAccessor(key, fd, rt); ok {
			return t, true
		}
	}
	if t, ok := c.hoistMethod(key, fd, rt, e.Args); ok {
		return t, true
	}
	return "", false
}

// hoistMethod: `.sub` / `.subOn` call of a translated method in front of the current statement
func (c *glCtx) hoistMethod(key string, fd *ast.FuncDecl, recvTerm string, args []ast.Expr) (string, bool) {
	if fd.Body == nil || fd.Type.Results == nil || c.tmp == nil || c.q.busy[key] {
		return "", false
	}
	nres := 0
	for _, r := range fd.Type.Results.List {
		if len(r.Names) == 0 {
			nres++
		} else {
			nres += len(r.Names)
		}
	}
	if nres < 1 || nres > 2 {
		return "", false
	}
	params := paramNames(fd)
	if len(params) != len(args) {
		return "", false
	}
	mark := len(unrecognised)
	c.q.translate(c.p, key)
	if strings.Contains(c.q.done[key], ".unknown") {
		unrecognised = unrecognised[:mark]
		c.q.drop(key)
		return "", false
	}
	var as []string
	for _, a := range args {
		as = append(as, c.expr(a))
	}
	*c.tmp++
	tmp := fmt.Sprintf("_t%d", *c.tmp)
	if recvTerm == "" {
		c.pre = append(c.pre, fmt.Sprintf("(.sub %s %s [%s] %s)", leanStr(tmp), leanStrList(params), strings.Join(as, ", "), glName(key)))
	} else {
		c.pre = append(c.pre, fmt.Sprintf("(.subOn %s %s %s [%s] %s)", leanStr(tmp), recvTerm, leanStrList(params), strings.Join(as, ", "), glName(key)))
	}
	return fmt.Sprintf("(.var %s)", leanStr(tmp)), true
}

func (c *glCtx) unknownS(n ast.Node) string {
	return fmt.Sprintf("(.unknown %s)", leanStr(unrec("golite stmt in %s: %s", c.rtype, c.p.src(n))))
}

func seqs(parts []string) string {
	if len(parts) == 0 {
		return ".skip"
	}
	if len(parts) == 1 {
		return parts[0]
	}
	return "(seqs [" + strings.Join(parts, ",\n    ") + "])"
}

func (c *glCtx) block(ss []ast.Stmt) string {
	var parts []string
	for _, s := range ss {
		parts = append(parts, c.stmt(s))
	}
	return seqs(parts)
}

// isErrNeNil: cond is `<name> != nil`
func isErrNeNil(e ast.Expr) (string, bool) {
	be, ok := e.(*ast.BinaryExpr)
	if !ok || be.Op != token.NEQ || !isNilIdent(be.Y) {
		return "", false
	}
	id, ok := be.X.(*ast.Ident)
	if !ok {
		return "", false
	}
	return id.Name, true
}

// checkCall: `X.m(args)` with m a method (of the receiver or of another record) returning only an error whose body
// translates: returns the Lean statement `.check` / `.checkOn` for `if err := X.m(args); err != nil { return ... }`
func (c *glCtx) checkCall(call *ast.CallExpr, tag string, errOnly ...bool) (string, bool) {
	se, ok := call.Fun.(*ast.SelectorExpr)
	if !ok {
		return "", false
	}
	rawT := strings.TrimPrefix(c.typeOf(se.X), "*")
	xt := staticType(rawT)
	if xt == "" || !c.isStructPtr(xt) {
		return "", false
	}
	// a method of an interface value that the implementations define themselves: dispatch on the dynamic type
	if base, isIface := ifaceImpl[rawT]; isIface && len(call.Args) == 0 {
		if dyn := c.p.dynTypes(base, se.Sel.Name); len(dyn) > 0 {
			rt := c.recvTermOf(se.X)
			if rt == "" {
				return "", false
			}
			chain := "(.effect \"dispatch: unknown dynamic type\")"
			for i := len(dyn) - 1; i >= 0; i-- {
				key := dyn[i] + "." + se.Sel.Name
				c.q.translate(c.p, key)
				chain = fmt.Sprintf("(.ite (.eq (.sel %s \"$type\") (.str %s))\n    (.checkOn %s %s [] [] %s)\n    %s)", rt, leanStr(dyn[i]), tag, rt, glName(key), chain)
			}
			return chain, true
		}
	}
	key, fd := c.p.findMethod(xt, se.Sel.Name)
	if fd == nil || fd.Body == nil || fd.Type.Results == nil {
		return "", false
	}
	if len(errOnly) > 0 && errOnly[0] {
		// `_, err := X.m()`: a (T, error) function used for its error only
		rs := fd.Type.Results.List
		if len(rs) != 2 || len(rs[0].Names) > 1 || len(rs[1].Names) > 1 || c.p.src(rs[1].Type) != "error" {
			return "", false
		}
		key += "#err"
	} else if len(fd.Type.Results.List) != 1 || c.p.src(fd.Type.Results.List[0].Type) != "error" {
		return "", false
	}
	declT := strings.SplitN(key, ".", 2)[0]
	if declT == "validator" || declT == "converters" || c.q.busy[key] {
		return "", false
	}
	// parameters of type *ValidateOpts are not passed as values: the callee reads them as the "param" flag set, which
	// is the caller's when the caller hands its own parameter on
	var params []string
	var args []ast.Expr
	ai := 0
	if fd.Type.Params != nil {
		for _, f := range fd.Type.Params.List {
			for _, n := range f.Names {
				if ai >= len(call.Args) {
					return "", false
				}
				if c.p.src(f.Type) == "*ValidateOpts" {
					if id, ok := call.Args[ai].(*ast.Ident); !ok || !c.optsPar[id.Name] {
						return "", false
					}
				} else {
					params = append(params, n.Name)
					args = append(args, call.Args[ai])
				}
				ai++
			}
		}
	}
	if ai != len(call.Args) {
		return "", false
	}
	mark := len(unrecognised)
	c.q.translate(c.p, key)
	if strings.Contains(c.q.done[key], ".unknown") && len(params) > 0 {
		// keep unknowns visible for parameterless validators (the obligation reports them); with parameters fall back
		unrecognised = unrecognised[:mark]
		c.q.drop(key)
		return "", false
	}
	rt := c.recvTermOf(se.X)
	if rt == "" && len(params) == 0 {
		return fmt.Sprintf("(.check %s %s)", tag, glName(key)), true
	}
	if rt == "" {
		rt = ".self"
	}
	var as []string
	for _, a := range args {
		as = append(as, c.expr(a))
	}
	return fmt.Sprintf("(.checkOn %s %s %s [%s] %s)", tag, rt, leanStrList(params), strings.Join(as, ", "), glName(key)), true
}

func (c *glCtx) ifStmt(s *ast.IfStmt) string {
	// pattern: if err := X.m(args); err != nil { return err | return fieldError("T", err, ...) | return recv.Error("T", err, ...) }
	if as, ok := s.Init.(*ast.AssignStmt); ok && as.Tok == token.DEFINE && (len(as.Lhs) == 1 || len(as.Lhs) == 2 && c.p.src(as.Lhs[0]) == "_") && len(as.Rhs) == 1 && s.Else == nil {
		discard := len(as.Lhs) == 2
		if ev, ok := isErrNeNil(s.Cond); ok && c.p.src(as.Lhs[len(as.Lhs)-1]) == ev && len(s.Body.List) == 1 {
			if rs, ok := s.Body.List[0].(*ast.ReturnStmt); ok && len(rs.Results) == 1 {
				if ce, ok := as.Rhs[0].(*ast.CallExpr); ok {
					tag := ""
					if id, ok := rs.Results[0].(*ast.Ident); ok && id.Name == ev {
						tag = "none"
					} else if fe, ok := rs.Results[0].(*ast.CallExpr); ok && len(fe.Args) >= 2 && c.p.src(fe.Args[1]) == ev {
						if t, ok := c.p.evalStr(fe.Args[0]); ok {
							if c.p.src(fe.Fun) == "fieldError" {
								tag = "(some " + leanStr(t) + ")"
							} else if fs, ok := fe.Fun.(*ast.SelectorExpr); ok && fs.Sel.Name == "Error" && c.isStructPtr(c.typeOf(fs.X)) {
								tag = "(some " + leanStr("!"+t) + ")" // batch.Error(tag, err): the tag always wins
							}
						}
					}
					if tag != "" {
						savedPre := c.pre
						c.pre = nil
						t, ok := c.checkCall(ce, tag, discard)
						pre := c.pre
						c.pre = savedPre
						if ok {
							return seqs(append(pre, t))
						}
					}
				}
			}
		}
	}
	var parts []string
	if s.Init != nil {
		parts = append(parts, c.stmt(s.Init))
	}
	saved := c.errGuard
	if ev, ok := isErrNeNil(s.Cond); ok {
		c.errGuard = ev
	}
	thn := c.block(s.Body.List)
	c.errGuard = saved
	els := ".skip"
	switch e := s.Else.(type) {
	case *ast.BlockStmt:
		els = c.block(e.List)
	case *ast.IfStmt:
		els = c.ifStmt(e)
	case nil:
	default:
		els = c.unknownS(s.Else)
	}
	savedPre := c.pre
	c.pre = nil
	condT := c.expr(s.Cond)
	parts = append(parts, c.pre...)
	c.pre = savedPre
	parts = append(parts, fmt.Sprintf("(.ite %s\n    %s\n    %s)", condT, thn, els))
	if len(parts) == 1 {
		return parts[0]
	}
	// the init statement's variable is scoped to the if: wrap in a block
	return "(.block " + seqs(parts) + ")"
}

func (c *glCtx) stmt(s ast.Stmt) string {
	if is, ok := s.(*ast.IfStmt); ok {
		return c.ifStmt(is)
	}
	saved := c.pre
	c.pre = nil
	t := c.stmt0(s)
	pre := c.pre
	c.pre = saved
	if len(pre) == 0 {
		return t
	}
	return seqs(append(pre, t))
}

func (c *glCtx) stmt0(s ast.Stmt) string {
	switch s := s.(type) {
	case *ast.IfStmt:
		return c.ifStmt(s)
	case *ast.BlockStmt:
		return "(.block " + c.block(s.List) + ")"
	case *ast.ReturnStmt:
		if len(s.Results) == 2 && c.errOnly {
			return "(.ret " + c.expr(s.Results[1]) + ")"
		}
		if len(s.Results) == 2 {
			return fmt.Sprintf("(.ret (.pair %s %s))", c.expr(s.Results[0]), c.expr(s.Results[1]))
		}
		if len(s.Results) == 0 && len(c.named) == 1 {
			return fmt.Sprintf("(.ret (.var %s))", leanStr(c.named[0]))
		}
		if len(s.Results) == 0 && len(c.named) == 2 {
			return fmt.Sprintf("(.ret (.pair (.var %s) (.var %s)))", leanStr(c.named[0]), leanStr(c.named[1]))
		}
		if len(s.Results) == 1 {
			if id, ok := s.Results[0].(*ast.Ident); ok && id.Name == c.errGuard && c.errGuard != "" {
				return fmt.Sprintf("(.ret (.nonNil (.var %s)))", leanStr(id.Name))
			}
			// return recv.m() with m a validator program: tail call
			if ce, ok := s.Results[0].(*ast.CallExpr); ok {
				if t, ok := c.checkCall(ce, "none"); ok {
					return fmt.Sprintf("(seqs [%s, (.ret .nil)])", t)
				}
			}
			return "(.ret " + c.expr(s.Results[0]) + ")"
		}
	case *ast.AssignStmt:
		if len(s.Rhs) == 1 && (s.Tok == token.DEFINE || s.Tok == token.ASSIGN) {
			// opts = &ValidateOpts{}  after `if opts == nil`
			if len(s.Lhs) == 1 {
				if id, ok := s.Lhs[0].(*ast.Ident); ok && c.optsPar[id.Name] && c.p.src(s.Rhs[0]) == "&ValidateOpts{}" {
					return ".skip"
				}
			}
			ctor := "bind"
			if s.Tok == token.ASSIGN {
				ctor = "assign"
			}
			if len(s.Lhs) == 1 {
				if id, ok := s.Lhs[0].(*ast.Ident); ok {
					if s.Tok == token.DEFINE {
						c.types[id.Name] = c.typeOf(s.Rhs[0])
					}
					return fmt.Sprintf("(.%s %s %s)", ctor, leanStr(id.Name), c.expr(s.Rhs[0]))
				}
			}
			if len(s.Lhs) == 2 {
				a, ok1 := s.Lhs[0].(*ast.Ident)
				b, ok2 := s.Lhs[1].(*ast.Ident)
				if ok1 && ok2 {
					return fmt.Sprintf("(.%s2 %s %s %s)", ctor, leanStr(a.Name), leanStr(b.Name), c.expr(s.Rhs[0]))
				}
			}
		}
		if len(s.Lhs) == 1 && len(s.Rhs) == 1 && (s.Tok == token.ADD_ASSIGN || s.Tok == token.SUB_ASSIGN) {
			if id, ok := s.Lhs[0].(*ast.Ident); ok {
				op := "add"
				if s.Tok == token.SUB_ASSIGN {
					op = "sub"
				}
				return fmt.Sprintf("(.assign %s (.%s (.var %s) %s))", leanStr(id.Name), op, leanStr(id.Name), c.expr(s.Rhs[0]))
			}
		}
	case *ast.SwitchStmt:
		c.inSwitch++
		defer func() { c.inSwitch-- }()
		if s.Init == nil && s.Tag == nil {
			res := ".skip"
			var clauses []*ast.CaseClause
			for _, cl := range s.Body.List {
				clauses = append(clauses, cl.(*ast.CaseClause))
			}
			for _, cl := range clauses {
				if cl.List == nil {
					res = "(.block " + c.block(cl.Body) + ")"
				}
			}
			for i := len(clauses) - 1; i >= 0; i-- {
				cl := clauses[i]
				if cl.List == nil {
					continue
				}
				var conds []string
				for _, v := range cl.List {
					conds = append(conds, c.expr(v))
				}
				cond := conds[len(conds)-1]
				for j := len(conds) - 2; j >= 0; j-- {
					cond = fmt.Sprintf("(.or %s %s)", conds[j], cond)
				}
				res = fmt.Sprintf("(.ite %s\n    (.block %s)\n    %s)", cond, c.block(cl.Body), res)
			}
			return res
		}
		if s.Init == nil && s.Tag != nil {
			tag := c.expr(s.Tag)
			bindTag := ""
			if !strings.HasPrefix(tag, "(.var ") && !strings.HasPrefix(tag, "(.fld ") {
				bindTag = fmt.Sprintf("(.bind \"_tag\" %s)", tag)
				tag = "(.var \"_tag\")"
			}
			res := ".skip"
			var clauses []*ast.CaseClause
			for _, cl := range s.Body.List {
				clauses = append(clauses, cl.(*ast.CaseClause))
			}
			// default clause (if any) is the final else
			for _, cl := range clauses {
				if cl.List == nil {
					res = "(.block " + c.block(cl.Body) + ")"
				}
			}
			for i := len(clauses) - 1; i >= 0; i-- {
				cl := clauses[i]
				if cl.List == nil {
					continue
				}
				var conds []string
				for _, v := range cl.List {
					conds = append(conds, fmt.Sprintf("(.eq %s %s)", tag, c.expr(v)))
				}
				cond := conds[len(conds)-1]
				for j := len(conds) - 2; j >= 0; j-- {
					cond = fmt.Sprintf("(.or %s %s)", conds[j], cond)
				}
				for _, b := range cl.Body {
					if br, ok := b.(*ast.BranchStmt); ok && br.Tok == token.FALLTHROUGH {
						return c.unknownS(s)
					}
				}
				res = fmt.Sprintf("(.ite %s\n    (.block %s)\n    %s)", cond, c.block(cl.Body), res)
			}
			if bindTag != "" {
				return "(.block (seqs [" + bindTag + ",\n    " + res + "]))"
			}
			return res
		}
	case *ast.RangeStmt:
		if s.Tok == token.DEFINE && c.typeOf(s.X) == "string" {
			// for i, r := range <string>: on ASCII text byte offsets and rune indices coincide; `asciiIndices` leaves the
			// embedding (.bad) on anything else
			ki, okk := s.Key.(*ast.Ident)
			vi, okv := s.Value.(*ast.Ident)
			if okk && okv && ki.Name != "_" && vi.Name != "_" {
				coll := c.expr(s.X)
				savedSw := c.inSwitch
				c.inSwitch = 0
				defer func() { c.inSwitch = savedSw }()
				c.types[ki.Name] = "int"
				c.types[vi.Name] = "rune"
				body := seqs([]string{fmt.Sprintf("(.bind %s (.call2 \"index\" %s (.var %s)))", leanStr(vi.Name), coll, leanStr(ki.Name)), c.block(s.Body.List)})
				return fmt.Sprintf("(.forIdx %s (.call1 \"asciiIndices\" %s)\n    %s)", leanStr(ki.Name), coll, body)
			}
		}
		if s.Tok == token.DEFINE && c.typeOf(s.X) == "string" {
			// for _, r := range <string>: the runes in order (any text)
			ki, okk := s.Key.(*ast.Ident)
			vi, okv := s.Value.(*ast.Ident)
			if okk && okv && ki.Name == "_" && vi.Name != "_" {
				coll := c.expr(s.X)
				savedSw := c.inSwitch
				c.inSwitch = 0
				defer func() { c.inSwitch = savedSw }()
				c.types[vi.Name] = "rune"
				body := seqs([]string{fmt.Sprintf("(.bind %s (.call2 \"runeAt\" %s (.var \"_k\")))", leanStr(vi.Name), coll), c.block(s.Body.List)})
				return fmt.Sprintf("(.forIdx \"_k\" (.call1 \"runeIndices\" %s)\n    %s)", coll, body)
			}
		}
		if s.Tok == token.DEFINE || (s.Key == nil && s.Value == nil) {
			coll := c.expr(s.X)
			et := strings.TrimPrefix(c.typeOf(s.X), "[]")
			key, val := "", ""
			if id, ok := s.Key.(*ast.Ident); ok && id.Name != "_" {
				key = id.Name
			}
			if id, ok := s.Value.(*ast.Ident); ok && id.Name != "_" {
				val = id.Name
			}
			if strings.HasPrefix(c.typeOf(s.X), "[]") && c.isStructPtr(et) {
				if _, isIface := ifaceImpl[et]; !isIface && !strings.HasPrefix(et, "*") {
					et = "*" + et // ranging over a slice of struct values: the loop variable is used like a pointer to the element
				}
				savedSw := c.inSwitch
				c.inSwitch = 0
				defer func() { c.inSwitch = savedSw }()
				if val != "" {
					c.types[val] = et
				}
				if key != "" {
					c.types[key] = "int"
				}
				switch {
				case key == "" && val != "":
					return fmt.Sprintf("(.forEach %s %s\n    %s)", leanStr(val), coll, c.block(s.Body.List))
				case key != "" && val == "":
					return fmt.Sprintf("(.forIdx %s %s\n    %s)", leanStr(key), coll, c.block(s.Body.List))
				case key != "" && val != "":
					body := seqs([]string{fmt.Sprintf("(.bind %s (.idx %s (.var %s)))", leanStr(val), coll, leanStr(key)), c.block(s.Body.List)})
					return fmt.Sprintf("(.forIdx %s %s\n    %s)", leanStr(key), coll, body)
				default:
					return fmt.Sprintf("(.forIdx \"_i\" %s\n    %s)", coll, c.block(s.Body.List))
				}
			}
		}
	case *ast.ForStmt:
		// for i := 0; i < len(X); i++ { ... }
		if as, ok := s.Init.(*ast.AssignStmt); ok && as.Tok == token.DEFINE && len(as.Lhs) == 1 && len(as.Rhs) == 1 {
			start, okStart := c.p.evalInt(as.Rhs[0])
			if !okStart || start < 0 {
				break
			}
			if iv, ok := as.Lhs[0].(*ast.Ident); ok {
				if be, ok := s.Cond.(*ast.BinaryExpr); ok && be.Op == token.LSS && c.p.src(be.X) == iv.Name {
					if ce, ok := be.Y.(*ast.CallExpr); ok && c.p.src(ce.Fun) == "len" && len(ce.Args) == 1 {
						if inc, ok := s.Post.(*ast.IncDecStmt); ok && inc.Tok == token.INC && c.p.src(inc.X) == iv.Name {
							if strings.HasPrefix(c.typeOf(ce.Args[0]), "[]") && !assignsTo(s.Body, iv.Name) {
								savedSw := c.inSwitch
								c.inSwitch = 0
								defer func() { c.inSwitch = savedSw }()
								c.types[iv.Name] = "int"
								body := c.block(s.Body.List)
								if start > 0 { // the loop starts at `start`: earlier indices are skipped
									body = fmt.Sprintf("(seqs [(.ite (.lt (.var %s) (.int %d)) .cont .skip),\n    %s])", leanStr(iv.Name), start, body)
								}
								return fmt.Sprintf("(.forIdx %s %s\n    %s)", leanStr(iv.Name), c.expr(ce.Args[0]), body)
							}
						}
					}
				}
			}
		}
	case *ast.BranchStmt:
		if s.Label == nil {
			switch s.Tok {
			case token.CONTINUE:
				return ".cont"
			case token.BREAK:
				if c.inSwitch == 0 {
					return ".brk"
				}
			}
		}
	case *ast.ExprStmt:
		// X.SetY(...): a statement that modifies a record; the model stops there (such runs are outside its domain)
		if ce, ok := s.X.(*ast.CallExpr); ok {
			if se, ok := ce.Fun.(*ast.SelectorExpr); ok && strings.HasPrefix(se.Sel.Name, "Set") && c.isStructPtr(c.typeOf(se.X)) {
				return fmt.Sprintf("(.effect %s)", leanStr(c.p.src(s)))
			}
		}
	case *ast.IncDecStmt:
		if id, ok := s.X.(*ast.Ident); ok {
			op := "add"
			if s.Tok == token.DEC {
				op = "sub"
			}
			return fmt.Sprintf("(.assign %s (.%s (.var %s) (.int 1)))", leanStr(id.Name), op, leanStr(id.Name))
		}
	case *ast.DeclStmt:
		if gd, ok := s.Decl.(*ast.GenDecl); ok && gd.Tok == token.VAR && len(gd.Specs) == 1 {
			vs := gd.Specs[0].(*ast.ValueSpec)
			if len(vs.Names) > 1 && len(vs.Values) == 0 {
				var parts []string
				for _, n := range vs.Names {
					z, ok := zeroOf(c.p.src(vs.Type))
					if !ok {
						return c.unknownS(s)
					}
					c.types[n.Name] = c.p.src(vs.Type)
					parts = append(parts, fmt.Sprintf("(.bind %s %s)", leanStr(n.Name), z))
				}
				return seqs(parts)
			}
			if len(vs.Names) == 1 {
				if len(vs.Values) == 1 {
					return fmt.Sprintf("(.bind %s %s)", leanStr(vs.Names[0].Name), c.expr(vs.Values[0]))
				}
				switch c.p.src(vs.Type) {
				case "int", "int32", "int64":
					return fmt.Sprintf("(.bind %s (.int 0))", leanStr(vs.Names[0].Name))
				case "string":
					return fmt.Sprintf("(.bind %s (.str \"\"))", leanStr(vs.Names[0].Name))
				case "bool":
					return fmt.Sprintf("(.bind %s (.bool false))", leanStr(vs.Names[0].Name))
				}
			}
		}
	}
	return c.unknownS(s)
}

// helperCall: a call to a function of the package whose body translates completely (if / switch / return only):
// hoisted as `.sub tmp params args <program>` in front of the current statement; the expression becomes `.var tmp`.
func (c *glCtx) helperCall(key string, args []ast.Expr) (string, bool) {
	fd, ok := c.p.funcs[key]
	if !ok || fd.Body == nil || fd.Type.Results == nil || len(fd.Type.Results.List) != 1 || c.tmp == nil {
		return "", false
	}
	switch key { // hand-modelled built-ins (loops, float arithmetic, rune slicing): see Ach/Model/GoLite.lean
	case "validator.isAlphanumeric", "validator.isUpperASCII", "CalculateCheckDigit", "validator.CalculateCheckDigit":
		return "", false
	}
	var params []string
	if fd.Type.Params != nil {
		for _, f := range fd.Type.Params.List {
			for _, n := range f.Names {
				params = append(params, n.Name)
			}
		}
	}
	if len(params) != len(args) {
		return "", false
	}
	// the callee must not touch its receiver (validator / converters are empty structs; package functions have none)
	rt := strings.SplitN(key, ".", 2)[0]
	if strings.Contains(key, ".") && rt != "validator" {
		return "", false // converters.* are hand-modelled (Ach/Model/Field.lean, tied by the field stream)
	}
	mark := len(unrecognised)
	c.q.translate(c.p, key)
	if strings.Contains(c.q.done[key], ".unknown") || c.q.busy[key] {
		unrecognised = unrecognised[:mark]
		c.q.drop(key)
		return "", false
	}
	var as []string
	for _, a := range args {
		as = append(as, c.expr(a))
	}
	*c.tmp++
	tmp := fmt.Sprintf("_t%d", *c.tmp)
	c.pre = append(c.pre, fmt.Sprintf("(.sub %s %s [%s] %s)", leanStr(tmp), leanStrList(params), strings.Join(as, ", "), glName(key)))
	return fmt.Sprintf("(.var %s)", leanStr(tmp)), true
}

func (q *glQueue) drop(key string) {
	delete(q.done, key)
	var o []string
	for _, k := range q.order {
		if k != key {
			o = append(o, k)
		}
	}
	q.order = o
}

// dictKeys: keys of a package-level map filled by `make<Name>()`: the first string of every element of the
// composite literal in that function (changeCodeDict, returnCodeDict)
func (p *pkg) dictKeys(name string) ([]string, bool) {
	if len(name) == 0 {
		return nil, false
	}
	fd, ok := p.funcs["make"+strings.ToUpper(name[:1])+name[1:]]
	if !ok || fd.Body == nil {
		return nil, false
	}
	var keys []string
	ast.Inspect(fd.Body, func(n ast.Node) bool {
		cl, ok := n.(*ast.CompositeLit)
		if !ok {
			return true
		}
		if _, isArr := cl.Type.(*ast.ArrayType); !isArr {
			return true
		}
		for _, el := range cl.Elts {
			if ecl, ok := el.(*ast.CompositeLit); ok && len(ecl.Elts) > 0 {
				if s, ok := p.evalStr(ecl.Elts[0]); ok {
					keys = append(keys, s)
				}
			}
		}
		return false
	})
	return keys, len(keys) > 0
}

// usabbrevKeys: the keys of the map literal in internal/usabbrev/usabbrev.go
func usabbrevKeys(p *pkg) []string {
	up := loadPkg(p.dir + "/internal/usabbrev")
	var keys []string
	for _, af := range up.files {
		ast.Inspect(af, func(n ast.Node) bool {
			cl, ok := n.(*ast.CompositeLit)
			if !ok {
				return true
			}
			if _, isMap := cl.Type.(*ast.MapType); !isMap {
				return true
			}
			for _, el := range cl.Elts {
				if kv, ok := el.(*ast.KeyValueExpr); ok {
					if k, ok := up.evalStr(kv.Key); ok && up.src(kv.Value) == "true" {
						keys = append(keys, k)
					}
				}
			}
			return false
		})
	}
	sort.Strings(keys)
	if len(keys) == 0 {
		keys = []string{unrec("usabbrev table not found")}
	}
	return keys
}

var errVarCache map[*pkg]map[string]bool

// errVars: package-level variables initialised with errors.New / fmt.Errorf (always non-nil errors)
func (p *pkg) errVars() map[string]bool {
	if errVarCache == nil {
		errVarCache = map[*pkg]map[string]bool{}
	}
	if m, ok := errVarCache[p]; ok {
		return m
	}
	m := map[string]bool{}
	for _, af := range p.files {
		for _, d := range af.Decls {
			gd, ok := d.(*ast.GenDecl)
			if !ok || gd.Tok != token.VAR {
				continue
			}
			for _, sp := range gd.Specs {
				vs := sp.(*ast.ValueSpec)
				for i, n := range vs.Names {
					if i < len(vs.Values) {
						if ce, ok := vs.Values[i].(*ast.CallExpr); ok {
							f := p.src(ce.Fun)
							if f == "errors.New" || f == "fmt.Errorf" {
								m[n.Name] = true
							}
						}
					}
				}
			}
		}
	}
	errVarCache[p] = m
	return m
}

func zeroOf(t string) (string, bool) {
	switch t {
	case "int", "int32", "int64", "uint":
		return "(.int 0)", true
	case "string":
		return "(.str \"\")", true
	case "bool":
		return "(.bool false)", true
	case "error":
		return ".nil", true
	}
	return "", false
}

func assignsTo(body ast.Node, name string) bool {
	found := false
	ast.Inspect(body, func(n ast.Node) bool {
		switch n := n.(type) {
		case *ast.AssignStmt:
			for _, l := range n.Lhs {
				if id, ok := l.(*ast.Ident); ok && id.Name == name {
					found = true
				}
			}
		case *ast.IncDecStmt:
			if id, ok := n.X.(*ast.Ident); ok && id.Name == name {
				found = true
			}
		}
		return true
	})
	return found
}

// translate one function (key "Type.Method") into a named Lean Prog definition
func (q *glQueue) translate(p *pkg, key string) {
	if _, ok := q.done[key]; ok || q.busy[key] {
		return
	}
	errOnly := strings.HasSuffix(key, "#err")
	fd, ok := p.funcs[strings.TrimSuffix(key, "#err")]
	if !ok || fd.Body == nil {
		q.done[key] = fmt.Sprintf("(.unknown %s)", leanStr(unrec("golite: no function %s", key)))
		q.order = append(q.order, key)
		return
	}
	q.busy[key] = true
	c := &glCtx{p: p, recv: recvIdent(fd), rtype: strings.SplitN(key, ".", 2)[0], optsPar: map[string]bool{}, q: q, tmp: new(int), types: map[string]string{}, errOnly: errOnly}
	if !strings.Contains(key, ".") {
		c.recv, c.rtype = "", ""
	}
	if fd.Type.Params != nil {
		for _, f := range fd.Type.Params.List {
			for _, n := range f.Names {
				c.types[n.Name] = p.src(f.Type)
			}
			if p.src(f.Type) == "*ValidateOpts" {
				for _, n := range f.Names {
					c.optsPar[n.Name] = true
				}
			}
		}
	}
	var namedInit []string
	if fd.Type.Results != nil {
		for _, f := range fd.Type.Results.List {
			for _, n := range f.Names {
				c.named = append(c.named, n.Name)
				c.types[n.Name] = p.src(f.Type)
				z, ok := zeroOf(p.src(f.Type))
				if !ok {
					z = fmt.Sprintf("(.unknown %s)", leanStr(unrec("golite: named result %s of %s", n.Name, key)))
				}
				namedInit = append(namedInit, fmt.Sprintf("(.bind %s %s)", leanStr(n.Name), z))
			}
		}
	}
	body := fd.Body.List
	// `if opts == nil { opts = &ValidateOpts{} }` : nil options and the zero value set no flag
	var kept []ast.Stmt
	for _, s := range body {
		if is, ok := s.(*ast.IfStmt); ok && is.Init == nil && is.Else == nil {
			if be, ok := is.Cond.(*ast.BinaryExpr); ok && be.Op == token.EQL && isNilIdent(be.Y) {
				if id, ok := be.X.(*ast.Ident); ok && c.optsPar[id.Name] && len(is.Body.List) == 1 && p.src(is.Body.List[0]) == id.Name+" = &ValidateOpts{}" {
					continue
				}
			}
		}
		kept = append(kept, s)
	}
	term := c.block(kept)
	if len(namedInit) > 0 {
		term = seqs(append(namedInit, term))
	}
	delete(q.busy, key)
	q.done[key] = term
	q.order = append(q.order, key)
}

// recordValidators: entry points "Type.Validate" (or ValidateWith) of every record type with a layout
func (p *pkg) recordValidators() []string {
	var res []string
	for _, r := range p.recordTypes() {
		for _, m := range []string{"ValidateWith", "Validate"} {
			if _, ok := p.funcs[r+"."+m]; ok {
				res = append(res, r+"."+m)
				break
			}
		}
	}
	sort.Strings(res)
	return res
}

func emitValidators(p *pkg, out string) {
	df := newLean("Dicts")
	df.pf("/-- keys of the code dictionaries (first string of every element of the literal in make<Dict>) -/\ndef dictKeys : List (String × List String) := [\n")
	for i, d := range []string{"changeCodeDict", "returnCodeDict"} {
		ks, _ := p.dictKeys(d)
		sep := ","
		if i == 1 {
			sep = ""
		}
		df.pf("  (%s, %s)%s\n", leanStr(d), leanStrList(ks), sep)
	}
	df.pf("]\n\n/-- keys of internal/usabbrev's table (`usabbrev.Valid(s)` = strings.ToUpper(s) is a key) -/\ndef usabbrevKeys : List String := %s\n", leanStrList(usabbrevKeys(p)))
	df.write(out)
	lf := newLean("Validators", "Ach.Model.GoLite")
	lf.pf("open Ach.GoLite\n\n")
	q := &glQueue{done: map[string]string{}, busy: map[string]bool{}}
	entries := p.recordValidators()
	for _, k := range entries {
		q.translate(p, k)
	}
	// the SEC-specific batch validators (BatchPPD.Validate, ...: Batch.verify and everything it calls, then the per-entry rules)
	var batchEntries []string
	for _, t := range sortedKeys(p.types) {
		if strings.HasPrefix(t, "Batch") && t != "Batch" && len(p.embedded(t, 0)) > 1 && p.embedded(t, 0)[1] == "Batch" {
			if _, ok := p.funcs[t+".Validate"]; ok {
				batchEntries = append(batchEntries, t+".Validate")
			}
		}
	}
	if _, ok := p.funcs["IATBatch.Validate"]; ok {
		batchEntries = append(batchEntries, "IATBatch.Validate")
	}
	for _, k := range batchEntries {
		q.translate(p, k)
	}
	fileEntries := []string{"File.ValidateWith"}
	for _, k := range fileEntries {
		q.translate(p, k)
	}
	// the comparison MergeFiles groups batches by
	q.translate(p, "BatchHeader.Equal")
	q.translate(p, "CalculateCheckDigit")
	q.translate(p, "validator.isUpperASCII")
	q.translate(p, "validator.isAlphanumeric")
	for _, k := range q.order {
		lf.pf("def %s : Prog :=\n  %s\n\n", glName(k), q.done[k])
	}
	lf.pf("/-- every translated function, callees first -/\ndef validatorProgs : List (String × Prog) := [\n")
	for i, k := range q.order {
		sep := ","
		if i == len(q.order)-1 {
			sep = ""
		}
		lf.pf("  (%s, %s)%s\n", leanStr(k), glName(k), sep)
	}
	lf.pf("]\n\n/-- the record-level entry points -/\ndef validatorEntries : List String := %s\n\n", leanStrList(entries))
	lf.pf("/-- the batch-level entry points (one per SEC code) -/\ndef batchValidatorEntries : List String := %s\n\n", leanStrList(batchEntries))
	lf.pf("/-- the file-level entry point -/\ndef fileValidatorEntries : List String := %s\n\n", leanStrList(fileEntries))
	// field types of the receiver structs (string / int / bool / other)
	lf.pf("def validatorFieldTypes : List (String × List (String × String)) := [\n")
	seen := map[string]bool{}
	var types []string
	for _, k := range q.order {
		t := strings.SplitN(k, ".", 2)[0]
		if !seen[t] {
			seen[t] = true
			types = append(types, t)
		}
	}
	for i, t := range types {
		var fs []string
		if ts := p.types[t]; ts != nil {
			if st, ok := ts.Type.(*ast.StructType); ok {
				for _, f := range st.Fields.List {
					for _, n := range f.Names {
						fs = append(fs, fmt.Sprintf("(%s, %s)", leanStr(n.Name), leanStr(p.src(f.Type))))
					}
				}
			}
		}
		sep := ","
		if i == len(types)-1 {
			sep = ""
		}
		lf.pf("  (%s, [%s])%s\n", leanStr(t), strings.Join(fs, ", "), sep)
	}
	lf.pf("]\n")
	lf.write(out)
}
