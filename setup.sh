#!/bin/bash
# Builds the framework offline from files on disk only (facts, Lean library + model driver, harness).
set -e
cd "$(dirname "$0")"
export GOFLAGS=-mod=mod GOPROXY=off GOSUMDB=off GOTOOLCHAIN=local
mkdir -p bin evidence replays .build
(cd gofacts && go build -o ../bin/gofacts .)
./bin/gofacts -repo /repo -out /verif/lean
(cd lean && lake build achmodel 2>&1 | tail -3)
# theorem modules: build what builds; a module that does not build is reported by its own check
(cd lean && for m in Ach/Props/*.lean; do mod=$(echo "${m%.lean}" | tr / .); lake build "$mod" >/dev/null 2>&1 || echo "setup: note: $mod does not build on this tree"; done)
cp /repo/go.sum harness/go.sum
(cd harness && go build -tags verif -o ../bin/harness ./cmd/harness)
echo "setup: ok"
