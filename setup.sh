#!/bin/bash
# Builds the framework offline from files on disk only.
set -e
cd "$(dirname "$0")"
export GOFLAGS=-mod=mod GOPROXY=off GOSUMDB=off GOTOOLCHAIN=local
mkdir -p bin evidence replays
(cd gofacts && go build -o ../bin/gofacts .)
./bin/gofacts -repo /repo -out /verif/lean
(cd lean && lake build 2>&1 | tail -5)
echo "setup: ok"
