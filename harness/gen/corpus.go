package gen

import (
	"io/fs"
	"os"
	"path/filepath"
	"sort"
	"strings"
)

// RepoRoot is where the moov-io/ach checkout under verification lives.
const RepoRoot = "/repo"

// CorpusPaths returns the sorted paths of every *.ach file under
// /repo/test/testdata (recursively, so the crashers are included; many of
// these files are intentionally invalid) and /repo/test/ach-*-read/.
func CorpusPaths() []string {
	var out []string
	walk := func(root string) {
		_ = filepath.WalkDir(root, func(p string, d fs.DirEntry, err error) error {
			if err == nil && !d.IsDir() && strings.HasSuffix(p, ".ach") {
				out = append(out, p)
			}
			return nil
		})
	}
	walk(filepath.Join(RepoRoot, "test", "testdata"))
	dirs, _ := filepath.Glob(filepath.Join(RepoRoot, "test", "ach-*-read"))
	for _, d := range dirs {
		walk(d)
	}
	sort.Strings(out)
	return out
}

// CorpusTexts returns the contents of every CorpusPaths file keyed by path.
func CorpusTexts() map[string][]byte {
	out := map[string][]byte{}
	for _, p := range CorpusPaths() {
		if b, err := os.ReadFile(p); err == nil {
			out[p] = b
		}
	}
	return out
}
