package gen

import (
	"fmt"
	"strconv"
	"strings"

	"github.com/moov-io/ach"
)

// g bundles the random source and the (defaulted) options of one run.
// It is copied by value when a sub-generator needs its own Rand.
type g struct {
	r      *Rand
	o      Opts
	amtCap int // upper bound for one entry amount so that control totals cannot overflow
}

func newG(r *Rand, o Opts) *g {
	return &g{r: r, o: o.withDefaults(), amtCap: ach.NachaEntryAmountLimit}
}

// with returns a copy of g drawing from another Rand.
func (x *g) with(r *Rand) *g {
	c := *x
	c.r = r
	return &c
}

// ---- text -----------------------------------------------------------------

var (
	asciiEdge  = []rune("ABCDEFGHIJKLMNOPQRSTUVWXYZabcdefghijklmnopqrstuvwxyz0123456789")
	asciiInner = append(append([]rune{}, asciiEdge...), []rune("      .,-#&/'()+:")...)
	// latin1 holds the non-ASCII runes validators.go isAlphanumeric admits,
	// except U+00A0 which is handled separately (it is a Unicode space).
	latin1 = func() []rune {
		out := []rune{0xA2, 0xAC, 0xA6, 0xB1}
		for c := rune(0xC0); c <= 0xFF; c++ {
			out = append(out, c)
		}
		return out
	}()
)

// length picks a field length in [1,max]; with FullWidth a third are exactly max.
func (x *g) length(max int) int {
	if x.o.FullWidth && x.r.Chance(1, 3) {
		return max
	}
	return x.r.Range(1, max)
}

// text returns 1..max characters without leading or trailing blanks (the
// parsers trim, so blank-edged values are not write/read fixed points).
// latin says whether this field may carry Latin-1 characters under NonASCII.
func (x *g) text(max int, latin bool) string {
	n := x.length(max)
	rs := make([]rune, n)
	for i := range rs {
		edge := i == 0 || i == n-1
		switch {
		case latin && x.o.NonASCII && x.r.Chance(1, 5):
			if (!edge || x.o.Risky) && x.r.Chance(1, 12) {
				rs[i] = 0xA0
			} else {
				rs[i] = Pick(x.r, latin1)
			}
		case edge:
			rs[i] = Pick(x.r, asciiEdge)
		default:
			rs[i] = Pick(x.r, asciiInner)
		}
	}
	return string(rs)
}

// optText is text or, half the time, the empty string (for optional fields).
func (x *g) optText(max int, latin bool) string {
	if x.r.Bool() {
		return ""
	}
	return x.text(max, latin)
}

// words returns one of the given phrases, or random text of up to max characters.
func (x *g) words(max int, latin bool, phrases ...string) string {
	if x.r.Chance(2, 3) {
		return Pick(x.r, phrases)
	}
	return x.text(max, latin)
}

const digitChars = "0123456789"

// digits returns exactly n decimal digits.
func (x *g) digits(n int) string {
	b := make([]byte, n)
	for i := range b {
		b[i] = digitChars[x.r.Intn(10)]
	}
	return string(b)
}

// number returns 1..max digits that do not start with '0' (so they survive
// both zero- and blank-padding unchanged).
func (x *g) number(max int) string {
	n := x.length(max)
	return string(digitChars[x.r.Range(1, 9)]) + x.digits(n-1)
}

func (x *g) upper(n int) string {
	b := make([]byte, n)
	for i := range b {
		b[i] = byte('A' + x.r.Intn(26))
	}
	return string(b)
}

// ---- routing numbers, dates, amounts --------------------------------------

// aba8 returns the first eight digits of a routing number, with a Federal
// Reserve prefix in 01..12 or 21..32 (never all zeros, which Create and the
// control-record validators treat as "unset").
func (x *g) aba8() string {
	prefix := x.r.Range(1, 12)
	if x.r.Bool() {
		prefix += 20
	}
	return fmt.Sprintf("%02d", prefix) + x.digits(6)
}

// routing returns a nine digit ABA routing number with a correct check digit.
func (x *g) routing() string {
	a := x.aba8()
	return a + strconv.Itoa(ach.CalculateCheckDigit(a))
}

var monthDays = [...]int{31, 28, 31, 30, 31, 30, 31, 31, 30, 31, 30, 31}

// mmdd returns a valid month/day pair (never Feb 29).
func (x *g) mmdd() (int, int) {
	m := x.r.Range(1, 12)
	if x.o.FullWidth && x.r.Chance(1, 4) {
		return m, monthDays[m-1]
	}
	return m, x.r.Range(1, monthDays[m-1])
}

// date returns a valid YYMMDD date.
func (x *g) date() string {
	m, d := x.mmdd()
	return fmt.Sprintf("%02d%02d%02d", x.r.Range(0, 99), m, d)
}

// hhmm returns a valid 24h time.
func (x *g) hhmm() string {
	return fmt.Sprintf("%02d%02d", x.r.Range(0, 23), x.r.Range(0, 59))
}

// julian returns a three digit day-of-year.
func (x *g) julian() string { return fmt.Sprintf("%03d", x.r.Range(1, 366)) }

// amount returns a positive amount in cents, at most limit (0 = no SEC limit)
// and at most g.amtCap.
func (x *g) amount(limit int) int {
	if limit == 0 || limit > x.amtCap {
		limit = x.amtCap
	}
	switch {
	case x.o.FullWidth && x.r.Chance(1, 5):
		return limit
	case x.r.Chance(1, 12):
		return 1
	case x.r.Chance(1, 6):
		return x.r.Range(1, limit)
	}
	hi := 5000000
	if hi > limit {
		hi = limit
	}
	return x.r.Range(1, hi)
}

// trace15 returns a plausible 15 digit trace number (for "original trace" fields).
func (x *g) trace15() string { return x.aba8() + fmt.Sprintf("%07d", x.r.Range(1, 9999999)) }

var usStates = []string{"AL", "AK", "AZ", "CA", "CO", "DC", "FL", "GA", "HI", "IA", "IL", "KS", "MA", "MD", "NC", "NJ", "NY", "OH", "PA", "TX", "VA", "WA", "WY"}

// accountNumber returns a DFI account number of up to max characters.
func (x *g) accountNumber(max int) string {
	if x.r.Chance(2, 3) {
		n := x.number(max)
		if len(n) > 6 && x.r.Bool() {
			n = n[:3] + "-" + n[4:]
		}
		return n
	}
	return x.text(max, true)
}

// rtrim drops trailing blanks (library helpers such as WriteCorrectionData pad).
func rtrim(s string) string { return strings.TrimRight(s, " ") }
