package gen

import (
	"fmt"

	"github.com/moov-io/ach"
)

var (
	isoCountries  = []string{"US", "CA", "GB", "DE", "MX", "FR", "JP", "NL", "AU", "BR"}
	isoCurrencies = []string{"USD", "CAD", "GBP", "EUR", "MXN", "JPY", "AUD", "BRL"}
	// secondary SEC / purpose codes validators.go isTransactionTypeCode admits
	iatTypeCodes = []string{"ANN", "BUS", "DEP", "LOA", "MIS", "MOR", "PEN", "REM", "RLS", "SAL", "TAX",
		"ARC", "BOC", "IAT", "MTE", "POP", "POS", "RCK", "SHR", "TEL", "WEB"}
)

// IATBatch returns one valid, created IAT batch: every entry has the seven
// mandatory addenda 10-16, up to two Addenda17 and up to five Addenda18
// (both bounded by MaxAddenda), and an Addenda99 when the category is Return.
// IAT notifications of change (IATCOR) are generated under Opts.IATCorrections only.
func IATBatch(r *Rand, o Opts) (ach.IATBatch, error) {
	o.SECs = []string{ach.IAT}
	x := newG(r, o)
	bySEC, order, err := x.o.plans()
	if err != nil {
		return ach.IATBatch{}, err
	}
	if len(order) == 0 {
		return ach.IATBatch{}, fmt.Errorf("gen: options admit no IAT batch (categories %v, service classes %v)", o.Categories, o.ServiceClasses)
	}
	x.amtCap = amountCap(1, x.o.MaxEntries)
	return x.iatBatch(pickPlan(r, bySEC, order), r.Fork(1), "b1")
}

func (x *g) iatBatchHeader(p plan, id string) *ach.IATBatchHeader {
	// reader.go recognises an IAT header by the *bytes* 50..53 of the line, so
	// multi-byte text in the fields before it is a Risky shape.
	latin := x.o.Risky
	bh := ach.NewIATBatchHeader()
	bh.ID = id
	bh.ServiceClassCode = p.scc
	bh.ForeignExchangeIndicator = Pick(x.r, []string{"FV", "VF", "FF"})
	if bh.ForeignExchangeIndicator == "FF" && x.r.Bool() {
		bh.ForeignExchangeReferenceIndicator = 3 // reference is space filled
	} else { // fixed-to-fixed payments may carry a rate / reference number too: the validator does not couple the two fields
		bh.ForeignExchangeReferenceIndicator = x.r.Range(1, 2)
		bh.ForeignExchangeReference = x.text(15, latin)
	}
	bh.ISODestinationCountryCode = Pick(x.r, isoCountries)
	bh.OriginatorIdentification = x.text(10, latin)
	bh.StandardEntryClassCode = ach.IAT
	if p.cat == ach.CategoryNOC {
		bh.IATIndicator = ach.IATCOR
		bh.StandardEntryClassCode = ach.COR
	}
	bh.CompanyEntryDescription = x.words(10, true, "TRADEPAYMT", "PAYROLL", "REMIT")
	bh.ISOOriginatingCurrencyCode = Pick(x.r, isoCurrencies)
	bh.ISODestinationCurrencyCode = Pick(x.r, isoCurrencies)
	bh.EffectiveEntryDate = x.date()
	bh.OriginatorStatusCode = x.r.Range(0, 2)
	bh.ODFIIdentification = x.aba8()
	return bh
}

func (x *g) iatBatch(p plan, hr *Rand, id string) (ach.IATBatch, error) {
	bh := x.with(hr).iatBatchHeader(p, id)
	b := ach.NewIATBatch(bh)
	// IATBatch.build keeps the control's company identification; real files
	// repeat the originator identification there.  (ASCII unless Risky, as
	// BatchControl.Parse slices bytes.)
	b.GetControl().CompanyIdentification = bh.OriginatorIdentification

	n := x.r.Range(1, x.o.MaxEntries)
	preset := x.o.PresetTraces && x.r.Bool()
	seq := x.r.Range(1, 9999999-3*n)
	for i := 0; i < n; i++ {
		credit := x.r.Bool()
		switch p.scc {
		case ach.CreditsOnly:
			credit = true
		case ach.DebitsOnly:
			credit = false
		}
		e := x.iatEntry(p, credit)
		e.ID = fmt.Sprintf("%se%d", id, i+1)
		if preset || e.Addenda99 != nil {
			// IATEntryDetail.SetTraceNumber does not copy the trace into the
			// Addenda99, so returns always get their trace here.
			if !preset {
				seq = i + 1
			}
			e.SetTraceNumber(bh.ODFIIdentification, seq)
			if e.Addenda99 != nil {
				e.Addenda99.TraceNumber = e.TraceNumber
			}
			seq += x.r.Range(1, 3)
		}
		b.AddEntry(e)
	}
	if err := b.Create(); err != nil {
		return b, fmt.Errorf("gen: IAT/%s/%d Create: %w", p.cat, p.scc, err)
	}
	return b, nil
}

func (x *g) iatEntry(p plan, credit bool) *ach.IATEntryDetail {
	forward := p.cat == ach.CategoryForward
	e := ach.NewIATEntryDetail() // AddendaRecordIndicator 1, Category Forward
	kind := kindNormal
	switch {
	case !forward:
	case x.r.Chance(1, 10):
		kind = kindPrenote
	case x.r.Chance(1, 10):
		kind = kindZero
	}
	if forward {
		e.TransactionCode = x.txCode(credit, kind, false)
	} else {
		e.TransactionCode = x.returnTxCode(credit)
	}
	if kind == kindNormal {
		e.Amount = x.amount(0)
	}
	e.SetRDFI(x.routing())
	e.DFIAccountNumber = x.accountNumber(35)
	// The OFAC screening indicators are left blank: IATEntryDetail.Parse
	// replaces whatever was written by a blank.
	e.Category = p.cat

	a10 := ach.NewAddenda10()
	a10.TransactionTypeCode = Pick(x.r, iatTypeCodes)
	a10.ForeignPaymentAmount = e.Amount
	if x.o.FullWidth && x.r.Chance(1, 5) {
		a10.ForeignPaymentAmount = 999999999999999999 // 18 digits
	}
	a10.ForeignTraceNumber = x.optText(22, true)
	a10.Name = x.text(35, true)
	e.Addenda10 = a10

	a11 := ach.NewAddenda11()
	a11.OriginatorName = x.text(35, true)
	a11.OriginatorStreetAddress = x.text(35, true)
	e.Addenda11 = a11

	a12 := ach.NewAddenda12()
	a12.OriginatorCityStateProvince = x.text(30, true) + "*" + x.upper(2) + `\`
	a12.OriginatorCountryPostalCode = Pick(x.r, isoCountries) + "*" + x.number(9) + `\`
	e.Addenda12 = a12

	a13 := ach.NewAddenda13()
	a13.ODFIName = x.text(35, true)
	a13.ODFIIDNumberQualifier = Pick(x.r, []string{"01", "02", "03"})
	a13.ODFIIdentification = x.number(34)
	a13.ODFIBranchCountryCode = Pick(x.r, isoCountries)
	e.Addenda13 = a13

	a14 := ach.NewAddenda14()
	a14.RDFIName = x.text(35, true)
	a14.RDFIIDNumberQualifier = Pick(x.r, []string{"01", "02", "03"})
	a14.RDFIIdentification = x.number(34)
	a14.RDFIBranchCountryCode = Pick(x.r, isoCountries)
	e.Addenda14 = a14

	a15 := ach.NewAddenda15()
	a15.ReceiverIDNumber = x.optText(15, true)
	a15.ReceiverStreetAddress = x.text(35, true)
	e.Addenda15 = a15

	a16 := ach.NewAddenda16()
	a16.ReceiverCityStateProvince = x.text(30, true) + "*" + x.upper(2) + `\`
	a16.ReceiverCountryPostalCode = Pick(x.r, isoCountries) + "*" + x.number(9) + `\`
	e.Addenda16 = a16

	e.AddendaRecords = 7
	max17, max18 := x.o.MaxAddenda, x.o.MaxAddenda
	if max17 > 2 {
		max17 = 2 // IATBatch.Validate limits
	}
	if max18 > 5 {
		max18 = 5
	}
	for i, n := 0, x.r.Range(0, max17); i < n; i++ {
		a := ach.NewAddenda17()
		a.PaymentRelatedInformation = x.text(80, true)
		e.AddAddenda17(a)
		e.AddendaRecords++
	}
	for i, n := 0, x.r.Range(0, max18); i < n; i++ {
		a := ach.NewAddenda18()
		a.ForeignCorrespondentBankName = x.text(35, true)
		a.ForeignCorrespondentBankIDNumberQualifier = Pick(x.r, []string{"01", "02", "03"})
		a.ForeignCorrespondentBankIDNumber = x.number(34)
		a.ForeignCorrespondentBankBranchCountryCode = Pick(x.r, isoCountries)
		e.AddAddenda18(a)
		e.AddendaRecords++
	}
	if p.cat == ach.CategoryNOC {
		a := ach.NewAddenda98()
		a.ChangeCode = Pick(x.r, plainChangeCodes)
		a.OriginalTrace = x.trace15()
		a.OriginalDFI = x.aba8()
		a.CorrectedData = x.correctedData(a.ChangeCode)
		e.Addenda98 = a
		e.AddendaRecords++
	} else if !forward {
		a := x.addenda99()
		// IAT returns carry the payment amount in the first 10 columns of the
		// addenda information.
		a.IATPaymentAmount(fmt.Sprintf("%010d", e.Amount))
		a.IATAddendaInformation(x.optText(34, true))
		e.Addenda99 = a
		e.AddendaRecords++
	}
	return e
}
