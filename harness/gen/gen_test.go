package gen

import (
	"bytes"
	"fmt"
	"testing"

	"github.com/moov-io/ach"
)

const selfTestSeeds = 2000

// optVariants are the option sets the self-test sweeps.
var optVariants = []struct {
	name string
	o    Opts
}{
	{"default", Opts{}},
	{"allCategories", Opts{Categories: AllCategories()}},
	{"nonASCII", Opts{NonASCII: true, Categories: AllCategories()}},
	{"fullWidth", Opts{FullWidth: true, Categories: AllCategories(), PresetTraces: true}},
	{"fullWidth+nonASCII", Opts{FullWidth: true, NonASCII: true, Offset: true}},
	{"offset", Opts{Offset: true, PresetTraces: true, SECs: []string{"PPD", "CCD", "CTX", "WEB", "TEL"}}},
	{"presetTraces", Opts{PresetTraces: true, CollidingTraces: true, Categories: AllCategories()}},
	{"headerPool", Opts{HeaderPool: 5, Routes: 2, PresetTraces: true, CollidingTraces: true, Categories: []string{"Forward", "Return"}}},
	{"creditsOnly", Opts{ServiceClasses: []int{ach.CreditsOnly}, MaxAddenda: -1}},
	{"big", Opts{MinBatches: 4, MaxBatches: 6, MaxEntries: 9, MaxAddenda: 5, Categories: AllCategories()}},
}

// roundTrip checks every property the task asks of one generated file and
// returns the LF rendering.
func roundTrip(f *ach.File) ([]byte, error) {
	if err := f.Validate(); err != nil {
		return nil, fmt.Errorf("Validate: %w", err)
	}
	var lf []byte
	for _, crlf := range []bool{false, true} {
		out, err := Write(f, crlf)
		if err != nil {
			return nil, fmt.Errorf("Write(crlf=%v): %w", crlf, err)
		}
		back, err := ach.NewReader(bytes.NewReader(out)).Read()
		if err != nil {
			return nil, fmt.Errorf("Read(crlf=%v): %w", crlf, err)
		}
		again, err := Write(&back, crlf)
		if err != nil {
			return nil, fmt.Errorf("re-Write(crlf=%v): %w", crlf, err)
		}
		if !bytes.Equal(out, again) {
			return nil, fmt.Errorf("write/read/write mismatch (crlf=%v):\n%s", crlf, firstDiff(out, again))
		}
		if !crlf {
			lf = out
		}
	}
	return lf, nil
}

func firstDiff(a, b []byte) string {
	la, lb := bytes.Split(a, []byte("\n")), bytes.Split(b, []byte("\n"))
	for i := 0; i < len(la) && i < len(lb); i++ {
		if !bytes.Equal(la[i], lb[i]) {
			return fmt.Sprintf("line %d\n  wrote  %q\n  reread %q", i+1, la[i], lb[i])
		}
	}
	return fmt.Sprintf("line counts %d vs %d", len(la), len(lb))
}

func TestGenerator(t *testing.T) {
	total := NewStats()
	for _, v := range optVariants {
		stats := NewStats()
		failures := 0
		for seed := uint64(0); seed < selfTestSeeds; seed++ {
			f, err := File(NewRand(seed), v.o)
			if err != nil {
				failures++
				if failures <= 5 {
					t.Errorf("%s seed %d: File: %v", v.name, seed, err)
				}
				continue
			}
			out, err := roundTrip(f)
			if err != nil {
				failures++
				if failures <= 5 {
					t.Errorf("%s seed %d (%s): %v", v.name, seed, Describe(f), err)
				}
				continue
			}
			// determinism: same seed, same bytes
			f2, err := File(NewRand(seed), v.o)
			if err != nil {
				t.Fatalf("%s seed %d: second File: %v", v.name, seed, err)
			}
			out2, err := Write(f2, false)
			if err != nil || !bytes.Equal(out, out2) || f.ID != f2.ID {
				failures++
				if failures <= 5 {
					t.Errorf("%s seed %d: not deterministic (%v)", v.name, seed, err)
				}
				continue
			}
			stats.Add(f)
			total.Add(f)
		}
		t.Logf("%-18s failures=%d batches=%d entries=%d addenda=%d offsets=%d\n    SEC  %s\n    cat  %s\n    scc  %s",
			v.name, failures, stats.Batches, stats.Entries, stats.Addenda, stats.Offsets,
			keysOf(stats.SECs, true), keysOf(stats.Categories, true), keysOf(stats.ServiceClasses, true))
	}
	t.Logf("TOTAL batches=%d entries=%d addenda=%d offset entries=%d\n  SEC codes        %s\n  categories       %s\n  addenda kinds    %s\n  service classes  %s\n  transaction codes %s",
		total.Batches, total.Entries, total.Addenda, total.Offsets, keysOf(total.SECs, true), keysOf(total.Categories, true),
		keysOf(total.AddendaKinds, true), keysOf(total.ServiceClasses, true), keysOf(total.TxCodes, true))

	// coverage assertions
	for _, sec := range AllSECs() {
		if total.SECs[sec] == 0 {
			t.Errorf("SEC %s never generated", sec)
		}
	}
	for _, c := range AllCategories() {
		if total.Categories[c] == 0 {
			t.Errorf("category %s never generated", c)
		}
	}
	for _, k := range []string{"02", "05", "10", "11", "12", "13", "14", "15", "16", "17", "18", "98", "98R", "99", "99D", "99C"} {
		if total.AddendaKinds[k] == 0 {
			t.Errorf("addenda kind %s never generated", k)
		}
	}
	for _, scc := range []int{200, 220, 225, 280} {
		if total.ServiceClasses[scc] == 0 {
			t.Errorf("service class %d never generated", scc)
		}
	}
	// every transaction code the library knows (validators.go StandardTransactionCode)
	for code := 21; code <= 88; code++ {
		if ach.StandardTransactionCode(code) == nil && total.TxCodes[code] == 0 {
			t.Errorf("transaction code %d never generated", code)
		}
	}
	if total.Offsets == 0 {
		t.Errorf("no OFFSET entries generated")
	}
}

// TestPerSEC exercises Batch / IATBatch / ADVBatch directly and checks that
// every SEC reaches every service class and category its table entry promises.
func TestPerSEC(t *testing.T) {
	o := Opts{Categories: AllCategories(), PresetTraces: true, Offset: true}
	for _, sec := range AllSECs() {
		seen := map[string]bool{}
		for seed := uint64(0); seed < 300; seed++ {
			r := NewRand(seed)
			switch sec {
			case ach.IAT:
				b, err := IATBatch(r, o)
				if err != nil {
					t.Fatalf("IAT seed %d: %v", seed, err)
				}
				if err := b.Validate(); err != nil {
					t.Fatalf("IAT seed %d: %v", seed, err)
				}
				seen[fmt.Sprintf("%s/%d", b.Category(), b.GetHeader().ServiceClassCode)] = true
			case ach.ADV:
				b, err := ADVBatch(r, o)
				if err != nil {
					t.Fatalf("ADV seed %d: %v", seed, err)
				}
				if err := b.Validate(); err != nil {
					t.Fatalf("ADV seed %d: %v", seed, err)
				}
				seen[fmt.Sprintf("%s/%d", b.Category(), b.GetHeader().ServiceClassCode)] = true
			default:
				b, err := Batch(r, sec, o)
				if err != nil {
					t.Fatalf("%s seed %d: %v", sec, seed, err)
				}
				if err := b.Validate(); err != nil {
					t.Fatalf("%s seed %d: %v", sec, seed, err)
				}
				if got := b.GetHeader().StandardEntryClassCode; got != sec {
					t.Fatalf("%s seed %d: got SEC %s", sec, seed, got)
				}
				seen[fmt.Sprintf("%s/%d", EntryCategory(b.GetEntries()[0]), b.GetHeader().ServiceClassCode)] = true
			}
		}
		for _, cat := range AllCategories() {
			if sec == ach.ADV {
				continue
			}
			if !compatible(sec, cat) {
				continue
			}
			for _, scc := range serviceClasses(sec, cat) {
				if !seen[fmt.Sprintf("%s/%d", cat, scc)] {
					t.Errorf("%s: %s with service class %d never generated", sec, cat, scc)
				}
			}
		}
		keys := map[string]int{}
		for k := range seen {
			keys[k] = 1
		}
		t.Logf("%s: %s", sec, keysOf(keys, false))
	}
}

// TestPoolRecurs checks the point of HeaderPool / Routes: equal headers and
// routes recur across seeds.
func TestPoolRecurs(t *testing.T) {
	o := Opts{HeaderPool: 3, Routes: 2, SECs: []string{"PPD", "CCD", "WEB"}}
	headers, routes := map[string]int{}, map[string]int{}
	for seed := uint64(0); seed < 200; seed++ {
		f, err := File(NewRand(seed), o)
		if err != nil {
			t.Fatal(err)
		}
		routes[f.Header.ImmediateOrigin+">"+f.Header.ImmediateDestination]++
		for _, b := range f.Batches {
			h := *b.GetHeader()
			h.BatchNumber, h.ID = 0, ""
			headers[h.String()]++
		}
	}
	if len(headers) != 3 || len(routes) != 2 {
		t.Errorf("want 3 distinct headers and 2 routes, got %d and %d", len(headers), len(routes))
	}
}

func TestCorpus(t *testing.T) {
	paths := CorpusPaths()
	texts := CorpusTexts()
	if len(paths) < 80 || len(texts) != len(paths) {
		t.Errorf("corpus: %d paths, %d texts", len(paths), len(texts))
	}
	t.Logf("corpus: %d files, first %s, last %s", len(paths), paths[0], paths[len(paths)-1])
}
