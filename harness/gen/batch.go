package gen

import (
	"fmt"
	"strconv"

	"github.com/moov-io/ach"
)

// Batch returns one valid, created batch of the given SEC code (any of
// AllSECs() except "IAT" and "ADV"; see IATBatch and ADVBatch).  Category and
// service class are drawn from what o allows for that SEC; for "COR" the
// category is NOC (or RefusedNOC) even if o.Categories does not list it.
// Create has been called exactly once on the result; do not call it again on
// a batch with an Offset (the library panics, see Opts.Risky notes).
func Batch(r *Rand, sec string, o Opts) (ach.Batcher, error) {
	if sec == ach.IAT || sec == ach.ADV {
		return nil, fmt.Errorf("gen: use IATBatch / ADVBatch for %s", sec)
	}
	o.SECs = []string{sec}
	x := newG(r, o)
	bySEC, order, err := x.o.plans()
	if err != nil {
		return nil, err
	}
	if len(order) == 0 {
		return nil, fmt.Errorf("gen: options admit no %s batch (categories %v, service classes %v)", sec, o.Categories, o.ServiceClasses)
	}
	x.amtCap = amountCap(1, x.o.MaxEntries)
	return x.batch(pickPlan(r, bySEC, order), r.Fork(1), "b1")
}

// amountCap bounds a single amount so that neither a batch control nor the
// file control total (12 digits each) can overflow.
func amountCap(batches, entries int) int {
	c := ach.NachaFileDebitCreditLimit / (batches * (entries + 2))
	if c > ach.NachaEntryAmountLimit {
		c = ach.NachaEntryAmountLimit
	}
	return c
}

// batchHeader fills a BatchHeader for plan p.  Every random choice comes from
// x.r, which for HeaderPool variants is a generator seeded by the variant
// number only.
func (x *g) batchHeader(p plan, id string) *ach.BatchHeader {
	bh := ach.NewBatchHeader()
	bh.ID = id
	bh.ServiceClassCode = p.scc
	bh.StandardEntryClassCode = p.sec
	bh.CompanyName = x.words(16, true, "ACME CORP", "Payee Name", "Your Company inc", "GOV AGENCY")
	bh.CompanyDiscretionaryData = x.optText(20, true)
	switch {
	case x.o.Risky && x.o.NonASCII && x.r.Chance(1, 4):
		bh.CompanyIdentification = x.text(10, true)
	case x.r.Bool():
		bh.CompanyIdentification = x.digits(9)
	default:
		bh.CompanyIdentification = string("139"[x.r.Intn(3)]) + x.digits(9)
	}
	switch {
	case p.sec == ach.RCK:
		bh.CompanyEntryDescription = "REDEPCHECK" // required by BatchRCK
	case p.sec == ach.ENR:
		bh.CompanyEntryDescription = "AUTOENROLL" // required by BatchENR
	case p.prenote:
		bh.CompanyEntryDescription = Pick(x.r, []string{"PRENOTE", "Prenote"})
	default:
		bh.CompanyEntryDescription = x.words(10, true, "PAYROLL", "REG.SALARY", "Vndr Pay", "ACH "+p.sec, "REVERSAL", "PURCHASE")
	}
	switch x.r.Intn(3) {
	case 0:
		bh.CompanyDescriptiveDate = x.date()
	case 1:
		bh.CompanyDescriptiveDate = "SD" + x.hhmm()
	}
	bh.EffectiveEntryDate = x.date()
	bh.OriginatorStatusCode = 1
	if p.sec == ach.DNE || x.r.Chance(1, 6) {
		bh.OriginatorStatusCode = 2 // DNE must come from a government agency
	}
	bh.ODFIIdentification = x.aba8()
	return bh
}

// batch builds and creates one standard batch.  hr drives the header only.
func (x *g) batch(p plan, hr *Rand, id string) (ach.Batcher, error) {
	bh := x.with(hr).batchHeader(p, id)
	b, err := ach.NewBatch(bh)
	if err != nil {
		return nil, err
	}
	info := secTable[p.sec]
	n := x.r.Range(1, x.o.MaxEntries)

	// Offsets: the library appends balancing "OFFSET" entries during Create and
	// forces service class 200.  Only SECs whose validator accepts such an
	// entry qualify, and the summed amount must still fit the 10 digit field.
	withOffset := x.o.Offset && info.offset && p.cat == ach.CategoryForward &&
		(len(x.o.ServiceClasses) == 0 || contains(x.o.ServiceClasses, ach.MixedDebitsAndCredits)) && x.r.Bool()
	ex := x
	if withOffset {
		ex = x.with(x.r)
		if c := ach.NachaEntryAmountLimit / n; c < ex.amtCap {
			ex.amtCap = c
		}
	}

	for i := 0; i < n; i++ {
		credit := info.credit
		switch {
		case p.sec == ach.ATX && p.cat != ach.CategoryForward:
			credit = true
		case p.scc == ach.CreditsOnly:
			credit = true
		case p.scc == ach.DebitsOnly:
			credit = false
		case info.credit && info.debit:
			credit = x.r.Bool()
		}
		e := ex.entry(p, credit)
		e.ID = fmt.Sprintf("%se%d", id, i+1)
		b.AddEntry(e)
	}
	if x.o.PresetTraces && x.r.Bool() {
		x.presetTraces(b, withOffset)
	}
	if withOffset {
		b.WithOffset(&ach.Offset{
			RoutingNumber: x.routing(),
			AccountNumber: x.accountNumber(17),
			AccountType:   Pick(x.r, []ach.OffsetAccountType{ach.OffsetChecking, ach.OffsetSavings}),
			Description:   x.optText(2, false),
		})
	}
	if err := b.Create(); err != nil {
		return nil, fmt.Errorf("gen: %s/%s/%d Create: %w", p.sec, p.cat, p.scc, err)
	}
	return b, nil
}

// presetTraces assigns ascending trace numbers carrying the header's ODFI, so
// that Batch.build keeps them.  With CollidingTraces half of the sequences
// depend on the header alone, so two batches with equal headers collide.
func (x *g) presetTraces(b ach.Batcher, withOffset bool) {
	odfi := b.GetHeader().ODFIIdentification
	n := len(b.GetEntries())
	room := 9999999 - 3*n - 2 // gaps of at most 3, plus up to two offset entries
	seq := x.r.Range(1, room)
	step := func() int { return x.r.Range(1, 3) }
	switch {
	case x.o.CollidingTraces && x.r.Bool():
		k, _ := strconv.Atoi(odfi)
		seq, step = 1+k%1000, func() int { return 1 }
	case x.o.FullWidth && !withOffset && x.r.Chance(1, 4):
		seq, step = 9999999-(n-1), func() int { return 1 } // last entry gets 9999999
	}
	for _, e := range b.GetEntries() {
		e.SetTraceNumber(odfi, seq) // also copies the trace into 02/98/99 addenda
		seq += step()
	}
}

// ADVBatch returns one valid, created ADV batch (service class 280,
// originator status 0, ADVEntryDetail records).  The category is Forward, or
// Return (each entry followed by an Addenda99) when o.Categories allows it.
func ADVBatch(r *Rand, o Opts) (ach.Batcher, error) {
	if len(o.SECs) > 0 && !contains(o.SECs, ach.ADV) {
		o.SECs = append(append([]string{}, o.SECs...), ach.ADV)
	}
	x := newG(r, o)
	cats := x.o.advCategories()
	if len(cats) == 0 {
		cats = []string{ach.CategoryForward}
	}
	return x.advBatch(Pick(r, cats), "b1")
}

func (x *g) advBatch(cat, id string) (ach.Batcher, error) {
	bh := ach.NewBatchHeader()
	bh.ID = id
	bh.ServiceClassCode = ach.AutomatedAccountingAdvices
	bh.StandardEntryClassCode = ach.ADV
	// CompanyName doubles as the ACH operator data of the ADV batch control.
	bh.CompanyName = x.words(16, true, "FRB ATLANTA", "ACH OPERATOR", "EPN")
	bh.CompanyDiscretionaryData = x.optText(20, true)
	bh.CompanyIdentification = x.digits(9)
	bh.CompanyEntryDescription = x.words(10, true, "Accounting", "ADVICE")
	bh.CompanyDescriptiveDate = x.optText(6, false)
	bh.EffectiveEntryDate = x.date()
	bh.OriginatorStatusCode = 0 // ADV files are prepared by an ACH operator
	bh.ODFIIdentification = x.aba8()
	b := ach.NewBatchADV(bh)
	n := x.r.Range(1, x.o.MaxEntries)
	for i := 0; i < n; i++ {
		e := x.advEntry(cat)
		e.ID = fmt.Sprintf("%se%d", id, i+1)
		b.AddADVEntry(e)
	}
	if err := b.Create(); err != nil {
		return nil, fmt.Errorf("gen: ADV/%s Create: %w", cat, err)
	}
	return b, nil
}
