package gen

import (
	"fmt"
	"time"

	"github.com/moov-io/ach"
)

// ---- transaction codes ----------------------------------------------------

const (
	kindNormal  = iota // x2 / x7 (55 for loan debits)
	kindPrenote        // x3 / x8, amount must be zero
	kindZero           // x4 / x9 "zero dollar with remittance data"
)

// txCode picks a forward transaction code.  Account types: 2 checking,
// 3 savings, 4 general ledger, 5 loan (loan debits exist only as 55).
// narrow restricts to checking/savings (ACK, ATX, DNE, ENR validators).
func (x *g) txCode(credit bool, kind int, narrow bool) int {
	t := x.r.Range(2, 5)
	if narrow {
		t = x.r.Range(2, 3)
	}
	if !credit && t == 5 {
		if kind == kindNormal {
			return ach.LoanDebit
		}
		t = x.r.Range(2, 4)
	}
	if credit {
		return t*10 + 2 + kind
	}
	return t*10 + 7 + kind
}

// returnTxCode picks a Return/NOC transaction code (x1 credit, x6 debit).
func (x *g) returnTxCode(credit bool) int {
	t := x.r.Range(2, 5)
	if credit {
		return t*10 + 1
	}
	return t*10 + 6
}

// ---- standard entries -----------------------------------------------------

// entry builds one EntryDetail (with its addenda) that the validator of
// p.sec accepts for category p.cat and direction credit/debit.  The trace
// number is left for Batch.Create (or presetTraces) to assign.
func (x *g) entry(p plan, credit bool) *ach.EntryDetail {
	info := secTable[p.sec]
	forward := p.cat == ach.CategoryForward
	e := ach.NewEntryDetail()

	// transaction code and amount
	kind := kindNormal
	switch {
	case !forward:
	case p.prenote || p.sec == ach.DNE || p.sec == ach.ENR:
		kind = kindPrenote
	case p.sec == ach.ACK || p.sec == ach.ATX:
		kind = kindZero
	case info.prenote && x.r.Chance(1, 10):
		kind = kindPrenote
	case info.zeroDollar && x.r.Chance(1, 10):
		kind = kindZero
	}
	narrow := p.sec == ach.ACK || p.sec == ach.ATX || p.sec == ach.DNE || p.sec == ach.ENR
	switch {
	case forward:
		e.TransactionCode = x.txCode(credit, kind, narrow)
	case p.sec == ach.ATX:
		e.TransactionCode = ach.CheckingReturnNOCCredit // the only return code BatchATX admits
	default:
		e.TransactionCode = x.returnTxCode(credit)
	}
	switch {
	case kind == kindPrenote, narrow, p.sec == ach.COR:
		e.Amount = 0
	case !forward && p.sec != ach.MTE && x.r.Chance(1, 10):
		e.Amount = 0 // returned prenote
	default:
		// NB: for CCD/CTX the library rejects a zero amount even with the x4/x9
		// codes (ValidAmountForCodes only exempts ACK/ATX), so those carry money.
		e.Amount = x.amount(info.limit)
	}

	e.SetRDFI(x.routing())
	e.DFIAccountNumber = x.accountNumber(17)

	// how many Addenda05 records
	n05 := 0
	if forward || p.sec == ach.CTX && p.cat == ach.CategoryReturn {
		switch info.a05 {
		case 1:
			if x.o.MaxAddenda > 0 && (x.r.Bool() || kind == kindZero) {
				n05 = 1
			}
		case 2:
			n05 = x.r.Range(0, x.o.MaxAddenda)
		}
		if (p.sec == ach.DNE || p.sec == ach.ENR) && n05 == 0 {
			n05 = 1 // mandatory
		}
	}

	// SEC specific fields
	switch p.sec {
	case ach.ARC, ach.BOC, ach.RCK:
		e.SetCheckSerialNumber(x.number(15))
		e.IndividualName = x.text(22, true)
	case ach.POP:
		e.SetPOPCheckSerialNumber(x.number(9))
		e.SetPOPTerminalCity(x.upper(x.r.Range(2, 4)))
		e.SetPOPTerminalState(Pick(x.r, usStates))
		e.IndividualName = x.text(22, true)
	case ach.TRC, ach.XCK:
		e.SetCheckSerialNumber(x.number(15))
		e.SetProcessControlField(x.text(6, false))
		e.SetItemResearchNumber(x.text(16, false))
		if p.sec == ach.TRC {
			e.SetItemTypeIndicator(Pick(x.r, []string{"01", "11", "1", "  "}))
		}
	case ach.CTX, ach.ATX, ach.TRX:
		if p.sec == ach.ATX {
			e.SetOriginalTraceNumber(x.trace15())
		} else {
			e.IdentificationNumber = x.optText(15, true)
		}
		records := n05
		if p.sec == ach.CTX && p.cat == ach.CategoryReturn {
			records++ // BatchCTX counts the Addenda99 as well
		}
		e.SetCATXAddendaRecords(records) // also (ab)uses AddendaRecordIndicator, fixed below
		e.SetCATXReceivingCompany(x.text(16, true))
		if p.sec == ach.TRX {
			e.SetItemTypeIndicator(Pick(x.r, []string{"01", "11"}))
		} else {
			e.DiscretionaryData = x.optText(2, true)
		}
	case ach.ACK:
		e.SetOriginalTraceNumber(x.trace15())
		e.SetReceivingCompany(x.text(22, true))
		e.DiscretionaryData = x.optText(2, true)
	case ach.TEL, ach.WEB:
		e.IdentificationNumber = x.optText(15, true)
		e.IndividualName = x.text(22, true)
		e.SetPaymentType(Pick(x.r, []string{"R", "S"}))
	case ach.POS:
		e.IdentificationNumber = x.optText(15, true)
		e.IndividualName = x.text(22, true)
		e.DiscretionaryData = x.cardTransactionType()
	case ach.SHR:
		e.SetSHRCardExpirationDate(fmt.Sprintf("%02d%02d", x.r.Range(1, 12), x.r.Range(18, 50)))
		e.SetSHRDocumentReferenceNumber(x.digits(11))
		e.SetSHRIndividualCardAccountNumber(x.number(22))
		e.DiscretionaryData = x.cardTransactionType()
	case ach.MTE:
		e.IdentificationNumber = x.number(15) // BatchMTE: must not be blank or all zeros
		e.IndividualName = x.text(22, true)
	case ach.DNE, ach.ENR:
		e.SetOriginalTraceNumber(x.trace15())
		e.SetReceivingCompany(x.text(22, true))
	default: // PPD, CCD, CIE, COR
		e.IdentificationNumber = x.optText(15, true)
		e.IndividualName = x.text(22, true)
		e.DiscretionaryData = x.optText(2, true)
	}

	// addenda
	for i := 0; i < n05; i++ {
		a := ach.NewAddenda05()
		switch p.sec {
		case ach.DNE:
			a.PaymentRelatedInformation = x.dnePaymentInfo()
		case ach.ENR:
			a.PaymentRelatedInformation = x.enrPaymentInfo()
		default:
			a.PaymentRelatedInformation = x.text(80, true)
		}
		e.AddAddenda05(a)
	}
	if forward && info.a02 {
		e.Addenda02 = x.addenda02()
	}
	e.Category = p.cat
	switch p.cat {
	case ach.CategoryReturn:
		e.Addenda99 = x.addenda99()
	case ach.CategoryDishonoredReturn:
		e.Addenda99Dishonored = x.addenda99Dishonored()
	case ach.CategoryDishonoredReturnContested:
		e.Addenda99Contested = x.addenda99Contested()
	case ach.CategoryNOC:
		e.Addenda98 = x.addenda98()
	case CategoryRefusedNOC:
		e.Category = ach.CategoryNOC
		e.Addenda98Refused = x.addenda98Refused()
	}
	e.AddendaRecordIndicator = 0
	if n05 > 0 || e.Addenda02 != nil || !forward {
		e.AddendaRecordIndicator = 1
	}
	return e
}

func (x *g) cardTransactionType() string {
	return Pick(x.r, []string{"01", "02", "03", "11", "12", "13", "21", "99"})
}

// dnePaymentInfo formats the DNE Addenda05 payload with the library's own type.
func (x *g) dnePaymentInfo() string {
	m, d := x.mmdd()
	return ach.DNEPaymentInformation{
		DateOfDeath: time.Date(2000+x.r.Range(0, 68), time.Month(m), d, 0, 0, 0, 0, time.UTC),
		CustomerSSN: x.digits(9),
		Amount:      fmt.Sprintf("%d.%02d", x.r.Range(0, 99999), x.r.Range(0, 99)),
	}.String()
}

// enrPaymentInfo formats the ENR Addenda05 payload with the library's own type.
// All parts are ASCII: ENRPaymentInformation.String slices the name by byte.
func (x *g) enrPaymentInfo() string {
	info := ach.ENRPaymentInformation{
		TransactionCode:            Pick(x.r, []int{22, 27, 32, 37}),
		DFIAccountNumber:           x.number(17),
		IndividualIdentification:   x.digits(9),
		EnrolleeClassificationCode: Pick(x.r, []string{"A", "B", "0", "1"}),
	}
	rt := x.routing()
	info.RDFIIdentification, info.CheckDigit = rt[:8], rt[8:]
	if info.EnrolleeClassificationCode == "B" {
		info.IndividualName = x.upper(x.r.Range(3, 15))
	} else {
		info.IndividualName = x.upper(x.r.Range(2, 7)) + " " + x.upper(x.r.Range(2, 15))
	}
	return info.String()
}

func (x *g) addenda02() *ach.Addenda02 {
	a := ach.NewAddenda02()
	a.ReferenceInformationOne = x.optText(7, true)
	a.ReferenceInformationTwo = x.optText(3, true)
	a.TerminalIdentificationCode = x.optText(6, true)
	a.TransactionSerialNumber = x.text(6, true)
	m, d := x.mmdd()
	a.TransactionDate = fmt.Sprintf("%02d%02d", m, d)
	a.AuthorizationCodeOrExpireDate = x.optText(6, true)
	a.TerminalLocation = x.text(27, true)
	a.TerminalCity = x.text(15, true)
	a.TerminalState = Pick(x.r, usStates)
	return a
}

// Return codes that reader.go classifies as a plain Addenda99 (R61..R76 select
// the dishonored / contested layouts instead).
var plainReturnCodes = []string{
	"R01", "R02", "R03", "R04", "R05", "R06", "R07", "R08", "R09", "R10", "R11", "R12", "R13", "R14", "R15", "R16",
	"R17", "R18", "R19", "R20", "R21", "R22", "R23", "R24", "R25", "R26", "R27", "R28", "R29", "R30", "R31", "R32",
	"R33", "R34", "R35", "R36", "R37", "R38", "R39", "R40", "R41", "R42", "R43", "R44", "R45", "R46", "R47", "R50",
	"R51", "R52", "R53", "R80", "R81", "R82", "R83", "R84", "R85",
}

func (x *g) addenda99() *ach.Addenda99 {
	a := ach.NewAddenda99()
	a.ReturnCode = Pick(x.r, plainReturnCodes)
	a.OriginalTrace = x.trace15()
	if a.ReturnCode == "R14" || a.ReturnCode == "R15" || x.r.Chance(1, 8) {
		a.DateOfDeath = x.date()
	}
	a.OriginalDFI = x.aba8()
	a.AddendaInformation = x.optText(44, true)
	return a
}

func (x *g) addenda99Dishonored() *ach.Addenda99Dishonored {
	a := ach.NewAddenda99Dishonored()
	a.DishonoredReturnReasonCode = Pick(x.r, []string{"R61", "R62", "R67", "R68", "R69", "R70"})
	a.OriginalEntryTraceNumber = x.trace15()
	a.OriginalReceivingDFIIdentification = x.aba8()
	a.ReturnTraceNumber = x.trace15()
	a.ReturnSettlementDate = x.julian()
	a.ReturnReasonCode = Pick(x.r, plainReturnCodes)[1:]
	a.AddendaInformation = x.optText(21, true)
	return a
}

func (x *g) addenda99Contested() *ach.Addenda99Contested {
	a := ach.NewAddenda99Contested()
	a.ContestedReturnCode = Pick(x.r, []string{"R71", "R72", "R73", "R74", "R75", "R76"})
	a.OriginalEntryTraceNumber = x.trace15()
	a.DateOriginalEntryReturned = x.date()
	a.OriginalReceivingDFIIdentification = x.aba8()
	a.OriginalSettlementDate = x.julian()
	a.ReturnTraceNumber = x.trace15()
	a.ReturnSettlementDate = x.julian()
	a.ReturnReasonCode = Pick(x.r, plainReturnCodes)[1:]
	a.DishonoredReturnTraceNumber = x.trace15()
	a.DishonoredReturnSettlementDate = x.julian()
	a.DishonoredReturnReasonCode = Pick(x.r, []string{"61", "62", "67", "68", "69", "70"})
	return a
}

// Change codes reader.go classifies as a plain Addenda98 (C61..C69 select the
// refused layout).
var plainChangeCodes = []string{"C01", "C02", "C03", "C04", "C05", "C06", "C07", "C08", "C09", "C13", "C14"}

// correctedData builds the 29 column corrected data for a change code with the
// library's own WriteCorrectionData where it knows the layout.
func (x *g) correctedData(code string) string {
	cd := &ach.CorrectedData{
		AccountNumber:   x.number(17),
		RoutingNumber:   x.routing(),
		Name:            x.text(22, true),
		TransactionCode: x.txCode(x.r.Bool(), kindNormal, false),
		Identification:  x.text(15, true),
	}
	switch code {
	case "C03", "C06", "C07":
		cd.AccountNumber = x.number(9) // leave room for the other parts
	case "C08", "C13", "C14":
		return x.text(29, true) // no layout known to the library
	}
	return rtrim(ach.WriteCorrectionData(code, cd))
}

func (x *g) addenda98() *ach.Addenda98 {
	if x.o.Risky && x.r.Chance(1, 6) {
		return x.addenda98IAT()
	}
	a := ach.NewAddenda98()
	a.ChangeCode = Pick(x.r, plainChangeCodes)
	a.OriginalTrace = x.trace15()
	a.OriginalDFI = x.aba8()
	a.CorrectedData = x.correctedData(a.ChangeCode)
	return a
}

// addenda98IAT (Risky only) yields an Addenda98 whose unexported
// iatCorrectedData is set, the only public way being Parse of an IAT-NOC
// shaped line (corrected data spilling into columns 65-70).
func (x *g) addenda98IAT() *ach.Addenda98 {
	line := "798C01" + x.trace15() + "      " + x.aba8() + x.digits(29) + x.upper(6) + "         " + "000000000000000"
	a := ach.NewAddenda98()
	a.Parse(line)
	return a
}

func (x *g) addenda98Refused() *ach.Addenda98Refused {
	a := ach.NewAddenda98Refused()
	a.RefusedChangeCode = Pick(x.r, []string{"C61", "C62", "C63", "C64", "C65", "C66", "C67", "C68", "C69"})
	a.OriginalTrace = x.trace15()
	a.OriginalDFI = x.aba8()
	a.ChangeCode = Pick(x.r, plainChangeCodes)
	a.CorrectedData = x.correctedData(a.ChangeCode)
	a.TraceSequenceNumber = fmt.Sprintf("%07d", x.r.Range(1, 9999999))
	return a
}

// ---- ADV entries ----------------------------------------------------------

var advCredits = []int{ach.CreditForDebitsOriginated, ach.CreditForCreditsReceived, ach.CreditForCreditsRejected, ach.CreditSummary}
var advDebits = []int{ach.DebitForCreditsOriginated, ach.DebitForDebitsReceived, ach.DebitForDebitsRejectedBatches, ach.DebitSummary}

func (x *g) advEntry(cat string) *ach.ADVEntryDetail {
	e := ach.NewADVEntryDetail()
	if x.r.Bool() {
		e.TransactionCode = Pick(x.r, advCredits)
	} else {
		e.TransactionCode = Pick(x.r, advDebits)
	}
	e.SetRDFI(x.routing())
	e.DFIAccountNumber = x.accountNumber(15)
	if x.o.FullWidth && x.r.Chance(1, 5) {
		e.Amount = 999999999999 // 12 digit field; the ADV control totals have 20
	} else {
		e.Amount = x.amount(0)
	}
	e.AdviceRoutingNumber = x.routing()
	e.FileIdentification = x.optText(5, false)
	e.ACHOperatorData = x.optText(1, false)
	e.IndividualName = x.text(22, true)
	e.DiscretionaryData = x.optText(2, true)
	e.ACHOperatorRoutingNumber = x.aba8()
	e.JulianDay = x.r.Range(1, 366)
	e.Category = cat
	if cat == ach.CategoryReturn {
		e.Addenda99 = x.addenda99()
		e.AddendaRecordIndicator = 1
	}
	return e
}
