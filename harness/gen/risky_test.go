package gen

import (
	"fmt"
	"strings"
	"testing"

	"github.com/moov-io/ach"
)

// The shapes behind Opts.Risky, each reduced to a hand-built file.  Every one
// of them passes File.Validate but is not a write/read/write fixed point (or
// worse) on the library as found in /repo.  The test only LOGS whether the
// misbehaviour still reproduces, so it keeps passing once /repo is fixed.

func riskyHeader() ach.FileHeader {
	fh := ach.NewFileHeader()
	fh.ImmediateDestination, fh.ImmediateOrigin = "231380104", "121042882"
	fh.FileCreationDate, fh.FileCreationTime = "240102", "0304"
	fh.ImmediateDestinationName, fh.ImmediateOriginName = "Federal Reserve Bank", "My Bank Name"
	return fh
}

func riskyBatchHeader(sec string) *ach.BatchHeader {
	bh := ach.NewBatchHeader()
	bh.ServiceClassCode = ach.MixedDebitsAndCredits
	bh.StandardEntryClassCode = sec
	bh.CompanyName, bh.CompanyIdentification, bh.CompanyEntryDescription = "ACME CORP", "121042882", "PAYROLL"
	bh.EffectiveEntryDate, bh.ODFIIdentification = "240103", "12104288"
	return bh
}

func riskyEntry(code int, name string) *ach.EntryDetail {
	e := ach.NewEntryDetail()
	e.TransactionCode = code
	e.SetRDFI("231380104")
	e.DFIAccountNumber, e.Amount, e.IndividualName = "123456789", 100, name
	if code == ach.CheckingReturnNOCCredit {
		e.Amount = 0
	}
	return e
}

// riskyFile assembles header + one batch of the given entries and runs the
// same round trip as the self-test.
func riskyFile(bh *ach.BatchHeader, entries ...*ach.EntryDetail) (err error) {
	defer func() {
		if p := recover(); p != nil {
			err = fmt.Errorf("PANIC: %v", p)
		}
	}()
	b, err := ach.NewBatch(bh)
	if err != nil {
		return err
	}
	for _, e := range entries {
		b.AddEntry(e)
	}
	if err := b.Create(); err != nil {
		return fmt.Errorf("Batch.Create: %w", err)
	}
	f := ach.NewFile()
	f.SetHeader(riskyHeader())
	f.AddBatch(b)
	if err := f.Create(); err != nil {
		return fmt.Errorf("File.Create: %w", err)
	}
	_, err = roundTrip(f)
	return err
}

func TestRiskyShapes(t *testing.T) {
	report := func(name string, err error) {
		if err == nil {
			t.Logf("%-34s no longer reproduces (round trip is clean)", name)
			return
		}
		msg := err.Error()
		if i := strings.Index(msg, "\n"); i > 0 && !strings.Contains(msg, "mismatch") {
			msg = msg[:i]
		}
		t.Logf("%-34s REPRODUCES: %s", name, msg)
	}

	// control: the plain file is fine
	if err := riskyFile(riskyBatchHeader(ach.PPD), riskyEntry(22, "Jane Doe")); err != nil {
		t.Fatalf("control file must round trip: %v", err)
	}

	// 1. Addenda98 with iatCorrectedData: String() is 100 columns.
	{
		a := ach.NewAddenda98()
		a.Parse("798C01121042880000001      12104288" + strings.Repeat("1", 29) + "ABCDEF" + strings.Repeat(" ", 9) + "121042880000001")
		e := riskyEntry(ach.CheckingReturnNOCCredit, "Jane Doe")
		e.Category, e.Addenda98, e.AddendaRecordIndicator = ach.CategoryNOC, a, 1
		report("addenda98-iatCorrectedData", riskyFile(riskyBatchHeader(ach.COR), e))
	}
	// 2. non-ASCII CompanyIdentification: BatchControl.Parse slices bytes.
	{
		bh := riskyBatchHeader(ach.PPD)
		bh.CompanyIdentification = "12104é882"
		report("nonASCII-CompanyIdentification", riskyFile(bh, riskyEntry(22, "Jane Doe")))
	}
	// 3. first non-ASCII character after byte 1024: the reader's charset
	//    sniffing settles on windows-1252 and mangles it.
	{
		var es []*ach.EntryDetail
		for i := 0; i < 11; i++ {
			es = append(es, riskyEntry(22, "Jane Doe"))
		}
		es = append(es, riskyEntry(22, "José Doe"))
		report("late-nonASCII (byte>1024)", riskyFile(riskyBatchHeader(ach.PPD), es...))
		// the same character early in the file is fine
		if err := riskyFile(riskyBatchHeader(ach.PPD), riskyEntry(22, "José Doe")); err != nil {
			t.Errorf("early non-ASCII must round trip: %v", err)
		}
	}
	// 4. U+00A0 at the edge of a field: admitted by isAlphanumeric, eaten by
	//    strings.TrimSpace in the parsers.
	{
		bh := riskyBatchHeader(ach.PPD)
		bh.CompanyName = "ACME CORP "
		report("trailing-NBSP CompanyName", riskyFile(bh, riskyEntry(22, "Jane Doe")))
		bh = riskyBatchHeader(ach.PPD)
		bh.CompanyName = " "
		report("NBSP-only CompanyName", riskyFile(bh, riskyEntry(22, "Jane Doe")))
	}
	// 5. IAT batch header with multi-byte text before column 50: reader.go
	//    parseBH looks at the bytes r.line[50:53].
	{
		var err error
		func() {
			defer func() {
				if p := recover(); p != nil {
					err = fmt.Errorf("PANIC: %v", p)
				}
			}()
			b, e := IATBatch(NewRand(1), Opts{})
			if e != nil {
				t.Fatal(e)
			}
			f := ach.NewFile()
			f.SetHeader(riskyHeader())
			f.AddIATBatch(b)
			if e := f.Create(); e != nil {
				t.Fatal(e)
			}
			if _, e := roundTrip(f); e != nil {
				t.Fatalf("control IAT file must round trip: %v", e)
			}
			f.IATBatches[0].GetHeader().OriginatorIdentification = "Zürich 12"
			_, err = roundTrip(f)
		}()
		report("nonASCII IAT header before col 50", err)
	}
	// 7. ADV file whose batch entry hashes sum beyond 10 digits: createFileADV
	//    stores the untruncated sum, File.Validate compares with the truncated one.
	{
		f := ach.NewFile()
		f.SetHeader(riskyHeader())
		var err error
		for n := 0; n < 4 && err == nil; n++ {
			bh := riskyBatchHeader(ach.ADV)
			bh.ServiceClassCode, bh.OriginatorStatusCode = ach.AutomatedAccountingAdvices, 0
			b := ach.NewBatchADV(bh)
			for i := 0; i < 100; i++ {
				e := ach.NewADVEntryDetail()
				e.TransactionCode, e.Amount, e.JulianDay = ach.CreditForDebitsOriginated, 100, 50
				e.SetRDFI("322271627")
				e.DFIAccountNumber, e.AdviceRoutingNumber, e.IndividualName, e.ACHOperatorRoutingNumber = "1", "121042882", "Name", "01100001"
				b.AddADVEntry(e)
			}
			err = b.Create()
			f.AddBatch(b)
		}
		if err == nil {
			if err = f.Create(); err == nil {
				err = f.Validate()
			}
		}
		report("ADV file entry hash > 10 digits", err)
	}
	// 6. second Create on a batch with an Offset and >= 2 entries.
	{
		var err error
		func() {
			defer func() {
				if p := recover(); p != nil {
					err = fmt.Errorf("PANIC: %v", p)
				}
			}()
			b, _ := ach.NewBatch(riskyBatchHeader(ach.PPD))
			b.AddEntry(riskyEntry(22, "Jane Doe"))
			b.AddEntry(riskyEntry(22, "John Doe"))
			b.WithOffset(&ach.Offset{RoutingNumber: "121042882", AccountNumber: "1", AccountType: ach.OffsetChecking})
			if err = b.Create(); err == nil {
				err = b.Create()
			}
		}()
		report("offset: second Batch.Create", err)
	}
}
