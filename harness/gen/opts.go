package gen

import (
	"fmt"
	"sort"

	"github.com/moov-io/ach"
)

// CategoryRefusedNOC is this package's name for a COR batch whose entries
// carry Addenda98Refused records.  (The library itself files those entries
// under ach.CategoryNOC.)
const CategoryRefusedNOC = "RefusedNOC"

// Opts controls generation.  The zero value is usable: all SEC codes, 1..3
// batches of up to 4 entries, Forward entries only, ASCII, no offsets, trace
// numbers assigned by Create.
type Opts struct {
	// SECs restricts generation to these SEC codes; empty = all of AllSECs().
	// "IAT" and "ADV" are valid members.  A file is either all-ADV or a mix of
	// standard and IAT batches (ach.File.Create rejects ADV mixed with others).
	SECs []string

	MinBatches, MaxBatches int // defaults 1..3
	MaxEntries             int // default 4
	// MaxAddenda bounds repeatable addenda (Addenda05 for CTX/ATX/TRX/ENR,
	// Addenda17/18 for IAT).  0 = default 2; negative = none.  SECs limited to
	// one Addenda05 (PPD, CCD, CIE, WEB, ACK, DNE) never get more than one.
	MaxAddenda int

	// Categories is a subset of {Forward, Return, NOC, DishonoredReturn,
	// DishonoredReturnContested, RefusedNOC}; empty = Forward only.  NOC and
	// RefusedNOC batches are always COR batches (the library rejects Addenda98
	// in any other SEC), and COR batches are always NOC/RefusedNOC.  If SECs
	// explicitly lists "COR" and no NOC category is enabled, NOC is added.
	Categories []string

	NonASCII  bool // Latin-1 characters in fields checked with isAlphanumeric
	FullWidth bool // sometimes fill strings to their full width / numerics to max
	Offset    bool // sometimes configure a batch Offset (PPD, CCD, CTX, WEB forward batches)

	// IATCorrections: IAT notification-of-change batches (header IATIndicator "IATCOR", class COR, entries carrying an
	// Addenda98 next to the seven mandatory addenda) are drawn when "IAT" and the NOC category are admitted.
	IATCorrections bool

	PresetTraces    bool // sometimes pre-set valid ascending trace numbers
	CollidingTraces bool // with PresetTraces: sometimes derive them from the header only, so equal headers get equal traces

	ServiceClasses []int // restrict header service class codes (200, 220, 225); ADV is always 280

	// SameRoute / Routes: draw (ImmediateOrigin, ImmediateDestination) from a
	// fixed pool of 1..3 pairs that is the same for every seed.  SameRoute is
	// shorthand for Routes=1.  Routes=0 and !SameRoute: a fresh pair per file.
	SameRoute bool
	Routes    int

	// HeaderPool > 0: batch headers (and with them SEC, category and service
	// class) are drawn from a pool of this many variants.  The pool depends on
	// the Opts only, never on the seed, so equal headers recur across batches
	// and files.  Not used for ADV files nor by Batch/IATBatch/ADVBatch.
	HeaderPool int

	// Risky enables shapes that are valid for the validator but are known to
	// trip genuine library bugs (see the README section in the final report):
	//   - U+00A0 at the start/end of a field (TrimSpace eats it on read),
	//   - non-ASCII CompanyIdentification (BatchControl.Parse slices bytes),
	//   - non-ASCII text before column 50 of an IAT batch header (reader
	//     sniffs r.line[50:53] by byte),
	//   - non-ASCII text that first appears after byte 1024 of the file (the
	//     reader's charset sniffing then decodes the stream as windows-1252),
	//   - Addenda98 carrying iatCorrectedData (String() is 100 columns),
	//   - ADV files with more than 300 entries (createFileADV does not
	//     truncate the summed entry hash to 10 digits, Validate does).
	Risky bool
}

// secInfo is what the per-SEC validators in /repo admit.
type secInfo struct {
	credit, debit bool // directions admitted for forward entries
	prenote       bool // prenote transaction codes admitted (amount must be 0)
	zeroDollar    bool // x4/x9 "zero dollar remittance" codes admitted
	limit         int  // per-entry amount limit in cents (0 = 10-digit field max)
	a05           int  // Addenda05 per entry: 0 none, 1 at most one, 2 many (MaxAddenda)
	a02           bool // needs Addenda02
	returns       bool // may appear as Return / DishonoredReturn / Contested
	offset        bool // batch.WithOffset produces a batch its own validator accepts
}

var secTable = map[string]secInfo{
	ach.ACK: {credit: true, a05: 1},
	ach.ARC: {debit: true, prenote: true, limit: 2500000, returns: true},
	ach.ATX: {credit: true, a05: 2, returns: true},
	ach.BOC: {debit: true, prenote: true, limit: 2500000, returns: true},
	ach.CCD: {credit: true, debit: true, prenote: true, zeroDollar: true, a05: 1, returns: true, offset: true},
	ach.CIE: {credit: true, prenote: true, a05: 1, returns: true},
	ach.COR: {credit: true, debit: true},
	ach.CTX: {credit: true, debit: true, prenote: true, zeroDollar: true, a05: 2, returns: true, offset: true},
	ach.DNE: {credit: true, a05: 1},
	ach.ENR: {credit: true, a05: 2},
	ach.MTE: {credit: true, debit: true, a02: true, returns: true},
	ach.POP: {debit: true, prenote: true, limit: 2500000, returns: true},
	ach.POS: {credit: true, debit: true, prenote: true, a02: true, returns: true},
	ach.PPD: {credit: true, debit: true, prenote: true, a05: 1, returns: true, offset: true},
	ach.RCK: {debit: true, prenote: true, limit: 250000, returns: true},
	ach.SHR: {credit: true, debit: true, prenote: true, a02: true, returns: true},
	ach.TEL: {debit: true, prenote: true, returns: true},
	ach.TRC: {debit: true, prenote: true, returns: true},
	ach.TRX: {debit: true, prenote: true, a05: 2, returns: true},
	ach.WEB: {credit: true, debit: true, prenote: true, a05: 1, returns: true, offset: true},
	ach.XCK: {debit: true, prenote: true, limit: 250000, returns: true},
	ach.IAT: {credit: true, debit: true, prenote: true, zeroDollar: true, returns: true},
}

// AllSECs returns the 22 SEC codes ach.NewBatch builds a Batcher for, plus
// "IAT" (which has its own IATBatch type), sorted: 23 codes in all.
func AllSECs() []string {
	return []string{
		ach.ACK, ach.ADV, ach.ARC, ach.ATX, ach.BOC, ach.CCD, ach.CIE, ach.COR, ach.CTX, ach.DNE, ach.ENR, ach.IAT,
		ach.MTE, ach.POP, ach.POS, ach.PPD, ach.RCK, ach.SHR, ach.TEL, ach.TRC, ach.TRX, ach.WEB, ach.XCK,
	}
}

// AllCategories lists every value Opts.Categories understands.
func AllCategories() []string {
	return []string{
		ach.CategoryForward, ach.CategoryReturn, ach.CategoryNOC,
		ach.CategoryDishonoredReturn, ach.CategoryDishonoredReturnContested, CategoryRefusedNOC,
	}
}

// plan is everything decided about a batch before any field is generated.
type plan struct {
	sec, cat string
	scc      int
	prenote  bool // "PRENOTE" batch: every entry is a zero-amount prenote
}

func (o Opts) withDefaults() Opts {
	if o.MinBatches <= 0 {
		o.MinBatches = 1
	}
	if o.MaxBatches <= 0 {
		o.MaxBatches = 3
	}
	if o.MaxBatches < o.MinBatches {
		o.MaxBatches = o.MinBatches
	}
	if o.MaxEntries <= 0 {
		o.MaxEntries = 4
	}
	switch {
	case o.MaxAddenda == 0:
		o.MaxAddenda = 2
	case o.MaxAddenda < 0:
		o.MaxAddenda = 0
	}
	if o.SameRoute {
		o.Routes = 1
	}
	if o.Routes > 3 {
		o.Routes = 3
	}
	return o
}

func contains[T comparable](xs []T, x T) bool {
	for _, y := range xs {
		if x == y {
			return true
		}
	}
	return false
}

// secs returns the requested SEC codes, validated and sorted.
func (o Opts) secs() ([]string, error) {
	if len(o.SECs) == 0 {
		return AllSECs(), nil
	}
	var out []string
	for _, s := range o.SECs {
		if !contains(AllSECs(), s) {
			return nil, fmt.Errorf("gen: unknown SEC code %q", s)
		}
		if !contains(out, s) {
			out = append(out, s)
		}
	}
	sort.Strings(out)
	return out, nil
}

// categories returns the effective category list in canonical order.
func (o Opts) categories() ([]string, error) {
	for _, c := range o.Categories {
		if !contains(AllCategories(), c) {
			return nil, fmt.Errorf("gen: unknown category %q", c)
		}
	}
	var out []string
	for _, c := range AllCategories() {
		if contains(o.Categories, c) || (len(o.Categories) == 0 && c == ach.CategoryForward) {
			out = append(out, c)
		}
	}
	if contains(o.SECs, ach.COR) && !contains(out, ach.CategoryNOC) && !contains(out, CategoryRefusedNOC) {
		out = append(out, ach.CategoryNOC)
	}
	return out, nil
}

// compatible says whether the library can validate a batch of this SEC whose
// entries all have this category.
func compatible(sec, cat string) bool {
	switch cat {
	case ach.CategoryForward:
		return sec != ach.COR
	case ach.CategoryNOC, CategoryRefusedNOC:
		return sec == ach.COR
	case ach.CategoryReturn:
		return sec == ach.ADV || secTable[sec].returns
	default: // dishonored / contested: standard batches only
		return sec != ach.IAT && secTable[sec].returns
	}
}

// serviceClasses lists the header service class codes consistent with the SEC
// (before Opts.ServiceClasses is applied).
func serviceClasses(sec, cat string) []int {
	info := secTable[sec]
	credit, debit := info.credit, info.debit
	if sec == ach.ATX && cat != ach.CategoryForward {
		debit = false // ATX admits return code 21 only
	}
	out := []int{ach.MixedDebitsAndCredits}
	if credit {
		out = append(out, ach.CreditsOnly)
	}
	if debit {
		out = append(out, ach.DebitsOnly)
	}
	return out
}

// plans enumerates every (sec, category, service class) the options allow for
// non-ADV batches, grouped by SEC so that the SEC can be drawn uniformly.
func (o Opts) plans() (map[string][]plan, []string, error) {
	secs, err := o.secs()
	if err != nil {
		return nil, nil, err
	}
	cats, err := o.categories()
	if err != nil {
		return nil, nil, err
	}
	bySEC := map[string][]plan{}
	var order []string
	for _, sec := range secs {
		if sec == ach.ADV {
			continue
		}
		for _, cat := range cats {
			if !compatible(sec, cat) && !(o.IATCorrections && sec == ach.IAT && cat == ach.CategoryNOC) {
				continue
			}
			for _, scc := range serviceClasses(sec, cat) {
				if len(o.ServiceClasses) > 0 && !contains(o.ServiceClasses, scc) {
					continue
				}
				bySEC[sec] = append(bySEC[sec], plan{sec: sec, cat: cat, scc: scc})
			}
		}
		if len(bySEC[sec]) > 0 {
			order = append(order, sec)
		}
	}
	return bySEC, order, nil
}

// advCategories lists the categories an ADV file may use under these options.
func (o Opts) advCategories() []string {
	secs, err := o.secs()
	if err != nil || !contains(secs, ach.ADV) {
		return nil
	}
	cats, _ := o.categories()
	var out []string
	for _, c := range cats {
		if c == ach.CategoryForward || c == ach.CategoryReturn {
			out = append(out, c)
		}
	}
	return out
}

// pickPlan draws a SEC uniformly, then one of its (category, service class)
// combinations, then decides whether it is a PRENOTE batch.
func pickPlan(r *Rand, bySEC map[string][]plan, order []string) plan {
	p := Pick(r, bySEC[Pick(r, order)])
	info := secTable[p.sec]
	if p.cat == ach.CategoryForward && info.prenote && p.sec != ach.IAT && r.Chance(1, 16) {
		// prenote debits do not exist for loan accounts but do for the rest,
		// so a PRENOTE batch is possible for every direction the SEC admits.
		p.prenote = true
	}
	return p
}
