package gen

import (
	"bytes"
	"fmt"
	"sort"
	"strings"

	"github.com/moov-io/ach"
)

// Seeds of the seed-independent pools (routes, header variants).
const (
	routeSeed = 0x526f757465 // "Route"
	poolSeed  = 0x506f6f6c   // "Pool"
)

// route returns the k-th fixed (origin, destination) pair.
func route(k int) (origin, destination string) {
	x := newG(NewRand(routeSeed+uint64(k)), Opts{})
	return x.routing(), x.routing()
}

// File generates one valid ACH file: built through the public constructors,
// every batch created once, then File.Create.  It is either an ADV file
// (ADV batches only) or a file of standard batches followed by IAT batches.
// The same seed and options always give the same file.  The error is non-nil
// only if the options admit nothing or (never observed) the library rejects
// what was generated.
func File(r *Rand, o Opts) (*ach.File, error) {
	x := newG(r, o)
	bySEC, order, err := x.o.plans()
	if err != nil {
		return nil, err
	}
	advCats := x.o.advCategories()
	if len(order) == 0 && len(advCats) == 0 {
		return nil, fmt.Errorf("gen: options admit no batch (SECs %v, categories %v, service classes %v)", o.SECs, o.Categories, o.ServiceClasses)
	}
	// ADV cannot be mixed with anything else, so it is a per-file decision.
	isADV := len(order) == 0 || (len(advCats) > 0 && r.Chance(1, len(order)+1))

	f := ach.NewFile()
	f.ID = fmt.Sprintf("f%04x", r.Intn(1<<16))
	f.SetHeader(x.fileHeader())

	nb := r.Range(x.o.MinBatches, x.o.MaxBatches)
	x.amtCap = amountCap(nb, x.o.MaxEntries)
	if isADV && !x.o.Risky {
		// File.createFileADV does not cut the sum of the batch entry hashes
		// down to 10 digits although File.Validate compares against the
		// cut-down value, so an ADV file whose RDFI numbers sum beyond
		// 9,999,999,999 (some 300+ entries) may never validate.  Stay below
		// that unless Risky.
		if nb > 300 {
			nb = 300
		}
		if lim := 300 / nb; x.o.MaxEntries > lim {
			x.o.MaxEntries = lim
		}
	}
	for i := 0; i < nb; i++ {
		id := fmt.Sprintf("b%d", i+1)
		if isADV {
			b, err := x.advBatch(Pick(r, advCats), id)
			if err != nil {
				return nil, err
			}
			f.AddBatch(b)
			continue
		}
		// The plan and the header come either from the pool variant (seeded by
		// its number only) or from this run's generator.
		var p plan
		var hr *Rand
		if x.o.HeaderPool > 0 {
			hr = NewRand(poolSeed + uint64(r.Intn(x.o.HeaderPool)))
			p = pickPlan(hr, bySEC, order)
		} else {
			p = pickPlan(r, bySEC, order)
			hr = r.Fork(uint64(i))
		}
		if p.sec == ach.IAT {
			b, err := x.iatBatch(p, hr, id)
			if err != nil {
				return nil, err
			}
			f.AddIATBatch(b)
		} else {
			b, err := x.batch(p, hr, id)
			if err != nil {
				return nil, err
			}
			f.AddBatch(b)
		}
	}
	if err := f.Create(); err != nil {
		return nil, fmt.Errorf("gen: File.Create: %w", err)
	}
	if err := f.Validate(); err != nil {
		return nil, fmt.Errorf("gen: generated file does not validate (%s): %w", Describe(f), err)
	}
	return f, nil
}

func (x *g) fileHeader() ach.FileHeader {
	fh := ach.NewFileHeader()
	fh.ID = "fh1"
	if x.o.Routes > 0 {
		fh.ImmediateOrigin, fh.ImmediateDestination = route(x.r.Intn(x.o.Routes))
	} else {
		fh.ImmediateOrigin, fh.ImmediateDestination = x.routing(), x.routing()
	}
	fh.FileCreationDate = x.date()
	fh.FileCreationTime = x.hhmm()
	fh.FileIDModifier = string("ABCDEFGHIJKLMNOPQRSTUVWXYZ0123456789"[x.r.Intn(36)])
	fh.ImmediateDestinationName = x.words(23, true, "Federal Reserve Bank", "FRB", "")
	fh.ImmediateOriginName = x.words(23, true, "My Bank Name", "ODFI BANK", "")
	fh.ReferenceCode = x.optText(8, true)
	if x.o.NonASCII && !x.o.Risky {
		// ach.NewReader sniffs only the first 1024 bytes for UTF-8; if the
		// first multi-byte character comes later the whole stream is decoded
		// as windows-1252 and every such line grows beyond 94 columns.  Pin
		// one Latin-1 character into the very first record.
		if fh.ImmediateOriginName == "" {
			fh.ImmediateOriginName = "Bänk"
		} else {
			rs := []rune(fh.ImmediateOriginName)
			rs[0] = Pick(x.r, latin1)
			fh.ImmediateOriginName = string(rs)
		}
	}
	return fh
}

// Write renders the file with ach.NewWriter, using CRLF line endings if asked.
func Write(f *ach.File, crlf bool) ([]byte, error) {
	var buf bytes.Buffer
	w := ach.NewWriter(&buf)
	if crlf {
		w.LineEnding = "\r\n"
	}
	if err := w.Write(f); err != nil {
		return nil, err
	}
	return buf.Bytes(), nil
}

// EntryCategory classifies a standard entry by the addenda it carries, using
// the Opts.Categories vocabulary (so refused NOCs are told apart from NOCs).
func EntryCategory(e *ach.EntryDetail) string {
	switch {
	case e.Addenda98Refused != nil:
		return CategoryRefusedNOC
	case e.Addenda98 != nil:
		return ach.CategoryNOC
	case e.Addenda99Contested != nil:
		return ach.CategoryDishonoredReturnContested
	case e.Addenda99Dishonored != nil:
		return ach.CategoryDishonoredReturn
	case e.Addenda99 != nil:
		return ach.CategoryReturn
	}
	return ach.CategoryForward
}

// Stats is a tally of what a file contains; Describe prints it and the
// self-test accumulates it into its coverage histogram.
type Stats struct {
	Batches, Entries, Addenda int
	SECs, Categories          map[string]int // per batch
	AddendaKinds              map[string]int // "02","05","10".."18","98","98R","99","99D","99C"
	TxCodes, ServiceClasses   map[int]int
	Offsets                   int // entries named OFFSET
}

func NewStats() *Stats {
	return &Stats{SECs: map[string]int{}, Categories: map[string]int{}, AddendaKinds: map[string]int{},
		TxCodes: map[int]int{}, ServiceClasses: map[int]int{}}
}

// Add tallies one file.
func (s *Stats) Add(f *ach.File) {
	kind := func(k string, n int) {
		if n > 0 {
			s.AddendaKinds[k] += n
			s.Addenda += n
		}
	}
	b2i := func(b bool) int {
		if b {
			return 1
		}
		return 0
	}
	for _, b := range f.Batches {
		s.Batches++
		s.SECs[b.GetHeader().StandardEntryClassCode]++
		s.ServiceClasses[b.GetHeader().ServiceClassCode]++
		cat := ach.CategoryForward
		for _, e := range b.GetEntries() {
			s.Entries++
			s.TxCodes[e.TransactionCode]++
			if c := EntryCategory(e); c != ach.CategoryForward {
				cat = c
			}
			if e.IndividualName == "OFFSET" {
				s.Offsets++
			}
			kind("02", b2i(e.Addenda02 != nil))
			kind("05", len(e.Addenda05))
			kind("98", b2i(e.Addenda98 != nil))
			kind("98R", b2i(e.Addenda98Refused != nil))
			kind("99", b2i(e.Addenda99 != nil))
			kind("99D", b2i(e.Addenda99Dishonored != nil))
			kind("99C", b2i(e.Addenda99Contested != nil))
		}
		for _, e := range b.GetADVEntries() {
			s.Entries++
			s.TxCodes[e.TransactionCode]++
			if e.Addenda99 != nil {
				cat = ach.CategoryReturn
			}
			kind("99", b2i(e.Addenda99 != nil))
		}
		s.Categories[cat]++
	}
	for _, b := range f.IATBatches {
		s.Batches++
		s.SECs[b.GetHeader().StandardEntryClassCode]++
		s.ServiceClasses[b.GetHeader().ServiceClassCode]++
		cat := ach.CategoryForward
		for _, e := range b.GetEntries() {
			s.Entries++
			s.TxCodes[e.TransactionCode]++
			kind("10", b2i(e.Addenda10 != nil))
			kind("11", b2i(e.Addenda11 != nil))
			kind("12", b2i(e.Addenda12 != nil))
			kind("13", b2i(e.Addenda13 != nil))
			kind("14", b2i(e.Addenda14 != nil))
			kind("15", b2i(e.Addenda15 != nil))
			kind("16", b2i(e.Addenda16 != nil))
			kind("17", len(e.Addenda17))
			kind("18", len(e.Addenda18))
			kind("98", b2i(e.Addenda98 != nil))
			kind("99", b2i(e.Addenda99 != nil))
			if e.Addenda99 != nil {
				cat = ach.CategoryReturn
			}
		}
		s.Categories[cat]++
	}
}

// keysOf renders a count map as "k1=n1 k2=n2" with sorted keys.
func keysOf[K int | string](m map[K]int, counts bool) string {
	keys := make([]K, 0, len(m))
	for k := range m {
		keys = append(keys, k)
	}
	sort.Slice(keys, func(i, j int) bool { return keys[i] < keys[j] })
	parts := make([]string, len(keys))
	for i, k := range keys {
		if counts {
			parts[i] = fmt.Sprintf("%v=%d", k, m[k])
		} else {
			parts[i] = fmt.Sprint(k)
		}
	}
	return strings.Join(parts, " ")
}

// Describe gives a one-line description of a file for evidence samples, e.g.
// "f1a2b SECs[CCD PPD] batches=2 entries=5 addenda=3 cats[Forward] scc[200 220] offsets=0".
func Describe(f *ach.File) string {
	s := NewStats()
	s.Add(f)
	return fmt.Sprintf("%s SECs[%s] batches=%d entries=%d addenda=%d (%s) cats[%s] scc[%s] offsets=%d",
		f.ID, keysOf(s.SECs, false), s.Batches, s.Entries, s.Addenda, keysOf(s.AddendaKinds, true),
		keysOf(s.Categories, false), keysOf(s.ServiceClasses, false), s.Offsets)
}
