// Package gen holds the deterministic generators used by every correspondence
// stream and oracle.  Every random choice derives from one splitmix64 state.
package gen

// Rand is a splitmix64 PRNG.  The zero value is usable (seed 0).
type Rand struct{ s uint64 }

func NewRand(seed uint64) *Rand { return &Rand{s: seed} }

// Fork returns an independent generator derived from r and a label, without
// disturbing r's own sequence more than one step.
func (r *Rand) Fork(label uint64) *Rand {
	return &Rand{s: r.Uint64() ^ (label * 0x9E3779B97F4A7C15)}
}

func (r *Rand) Uint64() uint64 {
	r.s += 0x9E3779B97F4A7C15
	z := r.s
	z = (z ^ (z >> 30)) * 0xBF58476D1CE4E5B9
	z = (z ^ (z >> 27)) * 0x94D049BB133111EB
	return z ^ (z >> 31)
}

// Intn returns a value in [0,n).  n <= 0 yields 0.
func (r *Rand) Intn(n int) int {
	if n <= 0 {
		return 0
	}
	return int(r.Uint64() % uint64(n))
}

// Range returns a value in [lo,hi].
func (r *Rand) Range(lo, hi int) int {
	if hi <= lo {
		return lo
	}
	return lo + r.Intn(hi-lo+1)
}

func (r *Rand) Bool() bool { return r.Uint64()&1 == 1 }

// Chance is true with probability num/den.
func (r *Rand) Chance(num, den int) bool { return r.Intn(den) < num }

func Pick[T any](r *Rand, xs []T) T { return xs[r.Intn(len(xs))] }
