package oracle

import (
	"reflect"

	"github.com/moov-io/ach"
)

// BoolFlagNames: the boolean fields of ach.ValidateOpts, in declaration order.
func BoolFlagNames() []string {
	t := reflect.TypeOf(ach.ValidateOpts{})
	var out []string
	for i := 0; i < t.NumField(); i++ {
		if t.Field(i).Type.Kind() == reflect.Bool {
			out = append(out, t.Field(i).Name)
		}
	}
	return out
}

// SingleFlagOpts: the options with exactly the i-th (mod count) boolean flag set, and its name.
func SingleFlagOpts(i int) (*ach.ValidateOpts, string) {
	names := BoolFlagNames()
	n := names[((i%len(names))+len(names))%len(names)]
	o := &ach.ValidateOpts{}
	reflect.ValueOf(o).Elem().FieldByName(n).SetBool(true)
	return o, n
}

// SetAllValidation stores opts with the file and each of its batches (what the Reader does for a file read under them).
func SetAllValidation(f *ach.File, opts *ach.ValidateOpts) {
	f.SetValidation(opts)
	for _, b := range f.Batches {
		b.SetValidation(opts)
	}
	for i := range f.IATBatches {
		f.IATBatches[i].SetValidation(opts)
	}
}

// ValidateDefault validates the file under the default rules: the options stored with the file and its batches are
// taken away for the call; afterwards `restore` is stored with the file and every batch again.
func ValidateDefault(f *ach.File, restore *ach.ValidateOpts) error {
	SetAllValidation(f, nil)
	err := f.Validate()
	SetAllValidation(f, restore)
	return err
}
