// Package oracle states each property directly against the real implementation.
// Oracles are the *search for a failing input*: they run with a small budget on
// every check and with an enlarged one when a proof obligation or a
// correspondence stream breaks.  They never stand in for a theorem.
package oracle

import (
	"bytes"
	"encoding/json"
	"fmt"
	"runtime/debug"
	"sort"
	"strings"
	"time"

	"github.com/moov-io/ach"
	"verif/harness/gen"
)

// Failure is one concrete input on which the real code violates the property.
type Failure struct {
	Signature string `json:"signature"` // stable class of the failure, matched against KNOWN_FINDINGS.jsonl
	What      string `json:"what"`
	Input     any    `json:"input"`
	Observed  string `json:"observed"`
	Required  string `json:"required"`
	Seed      uint64 `json:"seed"`
	Index     int    `json:"index"`
}

// Result is what an oracle run reports.
type Result struct {
	Property     string         `json:"property"`
	Tier         string         `json:"tier"`
	Seed         uint64         `json:"seed"`
	Evaluations  int            `json:"evaluations"`
	Distinct     int            `json:"distinct_nontrivial"`
	Rule         string         `json:"rule"`
	Samples      []string       `json:"samples"`
	Distribution map[string]int `json:"distribution"`
	Exhaustive   map[string]any `json:"exhaustive,omitempty"`
	Failures     []Failure      `json:"failures"`
	WallS        float64        `json:"wall_s"`
	Error        string         `json:"error,omitempty"`
}

// T is handed to each oracle.
type T struct {
	R      *gen.Rand
	Seed   uint64
	Tier   string
	res    *Result
	seen   map[string]bool
	sigs   map[string]int
	Replay string
}

// Budget scales a quick-tier count by tier.
func (t *T) Budget(quick int) int {
	switch t.Tier {
	case "thorough":
		return quick * 15
	case "search":
		return quick * 6
	}
	return quick
}

// Case records one evaluated case; key identifies distinct non-trivial cases, class feeds the histogram.
func (t *T) Case(key, class string, nontrivial bool) {
	t.res.Evaluations++
	t.res.Distribution[class]++
	if nontrivial && !t.seen[key] {
		t.seen[key] = true
		t.res.Distinct++
		if len(t.res.Samples) < 6 && (t.res.Distinct < 3 || t.res.Distinct%17 == 0) {
			if len(key) > 300 {
				key = key[:300] + "…"
			}
			t.res.Samples = append(t.res.Samples, class+": "+key)
		}
	}
}

// Fail records a violation.  At most 3 failures are kept per signature.
func (t *T) Fail(sig, what string, input any, observed, required string) {
	t.sigs[sig]++
	if t.sigs[sig] > 3 {
		return
	}
	t.res.Failures = append(t.res.Failures, Failure{Signature: sig, What: what, Input: input, Observed: clip(observed), Required: clip(required), Seed: t.Seed, Index: t.res.Evaluations})
}

func clip(s string) string {
	if len(s) > 2000 {
		return s[:2000] + "…"
	}
	return s
}

type Oracle struct {
	Rule string
	Run  func(t *T)
}

var Oracles = map[string]*Oracle{}

func Register(id string, o *Oracle) { Oracles[id] = o }

func Run(prop string, seed uint64, tier, replay string) *Result {
	res := &Result{Property: prop, Tier: tier, Seed: seed, Distribution: map[string]int{}, Failures: []Failure{}, Samples: []string{}}
	o := Oracles[prop]
	if o == nil {
		var ks []string
		for k := range Oracles {
			ks = append(ks, k)
		}
		sort.Strings(ks)
		res.Error = fmt.Sprintf("no oracle for %s (have %s)", prop, strings.Join(ks, ","))
		return res
	}
	res.Rule = o.Rule
	t := &T{R: gen.NewRand(seed), Seed: seed, Tier: tier, res: res, seen: map[string]bool{}, sigs: map[string]int{}, Replay: replay}
	start := time.Now()
	func() {
		defer func() {
			if r := recover(); r != nil {
				stack := string(debug.Stack())
				fn := topLibraryFrame(stack)
				if prop == "C06" && fn != "" {
					// the library panicked while the oracle (or its generator) was driving it through the public API:
					// that is the violation C06 speaks about, with the stack as the observation
					res.Failures = append(res.Failures, Failure{Signature: "C06/panic/" + fn + "/outside-guarded-call",
						What:     "the library panicked while the oracle was building or driving an input (outside the calls the oracle guards itself)",
						Input:    "generator-built input of this seed; see the stack in observed",
						Observed: fmt.Sprintf("panic: %v\n%s", r, trimStack(stack)), Required: "no panic", Seed: seed})
					return
				}
				res.Error = fmt.Sprintf("oracle panicked: %v\n%s", r, trimStack(stack))
			}
		}()
		o.Run(t)
	}()
	res.WallS = time.Since(start).Seconds()
	return res
}

// topLibraryFrame returns the innermost function of github.com/moov-io/ach on a panic stack ("" if none).
func topLibraryFrame(stack string) string {
	for _, l := range strings.Split(stack, "\n") {
		l = strings.TrimSpace(l)
		if strings.HasPrefix(l, "github.com/moov-io/ach") && !strings.Contains(l, "Verif") {
			name := l
			if i := strings.LastIndex(name, "("); i > 0 {
				name = name[:i]
			}
			name = strings.TrimPrefix(name, "github.com/moov-io/ach")
			name = strings.TrimLeft(name, "./")
			name = strings.NewReplacer("(*", "", ")", "", "/", ".").Replace(name)
			return name
		}
	}
	return ""
}

func trimStack(stack string) string {
	ls := strings.Split(stack, "\n")
	if len(ls) > 40 {
		ls = ls[:40]
	}
	return strings.Join(ls, "\n")
}

// FileInput renders a file for a replay: description plus its NACHA text
// (written without validation so that invalid files can be shown too).
func FileInput(f *ach.File) map[string]any {
	var buf bytes.Buffer
	w := ach.NewWriter(&buf)
	w.BypassValidation = true
	text := ""
	func() {
		defer func() { recover() }()
		if err := w.Write(f); err == nil {
			text = buf.String()
		} else {
			text = "unwritable: " + err.Error()
		}
	}()
	js, _ := json.Marshal(f)
	if len(js) > 20000 {
		js = js[:20000]
	}
	return map[string]any{"describe": gen.Describe(f), "nacha_text": text, "json": string(js)}
}
