package corr

import (
	"fmt"
	"sort"
	"strconv"
	"strings"

	"github.com/moov-io/ach"
	"github.com/moov-io/ach/server"
	"verif/harness/gen"
)

// repo stream: sequential call sequences on the real in-memory repository vs the Lean sequential spec.
func init() {
	register(&Stream{Name: "repo", Run: func(r *gen.Rand, n int, emit func(op, impl, class string)) {
		var repo server.Repository
		tokens := map[*ach.File]int{}
		nextTok := 0
		for i := 0; i < n; i++ {
			if i%8 == 0 || repo == nil {
				repo = server.NewRepositoryInMemory(0, nil)
				tokens = map[*ach.File]int{}
				emit("reset", "reset", "reset")
				continue
			}
			f := 1 + r.Intn(3)
			b := 1 + r.Intn(3)
			fid, bid := strconv.Itoa(f), strconv.Itoa(b)
			switch r.Intn(8) {
			case 0:
				nextTok++
				file := ach.NewFile()
				file.ID = fid
				tokens[file] = nextTok
				err := repo.StoreFile(file)
				emit(fmt.Sprintf("storefile %d %d", f, nextTok), repoErr(err), "storefile")
			case 1:
				file, err := repo.FindFile(fid)
				res := repoErr(err)
				if err == nil {
					res = fmt.Sprintf("file %d %s", tokens[file], batchIDs(file.Batches))
				}
				emit("findfile "+fid, res, "findfile")
			case 2:
				files := repo.FindAllFiles()
				var parts []string
				sort.Slice(files, func(i, j int) bool { return files[i].ID < files[j].ID })
				for _, fl := range files {
					parts = append(parts, fmt.Sprintf("%s:%d", fl.ID, tokens[fl]))
				}
				emit("allfiles", "files ["+strings.Join(parts, ",")+"]", "allfiles")
			case 3:
				err := repo.DeleteFile(fid)
				emit("deletefile "+fid, repoErr(err), "deletefile")
			case 4:
				bh := ach.NewBatchHeader()
				bh.StandardEntryClassCode = ach.PPD
				bt, _ := ach.NewBatch(bh)
				bt.SetID(bid)
				err := repo.StoreBatch(fid, bt)
				emit(fmt.Sprintf("storebatch %d %d", f, b), repoErr(err), "storebatch")
			case 5:
				bt, err := repo.FindBatch(fid, bid)
				res := repoErr(err)
				if err == nil {
					res = "batch " + bt.ID()
				}
				emit(fmt.Sprintf("findbatch %d %d", f, b), res, "findbatch")
			case 6:
				bs := repo.FindAllBatches(fid)
				res := "nil"
				if bs != nil {
					res = "batches " + batchIDs(bs)
				}
				emit("allbatches "+fid, res, "allbatches")
			case 7:
				err := repo.DeleteBatch(fid, bid)
				res := repoErr(err)
				if err != nil && strings.Contains(err.Error(), "no file") {
					res = "err:nofile"
				}
				emit(fmt.Sprintf("deletebatch %d %d", f, b), res, "deletebatch")
			}
		}
	}})
}

func repoErr(err error) string {
	switch {
	case err == nil:
		return "ok"
	case err == server.ErrAlreadyExists:
		return "err:exists"
	case err == server.ErrNotFound:
		return "err:notfound"
	}
	return "err:other:" + strings.ReplaceAll(err.Error(), " ", "_")
}

func batchIDs(bs []ach.Batcher) string {
	var ids []string
	for _, b := range bs {
		ids = append(ids, b.ID())
	}
	return "[" + strings.Join(ids, ",") + "]"
}
