package corr

import (
	"errors"
	"fmt"
	"reflect"
	"sort"
	"strings"

	"github.com/moov-io/ach"
	"github.com/moov-io/iso3166"
	"github.com/moov-io/iso4217"
	"verif/harness/gen"
)

// filevalidate stream: the real File.ValidateWith (file header, every batch through its own SEC validator, file control,
// the four file-level equalities) vs the GoLite interpretation of the programs translated from it on this run.
//
//	filevalidate File.ValidateWith <flags|-> <flags|-> <path>=… (as batchvalidate; `X.$type` = dynamic type of a Batcher)
//
// Files of every SEC code incl. IAT and ADV from the generator, then 0–3 mutations: a field anywhere in the file
// (header, controls, batch records, entries, addenda), a batch dropped / duplicated / swapped, file control figures
// shifted; a random subset of the option flags set on the file, every batch and every record, and passed as the
// ValidateWith parameter (receiver flags = parameter flags).  Files in which File.IsADV would have to repair a missing
// batch header or control (`effect`) are outside the model and counted as out-of-domain.
//
// Answer: `accept` or `reject:<name>`: FieldName of the outermost *BatchError / *FieldError, Field of an
// ErrFileCalculatedControlEquality, the type name of other file-level errors.

func fileErrName(err error) string {
	switch e := err.(type) {
	case *ach.BatchError:
		return e.FieldName
	case *ach.FieldError:
		return e.FieldName
	case ach.ErrFileCalculatedControlEquality:
		return e.Field
	case ach.ErrFileBatchNumberAscending:
		return "ErrFileBatchNumberAscending"
	}
	var be *ach.BatchError
	if errors.As(err, &be) {
		return be.FieldName
	}
	var fe *ach.FieldError
	if errors.As(err, &fe) {
		return fe.FieldName
	}
	return ""
}

func filevalidateOne(cr *gen.Rand, f *ach.File, emit func(op, impl, class string)) {
	var mutated []string
	nmut := gen.Pick(cr, []int{0, 0, 1, 1, 1, 2, 3})
	for m := 0; m < nmut; m++ {
		switch k := cr.Intn(10); {
		case k < 6:
			pool := map[string][]reflect.Value{}
			harvest(reflect.ValueOf(f), pool, map[string]bool{}, 0)
			var names []string
			for n := range pool {
				names = append(names, n)
			}
			sort.Strings(names)
			var recs []reflect.Value
			for _, n := range names {
				recs = append(recs, pool[n]...)
			}
			if len(recs) > 0 {
				mutated = append(mutated, mutateRecord(cr, recs[cr.Intn(len(recs))]))
			}
		case k == 6 && len(f.Batches) > 1:
			i, j := cr.Intn(len(f.Batches)), cr.Intn(len(f.Batches))
			f.Batches[i], f.Batches[j] = f.Batches[j], f.Batches[i]
			mutated = append(mutated, "swap-batches")
		case k == 7 && len(f.Batches) > 1:
			i := cr.Intn(len(f.Batches))
			f.Batches = append(f.Batches[:i:i], f.Batches[i+1:]...)
			mutated = append(mutated, "drop-batch")
		case k == 8:
			d := gen.Pick(cr, []int{1, -1, 100})
			switch cr.Intn(5) {
			case 0:
				f.Control.BatchCount += d
			case 1:
				f.Control.EntryAddendaCount += d
			case 2:
				f.Control.EntryHash += d
			case 3:
				f.Control.TotalDebitEntryDollarAmountInFile += d
			default:
				f.Control.TotalCreditEntryDollarAmountInFile += d
			}
			mutated = append(mutated, "file-control-figure")
		case k == 9 && len(f.IATBatches) > 0:
			b := &f.IATBatches[cr.Intn(len(f.IATBatches))]
			if b.Control != nil {
				b.Control.EntryAddendaCount += gen.Pick(cr, []int{1, -1})
			}
			mutated = append(mutated, "iat-control-figure")
		}
	}
	var flags []string
	k := gen.Pick(cr, []int{0, 0, 0, 1, 1, 2, 4})
	for j := 0; j < k; j++ {
		flags = append(flags, gen.Pick(cr, append(optBoolNames, "CheckTransactionCode", "AllowMissingFileHeader", "AllowMissingFileControl", "AllowUnorderedBatchNumbers",
			"UnequalAddendaCounts", "CustomTraceNumbers", "BypassOriginValidation", "BypassDestinationValidation", "SkipAll", "AllowZeroBatches")))
	}
	sort.Strings(flags)
	var fl []string
	for j, x := range flags {
		if j == 0 || flags[j-1] != x {
			fl = append(fl, x)
		}
	}
	o := &ach.ValidateOpts{}
	ov := reflect.ValueOf(o).Elem()
	for _, fn := range fl {
		if fn == "CheckTransactionCode" {
			o.CheckTransactionCode = func(code int) error {
				if code%2 != 0 {
					return errors.New("odd transaction code")
				}
				return nil
			}
			continue
		}
		ov.FieldByName(fn).SetBool(true)
	}
	optsEverywhere(reflect.ValueOf(f), o, map[string]bool{}, 0)

	var toks []string
	ok := true
	flatten(reflect.ValueOf(f).Elem(), "", &toks, &ok, nil)
	if !ok {
		return
	}
	ext := map[string]bool{}
	for i := range f.IATBatches {
		if h := f.IATBatches[i].Header; h != nil {
			ext["iso3166.Valid:"+h.ISODestinationCountryCode] = iso3166.Valid(h.ISODestinationCountryCode)
			for _, cur := range []string{h.ISOOriginatingCurrencyCode, h.ISODestinationCurrencyCode} {
				_, found := iso4217.Lookup(cur)
				ext["iso4217.Lookup:"+cur] = found
			}
		}
	}
	var eks []string
	for k := range ext {
		eks = append(eks, k)
	}
	sort.Strings(eks)
	for _, k := range eks {
		v := 0
		if ext[k] {
			v = 1
		}
		toks = append(toks, fmt.Sprintf("@%s=%d", Hex(k), v))
	}
	res := Safe(func() string {
		err := f.ValidateWith(o)
		if err == nil {
			return "accept"
		}
		return "reject:" + fileErrName(err)
	})
	flagTok := "-"
	if len(fl) > 0 {
		flagTok = strings.Join(fl, ",")
	}
	kind := "std"
	if len(f.IATBatches) > 0 {
		kind = "iat"
	}
	if f.IsADV() {
		kind = "adv"
	}
	class := kind + "/" + strings.SplitN(res, ":", 2)[0]
	if len(mutated) == 0 {
		class += "/unmutated"
	}
	emit("filevalidate File.ValidateWith "+flagTok+" "+flagTok+" "+strings.Join(toks, " "), res, class)
}

func init() {
	register(&Stream{Name: "filevalidate", Run: func(r *gen.Rand, n int, emit func(op, impl, class string)) {
		made := 0
		for i := 0; made < n && i < 20*n; i++ {
			cr := r.Fork(uint64(i))
			o := gen.Opts{IATCorrections: true, Categories: gen.AllCategories(), MinBatches: 1, MaxBatches: 3, MaxEntries: 3, MaxAddenda: 2,
				NonASCII: i%7 == 3, FullWidth: i%5 == 4, PresetTraces: i%2 == 0, Offset: i%6 == 5}
			switch i % 6 {
			case 0:
				o.SECs = []string{ach.ADV}
			case 1:
				o.SECs = []string{ach.IAT, ach.PPD, ach.CCD}
			case 2:
				o.SECs = []string{ach.IAT}
			}
			f, err := gen.File(cr.Fork(1), o)
			if err != nil || f == nil {
				continue
			}
			filevalidateOne(cr.Fork(2), f, emit)
			made++
		}
	}})
}
