package corr

import (
	"github.com/moov-io/iso3166"
	"github.com/moov-io/iso4217"

	"errors"
	"fmt"
	"reflect"
	"sort"
	"strings"

	"github.com/moov-io/ach"
	"verif/harness/gen"
)

// batchvalidate stream: the real SEC-specific batch validators (`BatchPPD.Validate()` … `BatchXCK.Validate()`,
// `BatchADV.Validate()`: Batch.verify and every helper it calls, the record validators of every record of the batch,
// the per-entry rules of the SEC code) vs the GoLite interpretation of the programs gofacts translates from those
// functions on every run.
//
//	batchvalidate <BatchXXX.Validate> <flags|-> - <path>=s:<hex>|i:<int>|b:<0|1>|p|n|l:<k> …
//
// Batches are taken from generator-built files of every SEC code and category (valid), then 0–3 fields anywhere in the
// batch (header, control, entries, addenda) are replaced by pool values, entries are dropped / duplicated / swapped, an
// addenda pointer is cleared or copied from a sibling; a random subset of the ValidateOpts booleans (plus
// CheckTransactionCode = "even codes only") is set on the batch AND on every record in it (the model speaks about
// batches whose records carry the same options, which is what the Reader and File.SetValidation produce).
// Every string / int / bool field, pointer and slice of the batch is sent under its full path; the embedded Batch
// of BatchXXX is flattened (its fields are the root).
//
// Answer: `accept` or `reject:<FieldName>` where FieldName is that of the outermost *BatchError / *FieldError.
// Cases with a nil element inside a slice of records are skipped (the path encoding has no room for them).

func optsEverywhere(v reflect.Value, o *ach.ValidateOpts, seen map[string]bool, depth int) {
	if depth > 30 || !v.IsValid() {
		return
	}
	switch v.Kind() {
	case reflect.Interface:
		if !v.IsNil() {
			optsEverywhere(v.Elem(), o, seen, depth+1)
		}
	case reflect.Ptr:
		if v.IsNil() {
			return
		}
		key := fmt.Sprintf("%x/%s", v.Pointer(), v.Type().String())
		if seen[key] {
			return
		}
		seen[key] = true
		optsEverywhere(v.Elem(), o, seen, depth+1)
	case reflect.Struct:
		if v.Type().PkgPath() != "github.com/moov-io/ach" {
			return
		}
		for i := 0; i < v.NumField(); i++ {
			f := v.Field(i)
			if !f.CanAddr() {
				continue
			}
			f = settable(f)
			if v.Type().Field(i).Name == "validateOpts" && f.Type() == reflect.TypeOf(o) {
				f.Set(reflect.ValueOf(o))
				continue
			}
			if f.Kind() == reflect.Struct {
				optsEverywhere(f.Addr(), o, seen, depth+1)
			} else {
				optsEverywhere(f, o, seen, depth+1)
			}
		}
	case reflect.Slice:
		for i := 0; i < v.Len(); i++ {
			optsEverywhere(v.Index(i), o, seen, depth+1)
		}
	}
}

// flatten writes the tokens of the record v (a struct value) under path
func flatten(v reflect.Value, path string, toks *[]string, ok *bool, ext map[string]bool) {
	join := func(n string) string {
		if path == "" {
			return n
		}
		return path + "." + n
	}
	for i := 0; i < v.NumField(); i++ {
		sf := v.Type().Field(i)
		f := v.Field(i)
		if sf.Anonymous && f.Kind() == reflect.Struct { // the embedded Batch of BatchXXX: promoted fields
			flatten(f, path, toks, ok, ext)
			continue
		}
		switch f.Kind() {
		case reflect.String:
			*toks = append(*toks, join(sf.Name)+"=s:"+Hex(f.String()))
		case reflect.Int:
			*toks = append(*toks, fmt.Sprintf("%s=i:%d", join(sf.Name), f.Int()))
		case reflect.Bool:
			b := 0
			if f.Bool() {
				b = 1
			}
			*toks = append(*toks, fmt.Sprintf("%s=b:%d", join(sf.Name), b))
		case reflect.Ptr:
			if f.Type().Elem().Kind() != reflect.Struct || f.Type().Elem().PkgPath() != "github.com/moov-io/ach" || sf.Name == "validateOpts" || sf.Name == "offset" {
				continue
			}
			if f.IsNil() {
				*toks = append(*toks, join(sf.Name)+"=n")
			} else {
				*toks = append(*toks, join(sf.Name)+"=p")
				flatten(f.Elem(), join(sf.Name), toks, ok, ext)
			}
		case reflect.Struct:
			if f.Type().PkgPath() != "github.com/moov-io/ach" {
				continue
			}
			*toks = append(*toks, join(sf.Name)+"=p") // a struct-valued field is used like a non-nil pointer to it
			flatten(f, join(sf.Name), toks, ok, ext)
		case reflect.Slice:
			et := f.Type().Elem()
			isRec := (et.Kind() == reflect.Ptr && et.Elem().Kind() == reflect.Struct && et.Elem().PkgPath() == "github.com/moov-io/ach") ||
				(et.Kind() == reflect.Struct && et.PkgPath() == "github.com/moov-io/ach") ||
				(et.Kind() == reflect.Interface && et.PkgPath() == "github.com/moov-io/ach")
			if !isRec {
				continue
			}
			if f.IsNil() {
				*toks = append(*toks, join(sf.Name)+"=n")
				continue
			}
			*toks = append(*toks, fmt.Sprintf("%s=l:%d", join(sf.Name), f.Len()))
			for k := 0; k < f.Len(); k++ {
				el := f.Index(k)
				ep := fmt.Sprintf("%s[%d]", join(sf.Name), k)
				if el.Kind() == reflect.Interface {
					if el.IsNil() {
						*ok = false
						return
					}
					el = el.Elem()
					if el.Kind() != reflect.Ptr || el.IsNil() {
						*ok = false
						return
					}
					*toks = append(*toks, ep+".$type=s:"+Hex(el.Elem().Type().Name())) // dynamic type of an interface value
				}
				if el.Kind() == reflect.Ptr {
					if el.IsNil() {
						*ok = false
						return
					}
					el = el.Elem()
				}
				flatten(el, ep, toks, ok, ext)
			}
		}
	}
}

// records collects the addressable record structs of the batch (for field mutations)
func batchRecordsOf(b any) []reflect.Value {
	pool := map[string][]reflect.Value{}
	harvest(reflect.ValueOf(b), pool, map[string]bool{}, 0)
	var names []string
	for k := range pool {
		names = append(names, k)
	}
	sort.Strings(names)
	var out []reflect.Value
	for _, k := range names {
		out = append(out, pool[k]...)
	}
	return out
}

func mutateRecord(cr *gen.Rand, rec reflect.Value) string {
	rv := rec.Elem()
	var fields []int
	for i := 0; i < rv.NumField(); i++ {
		switch rv.Field(i).Kind() {
		case reflect.String, reflect.Int:
			fields = append(fields, i)
		}
	}
	if len(fields) == 0 {
		return ""
	}
	i := fields[cr.Intn(len(fields))]
	f := settable(rv.Field(i))
	switch f.Kind() {
	case reflect.String:
		if cr.Chance(1, 4) && len(f.String()) > 0 {
			s := []rune(f.String())
			s[cr.Intn(len(s))] = gen.Pick(cr, []rune{' ', 'a', 'Z', '0', '9', 'é', '\t', '~', '§'})
			f.SetString(string(s))
		} else {
			f.SetString(gen.Pick(cr, strPool))
		}
	case reflect.Int:
		if cr.Chance(1, 3) {
			f.SetInt(f.Int() + int64(gen.Pick(cr, []int{1, -1, 10, 100})))
		} else {
			f.SetInt(int64(gen.Pick(cr, intPool)))
		}
	}
	return rv.Type().Name() + "." + rv.Type().Field(i).Name
}

func batchvalidateOne(cr *gen.Rand, src any, emit func(op, impl, class string)) {
	// a private deep copy through JSON would re-tabulate: re-generate instead (the caller hands a fresh batch)
	b := src
	var bb *ach.Batch
	sec := "IAT"
	if bt, ok := b.(ach.Batcher); ok {
		bb = ach.VerifBatchOf(bt)
		if h := bt.GetHeader(); h != nil {
			sec = h.StandardEntryClassCode
		}
	}
	iat, _ := b.(*ach.IATBatch)
	var mutated []string
	nmut := gen.Pick(cr, []int{0, 0, 1, 1, 1, 2, 3})
	for m := 0; m < nmut; m++ {
		switch k := cr.Intn(10); {
		case k < 7:
			recs := batchRecordsOf(b)
			if len(recs) > 0 {
				mutated = append(mutated, mutateRecord(cr, recs[cr.Intn(len(recs))]))
			}
		case k == 7 && iat != nil && len(iat.Entries) > 1:
			i, j := cr.Intn(len(iat.Entries)), cr.Intn(len(iat.Entries))
			if cr.Bool() {
				iat.Entries[i], iat.Entries[j] = iat.Entries[j], iat.Entries[i]
				mutated = append(mutated, "swap-entries")
			} else {
				iat.Entries = append(iat.Entries[:i:i], iat.Entries[i+1:]...)
				mutated = append(mutated, "drop-entry")
			}
		case k == 8 && iat != nil && len(iat.Entries) > 0:
			e := iat.Entries[cr.Intn(len(iat.Entries))]
			switch cr.Intn(6) {
			case 0:
				e.Addenda10 = nil
			case 1:
				e.Addenda17 = nil
			case 2:
				e.Addenda99 = nil
			case 3:
				e.Addenda98 = nil
			case 4:
				e.Addenda16 = nil
			case 5:
				e.Addenda99 = ach.NewAddenda99()
			}
			mutated = append(mutated, "addenda-pointer")
		case k == 9 && iat != nil && len(iat.Entries) > 0:
			e := iat.Entries[cr.Intn(len(iat.Entries))]
			e.Category = gen.Pick(cr, []string{ach.CategoryForward, ach.CategoryReturn, ach.CategoryNOC, ""})
			mutated = append(mutated, "category")
		case k == 7 && bb != nil && len(bb.Entries) > 1:
			// swap two entries / drop one
			i, j := cr.Intn(len(bb.Entries)), cr.Intn(len(bb.Entries))
			if cr.Bool() {
				bb.Entries[i], bb.Entries[j] = bb.Entries[j], bb.Entries[i]
				mutated = append(mutated, "swap-entries")
			} else {
				bb.Entries = append(bb.Entries[:i:i], bb.Entries[i+1:]...)
				mutated = append(mutated, "drop-entry")
			}
		case k == 8 && bb != nil && len(bb.Entries) > 0:
			e := bb.Entries[cr.Intn(len(bb.Entries))]
			switch cr.Intn(6) {
			case 0:
				e.Addenda02 = nil
			case 1:
				e.Addenda05 = nil
			case 2:
				e.Addenda99 = nil
			case 3:
				e.Addenda98 = nil
			case 4:
				e.Addenda02 = ach.NewAddenda02()
			case 5:
				e.Addenda99 = ach.NewAddenda99()
			}
			mutated = append(mutated, "addenda-pointer")
		case k == 9 && bb != nil && len(bb.Entries) > 0:
			e := bb.Entries[cr.Intn(len(bb.Entries))]
			e.Category = gen.Pick(cr, []string{ach.CategoryForward, ach.CategoryReturn, ach.CategoryNOC, ach.CategoryDishonoredReturn, ach.CategoryDishonoredReturnContested, ""})
			mutated = append(mutated, "category")
		}
	}
	// options on the batch and on every record in it
	var flags []string
	k := gen.Pick(cr, []int{0, 0, 0, 1, 1, 2, 4})
	for j := 0; j < k; j++ {
		flags = append(flags, gen.Pick(cr, append(optBoolNames, "CheckTransactionCode", "AllowSpecialCharacters", "AllowInvalidCheckDigit", "CustomReturnCodes",
			"CustomTraceNumbers", "UnequalAddendaCounts", "AllowInvalidAmounts", "AllowZeroEntryAmount", "BypassOriginValidation", "UnequalServiceClassCode", "BypassCompanyIdentificationMatch")))
	}
	sort.Strings(flags)
	var fl []string
	for j, x := range flags {
		if j == 0 || flags[j-1] != x {
			fl = append(fl, x)
		}
	}
	o := &ach.ValidateOpts{}
	ov := reflect.ValueOf(o).Elem()
	for _, f := range fl {
		if f == "CheckTransactionCode" {
			o.CheckTransactionCode = func(code int) error {
				if code%2 != 0 {
					return errors.New("odd transaction code")
				}
				return nil
			}
			continue
		}
		ov.FieldByName(f).SetBool(true)
	}
	optsEverywhere(reflect.ValueOf(b), o, map[string]bool{}, 0)

	var toks []string
	ok := true
	flatten(reflect.ValueOf(b).Elem(), "", &toks, &ok, nil)
	if iat != nil && iat.Header != nil { // third-party predicates the IAT batch header validator consults
		ext := map[string]bool{}
		ext["iso3166.Valid:"+iat.Header.ISODestinationCountryCode] = iso3166.Valid(iat.Header.ISODestinationCountryCode)
		for _, cur := range []string{iat.Header.ISOOriginatingCurrencyCode, iat.Header.ISODestinationCurrencyCode} {
			_, found := iso4217.Lookup(cur)
			ext["iso4217.Lookup:"+cur] = found
		}
		var eks []string
		for k := range ext {
			eks = append(eks, k)
		}
		sort.Strings(eks)
		for _, k := range eks {
			v := 0
			if ext[k] {
				v = 1
			}
			toks = append(toks, fmt.Sprintf("@%s=%d", Hex(k), v))
		}
	}
	tname := reflect.ValueOf(b).Elem().Type().Name()
	if !ok {
		return
	}
	res := Safe(func() string {
		err := b.(interface{ Validate() error }).Validate()
		if err == nil {
			return "accept"
		}
		switch e := err.(type) {
		case *ach.BatchError:
			return "reject:" + e.FieldName
		case *ach.FieldError:
			return "reject:" + e.FieldName
		}
		var be *ach.BatchError
		if errors.As(err, &be) {
			return "reject:" + be.FieldName
		}
		var fe *ach.FieldError
		if errors.As(err, &fe) {
			return "reject:" + fe.FieldName
		}
		return "reject:"
	})
	flagTok := "-"
	if len(fl) > 0 {
		flagTok = strings.Join(fl, ",")
	}
	class := sec + "/" + strings.SplitN(res, ":", 2)[0]
	if len(mutated) == 0 {
		class += "/unmutated"
	}
	emit("batchvalidate "+tname+".Validate "+flagTok+" - "+strings.Join(toks, " "), res, class)
}

func init() {
	register(&Stream{Name: "batchvalidate", Run: func(r *gen.Rand, n int, emit func(op, impl, class string)) {
		secs := gen.AllSECs()
		made := 0
		for i := 0; made < n && i < 20*n; i++ {
			cr := r.Fork(uint64(i))
			sec := secs[i%len(secs)]
			if i%6 == 5 {
				sec = ach.IAT // its own batch type and validator: a larger share than one in 23
			}

			o := gen.Opts{IATCorrections: true, SECs: []string{sec}, Categories: gen.AllCategories(), MinBatches: 1, MaxBatches: 1, MaxEntries: 3, MaxAddenda: 2,
				NonASCII: i%7 == 3, FullWidth: i%5 == 4, PresetTraces: i%2 == 0, Offset: i%6 == 5}
			f, err := gen.File(cr.Fork(1), o)
			if err != nil || f == nil {
				continue
			}
			if sec == ach.IAT {
				if len(f.IATBatches) == 0 {
					continue
				}
				batchvalidateOne(cr.Fork(2), &f.IATBatches[0], emit)
				made++
				continue
			}
			if len(f.Batches) == 0 {
				continue
			}
			batchvalidateOne(cr.Fork(2), f.Batches[0], emit)
			made++
		}
	}})
}
