package corr

import (
	"strings"

	"github.com/moov-io/ach"
	"verif/harness/gen"
)

// readonly stream: the three methods of the read-only API that write through their receiver
// (FileHeader.ImmediateDestinationField / ImmediateOriginField, EntryDetail.PaymentTypeField, File.IsADV) on arbitrary
// stored values vs the effects modelled in Ach.Model.ReadOnly.  Strings are ASCII / Latin-1 with every kind of blank
// the trimming functions know.
func init() {
	blanks := []string{" ", "\t", "\u00a0", "\n", "\u2003", "\u0085", "\r", "\v", "\f", "\u3000"}
	register(&Stream{Name: "readonly", Run: func(r *gen.Rand, n int, emit func(op, impl, class string)) {
		randStr := func(cr *gen.Rand, pool []string) string {
			var sb strings.Builder
			for k := cr.Intn(4); k > 0; k-- {
				sb.WriteString(gen.Pick(cr, blanks))
			}
			for k := cr.Intn(11); k > 0; k-- {
				sb.WriteString(gen.Pick(cr, pool))
			}
			for k := cr.Intn(3); k > 0; k-- {
				sb.WriteString(gen.Pick(cr, blanks))
			}
			return sb.String()
		}
		for i := 0; i < n; i++ {
			cr := r.Fork(uint64(i))
			switch i % 3 {
			case 0:
				s := randStr(cr, []string{"0", "1", "2", "9", " ", "A"})
				fh := ach.NewFileHeader()
				origin := cr.Bool()
				res := Safe(func() string {
					if origin {
						fh.ImmediateOrigin = s
						_ = fh.ImmediateOriginField()
						return Hex(fh.ImmediateOrigin)
					}
					fh.ImmediateDestination = s
					_ = fh.ImmediateDestinationField()
					return Hex(fh.ImmediateDestination)
				})
				class := "routing/unchanged"
				if res != Hex(s) {
					class = "routing/trimmed-in-place"
				}
				emit("readonly routing "+Hex(s), res, class)
			case 1:
				s := randStr(cr, []string{"R", "r", "S", "s", "X", " ", "é"})
				if cr.Chance(1, 3) {
					s = gen.Pick(cr, []string{"R", "S", "r", " r ", "", "RR", "s"})
				}
				ed := ach.NewEntryDetail()
				ed.DiscretionaryData = s
				res := Safe(func() string { _ = ed.PaymentTypeField(); return Hex(ed.DiscretionaryData) })
				class := "payment/unchanged"
				if res != Hex(s) {
					class = "payment/normalised-in-place"
				}
				emit("readonly payment "+Hex(s), res, class)
			default:
				f := ach.NewFile()
				var in []string
				for k := 1 + cr.Intn(5); k > 0; k-- {
					hasH, hasC, adv := cr.Chance(3, 4), cr.Chance(3, 4), cr.Chance(1, 4)
					b := &ach.Batch{}
					if hasH {
						b.Header = ach.NewBatchHeader()
						b.Header.StandardEntryClassCode = ach.PPD
						if adv {
							b.Header.StandardEntryClassCode = ach.ADV
						}
					}
					if hasC {
						b.Control = ach.NewBatchControl()
					}
					f.Batches = append(f.Batches, b)
					l := []byte("hca")
					if hasH {
						l[0] = 'H'
					}
					if hasC {
						l[1] = 'C'
					}
					if hasH && adv {
						l[2] = 'A'
					}
					in = append(in, string(l))
				}
				res := Safe(func() string {
					_ = f.IsADV()
					var out []string
					for _, bb := range f.Batches {
						l := []byte("hca")
						if bb.GetHeader() != nil {
							l[0] = 'H'
							if bb.GetHeader().StandardEntryClassCode == ach.ADV {
								l[2] = 'A'
							}
						}
						if bb.GetControl() != nil {
							l[1] = 'C'
						}
						out = append(out, string(l))
					}
					return strings.Join(out, " ")
				})
				class := "isadv/unchanged"
				if res != strings.Join(in, " ") {
					class = "isadv/installed-header-or-control"
				}
				emit("readonly isadv "+strings.Join(in, " "), res, class)
			}
		}
	}})
}
