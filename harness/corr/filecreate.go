package corr

import (
	"fmt"
	"strings"

	"github.com/moov-io/ach"
	"verif/harness/gen"
)

// filecreate stream: File.Create on non-ADV files (standard and IAT batches) whose batch numbers and batch-control
// figures were set to arbitrary values after tabulation, vs the model of the numbering loop and the file control
// (Ach.FileCreate.fileCreate).  Abstraction: a batch is (header number, control number, control entry/addenda count,
// entry hash, total debit, total credit) — all File.Create reads; the result is the numbers afterwards and the six
// figures of the new file control.  ADV files (createFileADV) are not generated.
func init() {
	register(&Stream{Name: "filecreate", Run: func(r *gen.Rand, n int, emit func(op, impl, class string)) {
		for i := 0; i < n; i++ {
			cr := r.Fork(uint64(i))
			o := gen.Opts{MinBatches: 1, MaxBatches: 1 + i%5, MaxEntries: 2, SECs: []string{"PPD", "CCD", "WEB", "CTX"}}
			switch i % 4 {
			case 1:
				o.SECs = []string{"IAT"}
			case 2:
				o.SECs = []string{"IAT", "PPD", "CCD"}
			}
			f, err := gen.File(cr, o)
			if err != nil {
				continue
			}
			pattern := cr.Intn(5)
			class := []string{"as-created", "all-zero", "shifted", "gaps-and-zeros", "wild"}[pattern]
			pickNum := func(pos int) int {
				switch pattern {
				case 0:
					return pos
				case 1:
					return 0
				case 2:
					return pos + 3
				case 3:
					return gen.Pick(cr, []int{0, 1, pos, pos + 2, 2 * pos, 9})
				}
				return gen.Pick(cr, []int{-1, 0, 1, 2, 3, 7, pos, 1000000})
			}
			pos := 0
			setCtl := func(c *ach.BatchControl) {
				if pattern == 4 || cr.Chance(1, 6) {
					c.EntryHash = gen.Pick(cr, []int{0, 1, 9999999999, 5000000000, c.EntryHash})
					if cr.Chance(1, 2) {
						c.EntryAddendaCount = gen.Pick(cr, []int{0, 1, 7, 8, 9, 16, 17, 18, c.EntryAddendaCount})
					}
					if cr.Chance(1, 3) {
						c.TotalDebitEntryDollarAmount = gen.Pick(cr, []int{0, 999999999999, c.TotalDebitEntryDollarAmount})
					}
				}
			}
			var std, iat []string
			enc := func(h, c, eac, hash, d, cr int) string { return fmt.Sprintf("%d,%d,%d,%d,%d,%d", h, c, eac, hash, d, cr) }
			for _, b := range f.Batches {
				pos++
				num := pickNum(pos)
				b.GetHeader().BatchNumber = num
				b.GetControl().BatchNumber = num
				if pattern == 4 && cr.Chance(1, 3) {
					b.GetControl().BatchNumber = num + 1
				}
				setCtl(b.GetControl())
				c := b.GetControl()
				std = append(std, enc(b.GetHeader().BatchNumber, c.BatchNumber, c.EntryAddendaCount, c.EntryHash, c.TotalDebitEntryDollarAmount, c.TotalCreditEntryDollarAmount))
			}
			for j := range f.IATBatches {
				pos++
				b := &f.IATBatches[j]
				num := pickNum(pos)
				b.GetHeader().BatchNumber = num
				b.GetControl().BatchNumber = num
				setCtl(b.GetControl())
				c := b.GetControl()
				iat = append(iat, enc(b.GetHeader().BatchNumber, c.BatchNumber, c.EntryAddendaCount, c.EntryHash, c.TotalDebitEntryDollarAmount, c.TotalCreditEntryDollarAmount))
			}
			side := func(l []string) string {
				if len(l) == 0 {
					return "-"
				}
				return strings.Join(l, ";")
			}
			op := "filecreate " + side(std) + " " + side(iat)
			res := Safe(func() string {
				if err := f.Create(); err != nil {
					return "err:" + strings.ReplaceAll(err.Error(), " ", "_")
				}
				var so, io []string
				for _, b := range f.Batches {
					so = append(so, fmt.Sprintf("%d,%d", b.GetHeader().BatchNumber, b.GetControl().BatchNumber))
				}
				for j := range f.IATBatches {
					b := &f.IATBatches[j]
					io = append(io, fmt.Sprintf("%d,%d", b.GetHeader().BatchNumber, b.GetControl().BatchNumber))
				}
				fc := f.Control
				return fmt.Sprintf("%s %s %d,%d,%d,%d,%d,%d", side(so), side(io), fc.BatchCount, fc.BlockCount, fc.EntryAddendaCount, fc.EntryHash,
					fc.TotalDebitEntryDollarAmountInFile, fc.TotalCreditEntryDollarAmountInFile)
			})
			kind := "std"
			if len(f.IATBatches) > 0 && len(f.Batches) > 0 {
				kind = "std+iat"
			} else if len(f.IATBatches) > 0 {
				kind = "iat"
			}
			emit(op, res, class+"/"+kind)
		}
	}})
}
