package corr

import (
	"fmt"
	"strings"

	"github.com/moov-io/ach"
	"verif/harness/gen"
)

// segmentiat stream: SegmentFile on files that hold IAT batches (alone or after standard batches) vs the segment model
// applied to both lists.  Abstraction as in segment.go; an IAT batch is (header ServiceClassCode, header BatchNumber,
// entries = (TransactionCode, Amount, payload)), IAT entries are recognised in the output by pointer
// (segmentFileIATBatches adds the same *IATEntryDetail to the fresh halves and re-uses 220 / 225 batches whole).
// The input is a generator file, sometimes with every batch number (header and control) shifted by a constant.
func init() {
	register(&Stream{Name: "segmentiat", Run: func(r *gen.Rand, n int, emit func(op, impl, class string)) {
		for i := 0; i < n; i++ {
			cr := r.Fork(uint64(i))
			o := gen.Opts{IATCorrections: true, MinBatches: 1, MaxBatches: 1 + i%4, MaxEntries: 1 + i%3, SECs: []string{"IAT"}}
			if i%3 == 1 {
				o.SECs = []string{"IAT", "PPD", "CCD", "WEB"}
			}
			if cr.Chance(1, 2) {
				o.ServiceClasses = []int{ach.MixedDebitsAndCredits}
			}
			if i%5 == 4 {
				o.Categories = []string{ach.CategoryForward, ach.CategoryReturn, ach.CategoryNOC}
			}
			f, err := gen.File(cr, o)
			if err != nil || len(f.IATBatches) == 0 {
				continue
			}
			class := "as-created"
			if cr.Chance(1, 3) {
				shift := cr.Range(1, 5)
				class = "shifted"
				for _, b := range f.Batches {
					b.GetHeader().BatchNumber += shift
					b.GetControl().BatchNumber += shift
				}
				for j := range f.IATBatches {
					f.IATBatches[j].GetHeader().BatchNumber += shift
					f.IATBatches[j].GetControl().BatchNumber += shift
				}
				if f.Validate() != nil {
					continue
				}
			}
			sidx := map[*ach.EntryDetail]int{}
			iidx := map[*ach.IATEntryDetail]int{}
			next := 0
			var std, iat []string
			mixed := false
			for _, b := range f.Batches {
				var es []string
				for _, e := range b.GetEntries() {
					sidx[e] = next
					es = append(es, fmt.Sprintf("%d,%d,%d", e.TransactionCode, e.Amount, next))
					next++
				}
				std = append(std, fmt.Sprintf("%d:%d:%s", b.GetHeader().ServiceClassCode, b.GetHeader().BatchNumber, strings.Join(es, "/")))
			}
			for j := range f.IATBatches {
				b := &f.IATBatches[j]
				var es []string
				for _, e := range b.GetEntries() {
					iidx[e] = next
					es = append(es, fmt.Sprintf("%d,%d,%d", e.TransactionCode, e.Amount, next))
					next++
				}
				if b.GetHeader().ServiceClassCode == ach.MixedDebitsAndCredits {
					mixed = true
				}
				iat = append(iat, fmt.Sprintf("%d:%d:%s", b.GetHeader().ServiceClassCode, b.GetHeader().BatchNumber, strings.Join(es, "/")))
			}
			side := func(l []string) string {
				if len(l) == 0 {
					return "-"
				}
				return strings.Join(l, "|")
			}
			op := "segmentiat " + side(std) + " " + side(iat)
			show := func(g *ach.File) string {
				var s1, s2 []string
				for _, b := range g.Batches {
					var es []string
					for _, e := range b.GetEntries() {
						p := "?"
						if k, ok := sidx[e]; ok {
							p = fmt.Sprint(k)
						}
						es = append(es, fmt.Sprintf("%d,%d,%s", e.TransactionCode, e.Amount, p))
					}
					s1 = append(s1, fmt.Sprintf("%d:%d:%s", b.GetHeader().ServiceClassCode, b.GetHeader().BatchNumber, strings.Join(es, "/")))
				}
				for j := range g.IATBatches {
					b := &g.IATBatches[j]
					var es []string
					for _, e := range b.GetEntries() {
						p := "?"
						if k, ok := iidx[e]; ok {
							p = fmt.Sprint(k)
						}
						es = append(es, fmt.Sprintf("%d,%d,%s", e.TransactionCode, e.Amount, p))
					}
					s2 = append(s2, fmt.Sprintf("%d:%d:%s", b.GetHeader().ServiceClassCode, b.GetHeader().BatchNumber, strings.Join(es, "/")))
				}
				nilOr := func(l []string) string {
					if len(l) == 0 {
						return "nil"
					}
					return strings.Join(l, "|")
				}
				return nilOr(s1) + ";" + nilOr(s2)
			}
			res := Safe(func() string {
				c, d, err := f.SegmentFile(nil)
				if err != nil {
					return "err"
				}
				return "C=" + show(c) + " D=" + show(d)
			})
			kind := "iat-only"
			if len(f.Batches) > 0 {
				kind = "std+iat"
			}
			if mixed {
				kind += "/mixed"
			}
			if res == "err" {
				kind += "/err"
			}
			emit(op, res, class+"/"+kind)
		}
	}})
}
