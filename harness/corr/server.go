package corr

// Correspondence stream `server`: the real HTTP server of /repo/server (NewRepositoryInMemory(0), NewService,
// MakeHTTPHandler — what cmd/server/main.go builds — driven in-process through net/http/httptest, no sockets)
// against the Lean state machine Ach.Server.step instantiated with the token library `tokLib`
// (lean/Ach/Model/ServerDriver.lean, whose header comment fixes the line protocol).
//
// Stateful: the stream is a sequence of histories.  A history starts with the line `reset` (fresh real server,
// fresh model state, draw counter 0; both sides print `ok -`) followed by 5..40 requests; every request is one op
// line + one impl line.  `n` counts lines.
//
// # How the abstract tokens are realised (request side)
//
// File token t with validOK=1 (only t%4 in {1,2,3}): a one-batch PPD file built with the ach API, file header
// ImmediateOriginName "TOK <t>", FileCreationDate 180102, one batch (CompanyName "LIB", header ID "", number 1)
// holding one credit entry iff t is odd and one debit entry iff t%4 >= 2 (service class 220 / 225 / 200).
//
//	text (t,1,1)  the file as rendered by ach.Writer
//	text (t,0,1)  the same text followed by a junk line (Reader.Read: complete file + error)
//	text (t,0,0)  only the header line of token t with FileIDModifier "a" (Reader: error, the file keeps the invalid
//	              header, so File.Create / ValidateWith fail for good); for t = 0 also junk text / an empty body
//	text (t,1,0)  header line of token t + a file control with BatchCount 1 and no batch (Reader: no error;
//	              Create: no batches; ValidateWith: batch count mismatch)
//	JSON (t,1,1)  json.Marshal of the file (no "id")
//	JSON (t,0,0)  a document FileFromJSONWith cannot use: `{`, `nope`, `"x"`, empty body (nil file) or `{}` (a file
//	              equal to NewFile() + error): the server keeps NewFile(), token 0
//
// Batch token b: a one-entry (two for a mixed file) PPD batch as JSON, header ID "" for b = 0 else the decimal b,
// CompanyName "BT<token it will have>" (for b = 0 the token 100+n the draw accounting assigns), explicit batch
// number = largest batch number in the target file + 1.  The batch is credits-only / debits-only / mixed like the
// target file's token, so that SegmentFile moves *all* batches of a file to the side(s) `tokLib.segment` says.
// To hit the duplicate test with a generated batch ID, addbatch is also sent with b = a token >= 100 that is bound
// to a batch of the target file (header ID = the real string); no other explicit ID >= 100 is ever sent.
// opts = 0 is "no query parameters, no validateOpts".  File IDs < 100 are sent as decimals; a token >= 100 is sent
// as the real generated string bound to it (a token whose draw was never observable is sent as "unobserved-<tok>").
//
// # Draw accounting (binding of real random IDs to the tokens 100+n)
//
// The Go side keeps the counter `next` exactly as the header of ServerDriver.lean prescribes: create/createjson
// with `-` binds the returned ID to 100+next, next++ (whatever the status); a 200 flatten binds the returned ID,
// next++; a 200 segment/segmentbody binds creditFileID to 100+next and debitFileID to 100+next+1 (a side the server
// leaves out is not bound), next += 2; addbatch with b = 0 binds the returned ID (if any) to 100+next, next++ (also on
// 404).  IDs the library draws for itself (FileHeader.ID; the headers of the two halves of a split mixed batch,
// file.go:1240) are not counted by the model and not bound.
//
// # Abstraction of the responses (impl line = `<status> <payload>`)
//
// status: 200 ok, 201 created, 404 notFound, 409 conflict; a 400/500 whose "error" text is one of the server's own
// messages ("already exists", "invalid ACH file: …", "build file: error reading file …", "problem reading file …",
// "not found: no file …") is badRequest / error; every other 400/500 carries an error value of the library (possibly
// re-wrapped: "problem creating file …", "D : …") and is `libErr` — the model does not say which of the two it is.
// (POST /segment with an unreadable body really answers 400 or 500 depending on the library's text inside "D : …";
// Server.lean must say libErr there, not error.)
// A file object (JSON) prints as id:tok:kind:batches with
//
//	id       "" -> "-", decimal -> itself, a bound generated ID -> its token, anything else -> ?<prefix>
//	tok      ImmediateOriginName "TOK <t>" -> t, "" -> 0 (NewFile(), header-less files), else ?
//	kind     0 iff FileCreationDate is the library's (180102 or empty); otherwise the file was produced by
//	         addFileHeaderData (date = today) and the kind is the one recorded when its ID was bound: 1 = "file" of a
//	         flatten response, 2 = "creditFile", 3 = "debitFile" of a segment response (at that moment the content is
//	         checked: every batch of a creditFile is 220, of a debitFile 225, else the kind prints `!`).  Content alone
//	         cannot separate kinds 1/2/3: for a credits-only file Flatten's output and SegmentFile's credit file are
//	         the same value.  A derived date on an ID without recorded kind prints ?, a library date on a recorded ID !.
//	batches  batchHeader.id of every batch: "" -> 0, decimal -> itself, bound -> token; an *unbound* 40-hex ID on a
//	         batch whose CompanyName marker is known is a half of a mixed batch re-headed by SegmentFile and prints as
//	         the marker's token (class label gets "+reheaded"); marker and ID token must agree, else `<id>!<marker>`.
//
// `text` (contents): the id is the request's (NACHA text does not carry it), tok / date from the header line, batches
// from the CompanyName markers of the `5` lines, crlf = 1 iff every line ends in \r\n (mixed endings print ?).
// `files` is sorted by id token like the driver does.  A handler panic prints `panic`.
// class = request kind + ":" + status, with "+reheaded" (see above), "+gap" (a delbatch that left the batch numbers
// of a valid file with a hole: R3 applies from then on) and "+R3" (loose mode only).
//
// # What is left out of the input space (each is a place where `tokLib` is coarser than the ach library; set
// VERIF_SERVER_LOOSE=all, or a list like R1,R3, to generate them anyway and see the disagreements)
//
//	U1 validOK=1 with t%4 = 0 (a valid file has an entry, SegmentFile yields at least one side); JSON (t,0,1),
//	   (t,1,0) (FileFromJSONWith returns an error iff Create/Validate fail with the very options the server uses).
//	R0 addbatch on a stored text (t,1,0) file: with a batch its Create succeeds, `valid` would flip.
//	R1 validate on a valid file whose batch list changed (addbatch/delbatch) and that has not been through
//	   Create since (build/contents/flatten/segment): ValidateWith sees the stale file control (BatchCount).
//	R3 (no longer left out) flatten on a file whose batch numbers are not 1..k (a non-last batch was deleted):
//	   Flatten used to share the *BatchHeader with the source and renumber it, so the stored source file stopped
//	   validating — a genuine defect found by this stream, repaired in /repo (fix: Flatten copies batch headers).
//	R4 on a file derived through segment from a mixed file (its halves are re-headed, `tok` no longer tells its
//	   nature): segment; getbatch/delbatch/addbatch with an ID the model inherits but the real half does not carry.

import (
	"bytes"
	"encoding/json"
	"fmt"
	"net/http"
	"net/http/httptest"
	"os"
	"sort"
	"strconv"
	"strings"

	kitlog "github.com/go-kit/log"
	"github.com/moov-io/ach"
	"github.com/moov-io/ach/server"
	"verif/harness/gen"
)

const (
	srvLibDate = "180102"
	srvLibTime = "0304"
)

func init() {
	register(&Stream{Name: "server", Run: func(r *gen.Rand, n int, emit func(op, impl, class string)) {
		// R3 is generated by default since the defect behind it was repaired (fix: Flatten copies batch headers)
		loose := map[string]bool{"R3": true}
		for _, k := range strings.Split(os.Getenv("VERIF_SERVER_LOOSE"), ",") {
			if k == "1" || k == "all" {
				loose["R0"], loose["R1"], loose["R3"], loose["R4"] = true, true, true, true
			} else if k != "" {
				loose[k] = true
			}
		}
		left := n
		for h := uint64(0); left > 0; h++ {
			x := newSrvRun(r.Fork(h), loose)
			emit("reset", "ok -", "reset")
			left--
			for k := x.r.Range(5, 40); k > 0 && left > 0; k-- {
				op, impl, class := x.step()
				emit(op, impl, class)
				left--
			}
		}
	}})
}

// ---------------------------------------------------------------- library of concrete files

func srvHeader(tok int) ach.FileHeader {
	fh := ach.NewFileHeader()
	fh.ImmediateDestination = "231380104"
	fh.ImmediateOrigin = "121042882"
	fh.FileCreationDate = srvLibDate
	fh.FileCreationTime = srvLibTime
	fh.ImmediateDestinationName = "Federal Reserve Bank"
	fh.ImmediateOriginName = fmt.Sprintf("TOK %d", tok)
	return fh
}

// srvBatch builds a valid PPD batch; amount makes the entries of different tokens differ.
func srvBatch(id, marker string, num, amount int, credit, debit bool) ach.Batcher {
	bh := ach.NewBatchHeader()
	bh.ID = id
	switch {
	case credit && debit:
		bh.ServiceClassCode = ach.MixedDebitsAndCredits
	case credit:
		bh.ServiceClassCode = ach.CreditsOnly
	default:
		bh.ServiceClassCode = ach.DebitsOnly
	}
	bh.CompanyName = marker
	bh.CompanyIdentification = "121042882"
	bh.StandardEntryClassCode = ach.PPD
	bh.CompanyEntryDescription = "PAYROLL"
	bh.EffectiveEntryDate = "180103"
	bh.ODFIIdentification = "12104288"
	bh.BatchNumber = num
	b, err := ach.NewBatch(bh)
	if err != nil {
		panic(err)
	}
	seq := 1
	add := func(code int) {
		e := ach.NewEntryDetail()
		e.TransactionCode = code
		e.SetRDFI("231380104")
		e.DFIAccountNumber = "12345678"
		e.Amount = amount + seq
		e.IndividualName = "Some Body"
		e.SetTraceNumber(bh.ODFIIdentification, seq)
		seq++
		b.AddEntry(e)
	}
	if credit {
		add(ach.CheckingCredit)
	}
	if debit {
		add(ach.CheckingDebit)
	}
	if err := b.Create(); err != nil {
		panic(err)
	}
	return b
}

func srvNature(tok int) (credit, debit bool) { return tok%2 == 1, tok%4 >= 2 }

func srvLibFile(tok int) *ach.File {
	credit, debit := srvNature(tok)
	if !credit && !debit {
		panic("no valid file for a token that is neither credit nor debit")
	}
	f := ach.NewFile()
	f.SetHeader(srvHeader(tok))
	f.AddBatch(srvBatch("", "LIB", 1, 1000*tok, credit, debit))
	if err := f.Create(); err != nil {
		panic(err)
	}
	return f
}

func srvRender(f *ach.File) string {
	var buf bytes.Buffer
	w := ach.NewWriter(&buf)
	if err := w.Write(f); err != nil {
		panic(err)
	}
	w.Flush()
	return buf.String()
}

// srvTextBody realises a text body token; ok = false when no real text has these properties.
func srvTextBody(r *gen.Rand, tok int, parseOK, validOK bool) (string, bool) {
	switch {
	case validOK:
		if tok%4 == 0 {
			return "", false
		}
		t := srvRender(srvLibFile(tok))
		if !parseOK {
			t += "ZZZ this line is no record\n"
		}
		return t, true
	case parseOK:
		fh := srvHeader(tok)
		fc := ach.NewFileControl()
		fc.BatchCount, fc.BlockCount = 1, 1
		return fh.String() + "\n" + fc.String() + "\n", true
	default:
		if tok == 0 {
			switch r.Intn(3) {
			case 0:
				return "this is not an ACH file\n", true
			case 1:
				return "", true
			}
		}
		fh := srvHeader(tok)
		line := []byte(fh.String())
		line[33] = 'a' // FileIDModifier
		return string(line) + "\n", true
	}
}

func srvJSONBody(r *gen.Rand, tok int, parseOK, validOK bool) (string, bool) {
	switch {
	case parseOK && validOK:
		if tok%4 == 0 {
			return "", false
		}
		bs, err := json.Marshal(srvLibFile(tok))
		if err != nil {
			panic(err)
		}
		return string(bs), true
	case !parseOK && !validOK:
		return gen.Pick(r, []string{`{`, `nope`, `"x"`, ``, `{}`, `{}`}), true
	}
	return "", false
}

// ---------------------------------------------------------------- one history

type srvShBatch struct {
	tok    int
	realID string
	num    int
}

// srvShFile is what the generator remembers about a stored file, only to steer the choice of requests.
type srvShFile struct {
	tok     int
	valid   bool
	noBatch bool // text (t,1,0)
	tainted bool // came out of a segment of a mixed file (or was derived from such a file)
	stale   bool // batch list changed since the last Create
	batches []srvShBatch
}

type srvRun struct {
	r      *gen.Rand
	loose  map[string]bool
	h      http.Handler
	next   int
	realOf map[int]string
	tokOf  map[string]int
	kindOf map[string]int // real file ID -> kind recorded at binding
	sh     map[int]*srvShFile
	note   string // appended to the class label
	focus  int    // a stored valid file that is addressed more often than the others
	force  int    // when non-zero, the next fileID() answers this ID (scenario steering)
}

func newSrvRun(r *gen.Rand, loose map[string]bool) *srvRun {
	repo := server.NewRepositoryInMemory(0, nil)
	svc := server.NewService(repo)
	return &srvRun{r: r, loose: loose, h: server.MakeHTTPHandler(svc, repo, kitlog.NewNopLogger()),
		realOf: map[int]string{}, tokOf: map[string]int{}, kindOf: map[string]int{}, sh: map[int]*srvShFile{}}
}

func (x *srvRun) bind(real string) int {
	t := 100 + x.next
	x.next++
	if real != "" {
		x.realOf[t] = real
		if _, dup := x.tokOf[real]; !dup {
			x.tokOf[real] = t
		}
	}
	return t
}

func (x *srvRun) idString(tok int) string {
	if tok < 100 {
		return strconv.Itoa(tok)
	}
	if s, ok := x.realOf[tok]; ok {
		return s
	}
	return fmt.Sprintf("unobserved-%d", tok)
}

func srvSmall(s string) (int, bool) {
	n, err := strconv.Atoi(s)
	if err != nil || n < 0 || n >= 100 || strconv.Itoa(n) != s {
		return 0, false
	}
	return n, true
}

func srvClip(s string) string {
	s = strings.Map(func(c rune) rune {
		if c <= ' ' || c == ',' || c == ':' || c == '=' || c > '~' {
			return '_'
		}
		return c
	}, s)
	if len(s) > 12 {
		s = s[:12]
	}
	return s
}

// idTok abstracts an ID string; n = -1 when it is not a token.
func (x *srvRun) idTok(s string) (string, int) {
	if s == "" {
		return "-", -1
	}
	if n, ok := srvSmall(s); ok {
		return s, n
	}
	if t, ok := x.tokOf[s]; ok {
		return strconv.Itoa(t), t
	}
	return "?" + srvClip(s), -1
}

type srvResp struct {
	code int
	body []byte
	obj  map[string]any
}

func (x *srvRun) do(method, path, ctype, body string, crlf bool) (resp srvResp) {
	defer func() {
		if p := recover(); p != nil {
			resp = srvResp{code: -1, body: []byte(fmt.Sprint(p))}
		}
	}()
	req := httptest.NewRequest(method, path, strings.NewReader(body))
	if ctype != "" {
		req.Header.Set("Content-Type", ctype)
	}
	if crlf {
		req.Header.Set("X-Line-Ending", "CRLF")
	}
	rec := httptest.NewRecorder()
	x.h.ServeHTTP(rec, req)
	resp = srvResp{code: rec.Code, body: rec.Body.Bytes()}
	var v any
	if json.Unmarshal(resp.body, &v) == nil {
		resp.obj, _ = v.(map[string]any)
	}
	return resp
}

// the server's own error messages (service.go, repository.go, files.go:450, routing.go): everything else in a
// 400/500 is the text of an error value of the ach library
var srvOwnErrors = []string{"already exists", "invalid ACH file", "build file: error reading file", "problem reading file",
	"not found: no file", "not found", "no file provided", "no batch provided", "no Batch provided", "invalid request",
	"inconsistent mapping between route and handler", "snuck into encodeError"}

func (r srvResp) status() string {
	switch r.code {
	case -1:
		return "panic"
	case http.StatusOK:
		return "ok"
	case http.StatusCreated:
		return "created"
	case http.StatusNotFound:
		return "notFound"
	case http.StatusConflict:
		return "conflict"
	case http.StatusBadRequest, http.StatusInternalServerError:
		msg, _ := r.obj["error"].(string)
		for _, own := range srvOwnErrors {
			if strings.HasPrefix(msg, own) {
				if r.code == http.StatusBadRequest {
					return "badRequest"
				}
				return "error"
			}
		}
		return "libErr"
	}
	return fmt.Sprintf("http%d", r.code)
}

// field returns obj[a] or obj[b]: marshalStructWithError uses the Go field names, json.Encode the tags
func srvField(o map[string]any, a, b string) any {
	if v, ok := o[a]; ok {
		return v
	}
	return o[b]
}

type srvAbsBatch struct {
	show   string
	tok    int // -1 unknown
	realID string
	num    int
	scc    int
}

type srvAbsFile struct {
	id      string
	idTok   int
	realID  string
	tok     string
	tokN    int
	derived bool
	batches []srvAbsBatch
}

func srvMarker(name string) int {
	name = strings.TrimSpace(name)
	if name == "LIB" {
		return 0
	}
	if strings.HasPrefix(name, "BT") {
		if n, err := strconv.Atoi(name[2:]); err == nil && n > 0 {
			return n
		}
	}
	return -1
}

func srvFileTok(originName string) (string, int) {
	name := strings.TrimSpace(originName)
	if name == "" {
		return "0", 0
	}
	if strings.HasPrefix(name, "TOK ") {
		if n, err := strconv.Atoi(name[4:]); err == nil && n >= 0 && strconv.Itoa(n) == name[4:] {
			return name[4:], n
		}
	}
	return "?" + srvClip(name), -1
}

func (x *srvRun) absBatch(o map[string]any) srvAbsBatch {
	bh, _ := o["batchHeader"].(map[string]any)
	id, _ := bh["id"].(string)
	name, _ := bh["companyName"].(string)
	num, _ := bh["batchNumber"].(float64)
	scc, _ := bh["serviceClassCode"].(float64)
	b := srvAbsBatch{realID: id, num: int(num), scc: int(scc), tok: -1}
	m := srvMarker(name)
	switch {
	case id == "":
		b.show, b.tok = "0", 0
	default:
		b.show, b.tok = x.idTok(id)
	}
	if b.tok < 0 && len(id) == 40 && m >= 0 {
		// a half of a mixed batch, re-headed by SegmentFile: identified by its marker
		b.show, b.tok = strconv.Itoa(m), m
		x.note = "+reheaded"
	} else if b.tok != m {
		b.show = fmt.Sprintf("%s!%d", b.show, m)
	}
	return b
}

func (x *srvRun) absFile(v any) (srvAbsFile, bool) {
	o, ok := v.(map[string]any)
	if !ok {
		return srvAbsFile{}, false
	}
	var f srvAbsFile
	f.realID, _ = o["id"].(string)
	f.id, f.idTok = x.idTok(f.realID)
	fh, _ := o["fileHeader"].(map[string]any)
	name, _ := fh["immediateOriginName"].(string)
	f.tok, f.tokN = srvFileTok(name)
	date, _ := fh["fileCreationDate"].(string)
	f.derived = date != srvLibDate && date != ""
	if l, ok := o["batches"].([]any); ok {
		for _, b := range l {
			bo, _ := b.(map[string]any)
			f.batches = append(f.batches, x.absBatch(bo))
		}
	}
	return f, true
}

func (x *srvRun) kindString(realID string, derived bool) string {
	k, rec := x.kindOf[realID]
	switch {
	case !derived && !rec:
		return "0"
	case !derived:
		return "!"
	case !rec:
		return "?"
	}
	return strconv.Itoa(k)
}

func (x *srvRun) show(f srvAbsFile) string {
	var bs []string
	for _, b := range f.batches {
		bs = append(bs, b.show)
	}
	return fmt.Sprintf("%s:%s:%s:%s", f.id, f.tok, x.kindString(f.realID, f.derived), strings.Join(bs, "."))
}

// refresh takes the batch list of a stored file from what the server just showed
func (x *srvRun) refresh(f srvAbsFile) {
	s := x.sh[f.idTok]
	if f.idTok < 0 || s == nil {
		return
	}
	s.batches = s.batches[:0]
	for _, b := range f.batches {
		s.batches = append(s.batches, srvShBatch{b.tok, b.realID, b.num})
	}
}

// ---------------------------------------------------------------- generation of one request

func (x *srvRun) storedIDs() []int {
	var ids []int
	for id := range x.sh {
		ids = append(ids, id)
	}
	sort.Ints(ids)
	return ids
}

// fileID picks the file a request addresses: mostly a stored one
func (x *srvRun) fileID() int {
	if x.force != 0 {
		id := x.force
		x.force = 0
		return id
	}
	ids := x.storedIDs()
	if f := x.sh[x.focus]; f != nil && x.r.Chance(2, 5) {
		return x.focus // half of the traffic goes to one valid file, so that it gets a longer life
	}
	if len(ids) > 0 && x.r.Chance(5, 6) {
		id := gen.Pick(x.r, ids)
		if x.sh[x.focus] == nil && x.sh[id].valid {
			x.focus = id
		}
		return id
	}
	if x.next > 0 && x.r.Chance(1, 4) {
		return 100 + x.r.Intn(x.next) // some generated token: a deleted file, a batch ID, an unobserved draw
	}
	return x.r.Range(1, 8)
}

// withBatches lists the stored files that have a batch with an ID
func (x *srvRun) withBatches() []int {
	var ids []int
	for _, id := range x.storedIDs() {
		for _, b := range x.sh[id].batches {
			if b.tok > 0 {
				ids = append(ids, id)
				break
			}
		}
	}
	return ids
}

func (s *srvShFile) gap() bool {
	for i, b := range s.batches {
		if b.num != i+1 {
			return true
		}
	}
	return false
}

// canonical tells whether the real ID of the batch is the one its token stands for
func (x *srvRun) canonical(b srvShBatch) bool {
	switch {
	case b.tok == 0:
		return b.realID == ""
	case b.tok < 100:
		return b.realID == strconv.Itoa(b.tok)
	}
	return x.realOf[b.tok] == b.realID
}

var srvKinds = []struct {
	name string
	w    int
}{{"create", 14}, {"createjson", 8}, {"get", 8}, {"delete", 4}, {"list", 3}, {"validate", 7}, {"build", 6}, {"flatten", 6},
	{"segment", 7}, {"contents", 8}, {"segmentbody", 4}, {"addbatch", 13}, {"getbatch", 5}, {"delbatch", 6}, {"batches", 4}}

func (x *srvRun) pickKind() string {
	total := 0
	for _, k := range srvKinds {
		total += k.w
	}
	v := x.r.Intn(total)
	for _, k := range srvKinds {
		if v < k.w {
			return k.name
		}
		v -= k.w
	}
	return "list"
}

func (x *srvRun) bodyFlags(json bool) (tok int, parseOK, validOK bool) {
	valid := []int{1, 2, 3, 5, 6, 7, 9, 10, 11}
	v := x.r.Intn(100)
	switch {
	case json && v < 72, !json && v < 60:
		return gen.Pick(x.r, valid), true, true
	case json:
		return x.r.Intn(12), false, false
	case v < 72:
		return gen.Pick(x.r, valid), false, true
	case v < 84:
		return x.r.Intn(12), true, false
	}
	return x.r.Intn(12), false, false
}

func b2i(b bool) int {
	if b {
		return 1
	}
	return 0
}

func (x *srvRun) step() (op, impl, class string) {
	x.note = ""
	for try := 0; try < 20; try++ {
		kind := x.pickKind()
		if len(x.sh) == 0 && x.r.Chance(2, 3) {
			kind = gen.Pick(x.r, []string{"create", "create", "createjson"})
		}
		// a valid stored file whose batch numbers have a hole: keep working on it (flatten / build renumber,
		// validate / contents then show whether the stored file survived)
		x.force = 0
		if try == 0 && x.r.Chance(1, 2) {
			for _, id := range x.storedIDs() {
				if f := x.sh[id]; f.valid && f.gap() {
					x.force = id
					kind = gen.Pick(x.r, []string{"flatten", "flatten", "validate", "validate", "build", "contents", "get"})
					break
				}
			}
		}
		if op, impl, ok := x.request(kind); ok {
			st, _, _ := strings.Cut(impl, " ")
			return op, impl, kind + ":" + st + x.note
		}
	}
	op, impl, _ = x.request("list")
	st, _, _ := strings.Cut(impl, " ")
	return op, impl, "list:" + st
}

// request generates one request of the kind, sends it and abstracts the answer; ok = false: the drawn request is
// outside the realisable input space (see the header), draw again.
func (x *srvRun) request(kind string) (op, impl string, ok bool) {
	switch kind {
	case "create", "createjson":
		return x.reqCreate(kind == "createjson")
	case "segmentbody":
		return x.reqSegmentBody()
	case "list":
		r := x.do("GET", "/files", "", "", false)
		return "list", r.status() + " " + x.payFiles(r), true
	case "addbatch":
		return x.reqAddBatch()
	case "getbatch", "delbatch":
		return x.reqBatchByID(kind)
	}
	id := x.fileID()
	s := x.sh[id]
	path := "/files/" + x.idString(id)
	op = fmt.Sprintf("%s %d", kind, id)
	switch kind {
	case "get":
		r := x.do("GET", path, "", "", false)
		f, isFile := x.absFile(srvField(r.obj, "file", "File"))
		if r.code == http.StatusOK && isFile {
			x.refresh(f)
			return op, "ok file " + x.show(f), true
		}
		return op, r.status() + " -", true
	case "delete":
		r := x.do("DELETE", path, "", "", false)
		if r.code == http.StatusOK {
			delete(x.sh, id)
		}
		return op, r.status() + " -", true
	case "validate":
		if s != nil && s.valid && s.stale && !x.loose["R1"] {
			return "", "", false // R1
		}
		method := gen.Pick(x.r, []string{"GET", "POST"})
		r := x.do(method, path+"/validate", "", "", false)
		return op, r.status() + " -", true
	case "build":
		r := x.do("GET", path+"/build", "", "", false)
		x.created(s)
		if f, isFile := x.absFile(srvField(r.obj, "file", "File")); isFile {
			if r.code == http.StatusOK {
				x.refresh(f)
			}
			return op, r.status() + " file " + x.show(f), true
		}
		return op, r.status() + " -", true
	case "contents":
		crlf := x.r.Bool()
		op = fmt.Sprintf("contents %d %d", id, b2i(crlf))
		r := x.do("GET", path+"/contents", "", "", crlf)
		x.created(s)
		if r.code == http.StatusOK {
			return op, "ok " + x.payText(id, r.body), true
		}
		return op, r.status() + " -", true
	case "flatten":
		if s != nil && s.gap() {
			if !x.loose["R3"] {
				return "", "", false // R3
			}
			x.note += "+R3"
		}
		r := x.do("POST", path+"/flatten", "", "", false)
		x.created(s)
		if r.code != http.StatusOK {
			return op, r.status() + " -", true
		}
		real, _ := r.obj["id"].(string)
		t := x.bind(real)
		x.kindOf[real] = 1
		f, isFile := x.absFile(r.obj["file"])
		if !isFile {
			return op, "ok idfile " + strconv.Itoa(t) + " ?", true
		}
		x.derive(s, f)
		idShow, _ := x.idTok(real)
		return op, fmt.Sprintf("ok idfile %s %s", idShow, x.show(f)), true
	case "segment":
		if s != nil && s.tainted && !x.loose["R4"] {
			return "", "", false // R4
		}
		body := gen.Pick(x.r, []string{"", "{}"})
		r := x.do("POST", path+"/segment", "application/json", body, false)
		x.created(s)
		if r.code != http.StatusOK {
			return op, r.status() + " -", true
		}
		return op, "ok " + x.paySeg(s, r), true
	case "batches":
		r := x.do("GET", path+"/batches", "", "", false)
		if r.code != http.StatusOK {
			return op, r.status() + " -", true
		}
		l, isList := r.obj["batches"].([]any)
		if !isList {
			return op, "ok batches null", true
		}
		var bs []string
		for _, b := range l {
			bo, _ := b.(map[string]any)
			bs = append(bs, x.absBatch(bo).show)
		}
		return op, "ok batches " + strings.Join(bs, "."), true
	}
	return "", "", false
}

// created: a request that runs File.Create on the stored file went through
func (x *srvRun) created(s *srvShFile) {
	if s != nil && s.valid {
		s.stale = false
	}
}

// derive remembers a file the server derived (flatten / segment) from s and stored under f's ID
func (x *srvRun) derive(s *srvShFile, f srvAbsFile) *srvShFile {
	if f.idTok < 0 {
		return nil
	}
	d := &srvShFile{tok: f.tokN, valid: true}
	if s != nil {
		d.tainted = s.tainted
	}
	x.sh[f.idTok] = d
	x.refresh(f)
	return d
}

func (x *srvRun) reqCreate(isJSON bool) (op, impl string, ok bool) {
	tok, parseOK, validOK := x.bodyFlags(isJSON)
	var body string
	if isJSON {
		body, ok = srvJSONBody(x.r, tok, parseOK, validOK)
	} else {
		body, ok = srvTextBody(x.r, tok, parseOK, validOK)
	}
	if !ok {
		return "", "", false
	}
	// the ID: generated, a free small one, or whatever (conflicts)
	id, idArg, path := -1, "-", "/files/create"
	if !x.r.Chance(1, 4) {
		id = x.r.Range(1, 8)
		if x.sh[id] != nil && x.r.Chance(2, 3) {
			id = x.r.Range(1, 8)
		}
		idArg, path = strconv.Itoa(id), "/files/"+strconv.Itoa(id)
	}
	name, ctype := "create", "text/plain"
	if isJSON {
		name, ctype = "createjson", "application/json"
	}
	op = fmt.Sprintf("%s %s %d %d %d", name, idArg, tok, b2i(parseOK), b2i(validOK))
	r := x.do("POST", path, ctype, body, false)
	real, _ := srvField(r.obj, "id", "ID").(string)
	if id < 0 {
		id = x.bind(real)
	}
	idShow, idTok := x.idTok(real)
	f, isFile := x.absFile(srvField(r.obj, "file", "File"))
	if r.code == -1 || !isFile {
		return op, r.status() + " -", true
	}
	// the server stores the file iff the ID was free, whatever the parser said
	if idTok >= 0 && x.sh[idTok] == nil {
		s := &srvShFile{tok: f.tokN, valid: validOK, noBatch: !isJSON && parseOK && !validOK}
		x.sh[idTok] = s
		x.refresh(f)
	}
	_ = id
	return op, fmt.Sprintf("%s idfile %s %s", r.status(), idShow, x.show(f)), true
}

func (x *srvRun) reqSegmentBody() (op, impl string, ok bool) {
	tok, parseOK, validOK := x.bodyFlags(false)
	body, ok := srvTextBody(x.r, tok, parseOK, validOK)
	if !ok {
		return "", "", false
	}
	op = fmt.Sprintf("segmentbody %d %d %d", tok, b2i(parseOK), b2i(validOK))
	r := x.do("POST", "/segment", "text/plain", body, false)
	if r.code != http.StatusOK {
		return op, r.status() + " -", true
	}
	src := &srvShFile{tok: tok, valid: true}
	return op, "ok " + x.paySeg(src, r), true
}

// paySeg binds the IDs of a 200 segment response (credit = first draw, debit = second) and prints the payload
func (x *srvRun) paySeg(src *srvShFile, r srvResp) string {
	part := func(idKey, fileKey string, kind, scc int) string {
		real, _ := r.obj[idKey].(string)
		t := x.bind(real)
		if real == "" {
			return "-"
		}
		x.kindOf[real] = kind
		f, isFile := x.absFile(r.obj[fileKey])
		if !isFile {
			return strconv.Itoa(t) + "=?"
		}
		ks := ""
		for _, b := range f.batches {
			if b.scc != scc {
				ks = "!" // the content is not what the key says
			}
		}
		d := x.derive(src, f)
		if d != nil && src != nil && src.tok%4 == 3 {
			d.tainted = true
		}
		idShow, _ := x.idTok(real)
		s := x.show(f)
		if ks != "" {
			p := strings.SplitN(s, ":", 4)
			p[2] = ks
			s = strings.Join(p, ":")
		}
		return idShow + "=" + s
	}
	c := part("creditFileID", "creditFile", 2, ach.CreditsOnly)
	d := part("debitFileID", "debitFile", 3, ach.DebitsOnly)
	return "seg " + c + " " + d
}

func (x *srvRun) payFiles(r srvResp) string {
	if r.code != http.StatusOK {
		return "-"
	}
	l, _ := r.obj["files"].([]any)
	var fs []srvAbsFile
	for _, v := range l {
		if f, ok := x.absFile(v); ok {
			fs = append(fs, f)
		} else {
			fs = append(fs, srvAbsFile{id: "?", idTok: 1 << 30, tok: "?"})
		}
	}
	key := func(f srvAbsFile) int {
		if f.idTok < 0 {
			return 1 << 29
		}
		return f.idTok
	}
	sort.SliceStable(fs, func(i, j int) bool {
		if key(fs[i]) != key(fs[j]) {
			return key(fs[i]) < key(fs[j])
		}
		return fs[i].id < fs[j].id
	})
	var out []string
	for _, f := range fs {
		out = append(out, x.show(f))
	}
	return "files " + strings.Join(out, ",")
}

// payText abstracts a text/plain body by column
func (x *srvRun) payText(id int, body []byte) string {
	text := string(body)
	crlf := "0"
	nCRLF, nLF := strings.Count(text, "\r\n"), strings.Count(text, "\n")
	switch {
	case nCRLF == nLF && nLF > 0:
		crlf = "1"
	case nCRLF != 0 || strings.Contains(text, "\r"):
		crlf = "?"
	}
	tok, derived := "?", false
	var bs []string
	for _, line := range strings.Split(text, "\n") {
		line = strings.TrimSuffix(line, "\r")
		if len(line) != 94 {
			if line != "" {
				bs = append(bs, "?len")
			}
			continue
		}
		switch line[0] {
		case '1':
			tok, _ = srvFileTok(line[63:86])
			derived = line[23:29] != srvLibDate
		case '5':
			if m := srvMarker(line[4:20]); m >= 0 {
				bs = append(bs, strconv.Itoa(m))
			} else {
				bs = append(bs, "?"+srvClip(line[4:20]))
			}
		}
	}
	return fmt.Sprintf("text %s %d:%s:%s:%s", crlf, id, tok, x.kindString(x.idString(id), derived), strings.Join(bs, "."))
}

func (x *srvRun) reqAddBatch() (op, impl string, ok bool) {
	id := x.fileID()
	s := x.sh[id]
	b := 0
	if !x.r.Chance(1, 3) {
		b = x.r.Range(1, 5)
		if s != nil && len(s.batches) > 0 && x.r.Chance(1, 6) {
			if d := gen.Pick(x.r, s.batches); d.tok > 0 && x.canonical(d) {
				b = d.tok // a duplicate; for a token >= 100 the generated ID it is bound to is sent
			}
		}
	}
	if s != nil {
		if s.noBatch && !x.loose["R0"] {
			return "", "", false // R0
		}
		for _, sb := range s.batches {
			if b != 0 && sb.tok == b && !x.canonical(sb) && !x.loose["R4"] {
				return "", "", false // R4
			}
		}
	}
	tok, hid := b, x.idString(b)
	if b == 0 {
		tok, hid = 100+x.next, ""
	}
	credit, debit, num := true, false, 2
	if s != nil {
		if c, d := srvNature(s.tok); s.valid && (c || d) {
			credit, debit = c, d
		}
		for _, sb := range s.batches {
			if sb.num >= num {
				num = sb.num + 1
			}
		}
		if num <= len(s.batches) {
			num = len(s.batches) + 1
		}
	}
	bs, err := json.Marshal(srvBatch(hid, fmt.Sprintf("BT%d", tok), num, 500*tok, credit, debit))
	if err != nil {
		panic(err)
	}
	op = fmt.Sprintf("addbatch %d %d", id, b)
	r := x.do("POST", "/files/"+x.idString(id)+"/batches", "application/json", string(bs), false)
	real, _ := srvField(r.obj, "id", "ID").(string)
	if b == 0 {
		x.bind(real)
	}
	if r.code != http.StatusOK {
		return op, r.status() + " -", true
	}
	show, t := x.idTok(real)
	if s != nil {
		s.batches = append(s.batches, srvShBatch{t, real, num})
		s.stale = true
	}
	return op, "ok id " + show, true
}

func (x *srvRun) reqBatchByID(kind string) (op, impl string, ok bool) {
	id := x.fileID()
	if with := x.withBatches(); len(with) > 0 && x.r.Chance(3, 4) {
		id = gen.Pick(x.r, with)
	}
	s := x.sh[id]
	b := x.r.Range(1, 6)
	if s != nil && len(s.batches) > 0 && x.r.Chance(3, 4) {
		// an ID the file has (deleting one that is not the last leaves a hole in the batch numbers)
		var withID []srvShBatch
		for _, sb := range s.batches {
			if sb.tok > 0 {
				withID = append(withID, sb)
			}
		}
		if len(withID) > 0 {
			b = withID[len(withID)-1].tok
			if kind == "getbatch" || x.r.Chance(3, 4) {
				b = gen.Pick(x.r, withID).tok
			}
		}
	} else if x.next > 0 && x.r.Chance(1, 5) {
		b = 100 + x.r.Intn(x.next)
	}
	if s != nil && !x.loose["R4"] {
		for _, sb := range s.batches {
			if sb.tok == b && !x.canonical(sb) {
				return "", "", false // R4
			}
		}
	}
	op = fmt.Sprintf("%s %d %d", kind, id, b)
	path := "/files/" + x.idString(id) + "/batches/" + x.idString(b)
	if kind == "getbatch" {
		r := x.do("GET", path, "", "", false)
		if bo, isObj := r.obj["batch"].(map[string]any); r.code == http.StatusOK && isObj {
			return op, "ok batch " + x.absBatch(bo).show, true
		}
		return op, r.status() + " -", true
	}
	r := x.do("DELETE", path, "", "", false)
	if r.code == http.StatusOK && s != nil {
		for i := len(s.batches) - 1; i >= 0; i-- {
			if s.batches[i].tok == b {
				s.batches = append(s.batches[:i:i], s.batches[i+1:]...)
				break
			}
		}
		s.stale = true
		if s.valid && s.gap() {
			x.note += "+gap"
		}
	}
	return op, r.status() + " -", true
}
