package corr

import (
	"fmt"
	"strings"

	"verif/harness/gen"
)

type stringer interface{ String() string }

func countNonEmpty(xs ...stringer) int {
	n := 0
	for _, x := range xs {
		if x == nil {
			continue
		}
		// typed nil pointers inside the interface render as "" (nil guards in String())
		if s := Safe(func() string { return x.String() }); s != "" && !strings.HasPrefix(s, "panic:") {
			n++
		}
	}
	return n
}

// write stream: tree shape of generated files vs the kinds of the records the real Writer emits.
func init() {
	register(&Stream{Name: "write", Run: func(r *gen.Rand, n int, emit func(op, impl, class string)) {
		cats := []string{"Forward", "Return", "NOC", "RefusedNOC", "DishonoredReturn", "DishonoredReturnContested"}
		for i := 0; i < n; i++ {
			fr := r.Fork(uint64(i))
			o := gen.Opts{IATCorrections: true, MaxBatches: 1 + i%4, MaxEntries: 1 + i%7, Categories: cats}
			if i%5 == 0 {
				o.SECs = []string{"ADV"}
			} else if i%5 == 1 {
				o.SECs = []string{"IAT", "PPD"}
			}
			f, err := gen.File(fr, o)
			if err != nil {
				continue
			}
			text, err := gen.Write(f, i%2 == 0)
			if err != nil {
				continue
			}
			var kinds strings.Builder
			filler := strings.Repeat("9", 94)
			for _, l := range strings.Split(strings.ReplaceAll(string(text), "\r", ""), "\n") {
				if l == "" {
					continue
				}
				if l == filler {
					kinds.WriteByte('F')
				} else {
					kinds.WriteByte(l[0])
				}
			}
			var batches []string
			isADV := f.IsADV()
			for _, b := range f.Batches {
				var es []string
				if isADV {
					for _, e := range b.GetADVEntries() {
						es = append(es, fmt.Sprint(countNonEmpty(e.Addenda99)))
					}
				} else {
					for _, e := range b.GetEntries() {
						k := countNonEmpty(e.Addenda02, e.Addenda98, e.Addenda98Refused, e.Addenda99, e.Addenda99Dishonored, e.Addenda99Contested)
						for _, a := range e.Addenda05 {
							k += countNonEmpty(a)
						}
						es = append(es, fmt.Sprint(k))
					}
				}
				if len(es) == 0 {
					batches = append(batches, "-")
				} else {
					batches = append(batches, strings.Join(es, ","))
				}
			}
			for _, b := range f.IATBatches {
				var es []string
				for _, e := range b.GetEntries() {
					k := countNonEmpty(e.Addenda10, e.Addenda11, e.Addenda12, e.Addenda13, e.Addenda14, e.Addenda15, e.Addenda16, e.Addenda98, e.Addenda99)
					for _, a := range e.Addenda17 {
						k += countNonEmpty(a)
					}
					for _, a := range e.Addenda18 {
						k += countNonEmpty(a)
					}
					es = append(es, fmt.Sprint(k))
				}
				if len(es) == 0 {
					batches = append(batches, "-")
				} else {
					batches = append(batches, strings.Join(es, ","))
				}
			}
			shape := strings.Join(batches, ";")
			if shape == "" {
				shape = "-"
			}
			emit("write "+shape, kinds.String(), fmt.Sprintf("residue=%d", (len(kinds.String())-strings.Count(kinds.String(), "F"))%10))
		}
	}})
}
