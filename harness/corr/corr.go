// Package corr implements the correspondence streams: each stream generates
// operations, runs the real moov-io/ach code on them in-process, and writes the
// operation lines (for the Lean model driver) and the implementation's result
// lines side by side.  The driver script diffs the two result streams.
package corr

import (
	"bufio"
	"encoding/hex"
	"fmt"
	"os"
	"sort"
	"strings"

	"verif/harness/gen"
)

// Stream is one correspondence stream.
type Stream struct {
	Name string
	// Run generates n cases; for each it calls emit(opLine, implResult, class).
	// class is a short label used for the distribution histogram.
	Run func(r *gen.Rand, n int, emit func(op, impl, class string))
}

var Streams = map[string]*Stream{}

func register(s *Stream) { Streams[s.Name] = s }

func Hex(s string) string {
	if s == "" {
		return "-"
	}
	return hex.EncodeToString([]byte(s))
}

// Stats is written next to the op files so the driver can put the measured
// input distribution into the evidence.
type Stats struct {
	Stream   string         `json:"stream"`
	Cases    int            `json:"cases"`
	Distinct int            `json:"distinct"`
	Classes  map[string]int `json:"classes"`
	Samples  []string       `json:"samples"`
	Panics   []string       `json:"panics,omitempty"`
}

// RunStream writes ops and impl result files and returns the statistics.
func RunStream(name string, seed uint64, n int, opsPath, implPath string) (*Stats, error) {
	s := Streams[name]
	if s == nil {
		var names []string
		for k := range Streams {
			names = append(names, k)
		}
		sort.Strings(names)
		return nil, fmt.Errorf("unknown stream %q (have %s)", name, strings.Join(names, ","))
	}
	of, err := os.Create(opsPath)
	if err != nil {
		return nil, err
	}
	defer of.Close()
	inf, err := os.Create(implPath)
	if err != nil {
		return nil, err
	}
	defer inf.Close()
	ow, iw := bufio.NewWriter(of), bufio.NewWriter(inf)
	st := &Stats{Stream: name, Classes: map[string]int{}}
	seen := map[string]bool{}
	emit := func(op, impl, class string) {
		fmt.Fprintln(ow, op)
		fmt.Fprintln(iw, impl)
		st.Cases++
		st.Classes[class]++
		if !seen[op] {
			seen[op] = true
			st.Distinct++
		}
		if len(st.Samples) < 5 && st.Cases%7 == 1 {
			st.Samples = append(st.Samples, op+" => "+impl)
		}
	}
	s.Run(gen.NewRand(seed^hashName(name)), n, emit)
	if err := ow.Flush(); err != nil {
		return nil, err
	}
	if err := iw.Flush(); err != nil {
		return nil, err
	}
	return st, nil
}

func hashName(s string) uint64 {
	var h uint64 = 1469598103934665603
	for i := 0; i < len(s); i++ {
		h ^= uint64(s[i])
		h *= 1099511628211
	}
	return h
}

// Safe runs f and converts a panic into the result "panic:<msg>".
func Safe(f func() string) (out string) {
	defer func() {
		if r := recover(); r != nil {
			out = "panic:" + strings.ReplaceAll(fmt.Sprint(r), " ", "_")
		}
	}()
	return f()
}
