package corr

// reversal stream: the Lean model Ach.reverseBatch over the decoded switch Ach.revTable
// (lean/Ach/Model/Reversal.lean, theorems in Ach/Props/C13.lean) against the real (*File).Reversal(effectiveEntryDate)
// (/repo/reversal.go).
//
// Inputs: valid generated files of standard batches of one SEC code per case (all 21 SEC codes NewBatch builds except
// ADV, in rotation; no IAT batches — Reversal only walks f.Batches), forward batches and, for a share of the cases,
// return / dishonored / contested / NOC batches (transaction codes x1 / x6), prenote batches (x3 / x8, incl. loan
// prenote 53) and zero-dollar codes (x4 / x9, incl. 54).  In one case out of eight every batch is replaced by its
// embedded raw *ach.Batch (through the verif hook VerifBatchOf): `Reversal` calls `build()` only when the dynamic type
// is *ach.Batch, which is never the case for batches made by NewBatch, the Reader or the JSON decoder.
//
// Abstraction (trusted), taken before the call for the op line and after the call for the impl line, per batch of
// f.Batches in file order:
//   serviceClass = Header.ServiceClassCode, description = Header.CompanyEntryDescription,
//   effectiveDate = Header.EffectiveEntryDate, ctlDebit / ctlCredit = Control.TotalDebitEntryDollarAmount /
//   TotalCreditEntryDollarAmount, ctlServiceClass = Control.ServiceClassCode,
//   entries = (TransactionCode, Amount, DFIAccountNumber, TraceNumber) of GetEntries() in order.
//   date = effectiveEntryDate.Format("060102") (the model takes the formatted date).
// Strings travel as hex of their UTF-8 bytes (`-` = empty).  For a raw *ach.Batch (`built` = 1) the two control
// totals are printed as `*` on both sides: `build()` re-tabulates them from the new codes, the model describes the loop
// body before that.  A non-nil error of Reversal (never seen) is not modelled: op `reversal -`, impl `-`, class
// `go-error-skipped`.  The file header's date/time and the file control rebuilt by File.Create are not compared.
//
// Line protocol: see lean/Ach/Model/ReversalDriver.lean.

import (
	"fmt"
	"strings"
	"time"

	"github.com/moov-io/ach"
	"verif/harness/gen"
)

var reversalSECs = []string{"ACK", "ARC", "ATX", "BOC", "CCD", "CIE", "COR", "CTX", "DNE", "ENR", "MTE", "POP", "POS", "PPD", "RCK", "SHR", "TEL", "TRC", "TRX", "WEB", "XCK"}

func reversalBatch(b ach.Batcher, built bool, in bool) string {
	bh, bc := b.GetHeader(), b.GetControl()
	var es []string
	for _, e := range b.GetEntries() {
		es = append(es, fmt.Sprintf("%d,%d,%s,%s", e.TransactionCode, e.Amount, Hex(e.DFIAccountNumber), Hex(e.TraceNumber)))
	}
	s := "-"
	if len(es) > 0 {
		s = strings.Join(es, "/")
	}
	tot := fmt.Sprintf("%d:%d", bc.TotalDebitEntryDollarAmount, bc.TotalCreditEntryDollarAmount)
	if in {
		bf := 0
		if built {
			bf = 1
		}
		return fmt.Sprintf("%d:%s:%s:%s:%d:%d:%s", bh.ServiceClassCode, Hex(bh.CompanyEntryDescription), Hex(bh.EffectiveEntryDate),
			tot, bc.ServiceClassCode, bf, s)
	}
	if built {
		tot = "*:*"
	}
	return fmt.Sprintf("%d:%s:%s:%s:%d:%s", bh.ServiceClassCode, Hex(bh.CompanyEntryDescription), Hex(bh.EffectiveEntryDate),
		tot, bc.ServiceClassCode, s)
}

func reversalCase(r *gen.Rand, i int) (op, impl, class string) {
	sec := reversalSECs[i%len(reversalSECs)]
	o := gen.Opts{SECs: []string{sec}, MinBatches: 1, MaxBatches: r.Range(1, 4), MaxEntries: r.Range(1, 5),
		PresetTraces: r.Bool(), NonASCII: r.Chance(1, 6), FullWidth: r.Chance(1, 6)}
	cat := "F" // requested categories (only steers generation)
	switch r.Intn(8) {
	case 0:
		o.Categories, cat = []string{ach.CategoryReturn}, "R"
	case 1:
		o.Categories, cat = []string{ach.CategoryDishonoredReturn, ach.CategoryDishonoredReturnContested}, "D"
	case 2:
		o.Categories, cat = []string{ach.CategoryForward, ach.CategoryReturn}, "FR"
	}
	f, err := gen.File(r.Fork(1), o)
	if err != nil && cat != "F" {
		// the SEC admits no batch of that category: fall back to forward
		o.Categories, cat = nil, "F"
		f, err = gen.File(r.Fork(2), o)
	}
	if err != nil {
		return "reversal -", "-", "gen-error-skipped"
	}
	if sec == "COR" {
		cat = "N" // COR batches are always notifications of change
	}
	built := r.Chance(1, 8)
	if built {
		for k, b := range f.Batches {
			raw := ach.VerifBatchOf(b)
			if raw == nil {
				return "reversal -", "-", "gen-error-skipped"
			}
			f.Batches[k] = raw
		}
	}
	date := time.Date(r.Range(1990, 2068), time.Month(r.Range(1, 12)), r.Range(1, 28), r.Intn(24), r.Intn(60), 0, 0, []*time.Location{time.UTC, time.FixedZone("w", -8*3600), time.FixedZone("e", 11*3600)}[r.Intn(3)])

	var parts []string
	odd := false // some code is mapped outside the standard codes (53 -> 58, 54 -> 59)
	kinds := map[byte]bool{}
	for _, b := range f.Batches {
		parts = append(parts, reversalBatch(b, built, true))
		for _, e := range b.GetEntries() {
			if e.TransactionCode == 53 || e.TransactionCode == 54 {
				odd = true
			}
			switch e.TransactionCode % 10 {
			case 1, 6:
				kinds['r'] = true
			case 3, 8:
				kinds['p'] = true
			case 4, 9:
				kinds['z'] = true
			}
		}
	}
	op = "reversal " + Hex(date.Format("060102")) + " " + strings.Join(parts, "|")

	res := Safe(func() string {
		if err := f.Reversal(date); err != nil {
			return "err"
		}
		return "ok"
	})
	if strings.HasPrefix(res, "panic:") {
		return op, res, "panic"
	}
	if res == "err" {
		return "reversal -", "-", "go-error-skipped"
	}
	var outs []string
	for _, b := range f.Batches {
		outs = append(outs, reversalBatch(b, built, false))
	}
	impl = strings.Join(outs, "|")
	// class: SEC code and the most notable feature of the case — raw (*ach.Batch, build() runs), 53-54 (a loan
	// prenote / zero-dollar credit, mapped to the non-standard codes 58 / 59), ret (return/NOC codes x1 / x6),
	// pz (prenote x3 / x8 or zero-dollar x4 / x9 codes), plain (only x2 / x7 / 55)
	feature := "plain"
	switch {
	case built:
		feature = "raw"
	case odd:
		feature = "53-54"
	case kinds['r']:
		feature = "ret"
	case kinds['p'] || kinds['z']:
		feature = "pz"
	}
	class = sec + "/" + feature
	return op, impl, class
}

func init() {
	register(&Stream{Name: "reversal", Run: func(r *gen.Rand, n int, emit func(op, impl, class string)) {
		for i := 0; i < n; i++ {
			op, impl, class := reversalCase(r.Fork(uint64(i)), i)
			emit(op, impl, class)
		}
	}})
}
