package corr

import (
	"fmt"
	"strings"

	"github.com/moov-io/ach"
	"verif/harness/gen"
)

// iatvalidate stream: one IAT batch (generated valid, then perturbed in one arithmetic / agreement field half of the
// time) × option sets: real IATBatch.Validate vs the model iatBatchValidate.  One direction, like `validate`: the
// implementation accepts ⇒ the model accepts (record-level field checks are opaque `true` in the model).
func iatAddendaCount(e *ach.IATEntryDetail) int {
	n := len(e.Addenda17) + len(e.Addenda18)
	for _, p := range []bool{e.Addenda10 != nil, e.Addenda11 != nil, e.Addenda12 != nil, e.Addenda13 != nil, e.Addenda14 != nil,
		e.Addenda15 != nil, e.Addenda16 != nil, e.Addenda98 != nil, e.Addenda99 != nil} {
		if p {
			n++
		}
	}
	return n
}

func init() {
	register(&Stream{Name: "iatvalidate", Run: func(r *gen.Rand, n int, emit func(op, impl, class string)) {
		for i := 0; i < n; i++ {
			fr := r.Fork(uint64(i))
			f, err := gen.File(fr, gen.Opts{IATCorrections: true, SECs: []string{"IAT"}, MaxBatches: 1, MaxEntries: 1 + i%4, Categories: []string{"Forward", "Return", "NOC"}})
			if err != nil || len(f.IATBatches) == 0 {
				continue
			}
			b := &f.IATBatches[0]
			es := b.GetEntries()
			kind := "none"
			if fr.Chance(1, 2) {
				switch fr.Intn(10) {
				case 0:
					gen.Pick(fr, es).Amount += fr.Range(1, 50)
					kind = "entry-amount"
				case 1:
					b.GetControl().TotalDebitEntryDollarAmount += fr.Range(1, 9)
					kind = "ctl-debit"
				case 2:
					b.GetControl().TotalCreditEntryDollarAmount += fr.Range(1, 9)
					kind = "ctl-credit"
				case 3:
					b.GetControl().EntryHash += fr.Range(1, 9)
					kind = "ctl-hash"
				case 4:
					b.GetControl().EntryAddendaCount += 1
					kind = "ctl-count"
				case 5:
					b.GetControl().ServiceClassCode = gen.Pick(fr, []int{200, 220, 225})
					kind = "ctl-class"
				case 6:
					e := gen.Pick(fr, es)
					e.CheckDigit = fmt.Sprint((int(e.CheckDigit[0]-'0') + 1 + fr.Intn(8)) % 10)
					kind = "check-digit"
				case 7:
					if len(es) > 1 {
						es[0].TraceNumber, es[1].TraceNumber = es[1].TraceNumber, es[0].TraceNumber
						kind = "trace-swap"
					}
				case 8:
					b.GetHeader().BatchNumber += 7
					kind = "hdr-number"
				case 9:
					e := gen.Pick(fr, es)
					e.TraceNumber = "9" + e.TraceNumber[1:]
					kind = "trace-prefix"
				}
			}
			opts := randOpts(fr)
			res := Safe(func() string {
				b.SetValidation(opts)
				if b.Validate() == nil {
					return "accept"
				}
				return "reject"
			})
			var sb strings.Builder
			h, c := b.GetHeader(), b.GetControl()
			fmt.Fprintf(&sb, "validateiat %s %d - %s %d %d %d %d %d %d - %s %d %d", optsBits(opts), h.ServiceClassCode, Hex(h.ODFIIdentification), h.BatchNumber,
				c.ServiceClassCode, c.EntryAddendaCount, c.EntryHash, c.TotalDebitEntryDollarAmount, c.TotalCreditEntryDollarAmount, Hex(c.ODFIIdentification), c.BatchNumber, len(es))
			for _, e := range es {
				fmt.Fprintf(&sb, " %d %s %s %d %s %d", e.TransactionCode, Hex(e.RDFIIdentification), Hex(e.CheckDigit), e.Amount, Hex(e.TraceNumber), iatAddendaCount(e))
			}
			emit(sb.String(), res, kind+"/"+res)
		}
	}})
}
