package corr

import (
	"fmt"
	"strings"

	"github.com/moov-io/ach"
	"verif/harness/gen"
)

// validate stream: in-memory files (valid, then perturbed) × option sets: real File.ValidateWith vs the arithmetic
// model.  One direction only: implementation accepts ⇒ model accepts (the model's opaque conjuncts are `true`).

func optsBits(o *ach.ValidateOpts) string {
	bs := []bool{o.SkipAll, o.RequireABAOrigin, o.BypassOriginValidation, o.BypassDestinationValidation, o.CustomTraceNumbers,
		o.AllowZeroBatches, o.AllowMissingFileHeader, o.AllowMissingFileControl, o.BypassCompanyIdentificationMatch,
		o.CustomReturnCodes, o.UnequalServiceClassCode, o.AllowUnorderedBatchNumbers, o.AllowInvalidCheckDigit,
		o.UnequalAddendaCounts, o.PreserveSpaces, o.AllowInvalidAmounts, o.AllowZeroEntryAmount, o.AllowSpecialCharacters}
	var sb strings.Builder
	for _, b := range bs {
		if b {
			sb.WriteByte('1')
		} else {
			sb.WriteByte('0')
		}
	}
	return sb.String()
}

func randOpts(r *gen.Rand) *ach.ValidateOpts {
	o := &ach.ValidateOpts{}
	if r.Chance(1, 2) {
		return o
	}
	set := []*bool{&o.BypassOriginValidation, &o.CustomTraceNumbers, &o.AllowMissingFileHeader, &o.AllowMissingFileControl,
		&o.BypassCompanyIdentificationMatch, &o.UnequalServiceClassCode, &o.AllowUnorderedBatchNumbers, &o.AllowInvalidCheckDigit,
		&o.UnequalAddendaCounts, &o.AllowInvalidAmounts, &o.AllowZeroEntryAmount, &o.AllowSpecialCharacters, &o.CustomReturnCodes}
	for k := 1 + r.Intn(3); k > 0; k-- {
		*gen.Pick(r, set) = true
	}
	return o
}

func addendaCountOf(e *ach.EntryDetail) int {
	n := len(e.Addenda05)
	for _, p := range []bool{e.Addenda02 != nil, e.Addenda98 != nil, e.Addenda98Refused != nil, e.Addenda99 != nil, e.Addenda99Dishonored != nil, e.Addenda99Contested != nil} {
		if p {
			n++
		}
	}
	return n
}

func encodeFile(f *ach.File, bits string) string {
	var sb strings.Builder
	fc := f.Control
	fmt.Fprintf(&sb, "validate %s %d %d %d %d %d %d", bits, fc.BatchCount, fc.EntryAddendaCount, fc.EntryHash, fc.TotalDebitEntryDollarAmountInFile, fc.TotalCreditEntryDollarAmountInFile, len(f.Batches))
	for _, b := range f.Batches {
		h, c := b.GetHeader(), b.GetControl()
		fmt.Fprintf(&sb, " %d %s %s %d %d %d %d %d %d %s %s %d %d", h.ServiceClassCode, Hex(h.CompanyIdentification), Hex(h.ODFIIdentification), h.BatchNumber,
			c.ServiceClassCode, c.EntryAddendaCount, c.EntryHash, c.TotalDebitEntryDollarAmount, c.TotalCreditEntryDollarAmount, Hex(c.CompanyIdentification), Hex(c.ODFIIdentification), c.BatchNumber, len(b.GetEntries()))
		for _, e := range b.GetEntries() {
			fmt.Fprintf(&sb, " %d %s %s %d %s %d", e.TransactionCode, Hex(e.RDFIIdentification), Hex(e.CheckDigit), e.Amount, Hex(e.TraceNumber), addendaCountOf(e))
		}
	}
	fmt.Fprintf(&sb, " %d", len(f.IATBatches))
	for _, ib := range f.IATBatches {
		c := ib.GetControl()
		fmt.Fprintf(&sb, " %d %d %d %d", c.EntryAddendaCount, c.EntryHash, c.TotalDebitEntryDollarAmount, c.TotalCreditEntryDollarAmount)
	}
	return sb.String()
}

func perturbFile(r *gen.Rand, f *ach.File) string {
	if len(f.Batches) == 0 {
		return "none"
	}
	b := gen.Pick(r, f.Batches)
	es := b.GetEntries()
	switch r.Intn(14) {
	case 0:
		return "none"
	case 1:
		if len(es) > 0 {
			gen.Pick(r, es).Amount += r.Range(1, 50)
			return "entry-amount"
		}
	case 2:
		b.GetControl().TotalDebitEntryDollarAmount += r.Range(1, 9)
		return "ctl-debit"
	case 3:
		b.GetControl().TotalCreditEntryDollarAmount += r.Range(1, 9)
		return "ctl-credit"
	case 4:
		b.GetControl().EntryHash += r.Range(1, 9)
		return "ctl-hash"
	case 5:
		b.GetControl().EntryAddendaCount += 1
		return "ctl-count"
	case 6:
		b.GetControl().ServiceClassCode = gen.Pick(r, []int{200, 220, 225})
		return "ctl-class"
	case 7:
		b.GetControl().CompanyIdentification += "9"
		return "ctl-company"
	case 8:
		f.Control.EntryAddendaCount += 1
		return "file-count"
	case 9:
		f.Control.EntryHash += 3
		return "file-hash"
	case 10:
		if len(es) > 0 {
			e := gen.Pick(r, es)
			e.CheckDigit = fmt.Sprint((int(e.CheckDigit[0]-'0') + 1 + r.Intn(8)) % 10)
			return "check-digit"
		}
	case 11:
		if len(es) > 1 {
			es[0].TraceNumber, es[1].TraceNumber = es[1].TraceNumber, es[0].TraceNumber
			return "trace-swap"
		}
	case 12:
		b.GetHeader().BatchNumber += 7
		return "hdr-number"
	case 13:
		if len(f.Batches) > 1 {
			f.Batches[0], f.Batches[1] = f.Batches[1], f.Batches[0]
			return "batch-swap"
		}
	}
	return "none"
}

func init() {
	register(&Stream{Name: "validate", Run: func(r *gen.Rand, n int, emit func(op, impl, class string)) {
		secs := []string{"PPD", "CCD", "WEB", "CTX", "TEL", "ARC", "COR", "IAT", "POS", "RCK"}
		for i := 0; i < n; i++ {
			fr := r.Fork(uint64(i))
			f, err := gen.File(fr, gen.Opts{SECs: secs, MaxBatches: 3, MaxEntries: 4, Categories: []string{"Forward", "Return", "NOC"}, PresetTraces: i%3 == 0})
			if err != nil || f.IsADV() {
				continue
			}
			kind := perturbFile(fr, f)
			opts := randOpts(fr)
			res := Safe(func() string {
				// options are read both from the argument and from the file / records: set them everywhere
				f.SetValidation(opts)
				for _, b := range f.Batches {
					b.SetValidation(opts)
				}
				if f.ValidateWith(opts) == nil {
					return "accept"
				}
				return "reject"
			})
			emit(encodeFile(f, optsBits(opts)), res, kind+"/"+res)
		}
	}})
}
