package corr

import (
	"bytes"
	"errors"
	"fmt"
	"io"
	"strings"
	"unicode/utf8"

	"github.com/moov-io/ach"
	"verif/harness/gen"
)

var errInjected = errors.New("injected")

// faultWriter accepts room bytes in total, then fails according to mode.
type faultWriter struct {
	mode string
	room int
	got  int
}

func (w *faultWriter) Write(p []byte) (int, error) {
	if len(p) <= w.room {
		w.room -= len(p)
		w.got += len(p)
		return len(p), nil
	}
	n := w.room
	w.room = 0
	w.got += n
	switch w.mode {
	case "hard":
		return n, errInjected
	case "short":
		return n, nil
	default:
		return n, io.ErrShortWrite
	}
}

// faultReader delivers k bytes, then fails persistently with err.
type faultReader struct {
	data  []byte
	k     int
	pos   int
	err   error
	chunk int
}

func (r *faultReader) Read(p []byte) (int, error) {
	limit := len(r.data)
	if r.k < limit {
		limit = r.k
	}
	if r.pos >= limit {
		if r.k <= len(r.data) {
			return 0, r.err
		}
		return 0, io.EOF
	}
	n := limit - r.pos
	if n > len(p) {
		n = len(p)
	}
	if r.chunk > 0 && n > r.chunk {
		n = r.chunk
	}
	copy(p, r.data[r.pos:r.pos+n])
	r.pos += n
	return n, nil
}

func init() {
	register(&Stream{Name: "io", Run: func(r *gen.Rand, n int, emit func(op, impl, class string)) {
		type sample struct {
			f    *ach.File
			text []byte
			lens []int
		}
		var samples []sample
		for i := 0; len(samples) < 6 && i < 40; i++ {
			f, err := gen.File(r.Fork(uint64(i)), gen.Opts{SECs: []string{"PPD", "CCD", "WEB", "CTX"}, MaxBatches: 1 + i%4, MaxEntries: 2 + i%9})
			if err != nil {
				continue
			}
			text, err := gen.Write(f, false)
			if err != nil {
				continue
			}
			var lens []int
			for _, l := range strings.Split(strings.TrimRight(string(text), "\n"), "\n") {
				if strings.HasPrefix(l, "9999") {
					break
				}
				lens = append(lens, len(l))
			}
			if !utf8.Valid(text) {
				continue
			}
			samples = append(samples, sample{f, text, lens})
		}
		if len(samples) == 0 {
			return
		}
		for i := 0; i < n; i++ {
			s := samples[i%len(samples)]
			if i%2 == 0 {
				mode := gen.Pick(r, []string{"hard", "short", "shortErr"})
				k := r.Intn(len(s.text) + 200)
				if r.Chance(1, 5) {
					k = len(s.text) - r.Intn(4)
				}
				fw := &faultWriter{mode: mode, room: k}
				w := ach.NewWriter(fw)
				w.BypassValidation = true
				err := w.Write(s.f)
				res := fmt.Sprintf("ok %d", fw.got)
				if err != nil {
					kind := "other:" + strings.ReplaceAll(err.Error(), " ", "_")
					if errors.Is(err, errInjected) {
						kind = "injected"
					} else if errors.Is(err, io.ErrShortWrite) {
						kind = "short"
					}
					res = fmt.Sprintf("err %d %s", fw.got, kind)
				}
				var ls []string
				for _, l := range s.lens {
					ls = append(ls, fmt.Sprint(l))
				}
				emit(fmt.Sprintf("write %s %d 4096 %s 1", mode, k, strings.Join(ls, ",")), res, "write-"+mode)
			} else {
				kind := gen.Pick(r, []string{"other", "ueof"})
				k := r.Intn(len(s.text) + 1)
				chunk := 0
				if r.Chance(1, 3) {
					chunk = 1 + r.Intn(200)
				}
				var e error = errInjected
				if kind == "ueof" {
					e = io.ErrUnexpectedEOF
				}
				fr := &faultReader{data: s.text, k: k, err: e, chunk: chunk}
				_, err := ach.NewReader(fr).Read()
				res := "ok"
				switch {
				case err == nil:
				case errors.Is(err, e) && !(kind == "ueof" && false):
					res = "err scanner"
				case strings.Contains(err.Error(), "nil scanner"):
					res = "err nilscanner"
				default:
					res = "ok" // parse/validation errors of a truncated text are not I/O errors
				}
				emit(fmt.Sprintf("read %d %d %s %d", k, len(s.text), kind, chunk), res, "read-"+kind)
			}
		}
	}})
	_ = bytes.MinRead
}
