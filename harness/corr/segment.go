package corr

// segment stream: the Lean model Ach.Segment.segment / createNumbers / segmentNumbersOK
// (lean/Ach/Model/Segment.lean, theorems in Ach/Props/C11.lean) against the real (*File).SegmentFile(nil)
// (/repo/file.go: SegmentFile, segmentFileBatches, segmentFileBatchAddEntry, and File.Create's numbering loop).
//
// Inputs: valid files of standard batches only (every SEC NewBatch builds except ADV; no IAT batches).  The file comes
// from gen.File (created and validated); then the batch numbers of header and control are overwritten — 0 ("number
// me") or a value > 1 — File.Create is run again (it replaces numbers <= 1 by the 1-based position and keeps the
// rest) and the file must still Validate; the patterns are chosen so that the resulting sequence is ascending.
//
// Abstraction (trusted):
//   - input batch: sc = header ServiceClassCode, number = header BatchNumber at the time of the call,
//     entries = (TransactionCode, Amount, payload) with payload = index of the entry in file order.
//   - output: SegmentFile's error (any error) -> `err`; otherwise for the credit file and the debit file the list of
//     its Batches as (header ServiceClassCode, header BatchNumber as left by the output file's Create, entries) — an
//     entry is recognised by pointer (segmentFileBatchAddEntry and the whole-batch re-use both keep the
//     *EntryDetail pointers) and printed with its current TransactionCode and Amount; `nil` when the file has no
//     batches (the real call returns an empty *File then, never nil).  An unknown entry pointer prints payload `?`.
//   - not modelled, not generated: IAT batches (segmentFileIATBatches works like the standard case but on copies of
//     the header fields of an IATBatchHeader and *blanks the trace number* of every entry of a mixed batch), ADV files
//     (service class 280, split by segmentFileBatchAddADVEntry).
//   - the only error the model predicts is the one caused by batch numbering (D8): each non-empty output is
//     Create'd (numbering loop = createNumbers) and Validate'd (isSequenceAscending = ascending).  The credit file is
//     created and validated first, so `err` does not say which side failed.
//
// Line protocol: see lean/Ach/Model/SegmentDriver.lean.

import (
	"fmt"
	"strings"

	"github.com/moov-io/ach"
	"verif/harness/gen"
)

var segmentSECs = []string{"ACK", "ARC", "ATX", "BOC", "CCD", "CIE", "COR", "CTX", "DNE", "ENR", "MTE", "POP", "POS", "PPD", "RCK", "SHR", "TEL", "TRC", "TRX", "WEB", "XCK"}

// SECs admitting both directions: mixed (200) batches with credits and debits only occur here.
var segmentBothSECs = []string{"CCD", "CTX", "PPD", "WEB", "MTE", "POS", "SHR", "COR"}

func segmentSide(f *ach.File, idx map[*ach.EntryDetail]int) string {
	if f == nil || len(f.Batches) == 0 {
		if f != nil && len(f.IATBatches) != 0 {
			return "iat?"
		}
		return "nil"
	}
	var bs []string
	for _, b := range f.Batches {
		var es []string
		for _, e := range b.GetEntries() {
			p := "?"
			if k, ok := idx[e]; ok {
				p = fmt.Sprint(k)
			}
			es = append(es, fmt.Sprintf("%d,%d,%s", e.TransactionCode, e.Amount, p))
		}
		s := "-"
		if len(es) > 0 {
			s = strings.Join(es, "/")
		}
		bs = append(bs, fmt.Sprintf("%d:%d:%s", b.GetHeader().ServiceClassCode, b.GetHeader().BatchNumber, s))
	}
	return strings.Join(bs, "|")
}

func segmentCase(r *gen.Rand, i int) (op, impl, class string) {
	nb := r.Range(1, 6)
	var secs []string
	for k := r.Range(1, 3); k > 0; k-- {
		if r.Chance(2, 3) {
			secs = append(secs, gen.Pick(r, segmentBothSECs))
		} else {
			secs = append(secs, gen.Pick(r, segmentSECs))
		}
	}
	o := gen.Opts{SECs: secs, MinBatches: nb, MaxBatches: nb, MaxEntries: r.Range(1, 5), PresetTraces: r.Bool()}
	switch r.Intn(6) {
	case 0:
		o.Categories = []string{ach.CategoryForward, ach.CategoryReturn}
	case 1:
		o.Categories = []string{ach.CategoryForward, ach.CategoryReturn, ach.CategoryNOC, ach.CategoryDishonoredReturn}
	}
	if r.Chance(1, 5) {
		o.ServiceClasses = []int{ach.MixedDebitsAndCredits}
	}
	f, err := gen.File(r.Fork(1), o)
	if err != nil {
		return "segment -", "-", "gen-error-skipped"
	}

	// ---- batch numbers, set before (a second) File.Create ----
	pattern := []string{"default", "default", "offset", "gaps", "zeros-then-gaps", "mixed"}[r.Intn(6)]
	last := 0
	for k, b := range f.Batches {
		pos := k + 1
		n := 0 // 0: let Create number the batch with its position
		switch pattern {
		case "offset": // 5,6,7,…
			if k == 0 {
				n = r.Range(2, 9)
			} else {
				n = last + 1
			}
		case "gaps":
			n = last + r.Range(1, 4)
			if n < 2 {
				n = 2
			}
		case "zeros-then-gaps":
			if last >= pos || r.Chance(1, 2) {
				n = max(last, pos) + r.Range(1, 3)
			}
		case "mixed":
			if last >= pos || r.Chance(1, 3) {
				n = max(last, 1) + r.Range(1, 3)
			}
		}
		if n == 0 {
			last = pos
		} else {
			last = n
		}
		b.GetHeader().BatchNumber = n
		b.GetControl().BatchNumber = n
	}
	if err := f.Create(); err != nil {
		return "segment -", "-", "gen-error-skipped"
	}
	if err := f.Validate(); err != nil {
		return "segment -", "-", "input-invalid-skipped"
	}

	// ---- abstraction of the input ----
	idx := map[*ach.EntryDetail]int{}
	var parts []string
	kinds := map[string]bool{}
	for _, b := range f.Batches {
		var es []string
		hasC, hasD := false, false
		for _, e := range b.GetEntries() {
			idx[e] = len(idx)
			es = append(es, fmt.Sprintf("%d,%d,%d", e.TransactionCode, e.Amount, idx[e]))
			if d := e.TransactionCode % 10; d >= 1 && d <= 4 {
				hasC = true
			} else {
				hasD = true
			}
		}
		sc := b.GetHeader().ServiceClassCode
		switch {
		case sc == 200 && hasC && hasD:
			kinds["m"] = true // mixed batch holding both
		case sc == 200 && hasC:
			kinds["c"] = true // 200 holding only credits
		case sc == 200:
			kinds["d"] = true // 200 holding only debits
		case sc == 220:
			kinds["C"] = true
		case sc == 225:
			kinds["D"] = true
		default:
			kinds["?"] = true
		}
		parts = append(parts, fmt.Sprintf("%d:%d:%s", sc, b.GetHeader().BatchNumber, strings.Join(es, "/")))
	}
	op = "segment " + strings.Join(parts, "|")
	// class: the most interesting kind of batch present (m: 200 with both directions, c / d: 200 holding one
	// direction only, CD: 220 and 225 batches, C / D: only 220 / only 225 batches)
	ks := "?"
	switch {
	case kinds["?"]:
	case kinds["m"]:
		ks = "m"
	case kinds["c"] && kinds["d"]:
		ks = "cd"
	case kinds["c"]:
		ks = "c"
	case kinds["d"]:
		ks = "d"
	case kinds["C"] && kinds["D"]:
		ks = "CD"
	case kinds["C"]:
		ks = "C"
	case kinds["D"]:
		ks = "D"
	}
	switch pattern {
	case "offset", "gaps":
		pattern = "shifted" // every number > 1, kept by Create
	case "zeros-then-gaps", "mixed":
		pattern = "zeros+kept" // some numbered by position, some kept
	}

	// ---- the real call ----
	impl = Safe(func() string {
		cf, df, err := f.SegmentFile(nil)
		if err != nil {
			return "err"
		}
		return "C=" + segmentSide(cf, idx) + " D=" + segmentSide(df, idx)
	})
	res := "ok"
	if impl == "err" {
		res = "err"
	} else if strings.HasPrefix(impl, "panic:") {
		res = "panic"
	}
	return op, impl, fmt.Sprintf("%s/%s/%s", pattern, ks, res)
}

func init() {
	register(&Stream{Name: "segment", Run: func(r *gen.Rand, n int, emit func(op, impl, class string)) {
		for i := 0; i < n; i++ {
			op, impl, class := segmentCase(r.Fork(uint64(i)), i)
			emit(op, impl, class)
		}
	}})
}
