package corr

import (
	"errors"
	"fmt"
	"strings"

	"github.com/moov-io/ach"
	"github.com/moov-io/base"
	"verif/harness/gen"
)

// reader stream: sequences of 94-column ASCII records (valid files, mutated files, arbitrary sequences drawn from a pool
// of real records) are read by the real Reader under default options; the op line hands the same lines to the Lean
// dispatcher model (Ach.ReaderSM), together with the outcome of every record-level Validate() the model leaves
// abstract (computed here by parsing the line as each record type and calling the real Validate) and, per batch
// control, whether the batch it closed validated (read off the real run's "Batches" parse errors).  The impl line is
// the resulting file as a tree of line numbers (every record stores the Reader's LineNumber) plus the error classes in
// order.

type canParseValidate interface {
	Parse(string)
	Validate() error
}

func okAs(rec canParseValidate, line string) bool {
	ok := false
	func() {
		defer func() { recover() }()
		rec.Parse(line)
		ok = rec.Validate() == nil
	}()
	return ok
}

func bit(b bool) byte {
	if b {
		return '1'
	}
	return '0'
}

// readerBits computes the four flags of the line protocol (see Ach/Model/ReaderDriver.lean).
func readerBits(line string, batchOK bool) string {
	v := [4]bool{false, false, false, batchOK}
	switch line[0] {
	case '1':
		v[0] = okAs(&ach.FileHeader{}, line)
	case '5':
		bh := ach.NewBatchHeader()
		v[0] = okAs(bh, line)
		func() {
			defer func() { recover() }()
			_, err := ach.NewBatch(bh)
			v[1] = err == nil
		}()
		v[2] = okAs(ach.NewIATBatchHeader(), line)
	case '6':
		v[0] = okAs(ach.NewEntryDetail(), line)
		v[1] = okAs(ach.NewADVEntryDetail(), line)
		v[2] = okAs(ach.NewIATEntryDetail(), line)
	case '7':
		code := line[3:6]
		switch line[1:3] {
		case "02":
			v[0] = okAs(ach.NewAddenda02(), line)
		case "05":
			v[0] = okAs(ach.NewAddenda05(), line)
		case "98":
			if ach.IsRefusedChangeCode(code) {
				v[0] = okAs(ach.NewAddenda98Refused(), line)
			} else {
				v[0] = okAs(ach.NewAddenda98(), line)
			}
		case "99":
			switch {
			case ach.IsDishonoredReturnCode(code):
				v[0] = okAs(ach.NewAddenda99Dishonored(), line)
			case ach.IsContestedReturnCode(code):
				v[0] = okAs(ach.NewAddenda99Contested(), line)
			default:
				v[0] = okAs(ach.NewAddenda99(), line)
			}
		}
		v[1] = okAs(ach.NewAddenda99(), line)
		switch line[1:3] {
		case "10":
			v[2] = okAs(ach.NewAddenda10(), line)
		case "11":
			v[2] = okAs(ach.NewAddenda11(), line)
		case "12":
			v[2] = okAs(ach.NewAddenda12(), line)
		case "13":
			v[2] = okAs(ach.NewAddenda13(), line)
		case "14":
			v[2] = okAs(ach.NewAddenda14(), line)
		case "15":
			v[2] = okAs(ach.NewAddenda15(), line)
		case "16":
			v[2] = okAs(ach.NewAddenda16(), line)
		case "17":
			v[2] = okAs(ach.NewAddenda17(), line)
		case "18":
			v[2] = okAs(ach.NewAddenda18(), line)
		case "98":
			v[2] = okAs(ach.NewAddenda98(), line)
		case "99":
			v[2] = okAs(ach.NewAddenda99(), line)
		}
	case '8':
		v[0] = okAs(ach.NewBatchControl(), line)
		v[1] = okAs(ach.NewADVBatchControl(), line)
	case '9':
		v[0] = okAs(&ach.FileControl{}, line)
		v[1] = okAs(&ach.ADVFileControl{}, line)
	}
	return string([]byte{bit(v[0]), bit(v[1]), bit(v[2]), bit(v[3])})
}

func lineNo(n int) string {
	if n == 0 {
		return "-"
	}
	return fmt.Sprint(n)
}

type slotLine struct{ rank, line int }

func showSlots(sl []slotLine) string {
	var parts []string
	for _, s := range sl {
		parts = append(parts, fmt.Sprintf("%d=%d", s.rank, s.line))
	}
	return "(" + strings.Join(parts, ",") + ")"
}

func showStdEntry(e *ach.EntryDetail) string {
	var sl []slotLine
	if e.Addenda02 != nil {
		sl = append(sl, slotLine{0, e.Addenda02.LineNumber})
	}
	for _, a := range e.Addenda05 {
		sl = append(sl, slotLine{1, a.LineNumber})
	}
	if e.Addenda98 != nil {
		sl = append(sl, slotLine{2, e.Addenda98.LineNumber})
	}
	if e.Addenda98Refused != nil {
		sl = append(sl, slotLine{3, e.Addenda98Refused.LineNumber})
	}
	if e.Addenda99 != nil {
		sl = append(sl, slotLine{4, e.Addenda99.LineNumber})
	}
	if e.Addenda99Dishonored != nil {
		sl = append(sl, slotLine{5, e.Addenda99Dishonored.LineNumber})
	}
	if e.Addenda99Contested != nil {
		sl = append(sl, slotLine{6, e.Addenda99Contested.LineNumber})
	}
	return fmt.Sprint(e.LineNumber) + showSlots(sl)
}

func showIATEntry(e *ach.IATEntryDetail) string {
	var sl []slotLine
	add := func(rank int, present bool, ln int) {
		if present {
			sl = append(sl, slotLine{rank, ln})
		}
	}
	if e.Addenda10 != nil {
		add(0, true, e.Addenda10.LineNumber)
	}
	if e.Addenda11 != nil {
		add(1, true, e.Addenda11.LineNumber)
	}
	if e.Addenda12 != nil {
		add(2, true, e.Addenda12.LineNumber)
	}
	if e.Addenda13 != nil {
		add(3, true, e.Addenda13.LineNumber)
	}
	if e.Addenda14 != nil {
		add(4, true, e.Addenda14.LineNumber)
	}
	if e.Addenda15 != nil {
		add(5, true, e.Addenda15.LineNumber)
	}
	if e.Addenda16 != nil {
		add(6, true, e.Addenda16.LineNumber)
	}
	for _, a := range e.Addenda17 {
		add(7, true, a.LineNumber)
	}
	for _, a := range e.Addenda18 {
		add(8, true, a.LineNumber)
	}
	if e.Addenda98 != nil {
		add(9, true, e.Addenda98.LineNumber)
	}
	if e.Addenda99 != nil {
		add(10, true, e.Addenda99.LineNumber)
	}
	return fmt.Sprint(e.LineNumber) + showSlots(sl)
}

func showReadFile(f *ach.File) string {
	var bs, ibs []string
	for _, b := range f.Batches {
		h := b.GetHeader()
		var es []string
		if h.StandardEntryClassCode == ach.ADV {
			for _, e := range b.GetADVEntries() {
				var sl []slotLine
				if e.Addenda99 != nil {
					sl = append(sl, slotLine{0, e.Addenda99.LineNumber})
				}
				es = append(es, fmt.Sprint(e.LineNumber)+showSlots(sl))
			}
			bs = append(bs, fmt.Sprintf("adv:%d:%s:%s", h.LineNumber, strings.Join(es, "|"), lineNo(b.GetADVControl().LineNumber)))
		} else {
			for _, e := range b.GetEntries() {
				es = append(es, showStdEntry(e))
			}
			bs = append(bs, fmt.Sprintf("std:%d:%s:%s", h.LineNumber, strings.Join(es, "|"), lineNo(b.GetControl().LineNumber)))
		}
	}
	for i := range f.IATBatches {
		b := &f.IATBatches[i]
		var es []string
		for _, e := range b.GetEntries() {
			es = append(es, showIATEntry(e))
		}
		ibs = append(ibs, fmt.Sprintf("iat:%d:%s:%s", b.GetHeader().LineNumber, strings.Join(es, "|"), lineNo(b.GetControl().LineNumber)))
	}
	return fmt.Sprintf("H%s C%s A%s B[%s] I[%s]", lineNo(f.Header.LineNumber), lineNo(f.Control.LineNumber), lineNo(f.ADVControl.LineNumber),
		strings.Join(bs, ";"), strings.Join(ibs, ";"))
}

func readerErrClass(err error) string {
	var pe *base.ParseError
	if errors.As(err, &pe) && pe.Record == "Batches" {
		return "batchInvalid"
	}
	var unk ach.ErrUnknownRecordType
	var sec ach.ErrFileUnknownSEC
	switch {
	case errors.Is(err, ach.ErrFileHeader):
		return "ErrFileHeader"
	case errors.Is(err, ach.ErrFileControl):
		return "ErrFileControl"
	case errors.Is(err, ach.ErrFileConsecutiveBatchHeaders):
		return "consecutiveBH"
	case errors.Is(err, ach.ErrFileEntryOutsideBatch):
		return "entryOutside"
	case errors.Is(err, ach.ErrFileAddendaOutsideEntry):
		return "addendaOutsideEntry"
	case errors.Is(err, ach.ErrFileAddendaOutsideBatch):
		return "addendaOutsideBatch"
	case errors.Is(err, ach.ErrFileBatchControlOutsideBatch):
		return "bcOutside"
	case errors.As(err, &unk):
		return "unknownType"
	case errors.As(err, &sec):
		return "unknownSEC"
	case errors.Is(err, ach.ErrBatchAddendaIndicator), errors.Is(err, ach.ErrIATBatchAddendaIndicator):
		return "indicator"
	}
	if pe != nil {
		// a field-level or record-level validation error wrapped by parseError
		if strings.Contains(err.Error(), ach.ErrBatchAddendaIndicator.Error()) || strings.Contains(err.Error(), ach.ErrIATBatchAddendaIndicator.Error()) {
			return "indicator"
		}
		return "invalid"
	}
	return "other:" + strings.ReplaceAll(err.Error(), " ", "_")
}

type readerPool struct {
	byKind map[byte][]string
	files  [][]string
}

func buildReaderPool(r *gen.Rand) *readerPool {
	p := &readerPool{byKind: map[byte][]string{}}
	cats := []string{"Forward", "Return", "NOC", "RefusedNOC", "DishonoredReturn", "DishonoredReturnContested"}
	for i := 0; len(p.files) < 60 && i < 400; i++ {
		fr := r.Fork(uint64(1000 + i))
		o := gen.Opts{IATCorrections: true, MaxBatches: 1 + i%3, MaxEntries: 1 + i%4, Categories: cats}
		switch i % 6 {
		case 0:
			o.SECs = []string{"ADV"}
		case 1:
			o.SECs = []string{"IAT"}
		case 2:
			o.SECs = []string{"IAT", "PPD", "CTX"}
		}
		f, err := gen.File(fr, o)
		if err != nil {
			continue
		}
		text, err := gen.Write(f, false)
		if err != nil {
			continue
		}
		var lines []string
		ascii := true
		for _, l := range strings.Split(string(text), "\n") {
			if l == "" {
				continue
			}
			if len(l) != 94 {
				ascii = false
				break
			}
			lines = append(lines, l)
		}
		if !ascii || len(lines) > 60 {
			continue
		}
		p.files = append(p.files, lines)
		for _, l := range lines {
			p.byKind[l[0]] = append(p.byKind[l[0]], l)
		}
	}
	return p
}

func setCol(l string, col int, s string) string { return l[:col] + s + l[col+len(s):] }

func mutateLine(r *gen.Rand, l string) string {
	switch r.Intn(8) {
	case 0: // addenda record indicator
		return setCol(l, 78, gen.Pick(r, []string{"0", "1", " ", "2"}))
	case 1: // addenda type code
		return setCol(l, 1, gen.Pick(r, []string{"02", "05", "98", "99", "10", "11", "12", "13", "14", "15", "16", "17", "18", "00", "08", "  "}))
	case 2: // change / return code
		return setCol(l, 3, gen.Pick(r, []string{"C01", "C61", "c65", "C69", "R01", "R61", "R62", "R68", "R71", "R76", "R99", "   "}))
	case 3: // record type
		return setCol(l, 0, gen.Pick(r, []string{"1", "5", "6", "7", "8", "9", "0", "2", " ", "A"}))
	case 4: // SEC code
		return setCol(l, 50, gen.Pick(r, []string{"IAT", "ADV", "PPD", "CCD", "XYZ", "COR", "   "}))
	case 5: // second column (99 = filler for a 9 record)
		return setCol(l, 1, gen.Pick(r, []string{"9", "0", " "}))
	case 6: // IATCOR company name
		return setCol(l, 4, "IATCOR          ")
	default: // garbage somewhere
		col := r.Intn(94)
		return setCol(l, col, gen.Pick(r, []string{"?", "A", "0", "9", " ", "~"}))
	}
}

func init() {
	register(&Stream{Name: "reader", Run: func(r *gen.Rand, n int, emit func(op, impl, class string)) {
		pool := buildReaderPool(r.Fork(7))
		if len(pool.files) == 0 {
			return
		}
		kinds := []byte{'1', '5', '6', '7', '8', '9'}
		for i := 0; i < n; i++ {
			cr := r.Fork(uint64(i))
			var lines []string
			class := ""
			orig := append([]string(nil), gen.Pick(cr, pool.files)...)
			switch m := i % 10; {
			case m < 2:
				class = "valid-file"
				lines = orig
			case m < 5:
				class = "mutated-file"
				lines = orig
				for k := 1 + cr.Intn(3); k > 0 && len(lines) > 0; k-- {
					j := cr.Intn(len(lines))
					switch cr.Intn(6) {
					case 0: // delete
						lines = append(append([]string(nil), lines[:j]...), lines[j+1:]...)
					case 1: // duplicate
						lines = append(append(append([]string(nil), lines[:j+1]...), lines[j]), lines[j+1:]...)
					case 2: // swap
						k2 := cr.Intn(len(lines))
						lines = append([]string(nil), lines...)
						lines[j], lines[k2] = lines[k2], lines[j]
					case 3: // insert a pool record
						kd := gen.Pick(cr, kinds)
						if len(pool.byKind[kd]) > 0 {
							ins := gen.Pick(cr, pool.byKind[kd])
							lines = append(append(append([]string(nil), lines[:j]...), ins), lines[j:]...)
						}
					default: // mutate a record in place
						lines = append([]string(nil), lines...)
						lines[j] = mutateLine(cr, lines[j])
					}
				}
			case m < 6:
				class = "truncated-file"
				lines = orig[:cr.Intn(len(orig)+1)]
			case m < 7:
				class = "two-files"
				lines = append(orig, gen.Pick(cr, pool.files)...)
				if len(lines) > 70 {
					lines = lines[:70]
				}
			default:
				class = "random-sequence"
				for k := 3 + cr.Intn(20); k > 0; k-- {
					kd := gen.Pick(cr, kinds)
					if cr.Chance(1, 3) {
						kd = gen.Pick(cr, []byte{'6', '7'})
					}
					if len(pool.byKind[kd]) == 0 {
						continue
					}
					l := gen.Pick(cr, pool.byKind[kd])
					if cr.Chance(1, 6) {
						l = mutateLine(cr, l)
					}
					lines = append(lines, l)
				}
			}
			if len(lines) == 0 {
				continue
			}
			text := strings.Join(lines, "\n") + "\n"
			var f ach.File
			var err error
			// every tenth case is read with SkipAll: no record or batch is validated (all flags 1), NewBatch still runs
			skipAll := i%10 == 9
			res := Safe(func() string {
				rd := ach.NewReader(strings.NewReader(text))
				if skipAll {
					rd.SetValidation(&ach.ValidateOpts{SkipAll: true})
					class += "+skipAll"
				}
				f, err = rd.Read()
				return ""
			})
			if res != "" {
				emit("reader panic", res, class+"/panic")
				continue
			}
			batchBad := map[int]bool{}
			var classes []string
			if err != nil {
				var el base.ErrorList
				if errors.As(err, &el) {
					for _, e := range el {
						var pe *base.ParseError
						if errors.As(e, &pe) && pe.Record == "Batches" {
							batchBad[pe.Line] = true
						}
						classes = append(classes, readerErrClass(e))
					}
				} else {
					classes = append(classes, "other:"+strings.ReplaceAll(err.Error(), " ", "_"))
				}
			}
			var sb strings.Builder
			sb.WriteString("reader")
			for j, l := range lines {
				sb.WriteByte(' ')
				sb.WriteString(Hex(l))
				sb.WriteByte(':')
				bits := readerBits(l, !batchBad[j+1])
				if skipAll {
					if l[0] == '5' {
						bits = "1" + bits[1:2] + "11" // NewBatch still decides
					} else {
						bits = "1111"
					}
				}
				sb.WriteString(bits)
			}
			outcome := "accepted"
			if err != nil {
				outcome = "rejected"
			}
			emit(sb.String(), showReadFile(&f)+" E["+strings.Join(classes, ",")+"]", class+"/"+outcome)
		}
	}})
}
