package corr

// merge stream: ach.MergeFilesWith (merge.go: outFile.add, pickOutFile, findOutBatch, convertToFiles) against the
// Lean model Ach.Merge (addFiles, convert), driven by lean/Ach/Model/MergeDriver.lean.
//
// Line protocol (also in the header of MergeDriver.lean):
//
//	op   : merge <MaxLines> <MaxDollarAmount> <file>*
//	       <file>  = <origin>-<destination>{/<batch>}      <batch> = <headerKey>:<entry>,<entry>,...  (may be empty)
//	       <entry> = <trace>.<lines>.<amount>.<payload>
//	impl : <origin>-<destination>{/<headerKey>:<payload>,<payload>,...} per output file, blank-separated, in order;
//	       "-" for no output file; "err" when MergeFilesWith returns an error; "panic:..." when it panics.
//
// Abstraction of the real input (this mapping is part of the trusted base):
//
//   - MaxLines, MaxDollarAmount: the raw Conditions fields.  The model's Cond wants maxDollars "already forced into
//     (0, NachaFileDebitCreditLimit]" and maxLines a Nat; that reading (first lines of convertToFiles, and the "> 0"
//     guards) is done by MergeDriver.condOf on the Lean side, not here.
//   - origin / destination: FileHeader.ImmediateOrigin / ImmediateDestination, the raw Go strings, interned in one
//     table per case in order of first appearance (equal numbers <=> equal strings; pickOutFile compares with ==).
//   - headerKey: the equivalence class of the batch header under the real (*BatchHeader).Equal, numbered in order of
//     first appearance: a header is compared with Equal against one representative (a copy) per class seen so far.
//     Equal compares ServiceClassCode, CompanyName (EqualFold), CompanyIdentification, StandardEntryClassCode,
//     CompanyEntryDescription, EffectiveEntryDate, ODFIIdentification and NOT BatchNumber, so the renumbered headers
//     of the output batches fall into the classes of the inputs.  If a header is Equal to two representatives, or
//     Equal is not symmetric on a pair, the case is emitted with impl "abstraction-failure" (never seen).
//   - only File.Batches are abstracted: IAT batches live in File.IATBatches, which MergeFilesWith never reads, so
//     they do not appear in the op line at all; an ADV batch is in File.Batches but its GetEntries() is empty (its
//     records are ADVEntries), so it appears as a batch with no entries (which the model's placeAll ignores too).
//   - trace: the rank of EntryDetail.TraceNumber (the Go string, which is the treemap key) among the distinct trace
//     strings of the case in Go string order; ranks preserve < and == on the strings.
//   - lines: 1 + the number of non-nil addenda pointers (Addenda02, each non-nil Addenda05[i], Addenda98,
//     Addenda98Refused, Addenda99, Addenda99Dishonored, Addenda99Contested).  This is a line-by-line copy of the
//     unexported (*EntryDetail).addendaCount (entryDetail.go:690); /repo/verif_hooks.go has no hook for it.  (It is
//     not corr/write.go's count, which counts addenda whose String() is non-empty.)
//   - amount: EntryDetail.Amount.
//   - payload: the index of the *EntryDetail pointer in order of first appearance in the input.  MergeFilesWith puts
//     the very same pointers into the output batches (outFile.add stores entries[m], convertToFiles calls
//     batch.AddEntry(nextEntry)); an output entry whose pointer is not an input pointer prints "?" and so disagrees.
//     A file that occurs twice in the input contributes the same payload numbers twice.
//
// The op line is computed before the call (Batch.Create inside convertToFiles may renumber addenda and traces of the
// shared entries); the inputs (routes, headers, traces, addenda counts, amounts) are compared with a snapshot taken
// before the call and a difference is flagged in the class as "/mutated".
//
// Input distribution: 1..5 files (rarely 0) from gen.File with a common Opts per case: route pools of 1..3 pairs or
// fresh routes, header pools (equal headers inside a file and across files; with library-assigned traces these
// collide, with PresetTraces they interleave), mostly PPD/CCD/CTX/WEB (addenda), sometimes all SEC codes, IAT, ADV,
// all categories.  Then: headers changed in fields Equal ignores (CompanyName case, CompanyDiscretionaryData) or in
// one it compares (EffectiveEntryDate); a file's origin replaced by another file's origin; files repeated (same
// pointers) or cloned (fresh EntryDetail pointers, same traces); the file order shuffled.  Conditions: MaxLines from
// {0, 1..40, 10000, -1}, MaxDollarAmount from {0, values derived from the amounts of the case so that they bind,
// NachaFileDebitCreditLimit-1, above the limit, -1}.  About 1 case in 30 is big (100+ entries whose amounts are
// raised to NachaEntryAmountLimit) so that the forced dollar limit binds (never with MaxDollarAmount -1, see
// mergeCase), 1 in 150 has more than 10000 lines so that NACHAFileLineLimit binds.
//
// Not reachable, so not generated: the "Set overwrites an equal key" branch of the model's insertSorted.  Both
// findOutBatch and the model's place hand Set only a batch that does not contain the trace (or a new, empty one), and
// Contains and Set use the same key (EntryDetail.TraceNumber), so Set always inserts.  (A nil *EntryDetail in
// GetEntries() would pass findOutBatch's "entry != nil" guard and then panic on entries[m].TraceNumber; AddEntry drops
// nil entries, so valid files do not have one.)
//
// Class label: <nosplit | split:lines | split:dollars | split:either | split:nacha>/<coll|nocoll>/<r1|r2+>[/advOrIat]
// [/mutated], or "empty" (no output file), "go-error", "go-panic".  split = more output files than routes that hold
// entries, attributed to the limits of the case that are small (lines, dollars, either) or, when none is, to the
// limits that are always on (nacha: 10000 lines or NachaFileDebitCreditLimit); coll = some (route, header key, trace)
// occurs twice in the input; r2+ = more than one distinct route; advOrIat = some input file has ADV or IAT batches.

import (
	"fmt"
	"sort"
	"strings"

	"github.com/moov-io/ach"

	"verif/harness/gen"
)

// mergeAddendaCount mirrors (*EntryDetail).addendaCount.
func mergeAddendaCount(ed *ach.EntryDetail) (n int) {
	if ed.Addenda02 != nil {
		n++
	}
	for i := range ed.Addenda05 {
		if ed.Addenda05[i] != nil {
			n++
		}
	}
	if ed.Addenda98 != nil {
		n++
	}
	if ed.Addenda98Refused != nil {
		n++
	}
	if ed.Addenda99 != nil {
		n++
	}
	if ed.Addenda99Dishonored != nil {
		n++
	}
	if ed.Addenda99Contested != nil {
		n++
	}
	return n
}

// mergeAbs holds the per-case interning tables.
type mergeAbs struct {
	strs    map[string]int
	reps    []*ach.BatchHeader
	traces  []string
	payload map[*ach.EntryDetail]int
	broken  bool // Equal did not behave like an equivalence on what we saw
}

func (a *mergeAbs) str(s string) int {
	if k, ok := a.strs[s]; ok {
		return k
	}
	k := len(a.strs)
	a.strs[s] = k
	return k
}

// key interns a header; with add=false an unknown header yields -1.
func (a *mergeAbs) key(h *ach.BatchHeader, add bool) int {
	found := -1
	for i, rep := range a.reps {
		eq := rep.Equal(h)
		if eq != h.Equal(rep) {
			a.broken = true
		}
		if eq {
			if found >= 0 {
				a.broken = true
			} else {
				found = i
			}
		}
	}
	if found < 0 && add {
		c := *h
		a.reps = append(a.reps, &c)
		found = len(a.reps) - 1
	}
	return found
}

func (a *mergeAbs) opLine(files []*ach.File, cond ach.Conditions) string {
	var sb strings.Builder
	fmt.Fprintf(&sb, "merge %d %d", cond.MaxLines, cond.MaxDollarAmount)
	for _, f := range files {
		fmt.Fprintf(&sb, " %d-%d", a.str(f.Header.ImmediateOrigin), a.str(f.Header.ImmediateDestination))
		for _, b := range f.Batches {
			fmt.Fprintf(&sb, "/%d:", a.key(b.GetHeader(), true))
			for i, e := range b.GetEntries() {
				if i > 0 {
					sb.WriteByte(',')
				}
				p, ok := a.payload[e]
				if !ok {
					p = len(a.payload)
					a.payload[e] = p
				}
				fmt.Fprintf(&sb, "%d.%d.%d.%d", sort.SearchStrings(a.traces, e.TraceNumber), 1+mergeAddendaCount(e), e.Amount, p)
			}
		}
	}
	return sb.String()
}

func (a *mergeAbs) implLine(out []*ach.File) string {
	if len(out) == 0 {
		return "-"
	}
	var sb strings.Builder
	for i, f := range out {
		if i > 0 {
			sb.WriteByte(' ')
		}
		o, ok1 := a.strs[f.Header.ImmediateOrigin]
		d, ok2 := a.strs[f.Header.ImmediateDestination]
		if !ok1 || !ok2 {
			sb.WriteString("?-?")
		} else {
			fmt.Fprintf(&sb, "%d-%d", o, d)
		}
		if len(f.IATBatches) > 0 {
			sb.WriteString("/iat?")
		}
		for _, b := range f.Batches {
			k := a.key(b.GetHeader(), false)
			if k < 0 {
				sb.WriteString("/?:")
			} else {
				fmt.Fprintf(&sb, "/%d:", k)
			}
			for j, e := range b.GetEntries() {
				if j > 0 {
					sb.WriteByte(',')
				}
				if p, ok := a.payload[e]; ok {
					fmt.Fprint(&sb, p)
				} else {
					sb.WriteByte('?')
				}
			}
			if len(b.GetADVEntries()) > 0 {
				sb.WriteString("adv?")
			}
		}
	}
	return sb.String()
}

// mergeClone copies a file with fresh EntryDetail pointers (same contents, so same traces) in fresh batches.
func mergeClone(f *ach.File) *ach.File {
	c := *f
	c.Batches = nil
	for _, b := range f.Batches {
		if len(b.GetEntries()) == 0 {
			c.Batches = append(c.Batches, b)
			continue
		}
		h := *b.GetHeader()
		nb, err := ach.NewBatch(&h)
		if err != nil {
			c.Batches = append(c.Batches, b)
			continue
		}
		for _, e := range b.GetEntries() {
			ec := *e
			nb.AddEntry(&ec)
		}
		c.Batches = append(c.Batches, nb)
	}
	return &c
}

// mergeSnapshot renders what the op line depends on, entry by entry, with the real trace strings.
func mergeSnapshot(files []*ach.File) string {
	var sb strings.Builder
	for _, f := range files {
		sb.WriteString(f.Header.ImmediateOrigin + ">" + f.Header.ImmediateDestination + ";")
		for _, b := range f.Batches {
			sb.WriteString(b.GetHeader().String() + ";")
			for _, e := range b.GetEntries() {
				fmt.Fprintf(&sb, "%s.%d.%d,", e.TraceNumber, mergeAddendaCount(e), e.Amount)
			}
		}
	}
	return sb.String()
}

var mergeSECSets = [][]string{
	{"PPD"}, {"PPD", "CCD"}, {"CTX", "PPD", "WEB"}, {"CTX"}, {"CTX", "CCD", "PPD", "WEB", "TEL"},
	{"CTX", "PPD", "WEB"}, {"PPD", "CCD"},
	nil,                          // every SEC code, IAT and ADV included
	{"IAT", "PPD", "CTX"},        // IAT batches next to standard ones
	{"ADV", "PPD", "CTX"},        // some files are ADV files
	{"ADV", "IAT", "PPD", "COR"}, // NOC batches
	{"COR"}, {"COR", "CTX"},      // notifications of change and refused ones (Addenda98 / Addenda98Refused)
}

func isASCII(s string) bool {
	for i := 0; i < len(s); i++ {
		if s[i] >= 0x80 {
			return false
		}
	}
	return true
}

func mergeCase(fr *gen.Rand) (files []*ach.File, cond ach.Conditions, lClass, dClass string) {
	nf := fr.Range(1, 5)
	if fr.Chance(1, 60) {
		nf = 0
	}
	ngen := nf
	if nf > 1 && fr.Bool() {
		ngen = fr.Range(1, nf)
	}
	o := gen.Opts{MaxBatches: fr.Range(1, 4), MaxEntries: fr.Range(1, 6)}
	o.Routes = []int{0, 1, 1, 2, 2, 3}[fr.Intn(6)]
	o.HeaderPool = []int{0, 1, 2, 2, 3, 5}[fr.Intn(6)]
	o.SECs = mergeSECSets[fr.Intn(len(mergeSECSets))]
	if fr.Chance(1, 4) || (len(o.SECs) > 0 && o.SECs[0] == "COR") {
		o.Categories = gen.AllCategories()
	}
	o.PresetTraces = fr.Bool()
	o.CollidingTraces = fr.Bool()
	o.FullWidth = fr.Chance(1, 3)
	// big cases, so that the limits that are always on can bind: NachaFileDebitCreditLimit needs more than 100
	// entries of the largest amount in one output file, NACHAFileLineLimit more than 10000 lines.
	big := ""
	switch k := fr.Intn(150); {
	case k < 5:
		big = "dollars"
		nf = fr.Range(3, 5)
		o = gen.Opts{MinBatches: 2, MaxBatches: 3, MaxEntries: 60, SECs: []string{"CCD", "CTX"}, Routes: fr.Range(1, 2),
			HeaderPool: fr.Range(1, 2), PresetTraces: fr.Bool()}
	case k == 5:
		big = "lines"
		nf = 5
		o = gen.Opts{MinBatches: 3, MaxBatches: 4, MaxEntries: 400, MaxAddenda: 6, SECs: []string{"CTX"}, Routes: 1,
			HeaderPool: fr.Range(1, 2), PresetTraces: fr.Bool()}
	}
	if big != "" {
		ngen = nf
	}
	for i := 0; i < ngen; i++ {
		f, err := gen.File(fr.Fork(uint64(i)), o)
		if err != nil {
			continue
		}
		files = append(files, f)
	}
	// header variations: fields Equal ignores, and one it compares
	for _, f := range files {
		for _, b := range f.Batches {
			h := b.GetHeader()
			if h == nil || h.StandardEntryClassCode == ach.ADV {
				continue
			}
			switch fr.Intn(12) {
			case 0:
				if isASCII(h.CompanyName) {
					h.CompanyName = strings.ToUpper(h.CompanyName)
				}
			case 1:
				if isASCII(h.CompanyName) {
					h.CompanyName = strings.ToLower(h.CompanyName)
				}
			case 2:
				h.CompanyDiscretionaryData = "MERGED"
			case 3:
				h.EffectiveEntryDate = "991231"
			}
		}
	}
	if big == "dollars" {
		// stale control totals do not matter: MergeFilesWith reads headers and entries only
		for _, f := range files {
			for _, b := range f.Batches {
				for _, e := range b.GetEntries() {
					if e.Amount > 0 && fr.Chance(3, 4) {
						e.Amount = ach.NachaEntryAmountLimit
					}
				}
			}
		}
	}
	// same origin, different destination
	if len(files) > 1 && fr.Chance(1, 5) {
		i, j := fr.Intn(len(files)), fr.Intn(len(files))
		files[i].Header.ImmediateOrigin = files[j].Header.ImmediateOrigin
	}
	// repeated and cloned files
	for len(files) > 0 && len(files) < nf {
		src := files[fr.Intn(len(files))]
		if fr.Bool() {
			files = append(files, src)
		} else {
			files = append(files, mergeClone(src))
		}
	}
	for i := len(files) - 1; i > 0; i-- {
		j := fr.Intn(i + 1)
		files[i], files[j] = files[j], files[i]
	}

	var amounts []int
	total := 0
	for _, f := range files {
		for _, b := range f.Batches {
			for _, e := range b.GetEntries() {
				amounts = append(amounts, e.Amount)
				total += e.Amount
			}
		}
	}
	switch k := fr.Intn(20); {
	case big == "lines" && k < 18:
		cond.MaxLines, lClass = ach.NACHAFileLineLimit, "L10000"
	case k < 5 || (big != "" && k < 10):
		cond.MaxLines, lClass = 0, "L0"
	case k < 15 && big == "":
		cond.MaxLines, lClass = fr.Range(1, 40), "Lsmall"
	case k < 19:
		cond.MaxLines, lClass = ach.NACHAFileLineLimit, "L10000"
	default:
		cond.MaxLines, lClass = -1, "Lneg"
	}
	switch k := fr.Intn(20); {
	case k < 5:
		cond.MaxDollarAmount, dClass = 0, "D0"
	case k < 13 && len(amounts) > 0 && big == "":
		dClass = "Dsmall"
		a := amounts[fr.Intn(len(amounts))]
		switch fr.Intn(7) {
		case 0:
			cond.MaxDollarAmount = int64(a)
		case 1:
			cond.MaxDollarAmount = int64(a) - 1
		case 2:
			cond.MaxDollarAmount = int64(a) * int64(fr.Range(2, 4))
		case 3:
			cond.MaxDollarAmount = int64(total / 2)
		case 4:
			cond.MaxDollarAmount = int64(total / 3)
		case 5:
			cond.MaxDollarAmount = int64(total)
		default:
			cond.MaxDollarAmount = int64(total) - 1
		}
		if cond.MaxDollarAmount <= 0 {
			cond.MaxDollarAmount = 1
		}
	case k < 16:
		cond.MaxDollarAmount, dClass = ach.NachaFileDebitCreditLimit-1, "Dhuge"
	case k < 19:
		dClass = "Dover"
		if fr.Bool() {
			cond.MaxDollarAmount = ach.NachaFileDebitCreditLimit + 1
		} else {
			cond.MaxDollarAmount = 1 << 62
		}
	case big == "dollars":
		// A negative MaxDollarAmount escapes the forcing to NachaFileDebitCreditLimit and switches the dollar check
		// off, so the big batches grow past the 12-digit batch control total and Batch.Create fails ("does not match
		// formatted value"): MergeFilesWith returns an error where the model (which has no Create) returns files.
		// Seen 6 times in 60000 cases before this line was added; kept out so that "err" stays a signal.
		cond.MaxDollarAmount, dClass = 0, "D0"
	default:
		cond.MaxDollarAmount, dClass = -1, "Dneg"
	}
	if dClass == "" {
		cond.MaxDollarAmount, dClass = 0, "D0"
	}
	return files, cond, lClass, dClass
}

func init() {
	register(&Stream{Name: "merge", Run: func(r *gen.Rand, n int, emit func(op, impl, class string)) {
		for i := 0; i < n; i++ {
			files, cond, lClass, dClass := mergeCase(r.Fork(uint64(i)))

			a := &mergeAbs{strs: map[string]int{}, payload: map[*ach.EntryDetail]int{}}
			seenTrace := map[string]bool{}
			hasADV, hasIAT := false, false
			for _, f := range files {
				if len(f.IATBatches) > 0 {
					hasIAT = true
				}
				for _, b := range f.Batches {
					if len(b.GetADVEntries()) > 0 {
						hasADV = true
					}
					for _, e := range b.GetEntries() {
						if !seenTrace[e.TraceNumber] {
							seenTrace[e.TraceNumber] = true
							a.traces = append(a.traces, e.TraceNumber)
						}
					}
				}
			}
			sort.Strings(a.traces)
			op := a.opLine(files, cond)
			snap := mergeSnapshot(files)

			// features of the input for the class label
			type rk struct{ o, d, k int }
			type rkt struct {
				rk
				t string
			}
			routes := map[[2]int]bool{}
			routesWithEntries := map[[2]int]bool{}
			seen := map[rkt]bool{}
			coll := false
			for _, f := range files {
				rt := [2]int{a.str(f.Header.ImmediateOrigin), a.str(f.Header.ImmediateDestination)}
				routes[rt] = true
				for _, b := range f.Batches {
					k := a.key(b.GetHeader(), false)
					for _, e := range b.GetEntries() {
						routesWithEntries[rt] = true
						x := rkt{rk{rt[0], rt[1], k}, e.TraceNumber}
						if seen[x] {
							coll = true
						}
						seen[x] = true
					}
				}
			}

			var out []*ach.File
			var err error
			impl := Safe(func() string {
				out, err = ach.MergeFilesWith(files, cond)
				if err != nil {
					return "err"
				}
				return a.implLine(out)
			})
			if a.broken {
				impl = "abstraction-failure"
			}

			var class string
			switch {
			case strings.HasPrefix(impl, "panic:"):
				class = "go-panic"
			case err != nil:
				class = "go-error"
			case len(out) == 0:
				class = "empty"
			default:
				cause := "nosplit"
				if len(out) > len(routesWithEntries) {
					ls, ds := lClass == "Lsmall", dClass == "Dsmall"
					switch {
					case ls && ds:
						cause = "split:either"
					case ls:
						cause = "split:lines"
					case ds:
						cause = "split:dollars"
					default:
						cause = "split:nacha"
					}
				}
				class = cause
				if coll {
					class += "/coll"
				} else {
					class += "/nocoll"
				}
				if len(routes) > 1 {
					class += "/r2+"
				} else {
					class += "/r1"
				}
			}
			if hasADV || hasIAT {
				class += "/advOrIat"
			}
			if mergeSnapshot(files) != snap {
				class += "/mutated"
			}
			emit(op, impl, class)
		}
	}})
}
