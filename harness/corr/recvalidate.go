package corr

import (
	"errors"
	"fmt"
	"reflect"
	"sort"
	"strings"
	"unsafe"

	"github.com/moov-io/ach"
	"github.com/moov-io/iso3166"
	"github.com/moov-io/iso4217"
	"verif/harness/gen"
)

// recvalidate stream: the real record-level validators (`Validate()` of the 25 record types that have one,
// `FileHeader.ValidateWith(opts)`) vs the GoLite model, i.e. the Lean interpretation of the programs that gofacts
// translates from those very functions on every run (Ach/Generated/Validators.lean, Ach/Model/GoLite.lean).
//
//	recvalidate <Type.Method> <recv flags|-> <param flags|-> <Field>=s:<hex>|i:<int>|b:<0|1> … @<hex "fn:arg">=<0|1> …
//
// Records are harvested from generator-built files of every SEC code / category (so they are mostly valid), then
// 0–3 of their fields are replaced by values from pools chosen to hit the validators' branches (empty, non-ASCII,
// control characters, lower case, wrong codes, zero / negative / overflowing numbers, bad check digits, odd lengths);
// every string / int / bool field of the struct, exported or not, is sent.  Option flags: a random subset of the
// ValidateOpts booleans on the receiver (and, for ValidateWith, an independent subset as the parameter);
// "CheckTransactionCode" installs a predicate that accepts even codes only (the model's built-in does the same).
// `@` entries carry the answers of the third-party predicates (iso3166.Valid, iso4217.Lookup) for the values used.
//
// Answer: `accept`, or `reject:<FieldName>` (FieldName of the *FieldError, empty for a plain error).
// Abstraction (trusted): field values by reflection; the error is mapped to its FieldName only.

var recvalTypes = []string{
	"ADVBatchControl", "ADVEntryDetail", "ADVFileControl", "Addenda02", "Addenda05", "Addenda10", "Addenda11", "Addenda12",
	"Addenda13", "Addenda14", "Addenda15", "Addenda16", "Addenda17", "Addenda18", "Addenda98", "Addenda98Refused", "Addenda99",
	"Addenda99Contested", "Addenda99Dishonored", "BatchControl", "BatchHeader", "EntryDetail", "FileControl", "FileHeader",
	"IATBatchHeader", "IATEntryDetail",
}

var optBoolNames = []string{"SkipAll", "RequireABAOrigin", "BypassOriginValidation", "BypassDestinationValidation", "CustomTraceNumbers",
	"AllowZeroBatches", "AllowMissingFileHeader", "AllowMissingFileControl", "BypassCompanyIdentificationMatch", "CustomReturnCodes",
	"UnequalServiceClassCode", "AllowUnorderedBatchNumbers", "AllowInvalidCheckDigit", "UnequalAddendaCounts", "PreserveSpaces",
	"AllowInvalidAmounts", "AllowZeroEntryAmount", "AllowSpecialCharacters"}

// harvest collects pointers to every record struct reachable from v
func harvest(v reflect.Value, out map[string][]reflect.Value, seen map[string]bool, depth int) {
	if depth > 20 || !v.IsValid() {
		return
	}
	switch v.Kind() {
	case reflect.Interface:
		if !v.IsNil() {
			harvest(v.Elem(), out, seen, depth+1)
		}
	case reflect.Ptr:
		if v.IsNil() {
			return
		}
		key := fmt.Sprintf("%x/%s", v.Pointer(), v.Type().String())
		if seen[key] {
			return
		}
		seen[key] = true
		if v.Elem().Kind() == reflect.Struct {
			name := v.Elem().Type().Name()
			if v.Elem().Type().PkgPath() == "github.com/moov-io/ach" {
				for _, t := range recvalTypes {
					if t == name {
						out[name] = append(out[name], v)
					}
				}
			}
		}
		harvest(v.Elem(), out, seen, depth+1)
	case reflect.Struct:
		if v.Type().PkgPath() != "github.com/moov-io/ach" {
			return
		}
		for i := 0; i < v.NumField(); i++ {
			f := v.Field(i)
			if !v.Type().Field(i).IsExported() {
				if !f.CanAddr() {
					continue
				}
				f = reflect.NewAt(f.Type(), unsafe.Pointer(f.UnsafeAddr())).Elem()
			}
			if f.Kind() == reflect.Struct && f.CanAddr() {
				harvest(f.Addr(), out, seen, depth+1)
			} else {
				harvest(f, out, seen, depth+1)
			}
		}
	case reflect.Slice:
		for i := 0; i < v.Len(); i++ {
			e := v.Index(i)
			if e.Kind() == reflect.Struct && e.CanAddr() {
				harvest(e.Addr(), out, seen, depth+1)
			} else {
				harvest(e, out, seen, depth+1)
			}
		}
	}
}

func settable(f reflect.Value) reflect.Value {
	if f.CanSet() {
		return f
	}
	return reflect.NewAt(f.Type(), unsafe.Pointer(f.UnsafeAddr())).Elem()
}

var strPool = []string{"", " ", "0", "1", "A", "a", "094", "10", "05", "98", "99", "02", "R01", "R61", "R71", "C01", "C61", "c01", "r01", "X99",
	"PPD", "IAT", "COR", "ppd", "ZZZ", "000000000", "0000000000", "121042882", "12104288", "231380104", "091000019", "99999999", "1234567",
	"ABC 123", "abc", "é", "Ø", "¢", " x", "§", "x\ty", "x\ny", "日本", "~!@#", "{}|", "\x7f", "USD", "usd", "CAD", "XXX", "US", "CA", "ZZ",
	"FF", "FV", "VF", "1", "2", "3", "4", " 3", "01", "03", "04", "13", "00", "0101", "0230", "0431", "1231", "1301", "ANN", "ann", "WEB",
	"01 ", "  ", "123456789012345678901234567890123456789012345678901234567890123456789012345678901234567890123456", "S", "R", "D"}

var intPool = []int{0, 1, 2, 5, 7, 9, 10, 21, 22, 23, 26, 27, 28, 32, 37, 42, 47, 52, 55, 56, 81, 82, 88, 99, 100, 200, 220, 225, 280, 201,
	-1, -100, 9999999999, 10000000000, 99999999999, 999999999999, 1000000000000, 123456, 99999999, 100000000}

func recvalOne(cr *gen.Rand, name string, src reflect.Value, emit func(op, impl, class string)) {
	// private copy of the record
	cp := reflect.New(src.Elem().Type())
	cp.Elem().Set(src.Elem())
	rv := cp.Elem()
	var fields []int
	for i := 0; i < rv.NumField(); i++ {
		switch rv.Field(i).Kind() {
		case reflect.String, reflect.Int, reflect.Bool:
			fields = append(fields, i)
		}
	}
	nmut := gen.Pick(cr, []int{0, 0, 1, 1, 1, 2, 3})
	mutated := []string{}
	for m := 0; m < nmut && len(fields) > 0; m++ {
		i := fields[cr.Intn(len(fields))]
		f := settable(rv.Field(i))
		switch f.Kind() {
		case reflect.String:
			if cr.Chance(1, 5) && len(f.String()) > 0 {
				// perturb one character
				s := []rune(f.String())
				s[cr.Intn(len(s))] = gen.Pick(cr, []rune{' ', 'a', 'Z', '0', '9', 'é', ' ', '\t', '~', '§', 'Ø'})
				f.SetString(string(s))
			} else {
				f.SetString(gen.Pick(cr, strPool))
			}
		case reflect.Int:
			f.SetInt(int64(gen.Pick(cr, intPool)))
		case reflect.Bool:
			f.SetBool(cr.Bool())
		}
		mutated = append(mutated, rv.Type().Field(i).Name)
	}
	// options
	pickFlags := func() []string {
		var fl []string
		k := gen.Pick(cr, []int{0, 0, 0, 1, 1, 2, 4})
		for j := 0; j < k; j++ {
			fl = append(fl, gen.Pick(cr, append(optBoolNames, "CheckTransactionCode", "AllowSpecialCharacters", "AllowInvalidCheckDigit", "CustomReturnCodes")))
		}
		sort.Strings(fl)
		var out []string
		for j, x := range fl {
			if j == 0 || fl[j-1] != x {
				out = append(out, x)
			}
		}
		return out
	}
	mkOpts := func(fl []string) *ach.ValidateOpts {
		o := &ach.ValidateOpts{}
		ov := reflect.ValueOf(o).Elem()
		for _, f := range fl {
			if f == "CheckTransactionCode" {
				o.CheckTransactionCode = func(code int) error {
					if code%2 != 0 {
						return errors.New("odd transaction code")
					}
					return nil
				}
				continue
			}
			ov.FieldByName(f).SetBool(true)
		}
		return o
	}
	recvFlags := pickFlags()
	var recvOpts *ach.ValidateOpts
	if len(recvFlags) > 0 || cr.Chance(1, 4) {
		recvOpts = mkOpts(recvFlags)
	}
	if vo := rv.FieldByName("validateOpts"); vo.IsValid() {
		settable(vo).Set(reflect.ValueOf(recvOpts))
	} else {
		recvFlags = nil
	}
	method := "Validate"
	var paramFlags []string
	args := []reflect.Value{}
	if name == "FileHeader" {
		method = "ValidateWith"
		paramFlags = pickFlags()
		var po *ach.ValidateOpts
		if len(paramFlags) > 0 || cr.Chance(1, 2) {
			po = mkOpts(paramFlags)
		}
		args = append(args, reflect.ValueOf(po))
	}
	// op line
	var toks []string
	ext := map[string]bool{}
	for _, i := range fields {
		f := rv.Field(i)
		fn := rv.Type().Field(i).Name
		switch f.Kind() {
		case reflect.String:
			toks = append(toks, fn+"=s:"+Hex(f.String()))
			if name == "IATBatchHeader" {
				switch fn {
				case "ISODestinationCountryCode":
					ext["iso3166.Valid:"+f.String()] = iso3166.Valid(f.String())
				case "ISOOriginatingCurrencyCode", "ISODestinationCurrencyCode":
					_, ok := iso4217.Lookup(f.String())
					ext["iso4217.Lookup:"+f.String()] = ok
				}
			}
		case reflect.Int:
			toks = append(toks, fmt.Sprintf("%s=i:%d", fn, f.Int()))
		case reflect.Bool:
			b := 0
			if f.Bool() {
				b = 1
			}
			toks = append(toks, fmt.Sprintf("%s=b:%d", fn, b))
		}
	}
	var eks []string
	for k := range ext {
		eks = append(eks, k)
	}
	sort.Strings(eks)
	for _, k := range eks {
		b := 0
		if ext[k] {
			b = 1
		}
		toks = append(toks, fmt.Sprintf("@%s=%d", Hex(k), b))
	}
	fl := func(x []string) string {
		if len(x) == 0 {
			return "-"
		}
		return strings.Join(x, ",")
	}
	res := Safe(func() string {
		out := cp.MethodByName(method).Call(args)
		if out[0].IsNil() {
			return "accept"
		}
		err := out[0].Interface().(error)
		var fe *ach.FieldError
		if errors.As(err, &fe) {
			return "reject:" + fe.FieldName
		}
		return "reject:"
	})
	class := name + "/" + strings.SplitN(res, ":", 2)[0]
	if len(mutated) == 0 {
		class += "/unmutated"
	}
	emit("recvalidate "+name+"."+method+" "+fl(recvFlags)+" "+fl(paramFlags)+" "+strings.Join(toks, " "), res, class)
}

func init() {
	register(&Stream{Name: "recvalidate", Run: func(r *gen.Rand, n int, emit func(op, impl, class string)) {
		pool := map[string][]reflect.Value{}
		// harvest records from generated files until every type is represented (or the budget is spent)
		for i := 0; i < 400; i++ {
			gr := r.Fork(uint64(1000000 + i))
			o := gen.Opts{IATCorrections: true, Categories: gen.AllCategories(), MaxBatches: 3, MaxEntries: 3, NonASCII: i%3 == 0, FullWidth: i%4 == 0}
			switch i % 5 {
			case 0:
				o.SECs = []string{ach.ADV}
			case 1:
				o.SECs = []string{ach.IAT}
			case 2:
				o.SECs = []string{ach.COR, ach.POS, ach.MTE, ach.SHR}
			}
			f, err := gen.File(gr, o)
			if err != nil || f == nil {
				continue
			}
			harvest(reflect.ValueOf(f), pool, map[string]bool{}, 0)
			full := true
			for _, t := range recvalTypes {
				if len(pool[t]) < 8 {
					full = false
				}
			}
			if full && i > 40 {
				break
			}
		}
		// types the generator never produced still get their constructor value
		for _, t := range recvalTypes {
			if len(pool[t]) == 0 {
				pool[t] = append(pool[t], reflect.ValueOf(jsonCtors[t]()))
			}
		}
		for i := 0; i < n; i++ {
			cr := r.Fork(uint64(i))
			name := recvalTypes[i%len(recvalTypes)]
			src := pool[name][cr.Intn(len(pool[name]))]
			recvalOne(cr, name, src, emit)
		}
	}})
}
