package corr

import (
	"fmt"
	"sort"
	"strings"
	"sync"
	"testing/fstest"

	"github.com/moov-io/ach"
	"verif/harness/gen"
)

type tnode struct {
	name     string
	dir      bool
	children []*tnode
}

func genTree(r *gen.Rand, depth int, counter *int) []*tnode {
	n := 1 + r.Intn(4)
	var out []*tnode
	for i := 0; i < n; i++ {
		*counter++
		if depth > 0 && r.Chance(1, 3) {
			d := &tnode{name: fmt.Sprintf("d%02d", *counter), dir: true}
			d.children = genTree(r, depth-1, counter)
			out = append(out, d)
		} else {
			ext := gen.Pick(r, []string{".ach", ".txt", ".json", "", ".bak"})
			out = append(out, &tnode{name: fmt.Sprintf("f%02d%s", *counter, ext)})
		}
	}
	sort.Slice(out, func(i, j int) bool { return out[i].name < out[j].name })
	return out
}

func treeSyntax(ns []*tnode) string {
	var parts []string
	for _, n := range ns {
		if n.dir {
			parts = append(parts, n.name+"("+treeSyntax(n.children)+")")
		} else {
			parts = append(parts, n.name)
		}
	}
	return strings.Join(parts, ",")
}

func fillFS(m fstest.MapFS, prefix string, ns []*tnode) {
	for _, n := range ns {
		p := prefix + n.name
		if n.dir {
			fillFS(m, p+"/", n.children)
		} else {
			m[p] = &fstest.MapFile{Data: []byte("x")}
		}
	}
}

func init() {
	register(&Stream{Name: "pipeline", Run: func(r *gen.Rand, n int, emit func(op, impl, class string)) {
		for i := 0; i < n; i++ {
			counter := 0
			tree := genTree(r, 3, &counter)
			sub := r.Bool()
			m := fstest.MapFS{}
			fillFS(m, "root/", tree)
			var mu sync.Mutex
			var seen []string
			_, err := ach.MergeDir("root", ach.Conditions{}, &ach.MergeDirOptions{
				FS: m, SubDirectories: sub, ParseWorkers: 1,
				AcceptFile: func(path string) ach.FileAcceptance {
					mu.Lock()
					seen = append(seen, path)
					mu.Unlock()
					return ach.SkipFile
				},
			})
			res := "ok " + strings.Join(seen, ",")
			if len(seen) == 0 {
				res = "ok -"
			}
			res += " -"
			if err != nil {
				res = "err:" + strings.ReplaceAll(err.Error(), " ", "_")
			}
			s := "0"
			if sub {
				s = "1"
			}
			emit(fmt.Sprintf("walk %s root(%s)", s, treeSyntax(tree)), res, "walk-sub"+s)
		}
	}})
}
