package corr

import (
	"github.com/moov-io/ach/cmd/achcli/describe"
	"verif/harness/gen"
)

func init() {
	register(&Stream{Name: "mask", Run: func(r *gen.Rand, n int, emit func(op, impl, class string)) {
		// exhaustive part: all strings of length 0..6 over a small alphabet (incl. a 2-byte rune)
		alpha := []rune{'1', 'a', ' ', 'é', '*'}
		var rec func(prefix []rune, depth int)
		count := 0
		rec = func(prefix []rune, depth int) {
			s := string(prefix)
			emit("mask number "+Hex(s), Hex(describe.VerifMaskNumber(s)), "number-exhaustive")
			emit("mask name "+Hex(s), Hex(describe.VerifMaskName(s)), "name-exhaustive")
			count += 2
			if depth == 0 {
				return
			}
			for _, c := range alpha {
				rec(append(prefix, c), depth-1)
			}
		}
		depth := 5
		if n > 60000 {
			depth = 6
		}
		rec(nil, depth)
		for i := count; i < n; i++ {
			s := RandField(r, 22)
			if i%2 == 0 {
				emit("mask number "+Hex(s), Hex(describe.VerifMaskNumber(s)), "number-random")
			} else {
				emit("mask name "+Hex(s), Hex(describe.VerifMaskName(s)), "name-random")
			}
		}
	}})
}
