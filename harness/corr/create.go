package corr

import (
	"fmt"
	"strings"
	"time"

	"github.com/moov-io/ach"
	"verif/harness/gen"
)

type cEntry struct {
	code, amount int
	rdfi, trace  string
	isOffset     bool
	nA05, other  int
}

var hangs int

// runBuild calls (*Batch).build reps times through the verif hook, with a watchdog.
func runBuild(b *ach.Batch, reps int) (res string) {
	done := make(chan string, 1)
	go func() {
		done <- Safe(func() string {
			for i := 0; i < reps; i++ {
				if err := ach.VerifBuild(b); err != nil {
					return classifyBuildErr(err)
				}
			}
			return "ok"
		})
	}()
	select {
	case r := <-done:
		if strings.HasPrefix(r, "panic:") {
			return "err:panic"
		}
		return r
	case <-time.After(3 * time.Second):
		hangs++
		return "err:hang"
	}
}

func classifyBuildErr(err error) string {
	s := err.Error()
	switch {
	case strings.Contains(s, "strconv.Atoi"):
		return "err:atoi"
	case strings.Contains(s, "offset: invalid routing number"):
		return "err:routing"
	case strings.Contains(s, "OffsetAccountType") || strings.Contains(s, "account type"):
		return "err:accounttype"
	case strings.Contains(s, "must have Entry Record(s)") || strings.Contains(s, "entries"):
		return "err:noentries"
	}
	return "err:other:" + strings.ReplaceAll(s, " ", "_")
}

func init() {
	register(&Stream{Name: "create", Run: func(r *gen.Rand, n int, emit func(op, impl, class string)) {
		codes := []int{22, 27, 32, 37, 22, 27, 23, 28, 42, 47, 52, 55, 21, 26}
		for i := 0; i < n; i++ {
			if hangs >= 3 {
				// do not leak more spinning goroutines; the remaining cases avoid an OFFSET entry at index 0
			}
			odfi := fmt.Sprintf("%08d", 10000000+r.Intn(89999999))
			if r.Chance(1, 10) {
				odfi = fmt.Sprintf("%d", r.Intn(9999999)) // short: padded by ODFIIdentificationField
			}
			sc := gen.Pick(r, []int{200, 220, 225})
			auto := true
			var opts *ach.ValidateOpts
			switch r.Intn(8) {
			case 0:
				opts = &ach.ValidateOpts{CustomTraceNumbers: true}
				auto = false
			case 1:
				opts = &ach.ValidateOpts{BypassOriginValidation: true}
				auto = false
			case 2:
				opts = &ach.ValidateOpts{AllowZeroEntryAmount: true}
			}
			ne := 1 + r.Intn(5)
			var es []cEntry
			for k := 0; k < ne; k++ {
				e := cEntry{code: gen.Pick(r, codes), amount: r.Intn(100000), rdfi: fmt.Sprintf("%08d", r.Intn(100000000))}
				switch r.Intn(6) {
				case 0, 1:
					e.trace = ""
				case 2, 3:
					e.trace = odfi + fmt.Sprintf("%07d", 1+k*3+r.Intn(3))
					if len(odfi) != 8 {
						e.trace = fmt.Sprintf("%08s", odfi)[:8] + fmt.Sprintf("%07d", 1+k)
					}
				case 4:
					e.trace = fmt.Sprintf("%015d", r.Intn(1000000000))
				case 5:
					e.trace = RandField(r, 15)
				}
				if r.Chance(1, 12) && !(k == 0 && hangs >= 3) {
					e.isOffset = true
				}
				e.nA05 = r.Intn(3)
				if r.Chance(1, 8) {
					e.other = 1
				}
				es = append(es, e)
			}
			offKind, offRdfi, offOK := "-", "", true
			var off *ach.Offset
			if r.Chance(1, 2) {
				rt := "231380104"
				if r.Chance(1, 10) {
					rt = "231380105" // bad check digit
					offOK = false
				}
				off = &ach.Offset{RoutingNumber: rt, AccountNumber: "744-5678-99", Description: "OFFSET"}
				offRdfi = rt[:8]
				switch r.Intn(7) {
				case 0:
					off.AccountType = ach.OffsetAccountType("bogus")
					offKind = "x"
				case 1, 2, 3:
					off.AccountType = ach.OffsetSavings
					offKind = "s"
				default:
					off.AccountType = ach.OffsetChecking
					offKind = "c"
				}
			}
			reps := 1 + r.Intn(3)

			// ---- implementation
			bh := ach.NewBatchHeader()
			bh.ServiceClassCode = sc
			bh.StandardEntryClassCode = ach.PPD
			bh.CompanyName = "ACME"
			bh.CompanyIdentification = "121042882"
			bh.CompanyEntryDescription = "PAYROLL"
			bh.EffectiveEntryDate = "240102"
			bh.ODFIIdentification = odfi
			bt, err := ach.NewBatch(bh)
			if err != nil {
				continue
			}
			b := ach.VerifBatchOf(bt)
			if b == nil {
				continue
			}
			b.SetValidation(opts)
			for _, e := range es {
				ed := ach.NewEntryDetail()
				ed.TransactionCode = e.code
				ed.Amount = e.amount
				ed.RDFIIdentification = e.rdfi
				ed.CheckDigit = "0"
				ed.DFIAccountNumber = "123456"
				ed.IndividualName = "Jane Doe"
				if e.isOffset {
					ed.IndividualName = gen.Pick(r, []string{"OFFSET", "offset", "Offset"})
				}
				ed.TraceNumber = e.trace
				for k := 0; k < e.nA05; k++ {
					a := ach.NewAddenda05()
					a.PaymentRelatedInformation = "x"
					ed.AddAddenda05(a)
				}
				if e.other == 1 {
					a2 := ach.NewAddenda02()
					ed.Addenda02 = a2
				}
				b.AddEntry(ed)
			}
			if off != nil {
				b.WithOffset(off)
			}
			res := runBuild(b, reps)
			impl := res
			if res == "ok" {
				var sb strings.Builder
				bc := b.GetControl()
				fmt.Fprintf(&sb, "ok %d %d %d %d %d %d", b.GetHeader().ServiceClassCode, bc.ServiceClassCode, bc.EntryAddendaCount, bc.EntryHash, bc.TotalDebitEntryDollarAmount, bc.TotalCreditEntryDollarAmount)
				for _, e := range b.GetEntries() {
					isOff := 0
					if strings.EqualFold(e.IndividualName, "OFFSET") {
						isOff = 1
					}
					var seqs []string
					for _, a := range e.Addenda05 {
						seqs = append(seqs, fmt.Sprintf("%d/%d", a.SequenceNumber, a.EntryDetailSequenceNumber))
					}
					fmt.Fprintf(&sb, " %d:%d:%s:%d:%s", e.TransactionCode, e.Amount, Hex(e.TraceNumber), isOff, strings.Join(seqs, ","))
				}
				impl = sb.String()
			}

			// ---- op line
			var op strings.Builder
			fmt.Fprintf(&op, "create auto %d %d %s %s %s %s %s %d", reps, sc, Hex(odfi), b2s(auto), offKind, Hex(offRdfi), b2s(offOK), len(es))
			for _, e := range es {
				fmt.Fprintf(&op, " %d %d %s %s %s %d %d", e.code, e.amount, Hex(e.rdfi), Hex(e.trace), b2s(e.isOffset), e.nA05, e.other)
			}
			class := "plain"
			if off != nil {
				class = "offset"
			}
			if reps > 1 {
				class += "-repeated"
			}
			emit(op.String(), impl, class)
		}
	}})
}

func b2s(b bool) string {
	if b {
		return "1"
	}
	return "0"
}
