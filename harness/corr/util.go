package corr

import "strings"

func trimSpace(s string) string { return strings.TrimSpace(s) }
