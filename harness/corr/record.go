package corr

import (
	"fmt"
	"sort"
	"strings"
	"unicode/utf8"

	"github.com/moov-io/ach"
	"verif/harness/gen"
)

type record interface {
	Parse(string)
	String() string
}

// Records maps the Go type name of every 94-column record to a constructor of a zero value.
var Records = map[string]func() record{
	"ADVBatchControl":     func() record { return &ach.ADVBatchControl{} },
	"ADVEntryDetail":      func() record { return &ach.ADVEntryDetail{} },
	"ADVFileControl":      func() record { return &ach.ADVFileControl{} },
	"Addenda02":           func() record { return &ach.Addenda02{} },
	"Addenda05":           func() record { return &ach.Addenda05{} },
	"Addenda10":           func() record { return &ach.Addenda10{} },
	"Addenda11":           func() record { return &ach.Addenda11{} },
	"Addenda12":           func() record { return &ach.Addenda12{} },
	"Addenda13":           func() record { return &ach.Addenda13{} },
	"Addenda14":           func() record { return &ach.Addenda14{} },
	"Addenda15":           func() record { return &ach.Addenda15{} },
	"Addenda16":           func() record { return &ach.Addenda16{} },
	"Addenda17":           func() record { return &ach.Addenda17{} },
	"Addenda18":           func() record { return &ach.Addenda18{} },
	"Addenda98":           func() record { return &ach.Addenda98{} },
	"Addenda98Refused":    func() record { return &ach.Addenda98Refused{} },
	"Addenda99":           func() record { return &ach.Addenda99{} },
	"Addenda99Contested":  func() record { return &ach.Addenda99Contested{} },
	"Addenda99Dishonored": func() record { return &ach.Addenda99Dishonored{} },
	"BatchControl":        func() record { return &ach.BatchControl{} },
	"BatchHeader":         func() record { return &ach.BatchHeader{} },
	"EntryDetail":         func() record { return &ach.EntryDetail{} },
	"FileControl":         func() record { return &ach.FileControl{} },
	"FileHeader":          func() record { return &ach.FileHeader{} },
	"IATBatchHeader":      func() record { return &ach.IATBatchHeader{} },
	"IATEntryDetail":      func() record { return &ach.IATEntryDetail{} },
}

func RecordNames() []string {
	var ns []string
	for k := range Records {
		ns = append(ns, k)
	}
	sort.Strings(ns)
	return ns
}

var recordLead = map[string]string{
	"FileHeader": "1", "BatchHeader": "5", "IATBatchHeader": "5", "EntryDetail": "6", "IATEntryDetail": "6", "ADVEntryDetail": "6",
	"BatchControl": "8", "ADVBatchControl": "8", "FileControl": "9", "ADVFileControl": "9",
	"Addenda02": "702", "Addenda05": "705", "Addenda10": "710", "Addenda11": "711", "Addenda12": "712", "Addenda13": "713",
	"Addenda14": "714", "Addenda15": "715", "Addenda16": "716", "Addenda17": "717", "Addenda18": "718",
	"Addenda98": "798", "Addenda98Refused": "798", "Addenda99": "799", "Addenda99Contested": "799", "Addenda99Dishonored": "799",
}

// corpusLines returns the 94-column lines of the fixture files under /repo/test, grouped by leading digits.
var corpusLinesCache []string

func corpusLines() []string {
	if corpusLinesCache != nil {
		return corpusLinesCache
	}
	seen := map[string]bool{}
	for _, bs := range gen.CorpusTexts() {
		for _, l := range strings.Split(strings.ReplaceAll(string(bs), "\r", ""), "\n") {
			if utf8.RuneCountInString(l) == 94 && utf8.ValidString(l) && !seen[l] {
				seen[l] = true
				corpusLinesCache = append(corpusLinesCache, l)
			}
		}
	}
	sort.Strings(corpusLinesCache)
	return corpusLinesCache
}

// RandLine draws a 94-rune line for record type name.
func RandLine(r *gen.Rand, name string) string {
	lead := recordLead[name]
	lines := corpusLines()
	if len(lines) > 0 && r.Chance(2, 5) {
		// a fixture line of the same kind, possibly with a few columns replaced
		for try := 0; try < 20; try++ {
			l := gen.Pick(r, lines)
			if strings.HasPrefix(l, lead[:1]) {
				rs := []rune(l)
				for k := r.Intn(4); k > 0; k-- {
					rs[r.Intn(94)] = RandRune(r)
				}
				return string(rs)
			}
		}
	}
	rs := make([]rune, 94)
	// runs of one class, like real fields
	for i := 0; i < 94; {
		run := 1 + r.Intn(15)
		class := r.Intn(10)
		for j := 0; j < run && i < 94; j, i = j+1, i+1 {
			switch {
			case class < 4:
				rs[i] = gen.Pick(r, digits)
			case class < 6:
				rs[i] = ' '
			case class < 8:
				rs[i] = gen.Pick(r, asciiLetters)
			default:
				rs[i] = RandRune(r)
			}
		}
	}
	if r.Chance(9, 10) {
		copy(rs, []rune(lead))
	}
	return string(rs)
}

func init() {
	register(&Stream{Name: "record", Run: func(r *gen.Rand, n int, emit func(op, impl, class string)) {
		names := RecordNames()
		for i := 0; i < n; i++ {
			name := names[i%len(names)]
			line := RandLine(r, name)
			impl := Safe(func() string {
				rec := Records[name]()
				rec.Parse(line)
				return Hex(rec.String())
			})
			emit(fmt.Sprintf("rec %s 0 %s", name, Hex(line)), impl, name)
		}
	}})
}
