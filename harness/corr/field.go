package corr

import (
	"fmt"
	"strconv"

	"github.com/moov-io/ach"
	"verif/harness/gen"
)

// alphabet classes used by the field / record generators
var (
	asciiLetters = []rune("ABCDEFGHIJKLMNOPQRSTUVWXYZabcdefghijklmnopqrstuvwxyz")
	digits       = []rune("0123456789")
	punct        = []rune("!#$%&'()*+,-./:;<=>?@[]^_`{|}~\"\\")
	latin1       = []rune("ÀÉÑÜßàéíñöüÿØ¢¬¦± ")
	spacesU      = []rune(" \t\u0085  　")
	others       = []rune("€Ωж中😀\u0000\u007f")
)

// RandRune draws a rune with a distribution skewed to what NACHA files hold.
func RandRune(r *gen.Rand) rune {
	switch k := r.Intn(100); {
	case k < 35:
		return gen.Pick(r, digits)
	case k < 60:
		return gen.Pick(r, asciiLetters)
	case k < 80:
		return ' '
	case k < 86:
		return gen.Pick(r, punct)
	case k < 93:
		return gen.Pick(r, latin1)
	case k < 97:
		return gen.Pick(r, spacesU)
	default:
		return gen.Pick(r, others)
	}
}

// RandField draws a string of 0..max+3 runes: blank-padded, full, over-long, with inner blanks.
func RandField(r *gen.Rand, max int) string {
	n := r.Intn(max + 4)
	if r.Chance(1, 4) {
		n = max
	}
	rs := make([]rune, n)
	for i := range rs {
		rs[i] = RandRune(r)
	}
	if r.Chance(1, 3) { // pad with trailing / leading blanks like a parsed column
		for i := r.Intn(n + 1); i < n; i++ {
			rs[i] = ' '
		}
	}
	if r.Chance(1, 6) {
		for i := 0; i < n && i < r.Intn(4); i++ {
			rs[i] = ' '
		}
	}
	return string(rs)
}

func randNumText(r *gen.Rand) string {
	switch r.Intn(10) {
	case 0:
		return RandField(r, 8)
	case 1:
		return "-" + strconv.Itoa(r.Intn(100000))
	case 2:
		return "+" + strconv.Itoa(r.Intn(100000))
	case 3:
		return "  " + strconv.Itoa(r.Intn(100000)) + " "
	case 4:
		return "99999999999999999999" + strconv.Itoa(r.Intn(10))
	case 5:
		return "-9223372036854775808"
	case 6:
		return "0000" + strconv.Itoa(r.Intn(1000))
	case 7:
		return strconv.Itoa(r.Intn(100)) + " " + strconv.Itoa(r.Intn(100))
	default:
		return strconv.FormatUint(r.Uint64()>>uint(r.Intn(63)), 10)
	}
}

func randInt(r *gen.Rand) int {
	switch r.Intn(8) {
	case 0:
		return 0
	case 1:
		return -r.Intn(1000000)
	case 2:
		return int(r.Uint64() >> 1)
	case 3:
		return -int(r.Uint64() >> 1)
	case 4:
		p := 1
		for i := r.Intn(18); i > 0; i-- {
			p *= 10
		}
		return p - r.Intn(2)
	default:
		return int(r.Uint64() >> uint(20+r.Intn(44)))
	}
}

func randDate(r *gen.Rand) string {
	switch r.Intn(6) {
	case 0:
		return RandField(r, 6)
	case 1:
		return fmt.Sprintf("%02d%02d%02d", r.Intn(100), r.Intn(14), r.Intn(33))
	case 2:
		return fmt.Sprintf("%02d02%02d", r.Intn(100), 27+r.Intn(4))
	default:
		return fmt.Sprintf("%02d%02d%02d", r.Intn(100), 1+r.Intn(12), 1+r.Intn(31))
	}
}

func init() {
	register(&Stream{Name: "field", Run: func(r *gen.Rand, n int, emit func(op, impl, class string)) {
		for i := 0; i < n; i++ {
			switch r.Intn(9) {
			case 0:
				max := r.Intn(100)
				s := RandField(r, min(max, 40))
				emit(fmt.Sprintf("field alpha %s %d", Hex(s), max), Hex(ach.VerifAlphaField(s, uint(max))), "alpha")
			case 1:
				max := r.Intn(100)
				s := RandField(r, min(max, 40))
				emit(fmt.Sprintf("field string %s %d", Hex(s), max), Hex(ach.VerifStringField(s, uint(max))), "string")
			case 2:
				max := r.Intn(100)
				v := randInt(r)
				emit(fmt.Sprintf("field numeric %d %d", v, max), Hex(ach.VerifNumericField(v, uint(max))), "numeric")
			case 3:
				s := randNumText(r)
				emit("field parsenum "+Hex(s), strconv.Itoa(ach.VerifParseNumField(s)), "parsenum")
			case 4:
				s := RandField(r, 12)
				emit("field trim "+Hex(s), Hex(trimSpace(s)), "trim")
			case 5:
				v := randInt(r)
				k := r.Intn(19)
				if r.Chance(1, 10) {
					k = 95 + r.Intn(5)
				}
				emit(fmt.Sprintf("field lsd %d %d", v, k), strconv.Itoa(ach.VerifLeastSignificantDigits(v, uint(k))), "lsd")
			case 6:
				s := randDate(r)
				emit("field date "+Hex(s), Hex(ach.VerifValidateSimpleDate(s)), "date")
			case 7:
				s := fmt.Sprintf("%02d%02d", r.Intn(32), r.Intn(70))
				if r.Chance(1, 4) {
					s = RandField(r, 4)
				}
				emit("field time "+Hex(s), Hex(ach.VerifValidateSimpleTime(s)), "time")
			case 8:
				s := fmt.Sprintf("%03d", r.Intn(400))
				if r.Chance(1, 3) {
					s = RandField(r, 3)
				}
				emit("field settle "+Hex(s), Hex(ach.VerifValidateSettlementDate(s)), "settle")
			}
		}
	}})
}
