package corr

import (
	"encoding/json"
	"fmt"
	"reflect"
	"sort"
	"strings"

	"github.com/moov-io/ach"
	"verif/harness/gen"
)

// json stream: encoding/json on the real record structs (constructor value, some exported string / int / bool fields set
// to the zero value, to a non-zero value that differs from the constructor's, or left as the constructor made them;
// Marshal, then Unmarshal into a fresh constructor value) vs the field rules of Ach.Model.Json over the struct tags
// and constructor defaults that gofacts re-extracts.  The answer is one bit per listed field: did it come back equal.
var jsonCtors = map[string]func() any{
	"ADVBatchControl": func() any { return ach.NewADVBatchControl() }, "ADVEntryDetail": func() any { return ach.NewADVEntryDetail() },
	"ADVFileControl": func() any { c := ach.NewADVFileControl(); return &c }, "Addenda02": func() any { return ach.NewAddenda02() },
	"Addenda05": func() any { return ach.NewAddenda05() }, "Addenda10": func() any { return ach.NewAddenda10() },
	"Addenda11": func() any { return ach.NewAddenda11() }, "Addenda12": func() any { return ach.NewAddenda12() },
	"Addenda13": func() any { return ach.NewAddenda13() }, "Addenda14": func() any { return ach.NewAddenda14() },
	"Addenda15": func() any { return ach.NewAddenda15() }, "Addenda16": func() any { return ach.NewAddenda16() },
	"Addenda17": func() any { return ach.NewAddenda17() }, "Addenda18": func() any { return ach.NewAddenda18() },
	"Addenda98": func() any { return ach.NewAddenda98() }, "Addenda98Refused": func() any { return ach.NewAddenda98Refused() },
	"Addenda99": func() any { return ach.NewAddenda99() }, "Addenda99Contested": func() any { return ach.NewAddenda99Contested() },
	"Addenda99Dishonored": func() any { return ach.NewAddenda99Dishonored() }, "BatchControl": func() any { return ach.NewBatchControl() },
	"BatchHeader": func() any { return ach.NewBatchHeader() }, "EntryDetail": func() any { return ach.NewEntryDetail() },
	"FileControl": func() any { c := ach.NewFileControl(); return &c }, "FileHeader": func() any { h := ach.NewFileHeader(); return &h },
	"IATBatchHeader": func() any { return ach.NewIATBatchHeader() }, "IATEntryDetail": func() any { return ach.NewIATEntryDetail() },
}

func init() {
	var names []string
	for k := range jsonCtors {
		names = append(names, k)
	}
	sort.Strings(names)
	register(&Stream{Name: "json", Run: func(r *gen.Rand, n int, emit func(op, impl, class string)) {
		for i := 0; i < n; i++ {
			cr := r.Fork(uint64(i))
			name := names[i%len(names)]
			v := jsonCtors[name]()
			rv := reflect.ValueOf(v).Elem()
			var toks []string
			var idxs []int
			counts := map[string]int{}
			for f := 0; f < rv.NumField(); f++ {
				sf := rv.Type().Field(f)
				if !sf.IsExported() || sf.Anonymous {
					continue
				}
				fv := rv.Field(f)
				k := gen.Pick(cr, []string{"z", "n", "n", "d"})
				switch fv.Kind() {
				case reflect.String:
					switch k {
					case "z":
						fv.SetString("")
					case "n":
						fv.SetString("x" + fmt.Sprint(cr.Intn(9)))
					}
				case reflect.Int:
					switch k {
					case "z":
						fv.SetInt(0)
					case "n":
						fv.SetInt(int64(3 + cr.Intn(6)))
					}
				case reflect.Bool:
					switch k {
					case "z":
						fv.SetBool(false)
					case "n":
						fv.SetBool(true)
					}
				default:
					continue
				}
				toks = append(toks, sf.Name+"="+k)
				idxs = append(idxs, f)
				counts[k]++
			}
			orig := make([]any, len(idxs))
			for j, f := range idxs {
				orig[j] = rv.Field(f).Interface()
			}
			res := Safe(func() string {
				bs, err := json.Marshal(v)
				if err != nil {
					return "marshal-error"
				}
				w := jsonCtors[name]()
				if err := json.Unmarshal(bs, w); err != nil {
					return "unmarshal-error"
				}
				rw := reflect.ValueOf(w).Elem()
				var sb strings.Builder
				for j, f := range idxs {
					if reflect.DeepEqual(rw.Field(f).Interface(), orig[j]) {
						sb.WriteByte('1')
					} else {
						sb.WriteByte('0')
					}
				}
				return sb.String()
			})
			lost := "all-back"
			if strings.Contains(res, "0") {
				lost = "some-lost"
			}
			emit("json "+name+" "+strings.Join(toks, " "), res, name+"/"+lost)
		}
	}})
}
