package corr

// flatten stream: the Lean model Ach.Flatten.flatten (lean/Ach/Model/Flatten.lean, theorems in Ach/Props/C12.lean)
// against the real (*File).FlattenBatches (/repo/file_flattener.go).
//
// Abstraction (trusted; done here, before the real call, because Flatten shares header and entry pointers with
// its input and overwrites batch numbers):
//
//   - batches: the file's standard batches in file order followed by its IAT batches (= `originalBatches`).
//   - processing order: Flatten runs `sort.Slice(originalBatches, less by GetEntryCount)`, an unstable pdqsort.  The
//     order is NOT left to the model: this file runs the same call shape — `sort.Slice` on a slice of the same
//     length whose less function compares the same entry counts at the same positions — on a slice of
//     (index, count) pairs and hands the model the batches in the resulting order.  (sort.Slice is deterministic in
//     the length and the comparison results.)  Up to 12 elements this is an insertion sort (stable); the `n13+`
//     classes exercise the genuinely unstable path.
//   - sig: GetHeaderSignature, recomputed as the code does (`headerSignature` is unexported): the first 87 runes of
//     `GetHeader().String()` (standard) / `Header.String()` (IAT), interned to a natural number in order of first
//     appearance.  The raw string is interned, as `canMerge` and the `newBatchesByHeader` map compare raw strings; a
//     standard and an IAT batch can never render equal signatures for batches built by NewBatch (columns 51-53
//     hold the SEC code and NewBatch refuses "IAT"); should it ever happen the case gets the class `std-iat-sig-clash`
//     (the real code would then call Consume across types, which fails and silently drops the batch).
//   - trace: the rank of the entry's TraceNumber string among the case's trace numbers in Go string order (equality
//     for canMerge, order for AddToFile's sort of a group's entries).
//   - payload: the index of the entry in file order; entries are recognised in the output by pointer (both
//     mergeableBatcher.Consume and mergeableIATBatch.Consume re-use the *EntryDetail / *IATEntryDetail pointers).
//   - output: every batch of the returned file (Batches then IATBatches) as (sig of its header, payloads); canonical
//     form: payloads sorted inside a batch, batches sorted by (sig, payloads) — the real order goes through a Go map,
//     a second unstable sort by batch number and a re-sort of the entries by trace number.  An entry pointer that is
//     not one of the input's is printed as `?`, a signature that is not one of the input's as `?`.
//   - the real call returning an error (Create/Validate of the new file, the sanity checks): not modelled; the case is
//     emitted as op `flatten -` / impl `-` in class `go-error-skipped` (must be rare).
//   - ADV batches are not generated (their entries are ADVEntries; GetEntryCount is 0 for them).
//
// Classes: `<size bucket>/<flags>`; size = number of input batches (n1, n2-4, n5-8, n13+ = 13..24); flags, `-` when
// absent: S two input batches have equal signatures, M the output has fewer batches than the input, X two
// equal-signature input batches share a trace number, T two input batches have equal entry counts (tie in the sort
// key), I the file has IAT batches, U sort.Slice's order differs from the stable order, H a header was copied from one
// batch to another by this generator (besides gen's HeaderPool), G some signature ends with >= 2 output batches.
//
// Line protocol: see lean/Ach/Model/FlattenDriver.lean.

import (
	"fmt"
	"sort"
	"strings"

	"github.com/moov-io/ach"
	"verif/harness/gen"
)

func flattenSig(header string) string {
	runes := []rune(header)
	if len(runes) < 87 {
		return header
	}
	return string(runes[:87])
}

type flatBatch struct {
	sig     int
	count   int // GetEntryCount
	entries [][2]int
}

type flatGroup struct {
	sig      string
	payloads []int
}

func lessIntList(a, b []int) bool {
	for i := 0; i < len(a) && i < len(b); i++ {
		if a[i] != b[i] {
			return a[i] < b[i]
		}
	}
	return len(a) < len(b)
}

// retrace gives some batches short overlapping trace sequences (same ODFI, small sequence numbers) so that batches
// with equal headers share some but not all trace numbers, then re-creates the batch.
func flattenRetrace(r *gen.Rand, f *ach.File) error {
	for _, b := range f.Batches {
		if !r.Chance(1, 3) {
			continue
		}
		seq := r.Range(1, 6)
		for _, e := range b.GetEntries() {
			e.SetTraceNumber(b.GetHeader().ODFIIdentification, seq)
			seq += r.Range(1, 2)
		}
		if err := b.Create(); err != nil {
			return err
		}
	}
	for i := range f.IATBatches {
		b := &f.IATBatches[i]
		if !r.Chance(1, 3) {
			continue
		}
		seq := r.Range(1, 6)
		for _, e := range b.Entries {
			e.SetTraceNumber(b.Header.ODFIIdentification, seq)
			if e.Addenda99 != nil {
				e.Addenda99.TraceNumber = e.TraceNumber
			}
			seq += r.Range(1, 2)
		}
		if err := b.Create(); err != nil {
			return err
		}
	}
	return f.Create()
}

func flattenCase(r *gen.Rand, i int) (op, impl, class string) {
	// size
	nb := 1 + r.Intn(8)
	bucket := "n1"
	switch {
	case i%10 == 9:
		nb = 13 + r.Intn(12)
		bucket = "n13+"
	case nb >= 5:
		bucket = "n5-8"
	case nb >= 2:
		bucket = "n2-4"
	}
	// SECs: few per file so that pool headers repeat; sometimes with IAT
	std := []string{"PPD", "CCD", "WEB", "TEL", "ARC", "CIE", "POP", "BOC", "RCK", "MTE", "POS", "SHR", "TRC", "XCK", "CTX", "TRX", "ACK", "ATX", "DNE", "ENR", "COR"}
	var secs []string
	for k := r.Range(1, 2); k > 0; k-- {
		secs = append(secs, gen.Pick(r, std))
	}
	if r.Chance(1, 3) {
		secs = append(secs, "IAT")
	}
	o := gen.Opts{SECs: secs, MinBatches: nb, MaxBatches: nb, MaxEntries: r.Range(1, 4), HeaderPool: r.Range(1, 4),
		PresetTraces: true, CollidingTraces: true}
	if bucket == "n13+" {
		o.MaxEntries = r.Range(1, 3)
		o.HeaderPool = r.Range(2, 6)
	}
	if r.Chance(1, 4) {
		o.Categories = []string{ach.CategoryForward, ach.CategoryReturn}
	}
	f, err := gen.File(r.Fork(1), o)
	if err != nil {
		return "flatten -", "-", "gen-error-skipped"
	}
	copied := false
	if len(f.Batches) >= 2 && r.Chance(1, 5) {
		// copy the header of one standard batch to a later one of the same SEC and service class and re-create it
		// (its trace numbers are re-derived from the new ODFI).  When the two batches differ in category
		// (forward / return) the real Flatten merges them, the merged batch fails Create inside AddToFile, that error
		// is discarded and the sanity check then fails (known finding D17): such cases end up in `go-error-skipped`.
		a := r.Intn(len(f.Batches) - 1)
		b := a + 1 + r.Intn(len(f.Batches)-1-a)
		ha, hb := f.Batches[a].GetHeader(), f.Batches[b].GetHeader()
		if ha.StandardEntryClassCode == hb.StandardEntryClassCode && ha.ServiceClassCode == hb.ServiceClassCode &&
			strings.EqualFold(ha.CompanyEntryDescription, "PRENOTE") == strings.EqualFold(hb.CompanyEntryDescription, "PRENOTE") && ha != hb {
			id, num := hb.ID, hb.BatchNumber
			*hb = *ha
			hb.ID, hb.BatchNumber = id, num
			if err := f.Batches[b].Create(); err != nil {
				return "flatten -", "-", "gen-error-skipped"
			}
			if err := f.Create(); err != nil {
				return "flatten -", "-", "gen-error-skipped"
			}
			copied = true
		}
	}
	if r.Bool() {
		if err := flattenRetrace(r, f); err != nil {
			return "flatten -", "-", "gen-error-skipped"
		}
	}

	// ---- abstraction of the input (before the call) ----
	sigID := map[string]int{}
	sigKind := map[string]string{}
	clash := false
	intern := func(s, kind string) int {
		if k, ok := sigKind[s]; ok && k != kind {
			clash = true
		}
		sigKind[s] = kind
		if id, ok := sigID[s]; ok {
			return id
		}
		sigID[s] = len(sigID)
		return sigID[s]
	}
	// trace numbers as ranks that preserve Go's string order (AddToFile sorts a group's entries by TraceNumber)
	var allTraces []string
	for _, b := range f.Batches {
		for _, e := range b.GetEntries() {
			allTraces = append(allTraces, e.TraceNumber)
		}
	}
	for k := range f.IATBatches {
		for _, e := range f.IATBatches[k].Entries {
			allTraces = append(allTraces, e.TraceNumber)
		}
	}
	sort.Strings(allTraces)
	traceID := map[string]int{}
	for _, s := range allTraces {
		if _, ok := traceID[s]; !ok {
			traceID[s] = len(traceID)
		}
	}
	tr := func(s string) int { return traceID[s] }
	stdIdx := map[*ach.EntryDetail]int{}
	iatIdx := map[*ach.IATEntryDetail]int{}
	next := 0
	var bs []flatBatch
	for _, b := range f.Batches {
		fb := flatBatch{sig: intern(flattenSig(b.GetHeader().String()), "std"), count: len(b.GetEntries())}
		for _, e := range b.GetEntries() {
			stdIdx[e] = next
			fb.entries = append(fb.entries, [2]int{tr(e.TraceNumber), next})
			next++
		}
		bs = append(bs, fb)
	}
	for k := range f.IATBatches {
		b := &f.IATBatches[k]
		fb := flatBatch{sig: intern(flattenSig(b.Header.String()), "iat"), count: len(b.Entries)}
		for _, e := range b.Entries {
			iatIdx[e] = next
			fb.entries = append(fb.entries, [2]int{tr(e.TraceNumber), next})
			next++
		}
		bs = append(bs, fb)
	}

	// ---- processing order: the same sort.Slice call shape as Flatten ----
	type item struct{ idx, count int }
	items := make([]item, len(bs))
	for k := range bs {
		items[k] = item{k, bs[k].count}
	}
	sort.Slice(items, func(i, j int) bool { return items[i].count < items[j].count })
	stable := make([]item, len(items))
	for k := range bs {
		stable[k] = item{k, bs[k].count}
	}
	sort.SliceStable(stable, func(i, j int) bool { return stable[i].count < stable[j].count })

	var parts []string
	for _, it := range items {
		b := bs[it.idx]
		var es []string
		for _, e := range b.entries {
			es = append(es, fmt.Sprintf("%d,%d", e[0], e[1]))
		}
		s := "-"
		if len(es) > 0 {
			s = strings.Join(es, "/")
		}
		parts = append(parts, fmt.Sprintf("%d:%s", b.sig, s))
	}
	op = "flatten " + strings.Join(parts, "|")

	// ---- class flags ----
	flags := []byte("--------") // S M X T I U H G
	shares := func(a, b flatBatch) bool {
		for _, x := range a.entries {
			for _, y := range b.entries {
				if x[0] == y[0] {
					return true
				}
			}
		}
		return false
	}
	for a := 0; a < len(bs); a++ {
		for b := a + 1; b < len(bs); b++ {
			if bs[a].sig == bs[b].sig {
				flags[0] = 'S' // two batches with equal signatures
				if shares(bs[a], bs[b]) {
					flags[2] = 'X' // … that share a trace number
				}
			}
			if bs[a].count == bs[b].count {
				flags[3] = 'T' // tie in the sort key
			}
		}
	}
	if len(f.IATBatches) > 0 {
		flags[4] = 'I'
	}
	unstable := false
	for k := range items {
		if items[k].idx != stable[k].idx {
			unstable = true
		}
	}

	// ---- the real call ----
	var nf *ach.File
	res := Safe(func() string {
		var err error
		nf, err = f.FlattenBatches()
		if err != nil {
			return "err"
		}
		return "ok"
	})
	if strings.HasPrefix(res, "panic:") {
		return op, res, "panic"
	}
	if res == "err" || nf == nil {
		if copied {
			return "flatten -", "-", "go-error-skipped/header-copied"
		}
		return "flatten -", "-", "go-error-skipped"
	}
	var groups []flatGroup
	nameOf := func(s string) string {
		if id, ok := sigID[s]; ok {
			return fmt.Sprint(id)
		}
		return "?"
	}
	for _, b := range nf.Batches {
		g := flatGroup{sig: nameOf(flattenSig(b.GetHeader().String()))}
		for _, e := range b.GetEntries() {
			if p, ok := stdIdx[e]; ok {
				g.payloads = append(g.payloads, p)
			} else {
				g.payloads = append(g.payloads, -1)
			}
		}
		groups = append(groups, g)
	}
	for k := range nf.IATBatches {
		b := &nf.IATBatches[k]
		g := flatGroup{sig: nameOf(flattenSig(b.Header.String()))}
		for _, e := range b.Entries {
			if p, ok := iatIdx[e]; ok {
				g.payloads = append(g.payloads, p)
			} else {
				g.payloads = append(g.payloads, -1)
			}
		}
		groups = append(groups, g)
	}
	// (the payloads stay in the order of the group's entries: ascending trace number)
	num := func(s string) int {
		var v int
		if _, err := fmt.Sscan(s, &v); err != nil {
			return -1
		}
		return v
	}
	sort.SliceStable(groups, func(i, j int) bool {
		if a, b := num(groups[i].sig), num(groups[j].sig); a != b {
			return a < b
		}
		return lessIntList(groups[i].payloads, groups[j].payloads)
	})
	var outs []string
	for _, g := range groups {
		var ps []string
		for _, p := range g.payloads {
			if p < 0 {
				ps = append(ps, "?")
			} else {
				ps = append(ps, fmt.Sprint(p))
			}
		}
		outs = append(outs, g.sig+":"+strings.Join(ps, ","))
	}
	impl = strings.Join(outs, "|")
	if impl == "" {
		impl = "-"
	}
	if len(groups) < len(bs) {
		flags[1] = 'M' // something was merged
	}
	perSig := map[string]int{}
	for _, g := range groups {
		perSig[g.sig]++
		if perSig[g.sig] == 2 {
			flags[7] = 'G' // some signature ends up with two or more output batches
		}
	}
	if unstable {
		flags[5] = 'U' // sort.Slice left the batches in another order than a stable sort would
	}
	if copied {
		flags[6] = 'H' // a header was copied between batches
	}
	class = bucket + "/" + string(flags)
	if clash {
		class = "std-iat-sig-clash"
	}
	return op, impl, class
}

func init() {
	register(&Stream{Name: "flatten", Run: func(r *gen.Rand, n int, emit func(op, impl, class string)) {
		for i := 0; i < n; i++ {
			op, impl, class := flattenCase(r.Fork(uint64(i)), i)
			emit(op, impl, class)
		}
	}})
}
