package c01

import (
	"bytes"
	"errors"
	"fmt"
	"reflect"
	"regexp"
	"strings"
	"unicode/utf8"

	"github.com/moov-io/ach"
	"github.com/moov-io/base"
)

// rec is one physical record of a file, addressed by its place in the tree.
type rec struct {
	path string // e.g. "batch[0].entry[1].addenda05[0]"
	kind string // e.g. "Addenda05"
	s    string // String() rendering
	v    any    // pointer to the record struct
}

type stringer interface{ String() string }

func isNil(v any) bool {
	if v == nil {
		return true
	}
	rv := reflect.ValueOf(v)
	return rv.Kind() == reflect.Ptr && rv.IsNil()
}

// flatten lists the records of f in the order the Writer emits them.
func flatten(f *ach.File) []rec {
	var out []rec
	add := func(path, kind string, v stringer) {
		if isNil(v) {
			return
		}
		out = append(out, rec{path: path, kind: kind, s: v.String(), v: v})
	}
	add("fileHeader", "FileHeader", &f.Header)
	isADV := f.IsADV()
	for bi, b := range f.Batches {
		bp := fmt.Sprintf("batch[%d]", bi)
		add(bp+".header", "BatchHeader", b.GetHeader())
		if !isADV {
			for ei, e := range b.GetEntries() {
				ep := fmt.Sprintf("%s.entry[%d]", bp, ei)
				add(ep, "EntryDetail", e)
				add(ep+".addenda02", "Addenda02", e.Addenda02)
				for ai, a := range e.Addenda05 {
					add(fmt.Sprintf("%s.addenda05[%d]", ep, ai), "Addenda05", a)
				}
				add(ep+".addenda98", "Addenda98", e.Addenda98)
				add(ep+".addenda98Refused", "Addenda98Refused", e.Addenda98Refused)
				add(ep+".addenda99", "Addenda99", e.Addenda99)
				add(ep+".addenda99Dishonored", "Addenda99Dishonored", e.Addenda99Dishonored)
				add(ep+".addenda99Contested", "Addenda99Contested", e.Addenda99Contested)
			}
		} else {
			for ei, e := range b.GetADVEntries() {
				ep := fmt.Sprintf("%s.advEntry[%d]", bp, ei)
				add(ep, "ADVEntryDetail", e)
				add(ep+".addenda99", "Addenda99", e.Addenda99)
			}
		}
		if b.GetHeader().StandardEntryClassCode != ach.ADV {
			add(bp+".control", "BatchControl", b.GetControl())
		} else {
			add(bp+".advControl", "ADVBatchControl", b.GetADVControl())
		}
	}
	for bi := range f.IATBatches {
		b := &f.IATBatches[bi]
		bp := fmt.Sprintf("iatBatch[%d]", bi)
		add(bp+".header", "IATBatchHeader", b.GetHeader())
		for ei, e := range b.GetEntries() {
			ep := fmt.Sprintf("%s.entry[%d]", bp, ei)
			add(ep, "IATEntryDetail", e)
			add(ep+".addenda10", "Addenda10", e.Addenda10)
			add(ep+".addenda11", "Addenda11", e.Addenda11)
			add(ep+".addenda12", "Addenda12", e.Addenda12)
			add(ep+".addenda13", "Addenda13", e.Addenda13)
			add(ep+".addenda14", "Addenda14", e.Addenda14)
			add(ep+".addenda15", "Addenda15", e.Addenda15)
			add(ep+".addenda16", "Addenda16", e.Addenda16)
			for ai, a := range e.Addenda17 {
				add(fmt.Sprintf("%s.addenda17[%d]", ep, ai), "Addenda17", a)
			}
			for ai, a := range e.Addenda18 {
				add(fmt.Sprintf("%s.addenda18[%d]", ep, ai), "Addenda18", a)
			}
			add(ep+".addenda98", "Addenda98", e.Addenda98)
			add(ep+".addenda99", "Addenda99", e.Addenda99)
		}
		add(bp+".control", "BatchControl", b.GetControl())
	}
	if !isADV {
		add("fileControl", "FileControl", &f.Control)
	} else {
		add("fileControl", "ADVFileControl", &f.ADVControl)
	}
	return out
}

// shape counts batches / entries / addenda of a flattened file.
func shape(rs []rec) string {
	var b, e, a int
	for _, r := range rs {
		switch {
		case strings.HasSuffix(r.path, ".header"):
			b++
		case strings.Contains(r.path, "addenda"):
			a++
		case strings.Contains(r.path, "ntry["):
			e++
		}
	}
	return fmt.Sprintf("batches=%d entries=%d addenda=%d", b, e, a)
}

func hasMB(s string) bool {
	for i := 0; i < len(s); i++ {
		if s[i] >= 0x80 {
			return true
		}
	}
	return false
}

func mbWord(s string) string {
	if hasMB(s) {
		return "multibyte"
	}
	return "ascii"
}

// diffField names the exported fields in which two records of the same type
// differ (values compared modulo blank padding), and classifies the difference.
func diffField(kind string, a, b any) (field, class string) {
	va, vb := reflect.ValueOf(a), reflect.ValueOf(b)
	if va.Kind() != reflect.Ptr || vb.Kind() != reflect.Ptr || va.Type() != vb.Type() || va.IsNil() || vb.IsNil() {
		return "type", "ascii"
	}
	va, vb = va.Elem(), vb.Elem()
	for i := 0; i < va.NumField(); i++ {
		sf := va.Type().Field(i)
		if !sf.IsExported() || sf.Name == "ID" || sf.Name == "LineNumber" || sf.Name == "Category" {
			continue
		}
		switch sf.Type.Kind() {
		case reflect.String, reflect.Int, reflect.Int64, reflect.Bool:
		default:
			continue
		}
		x, y := fmt.Sprint(va.Field(i).Interface()), fmt.Sprint(vb.Field(i).Interface())
		if strings.Trim(x, " ") == strings.Trim(y, " ") {
			continue
		}
		switch {
		case strings.TrimSpace(x) == strings.Trim(y, " ") && strings.TrimSpace(x) != strings.Trim(x, " "):
			// the only change is a Unicode (non-ASCII) space lost at an edge of the value
			return "", "edge-unicode-space-lost"
		default:
			return kind + "." + sf.Name, mbWord(x)
		}
	}
	return kind + ".(rendering)", "ascii"
}

var (
	reDigits = regexp.MustCompile(`[0-9]+`)
	reQuoted = regexp.MustCompile(`"[^"]*"|'[^']*'`)
	reBad    = regexp.MustCompile(`[^A-Za-z0-9#.()_-]+`)
)

func msgClass(err error) string {
	if err == nil {
		return "nil"
	}
	s := err.Error()
	s = reQuoted.ReplaceAllString(s, "Q")
	s = reDigits.ReplaceAllString(s, "N")
	s = strings.ToValidUTF8(s, "")
	s = reBad.ReplaceAllString(s, "-")
	if len(s) > 70 {
		s = s[:70]
	}
	return strings.Trim(s, "-")
}

// errClass reduces a library error to a stable class: record name, field name
// and message with all values removed.  line is the ParseError's line (0 if none).
func errClass(err error) (class string, line int) {
	if el, ok := err.(base.ErrorList); ok && len(el) > 0 {
		err = el[0]
	}
	prefix := ""
	var pe *base.ParseError
	if errors.As(err, &pe) {
		prefix = pe.Record + ":"
		line = pe.Line
		if pe.Err != nil {
			err = pe.Err
		}
	}
	var be *ach.BatchError
	var fe *ach.FieldError
	var wl ach.RecordWrongLengthErr
	switch {
	case errors.As(err, &wl):
		// the record name of this error is stale (it is the previous record's)
		return "record-wrong-length", line
	case errors.As(err, &be):
		inner := ""
		var fe2 *ach.FieldError
		if be.Err != nil && errors.As(be.Err, &fe2) {
			inner = fe2.FieldName + ":" + msgClass(fe2.Err)
		} else {
			inner = msgClass(be.Err)
		}
		return prefix + "batch-" + be.FieldName + ":" + inner, line
	case errors.As(err, &fe):
		if fe.Err != nil {
			return prefix + fe.FieldName + ":" + msgClass(fe.Err), line
		}
		return prefix + fe.FieldName + ":" + msgClass(errors.New(fe.Msg)), line
	}
	return prefix + msgClass(err), line
}

// physicalLines splits a text the way Reader.Read does: a line ends at CR, LF
// or after 94 runes; empty lines do not count.
func physicalLines(text []byte) []string {
	var out []string
	var cur []rune
	for _, c := range string(text) {
		if c == '\n' || c == '\r' {
			if len(cur) > 0 {
				out = append(out, string(cur))
				cur = cur[:0]
			}
			continue
		}
		cur = append(cur, c)
		if len(cur) == 94 {
			out = append(out, string(cur))
			cur = cur[:0]
		}
	}
	if len(cur) > 0 {
		out = append(out, string(cur))
	}
	return out
}

// lateMultibyte reports whether the charset sniffing of ach.NewReader misses
// the text's first non-ASCII rune: charset.DetermineEncoding looks at the first
// 1024 bytes and drops the last rune of that window if it is a multi-byte one,
// so the rune must end strictly before the window does.
func lateMultibyte(text []byte) bool {
	w := len(text)
	if w > 1024 {
		w = 1024
	}
	for i := 0; i < len(text); i++ {
		if text[i] >= 0x80 {
			_, n := utf8.DecodeRune(text[i:])
			return i+n >= w
		}
	}
	return false
}

func readText(text []byte) (f *ach.File, err error) {
	defer func() {
		if p := recover(); p != nil {
			err = fmt.Errorf("PANIC in Reader.Read: %v", p)
		}
	}()
	g, err := ach.NewReader(bytes.NewReader(text)).Read()
	return &g, err
}

func writeFile(f *ach.File, le string) (out []byte, err error) {
	defer func() {
		if p := recover(); p != nil {
			err = fmt.Errorf("PANIC in Writer.Write: %v", p)
		}
	}()
	var buf bytes.Buffer
	w := ach.NewWriter(&buf)
	w.LineEnding = le
	if err := w.Write(f); err != nil {
		return nil, err
	}
	return buf.Bytes(), nil
}

// Shapes of a record that are known to defeat the plain write/read round trip
// whatever the field they occur in.  A failure located at such a record is
// filed under the shape instead of under the (input dependent) error text.
const (
	tagEdge   = "unicode-space-at-field-edge"
	tagCompID = "multibyte-company-identification-in-batch-control"
	tagIATHdr = "multibyte-before-column-50-of-iat-batch-header"
	tagNeg    = "negative-number-in-numeric-field"
)

func recordTag(r rec) string {
	v := reflect.ValueOf(r.v)
	if v.Kind() != reflect.Ptr || v.IsNil() {
		return ""
	}
	v = v.Elem()
	edge, neg := false, false
	for i := 0; i < v.NumField(); i++ {
		sf := v.Type().Field(i)
		if sf.IsExported() && sf.Type.Kind() == reflect.Int && v.Field(i).Int() < 0 {
			neg = true
		}
		if !sf.IsExported() || sf.Type.Kind() != reflect.String || sf.Name == "ID" {
			continue
		}
		x := v.Field(i).String()
		if strings.TrimSpace(x) != strings.Trim(x, " ") {
			edge = true
		}
		if r.kind == "BatchControl" && sf.Name == "CompanyIdentification" && hasMB(x) {
			return tagCompID
		}
	}
	if neg {
		return tagNeg
	}
	if edge {
		return tagEdge
	}
	// (checked last: the defect behind this shape is repaired, a record that also has one of the shapes above
	// fails for that reason, not for this one)
	if r.kind == "IATBatchHeader" {
		if rs := []rune(r.s); len(rs) >= 50 && hasMB(string(rs[:50])) {
			return tagIATHdr
		}
	}
	return ""
}

// attribute finds the shape responsible for a failure located at record i of
// the original: the record's own, else that of the IAT header of its batch.
func attribute(orig []rec, i int) string {
	if i < 0 || i >= len(orig) {
		return ""
	}
	if t := recordTag(orig[i]); t != "" {
		return t
	}
	for j := i; j >= 0; j-- {
		if strings.HasSuffix(orig[j].path, ".header") {
			if t := recordTag(orig[j]); t == tagIATHdr {
				return t
			}
			break
		}
	}
	return ""
}
