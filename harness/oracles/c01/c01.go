// Package c01 is the oracle of property C01: write then read returns the same
// file for every physical line layout, and write/read/write is a fixed point.
package c01

import (
	"bytes"
	"fmt"
	"runtime"
	"sort"
	"strings"
	"sync"
	"unicode/utf8"

	"github.com/moov-io/ach"
	"verif/harness/gen"
	. "verif/harness/oracle"
)

const (
	lf   = "\n"
	crlf = "\r\n"
)

func leName(le string) string {
	if le == crlf {
		return "crlf"
	}
	return "lf"
}

// The physical layouts of the property.  "blank-lines" interleaves empty
// lines, "blank-lines-spaces" interleaves lines made of blanks only.
var allLayouts = []string{"lf", "crlf", "cr", "stream", "trimmed", "blank-lines", "blank-lines-spaces", "no-filler", "extra-filler",
	// combinations of the above (a file can arrive with CR endings AND trimmed blanks, etc.)
	"trimmed-cr", "trimmed-crlf", "trimmed-lf", "mixed-endings", "trimmed-mixed-endings", "no-filler-trimmed-cr"}

var filler = strings.Repeat("9", 94)

func splitRecords(text []byte, le string) []string {
	parts := strings.Split(string(text), le)
	if n := len(parts); n > 0 && parts[n-1] == "" {
		parts = parts[:n-1]
	}
	return parts
}

// layout re-lays-out the records of a canonical text.  changed says whether
// the result differs from the canonical text.
func layout(name string, recs []string, le string, r *gen.Rand) (text []byte, changed bool) {
	var sb strings.Builder
	join := func(rs []string, sep string) {
		for _, x := range rs {
			sb.WriteString(x)
			sb.WriteString(sep)
		}
	}
	switch name {
	case "lf":
		join(recs, "\n")
	case "crlf":
		join(recs, "\r\n")
	case "cr":
		join(recs, "\r")
	case "stream":
		join(recs, "")
	case "trimmed":
		for _, x := range recs {
			sb.WriteString(strings.TrimRight(x, " "))
			sb.WriteString(le)
		}
	case "trimmed-cr", "trimmed-crlf", "trimmed-lf", "mixed-endings", "trimmed-mixed-endings", "no-filler-trimmed-cr":
		rs := recs
		if name == "no-filler-trimmed-cr" {
			n := len(rs)
			for n > 0 && rs[n-1] == filler {
				n--
			}
			rs = rs[:n]
		}
		for _, x := range rs {
			if strings.Contains(name, "trimmed") {
				x = strings.TrimRight(x, " ")
			}
			sb.WriteString(x)
			switch {
			case strings.HasSuffix(name, "-cr"):
				sb.WriteString("\r")
			case strings.HasSuffix(name, "-crlf"):
				sb.WriteString("\r\n")
			case strings.HasSuffix(name, "-lf"):
				sb.WriteString("\n")
			default:
				sb.WriteString(gen.Pick(r, []string{"\n", "\r\n", "\r"}))
			}
		}
	case "blank-lines", "blank-lines-spaces":
		blank := func() {
			for n := r.Intn(3); n > 0; n-- {
				if name == "blank-lines-spaces" {
					sb.WriteString(strings.Repeat(" ", gen.Pick(r, []int{1, 2, 10, 93, 94})))
				}
				sb.WriteString(le)
			}
		}
		if r.Bool() {
			blank()
		}
		for i, x := range recs {
			sb.WriteString(x)
			sb.WriteString(le)
			if i == 0 || r.Chance(2, 3) {
				sb.WriteString(le) // at least one blank line after the file header
				if name == "blank-lines-spaces" {
					sb.WriteString(strings.Repeat(" ", gen.Pick(r, []int{1, 5, 94})))
					sb.WriteString(le)
				}
			}
			blank()
		}
	case "no-filler":
		n := len(recs)
		for n > 0 && recs[n-1] == filler {
			n--
		}
		join(recs[:n], le)
	case "extra-filler":
		join(recs, le)
		for n := gen.Pick(r, []int{1, 2, 5, 9, 10, 11, 23}); n > 0; n-- {
			sb.WriteString(filler)
			sb.WriteString(le)
		}
	default:
		panic("unknown layout " + name)
	}
	out := []byte(sb.String())
	var canon strings.Builder
	for _, x := range recs {
		canon.WriteString(x)
		canon.WriteString(le)
	}
	return out, sb.String() != canon.String()
}

type failure struct {
	sig, what          string
	input              map[string]any
	observed, required string
}

type caseRec struct {
	key, class string
	nontrivial bool
}

type result struct {
	cases []caseRec
	fails []failure
}

type finding struct{ core, what, observed, required string }

func clipText(b []byte) string {
	if len(b) > 12000 {
		return string(b[:12000]) + "…"
	}
	return string(b)
}

// roundTrip reads text, compares the records with orig, writes again with line
// ending le and compares with the canonical text canon.
func roundTrip(orig []rec, emptyTime, identity bool, text, canon []byte, le string) (out []finding) {
	g, err := readText(text)
	if err != nil {
		cls, line := errClass(err)
		where := "ascii-line"
		if lines := physicalLines(text); line >= 1 && line <= len(lines) && hasMB(lines[line-1]) {
			where = "multibyte-line"
		}
		if lateMultibyte(text) {
			// the charset sniffing of ach.NewReader then decodes the whole text as windows-1252
			return []finding{{"first-multibyte-after-1024-bytes/read-error", "the Reader rejects the written text", err.Error(), "nil"}}
		}
		if identity {
			if tag := attribute(orig, line-1); tag != "" {
				return []finding{{"input-has-" + tag + "/read-error", "the Reader rejects the written text", err.Error(), "nil"}}
			}
		}
		return []finding{{"read-error/" + cls + "/" + where, "the Reader rejects the written text", err.Error(), "nil"}}
	}
	if lateMultibyte(text) {
		defer func() {
			for i := range out {
				out[i].core = "first-multibyte-after-1024-bytes/" + strings.SplitN(out[i].core, "/", 2)[0]
			}
		}()
	}
	got := flatten(g)
	// tree shape
	for i := 0; i < len(orig) || i < len(got); i++ {
		switch {
		case i >= len(got):
			return []finding{{"shape-differs/missing-" + orig[i].kind, "a record of the original is absent from the file read back", shape(got), shape(orig) + "; first missing: " + orig[i].path}}
		case i >= len(orig):
			return []finding{{"shape-differs/extra-" + got[i].kind, "the file read back has a record the original does not have", shape(got) + "; first extra: " + got[i].path, shape(orig)}}
		case orig[i].path != got[i].path:
			if tag := attribute(orig, i); tag != "" && identity {
				return []finding{{"input-has-" + tag + "/shape-differs", "the tree of batches / entries / addenda changed", got[i].path + " | " + shape(got), orig[i].path + " | " + shape(orig)}}
			}
			return []finding{{"shape-differs/" + orig[i].kind + "-became-" + got[i].kind, "the tree of batches / entries / addenda changed", got[i].path + " | " + shape(got), orig[i].path + " | " + shape(orig)}}
		}
	}
	// records
	seen := map[string]bool{}
	for i := range orig {
		a, b := orig[i].s, got[i].s
		if i == 0 && emptyTime && utf8.RuneCountInString(a) == 94 && utf8.RuneCountInString(b) == 94 {
			// the original has no creation time: the rendering of the original
			// depends on the wall clock, so take the stamped value from the text
			if g.Header.FileCreationTime != "" {
				out = append(out, finding{"record-differs/FileHeader.FileCreationTime/empty-rendered-as-current-time",
					"an empty FileCreationTime is written as the current time, so the file read back has a creation time the original does not have",
					fmt.Sprintf("%q", g.Header.FileCreationTime), `""`})
			}
			ra, rb := []rune(a), []rune(b)
			copy(ra[29:33], rb[29:33])
			a = string(ra)
		}
		if a == b {
			continue
		}
		field, class := diffField(orig[i].kind, orig[i].v, got[i].v)
		core := "record-differs/" + field + "/" + class
		if class == "edge-unicode-space-lost" {
			core = "input-has-" + tagEdge + "/record-differs"
		} else if tag := recordTag(orig[i]); tag != "" && tag != tagEdge {
			core = "input-has-" + tag + "/record-differs"
		}
		if !seen[core] {
			seen[core] = true
			out = append(out, finding{core, "record " + orig[i].path + " differs after write+read", b, a})
		}
	}
	// second write
	t2, err := writeFile(g, le)
	if err != nil {
		cls, _ := errClass(err)
		return append(out, finding{"rewrite-error/" + cls, "the file read back cannot be written", err.Error(), "nil"})
	}
	if !bytes.Equal(t2, canon) && len(out) == 0 {
		r1, r2 := splitRecords(canon, le), splitRecords(t2, le)
		core := "rewrite-differs/record-count"
		obs, req := fmt.Sprintf("%d records, %d bytes", len(r2), len(t2)), fmt.Sprintf("%d records, %d bytes", len(r1), len(canon))
		if len(r1) == len(r2) {
			core = "rewrite-differs/line-endings-or-padding"
			for i := range r1 {
				if r1[i] != r2[i] {
					kind := "filler"
					if i < len(orig) {
						kind = orig[i].kind
					}
					core = "rewrite-differs/" + kind + "/" + mbWord(r1[i])
					obs, req = r2[i], r1[i]
					break
				}
			}
		}
		out = append(out, finding{core, "the second write does not reproduce the first text byte for byte", obs, req})
	}
	return out
}

func describeNoID(f *ach.File) string {
	d := gen.Describe(f)
	if i := strings.Index(d, " "); i >= 0 {
		d = d[i+1:]
	}
	return d
}

// checkFile runs one valid file through writer line endings x layouts.
// prefix is "roundtrip" (constructor-built files) or "fixed-point" (files the
// Reader produced); tag goes into the histogram class.
func checkFile(f *ach.File, prefix, tag string, les, layouts []string, r *gen.Rand, extra map[string]any, res *result) {
	defer func() {
		if p := recover(); p != nil {
			// String(), Validate() ... of the library panicked on a valid file
			res.fails = append(res.fails, failure{"C01/" + prefix + "/panic/" + msgClass(fmt.Errorf("%v", p)), "the library panicked while a valid file was rendered, written or read back",
				map[string]any{"describe": gen.Describe(f), "extra": extra}, fmt.Sprint(p), "no panic"})
		}
	}()
	orig := flatten(f)
	emptyTime := f.Header.FileCreationTime == ""
	desc := describeNoID(f)
	ranLF := false
	var input map[string]any
	mkInput := func(le, lay string, text []byte) map[string]any {
		if input == nil {
			input = FileInput(f)
			for k, v := range extra {
				input[k] = v
			}
		}
		m := map[string]any{}
		for k, v := range input {
			m[k] = v
		}
		m["writer_line_ending"] = leName(le)
		m["layout"] = lay
		if text != nil {
			m["text_read"] = clipText(text)
		}
		return m
	}
	base := map[string]bool{} // cores already reported for an identity layout
	for li, le := range les {
		canon, err := writeFile(f, le)
		if err != nil {
			cls, _ := errClass(err)
			res.cases = append(res.cases, caseRec{tag + "|write|" + leName(le) + "|" + desc, tag + "/write-error", true})
			res.fails = append(res.fails, failure{"C01/" + prefix + "/write-error/" + cls, "a valid file cannot be written", mkInput(le, "", nil), err.Error(), "nil"})
			continue
		}
		recs := splitRecords(canon, le)
		wide := false
		for i, x := range recs {
			if n := utf8.RuneCountInString(x); n != 94 {
				kind := "record"
				if i < len(orig) {
					kind = orig[i].kind
				}
				core := "written-record-not-94-columns/" + kind
				if !base[core] {
					base[core] = true
					res.fails = append(res.fails, failure{"C01/" + prefix + "/" + core, "the writer emitted a record that is not 94 columns wide, which cannot be read back",
						mkInput(le, "", canon), fmt.Sprintf("%d columns: %q", n, x), "94 columns"})
				}
				wide = true
				break
			}
		}
		if wide {
			res.cases = append(res.cases, caseRec{tag + "|wide|" + leName(le) + "|" + desc, tag + "/written-record-not-94-columns", true})
			continue
		}
		identity := leName(le)
		if le == lf {
			ranLF = true
		}
		order := append([]string{identity}, layouts...)
		baseFailed := false
		done := map[string]bool{}
		for _, lay := range order {
			if done[lay] {
				continue
			}
			done[lay] = true
			class := fmt.Sprintf("%s/layout=%s/writer=%s", tag, lay, leName(le))
			if baseFailed {
				res.cases = append(res.cases, caseRec{"", tag + "/layout-skipped-because-plain-roundtrip-fails", false})
				continue
			}
			lr := r.Fork(uint64(li*100 + len(lay)*7 + int(lay[0])))
			text, changed := layout(lay, recs, le, lr)
			res.cases = append(res.cases, caseRec{lay + "|" + leName(le) + "|" + desc, class, changed || lay == identity})
			fs := roundTrip(orig, emptyTime, lay == identity, text, canon, le)
			for _, fd := range fs {
				sig := ""
				switch {
				case strings.HasPrefix(fd.core, "first-multibyte-after-1024-bytes/"):
					if base[fd.core] {
						continue
					}
					base[fd.core] = true
					sig = "C01/" + prefix + "/" + fd.core
				case lay == identity && (le == lf || !ranLF):
					base[fd.core] = true
					sig = "C01/" + prefix + "/" + fd.core
				case lay == identity:
					if base[fd.core] {
						continue
					}
					base[fd.core] = true
					sig = "C01/" + prefix + "-crlf-writer-only/" + fd.core
				default:
					if base[fd.core] {
						continue
					}
					sig = "C01/" + prefix + "/layout-" + lay + "/" + fd.core
				}
				res.fails = append(res.fails, failure{sig, fd.what, mkInput(le, lay, text), fd.observed, fd.required})
			}
			if lay == identity {
				for _, fd := range fs {
					if !strings.HasSuffix(fd.core, "/empty-rendered-as-current-time") {
						baseFailed = true
					}
				}
			}
		}
	}
}

func parallel(n int, fn func(i int) *result) []*result {
	out := make([]*result, n)
	var wg sync.WaitGroup
	ch := make(chan int)
	for w := 0; w < runtime.GOMAXPROCS(0); w++ {
		wg.Add(1)
		go func() {
			defer wg.Done()
			for i := range ch {
				func() {
					defer func() {
						if p := recover(); p != nil {
							out[i] = &result{fails: []failure{{"C01/oracle-panic", "panic while evaluating a case", map[string]any{"index": i}, fmt.Sprint(p), "no panic"}}}
						}
					}()
					out[i] = fn(i)
				}()
			}
		}()
	}
	for i := 0; i < n; i++ {
		ch <- i
	}
	close(ch)
	wg.Wait()
	return out
}

func replay(t *T, rs []*result) {
	for _, res := range rs {
		if res == nil {
			continue
		}
		for _, c := range res.cases {
			t.Case(c.key, c.class, c.nontrivial)
		}
		for _, f := range res.fails {
			t.Fail(f.sig, f.what, f.input, f.observed, f.required)
		}
	}
}

// optsFor cycles through the generator configurations of part A.
func optsFor(i int) (gen.Opts, string) {
	secs := gen.AllSECs()
	o := gen.Opts{IATCorrections: true, Categories: gen.AllCategories(), Offset: true, PresetTraces: true}
	j := i / 8
	switch i % 8 {
	case 0:
		return o, "ascii"
	case 1:
		o.NonASCII = true
		return o, "latin1"
	case 2:
		o.FullWidth = true
		return o, "fullwidth"
	case 3:
		o.NonASCII, o.FullWidth = true, true
		return o, "latin1+fullwidth"
	case 4:
		o.SECs = []string{secs[j%len(secs)]}
		o.NonASCII = (j/len(secs))%2 == 1
		o.MaxBatches = 2
		return o, "one-sec"
	case 5:
		o.NonASCII, o.Risky = true, true
		o.FullWidth = j%2 == 1
		if j%3 == 0 {
			o.SECs = []string{"COR", "IAT", "PPD"} // where the risky shapes live
		}
		return o, "latin1+risky"
	case 6:
		o.MaxBatches, o.MaxEntries, o.MaxAddenda = 5, 10, 5
		o.NonASCII = j%2 == 1
		return o, "large"
	default:
		o.SECs = []string{secs[(j+11)%len(secs)]}
		o.FullWidth = true
		o.NonASCII = j%3 == 0
		return o, "one-sec+fullwidth"
	}
}

func init() {
	Register("C01", &Oracle{
		Rule: "part A: generator files (cycling: all SECs / each single SEC incl. IAT and ADV; all categories; ASCII, Latin-1, full-width, Latin-1+risky shapes, large files; " +
			"1/32 with empty FileCreationTime) x writer line ending LF/CRLF x 15 layouts (lf, crlf, cr, stream, trimmed, blank-lines, blank-lines-spaces, no-filler, extra-filler, and the combinations trimmed x {cr,crlf,lf}, mixed endings per record, trimmed + mixed endings, no-filler + trimmed + cr): " +
			"write, re-lay-out, read, compare tree shape and every record's String(), write again, compare bytes with the first text. " +
			"part A2: CTX files holding an entry with 1000..1400 Addenda05 records (four-digit addenda sequence numbers; quick 2, thorough 8 files) through the same check under two layouts. " +
			"part B (fixed point): every corpus text and lightly mutated corpus/generator texts that the Reader accepts and that validate are put through the same check. " +
			"distinct = distinct (layout, writer line ending, file description without id); non-trivial = the layout changed the text (identity layouts always count) / the Reader accepted the text and the file validates",
		Run: run,
	})
}

func run(t *T) {
	// ---- part A --------------------------------------------------------------
	nA := t.Budget(1200)
	rsA := make([]*gen.Rand, nA)
	for i := range rsA {
		rsA[i] = t.R.Fork(uint64(i))
	}
	replay(t, parallel(nA, func(i int) *result {
		res := &result{}
		r := rsA[i]
		o, tag := optsFor(i)
		f, err := safeGen(r, o)
		if err != nil {
			res.cases = append(res.cases, caseRec{"", "gen/" + tag + "/generator-error", false})
			if !o.Risky {
				res.fails = append(res.fails, failure{"C01/generator", "generator failed", map[string]any{"opts": fmt.Sprintf("%+v", o)}, err.Error(), "a valid file"})
			}
			return res
		}
		if i%32 == 31 {
			f.Header.FileCreationTime = "" // still valid: only the creation date is mandatory
			tag += "+empty-time"
		}
		checkFile(f, "roundtrip", "gen", []string{lf, crlf}, allLayouts, r.Fork(7), map[string]any{"generator": tag}, res)
		return res
	}))

	// ---- part A2: entries with 1000+ Addenda05 records (four-digit sequence numbers; CTX/TRX/ENR allow 9999) ----
	nWide := 2
	if t.Tier == "thorough" {
		nWide = 8
	}
	rw := t.R.Fork(0xA2)
	rsW := make([]*gen.Rand, nWide)
	for i := range rsW {
		rsW[i] = rw.Fork(uint64(i))
	}
	replay(t, parallel(nWide, func(i int) *result {
		res := &result{}
		r := rsW[i]
		o := gen.Opts{SECs: []string{"CTX"}, MaxBatches: 1, MaxEntries: 2, MaxAddenda: 1400}
		var f *ach.File
		most := 0
		for try := 0; try < 40 && most < 1000; try++ {
			g, err := safeGen(r.Fork(uint64(100+try)), o)
			if err != nil {
				continue
			}
			m := 0
			for _, b := range g.Batches {
				for _, e := range b.GetEntries() {
					if len(e.Addenda05) > m {
						m = len(e.Addenda05)
					}
				}
			}
			if m > most {
				f, most = g, m
			}
		}
		if f == nil || most < 1000 {
			res.cases = append(res.cases, caseRec{"", "gen/many-addenda/none-drawn", false})
			return res
		}
		checkFile(f, "roundtrip", "gen", []string{lf, crlf}, allLayouts[:2], r.Fork(7), map[string]any{"generator": fmt.Sprintf("many-addenda (%d on one entry)", most)}, res)
		return res
	}))

	// ---- part B: fixed point over texts the Reader accepts --------------------
	corpus := gen.CorpusTexts()
	var paths []string
	for p := range corpus {
		paths = append(paths, p)
	}
	sort.Strings(paths)
	type baseText struct {
		name string
		text []byte
	}
	var bases []baseText
	for _, p := range paths {
		bases = append(bases, baseText{strings.TrimPrefix(p, gen.RepoRoot+"/"), corpus[p]})
	}
	nCorpus := len(bases)
	// generator texts as further mutation bases
	nGenBase := 60
	rb := t.R.Fork(0xB0)
	for i := 0; i < nGenBase; i++ {
		o, tag := optsFor(i)
		o.Risky = false
		r := rb.Fork(uint64(i))
		f, err := gen.File(r, o)
		if err != nil {
			continue
		}
		le := lf
		if i%3 == 2 {
			le = crlf
		}
		txt, err := writeFile(f, le)
		if err != nil {
			continue
		}
		if i%2 == 1 {
			txt, _ = layout(allLayouts[(i/2)%len(allLayouts)], splitRecords(txt, le), le, r.Fork(3))
		}
		bases = append(bases, baseText{fmt.Sprintf("gen[%d]/%s", i, tag), txt})
	}
	nMut := t.Budget(4000)
	nB := nCorpus + nMut
	rsB := make([]*gen.Rand, nB)
	rm := t.R.Fork(0xB1)
	for i := range rsB {
		rsB[i] = rm.Fork(uint64(i))
	}
	replay(t, parallel(nB, func(i int) *result {
		res := &result{}
		r := rsB[i]
		var b baseText
		src, ops := "corpus", ""
		text := []byte(nil)
		if i < nCorpus {
			b = bases[i]
			text = b.text
		} else {
			b = bases[r.Intn(len(bases))]
			text, ops = mutate(r, b.text)
			src = "mutated-corpus"
			if strings.HasPrefix(b.name, "gen[") {
				src = "mutated-generator"
			}
		}
		key := b.name + "|" + ops
		f1, err := readText(text)
		if err != nil {
			res.cases = append(res.cases, caseRec{key, "fixed-point/" + src + "/reader-rejects", false})
			return res
		}
		if verr := validate(f1); verr != nil {
			res.cases = append(res.cases, caseRec{key, "fixed-point/" + src + "/read-but-invalid", false})
			return res
		}
		layouts := allLayouts
		les := []string{lf, crlf}
		if i >= nCorpus {
			layouts = []string{allLayouts[r.Intn(len(allLayouts))]}
			les = []string{gen.Pick(r, []string{lf, crlf})}
		}
		sub := &result{}
		checkFile(f1, "fixed-point", "fixed-point/"+src, les, layouts, r.Fork(9), map[string]any{"source": b.name, "mutations": ops, "text_first_read": clipText(text)}, sub)
		for _, c := range sub.cases {
			if c.key != "" {
				c.key = key + "|" + c.key
			}
			res.cases = append(res.cases, c)
		}
		res.fails = append(res.fails, sub.fails...)
		return res
	}))
}

func validate(f *ach.File) (err error) {
	defer func() {
		if p := recover(); p != nil {
			err = fmt.Errorf("PANIC in Validate: %v", p)
		}
	}()
	return f.Validate()
}

func safeGen(r *gen.Rand, o gen.Opts) (f *ach.File, err error) {
	defer func() {
		if p := recover(); p != nil {
			err = fmt.Errorf("PANIC while building a file through the public constructors: %v", p)
		}
	}()
	return gen.File(r, o)
}
