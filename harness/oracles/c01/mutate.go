package c01

import (
	"fmt"
	"strings"
	"unicode"

	"verif/harness/gen"
)

var (
	alnum  = []rune("ABCDEFGHIJKLMNOPQRSTUVWXYZabcdefghijklmnopqrstuvwxyz0123456789")
	punct  = []rune(" .,-#&/'()+:*$%@!?;=_<>[]{}|~^`\"\\")
	latin1 = func() []rune {
		out := []rune{0xA0, 0xA2, 0xAC, 0xA6, 0xB1, 0xA9, 0xB5, 0xD7, 0xF7}
		for c := rune(0xC0); c <= 0xFF; c++ {
			out = append(out, c)
		}
		return out
	}()
)

// mutate applies 1..3 light mutations to a text.  The description lists them
// so that equal descriptions on equal bases are equal inputs.
func mutate(r *gen.Rand, text []byte) ([]byte, string) {
	rs := []rune(string(text))
	var ops []string
	// positions that are not line terminators, split by what is there now
	var textPos, digitPos, anyPos []int
	for i, c := range rs {
		if c == '\n' || c == '\r' {
			continue
		}
		anyPos = append(anyPos, i)
		if unicode.IsDigit(c) {
			digitPos = append(digitPos, i)
		} else {
			textPos = append(textPos, i)
		}
	}
	if len(anyPos) == 0 {
		return text, "empty"
	}
	pick := func(ps []int) int {
		if len(ps) == 0 {
			ps = anyPos
		}
		return ps[r.Intn(len(ps))]
	}
	rawBytes := map[int]byte{} // rune index -> single raw byte (not UTF-8)
	n := r.Range(1, 3)
	for k := 0; k < n; k++ {
		switch op := r.Intn(16); op {
		case 0, 1: // another letter/digit/punctuation where text is
			p := pick(textPos)
			c := gen.Pick(r, alnum)
			if r.Chance(1, 3) {
				c = gen.Pick(r, punct)
			}
			ops = append(ops, fmt.Sprintf("set@%d=%q", p, c))
			rs[p] = c
		case 2: // anything anywhere
			p := pick(anyPos)
			c := gen.Pick(r, alnum)
			ops = append(ops, fmt.Sprintf("set@%d=%q", p, c))
			rs[p] = c
		case 3: // Latin-1 character (UTF-8)
			p := pick(textPos)
			c := gen.Pick(r, latin1)
			ops = append(ops, fmt.Sprintf("set@%d=%q", p, c))
			rs[p] = c
		case 4: // a raw windows-1252 byte
			p := pick(textPos)
			b := byte(0xA0 + r.Intn(0x60))
			ops = append(ops, fmt.Sprintf("raw@%d=%#x", p, b))
			rawBytes[p] = b
		case 5: // flip case
			p := pick(textPos)
			c := rs[p]
			if unicode.IsUpper(c) {
				c = unicode.ToLower(c)
			} else {
				c = unicode.ToUpper(c)
			}
			ops = append(ops, fmt.Sprintf("case@%d", p))
			rs[p] = c
		case 6: // swap neighbours
			p := pick(anyPos)
			if p+1 < len(rs) && rs[p+1] != '\n' && rs[p+1] != '\r' {
				rs[p], rs[p+1] = rs[p+1], rs[p]
				ops = append(ops, fmt.Sprintf("swap@%d", p))
			}
		case 7: // blank out a short run
			p := pick(textPos)
			m := r.Range(1, 6)
			for q := p; q < p+m && q < len(rs) && rs[q] != '\n' && rs[q] != '\r'; q++ {
				rs[q] = ' '
			}
			ops = append(ops, fmt.Sprintf("blank@%d+%d", p, m))
		case 8: // a blank becomes a no-break space or a tab
			var sp []int
			for _, p := range textPos {
				if rs[p] == ' ' {
					sp = append(sp, p)
				}
			}
			p := pick(sp)
			c := gen.Pick(r, []rune{0xA0, '\t', 0x2003})
			ops = append(ops, fmt.Sprintf("space@%d=%U", p, c))
			rs[p] = c
		case 9, 10: // digit to another digit (dates, account numbers, identifiers survive)
			p := pick(digitPos)
			c := rune('0' + r.Intn(10))
			ops = append(ops, fmt.Sprintf("digit@%d=%c", p, c))
			rs[p] = c
		case 11: // zero out / blank a digit run start (leading zeros, blank numerics)
			p := pick(digitPos)
			c := gen.Pick(r, []rune{' ', '0'})
			ops = append(ops, fmt.Sprintf("digit@%d=%q", p, c))
			rs[p] = c
		case 12: // line terminators
			s := string(rs)
			switch r.Intn(4) {
			case 0:
				s = strings.ReplaceAll(strings.ReplaceAll(s, "\r\n", "\n"), "\n", "\r\n")
				ops = append(ops, "eol=crlf")
			case 1:
				s = strings.ReplaceAll(strings.ReplaceAll(s, "\r\n", "\n"), "\n", "\r")
				ops = append(ops, "eol=cr")
			case 2:
				s = strings.TrimRight(s, "\r\n")
				ops = append(ops, "eol=no-final")
			case 3:
				s += "\n \n\n"
				ops = append(ops, "eol=trailing-blank-lines")
			}
			if len(rawBytes) == 0 {
				rs = []rune(s)
				// positions shifted: stop mutating by index
				return []byte(string(rs)), strings.Join(ops, ";")
			}
		case 14, 15: // a sign in front of a zero-padded number
			var zs []int
			for _, p := range digitPos {
				if rs[p] == '0' && p+1 < len(rs) && unicode.IsDigit(rs[p+1]) {
					zs = append(zs, p)
				}
			}
			p := pick(zs)
			c := gen.Pick(r, []rune{'-', '-', '+'})
			ops = append(ops, fmt.Sprintf("sign@%d=%c", p, c))
			rs[p] = c
		case 13: // letter where a digit was (numeric fields parsed leniently)
			p := pick(digitPos)
			c := gen.Pick(r, []rune("AZ -+.x"))
			ops = append(ops, fmt.Sprintf("digit@%d=%q", p, c))
			rs[p] = c
		}
	}
	if len(rawBytes) == 0 {
		return []byte(string(rs)), strings.Join(ops, ";")
	}
	var out []byte
	for i, c := range rs {
		if b, ok := rawBytes[i]; ok {
			out = append(out, b)
			continue
		}
		out = append(out, string(c)...)
	}
	return out, strings.Join(ops, ";")
}
