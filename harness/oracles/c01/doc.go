// Package c01 holds the oracle for property C01.
package c01
