// Package c20 holds the oracle for property C20.
package c20
