package c20

import (
	"bytes"
	"os"
	"os/exec"
	"path/filepath"
	"strings"

	"github.com/moov-io/ach"
	"verif/harness/gen"
	. "verif/harness/oracle"
)

// cli runs the real `achcli` binary (VERIF_ACHCLI) with every combination of the four mask flags on a COR file and a PPD
// file whose protected fields are long unique markers: with a field's mask enabled the marker must not be printed.
func cli(t *T) {
	bin := os.Getenv("VERIF_ACHCLI")
	if bin == "" {
		return
	}
	if _, err := os.Stat(bin); err != nil {
		return
	}
	dir, err := os.MkdirTemp("", "c20cli")
	if err != nil {
		return
	}
	defer os.RemoveAll(dir)
	type sample struct {
		path, account, name, corrected string
	}
	var samples []sample
	for i, sec := range []string{"PPD", "COR"} {
		r := t.R.Fork(uint64(800000 + i))
		o := gen.Opts{SECs: []string{sec}, MaxBatches: 1, MaxEntries: 1, MaxAddenda: -1}
		if sec == "COR" {
			o.Categories = []string{"NOC"}
		}
		f, err := gen.File(r, o)
		if err != nil || len(f.Batches) == 0 || len(f.Batches[0].GetEntries()) == 0 {
			continue
		}
		e := f.Batches[0].GetEntries()[0]
		s := sample{account: "77K31Q58Z4096", name: "QWERTYUIOP ASDFGHJKL"}
		e.DFIAccountNumber = s.account
		e.IndividualName = s.name
		if e.Addenda98 != nil {
			s.corrected = "55501234567890"
			e.Addenda98.CorrectedData = s.corrected
		}
		var buf bytes.Buffer
		w := ach.NewWriter(&buf)
		w.BypassValidation = true
		if w.Write(f) != nil {
			continue
		}
		s.path = filepath.Join(dir, sec+".ach")
		if os.WriteFile(s.path, buf.Bytes(), 0o644) != nil {
			continue
		}
		samples = append(samples, s)
	}
	for _, s := range samples {
		for m := 0; m < 16; m++ {
			mask, acc, names, corr := m&1 != 0, m&2 != 0, m&4 != 0, m&8 != 0
			var args []string
			if mask {
				args = append(args, "-mask")
			}
			if acc {
				args = append(args, "-mask.accounts")
			}
			if names {
				args = append(args, "-mask.names")
			}
			if corr {
				args = append(args, "-mask.corrections")
			}
			args = append(args, "-skip-validation", s.path)
			out, err := exec.Command(bin, args...).CombinedOutput()
			key := strings.Join(args[:len(args)-1], " ")
			t.Case(filepath.Base(s.path)+" "+key, "cli/flags", true)
			if err != nil {
				continue
			}
			text := string(out)
			if (mask || acc) && strings.Contains(text, s.account) {
				t.Fail("C20/cli/account-number-shown/flags="+flagKey(mask, acc, names, corr), "achcli prints a complete account number although account masking is enabled", strings.Join(args, " "), clipOut(text), "no complete account number")
			}
			if (mask || names) && strings.Contains(text, "QWERTYUIOP") {
				t.Fail("C20/cli/name-shown/flags="+flagKey(mask, acc, names, corr), "achcli prints a complete name word although name masking is enabled", strings.Join(args, " "), clipOut(text), "no complete word of four or more characters")
			}
			if s.corrected != "" && (mask || corr) && strings.Contains(text, s.corrected) {
				t.Fail("C20/cli/corrected-data-shown/flags="+flagKey(mask, acc, names, corr), "achcli prints the complete corrected data although corrected-data masking is enabled", strings.Join(args, " "), clipOut(text), "no complete corrected data")
			}
		}
	}
}

func flagKey(mask, acc, names, corr bool) string {
	var ks []string
	for _, p := range []struct {
		on bool
		n  string
	}{{mask, "mask"}, {acc, "accounts"}, {names, "names"}, {corr, "corrections"}} {
		if p.on {
			ks = append(ks, p.n)
		}
	}
	return strings.Join(ks, "+")
}

func clipOut(s string) string {
	if len(s) > 1500 {
		return s[:1500]
	}
	return s
}
