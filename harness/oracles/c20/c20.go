package c20

import (
	"bytes"
	"fmt"
	"strings"
	"unicode/utf8"

	"github.com/moov-io/ach"
	"github.com/moov-io/ach/cmd/achcli/describe"
	"verif/harness/gen"
	. "verif/harness/oracle"
)

func init() {
	Register("C20", &Oracle{
		Rule: "(A) describe.VerifMaskNumber / VerifMaskName on every string of length 0..7 (thorough: 0..8) over {'1','a',' ','é','*','-'} and on random strings up to 35 characters over printable ASCII + Latin-1 letters. " +
			"(B) generator files of every SEC except ADV (ADV entries are not described), incl. IAT (account number, sometimes with an Addenda98), COR (Addenda98 CorrectedData), ENR and DNE (well-formed payment information whose components use disjoint alphabets); " +
			"every protected field is overwritten after Create by a random marker whose (length 1..field width, style) is enumerated systematically per kind of field: styles digits / alphanumeric / embedded blanks / 1, 2, 3 leading blanks / Latin-1 multi-byte / trailing blanks / punctuation " +
			"(no '*' in file-level markers, ENR names ASCII); describe.File is run with all 8 combinations of MaskAccountNumbers/MaskNames/MaskCorrectedData (all three = the CLI's -mask). " +
			"The cell of each protected field is located by the column offsets of its header row. Number: the cell must not contain the value (outer blanks trimmed), may show at most 4 characters, all taken from the last four non-blank ones; " +
			"name: no complete word of >=3 characters, visible runs of at most two characters that begin a word; markers of >=6 characters that occur exactly once in the unmasked output must occur nowhere in the masked output. " +
			"Blanks are not counted as characters. The DNE SSN is checked under MaskAccountNumbers only. distinct = (SEC, markers, flags); non-trivial = at least one protected field under an enabled mask.",
		Run: func(t *T) {
			direct(t)
			files(t)
			cli(t)
		},
	})
}

// ---------- (A) the two mask functions directly ----------

func callMask(f func(string) string, s string) (out string, panicked bool) {
	defer func() {
		if r := recover(); r != nil {
			out, panicked = fmt.Sprint(r), true
		}
	}()
	return f(s), false
}

func directOne(t *T, s, class string) {
	t.Case("direct "+fmt.Sprintf("%q", s), class, strings.Trim(s, " ") != "")
	stars := strings.Contains(s, "*")
	if out, p := callMask(describe.VerifMaskNumber, s); p {
		t.Fail("C20/maskNumber/panic", "maskNumber panicked", s, out, "a masked string")
	} else {
		var f *finding
		if stars {
			f = checkNumberStars(out, s)
		} else {
			f = checkNumber(out, s, nil)
		}
		if f != nil {
			t.Fail("C20/maskNumber/"+f.check+"/"+f.shape, "maskNumber("+fmt.Sprintf("%q", s)+")", map[string]any{"value": s, "bytes": fmt.Sprintf("% x", s)}, fmt.Sprintf("%q", out), f.required)
		}
	}
	if out, p := callMask(describe.VerifMaskName, s); p {
		t.Fail("C20/maskName/panic", "maskName panicked", s, out, "a masked string")
	} else {
		var f *finding
		if stars {
			f = checkNameStars(out, s)
		} else {
			f = checkName(out, s)
		}
		if f != nil {
			t.Fail("C20/maskName/"+f.check+"/"+f.shape, "maskName("+fmt.Sprintf("%q", s)+")", map[string]any{"value": s, "bytes": fmt.Sprintf("% x", s)}, fmt.Sprintf("%q", out), f.required)
		}
	}
}

func direct(t *T) {
	alpha := []string{"1", "a", " ", "é", "*", "-"}
	maxLen := 7
	if t.Tier == "thorough" {
		maxLen = 8
	}
	var rec func(prefix string, n int)
	rec = func(prefix string, n int) {
		directOne(t, prefix, fmt.Sprintf("direct-exhaustive len=%d", n))
		if n == maxLen {
			return
		}
		for _, a := range alpha {
			rec(prefix+a, n+1)
		}
	}
	rec("", 0)

	r := t.R.Fork(0xD1)
	var pool []rune
	for c := rune(0x20); c <= 0x7E; c++ {
		pool = append(pool, c)
	}
	for c := rune(0xC0); c <= 0xFF; c++ {
		pool = append(pool, c)
	}
	n := t.Budget(50000)
	for i := 0; i < n; i++ {
		l := r.Range(1, 35)
		rs := make([]rune, l)
		blankish := r.Intn(4) // share of blanks
		ascii := r.Chance(1, 3)
		for k := range rs {
			switch {
			case r.Intn(8) < blankish:
				rs[k] = ' '
			case ascii:
				rs[k] = pool[r.Intn(0x7F-0x20)]
			default:
				rs[k] = pool[r.Intn(len(pool))]
			}
		}
		if r.Chance(1, 4) {
			for k := 0; k < r.Range(1, 3) && k < l; k++ {
				rs[k] = ' '
			}
		}
		directOne(t, string(rs), "direct-random")
	}
}

// ---------- (B) describe.File on files with planted markers ----------

const (
	clsAccount = iota
	clsName
	clsCorrected
)

var clsFlag = [3]string{"MaskAccountNumbers", "MaskNames", "MaskCorrectedData"}

const (
	rowEntry = iota // header starts with TransactionCode
	rowA05          // header starts with PaymentRelatedInformation
	rowA98          // header starts with ChangeCode
)

// planted is one protected value put into a file.
type planted struct {
	site   string // kind of field, part of the signature
	cls    int
	value  string
	row    int    // kind of row that prints it
	idx    int    // index among rows of that kind
	column string // header of its column
	keep   keepFn // which bytes of the cell belong to this value (nil: all but '*' and blank)
	isName bool
	// between: the value is what stands between these two literals of the cell (used when the value's alphabet
	// overlaps the rest of the cell, so that `keep` cannot tell it apart)
	between [2]string
}

// alphabets
const (
	digits = "0123456789"
	upper  = "ABCDEFGHIJKLMNOPQRSTUVWXYZ"
	lower  = "abcdefghijklmnopqrstuvwxyz"
	punct  = "-.,#/&'()+:;=?@_"
)

var latin = []rune("ÀÁÂÃÄÅÆÇÈÉÊËÌÍÎÏÐÑÒÓÔÕÖØÙÚÛÜÝÞßàáâãäåæçèéêëìíîïðñòóôõöøùúûüýþÿ")

type alphabet struct {
	digits, letters, punct string
	latin                  []rune
}

var (
	alphaGeneral = alphabet{digits, upper + lower, punct, latin}
	// ENR payment information "22*12200004*3*<account>*<identification>*<surname>*<first>*<code>\": the fixed parts use 0-4, A, B
	alphaENRAcct  = alphabet{"56", "CDEFGH", "-.", []rune("éèê")}
	alphaENRIdent = alphabet{"789", "JKLMN", "#/", []rune("üûù")}
	alphaSurname  = alphabet{"", "acdefghijklm", "", nil} // no 'b': the classification code may be "b"
	alphaFirst    = alphabet{"", "nopqrstuvwxyz", "", nil}
	// DNE "DATE OF DEATH*010100*CUSTOMER SSN*<ssn>*AMOUNT*1.00\"
	alphaSSN = alphabet{"23456789", "BGIJKLPQVWXYZ" + lower, "-#/", latin}
)

func (a alphabet) keep() keepFn {
	set := map[byte]bool{}
	for _, s := range []string{a.digits, a.letters, a.punct, string(a.latin)} {
		for i := 0; i < len(s); i++ {
			if s[i] < 0xC0 { // lead bytes are shared between alphabets
				set[s[i]] = true
			}
		}
	}
	return func(b byte) bool { return set[b] }
}

const nNumStyles = 9

var numStyleName = [nNumStyles]string{"digits", "alnum", "embedded-blanks", "lead1", "lead2", "lead3", "multibyte", "trailing-blanks", "punct"}

func pickRune(r *gen.Rand, s string) rune { rs := []rune(s); return rs[r.Intn(len(rs))] }

// numMarker builds a number marker of exactly l runes.
func numMarker(r *gen.Rand, l, style int, a alphabet) string {
	body := a.digits + a.letters
	if style == 0 && a.digits != "" {
		body = a.digits
	}
	if style == 8 && a.punct != "" {
		body += a.punct + a.punct
	}
	rs := make([]rune, l)
	for i := range rs {
		rs[i] = pickRune(r, body)
	}
	switch style {
	case 2:
		if l >= 3 {
			for k := 0; k < 1+l/6; k++ {
				rs[r.Range(1, l-2)] = ' '
			}
		}
	case 3, 4, 5:
		n := style - 2
		for i := 0; i < n && i < l-1; i++ {
			rs[i] = ' '
		}
	case 6:
		if len(a.latin) > 0 {
			for k := 0; k < 1+l/5; k++ {
				rs[r.Intn(l)] = a.latin[r.Intn(len(a.latin))]
			}
		}
	case 7:
		for i := 0; i < r.Range(1, 2) && i < l-1; i++ {
			rs[l-1-i] = ' '
		}
	}
	return string(rs)
}

const nNameStyles = 7

// nameMarker builds a name of at most l runes (exactly l unless blanks are trimmed by construction).
func nameMarker(r *gen.Rand, l, style int, a alphabet) string {
	rs := make([]rune, l)
	for i := range rs {
		rs[i] = pickRune(r, a.letters)
	}
	blankAt := func(i int) {
		if i >= 0 && i < l {
			rs[i] = ' '
		}
	}
	switch style {
	case 0: // one word
	case 1: // two words
		if l >= 3 {
			blankAt(r.Range(1, l-2))
		}
	case 2: // many words
		for i := r.Range(1, 5); i < l-1; i += r.Range(2, 7) {
			blankAt(i)
		}
	case 3: // leading blanks
		blankAt(0)
		if l > 4 {
			blankAt(1)
		}
		if l >= 8 {
			blankAt(l / 2)
		}
	case 4: // multi-byte
		if len(a.latin) > 0 {
			for k := 0; k < 1+l/4; k++ {
				rs[r.Intn(l)] = a.latin[r.Intn(len(a.latin))]
			}
		}
		if l >= 6 {
			blankAt(r.Range(1, l-2))
		}
	case 5: // short words between long ones
		for i := 3; i < l-1; i += 4 + (i % 3) {
			blankAt(i)
		}
	case 6: // digits and punctuation inside
		for k := 0; k < 1+l/5; k++ {
			rs[r.Intn(l)] = pickRune(r, digits+"-'.")
		}
		if l >= 7 {
			blankAt(r.Range(2, l-3))
		}
	}
	return string(rs)
}

// counters enumerate (length, style) per site systematically.
type counters map[string]int

func (c counters) next(site string, width, styles int) (l, style int) {
	n := c[site]
	c[site] = n + 1
	// lengths from both ends inwards (1, width, 2, width-1, ...) so that the shortest and the
	// longest values of every style come first
	j := (n / styles) % width
	if j%2 == 0 {
		return 1 + j/2, n % styles
	}
	return width - j/2, n % styles
}

func secOf(i int) string {
	var others []string
	for _, s := range gen.AllSECs() {
		if s != ach.ADV {
			others = append(others, s)
		}
	}
	switch i % 4 {
	case 0:
		return ach.COR
	case 1:
		if (i/4)%2 == 0 {
			return ach.ENR
		}
		return ach.DNE
	case 2:
		return ach.IAT
	}
	return others[(i/4)%len(others)]
}

func files(t *T) {
	n := t.Budget(800)
	cnt := counters{}
	for i := 0; i < n; i++ {
		r := t.R.Fork(uint64(i))
		sec := secOf(i)
		o := gen.Opts{SECs: []string{sec}, MaxBatches: 2, MaxEntries: 4}
		switch {
		case sec == ach.COR:
			o.Categories = []string{ach.CategoryNOC}
			o.MaxEntries = 6
		case sec == ach.ENR || sec == ach.DNE:
			if (i/8)%2 == 1 {
				// the ENR / DNE batch among batches of other classes, at any index of the file
				o.SECs = []string{sec, ach.PPD, ach.CTX, gen.Pick(r, []string{ach.ENR, ach.DNE, ach.CCD})}
				o.MinBatches, o.MaxBatches = 2, 5
			}
		case sec == ach.IAT:
		case i%3 == 0:
			o.Categories = []string{ach.CategoryForward, ach.CategoryReturn}
		}
		f, err := gen.File(r, o)
		if err != nil {
			t.Fail("C20/generator", "generator failed", map[string]any{"sec": sec}, err.Error(), "a valid file")
			continue
		}
		ps := plant(r, f, cnt)
		pretty := r.Bool()
		var plain string
		for combo := 0; combo < 8; combo++ {
			opts := &describe.Opts{MaskAccountNumbers: combo&1 != 0, MaskNames: combo&2 != 0, MaskCorrectedData: combo&4 != 0, PrettyAmounts: pretty}
			out, panicked := runDescribe(f, opts)
			if combo == 0 {
				plain = out
			}
			key := fmt.Sprintf("%s flags=%d %s", sec, combo, markerKey(ps))
			if panicked {
				// a crash of the printer is not a disclosure; the case is counted, not failed
				t.Case(key, "describe-panicked "+sec, false)
				continue
			}
			enabled := [3]bool{opts.MaskAccountNumbers, opts.MaskNames, opts.MaskCorrectedData}
			checked := 0
			rows := locateRows(out)
			for _, p := range ps {
				if !enabled[p.cls] {
					continue
				}
				checked++
				checkPlanted(t, f, p, rows, out, plain, combo)
			}
			t.Case(key, fmt.Sprintf("file %s flags=%d%d%d", sec, combo&1, combo>>1&1, combo>>2&1), checked > 0)
		}
	}
	// coverage of the (length, style) enumeration per site
	for site, c := range cnt {
		t.Case("coverage "+site, fmt.Sprintf("planted %s x%d", site, c), false)
	}
}

func markerKey(ps []planted) string {
	var sb strings.Builder
	for _, p := range ps {
		fmt.Fprintf(&sb, "%s=%q ", p.site, p.value)
	}
	return sb.String()
}

func runDescribe(f *ach.File, opts *describe.Opts) (out string, panicked bool) {
	var buf bytes.Buffer
	defer func() {
		if r := recover(); r != nil {
			out, panicked = fmt.Sprint(r), true
		}
	}()
	describe.File(&buf, f, opts)
	return buf.String(), false
}

// plant overwrites every protected field of the file with a marker.
func plant(r *gen.Rand, f *ach.File, cnt counters) []planted {
	var ps []planted
	entryIdx, a05Idx, a98Idx := 0, 0, 0
	for _, b := range f.Batches {
		sec := b.GetHeader().StandardEntryClassCode
		for _, e := range b.GetEntries() {
			l, st := cnt.next("entry-account-number", 17, nNumStyles)
			e.DFIAccountNumber = numMarker(r, l, st, alphaGeneral)
			ps = append(ps, planted{site: "entry-account-number", cls: clsAccount, value: e.DFIAccountNumber, row: rowEntry, idx: entryIdx, column: "AccountNumber"})
			l, st = cnt.next("entry-name", 22, nNameStyles)
			e.IndividualName = nameMarker(r, l, st, alphabet{letters: upper + lower, latin: latin})
			ps = append(ps, planted{site: "entry-name", cls: clsName, value: e.IndividualName, row: rowEntry, idx: entryIdx, column: "Name", isName: true})
			entryIdx++
			for _, a := range e.Addenda05 {
				switch sec {
				case ach.ENR:
					ps = append(ps, plantENR(r, a, cnt, a05Idx)...)
				case ach.DNE:
					if r.Chance(1, 3) {
						// an SSN value that also occurs earlier in the text (in the date of death or in a label)
						ssn := gen.Pick(r, []string{"6211", "0621", "62119", "062119", "19", "211", "DEATH", "DATE", "SSN", "OF", "CUSTOMER", "1", "0"})
						a.PaymentRelatedInformation = `DATE OF DEATH*062119*CUSTOMER SSN*` + ssn + `*AMOUNT*1.00\`
						ps = append(ps, planted{site: "dne-ssn-overlapping", cls: clsAccount, value: ssn, row: rowA05, idx: a05Idx, column: "PaymentRelatedInformation",
							between: [2]string{"CUSTOMER SSN*", "*AMOUNT*"}})
					} else {
						l, st := cnt.next("dne-ssn", 11, nNumStyles)
						ssn := numMarker(r, l, st, alphaSSN)
						a.PaymentRelatedInformation = `DATE OF DEATH*010100*CUSTOMER SSN*` + ssn + `*AMOUNT*1.00\`
						ps = append(ps, planted{site: "dne-ssn", cls: clsAccount, value: ssn, row: rowA05, idx: a05Idx, column: "PaymentRelatedInformation", keep: alphaSSN.keep()})
					}
				}
				a05Idx++
			}
			if e.Addenda98 != nil {
				l, st := cnt.next("corrected-data", 29, nNumStyles)
				e.Addenda98.CorrectedData = numMarker(r, l, st, alphaGeneral)
				ps = append(ps, planted{site: "corrected-data", cls: clsCorrected, value: e.Addenda98.CorrectedData, row: rowA98, idx: a98Idx, column: "CorrectedData"})
				a98Idx++
			}
		}
	}
	for _, b := range f.IATBatches {
		for _, e := range b.GetEntries() {
			l, st := cnt.next("iat-account-number", 35, nNumStyles)
			e.DFIAccountNumber = numMarker(r, l, st, alphaGeneral)
			ps = append(ps, planted{site: "iat-account-number", cls: clsAccount, value: e.DFIAccountNumber, row: rowEntry, idx: entryIdx, column: "AccountNumber"})
			entryIdx++
			if e.Addenda98 == nil && r.Chance(1, 3) {
				// an IAT notification of change
				a := ach.NewAddenda98()
				a.ChangeCode = "C01"
				a.OriginalTrace = "121042880000001"
				a.OriginalDFI = "12104288"
				a.TraceNumber = e.TraceNumber
				e.Addenda98 = a
			}
			if e.Addenda98 != nil {
				l, st := cnt.next("iat-corrected-data", 29, nNumStyles)
				e.Addenda98.CorrectedData = numMarker(r, l, st, alphaGeneral)
				ps = append(ps, planted{site: "iat-corrected-data", cls: clsCorrected, value: e.Addenda98.CorrectedData, row: rowA98, idx: a98Idx, column: "CorrectedData"})
				a98Idx++
			}
		}
	}
	return ps
}

func plantENR(r *gen.Rand, a *ach.Addenda05, cnt counters, a05Idx int) []planted {
	l, st := cnt.next("enr-account-number", 17, nNumStyles)
	acct := numMarker(r, l, st, alphaENRAcct)
	l, st = cnt.next("enr-identification", 9, nNumStyles)
	ident := numMarker(r, l, st, alphaENRIdent)
	n := cnt["enr-name"]
	cnt["enr-name"] = n + 1
	surname := nameMarker(r, 1+n%15, (n/15)%3, alphaSurname)
	first := nameMarker(r, 1+(n/2)%7, (n/14)%2, alphaFirst)
	// a name component must not be blank only nor start/end with the separator; blanks inside are fine
	code := []string{"A", "B", "0", "1", "b"}[n%5]
	a.PaymentRelatedInformation = fmt.Sprintf(`22*12200004*3*%s*%s*%s*%s*%s\`, acct, ident, surname, first, code)
	name := first + " " + surname
	if info, err := ach.ParseENRPaymentInformation(a); err == nil && info != nil {
		name = info.IndividualName // as the tool sees it (business names are joined differently)
	}
	lowerOnly := func(b byte) bool { return b >= 'a' && b <= 'z' && b != 'b' }
	return []planted{
		{site: "enr-account-number", cls: clsAccount, value: acct, row: rowA05, idx: a05Idx, column: "PaymentRelatedInformation", keep: alphaENRAcct.keep()},
		{site: "enr-identification", cls: clsAccount, value: ident, row: rowA05, idx: a05Idx, column: "PaymentRelatedInformation", keep: alphaENRIdent.keep()},
		{site: "enr-name", cls: clsName, value: name, row: rowA05, idx: a05Idx, column: "PaymentRelatedInformation", keep: lowerOnly, isName: true},
	}
}

// ---------- locating cells in the tabwriter output ----------

type tableRow struct {
	kind         int
	header, data string
}

func locateRows(out string) map[int][]tableRow {
	rows := map[int][]tableRow{}
	lines := strings.Split(out, "\n")
	for i := 0; i+1 < len(lines); i++ {
		h := strings.TrimLeft(lines[i], " ")
		kind := -1
		switch {
		case strings.HasPrefix(h, "TransactionCode "):
			kind = rowEntry
		case strings.HasPrefix(h, "PaymentRelatedInformation "):
			kind = rowA05
		case strings.HasPrefix(h, "ChangeCode "):
			kind = rowA98
		}
		if kind >= 0 {
			rows[kind] = append(rows[kind], tableRow{kind, lines[i], lines[i+1]})
		}
	}
	return rows
}

// cellOf cuts the cell under the header `column` out of the data line.  The
// tabwriter aligns cells by rune count (every invalid byte counts as one).
func cellOf(row tableRow, column string) (string, bool) {
	h := row.header
	start := -1
	for off := 0; ; {
		k := strings.Index(h[off:], column)
		if k < 0 {
			break
		}
		k += off
		before := k == 0 || h[k-1] == ' '
		after := k+len(column) == len(h) || h[k+len(column)] == ' '
		if before && after {
			start = k
			break
		}
		off = k + 1
	}
	if start < 0 {
		return "", false
	}
	// the next header begins after at least two blanks
	end := -1
	if k := strings.Index(h[start:], "  "); k >= 0 {
		rest := h[start+k:]
		end = start + k + (len(rest) - len(strings.TrimLeft(rest, " ")))
		if end >= len(h) {
			end = -1
		}
	}
	// header lines are ASCII, so byte offsets are rune offsets; convert to byte offsets of the data line
	d := row.data
	bs, be := -1, len(d)
	ri := 0
	for bi := 0; bi < len(d); ri++ {
		if ri == start {
			bs = bi
		}
		if ri == end {
			be = bi
			break
		}
		_, size := utf8.DecodeRuneInString(d[bi:])
		bi += size
	}
	if bs < 0 {
		return "", true // the data line ends before this column: an empty cell
	}
	return strings.TrimRight(d[bs:be], " "), true
}

func flagsOf(combo int) string {
	var on []string
	for c := 0; c < 3; c++ {
		if combo>>c&1 != 0 {
			on = append(on, clsFlag[c])
		}
	}
	return strings.Join(on, "+")
}

func checkPlanted(t *T, f *ach.File, p planted, rows map[int][]tableRow, out, plain string, combo int) {
	input := func(cell string) map[string]any {
		return map[string]any{"field": p.site, "value": p.value, "value_bytes": fmt.Sprintf("% x", p.value), "flags": flagsOf(combo), "cell": cell, "file": gen.Describe(f), "output": out}
	}
	var cell string
	located := false
	if rs := rows[p.row]; p.idx < len(rs) {
		cell, located = cellOf(rs[p.idx], p.column)
	}
	var fd *finding
	if located && p.between[0] != "" {
		// the value's own field, cut out by its neighbours; if they are gone, the value between separators
		i, j := strings.Index(cell, p.between[0]), strings.LastIndex(cell, p.between[1])
		if i >= 0 && j >= i+len(p.between[0]) {
			fd = checkNumber(cell[i+len(p.between[0]):j], p.value, nil)
		} else if strings.Contains(cell, "*"+p.value+"*") {
			fd = &finding{"complete-value-shown", numberShape(p.value), "the complete value must not appear"}
		}
		if fd != nil {
			t.Fail("C20/"+p.site+"/"+fd.check+"/"+fd.shape, "describe.File with "+flagsOf(combo)+" shows protected data of "+p.site, input(cell), fmt.Sprintf("%q", cell), fd.required)
		}
		return
	}
	if located {
		if p.isName {
			if p.keep != nil {
				fd = checkNameIn(cell, p.value, p.keep)
			} else {
				fd = checkName(cell, p.value)
			}
		} else {
			fd = checkNumber(cell, p.value, p.keep)
		}
		if fd != nil {
			t.Fail("C20/"+p.site+"/"+fd.check+"/"+fd.shape, "describe.File with "+flagsOf(combo)+" shows protected data of "+p.site, input(cell), fmt.Sprintf("%q", cell), fd.required)
			return
		}
	}
	// the complete value must not turn up anywhere else either (long, unique markers only)
	var needles []string
	if p.isName {
		needles = strings.Fields(p.value)
	} else {
		needles = []string{strings.Trim(p.value, " ")}
	}
	for _, nd := range needles {
		if runes(nd) < 6 || strings.Count(plain, nd) != 1 {
			continue
		}
		if strings.Contains(out, nd) {
			where := "outside-its-column"
			if !located {
				where = "somewhere-column-not-located"
			}
			t.Fail("C20/"+p.site+"/complete-value-in-output/"+where, "describe.File with "+flagsOf(combo)+" prints the complete protected value of "+p.site, input(cell), fmt.Sprintf("output contains %q", nd), "the complete value must not appear anywhere in the output")
			return
		}
	}
}

// checkNameIn checks a name inside a cell shared with other components: only
// bytes accepted by keep belong to the name.
func checkNameIn(cell, value string, keep keepFn) *finding {
	words := strings.Fields(value)
	for _, w := range words {
		if runes(w) >= 3 && strings.Contains(cell, w) {
			return &finding{"complete-word-shown", wordShape(w), "a complete word of the name must not appear"}
		}
	}
	runsOf := strings.FieldsFunc(cell, func(r rune) bool { return r >= 0x80 || !keep(byte(r)) })
	for _, run := range runsOf {
		if runes(run) > 2 {
			return &finding{"more-than-two-characters-shown", encoding(value), "at most the first two characters of a name word may appear"}
		}
		// (the business-name layout of ENRPaymentInformation.String may cut a word in two, so a run
		// may also be the second character alone)
		ok := false
		for _, w := range words {
			if strings.Contains(firstTwo(w), run) {
				ok = true
			}
		}
		if !ok {
			return &finding{"other-than-first-two-shown", encoding(value), "only the first two characters of a name word may appear"}
		}
	}
	return nil
}
