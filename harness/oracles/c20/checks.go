// Package c20 holds the oracle for property C20: with masking enabled the
// description printed by achcli never shows a complete protected value.
package c20

import (
	"fmt"
	"strings"
	"unicode/utf8"
)

// finding is one violated check: a stable check name, a stable shape of the
// value (for the signature) and a sentence for the reader.
type finding struct {
	check, shape, required string
}

func runes(s string) int { return utf8.RuneCountInString(s) }

func hasMultiByte(s string) bool { return len(s) != runes(s) }

func leadingBlanks(s string) int { return len(s) - len(strings.TrimLeft(s, " ")) }

func nonBlank(s string) []rune {
	var out []rune
	for _, r := range s {
		if r != ' ' {
			out = append(out, r)
		}
	}
	return out
}

// numberShape buckets a number value for the signature of "complete value shown".
func numberShape(v string) string {
	lead := "lead=0"
	switch n := leadingBlanks(v); {
	case n >= 2:
		lead = "lead>=2"
	case n == 1:
		lead = "lead=1"
	}
	nb := "nonblank>=5"
	if len(nonBlank(v)) <= 4 {
		nb = "nonblank<=4"
	}
	return lead + "," + nb
}

func encoding(v string) string {
	if hasMultiByte(v) {
		return "multibyte"
	}
	return "ascii"
}

// keepFn says which bytes of a masked text count as characters of the value under
// test.  The default keeps everything but '*' and blank; ENR/DNE payment
// information uses one alphabet per component so that the components can be
// told apart inside one cell.
type keepFn func(b byte) bool

func keepDefault(b byte) bool { return b != '*' && b != ' ' }

// visible returns the kept bytes of a masked text.
func visible(out string, keep keepFn) string {
	var sb strings.Builder
	for i := 0; i < len(out); i++ {
		if keep(out[i]) {
			sb.WriteByte(out[i])
		}
	}
	return sb.String()
}

// units counts characters in a byte string that may hold broken UTF-8: every
// byte that is not a UTF-8 lead byte (ASCII bytes and continuation bytes).
func units(s string) int {
	n := 0
	for i := 0; i < len(s); i++ {
		if s[i] < 0xC0 {
			n++
		}
	}
	return n
}

func dropLeads(s string) string {
	var sb strings.Builder
	for i := 0; i < len(s); i++ {
		if s[i] < 0xC0 {
			sb.WriteByte(s[i])
		}
	}
	return sb.String()
}

func isSubsequence(sub, s string) bool {
	j := 0
	for i := 0; i < len(s) && j < len(sub); i++ {
		if s[i] == sub[j] {
			j++
		}
	}
	return j == len(sub)
}

// checkNumber checks a masked rendering `out` of the number `value` (a value
// without '*').  `out` must be text in which every kept byte stands for this value.
//
//	complete-value-shown                    the value (outer blanks trimmed) occurs in out
//	more-than-four-characters-shown         out shows more than four characters of the value
//	characters-before-the-last-four-shown   what out shows is not taken from the last four non-blank characters
func checkNumber(out, value string, keep keepFn) *finding {
	if keep == nil {
		keep = keepDefault
	}
	t := strings.Trim(value, " ")
	if t == "" {
		return nil
	}
	if strings.Contains(out, t) {
		return &finding{"complete-value-shown", numberShape(value), "the complete value must not appear"}
	}
	vis := visible(out, keep)
	if units(vis) > 4 {
		return &finding{"more-than-four-characters-shown", encoding(value), "at most the last four characters of a number may appear"}
	}
	nb := nonBlank(value)
	if len(nb) > 4 {
		nb = nb[len(nb)-4:]
	}
	if !isSubsequence(dropLeads(vis), dropLeads(visible(string(nb), keep))) {
		return &finding{"characters-before-the-last-four-shown", encoding(value),
			fmt.Sprintf("only characters of the last four (%q) may appear", string(nb))}
	}
	return nil
}

// checkNumberStars is the variant for ASCII values that contain '*' themselves:
// a position counts as shown when out repeats the value's character there and
// that character is neither '*' nor blank.
func checkNumberStars(out, value string) *finding {
	if hasMultiByte(value) || len(out) != len(value) {
		if units(visible(out, keepDefault)) > 4 {
			return &finding{"more-than-four-characters-shown", "with-stars", "at most the last four characters of a number may appear"}
		}
		return nil
	}
	// positions of the last four non-blank characters
	allowed := map[int]bool{}
	n := 0
	for i := len(value) - 1; i >= 0 && n < 4; i-- {
		if value[i] != ' ' {
			allowed[i] = true
			n++
		}
	}
	shown := 0
	for i := 0; i < len(value); i++ {
		if out[i] == value[i] && value[i] != '*' && value[i] != ' ' {
			shown++
			if !allowed[i] {
				return &finding{"characters-before-the-last-four-shown", "with-stars", "only the last four non-blank characters may appear"}
			}
		}
	}
	if shown > 4 {
		return &finding{"more-than-four-characters-shown", "with-stars", "at most the last four characters of a number may appear"}
	}
	return nil
}

// firstTwo returns the first two characters of a word.
func firstTwo(w string) string {
	rs := []rune(w)
	if len(rs) > 2 {
		rs = rs[:2]
	}
	return string(rs)
}

// visibleRuns splits a masked text into its maximal runs of bytes other than '*' and blank.
func visibleRuns(out string) []string {
	return strings.FieldsFunc(out, func(r rune) bool { return r == '*' || r == ' ' })
}

func wordShape(w string) string {
	n := runes(w)
	switch {
	case n >= 4:
		return "word>=4," + encoding(w)
	case n == 3:
		return "word=3," + encoding(w)
	}
	return "word<=2," + encoding(w)
}

// checkName checks a masked rendering `out` of the name `value` (no '*' in it).
//
//	complete-word-shown            a word of >= 4 characters (or of 3: more than its first two) occurs in out
//	more-than-two-characters-shown a run of more than two visible characters
//	other-than-first-two-shown     a visible run is not the beginning of a word of the name
func checkName(out, value string) *finding {
	words := strings.Fields(value)
	for _, w := range words {
		if runes(w) >= 3 && strings.Contains(out, w) {
			return &finding{"complete-word-shown", wordShape(w), "a complete word of the name must not appear"}
		}
	}
	outWords := strings.Fields(out)
	for _, run := range visibleRuns(out) {
		if runes(run) > 2 {
			return &finding{"more-than-two-characters-shown", encoding(value), "at most the first two characters of a name word may appear"}
		}
	}
	if len(outWords) == len(words) {
		for i, ow := range outWords {
			for _, run := range visibleRuns(ow) {
				if !strings.Contains(firstTwo(words[i]), run) {
					return &finding{"other-than-first-two-shown", encoding(value), "only the beginning of a name word may appear"}
				}
			}
		}
		return nil
	}
	for _, run := range visibleRuns(out) {
		ok := false
		for _, w := range words {
			if strings.Contains(firstTwo(w), run) {
				ok = true
			}
		}
		if !ok {
			return &finding{"other-than-first-two-shown", encoding(value), "only the beginning of a name word may appear"}
		}
	}
	return nil
}

// checkNameStars is the variant for ASCII names containing '*': position-wise,
// only byte positions 0 and 1 of a word may repeat the word's character.
func checkNameStars(out, value string) *finding {
	words, outWords := strings.Fields(value), strings.Fields(out)
	if hasMultiByte(value) || len(words) != len(outWords) {
		return nil
	}
	for i, w := range words {
		ow := outWords[i]
		for k := 2; k < len(w) && k < len(ow); k++ {
			if ow[k] == w[k] && w[k] != '*' {
				return &finding{"other-than-first-two-shown", "with-stars", "only the first two characters of a name word may appear"}
			}
		}
	}
	return nil
}
