// Package c09 holds the oracle for property C09: merged files are valid and
// respect the line and dollar limits.
package c09

import (
	"fmt"
	"sort"
	"strings"

	"github.com/moov-io/ach"
	"verif/harness/gen"
	. "verif/harness/oracle"
	m "verif/harness/oracles/c08"
)

func init() {
	Register("C09", &Oracle{
		Rule: "input lists as in C08 (0..6 valid non-IAT non-ADV generator files, HeaderPool/Routes/Preset+CollidingTraces, repeated files, header tweaks; base order, reversed and one sampled order) x limits swept around the size of the merged content computed from the inputs alone: per origin/destination pair size-1, size, size+1 for lines and for dollars, the cumulative line / dollar count at every entry and batch boundary of the unlimited merge (-1, 0, +1; all of them when few, a seeded sample otherwise), 5, 1, single-entry sizes, and pairs of both limits; distinct = distinct (input shape, which limit, relation of the limit to the content); non-trivial = at least one entry",
		Run:  run,
	})
}

func run(t *T) {
	n := t.Budget(200)
	directed := m.DirectedSpecs()
	for i := 0; i < n+len(directed); i++ {
		r := t.R.Fork(uint64(i))
		var spec m.Spec
		if i < len(directed) {
			spec = directed[i]
		} else {
			spec = m.DrawSpec(r, 6)
		}
		base, err := spec.Files(nil)
		if err != nil {
			if i < len(directed) {
				continue
			}
			t.Fail("C09/generator", "generator failed", spec, err.Error(), "a list of valid files")
			continue
		}
		in := m.SnapAll(base)
		shape := m.ShapeKey(in)
		plans, routes := m.Plan(in)
		nf := len(spec.Seeds)

		orders := [][]int{m.Identity(nf)}
		if nf >= 2 {
			rev := m.Identity(nf)
			for a, b := 0, nf-1; a < b; a, b = a+1, b-1 {
				rev[a], rev[b] = rev[b], rev[a]
			}
			orders = append(orders, rev, m.Shuffled(r, nf))
		}

		// the unlimited merge gives the entry and batch boundaries
		var lineCands []int
		var dollarCands []int64
		{
			files, err := spec.Files(nil)
			if err != nil {
				t.Fail("C09/generator", "generator failed", spec, err.Error(), "a list of valid files")
				continue
			}
			out, err := safeMerge(files, ach.Conditions{})
			if err == nil {
				for _, f := range m.SnapAll(out) {
					lines, dollars := 2, int64(0)
					for _, b := range f.Batches {
						lines += 2
						lineCands = append(lineCands, lines-1, lines) // before / after the batch header+control
						for _, e := range b.Entries {
							lines += e.Lines
							dollars += int64(e.Amount)
							lineCands = append(lineCands, lines-1, lines, lines+1)
							dollarCands = append(dollarCands, dollars-1, dollars, dollars+1)
						}
					}
				}
			}
		}
		var sizeL []int
		var sizeD []int64
		for _, rt := range routes {
			p := plans[rt]
			sizeL = append(sizeL, p.Lines-1, p.Lines, p.Lines+1)
			sizeD = append(sizeD, p.Dollars-1, p.Dollars, p.Dollars+1)
		}
		es := m.Entries(in)
		for k := 0; k < 3 && len(es) > 0; k++ {
			e := es[r.Intn(len(es))]
			lineCands = append(lineCands, 4+e.Lines-1, 4+e.Lines)
			dollarCands = append(dollarCands, int64(e.Amount)-1, int64(e.Amount), int64(e.Amount)+1)
		}
		lineCands = append(lineCands, 5, 6)
		dollarCands = append(dollarCands, 1, ach.NachaFileDebitCreditLimit)

		conds := []ach.Conditions{{}}
		seen := map[ach.Conditions]bool{{}: true}
		add := func(c ach.Conditions) {
			if c.MaxLines < 0 || c.MaxDollarAmount < 0 || (c.MaxLines > 0 && c.MaxLines < 5) || seen[c] {
				return
			}
			seen[c] = true
			conds = append(conds, c)
		}
		for _, v := range sizeL {
			add(ach.Conditions{MaxLines: v})
		}
		for _, v := range sizeD {
			add(ach.Conditions{MaxDollarAmount: v})
		}
		sampleN := 8
		if t.Tier != "quick" {
			sampleN = 16
		}
		for _, v := range sampleInts(r, dedupInts(lineCands), sampleN) {
			add(ach.Conditions{MaxLines: v})
		}
		for _, v := range sampleInt64s(r, dedupInt64s(dollarCands), sampleN) {
			add(ach.Conditions{MaxDollarAmount: v})
		}
		for k := 0; k < 4 && len(lineCands) > 0 && len(dollarCands) > 0; k++ {
			add(ach.Conditions{MaxLines: lineCands[r.Intn(len(lineCands))], MaxDollarAmount: dollarCands[r.Intn(len(dollarCands))]})
		}
		if len(sizeL) > 0 {
			add(ach.Conditions{MaxLines: sizeL[1], MaxDollarAmount: sizeD[1]}) // both exactly fitting
			add(ach.Conditions{MaxLines: sizeL[1], MaxDollarAmount: sizeD[0]})
			add(ach.Conditions{MaxLines: sizeL[0], MaxDollarAmount: sizeD[1]})
		}

		for _, cond := range conds {
			rel := relation(cond, plans)
			t.Case(rel+" "+shape, fmt.Sprintf("files=%s/%s", band(nf), rel), len(es) > 0)
			for oi, order := range orders {
				if oi > 0 && cond != (ach.Conditions{}) && r.Chance(1, 2) {
					continue // other orders: always for the unlimited merge, half of the time otherwise
				}
				files, err := spec.Files(order)
				if err != nil {
					t.Fail("C09/generator", "generator failed", spec, err.Error(), "a list of valid files")
					break
				}
				out, err := safeMerge(files, cond)
				if err != nil {
					t.Fail("C09/merge-error/"+m.ErrClass(err), "MergeFilesWith returned an error for a list of valid files", m.SpecInput(spec, order, cond), err.Error(), "valid merged files")
					continue
				}
				if !CheckOutputs("C09", out, cond, plans, routes, true, func(sig, what, observed, required string) {
					t.Fail(sig, what, m.SpecInput(spec, order, cond), observed, required)
				}) {
					break
				}
			}
		}
	}
}

func band(n int) string {
	switch {
	case n <= 2:
		return fmt.Sprint(n)
	case n <= 4:
		return "3-4"
	}
	return "5-6"
}

// relation classifies the conditions against the merged content.
func relation(c ach.Conditions, plans map[string]*m.RoutePlan) string {
	one := func(limit, size int64) string {
		switch {
		case limit == 0:
			return "off"
		case limit == size:
			return "exact"
		case limit == size-1:
			return "size-1"
		case limit == size+1:
			return "size+1"
		case limit < size:
			return "binding"
		}
		return "slack"
	}
	// the tightest relation over the routes
	rank := map[string]int{"off": 0, "slack": 1, "size+1": 2, "exact": 3, "size-1": 4, "binding": 5}
	l, d := "off", "off"
	if c.MaxLines > 0 {
		l = "slack"
	}
	if c.MaxDollarAmount > 0 {
		d = "slack"
	}
	for _, p := range plans {
		if x := one(int64(c.MaxLines), int64(p.Lines)); rank[x] > rank[l] {
			l = x
		}
		if x := one(c.MaxDollarAmount, p.Dollars); rank[x] > rank[d] {
			d = x
		}
	}
	return "lines=" + l + "/dollars=" + d
}

func safeMerge(files []*ach.File, cond ach.Conditions) (out []*ach.File, err error) {
	defer func() {
		if p := recover(); p != nil {
			err = fmt.Errorf("panic: %v", p)
		}
	}()
	return ach.MergeFilesWith(files, cond)
}

// CheckOutputs checks everything C09 states about the files a merge returned.
// plans/routes describe the inputs (m.Plan).  It is shared with C10 (prefix).
//
// structure=false leaves out the last sentence of C09 (one file per route, shared
// batches when no limit binds).  fail receives (signature, what, observed, required).
func CheckOutputs(prefix string, out []*ach.File, cond ach.Conditions, plans map[string]*m.RoutePlan, routes []string, structure bool,
	report func(sig, what, observed, required string)) bool {
	return CheckOutputsWith(prefix, out, cond, plans, routes, structure, nil, report)
}

// CheckOutputsWith: RouteOpts maps an origin/destination to the union of the
// ValidateOpts of its inputs (only used to name one failure precisely).
func CheckOutputsWith(prefix string, out []*ach.File, cond ach.Conditions, plans map[string]*m.RoutePlan, routes []string, structure bool,
	RouteOpts map[string]*ach.ValidateOpts, report func(sig, what, observed, required string)) bool {
	ok := true
	fail := func(sig, what, observed, required string) {
		ok = false
		report(prefix+"/"+sig, what, observed, required)
	}
	snaps := m.SnapAll(out)
	perRoute := map[string][]int{}
	for i, f := range out {
		s := snaps[i]
		perRoute[s.Route] = append(perRoute[s.Route], i)
		if f == nil {
			fail("nil-output", "a returned file is nil", fmt.Sprintf("output %d is nil", i), "non-nil files")
			continue
		}
		if err := validate(f); err != nil {
			sig, what := "invalid-output/"+m.ErrClass(err), "a merged file does not pass Validate()"
			// a file of a split that lost the ValidateOpts its inputs (and the first file of its route) carry
			if f.GetValidation() == nil {
				cands := []*ach.ValidateOpts{RouteOpts[s.Route]}
				for j, g := range out {
					if g != nil && j != i && snaps[j].Route == s.Route {
						cands = append(cands, g.GetValidation())
					}
				}
				for _, v := range cands {
					if v != nil && validateWith(f, v) == nil {
						sig = "invalid-output/file-after-split-lacks-validate-opts"
						what = "a merged file does not pass Validate(): it carries no ValidateOpts although the inputs of its origin/destination do, and it is valid under those"
						break
					}
				}
			}
			fail(sig, what, fmt.Sprintf("output %d of %d: %v", i, len(out), err), "nil")
		}
		if len(s.Batches) == 0 {
			fail("empty-output", "a merged file has no batches", fmt.Sprintf("output %d", i), "at least one batch")
		}
		prev := 0
		for bi, b := range s.Batches {
			if b.Number <= prev {
				fail("batch-number-not-ascending", "batch numbers are not ascending inside a merged file",
					fmt.Sprintf("output %d batch index %d has number %d after %d", i, bi, b.Number, prev), "strictly ascending batch numbers")
			}
			if b.ControlNumber != b.Number {
				fail("batch-number-header-control-differ", "batch header and control carry different batch numbers",
					fmt.Sprintf("output %d batch index %d header %d control %d", i, bi, b.Number, b.ControlNumber), "equal")
			}
			prev = b.Number
			if len(b.Entries) == 0 {
				fail("empty-batch", "a merged batch has no entries", fmt.Sprintf("output %d batch %d", i, b.Number), "at least one entry")
			}
			last := ""
			seen := map[string]bool{}
			for ei, e := range b.Entries {
				tr := e.Trace // compared as the library compares them: as strings (custom trace numbers need not be 15 digits)
				if seen[tr] {
					fail("trace-duplicate-in-batch", "a trace number occurs twice inside one merged batch",
						fmt.Sprintf("output %d batch %d trace %s", i, b.Number, e.Trace), "unique trace numbers inside a batch")
				} else if ei > 0 && tr <= last {
					fail("trace-not-ascending", "trace numbers are not ascending inside a merged batch",
						fmt.Sprintf("output %d batch %d: %s after %s", i, b.Number, e.Trace, strings.TrimLeft(last, " ")), "ascending trace numbers")
				}
				seen[tr] = true
				last = tr
			}
		}
		if which, detail := m.LimitViolation(f, s, cond); which != "" {
			fail("limit-exceeded/"+which, "a merged file exceeds the limit although it holds more than a single oversized entry", fmt.Sprintf("output %d: %s", i, detail), "within the limit")
		}
	}
	if !structure {
		return ok
	}
	// when no limit binds on a route: exactly one output, fewest possible batches per header
	for _, rt := range routes {
		p := plans[rt]
		if (cond.MaxLines > 0 && p.Lines > cond.MaxLines) || (cond.MaxDollarAmount > 0 && p.Dollars > cond.MaxDollarAmount) || p.Dollars > ach.NachaFileDebitCreditLimit {
			continue
		}
		idx := perRoute[rt]
		if len(idx) != 1 {
			fail("unbound/not-one-file-per-route", "no limit binds for this origin/destination but its inputs were not merged into exactly one file",
				fmt.Sprintf("%d output files for route %s (content: %d records, %d cents)", len(idx), rt, p.Lines, p.Dollars), "exactly 1")
			continue
		}
		got := map[string]int{}
		for _, b := range snaps[idx[0]].Batches {
			got[b.HeaderID]++
		}
		// an entry sits in a later batch of its header only because every earlier batch of that header already holds
		// its trace number
		{
			held := map[string][]map[string]bool{} // header -> per batch (in file order) the trace numbers it holds
			for _, b := range snaps[idx[0]].Batches {
				for k, earlier := range held[b.HeaderID] {
					for _, e := range b.Entries {
						if !earlier[e.Trace] {
							fail("unbound/entry-apart-without-collision", "an entry is not in the first batch of its header although that batch holds no entry with its trace number",
								fmt.Sprintf("header [%s]: trace %s sits in batch #%d, the %d. batch of this header holds no such trace", b.HeaderID, e.Trace, b.Number, k+1),
								"entries under equal batch headers share one batch unless their trace numbers collide")
							break
						}
					}
				}
				set := map[string]bool{}
				for _, e := range b.Entries {
					set[e.Trace] = true
				}
				held[b.HeaderID] = append(held[b.HeaderID], set)
			}
		}
		var hs []string
		for h := range p.MinBatches {
			hs = append(hs, h)
		}
		sort.Strings(hs)
		for _, h := range hs {
			if got[h] != p.MinBatches[h] {
				kind := "split-without-trace-collision"
				if p.MinBatches[h] > 1 {
					kind = "more-batches-than-collisions-require"
				}
				if got[h] < p.MinBatches[h] {
					kind = "fewer-batches-than-collisions-require"
				}
				fail("unbound/"+kind, "entries under equal batch headers do not share one batch although their trace numbers do not collide (or not that often)",
					fmt.Sprintf("header [%s]: %d batches; the most frequent trace number occurs %d times", h, got[h], p.MinBatches[h]), fmt.Sprintf("%d batches", p.MinBatches[h]))
			}
		}
	}
	for rt, idx := range perRoute {
		if plans[rt] == nil {
			fail("output-for-unknown-route", "an output file has an origin/destination no input has", fmt.Sprintf("route %s, %d files", rt, len(idx)), "only input routes")
		}
	}
	return ok
}

func validate(f *ach.File) (err error) {
	defer func() {
		if p := recover(); p != nil {
			err = fmt.Errorf("panic: %v", p)
		}
	}()
	return f.Validate()
}

func validateWith(f *ach.File, opts *ach.ValidateOpts) (err error) {
	defer func() {
		if p := recover(); p != nil {
			err = fmt.Errorf("panic: %v", p)
		}
	}()
	return f.ValidateWith(opts)
}

func dedupInts(xs []int) []int {
	sort.Ints(xs)
	var out []int
	for i, x := range xs {
		if x >= 5 && (i == 0 || x != xs[i-1]) {
			out = append(out, x)
		}
	}
	return out
}

func dedupInt64s(xs []int64) []int64 {
	sort.Slice(xs, func(i, j int) bool { return xs[i] < xs[j] })
	var out []int64
	for i, x := range xs {
		if x > 0 && (i == 0 || x != xs[i-1]) {
			out = append(out, x)
		}
	}
	return out
}

func sampleInts(r *gen.Rand, xs []int, n int) []int {
	if len(xs) <= n {
		return xs
	}
	p := m.Shuffled(r, len(xs))[:n]
	sort.Ints(p)
	out := make([]int, n)
	for i, j := range p {
		out[i] = xs[j]
	}
	return out
}

func sampleInt64s(r *gen.Rand, xs []int64, n int) []int64 {
	if len(xs) <= n {
		return xs
	}
	p := m.Shuffled(r, len(xs))[:n]
	sort.Ints(p)
	out := make([]int64, n)
	for i, j := range p {
		out[i] = xs[j]
	}
	return out
}
