// Package c09 holds the oracle for property C09.
package c09
