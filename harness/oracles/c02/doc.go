// Package c02 holds the oracle for property C02.
package c02
