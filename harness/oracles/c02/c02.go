// Package c02 is the oracle of property C02: every successfully written file is
// physically well-formed NACHA.
package c02

import (
	"bytes"
	"fmt"
	"reflect"
	"runtime"
	"sort"
	"strconv"
	"strings"
	"sync"
	"time"
	"unicode/utf8"

	"github.com/moov-io/ach"
	"verif/harness/gen"
	. "verif/harness/oracle"
)

var filler = strings.Repeat("9", 94)

// ---- the in-memory file as the sequence of records the property talks about ----

type rec struct {
	kind string
	s    string
	v    any
	in   string                        // "file", "standard-batch", "IAT-batch", "ADV-batch"
	b    interface{ Validate() error } // the batch holding the record, if any
}

type stringer interface{ String() string }

func isNil(v any) bool {
	if v == nil {
		return true
	}
	rv := reflect.ValueOf(v)
	return rv.Kind() == reflect.Ptr && rv.IsNil()
}

// flatten lists the records of f: file header, batches (header, entries each
// followed by their addenda, control), file control.  Records rendering as ""
// do not exist physically and are left out.
func flatten(f *ach.File) []rec {
	var out []rec
	in := "file"
	var cur interface{ Validate() error }
	add := func(kind string, v stringer) {
		if isNil(v) {
			return
		}
		if s := v.String(); s != "" {
			out = append(out, rec{kind, s, v, in, cur})
		}
	}
	add("FileHeader", &f.Header)
	isADV := f.IsADV()
	for _, b := range f.Batches {
		cur = b
		in = "standard-batch"
		if _, ok := b.(*ach.BatchADV); ok || isADV {
			in = "ADV-batch"
		}
		add("BatchHeader", b.GetHeader())
		if !isADV {
			for _, e := range b.GetEntries() {
				add("EntryDetail", e)
				add("Addenda02", e.Addenda02)
				for _, a := range e.Addenda05 {
					add("Addenda05", a)
				}
				add("Addenda98", e.Addenda98)
				add("Addenda98Refused", e.Addenda98Refused)
				add("Addenda99", e.Addenda99)
				add("Addenda99Dishonored", e.Addenda99Dishonored)
				add("Addenda99Contested", e.Addenda99Contested)
			}
		} else {
			for _, e := range b.GetADVEntries() {
				add("ADVEntryDetail", e)
				add("Addenda99", e.Addenda99)
			}
		}
		if b.GetHeader().StandardEntryClassCode != ach.ADV {
			add("BatchControl", b.GetControl())
		} else {
			add("ADVBatchControl", b.GetADVControl())
		}
	}
	for bi := range f.IATBatches {
		b := &f.IATBatches[bi]
		in, cur = "IAT-batch", b
		add("IATBatchHeader", b.GetHeader())
		for _, e := range b.GetEntries() {
			add("IATEntryDetail", e)
			add("Addenda10", e.Addenda10)
			add("Addenda11", e.Addenda11)
			add("Addenda12", e.Addenda12)
			add("Addenda13", e.Addenda13)
			add("Addenda14", e.Addenda14)
			add("Addenda15", e.Addenda15)
			add("Addenda16", e.Addenda16)
			for _, a := range e.Addenda17 {
				add("Addenda17", a)
			}
			for _, a := range e.Addenda18 {
				add("Addenda18", a)
			}
			add("Addenda98", e.Addenda98)
			add("Addenda99", e.Addenda99)
		}
		add("BatchControl", b.GetControl())
	}
	in, cur = "file", nil
	if !isADV {
		add("FileControl", &f.Control)
	} else {
		add("ADVFileControl", &f.ADVControl)
	}
	return out
}

// Numeric fields that String() renders with strconv.Itoa, i.e. without padding.
var itoaWidth = map[string]int{"ServiceClassCode": 3, "OriginatorStatusCode": 1, "TransactionCode": 2, "AddendaRecordIndicator": 1}

// kindDetail refines a record kind with the state that makes it special.
func kindDetail(r rec) string {
	if !isNil(r.v) && utf8.RuneCountInString(r.s) != 94 {
		v := reflect.ValueOf(r.v).Elem()
		for _, name := range []string{"ServiceClassCode", "TransactionCode", "OriginatorStatusCode", "AddendaRecordIndicator"} {
			if fv := v.FieldByName(name); fv.IsValid() && fv.Kind() == reflect.Int && len(strconv.Itoa(int(fv.Int()))) != itoaWidth[name] {
				return r.kind + "-" + name + "-rendered-unpadded"
			}
		}
	}
	if r.kind == "Addenda98" && !isNil(r.v) {
		if fv := reflect.ValueOf(r.v).Elem().FieldByName("iatCorrectedData"); fv.IsValid() && fv.Kind() == reflect.String && fv.String() != "" {
			return r.kind + "-iatCorrectedData"
		}
	}
	return r.kind
}

// batchBlocks cuts a record sequence (kinds by first character) into the
// canonical text of each batch: header, entries each with their addenda
// sorted, control.  Used to compare what is physically there with the file.
func batchBlocks(lines []string) []string {
	var blocks []string
	var cur []string
	var addenda []string
	flush := func() {
		sort.Strings(addenda)
		cur = append(cur, addenda...)
		addenda = nil
	}
	for _, l := range lines {
		if l == "" {
			continue
		}
		switch l[0] {
		case '5':
			cur = []string{l}
		case '6':
			flush()
			cur = append(cur, l)
		case '7':
			addenda = append(addenda, l)
		case '8':
			flush()
			cur = append(cur, l)
			blocks = append(blocks, strings.Join(cur, "\n"))
			cur = nil
		}
	}
	sort.Strings(blocks)
	return blocks
}

func physKind(l string, sec string) string {
	if l == "" {
		return "empty"
	}
	switch l[0] {
	case '1':
		return "FileHeader"
	case '5':
		if sec == "IAT" {
			return "IATBatchHeader"
		}
		return "BatchHeader"
	case '6':
		switch sec {
		case "IAT":
			return "IATEntryDetail"
		case "ADV":
			return "ADVEntryDetail"
		}
		return "EntryDetail"
	case '7':
		if len(l) >= 3 {
			return "Addenda" + l[1:3]
		}
		return "Addenda"
	case '8':
		if sec == "ADV" {
			return "ADVBatchControl"
		}
		return "BatchControl"
	case '9':
		if l == filler {
			return "filler"
		}
		return "FileControl"
	}
	return "unknown"
}

type finding struct{ sig, what, observed, required string }

func col(l string, a, b int) (int, bool) {
	rs := []rune(l)
	if len(rs) < b {
		return 0, false
	}
	n, err := strconv.Atoi(strings.TrimSpace(string(rs[a:b])))
	return n, err == nil
}

// checkOutput checks the bytes of a successful Write against the property.
func checkOutput(out []byte, le string, f *ach.File, created bool) (fs []finding, nlines int) {
	bad := func(sig, what, obs, req string) { fs = append(fs, finding{"C02/" + sig, what, obs, req}) }
	text := string(out)
	mem := flatten(f)
	if text == "" {
		bad("empty-output", "the writer reported success but wrote nothing", "0 bytes", "at least ten records")
		return fs, 0
	}
	// If the output is the file's records in order, each followed by the line
	// ending, then filler, take the records from there: a record that itself
	// holds a CR or LF is then seen as one (bad) record instead of derailing
	// the rest of the analysis.  Otherwise split at the line ending.
	var lines []string
	aligned := true
	rest := text
	for _, r := range mem {
		if !strings.HasPrefix(rest, r.s+le) {
			aligned = false
			break
		}
		lines = append(lines, r.s)
		rest = rest[len(r.s)+len(le):]
	}
	if aligned {
		for strings.HasPrefix(rest, filler+le) {
			lines = append(lines, filler)
			rest = rest[len(filler)+len(le):]
		}
		if rest != "" {
			aligned = false
		}
	}
	if !aligned {
		parts := strings.Split(text, le)
		if parts[len(parts)-1] != "" {
			bad("final-line-ending-missing", "the last record is not followed by the configured line ending", fmt.Sprintf("%q", tail(text, 20)), "…"+fmt.Sprintf("%q", le))
		} else {
			parts = parts[:len(parts)-1]
		}
		lines = parts
	}
	nlines = len(lines)

	// 1. every record is exactly 94 characters and holds no line terminator
	sec := ""
	seenWidth := map[string]bool{}
	for i, l := range lines {
		if len(l) > 0 && l[0] == '5' {
			if rs := []rune(l); len(rs) >= 53 {
				sec = string(rs[50:53])
			}
		}
		kind := physKind(l, sec)
		if i < len(mem) && mem[i].s == l {
			kind = kindDetail(mem[i])
		}
		if n := utf8.RuneCountInString(l); n != 94 || !utf8.ValidString(l) {
			if i < len(mem) && mem[i].s == l && unvalidated(mem[i]) {
				kind += "/record-not-validated-by-File.Validate"
			}
			if !seenWidth[kind] {
				seenWidth[kind] = true
				bad("line-width/"+kind, fmt.Sprintf("record %d is not exactly 94 characters", i+1), fmt.Sprintf("%d characters: %q", n, l), "94 characters")
			}
		}
		if strings.ContainsAny(l, "\r\n") {
			if i < len(mem) && mem[i].s == l {
				kind = mem[i].kind + "." + fieldWithTerminator(mem[i])
				if unvalidated(mem[i]) {
					// the record does not pass its own (or its batch's) Validate, yet the Writer's
					// File.Validate let it through: the root cause is not this field
					kind = "record-not-validated-by-File.Validate/" + mem[i].in
				}
			}
			bad("line-terminator-inside-record/"+kind, fmt.Sprintf("record %d contains a line terminator that is not the configured line ending", i+1), fmt.Sprintf("%q", l), "no CR/LF inside a record")
		}
	}

	// 2. blocking
	if len(lines)%10 != 0 {
		bad(fmt.Sprintf("record-count-not-multiple-of-10/residue=%d", len(lines)%10), "the number of records is not a multiple of ten", fmt.Sprint(len(lines)), "a multiple of 10")
	}

	// 3. record order
	const (
		stStart = iota
		stFile  // after file header or after a batch control
		stBatch // after a batch header
		stEntry // after an entry or addenda
		stEnd   // after the file control
	)
	st := stStart
	orderOK := true
	order := func(sig, what string, i int) {
		if orderOK {
			bad("record-order/"+sig, what, fmt.Sprintf("record %d: %q", i+1, lines[i]), "file header, batches of (header, entries+addenda, control), file control, filler")
		}
		orderOK = false
	}
	nBatches, nEA := 0, 0
	batchEA := 0
	var batchSEC string
	for i, l := range lines {
		c := byte(0)
		if l != "" {
			c = l[0]
		}
		if st == stEnd {
			if l != filler {
				order("after-file-control/"+physKind(l, ""), "a record other than all-9 filler follows the file control", i)
			}
			continue
		}
		if st == stStart {
			if c != '1' {
				order("first-record/"+physKind(l, ""), "the first record is not a file header", i)
			}
			st = stFile
			continue
		}
		switch c {
		case '1':
			order("second-file-header", "a file header appears after the first record", i)
		case '5':
			if st != stFile {
				order("batch-header-inside-batch", "a batch header appears before the previous batch was closed by its control", i)
			}
			st = stBatch
			nBatches++
			batchEA = 0
			batchSEC = ""
			if rs := []rune(l); len(rs) >= 53 {
				batchSEC = string(rs[50:53])
			}
		case '6':
			if st != stBatch && st != stEntry {
				order("entry-outside-batch", "an entry detail appears outside a batch", i)
			}
			st = stEntry
			nEA++
			batchEA++
		case '7':
			if st != stEntry {
				order("addenda-without-entry", "an addenda record does not follow an entry or another addenda", i)
			}
			nEA++
			batchEA++
		case '8':
			if st != stBatch && st != stEntry {
				order("batch-control-outside-batch", "a batch control appears without an open batch", i)
			}
			if created && orderOK {
				cls := "standard"
				if batchSEC == "IAT" || batchSEC == "ADV" {
					cls = batchSEC
				}
				if n, ok := col(l, 4, 10); !ok || n != batchEA {
					bad("created-count/batch-entry-addenda-count/"+cls, "the entry/addenda count of a batch control differs from the records physically in the batch",
						fmt.Sprintf("control says %d (%q)", n, l), fmt.Sprintf("%d entry and addenda records", batchEA))
				}
			}
			st = stFile
		case '9':
			if st != stFile {
				order("file-control-inside-batch", "the file control appears inside an open batch", i)
			}
			if l == filler {
				order("filler-before-file-control", "all-9 filler appears before any file control", i)
			}
			st = stEnd
			if created && orderOK {
				if n, ok := col(l, 1, 7); !ok || n != nBatches {
					bad("created-count/file-batch-count", "the batch count of the file control differs from the batch headers physically present", fmt.Sprintf("control says %d (%q)", n, l), fmt.Sprint(nBatches))
				}
				if n, ok := col(l, 7, 13); !ok || n != (len(lines)+9)/10 {
					bad("created-count/file-block-count", "the block count of the file control differs from the blocks physically present", fmt.Sprintf("control says %d (%q)", n, l), fmt.Sprintf("%d records = %d blocks", len(lines), (len(lines)+9)/10))
				}
				if n, ok := col(l, 13, 21); !ok || n != nEA {
					bad("created-count/file-entry-addenda-count", "the entry/addenda count of the file control differs from the records physically present", fmt.Sprintf("control says %d (%q)", n, l), fmt.Sprint(nEA))
				}
			}
		default:
			order("unknown-record-type", "a record starts with a character that is no record type", i)
		}
	}
	if st != stEnd && orderOK {
		bad("record-order/no-file-control", "the output ends without a file control", fmt.Sprintf("%d records, last %q", len(lines), lines[len(lines)-1]), "one file control")
		orderOK = false
	}

	// 4. every entry is followed by its own addenda, every batch holds its own entries
	if orderOK {
		var memLines []string
		for _, r := range mem {
			memLines = append(memLines, r.s)
		}
		pb, mb := batchBlocks(lines), batchBlocks(memLines)
		switch {
		case len(pb) != len(mb):
			bad("own-records/batch-count", "the number of batches physically present differs from the batches of the file", fmt.Sprint(len(pb)), fmt.Sprint(len(mb)))
		default:
			for i := range pb {
				if pb[i] != mb[i] {
					detail := "records-differ"
					if strings.Count(pb[i], "\n") != strings.Count(mb[i], "\n") {
						detail = "record-missing-or-extra"
					}
					bad("own-records/"+detail, "a batch as physically written does not consist of its own header, its entries each followed by their own addenda, and its control", pb[i], mb[i])
					break
				}
			}
		}
		if len(mem) > 0 && len(lines) > 0 && mem[0].kind == "FileHeader" {
			// the creation time of a header without one is the wall clock: compare around it
			a, b := []rune(lines[0]), []rune(mem[0].s)
			if len(a) == 94 && len(b) == 94 && (string(a[:23]) != string(b[:23]) || string(a[33:]) != string(b[33:])) {
				bad("own-records/file-header", "the first record is not the file's header", lines[0], mem[0].s)
			}
		}
	}
	return fs, nlines
}

func tail(s string, n int) string {
	if len(s) > n {
		return s[len(s)-n:]
	}
	return s
}

// ---- running ---------------------------------------------------------------

type failure struct {
	sig, what          string
	input              map[string]any
	observed, required string
}

type caseRec struct {
	key, class string
	nontrivial bool
}

type result struct {
	cases []caseRec
	fails []failure
}

var lineEndings = []struct{ name, le string }{{"lf", "\n"}, {"crlf", "\r\n"}, {"cr", "\r"}}

func writeFile(f *ach.File, le string) (out []byte, err error, panicked bool) {
	defer func() {
		if p := recover(); p != nil {
			err, panicked = fmt.Errorf("PANIC in Writer.Write: %v", p), true
		}
	}()
	var buf bytes.Buffer
	w := ach.NewWriter(&buf)
	w.LineEnding = le
	if err := w.Write(f); err != nil {
		return nil, err, false
	}
	return buf.Bytes(), nil, false
}

func readText(text []byte) (f *ach.File, err error) {
	defer func() {
		if p := recover(); p != nil {
			err = fmt.Errorf("PANIC in Reader.Read: %v", p)
		}
	}()
	g, err := ach.NewReader(bytes.NewReader(text)).Read()
	return &g, err
}

func clipText(b []byte) string {
	if len(b) > 12000 {
		return string(b[:12000]) + "…"
	}
	return string(b)
}

// writeAndCheck writes f with each requested line ending and checks the bytes.
func writeAndCheck(f *ach.File, created bool, les []int, key, class string, extra map[string]any, res *result, rewrite func(sig string) string) {
	for _, li := range les {
		le := lineEndings[li]
		out, err, panicked := writeFile(f, le.le)
		cls := class
		mk := func() map[string]any {
			m := FileInput(f)
			for k, v := range extra {
				m[k] = v
			}
			m["writer_line_ending"] = le.name
			m["created"] = created
			if out != nil {
				m["output"] = clipText(out)
			}
			return m
		}
		if panicked {
			res.cases = append(res.cases, caseRec{key + "|" + le.name, cls + "/writer-panics", false})
			_ = mk // the property is silent about a Writer that panics (C06 covers robustness)
			continue
		}
		if err != nil {
			res.cases = append(res.cases, caseRec{key + "|" + le.name, cls + "/writer-refuses", false})
			continue
		}
		fs, n := checkOutput(out, le.le, f, created)
		nr := len(flatten(f)) % 10
		wcls := cls + "/written"
		if strings.HasPrefix(cls, "gen/") {
			wcls = fmt.Sprintf("%s/written/records-mod-10=%d", cls, nr)
		}
		res.cases = append(res.cases, caseRec{key + "|" + le.name, wcls, true})
		_ = n
		var input map[string]any
		for _, fd := range fs {
			if input == nil {
				input = mk()
			}
			if rewrite != nil {
				fd.sig = rewrite(fd.sig)
			}
			res.fails = append(res.fails, failure{fd.sig, fd.what, input, fd.observed, fd.required})
		}
	}
}

// recreate tabulates a file the Reader produced: every batch and the file.
func recreate(f *ach.File) error {
	done := make(chan error, 1)
	go func() { done <- recreate1(f) }()
	select {
	case err := <-done:
		return err
	case <-time.After(20 * time.Second):
		return fmt.Errorf("Create did not return within 20s")
	}
}

func recreate1(f *ach.File) (err error) {
	defer func() {
		if p := recover(); p != nil {
			err = fmt.Errorf("PANIC: %v", p)
		}
	}()
	for _, b := range f.Batches {
		if err := b.Create(); err != nil {
			return err
		}
	}
	for i := range f.IATBatches {
		if err := f.IATBatches[i].Create(); err != nil {
			return err
		}
	}
	return f.Create()
}

func parallel(n int, fn func(i int) *result) []*result {
	out := make([]*result, n)
	var wg sync.WaitGroup
	ch := make(chan int)
	for w := 0; w < runtime.GOMAXPROCS(0); w++ {
		wg.Add(1)
		go func() {
			defer wg.Done()
			for i := range ch {
				func() {
					defer func() {
						if p := recover(); p != nil {
							out[i] = &result{fails: []failure{{"C02/oracle-panic", "panic while evaluating a case", map[string]any{"index": i}, fmt.Sprint(p), "no panic"}}}
						}
					}()
					out[i] = fn(i)
				}()
			}
		}()
	}
	for i := 0; i < n; i++ {
		ch <- i
	}
	close(ch)
	wg.Wait()
	return out
}

func replay(t *T, rs []*result) {
	for _, res := range rs {
		if res == nil {
			continue
		}
		for _, c := range res.cases {
			t.Case(c.key, c.class, c.nontrivial)
		}
		for _, f := range res.fails {
			t.Fail(f.sig, f.what, f.input, f.observed, f.required)
		}
	}
}

func optsFor(i int) (gen.Opts, string) {
	secs := gen.AllSECs()
	o := gen.Opts{IATCorrections: true, Categories: gen.AllCategories(), Offset: true, PresetTraces: true}
	j := i / 8
	switch i % 8 {
	case 0:
		return o, "ascii"
	case 1:
		o.NonASCII = true
		return o, "latin1"
	case 2:
		o.FullWidth = true
		return o, "fullwidth"
	case 3:
		o.NonASCII, o.FullWidth = true, true
		return o, "latin1+fullwidth"
	case 4:
		o.SECs = []string{secs[j%len(secs)]}
		o.NonASCII = (j/len(secs))%2 == 1
		o.FullWidth = true
		return o, "one-sec+fullwidth"
	case 5:
		o.NonASCII, o.Risky = true, true
		o.FullWidth = j%2 == 1
		if j%3 == 0 {
			o.SECs = []string{"COR", "IAT", "PPD"} // where the risky shapes live
		}
		return o, "latin1+risky"
	case 6:
		o.MaxBatches, o.MaxEntries, o.MaxAddenda = 6, 12, 6
		o.NonASCII = j%2 == 1
		return o, "large"
	default:
		o.SECs = []string{secs[(j+7)%len(secs)]}
		o.MaxBatches, o.MaxEntries = 1, 2
		o.MaxAddenda = -1
		return o, "one-sec+small"
	}
}

func describeNoID(f *ach.File) string {
	d := gen.Describe(f)
	if i := strings.Index(d, " "); i >= 0 {
		d = d[i+1:]
	}
	return d
}

func init() {
	Register("C02", &Oracle{
		Rule: "part A: generator files (constructors + Create; cycling all SECs / each single SEC incl. IAT and ADV, all categories, ASCII / Latin-1 / full-width / risky shapes / large / minimal), " +
			"each case steered to a record-count residue i mod 10 (regenerating up to 40 times), written with LF, CRLF and CR; " +
			"part B: every corpus text and mutated corpus/generator texts (character-level and record-level mutations, truncations, garbage) read with default options — the returned file is used whether or not Read " +
			"reported errors — written as read and again after Create of every batch and of the file. On every successful Write the output bytes are checked: 94 characters + line ending per record, " +
			"count multiple of 10, only filler after the file control, record order, each batch made of its own records, and for Created files the counts in the controls against the physical records. " +
			"distinct = distinct (source text or file description, mutation, created?, line ending); non-trivial = Writer.Write returned nil",
		Run: run,
	})
}

func run(t *T) {
	// ---- part A: generator files, every residue modulo 10 ----------------------
	nA := t.Budget(600)
	rsA := make([]*gen.Rand, nA)
	for i := range rsA {
		rsA[i] = t.R.Fork(uint64(i))
	}
	replay(t, parallel(nA, func(i int) *result {
		res := &result{}
		o, tag := optsFor(i)
		want := i % 10
		var f *ach.File
		var err error
		for try := 0; try < 40; try++ {
			f, err = gen.File(rsA[i].Fork(uint64(try)), o)
			if err != nil {
				break
			}
			if len(flatten(f))%10 == want {
				break
			}
		}
		if err != nil {
			res.cases = append(res.cases, caseRec{"", "gen/" + tag + "/generator-error", false})
			if !o.Risky {
				res.fails = append(res.fails, failure{"C02/generator", "generator failed", map[string]any{"opts": fmt.Sprintf("%+v", o)}, err.Error(), "a valid file"})
			}
			return res
		}
		writeAndCheck(f, true, []int{0, 1, 2}, describeNoID(f), "gen/created", map[string]any{"generator": tag}, res, nil)
		// entries that carry more addenda kinds than their category needs (validation admits them): a correction
		// together with its refusal, a return that keeps its payment addenda.  Every record written must be counted.
		if g := extraAddenda(f); g != nil {
			writeAndCheck(g, true, []int{0}, describeNoID(g)+"+extra-addenda", "gen/created/extra-addenda", map[string]any{"generator": tag, "note": "a second addenda kind was attached to some entries, then Create"}, res, nil)
		}
		return res
	}))

	// ---- part C: one character of one text field replaced (width unchanged) ------
	// C1: every exported string field of every record kind x {LF, CR}, exhaustively.
	type pokeCase struct {
		seed  uint64
		opt   int
		slot  string
		char  int
		where uint64
		pos   int // 0 first, 1 middle, 2 last character, otherwise random
		inst  int // which record of the file having that field; -1 random
	}
	var pcs []pokeCase
	// per field: instances taken so far, and the last file used (several instances per file,
	// several files per field, because whether a bad value slips through can depend on the
	// other fields of the record, e.g. a check digit that happens to be 0)
	taken := map[string]int{}
	maxInst, reps := 24, 3
	if t.Tier != "quick" {
		maxInst, reps = 60, 6
	}
	rc := t.R.Fork(0xC0)
	for i := 0; i < 400; i++ {
		seed := rc.Uint64()
		o, _ := optsFor(i)
		o.Risky = false
		f, err := gen.File(gen.NewRand(seed), o)
		if err != nil {
			continue
		}
		inFile := map[string]int{}
		for _, sl := range slotsOf(f) {
			k := sl.kind + "." + sl.name
			j := inFile[k]
			inFile[k]++
			lim := maxInst
			if sl.v.Len() <= 2 {
				lim = 4 * maxInst // few positions to try, and the outcome may hinge on the value (check digits)
			}
			if taken[k] >= lim || j >= 8 {
				continue
			}
			taken[k]++
			// positions: first, middle, last; further random ones beyond the quick tier
			for rep := 0; rep < reps; rep++ {
				if rep > 0 && rep < 3 && sl.v.Len() == 1 {
					continue
				}
				pcs = append(pcs, pokeCase{seed, i, k, 0, rc.Uint64(), rep, j}, pokeCase{seed, i, k, 1, rc.Uint64(), rep, j})
			}
		}
	}
	// C2: random fields x exotic one-character-wide runes
	for i := 0; i < t.Budget(800); i++ {
		pcs = append(pcs, pokeCase{rc.Uint64(), i, "", 2 + rc.Intn(len(pokeRunes)-2), rc.Uint64(), 3, -1})
	}
	replay(t, parallel(len(pcs), func(i int) *result {
		res := &result{}
		pc := pcs[i]
		o, tag := optsFor(pc.opt)
		o.Risky = false
		f, err := gen.File(gen.NewRand(pc.seed), o)
		if err != nil {
			res.cases = append(res.cases, caseRec{"", "poke/generator-error", false})
			return res
		}
		r := gen.NewRand(pc.where)
		what, _ := poke(r, f, pc.slot, pc.char, pc.pos, pc.inst)
		if what == "" {
			res.cases = append(res.cases, caseRec{"", "poke/nothing-to-poke", false})
			return res
		}
		les := []int{r.Intn(3)}
		if pc.char < 2 {
			les = []int{0, 1}
		}
		writeAndCheck(f, true, les, describeNoID(f)+"|"+what, "poke/"+pokeRunes[pc.char].name, map[string]any{"generator": tag, "poked": what}, res, nil)
		return res
	}))

	// ---- part D: the first digit of each record's 2-3 digit code blanked or zeroed ----
	// (service class, transaction code, addenda type: rendered by String() without padding)
	type codeCase struct {
		name string
		text []byte
		line int
		c    byte
	}
	var ccs []codeCase
	rd := t.R.Fork(0xD0)
	for i := 0; i < t.Budget(24); i++ {
		sec := []string{"IAT", "ADV", "PPD", "COR", "CTX", "POS"}[i%6]
		o := gen.Opts{IATCorrections: true, SECs: []string{sec}, Categories: gen.AllCategories(), MaxBatches: 2, MaxEntries: 2}
		f, err := gen.File(rd.Fork(uint64(i)), o)
		if err != nil {
			continue
		}
		txt, err, _ := writeFile(f, "\n")
		if err != nil {
			continue
		}
		for li, l := range strings.Split(string(txt), "\n") {
			if len(l) > 2 && l[0] != '9' && l[0] != '1' {
				for _, c := range []byte{' ', '0'} {
					if l[1] != c {
						ccs = append(ccs, codeCase{fmt.Sprintf("gen-code[%d]/%s", i, sec), txt, li, c})
					}
				}
			}
		}
	}
	replay(t, parallel(len(ccs), func(i int) *result {
		res := &result{}
		cc := ccs[i]
		lines := strings.Split(string(cc.text), "\n")
		lines[cc.line] = lines[cc.line][:1] + string(cc.c) + lines[cc.line][2:]
		text := []byte(strings.Join(lines, "\n"))
		ops := fmt.Sprintf("code@%d=%q", cc.line, cc.c)
		key := cc.name + "|" + ops
		extra := map[string]any{"source": cc.name, "mutations": ops, "text_read": clipText(text)}
		f1, rerr := readText(text)
		if f1 == nil {
			return res
		}
		how := "read-ok"
		if rerr != nil {
			how = "read-with-errors"
			extra["read_error"] = rerr.Error()
		}
		writeAndCheck(f1, false, []int{0}, key+"|as-read", "code/"+how+"/as-read", extra, res, nil)
		return res
	}))

	// ---- part B: files read from arbitrary bytes --------------------------------
	corpus := gen.CorpusTexts()
	var paths []string
	for p := range corpus {
		paths = append(paths, p)
	}
	sort.Strings(paths)
	type baseText struct {
		name string
		text []byte
	}
	var bases []baseText
	for _, p := range paths {
		bases = append(bases, baseText{strings.TrimPrefix(p, gen.RepoRoot+"/"), corpus[p]})
	}
	nCorpus := len(bases)
	rb := t.R.Fork(0xB0)
	for i := 0; i < 80; i++ {
		o, tag := optsFor(i)
		o.Risky = false
		f, err := gen.File(rb.Fork(uint64(i)), o)
		if err != nil {
			continue
		}
		txt, err, _ := writeFile(f, lineEndings[i%2].le)
		if err != nil {
			continue
		}
		bases = append(bases, baseText{fmt.Sprintf("gen[%d]/%s", i, tag), txt})
	}
	nMut := t.Budget(2500)
	nB := nCorpus + nMut
	rsB := make([]*gen.Rand, nB)
	rm := t.R.Fork(0xB1)
	for i := range rsB {
		rsB[i] = rm.Fork(uint64(i))
	}
	replay(t, parallel(nB, func(i int) *result {
		res := &result{}
		r := rsB[i]
		var b baseText
		src, ops := "corpus", ""
		var text []byte
		if i < nCorpus {
			b = bases[i]
			text = b.text
		} else {
			b = bases[r.Intn(len(bases))]
			if r.Chance(1, 3) {
				text, ops = mutateRecords(r, b.text)
			} else {
				text, ops = mutate(r, b.text)
			}
			src = "mutated-corpus"
			if strings.HasPrefix(b.name, "gen[") {
				src = "mutated-generator"
			}
		}
		key := b.name + "|" + ops
		extra := map[string]any{"source": b.name, "mutations": ops, "text_read": clipText(text)}
		f1, rerr := readText(text)
		if f1 == nil {
			res.cases = append(res.cases, caseRec{key, "read/" + src + "/no-file", false})
			return res
		}
		how := "read-ok"
		if rerr != nil {
			how = "read-with-errors"
			extra["read_error"] = rerr.Error()
		}
		les := []int{0, 1}
		if i >= nCorpus {
			les = []int{r.Intn(3)}
		}
		writeAndCheck(f1, false, les, key+"|as-read", "read/"+src+"/"+how+"/as-read", extra, res, nil)
		// the same file tabulated by Create
		if f2, _ := readText(text); f2 != nil {
			if cerr := recreate(f2); cerr != nil {
				res.cases = append(res.cases, caseRec{key + "|created", "read/" + src + "/" + how + "/create-refuses", false})
			} else {
				writeAndCheck(f2, true, les, key+"|created", "read/"+src+"/"+how+"/created", extra, res, nil)
			}
		}
		return res
	}))
}

// Characters that are not part of any NACHA alphabet but one character wide.
var pokeRunes = []struct {
	name string
	c    rune
}{{"LF", '\n'}, {"CR", '\r'}, {"TAB", '\t'}, {"NUL", 0}, {"U+0085", 0x85}, {"U+2028", 0x2028}, {"CJK", '漢'}, {"emoji", 0x1F600}, {"U+FFFD", 0xFFFD}, {"DEL", 0x7f}, {"ESC", 0x1b}}

type slot struct {
	kind, name string
	v          reflect.Value
	rec        rec
}

// unvalidated says whether a record that was written does not pass its own
// Validate, or its batch does not: File.Validate (run by the Writer) never looked at it.
// extraAddenda attaches, to the entries of f, a second addenda kind their batch type admits next to the one they
// have (COR: Addenda98 + Addenda98Refused; CTX returns: Addenda99 + Addenda05) and re-creates the file; nil when
// nothing could be attached or the result does not validate.
func extraAddenda(f *ach.File) *ach.File {
	changed := false
	for _, b := range f.Batches {
		h := b.GetHeader()
		if h == nil {
			continue
		}
		for _, e := range b.GetEntries() {
			switch {
			case h.StandardEntryClassCode == ach.COR && e.Addenda98 != nil && e.Addenda98Refused == nil:
				r := ach.NewAddenda98Refused()
				r.RefusedChangeCode = "C62"
				r.OriginalTrace = e.Addenda98.OriginalTrace
				r.OriginalDFI = e.Addenda98.OriginalDFI
				r.CorrectedData = e.Addenda98.CorrectedData
				r.ChangeCode = e.Addenda98.ChangeCode
				r.TraceSequenceNumber = "0000001"
				r.TraceNumber = e.Addenda98.TraceNumber
				e.Addenda98Refused = r
				changed = true
			case h.StandardEntryClassCode == ach.CTX && e.Addenda99 != nil && len(e.Addenda05) == 0:
				a := ach.NewAddenda05()
				a.PaymentRelatedInformation = "RETURNED REMITTANCE"
				a.SequenceNumber = 1
				a.EntryDetailSequenceNumber = 1
				e.AddAddenda05(a)
				changed = true
			}
		}
	}
	if !changed {
		return nil
	}
	if recreate(f) != nil || f.Validate() != nil {
		return nil
	}
	return f
}

func unvalidated(r rec) bool {
	if v, ok := r.v.(interface{ Validate() error }); ok && safeValidate(v) != nil {
		return true
	}
	return r.b != nil && safeValidate(r.b) != nil
}

func safeValidate(v interface{ Validate() error }) (err error) {
	defer func() {
		if p := recover(); p != nil {
			err = fmt.Errorf("PANIC: %v", p)
		}
	}()
	return v.Validate()
}

// slotsOf lists the non-empty exported string fields of every record of f.
func slotsOf(f *ach.File) []slot {
	var slots []slot
	for _, rc := range flatten(f) {
		v := reflect.ValueOf(rc.v)
		if v.Kind() != reflect.Ptr || v.IsNil() {
			continue
		}
		v = v.Elem()
		for i := 0; i < v.NumField(); i++ {
			sf := v.Type().Field(i)
			if sf.IsExported() && sf.Type.Kind() == reflect.String && sf.Name != "ID" && sf.Name != "Category" && sf.Name != "StandardEntryClassCode" && sf.Name != "TypeCode" && v.Field(i).Len() > 0 && v.Field(i).CanSet() {
				slots = append(slots, slot{rc.kind, sf.Name, v.Field(i), rc})
			}
		}
	}
	return slots
}

// poke replaces one character of one non-empty exported string field of one
// record (the named one, or a random one) by a control or exotic character;
// the value keeps its width.
func poke(r *gen.Rand, f *ach.File, want string, char, pos, inst int) (string, rec) {
	names := map[string][]slot{}
	var order []string
	for _, s := range slotsOf(f) {
		k := s.kind + "." + s.name
		if _, ok := names[k]; !ok {
			order = append(order, k)
		}
		names[k] = append(names[k], s)
	}
	if len(order) == 0 {
		return "", rec{}
	}
	k := want
	if k == "" {
		k = order[r.Intn(len(order))]
	}
	if len(names[k]) == 0 {
		return "", rec{}
	}
	s := gen.Pick(r, names[k])
	if inst >= 0 && inst < len(names[k]) {
		s = names[k][inst]
	}
	rs := []rune(s.v.String())
	p := r.Intn(len(rs))
	switch pos {
	case 0:
		p = 0
	case 1:
		p = len(rs) / 2
	case 2:
		p = len(rs) - 1
	}
	pr := pokeRunes[char]
	rs[p] = pr.c
	s.v.SetString(string(rs))
	return fmt.Sprintf("%s#%d[%d/%d]=%s", k, inst, p, len(rs), pr.name), s.rec
}

// fieldWithTerminator names the exported string field of a record whose value holds a CR or LF.
func fieldWithTerminator(r rec) string {
	v := reflect.ValueOf(r.v)
	if v.Kind() != reflect.Ptr || v.IsNil() {
		return "?"
	}
	v = v.Elem()
	for i := 0; i < v.NumField(); i++ {
		sf := v.Type().Field(i)
		if sf.IsExported() && sf.Type.Kind() == reflect.String && strings.ContainsAny(v.Field(i).String(), "\r\n") {
			return sf.Name
		}
	}
	return "?"
}
