// Package c16 holds the oracle for property C16.
package c16
