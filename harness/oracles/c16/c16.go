// Package c16 holds the oracle for property C16: I/O failures of the
// underlying io.Writer / io.Reader are reported, never swallowed.
package c16

import (
	"bytes"
	"errors"
	"fmt"
	"io"
	"runtime"
	"strings"
	"sync"

	"github.com/moov-io/ach"
	"verif/harness/gen"
	. "verif/harness/oracle"
)

// errInjected is the fault every faulty sink / source reports.  It is a value
// of its own so that it cannot be mistaken for io.EOF / io.ErrUnexpectedEOF.
var errInjected = errors.New("injected")

// ---------------------------------------------------------------- writer side

// Failure modes of the sink.  In every mode the sink accepts exactly the first
// k bytes of the stream (mode hard0: at most k, the call that would cross
// offset k is rejected as a whole).
const (
	wHard0     = "hard-error-0"              // the call crossing offset k returns (0, err); so does every later call
	wHardN     = "hard-error-partial"        // ... returns (n<len(p), err) after taking the bytes before k
	wShortGood = "short-write-ErrShortWrite" // ... returns (n<len(p), io.ErrShortWrite)
	wShortBad  = "short-write-nil-error"     // ... returns (n<len(p), nil), as a badly behaved writer does
	wTransient = "transient-error"           // ... returns (n<len(p), err) once, later calls are accepted again
)

var writeModes = []string{wHard0, wHardN, wShortGood, wShortBad, wTransient}

type faultySink struct {
	mode   string
	k      int
	buf    []byte
	failed bool // the fault has been delivered at least once
	calls  int
}

func (s *faultySink) Write(p []byte) (int, error) {
	s.calls++
	if s.mode == wTransient && s.failed {
		s.buf = append(s.buf, p...)
		return len(p), nil
	}
	room := s.k - len(s.buf)
	if room < 0 {
		room = 0
	}
	if len(p) <= room && !s.failed {
		s.buf = append(s.buf, p...)
		return len(p), nil
	}
	s.failed = true
	if room > len(p) {
		room = len(p)
	}
	switch s.mode {
	case wHard0:
		return 0, errInjected
	case wHardN, wTransient:
		s.buf = append(s.buf, p[:room]...)
		return room, errInjected
	case wShortGood:
		s.buf = append(s.buf, p[:room]...)
		return room, io.ErrShortWrite
	default: // wShortBad
		s.buf = append(s.buf, p[:room]...)
		return room, nil
	}
}

type wResult struct {
	errWrite, errFlush error
	sink               []byte
	panicked           string
}

func writeWithFault(f *ach.File, crlf, bypass bool, mode string, k int) (res wResult) {
	sink := &faultySink{mode: mode, k: k}
	defer func() {
		if r := recover(); r != nil {
			res.panicked = fmt.Sprint(r)
		}
		res.sink = sink.buf
	}()
	w := ach.NewWriter(sink)
	if crlf {
		w.LineEnding = "\r\n"
	}
	w.BypassValidation = bypass
	res.errWrite = w.Write(f)
	res.errFlush = w.Flush()
	return res
}

// ---------------------------------------------------------------- reader side

const (
	rAfterData = "error-after-data" // (n, nil) up to offset k, then (0, err)
	rWithData  = "error-with-data"  // the call that delivers byte k-1 returns (n, err)
	rChunked   = "error-after-data-13-byte-chunks"
)

var readModes = []string{rAfterData, rWithData, rChunked}

type errKind struct {
	name string
	err  error
}

var readErrs = []errKind{{"injected", errInjected}, {"ErrUnexpectedEOF", io.ErrUnexpectedEOF}}

type faultySource struct {
	data []byte
	k    int
	pos  int
	mode string
	err  error
}

func (s *faultySource) Read(p []byte) (int, error) {
	if s.pos >= s.k {
		return 0, s.err
	}
	if len(p) == 0 {
		return 0, nil
	}
	lim := s.k - s.pos
	if s.mode == rChunked && lim > 13 {
		lim = 13
	}
	if lim > len(p) {
		lim = len(p)
	}
	n := copy(p, s.data[s.pos:s.pos+lim])
	s.pos += n
	if s.pos >= s.k && s.mode == rWithData {
		return n, s.err
	}
	return n, nil
}

type rResult struct {
	err      error
	panicked string
	batches  int
}

func readWithFault(text []byte, mode string, ek errKind, k int) (res rResult) {
	defer func() {
		if r := recover(); r != nil {
			res.panicked = fmt.Sprint(r)
		}
	}()
	src := &faultySource{data: text, k: k, mode: mode, err: ek.err}
	f, err := ach.NewReader(src).Read()
	res.err = err
	res.batches = len(f.Batches) + len(f.IATBatches)
	return res
}

const sniffWindow = 1024 // golang.org/x/net/html/charset.NewReader previews this many bytes

func window(k int) string {
	if k < sniffWindow {
		return "within-charset-sniff-window"
	}
	return "beyond-charset-sniff-window"
}

// ---------------------------------------------------------------- the oracle

var secGroups = [][]string{
	{"ADV"},
	{"ACK", "ARC", "ATX", "BOC"},
	{"CCD", "CIE", "COR", "CTX"},
	{"DNE", "ENR", "IAT", "MTE"},
	{"POP", "POS", "PPD", "RCK"},
	{"SHR", "TEL", "TRC", "TRX"},
	{"WEB", "XCK", "IAT", "PPD"},
}

type fileCase struct {
	idx   int
	f     *ach.File
	desc  string
	crlf  bool
	text  []byte
	genEr error
}

// one unit of parallel work: a block of offsets of one (file, ending)
type job struct {
	fc     *fileCase
	lo, hi int
	out    []offsetResult
}

type offsetResult struct {
	k      int
	writes []wResult // per writeModes
	reads  []rResult // per readModes x readErrs
}

const block = 64

func init() {
	Register("C16", &Oracle{
		Rule: "valid generator files (SEC groups cycle so every SEC code incl. ADV and IAT occurs; every third file is larger than bufio's 4096-byte buffer), each rendered with LF and with CRLF; " +
			"for EVERY byte offset k in [0,len): Writer over a sink that accepts exactly k bytes, in 5 failure modes (hard error returning 0, hard error after a partial write, short write with io.ErrShortWrite, short write with nil error, transient error), validating and bypassing alternately: Write then Flush; " +
			"Reader over a source that delivers k bytes and then fails, in 3 delivery modes x 2 error values (a custom error, io.ErrUnexpectedEOF). A case = one (file, ending, mode, k); distinct cases are counted per (file, ending, mode, block of 64 offsets); every case is non-trivial (the fault is always hit since k < len)",
		Run: run,
	})
}

func run(t *T) {
	n := t.Budget(7)
	var cases []*fileCase
	for i := 0; i < n; i++ {
		r := t.R.Fork(uint64(i))
		o := gen.Opts{SECs: secGroups[i%len(secGroups)], MinBatches: 1, MaxBatches: 3, MaxEntries: 3}
		if i%14 == 0 {
			// a one-block file (10 lines, < 1024 bytes): it fits entirely into the charset sniffing window of the Reader
			o.MinBatches, o.MaxBatches, o.MaxEntries, o.MaxAddenda = 1, 1, 1, -1
		}
		if i%3 == 2 {
			o.MinBatches, o.MaxBatches, o.MaxEntries = 4, 5, 6 // > 4096 bytes: flushes in the middle of Write
		}
		switch (i / len(secGroups)) % 4 {
		case 1:
			o.Categories = gen.AllCategories()
		case 2:
			o.NonASCII = true
		case 3:
			o.Categories = []string{ach.CategoryForward, ach.CategoryReturn}
			o.Offset = true
		}
		f, err := gen.File(r, o)
		if err != nil {
			t.Fail("C16/generator", "generator failed", fmt.Sprint(o.SECs), err.Error(), "a valid file")
			continue
		}
		for _, crlf := range []bool{false, true} {
			text, err := gen.Write(f, crlf)
			if err != nil {
				t.Fail("C16/generator", "valid generator file cannot be written", FileInput(f), err.Error(), "nil")
				continue
			}
			cases = append(cases, &fileCase{idx: i, f: f, desc: gen.Describe(f), crlf: crlf, text: text})
		}
	}

	// Build the jobs; run them on a pool; report in order.
	var jobs []*job
	for _, fc := range cases {
		for lo := 0; lo < len(fc.text); lo += block {
			hi := lo + block
			if hi > len(fc.text) {
				hi = len(fc.text)
			}
			jobs = append(jobs, &job{fc: fc, lo: lo, hi: hi})
		}
	}
	workers := runtime.GOMAXPROCS(0)
	if workers > 16 {
		workers = 16
	}
	// Writing renders records through String(), which may touch the file
	// (FileHeader field getters trim in place), so every worker uses its own
	// re-parsed copy of the file instead of sharing one *ach.File.
	ch := make(chan *job)
	var wg sync.WaitGroup
	var errMu sync.Mutex
	for w := 0; w < workers; w++ {
		wg.Add(1)
		go func() {
			defer wg.Done()
			copies := map[*fileCase]*ach.File{}
			for j := range ch {
				f := copies[j.fc]
				if f == nil {
					g, err := ach.NewReader(bytes.NewReader(j.fc.text)).Read()
					if err != nil {
						errMu.Lock()
						j.fc.genEr = err
						errMu.Unlock()
						continue
					}
					f = &g
					copies[j.fc] = f
				}
				runJob(j, f)
			}
		}()
	}
	for _, j := range jobs {
		ch <- j
	}
	close(ch)
	wg.Wait()

	reported := map[*fileCase]bool{}
	for _, j := range jobs {
		fc := j.fc
		if fc.genEr != nil {
			if !reported[fc] {
				reported[fc] = true
				t.Fail("C16/generator", "written generator file cannot be read back", string(fc.text), fc.genEr.Error(), "nil")
			}
			continue
		}
		ending := "LF"
		if fc.crlf {
			ending = "CRLF"
		}
		for _, or := range j.out {
			k := or.k
			for mi, mode := range writeModes {
				res := or.writes[mi]
				key := fmt.Sprintf("file%d|%s|write|%s|block%d", fc.idx, ending, mode, k/block)
				input := map[string]any{"file": fc.desc, "nacha_text": string(fc.text), "line_ending": ending, "sink_mode": mode, "sink_accepts_bytes": k,
					"bypass_validation": k%2 == 1, "replay": "ach.NewWriter(sink) with LineEnding/BypassValidation as given; sink accepts the first k bytes then fails as sink_mode says; w.Write(file); w.Flush()"}
				switch {
				case res.panicked != "":
					t.Case(key, "write/"+mode+"/panic", true)
					t.Fail("C16/write-panic/"+mode, "Writer panicked on a failing io.Writer", input, res.panicked, "an error")
				case res.errWrite == nil && res.errFlush == nil:
					t.Case(key, "write/"+mode+"/SUCCESS-REPORTED", true)
					if !bytes.Equal(res.sink, fc.text) {
						t.Fail("C16/write-error-swallowed/"+mode, "Write and Flush both returned nil although the sink did not accept the complete output", input,
							fmt.Sprintf("Write=nil Flush=nil, sink holds %d of %d bytes", len(res.sink), len(fc.text)), "a non-nil error from Write or from Flush")
					}
				case res.errWrite == nil:
					t.Case(key, "write/"+mode+"/error-from-Flush-only", true)
				default:
					t.Case(key, "write/"+mode+"/error-from-Write", true)
				}
			}
			ri := 0
			for _, mode := range readModes {
				for _, ek := range readErrs {
					res := or.reads[ri]
					ri++
					key := fmt.Sprintf("file%d|%s|read|%s|%s|block%d", fc.idx, ending, mode, ek.name, k/block)
					cls := "read/" + ek.name + "/" + window(k) + "/"
					input := map[string]any{"file": fc.desc, "nacha_text": string(fc.text), "line_ending": ending, "source_mode": mode, "source_delivers_bytes": k,
						"source_error": ek.name, "replay": "ach.NewReader(src).Read() where src returns nacha_text[:k] and then the error (source_mode says whether together with the last bytes or on the next call)"}
					switch {
					case res.panicked != "":
						t.Case(key, cls+"panic", true)
						t.Fail("C16/read-panic/"+ek.name, "Reader panicked on a failing io.Reader", input, res.panicked, "an error")
					case res.err == nil:
						t.Case(key, cls+"SWALLOWED", true)
						t.Fail("C16/read-error-swallowed/"+ek.name+"/"+window(k),
							"the io.Reader failed after k bytes but Read returned a file and a nil error", input,
							fmt.Sprintf("err=nil, file with %d batch(es) from the first %d of %d bytes", res.batches, k, len(fc.text)), "a non-nil error")
					case errors.Is(res.err, ek.err) || strings.Contains(res.err.Error(), ek.err.Error()):
						t.Case(key, cls+"io-error-returned", true)
					case res.err.Error() == "nil scanner":
						t.Case(key, cls+"error-nil-scanner", true)
					default:
						t.Case(key, cls+"only-parse-errors-returned", true)
					}
				}
			}
		}
	}
}

func runJob(j *job, f *ach.File) {
	fc := j.fc
	for k := j.lo; k < j.hi; k++ {
		or := offsetResult{k: k}
		for _, mode := range writeModes {
			or.writes = append(or.writes, writeWithFault(f, fc.crlf, k%2 == 1, mode, k))
		}
		for _, mode := range readModes {
			for _, ek := range readErrs {
				or.reads = append(or.reads, readWithFault(fc.text, mode, ek, k))
			}
		}
		j.out = append(j.out, or)
	}
}
