package c18

import (
	"fmt"
	"runtime"
	"sort"
	"strings"
	"sync"
	"sync/atomic"
	"time"

	"github.com/anishathalye/porcupine"
	"github.com/moov-io/ach/server"
	"verif/harness/gen"
	. "verif/harness/oracle"
)

func init() {
	Register("C18", &Oracle{
		Rule: "(a) every sequence of exactly L repository calls over {StoreFile, FindFile, FindAllFiles, DeleteFile, StoreBatch, FindBatch, FindAllBatches, DeleteBatch} " +
			"on nf file IDs x nb batch IDs (quick: 2x2 L=5, 3x3 L=4, 1x1 L=6; search: 2x2 L=6, 3x3 L=4; thorough: 2x2 L=6, 3x3 L=5, 1x3 L=6, 3x1 L=5; shorter sequences are their prefixes), each Store handing over a fresh object, " +
			"run on a fresh server.NewRepositoryInMemory(0,nil), directly and (all calls but StoreFile) through server.NewService over it, and compared call by call (error/no error, identity of the returned objects, listed sets) with a sequential map model; " +
			"every listing a call returned is kept and must still hold the same objects after every later call; the error value of deleting an absent file/batch is not compared (property silent). One recorded case per pair of first two calls. " +
			"(b) seeded concurrent programs: a random pre-populated state, 2..8 goroutines x 1..6 calls on 1..3 file IDs x 1..3 batch IDs lined up on a spinning barrier (at the start, or before every round of calls), each program run 4 times, call/return stamped by an atomic logical clock, " +
			"history checked for linearizability against the same model with porcupine; distinct = distinct program text; non-trivial = at least two clients and one mutating call. " +
			"Only pointer identity of returned objects is inspected, so the oracle is race-free under -race.",
		Run: run,
	})
}

type seqFailure struct {
	sig, what, observed, required string
	input                         any
}

func run(t *T) {
	type cfg struct{ nf, nb, l, bk int }
	var cfgs []cfg
	switch t.Tier {
	case "thorough":
		cfgs = []cfg{{2, 2, 6, bkPlain}, {3, 3, 5, bkPlain}, {1, 3, 6, bkPlain}, {3, 1, 5, bkPlain}, {1, 2, 6, bkReturn}, {1, 2, 6, bkNOC}, {1, 3, 5, bkMixed}, {2, 2, 5, bkReturn}}
	case "search":
		cfgs = []cfg{{2, 2, 6, bkPlain}, {3, 3, 4, bkPlain}, {1, 2, 6, bkReturn}, {1, 2, 6, bkNOC}, {1, 3, 5, bkMixed}}
	default:
		cfgs = []cfg{{2, 2, 5, bkPlain}, {3, 3, 4, bkPlain}, {1, 1, 6, bkPlain}, {1, 2, 5, bkReturn}, {1, 2, 5, bkNOC}, {1, 3, 4, bkMixed}}
	}
	for _, c := range cfgs {
		exhaustive(t, c.nf, c.nb, c.l, c.bk)
	}
	concurrent(t)
}

// exhaustive enumerates all sequences of exactly l calls.
func exhaustive(t *T, nf, nb, l, bk int) {
	alpha := alphabet(nf, nb)
	n := len(alpha)
	type task struct {
		a, b     int
		count    int
		failures []seqFailure
	}
	tasks := make([]*task, 0, n*n)
	for a := 0; a < n; a++ {
		for b := 0; b < n; b++ {
			tasks = append(tasks, &task{a: a, b: b})
		}
	}
	var next int64 = -1
	var wg sync.WaitGroup
	for w := 0; w < runtime.GOMAXPROCS(0); w++ {
		wg.Add(1)
		go func() {
			defer wg.Done()
			seq := make([]op, l)
			idx := make([]int, l)
			for {
				i := int(atomic.AddInt64(&next, 1))
				if i >= len(tasks) {
					return
				}
				tk := tasks[i]
				idx[0], idx[1] = tk.a, tk.b
				for k := 2; k < l; k++ {
					idx[k] = 0
				}
				for {
					for k := 0; k < l; k++ {
						seq[k] = alpha[idx[k]]
						seq[k].tok = k
					}
					tk.count++
					if f := runSequence(seq, bk); f != nil && len(tk.failures) < 3 {
						tk.failures = append(tk.failures, *f)
					}
					// next index vector (positions 2..l-1)
					k := l - 1
					for ; k >= 2; k-- {
						idx[k]++
						if idx[k] < n {
							break
						}
						idx[k] = 0
					}
					if k < 2 {
						break
					}
				}
			}
		}()
	}
	wg.Wait()
	total := 0
	for _, tk := range tasks {
		total += tk.count
	}
	class := fmt.Sprintf("sequential-exhaustive files=%d batches=%d calls=%d len=%d", nf, nb, n, l)
	if bk != bkPlain {
		class += " batch-objects=" + batchKindName[bk]
	}
	for _, tk := range tasks {
		key := fmt.Sprintf("%s: all %d sequences starting %s; %s", class, tk.count, alpha[tk.a], alpha[tk.b])
		t.Case(key, class, true)
		for _, f := range tk.failures {
			t.Fail(f.sig, f.what, f.input, f.observed, f.required)
		}
	}
	t.Case(fmt.Sprintf("%s: %d sequences in all", class, total), fmt.Sprintf("%s total-sequences=%d", class, total), false)
}

// runSequence runs one sequence on a fresh repository against the model.
func runSequence(seq []op, bk int) *seqFailure {
	if f := runSequenceVia(seq, false, bk); f != nil {
		return f
	}
	return runSequenceVia(seq, true, bk)
}

func runSequenceVia(seq []op, service bool, bk int) *seqFailure {
	repo := server.NewRepositoryInMemory(0, nil)
	ob := &objects{files: make([]*fileT, len(seq)), batches: make([]batchT, len(seq)), keepLists: true}
	via := ""
	if service {
		ob.svc = server.NewService(repo)
		via = "service/"
	}
	var s mstate
	for i, o := range seq {
		switch o.kind {
		case kStoreFile:
			ob.files[i] = newFileObj(o.f)
		case kStoreBatch:
			ob.batches[i] = newBatchObj(o.b, bk)
		}
		r := exec(repo, o, ob)
		why, ns := step(s, o, r)
		if why != "" {
			var calls []string
			for _, p := range seq[:i+1] {
				calls = append(calls, p.String())
			}
			return &seqFailure{
				sig:      "C18/sequential/" + via + kindName[o.kind] + "/" + why,
				what:     "the repository disagrees with sequential map semantics at the last call of the sequence",
				input:    map[string]any{"calls": calls, "model_state_before_last_call": s.String()},
				observed: r.String(),
				required: why + " must not happen in model state {" + s.String() + "}",
			}
		}
		s = ns
		if ch := ob.listingChanged(); ch != "" {
			var calls []string
			for _, p := range seq[:i+1] {
				calls = append(calls, p.String())
			}
			return &seqFailure{
				sig:      "C18/sequential/" + via + "listing-changed-after-return/by=" + kindName[o.kind],
				what:     "a listing that had been returned changed when a later call changed the store: it was not a snapshot taken at one instant",
				input:    map[string]any{"calls": calls},
				observed: ch,
				required: "a returned listing keeps the set it had when the call returned",
			}
		}
	}
	return nil
}

// ---- concurrent histories ----

type program struct {
	nf, nb  int
	pre     []op   // executed sequentially before the clients start
	clients [][]op // one slice per goroutine
	nobj    int
	bk      int // what the batch objects hold (bkPlain ...)
}

func (p *program) String() string {
	var sb strings.Builder
	if p.bk != bkPlain {
		sb.WriteString("batch-objects=" + batchKindName[p.bk] + " ")
	}
	sb.WriteString("pre:")
	for _, o := range p.pre {
		sb.WriteString(" " + o.String())
	}
	for i, c := range p.clients {
		fmt.Fprintf(&sb, " | c%d:", i)
		for _, o := range c {
			sb.WriteString(" " + o.String())
		}
	}
	return sb.String()
}

func genProgram(r *gen.Rand) *program {
	p := &program{nf: r.Range(1, 3), nb: r.Range(1, 3)}
	tok := 0
	// pre-populate: each file present with probability 1/2, each batch of a present file with probability 1/2
	for f := 0; f < p.nf; f++ {
		if r.Bool() {
			p.pre = append(p.pre, op{kind: kStoreFile, f: f, tok: tok})
			tok++
			for b := 0; b < p.nb; b++ {
				if r.Bool() {
					p.pre = append(p.pre, op{kind: kStoreBatch, f: f, b: b, tok: tok})
					tok++
				}
			}
		}
	}
	nc := r.Range(2, 8)
	// contention profile: sometimes everything on one file / one batch
	hotF, hotB := -1, -1
	if r.Chance(1, 3) {
		hotF = r.Intn(p.nf)
	}
	if r.Chance(1, 3) {
		hotB = r.Intn(p.nb)
	}
	// kind weights: one of a few mixes
	mixes := [][nKinds]int{
		{1, 1, 1, 1, 1, 1, 1, 1},
		{3, 2, 2, 3, 1, 1, 1, 1}, // file churn
		{1, 1, 0, 0, 4, 3, 3, 4}, // batch churn
		{2, 1, 3, 2, 2, 1, 3, 2}, // listing heavy
	}
	mix := mixes[r.Intn(len(mixes))]
	sum := 0
	for _, w := range mix {
		sum += w
	}
	for c := 0; c < nc; c++ {
		no := r.Range(1, 6)
		var ops []op
		for i := 0; i < no; i++ {
			x := r.Intn(sum)
			k := 0
			for ; k < nKinds; k++ {
				if x < mix[k] {
					break
				}
				x -= mix[k]
			}
			o := op{kind: k, f: r.Intn(p.nf), b: r.Intn(p.nb)}
			if hotF >= 0 && r.Chance(3, 4) {
				o.f = hotF
			}
			if hotB >= 0 && r.Chance(3, 4) {
				o.b = hotB
			}
			if k == kFindAllFiles {
				o.f, o.b = 0, 0
			}
			if k == kStoreFile || k == kStoreBatch {
				o.tok = tok
				tok++
			}
			ops = append(ops, o)
		}
		p.clients = append(p.clients, ops)
	}
	p.nobj = tok
	if r.Chance(1, 3) {
		p.bk = 1 + r.Intn(nBatchKinds-1)
	}
	return p
}

type histOp struct {
	client    int
	o         op
	r         result
	call, ret int64
}

// runProgram executes the program once and returns the history plus the model
// state after the sequential prefix.
func runProgram(p *program, lockstep bool) ([]histOp, mstate, *seqFailure) {
	repo := server.NewRepositoryInMemory(0, nil)
	ob := &objects{files: make([]*fileT, p.nobj), batches: make([]batchT, p.nobj)}
	mk := func(o op) {
		switch o.kind {
		case kStoreFile:
			ob.files[o.tok] = newFileObj(o.f)
		case kStoreBatch:
			ob.batches[o.tok] = newBatchObj(o.b, p.bk)
		}
	}
	for _, o := range p.pre {
		mk(o)
	}
	for _, c := range p.clients {
		for _, o := range c {
			mk(o)
		}
	}
	var s mstate
	for _, o := range p.pre {
		r := exec(repo, o, ob)
		why, ns := step(s, o, r)
		if why != "" {
			return nil, s, &seqFailure{sig: "C18/sequential/" + kindName[o.kind] + "/" + why, what: "sequential pre-population disagrees with the model",
				input: p.String(), observed: r.String(), required: why + " must not happen"}
		}
		s = ns
	}
	var clock int64
	hist := make([][]histOp, len(p.clients))
	var wg sync.WaitGroup
	// Repository calls take well under a microsecond, so the clients are lined up
	// on a spinning barrier: once at the start, or (lockstep) before every round.
	rounds := 1
	if lockstep {
		for _, c := range p.clients {
			if len(c) > rounds {
				rounds = len(c)
			}
		}
	}
	arrived := make([]int64, rounds)
	nc := int64(len(p.clients))
	wait := func(round int) {
		atomic.AddInt64(&arrived[round], 1)
		for spins := 0; atomic.LoadInt64(&arrived[round]) < nc; spins++ {
			if spins > 2000 {
				runtime.Gosched()
			}
		}
	}
	for ci, c := range p.clients {
		wg.Add(1)
		go func(ci int, c []op) {
			defer wg.Done()
			h := make([]histOp, len(c))
			for i := 0; i < rounds || i < len(c); i++ {
				if i < rounds {
					wait(i) // clients that have run out of calls keep attending the barrier
				}
				if i >= len(c) {
					continue
				}
				o := c[i]
				h[i].client, h[i].o = ci, o
				h[i].call = atomic.AddInt64(&clock, 1)
				h[i].r = exec(repo, o, ob)
				h[i].ret = atomic.AddInt64(&clock, 1)
			}
			hist[ci] = h
		}(ci, c)
	}
	wg.Wait()
	var all []histOp
	for _, h := range hist {
		all = append(all, h...)
	}
	return all, s, nil
}

func linModel(init mstate) porcupine.Model {
	return porcupine.Model{
		Init: func() interface{} { return init },
		Step: func(state, input, output interface{}) (bool, interface{}) {
			why, ns := step(state.(mstate), input.(op), output.(result))
			return why == "", ns
		},
		Equal: func(a, b interface{}) bool { return a.(mstate).String() == b.(mstate).String() },
		DescribeOperation: func(in, out interface{}) string {
			return in.(op).String() + " -> " + out.(result).String()
		},
		DescribeState: func(s interface{}) string { return s.(mstate).String() },
	}
}

func concurrent(t *T) {
	n := t.Budget(1500)
	reps := 4 // each program is run several times: the schedule is the runtime's
	progs := make([]*program, n)
	for i := range progs {
		progs[i] = genProgram(t.R.Fork(uint64(i)))
	}
	type outcome struct {
		fail   *seqFailure
		result string
		maxOvl int
	}
	outs := make([]outcome, n)
	var next int64 = -1
	var wg sync.WaitGroup
	// a few programs at a time so that each program's own goroutines really overlap
	workers := runtime.GOMAXPROCS(0) / 8
	if workers < 1 {
		workers = 1
	}
	for w := 0; w < workers; w++ {
		wg.Add(1)
		go func() {
			defer wg.Done()
			for {
				i := int(atomic.AddInt64(&next, 1))
				if i >= n {
					return
				}
				p := progs[i]
				outs[i].result = "linearizable"
				for rep := 0; rep < reps && outs[i].fail == nil; rep++ {
					h, init, f := runProgram(p, rep%2 == 1)
					if f != nil {
						outs[i].fail = f
						break
					}
					ops := make([]porcupine.Operation, len(h))
					for k, x := range h {
						ops[k] = porcupine.Operation{ClientId: x.client, Input: x.o, Call: x.call, Output: x.r, Return: x.ret}
					}
					if o := overlap(h); o > outs[i].maxOvl {
						outs[i].maxOvl = o
					}
					res, info := porcupine.CheckOperationsVerbose(linModel(init), ops, 20*time.Second)
					switch res {
					case porcupine.Ok:
					case porcupine.Unknown:
						outs[i].result = "checker-timeout"
					case porcupine.Illegal:
						outs[i].result = "not-linearizable"
						outs[i].fail = describeIllegal(p, h, init, &info)
					}
				}
			}
		}()
	}
	wg.Wait()
	for i, p := range progs {
		mut := false
		for _, c := range p.clients {
			for _, o := range c {
				if o.kind == kStoreFile || o.kind == kDeleteFile || o.kind == kStoreBatch || o.kind == kDeleteBatch {
					mut = true
				}
			}
		}
		ovl := "overlap=0"
		switch {
		case outs[i].maxOvl >= 4:
			ovl = "overlap>=4"
		case outs[i].maxOvl >= 2:
			ovl = "overlap=2..3"
		case outs[i].maxOvl == 1:
			ovl = "overlap=1"
		}
		t.Case(p.String(), fmt.Sprintf("concurrent clients=%d %s %s", len(p.clients), outs[i].result, ovl), mut)
		if f := outs[i].fail; f != nil {
			t.Fail(f.sig, f.what, f.input, f.observed, f.required)
		}
	}
}

// overlap returns the largest number of calls in flight at the same logical time.
func overlap(h []histOp) int {
	type ev struct {
		t int64
		d int
	}
	var evs []ev
	for _, x := range h {
		evs = append(evs, ev{x.call, 1}, ev{x.ret, -1})
	}
	sort.Slice(evs, func(i, j int) bool { return evs[i].t < evs[j].t })
	cur, best := 0, 0
	for _, e := range evs {
		cur += e.d
		if cur-1 > best {
			best = cur - 1
		}
	}
	return best
}

// describeIllegal names the first call (by invocation time) that no maximal
// partial linearization could place, for a stable signature.
func describeIllegal(p *program, h []histOp, init mstate, info *porcupine.LinearizationInfo) *seqFailure {
	kind := "unknown"
	parts := info.PartialLinearizations()
	if len(parts) > 0 && len(parts[0]) > 0 {
		// longest partial linearization
		best := parts[0][0]
		for _, l := range parts[0] {
			if len(l) > len(best) {
				best = l
			}
		}
		in := map[int]bool{}
		for _, id := range best {
			in[id] = true
		}
		first := -1
		for id := range h {
			if !in[id] && (first < 0 || h[id].call < h[first].call) {
				first = id
			}
		}
		if first >= 0 {
			kind = kindName[h[first].o.kind]
		}
	}
	anomaly := classify(h)
	sort.Slice(h, func(i, j int) bool { return h[i].call < h[j].call })
	var lines []string
	for _, x := range h {
		lines = append(lines, fmt.Sprintf("c%d [%d,%d] %s -> %s", x.client, x.call, x.ret, x.o, x.r))
	}
	return &seqFailure{
		sig:      "C18/concurrent/not-linearizable/" + anomaly,
		what:     "a concurrent history of the repository has no linearization consistent with the sequential map model (first call no maximal partial linearization could place: " + kind + ")",
		input:    map[string]any{"program": p.String(), "state_after_pre": init.String(), "history": lines},
		observed: "no total order of the calls that respects real-time order reproduces the returned results",
		required: "every call takes effect atomically between its call and its return",
	}
}

// classify names the simplest anomaly visible in a history that porcupine has
// already found not linearizable (it only refines the signature).
func classify(h []histOp) string {
	for _, x := range h {
		if x.o.kind == kFindAllFiles || x.o.kind == kFindAllBatches {
			for i, tk := range x.r.toks {
				if tk < 0 || (i > 0 && x.r.toks[i-1] == tk) {
					return "list-with-duplicate-or-foreign-object/" + kindName[x.o.kind]
				}
			}
		}
	}
	deleted := func(f, b int) bool {
		for _, x := range h {
			if x.o.f == f && (x.o.kind == kDeleteFile || (b >= 0 && x.o.kind == kDeleteBatch && x.o.b == b)) {
				return true
			}
		}
		return false
	}
	for i, x := range h {
		for _, y := range h[i+1:] {
			if x.r.err || y.r.err || x.o.kind != y.o.kind || x.o.f != y.o.f {
				continue
			}
			if x.o.kind == kStoreFile && !deleted(x.o.f, -1) {
				return "two-stores-of-one-file-id-succeeded"
			}
			if x.o.kind == kStoreBatch && x.o.b == y.o.b && !deleted(x.o.f, x.o.b) {
				return "two-stores-of-one-batch-id-succeeded"
			}
		}
	}
	return "other"
}
