// Package c18 holds the oracle for property C18: the in-memory file repository
// of the HTTP server behaves as a sequential map of files (each holding a list
// of batches) and is linearizable under concurrent clients.
package c18

import (
	"fmt"
	"sort"
	"strings"

	"github.com/moov-io/ach"
	"github.com/moov-io/ach/server"
)

// Operation kinds of server.Repository.
const (
	kStoreFile = iota
	kFindFile
	kFindAllFiles
	kDeleteFile
	kStoreBatch
	kFindBatch
	kFindAllBatches
	kDeleteBatch
	nKinds
)

var kindName = [nKinds]string{"StoreFile", "FindFile", "FindAllFiles", "DeleteFile", "StoreBatch", "FindBatch", "FindAllBatches", "DeleteBatch"}

const maxIDs = 3

var (
	fileIDs  = [maxIDs]string{"file-A", "file-B", "file-C"}
	batchIDs = [maxIDs]string{"batch-1", "batch-2", "batch-3"}
)

// op is one repository call.  tok names the object handed to a Store call (every
// Store call of a history hands over a fresh object with its own token).
type op struct {
	kind, f, b int
	tok        int
}

func (o op) String() string {
	switch o.kind {
	case kStoreFile:
		return fmt.Sprintf("StoreFile(%s,obj#%d)", fileIDs[o.f], o.tok)
	case kFindFile, kDeleteFile, kFindAllBatches:
		return fmt.Sprintf("%s(%s)", kindName[o.kind], fileIDs[o.f])
	case kFindAllFiles:
		return "FindAllFiles()"
	case kStoreBatch:
		return fmt.Sprintf("StoreBatch(%s,%s,obj#%d)", fileIDs[o.f], batchIDs[o.b], o.tok)
	}
	return fmt.Sprintf("%s(%s,%s)", kindName[o.kind], fileIDs[o.f], batchIDs[o.b])
}

// result is what a call returned, with objects replaced by their tokens
// (-1 = nil, -2 = an object the history never handed over).
type result struct {
	err  bool
	tok  int
	toks []int // sorted
}

func (r result) String() string {
	return fmt.Sprintf("{err=%v obj=%d list=%v}", r.err, r.tok, r.toks)
}

// The sequential specification: a map file ID -> (file object, list of (batch ID, batch object)).
type mbatch struct{ id, tok int }
type mfile struct {
	tok int
	bs  []mbatch
}
type mstate struct{ files [maxIDs]*mfile }

func (s mstate) String() string {
	var sb strings.Builder
	for i, f := range s.files {
		if f == nil {
			continue
		}
		fmt.Fprintf(&sb, "%s=#%d[", fileIDs[i], f.tok)
		for _, b := range f.bs {
			fmt.Fprintf(&sb, "%s=#%d ", batchIDs[b.id], b.tok)
		}
		sb.WriteString("] ")
	}
	return sb.String()
}

func sameToks(got []int, want []int) bool {
	if len(got) != len(want) {
		return false
	}
	sort.Ints(want)
	for i := range got {
		if got[i] != want[i] {
			return false
		}
	}
	return true
}

// step applies one call with its observed result to the model.  It returns a
// stable reason when the result is impossible in state s, and the next state.
// Results the property does not speak about are accepted: the error value of
// deleting a file, or a batch, that is not there.
func step(s mstate, o op, r result) (string, mstate) {
	f := s.files[o.f]
	switch o.kind {
	case kStoreFile:
		if f != nil {
			if !r.err {
				return "second-store-of-existing-id-succeeded", s
			}
			return "", s
		}
		if r.err {
			return "store-of-new-id-failed", s
		}
		s.files[o.f] = &mfile{tok: o.tok}
		return "", s
	case kFindFile:
		if f == nil {
			if !r.err || r.tok != -1 {
				return "found-a-file-that-is-not-stored", s
			}
			return "", s
		}
		if r.err {
			return "stored-file-not-found", s
		}
		if r.tok != f.tok {
			return "found-a-different-object", s
		}
		return "", s
	case kFindAllFiles:
		var want []int
		for _, g := range s.files {
			if g != nil {
				want = append(want, g.tok)
			}
		}
		if !sameToks(r.toks, want) {
			return "list-differs-from-stored-set", s
		}
		return "", s
	case kDeleteFile:
		if f != nil && r.err {
			return "delete-of-stored-file-failed", s
		}
		s.files[o.f] = nil
		return "", s
	case kStoreBatch:
		if f == nil {
			if !r.err {
				return "batch-stored-in-missing-file", s
			}
			return "", s
		}
		for _, b := range f.bs {
			if b.id == o.b {
				if !r.err {
					return "second-store-of-existing-batch-id-succeeded", s
				}
				return "", s
			}
		}
		if r.err {
			return "store-of-new-batch-failed", s
		}
		nf := &mfile{tok: f.tok, bs: append(append([]mbatch(nil), f.bs...), mbatch{o.b, o.tok})}
		s.files[o.f] = nf
		return "", s
	case kFindBatch:
		if f != nil {
			for _, b := range f.bs {
				if b.id == o.b {
					if r.err {
						return "stored-batch-not-found", s
					}
					if r.tok != b.tok {
						return "found-a-different-batch-object", s
					}
					return "", s
				}
			}
		}
		if !r.err || r.tok != -1 {
			return "found-a-batch-that-is-not-stored", s
		}
		return "", s
	case kFindAllBatches:
		var want []int
		if f != nil {
			for _, b := range f.bs {
				want = append(want, b.tok)
			}
		}
		if !sameToks(r.toks, want) {
			return "batch-list-differs-from-stored-set", s
		}
		return "", s
	case kDeleteBatch:
		if f != nil {
			for i, b := range f.bs {
				if b.id == o.b {
					if r.err {
						return "delete-of-stored-batch-failed", s
					}
					nb := append([]mbatch(nil), f.bs[:i]...)
					nb = append(nb, f.bs[i+1:]...)
					s.files[o.f] = &mfile{tok: f.tok, bs: nb}
					return "", s
				}
			}
		}
		return "", s
	}
	return "unknown-op", s
}

// objects are the things handed to Store calls, indexed by token.
type objects struct {
	files   []*ach.File
	batches []ach.Batcher
	// svc, when set, is the server's Service over the same repository: every call but StoreFile goes through it
	svc server.Service
	// keptLists: every listing a call returned, with the tokens it had when it returned (sequential runs only)
	keepLists bool
	keptB     []keptBatches
	keptF     []keptFiles
}

type keptBatches struct {
	at   int
	list []ach.Batcher
	toks []int
}

type keptFiles struct {
	at   int
	list []*ach.File
	toks []int
}

func (ob *objects) fileTok(f *ach.File) int {
	if f == nil {
		return -1
	}
	for i, g := range ob.files {
		if g == f {
			return i
		}
	}
	return -2
}

func (ob *objects) batchTok(b ach.Batcher) int {
	if b == nil {
		return -1
	}
	for i, g := range ob.batches {
		if g != nil && g == b {
			return i
		}
	}
	return -2
}

func newFileObj(f int) *ach.File {
	x := ach.NewFile()
	x.ID = fileIDs[f]
	return x
}

// batch kinds: what the objects handed to StoreBatch hold.  Under bkReturn / bkNOC every batch object of a run has the
// same content (a return / a notification of change received twice) and differs only in its ID; bkMixed alternates.
const (
	bkPlain = iota
	bkReturn
	bkNOC
	bkMixed
	nBatchKinds
)

var batchKindName = []string{"plain", "return", "noc", "mixed"}

func newBatchObj(b int, bk int) ach.Batcher {
	if bk == bkMixed {
		bk = b % 3
	}
	var x ach.Batcher
	switch bk {
	case bkReturn:
		bh := ach.NewBatchHeader()
		bh.ServiceClassCode = ach.DebitsOnly
		bh.StandardEntryClassCode = ach.PPD
		bh.CompanyName = "Your Company"
		bh.CompanyIdentification = "121042882"
		bh.CompanyEntryDescription = "RETURN"
		bh.ODFIIdentification = "12104288"
		ed := ach.NewEntryDetail()
		ed.TransactionCode = ach.CheckingReturnNOCDebit
		ed.SetRDFI("231380104")
		ed.DFIAccountNumber = "123456789"
		ed.Amount = 12345
		ed.IndividualName = "Wade Arnold"
		ed.SetTraceNumber(bh.ODFIIdentification, 1)
		ed.Category = ach.CategoryReturn
		a99 := ach.NewAddenda99()
		a99.ReturnCode = "R01"
		a99.OriginalTrace = "121042880000001"
		a99.OriginalDFI = "12104288"
		ed.Addenda99 = a99
		ed.AddendaRecordIndicator = 1
		pb := ach.NewBatchPPD(bh)
		pb.AddEntry(ed)
		x = pb
	case bkNOC:
		bh := ach.NewBatchHeader()
		bh.ServiceClassCode = ach.CreditsOnly
		bh.StandardEntryClassCode = ach.COR
		bh.CompanyName = "Your Company"
		bh.CompanyIdentification = "121042882"
		bh.CompanyEntryDescription = "NOC"
		bh.ODFIIdentification = "12104288"
		ed := ach.NewEntryDetail()
		ed.TransactionCode = ach.CheckingReturnNOCCredit
		ed.SetRDFI("231380104")
		ed.DFIAccountNumber = "123456789"
		ed.Amount = 0
		ed.IndividualName = "Wade Arnold"
		ed.SetTraceNumber(bh.ODFIIdentification, 1)
		ed.Category = ach.CategoryNOC
		a98 := ach.NewAddenda98()
		a98.ChangeCode = "C01"
		a98.OriginalTrace = "121042880000001"
		a98.OriginalDFI = "12104288"
		a98.CorrectedData = "1918171614"
		ed.Addenda98 = a98
		ed.AddendaRecordIndicator = 1
		cb := ach.NewBatchCOR(bh)
		cb.AddEntry(ed)
		x = cb
	default:
		x = ach.NewBatchPPD(ach.NewBatchHeader())
	}
	x.SetID(batchIDs[b])
	x.GetHeader().ID = batchIDs[b] // what Service.CreateBatch takes the batch's ID from
	return x
}

// exec runs one call against the repository.  It only compares pointers and never
// looks inside a returned object, so it is safe to call from many goroutines.
func exec(repo server.Repository, o op, ob *objects) result {
	r := result{tok: -1}
	svc := ob.svc
	switch o.kind {
	case kStoreFile:
		r.err = repo.StoreFile(ob.files[o.tok]) != nil
	case kFindFile:
		var f *ach.File
		var err error
		if svc != nil {
			f, err = svc.GetFile(fileIDs[o.f])
		} else {
			f, err = repo.FindFile(fileIDs[o.f])
		}
		r.err, r.tok = err != nil, ob.fileTok(f)
	case kFindAllFiles:
		var fs []*ach.File
		if svc != nil {
			fs = svc.GetFiles()
		} else {
			fs = repo.FindAllFiles()
		}
		r.toks = make([]int, 0, len(fs))
		for _, f := range fs {
			r.toks = append(r.toks, ob.fileTok(f))
		}
		if ob.keepLists {
			ob.keptF = append(ob.keptF, keptFiles{len(ob.keptF) + len(ob.keptB), fs, append([]int(nil), r.toks...)})
		}
		sort.Ints(r.toks)
	case kDeleteFile:
		if svc != nil {
			r.err = svc.DeleteFile(fileIDs[o.f]) != nil
		} else {
			r.err = repo.DeleteFile(fileIDs[o.f]) != nil
		}
	case kStoreBatch:
		if svc != nil {
			_, err := svc.CreateBatch(fileIDs[o.f], ob.batches[o.tok])
			r.err = err != nil
		} else {
			r.err = repo.StoreBatch(fileIDs[o.f], ob.batches[o.tok]) != nil
		}
	case kFindBatch:
		var b ach.Batcher
		var err error
		if svc != nil {
			b, err = svc.GetBatch(fileIDs[o.f], batchIDs[o.b])
		} else {
			b, err = repo.FindBatch(fileIDs[o.f], batchIDs[o.b])
		}
		r.err, r.tok = err != nil, ob.batchTok(b)
	case kFindAllBatches:
		var bs []ach.Batcher
		if svc != nil {
			bs = svc.GetBatches(fileIDs[o.f])
		} else {
			bs = repo.FindAllBatches(fileIDs[o.f])
		}
		r.toks = make([]int, 0, len(bs))
		for _, b := range bs {
			r.toks = append(r.toks, ob.batchTok(b))
		}
		if ob.keepLists {
			ob.keptB = append(ob.keptB, keptBatches{len(ob.keptF) + len(ob.keptB), bs, append([]int(nil), r.toks...)})
		}
		sort.Ints(r.toks)
	case kDeleteBatch:
		if svc != nil {
			r.err = svc.DeleteBatch(fileIDs[o.f], batchIDs[o.b]) != nil
		} else {
			r.err = repo.DeleteBatch(fileIDs[o.f], batchIDs[o.b]) != nil
		}
	}
	return r
}

// listingChanged: a listing that a call returned earlier no longer holds the objects it held when it returned (it
// shares memory with the repository, which later calls changed)
func (ob *objects) listingChanged() string {
	for _, k := range ob.keptB {
		for i, b := range k.list {
			if ob.batchTok(b) != k.toks[i] {
				return fmt.Sprintf("batch listing returned as %v now reads element %d = object %d", k.toks, i, ob.batchTok(b))
			}
		}
	}
	for _, k := range ob.keptF {
		for i, f := range k.list {
			if ob.fileTok(f) != k.toks[i] {
				return fmt.Sprintf("file listing returned as %v now reads element %d = object %d", k.toks, i, ob.fileTok(f))
			}
		}
	}
	return ""
}

// alphabet lists every call over nf file IDs and nb batch IDs.
func alphabet(nf, nb int) []op {
	var out []op
	for k := 0; k < nKinds; k++ {
		switch k {
		case kFindAllFiles:
			out = append(out, op{kind: k})
		case kStoreFile, kFindFile, kDeleteFile, kFindAllBatches:
			for f := 0; f < nf; f++ {
				out = append(out, op{kind: k, f: f})
			}
		default:
			for f := 0; f < nf; f++ {
				for b := 0; b < nb; b++ {
					out = append(out, op{kind: k, f: f, b: b})
				}
			}
		}
	}
	return out
}

type fileT = ach.File
type batchT = ach.Batcher
