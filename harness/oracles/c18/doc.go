// Package c18 holds the oracle for property C18.
package c18
