// Package c06 holds the oracle for property C06.
package c06
