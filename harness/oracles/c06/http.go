package c06

import (
	"bytes"
	"encoding/json"
	"fmt"
	"net/http"
	"net/http/httptest"
	"strings"
	"sync/atomic"

	kitlog "github.com/go-kit/log"
	"github.com/moov-io/ach"
	"github.com/moov-io/ach/server"
	"github.com/moov-io/base/log"
	"verif/harness/gen"
	. "verif/harness/oracle"
)

// newHandler builds the handler exactly as /repo/cmd/server/main.go does
// (in-memory repository without TTL, service, MakeHTTPHandler), with silent loggers.
func newHandler() http.Handler {
	repo := server.NewRepositoryInMemory(0, log.NewNopLogger())
	svc := server.NewService(repo)
	return server.MakeHTTPHandler(svc, repo, kitlog.NewNopLogger())
}

type body struct {
	name string
	data []byte
}

type request struct {
	method, path, route, ct string
	body                    body
}

var methods = []string{"GET", "POST", "PUT", "DELETE", "OPTIONS", "HEAD", "PATCH"}

var contentTypes = []string{"", "text/plain", "application/json", "Application/JSON; charset=utf-8", "application/octet-stream", "multipart/form-data; boundary=x"}

// path templates: the 17 distinct paths of the 18 routes, plus paths no route matches
var pathTemplates = []string{
	"/ping", "/files", "/segment", "/nope", "/files/",
	"/files/{id}", "/files/{id}/build", "/files/{id}/contents", "/files/{id}/validate", "/files/{id}/batches",
	"/files/{id}/batches/{bid}", "/files/{id}/balance", "/files/{id}/segment", "/files/{id}/flatten", "/files/{id}/nope",
}

var queries = []string{"", "?skipAll=true", "?allowMissingFileHeader=true&allowMissingFileControl=true&allowZeroBatches=true&bypassOrigin=true&bypassDestination=true",
	"?customTraceNumbers=maybe", "?preserveSpaces=true&allowSpecialCharacters=true&unequalAddendaCounts=true&allowInvalidAmounts=true"}

var lineEndings = []string{"-", "CRLF", "LF", "", "x", "crlf"}

var seededIDs = []string{"e1", "e2", "e3", "e4", "e5", "e6", "e7"}

func mustJSON(v any) []byte {
	b, err := json.Marshal(v)
	if err != nil {
		return []byte("null")
	}
	return b
}

// replaceLeaf decodes doc, replaces the first leaf whose path ends in key, and re-encodes.
func replaceLeaf(doc []byte, key string, v any) []byte {
	var root any
	dec := json.NewDecoder(bytes.NewReader(doc))
	dec.UseNumber()
	if dec.Decode(&root) != nil {
		return doc
	}
	var ls []leaf
	leaves(root, nil, &ls)
	for _, l := range ls {
		if k, ok := l.path[len(l.path)-1].(string); ok && k == key {
			setAt(root, l.path, v)
			break
		}
	}
	return mustJSON(root)
}

func firstBatchJSON(doc []byte) []byte {
	var m map[string]json.RawMessage
	if json.Unmarshal(doc, &m) != nil {
		return []byte("{}")
	}
	for _, k := range []string{"batches", "IATBatches"} {
		var arr []json.RawMessage
		if json.Unmarshal(m[k], &arr) == nil && len(arr) > 0 {
			return arr[0]
		}
	}
	return []byte("{}")
}

type httpFixtures struct {
	bodies []body
	seeds  []request // requests that create the seeded files e1..e6
	offset body
	valid  map[string]body
}

func buildHTTPFixtures(t *T, r *gen.Rand) *httpFixtures {
	fx := &httpFixtures{valid: map[string]body{}}
	mk := func(i int, o gen.Opts) *ach.File {
		f, err := gen.File(r.Fork(uint64(i)), o)
		if err != nil {
			t.Fail("C06/generator", "generator failed", fmt.Sprint(o.SECs), err.Error(), "a valid file")
			return nil
		}
		return f
	}
	text := func(f *ach.File) []byte {
		if f == nil {
			return nil
		}
		b, _ := gen.Write(f, false)
		return b
	}
	ppd := mk(1, gen.Opts{SECs: []string{"PPD"}, MinBatches: 2, MaxBatches: 2, MaxEntries: 4})
	ccd := mk(2, gen.Opts{SECs: []string{"CCD", "CTX"}, MinBatches: 2, MaxBatches: 3, MaxEntries: 4, ServiceClasses: []int{200}})
	iat := mk(3, gen.Opts{SECs: []string{"IAT"}, MaxBatches: 2})
	adv := mk(4, gen.Opts{SECs: []string{"ADV"}, MaxBatches: 2})
	trc := mk(5, gen.Opts{SECs: []string{"TRC", "XCK", "SHR"}, MinBatches: 3, MaxBatches: 3})
	ret := mk(6, gen.Opts{SECs: []string{"WEB", "COR", "TEL"}, Categories: gen.AllCategories(), MinBatches: 3, MaxBatches: 3})
	off := mk(7, gen.Opts{SECs: []string{"PPD", "CCD"}, Offset: true, MinBatches: 2, MaxBatches: 2, MaxEntries: 4})
	if ppd == nil || ccd == nil || iat == nil || adv == nil || trc == nil || ret == nil || off == nil {
		return nil
	}
	add := func(name string, data []byte) body {
		b := body{name, data}
		fx.bodies = append(fx.bodies, b)
		return b
	}
	nPPD := add("nacha-valid-ppd", text(ppd))
	nIAT := add("nacha-valid-iat", text(iat))
	nADV := add("nacha-valid-adv", text(adv))
	add("nacha-valid-returns-crlf", bytes.ReplaceAll(text(ret), []byte("\n"), []byte("\r\n")))
	pool := [][]byte{text(ppd), text(iat), text(adv), text(ret), text(trc)}
	mr := r.Fork(100)
	for i := 0; i < 5; i++ {
		m, label := Mutate(mr, pool[i%len(pool)], pool)
		add(fmt.Sprintf("nacha-mutated-%d(%s)", i, label), m)
	}
	ms := mixedSeeds(r.Fork(200))
	if len(ms) < 2 {
		return nil
	}
	nMixed := add("nacha-mixed-adv-then-standard", ms[0].data)
	add("nacha-mixed-standard-then-adv", ms[1].data)
	tp := text(ppd)
	nTrunc := add("nacha-truncated", tp[:len(tp)*2/3])
	add("nacha-one-line", bytes.ReplaceAll(tp, []byte("\n"), nil))
	jCCD := add("json-valid-ccd-ctx", mustJSON(ccd))
	add("json-valid-ppd-offset", mustJSON(off))
	add("json-valid-iat", mustJSON(iat))
	add("json-valid-adv", mustJSON(adv))
	jTRC := add("json-valid-trc-xck-shr", mustJSON(trc))
	add("json-returns", mustJSON(ret))
	if f := mk(8, gen.Opts{SECs: []string{"TRC"}, MinBatches: 1, MaxBatches: 1}); f != nil {
		add("json-trc-individualName-1", replaceLeaf(mustJSON(f), "individualName", "A"))
		add("json-trc-individualName-7", replaceLeaf(mustJSON(f), "individualName", "ABCDEFG"))
	}
	if f := mk(9, gen.Opts{SECs: []string{"SHR"}, MinBatches: 1, MaxBatches: 1}); f != nil {
		add("json-shr-identificationNumber-1", replaceLeaf(mustJSON(f), "identificationNumber", "1"))
	}
	add("json-huge-amount", replaceLeaf(jCCD.data, "amount", json.Number("99999999999999999")))
	add("json-negative-batchNumber", replaceLeaf(jCCD.data, "batchNumber", json.Number("-1")))
	add("json-nonascii-origin", replaceLeaf(jCCD.data, "immediateOrigin", "漢字テスト"))
	add("json-null-header", replaceLeaf(jCCD.data, "immediateDestination", nil))
	for _, g := range []string{"{", "null", "[]", `{"batches":[null]}`, `{"fileHeader":{},"batches":[{}],"IATBatches":[{}]}`, `{"batches":[{"batchHeader":{"standardEntryClassCode":"ZZZ"}}]}`} {
		add("json-garbage "+g, []byte(g))
	}
	add("batch-valid", firstBatchJSON(jCCD.data))
	add("batch-iat", firstBatchJSON(mustJSON(iat)))
	add("batch-short-individualName", firstBatchJSON(replaceLeaf(jTRC.data, "individualName", "")))
	fx.offset = add("offset-valid", []byte(`{"routingNumber":"121042882","accountNumber":"123456789","accountType":"checking","description":"OFFSET"}`))
	add("offset-savings-long", []byte(`{"routingNumber":"231380104","accountNumber":"`+strings.Repeat("9", 40)+`","accountType":"savings","description":"`+strings.Repeat("d", 200)+`"}`))
	add("offset-bad-routing", []byte(`{"routingNumber":"1","accountNumber":"1","accountType":"checking"}`))
	add("offset-bad-type", []byte(`{"routingNumber":"121042882","accountNumber":"1","accountType":"loan"}`))
	add("segment-wrapper-valid", []byte(`{"file":`+string(jCCD.data)+`,"opts":{},"validateOpts":{"bypassOriginValidation":true}}`))
	add("segment-wrapper-null-file", []byte(`{"file":null,"opts":null,"validateOpts":{"skipAll":true}}`))
	add("segment-wrapper-no-file", []byte(`{"opts":{}}`))
	add("validate-opts-json", []byte(`{"skipAll":false,"allowZeroBatches":true,"allowMissingFileHeader":true,"allowMissingFileControl":true}`))
	add("empty", nil)
	hugeN := 100 << 10
	if t.Tier != "quick" {
		hugeN = 1 << 20
	}
	lines := bytes.SplitAfter(tp, []byte("\n"))
	var huge bytes.Buffer
	huge.Write(lines[0])
	huge.Write(lines[1])
	for huge.Len() < hugeN {
		huge.Write(lines[2])
	}
	add("huge-nacha-entries", huge.Bytes())
	add("huge-json-string", []byte(`{"fileHeader":{"immediateOriginName":"`+strings.Repeat("A", hugeN)+`"}}`))
	add("huge-garbage", bytes.Repeat([]byte("A\xff9 "), hugeN/4))

	fx.valid["ppd"], fx.valid["iat"], fx.valid["adv"], fx.valid["ccd"], fx.valid["trunc"] = nPPD, nIAT, nADV, jCCD, nTrunc
	fx.seeds = []request{
		{"POST", "/files/e1", "/files/{id}", "text/plain", nPPD},
		{"POST", "/files/e2", "/files/{id}", "application/json", jCCD},
		{"POST", "/files/e3", "/files/{id}", "text/plain", nIAT},
		{"POST", "/files/e4", "/files/{id}", "text/plain", nADV},
		{"POST", "/files/e5?allowMissingFileControl=true", "/files/{id}", "text/plain", nTrunc},
		{"POST", "/files/e6", "/files/{id}", "application/json", jTRC},
		{"POST", "/files/e7", "/files/{id}", "text/plain", nMixed},
	}
	return fx
}

// serve sends one request through handler.ServeHTTP under the guard.
func serve(h http.Handler, rq request) (outcome, int) {
	var cur atomic.Value
	cur.Store("http:" + rq.method + " " + rq.route)
	code := 0
	o := guard(&cur, func() {
		req := httptest.NewRequest(rq.method, rq.path, bytes.NewReader(rq.body.data))
		if rq.ct != "" {
			req.Header.Set("Content-Type", rq.ct)
		}
		req.Header.Set("Origin", "https://example.com")
		if le := lineEndings[len(rq.path+rq.body.name+rq.ct)%len(lineEndings)]; le != "-" {
			req.Header.Set("X-Line-Ending", le)
		}
		if len(rq.body.name)%2 == 0 {
			req.Header.Set("X-Request-ID", "req-1")
		}
		rec := httptest.NewRecorder()
		h.ServeHTTP(rec, req)
		code = rec.Code
	})
	return o, code
}

type hist struct {
	rq   request
	code int
}

func (h hist) String() string {
	return fmt.Sprintf("%s %s [%s] body=%s -> %d", h.rq.method, h.rq.path, h.rq.ct, h.rq.body.name, h.code)
}

func reqInput(rq request, history []hist) map[string]any {
	lines := []string{}
	bodies := map[string]string{}
	for _, h := range history {
		lines = append(lines, h.String())
		if _, ok := bodies[h.rq.body.name]; !ok && h.rq.body.name != rq.body.name {
			d := h.rq.body.data
			if len(d) > 6000 {
				d = d[:6000]
			}
			bodies[h.rq.body.name] = clipQ(d)
		}
	}
	return map[string]any{"method": rq.method, "path": rq.path, "content_type": rq.ct, "body_name": rq.body.name, "body_go_quoted": clipQ(rq.body.data),
		"earlier_state_changing_requests_on_this_handler": lines, "earlier_bodies_go_quoted": bodies,
		"replay": "handler built as cmd/server/main.go does (server.NewRepositoryInMemory, server.NewService, server.MakeHTTPHandler); handler.ServeHTTP(httptest.NewRecorder(), request) after the listed earlier requests"}
}

func codeClass(code int) string {
	if code == 0 {
		return "no-response"
	}
	return fmt.Sprintf("%dxx", code/100)
}

func runHTTP(t *T) {
	fx := buildHTTPFixtures(t, t.R.Fork(7))
	if fx == nil {
		return
	}
	runHTTPCross(t, fx)
	runHTTPWalks(t, fx)
}

// runHTTPCross: one handler, seeded files, the full cross product in a fixed order.
func runHTTPCross(t *T, fx *httpFixtures) {
	h := newHandler()
	var history []hist
	note := func(rq request, code int) {
		if rq.method != "GET" && rq.method != "HEAD" && rq.method != "OPTIONS" && code >= 200 && code < 300 {
			history = append(history, hist{rq, code})
		}
	}
	relevant := func(rq request) []hist {
		id := ""
		if parts := strings.Split(strings.SplitN(rq.path, "?", 2)[0], "/"); len(parts) > 2 && parts[1] == "files" {
			id = parts[2]
		}
		var out []hist
		for _, hline := range history {
			if id != "" && strings.Contains(hline.rq.path, "/files/"+id) {
				out = append(out, hline)
			}
		}
		if len(out) > 40 {
			out = append(out[:5:5], out[len(out)-35:]...)
		}
		return out
	}
	seedFile := func(i int) bool {
		rq := fx.seeds[i]
		o, code := serve(h, rq)
		if o.bad() {
			f := toFinding(o, reqInput(rq, relevant(rq)))
			t.Fail(f.sig, f.what, f.input, f.observed, f.required)
			return false
		}
		note(rq, code)
		return true
	}
	for i := range fx.seeds {
		seedFile(i)
	}
	count := 0
	for _, tmpl := range pathTemplates {
		idKinds := []string{""}
		if strings.Contains(tmpl, "{id}") {
			idKinds = []string{"existing", "missing", "create"}
		}
		for _, idKind := range idKinds {
			for _, method := range methods {
				for _, ct := range contentTypes {
					for _, b := range fx.bodies {
						if hangs.Load() >= maxHangs {
							t.Case("", "http/skipped-after-too-many-hangs", false)
							continue
						}
						count++
						path := tmpl
						seedIdx := -1
						switch idKind {
						case "existing":
							seedIdx = count % len(seededIDs)
							path = strings.ReplaceAll(path, "{id}", seededIDs[seedIdx])
						case "missing":
							path = strings.ReplaceAll(path, "{id}", "missing")
						case "create":
							path = strings.ReplaceAll(path, "{id}", "create")
						}
						path = strings.ReplaceAll(path, "{bid}", []string{"b1", "missing", "b2"}[count%3])
						if method == "POST" && (tmpl == "/files/{id}" || tmpl == "/files/{id}/validate") {
							path += queries[count%len(queries)]
						}
						rq := request{method, path, tmpl, ct, b}
						o, code := serve(h, rq)
						key := fmt.Sprintf("%s %s id=%s ct=%q body=%s", method, tmpl, idKind, ct, b.name)
						cls := fmt.Sprintf("http/%s %s/%s", method, tmpl, codeClass(code))
						if code == 404 || code == 405 {
							cls = fmt.Sprintf("http/(any)/%d", code)
						}
						t.Case(key, cls, true)
						if o.bad() {
							f := toFinding(o, reqInput(rq, relevant(rq)))
							t.Fail(f.sig, f.what, f.input, f.observed, f.required)
						}
						note(rq, code)
						// keep the seeded files present: re-create after deletions and after the id was overwritten
						if seedIdx >= 0 && code < 300 && (method == "DELETE" || (method == "POST" && tmpl == "/files/{id}")) {
							seedFile(seedIdx)
						}
					}
				}
			}
		}
	}
}

// runHTTPWalks: stateful random walks, each on a fresh handler.
func runHTTPWalks(t *T, fx *httpFixtures) {
	n := t.Budget(300)
	base := t.R.Fork(8)
	rands := make([]*gen.Rand, n)
	for i := range rands {
		rands[i] = base.Fork(uint64(i))
	}
	type step struct {
		method, tmpl string
		bodies       []string // name prefixes to draw the body from; empty = no body
	}
	steps := []step{
		{"POST", "/files/{id}", []string{"nacha-", "json-"}},
		{"POST", "/files/{id}/batches", []string{"batch-"}},
		{"POST", "/files/{id}/balance", []string{"offset-"}},
		{"POST", "/files/{id}/balance", []string{"offset-valid"}},
		{"POST", "/files/{id}/segment", []string{"empty", "validate-opts"}},
		{"POST", "/files/{id}/flatten", nil},
		{"POST", "/files/{id}/validate", []string{"empty", "validate-opts"}},
		{"GET", "/files/{id}/validate", nil},
		{"GET", "/files/{id}/build", nil},
		{"GET", "/files/{id}/contents", nil},
		{"GET", "/files/{id}", nil},
		{"GET", "/files", nil},
		{"GET", "/files/{id}/batches", nil},
		{"GET", "/files/{id}/batches/{bid}", nil},
		{"DELETE", "/files/{id}/batches/{bid}", nil},
		{"POST", "/segment", []string{"segment-wrapper", "nacha-", "json-"}},
	}
	pickBody := func(r *gen.Rand, prefixes []string) body {
		if len(prefixes) == 0 {
			return body{"empty", nil}
		}
		p := gen.Pick(r, prefixes)
		var c []body
		for _, b := range fx.bodies {
			if strings.HasPrefix(b.name, p) && !strings.HasPrefix(b.name, "huge") {
				c = append(c, b)
			}
		}
		if len(c) == 0 {
			return body{"empty", nil}
		}
		return gen.Pick(r, c)
	}
	rs := parallel(n, func(i int) caseResult {
		if hangs.Load() >= maxHangs {
			return caseResult{class: "http-walk/skipped-after-too-many-hangs"}
		}
		r := rands[i]
		h := newHandler()
		var history []hist
		res := caseResult{nontrivial: true, class: "http-walk/ok"}
		// start from a stored file
		first := request{"POST", "/files/w1", "/files/{id}", "application/json", pickBody(r, []string{"json-valid", "json-returns"})}
		if r.Bool() {
			first = request{"POST", "/files/w1", "/files/{id}", "text/plain", pickBody(r, []string{"nacha-"})}
		}
		walk := []request{first}
		for k := 1 + r.Intn(7); k > 0; k-- {
			s := gen.Pick(r, steps)
			b := pickBody(r, s.bodies)
			ct := "application/json"
			if strings.HasPrefix(b.name, "nacha-") {
				ct = "text/plain"
			}
			path := strings.ReplaceAll(strings.ReplaceAll(s.tmpl, "{id}", "w1"), "{bid}", gen.Pick(r, []string{"b1", "b2", "missing"}))
			walk = append(walk, request{s.method, path, s.tmpl, ct, b})
		}
		var keys []string
		for _, rq := range walk {
			keys = append(keys, rq.method+" "+rq.route+" "+rq.body.name)
			o, code := serve(h, rq)
			if o.bad() {
				res.class = "http-walk/FAILED"
				res.fails = append(res.fails, toFinding(o, reqInput(rq, history)))
				break
			}
			history = append(history, hist{rq, code})
		}
		res.key = strings.Join(keys, " ; ")
		return res
	})
	report(t, rs)
}
