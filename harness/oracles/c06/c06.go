// Package c06 holds the oracle for property C06: no input makes the library
// or the HTTP server panic or hang.
package c06

import (
	"bytes"
	"encoding/json"
	"fmt"
	"hash/fnv"
	"io/fs"
	"os"
	"path/filepath"
	"runtime"
	"sort"
	"strconv"
	"strings"
	"sync"
	"sync/atomic"

	"github.com/moov-io/ach"
	"verif/harness/gen"
	. "verif/harness/oracle"
)

type finding struct {
	sig, what          string
	input              any
	observed, required string
}

type caseResult struct {
	key, class string
	nontrivial bool
	fails      []finding
}

// parallel evaluates fn(i) for i in [0,n) on a worker pool and returns the
// results by index, so that reporting is independent of scheduling.
func parallel(n int, fn func(i int) caseResult) []caseResult {
	out := make([]caseResult, n)
	workers := runtime.GOMAXPROCS(0)
	if workers > 16 {
		workers = 16
	}
	var next atomic.Int64
	var wg sync.WaitGroup
	for w := 0; w < workers; w++ {
		wg.Add(1)
		go func() {
			defer wg.Done()
			for {
				i := int(next.Add(1)) - 1
				if i >= n {
					return
				}
				out[i] = fn(i)
			}
		}()
	}
	wg.Wait()
	return out
}

func report(t *T, rs []caseResult) {
	for _, c := range rs {
		t.Case(c.key, c.class, c.nontrivial)
		for _, f := range c.fails {
			t.Fail(f.sig, f.what, f.input, f.observed, f.required)
		}
	}
}

func hash(b []byte) string {
	h := fnv.New64a()
	h.Write(b)
	return strconv.FormatUint(h.Sum64(), 36)
}

func clipQ(b []byte) string {
	if len(b) > 30000 {
		return strconv.Quote(string(b[:30000])) + fmt.Sprintf("…(+%d bytes)", len(b)-30000)
	}
	return strconv.Quote(string(b))
}

// family maps the operation in progress to the coarse trigger used in the
// signature (the precise operation goes into the description): which
// operations reach a given panic site is a fixed small set, but which of them
// a particular seed happens to hit is not, and signatures must be stable.
func family(op string) string {
	switch {
	case op == "Reader.Read" || op == "FileFromJSON":
		return op
	case strings.HasPrefix(op, "http:"):
		return "http"
	}
	return "file-ops"
}

// toFinding turns a bad outcome into a failure with a signature made of the
// panic site, the panic class and the trigger family.
func toFinding(o outcome, input map[string]any) finding {
	input["stack"] = o.stack
	input["operation"] = o.op
	if o.hung {
		return finding{
			sig:      fmt.Sprintf("C06/hang/%s/via=%s", o.site, family(o.op)),
			what:     "operation " + o.op + " did not terminate within " + hangTimeout.String() + " (spinning in " + o.site + ")",
			input:    input,
			observed: "still running in " + o.site,
			required: "termination with a value or an error",
		}
	}
	return finding{
		sig:      fmt.Sprintf("C06/panic/%s/%s/via=%s", o.site, o.kind, family(o.op)),
		what:     "panic in " + o.site + " during " + o.op,
		input:    input,
		observed: "panic: " + o.msg,
		required: "a value or an error",
	}
}

type seed struct {
	name string
	data []byte
}

func genOpts(i int, sec string) gen.Opts {
	o := gen.Opts{SECs: []string{sec}, MaxBatches: 2, MaxEntries: 3}
	switch i % 4 {
	case 1:
		o.Categories = gen.AllCategories()
	case 2:
		o.Offset = true
		o.MaxEntries = 4
	case 3:
		o.Categories = []string{ach.CategoryForward, ach.CategoryReturn, ach.CategoryNOC}
		o.NonASCII = true
		o.FullWidth = true
	}
	return o
}

// generatorFiles builds valid files, every SEC code `rounds` times with varying options.
func generatorFiles(r *gen.Rand, rounds int) []*ach.File {
	var out []*ach.File
	secs := gen.AllSECs()
	for i := 0; i < rounds*len(secs); i++ {
		f, err := gen.File(r.Fork(uint64(i)), genOpts(i/len(secs), secs[i%len(secs)]))
		if err == nil {
			out = append(out, f)
		}
	}
	return out
}

func textSeeds(r *gen.Rand) ([]seed, error) {
	var seeds []seed
	corpus := gen.CorpusTexts()
	var paths []string
	for p := range corpus {
		paths = append(paths, p)
	}
	sort.Strings(paths)
	for _, p := range paths {
		seeds = append(seeds, seed{strings.TrimPrefix(p, gen.RepoRoot+"/"), corpus[p]})
	}
	for i, f := range generatorFiles(r, 4) {
		b, err := gen.Write(f, i%2 == 1)
		if err != nil {
			return nil, fmt.Errorf("generator file not writable: %v", err)
		}
		seeds = append(seeds, seed{"generator: " + gen.Describe(f), b})
	}
	seeds = append(seeds, mixedSeeds(r.Fork(77))...)
	return seeds, nil
}

// batchLines returns the lines of a written file between file header and file control.
func batchLines(text []byte) (header string, batches []string, control string) {
	for _, l := range splitLines(text) {
		switch {
		case l == "" || strings.HasPrefix(l, "9999"):
		case l[0] == '1':
			header = l
		case l[0] == '9':
			control = l
		default:
			batches = append(batches, l)
		}
	}
	return
}

// mixedSeeds are deterministic structural splices the byte-level mutator only
// finds by luck: ADV batches inside a standard file and the reverse, IAT next
// to ADV, a batch without its control, two file headers.
func mixedSeeds(r *gen.Rand) []seed {
	mk := func(i int, secs ...string) []byte {
		f, err := gen.File(r.Fork(uint64(i)), gen.Opts{SECs: secs, MinBatches: 1, MaxBatches: 2, MaxEntries: 3})
		if err != nil {
			return nil
		}
		b, _ := gen.Write(f, false)
		return b
	}
	ppd, adv, iat := mk(1, "PPD", "CCD"), mk(2, "ADV"), mk(3, "IAT")
	if ppd == nil || adv == nil || iat == nil {
		return nil
	}
	hp, bp, cp := batchLines(ppd)
	ha, ba, ca := batchLines(adv)
	_, bi, _ := batchLines(iat)
	join := func(parts ...[]string) []byte {
		var all []string
		for _, p := range parts {
			all = append(all, p...)
		}
		return []byte(strings.Join(all, "\n") + "\n")
	}
	nb := 0
	for _, l := range append(append([]string(nil), ba...), bp...) {
		if l[0] == '5' {
			nb++
		}
	}
	caAll := ca
	if len(ca) > 7 {
		caAll = ca[:1] + fmt.Sprintf("%06d", nb) + ca[7:]
	}
	return []seed{
		{"structural: ADV batches then standard batches, ADV control counting all batches", join([]string{ha}, ba, bp, []string{caAll})},
		{"structural: standard batches then ADV batches, standard control", join([]string{hp}, bp, ba, []string{cp})},
		{"structural: ADV batches then standard batches, ADV control", join([]string{ha}, ba, bp, []string{ca})},
		{"structural: ADV batches then standard batches, standard control", join([]string{hp}, ba, bp, []string{cp})},
		{"structural: IAT batches then ADV batches", join([]string{hp}, bi, ba, []string{cp})},
		{"structural: ADV then IAT batches, ADV control", join([]string{ha}, ba, bi, []string{ca})},
		{"structural: batch without control then next batch", join([]string{hp}, bp[:len(bp)-1], bi, []string{cp})},
		{"structural: two headers two controls", join([]string{hp}, bp, []string{cp, ha}, ba, []string{ca})},
	}
}

// jsonFixtures returns every *.json under /repo/test (sorted).
func jsonFixtures() []seed {
	var out []seed
	_ = filepath.WalkDir(filepath.Join(gen.RepoRoot, "test"), func(p string, d fs.DirEntry, err error) error {
		if err == nil && !d.IsDir() && strings.HasSuffix(p, ".json") {
			if b, err := os.ReadFile(p); err == nil && json.Valid(b) {
				out = append(out, seed{strings.TrimPrefix(p, gen.RepoRoot+"/"), b})
			}
		}
		return nil
	})
	sort.Slice(out, func(i, j int) bool { return out[i].name < out[j].name })
	return out
}

func init() {
	Register("C06", &Oracle{
		Rule: "(text) every .ach fixture under /repo/test and generator files of every SEC code (returns, NOCs, offsets, non-ASCII), unmutated and after 1-3 structure-aware mutations (byte flip/insert/delete, truncate, line dup/delete/swap/repeat, splice of two files, field replaced by boundary values, record type / SEC code / transaction code / addenda type / indicator swaps, multi-byte and invalid UTF-8, one-line files, line endings) x sampled ValidateOpts subsets of all bool flags (+CheckTransactionCode) -> Reader.Read, then a random call sequence (length<=6) over {Validate, Create, Write, WriteBypass, MarshalJSON, SegmentFile, FlattenBatches, MergeFiles, Reversal, Batch.Create} on the (possibly partial) file; " +
			"(json) json.Marshal of generator files of every SEC code and every .json fixture, one or two leaves replaced by boundary values (empty/short/long/non-ASCII strings, 0/negative/huge numbers, wrong types sparingly) -> FileFromJSON / FileFromJSONWith, then the same call sequences; " +
			"(http) the handler of cmd/server, every method x route x content type x body (valid/invalid NACHA and JSON, batch/offset/segment documents, empty, huge) through ServeHTTP, on seeded and unseeded file ids, followed by stateful scenarios; each call runs in its own goroutine under recover with a " + hangTimeout.String() + " timeout. " +
			"distinct = distinct (input hash, options, sequence) resp. (SEC, leaf path, value kind) resp. (method, route, content type, body, id kind); non-trivial = the entry point was really invoked",
		Run: run,
	})
}

func run(t *T) {
	hangs.Store(0)
	seeds, err := textSeeds(t.R.Fork(1))
	if err != nil {
		t.Fail("C06/generator", "generator failed", nil, err.Error(), "valid files")
		return
	}
	wait := startTargeted(t) // contains the one case known to hang; it overlaps with everything else
	runJSONSystematic(t)
	runText(t, seeds)
	runNumericSweep(t, seeds)
	runJSON(t)
	runHTTP(t)
	wait()
}

// ------------------------------------------------------------------ text

func otherFileText(r *gen.Rand) []byte {
	f, err := gen.File(r, gen.Opts{SECs: []string{"PPD"}, MaxBatches: 1, MaxEntries: 2})
	if err != nil {
		return nil
	}
	b, _ := gen.Write(f, false)
	return b
}

func parseOther(text []byte) *ach.File {
	if text == nil {
		return nil
	}
	f, err := ach.NewReader(bytes.NewReader(text)).Read()
	if err != nil {
		return nil
	}
	return &f
}

func runText(t *T, seeds []seed) {
	pool := make([][]byte, len(seeds))
	for i, s := range seeds {
		pool[i] = s.data
	}
	other := otherFileText(t.R.Fork(2))
	nFixed := 2 * len(seeds) // every unmutated seed under two fixed sequences that together cover every operation
	n := nFixed + t.Budget(6000)
	base := t.R.Fork(3)
	rands := make([]*gen.Rand, n)
	for i := range rands {
		rands[i] = base.Fork(uint64(i))
	}
	rs := parallel(n, func(i int) caseResult {
		if hangs.Load() >= maxHangs {
			return caseResult{class: "text/skipped-after-too-many-hangs"}
		}
		r := rands[i]
		var s seed
		text, label := []byte(nil), "unmutated"
		if i < nFixed {
			s = seeds[i/2]
			text = s.data
		} else {
			s = gen.Pick(r, seeds)
			text, label = Mutate(r, s.data, pool)
		}
		opts := sampleOpts(r)
		seq := sampleSeq(r)
		choices := make([]bool, len(seq))
		for j := range choices {
			choices[j] = r.Chance(1, 3)
		}
		if i < nFixed {
			opts = optSet{isNil: true}
			seq = fixedSeqs[i%2]
			choices = make([]bool, len(seq))
		}
		input := func() map[string]any {
			return map[string]any{"source": s.name, "mutation": label, "text_go_quoted": clipQ(text), "validate_opts": opts.names(),
				"sequence": seq, "continue_on_returned_file": choices,
				"replay": "r := ach.NewReader(bytes.NewReader(text)); r.SetValidation(opts); f, _ := r.Read(); then the sequence on &f (MergeFiles merges f with a small valid PPD file)"}
		}
		first := strings.SplitN(label, "+", 2)[0]
		res := caseResult{key: hash(text) + "|" + opts.key() + "|" + strings.Join(seq, ">"), nontrivial: true}
		var file *ach.File
		var readErr error
		var cur atomic.Value
		cur.Store("Reader.Read")
		o := guard(&cur, func() {
			rd := ach.NewReader(bytes.NewReader(text))
			rd.SetValidation(opts.build())
			f, err := rd.Read()
			file, readErr = &f, err
		})
		if o.bad() {
			res.class = "text/" + first + "/READ-FAILED"
			res.fails = append(res.fails, toFinding(o, input()))
			return res
		}
		if readErr != nil {
			res.class = "text/" + first + "/read-error+partial-file"
		} else {
			res.class = "text/" + first + "/read-ok"
		}
		o = guard(&cur, func() { runSeq(&cur, file, parseOther(other), seq, choices) })
		if o.bad() {
			res.fails = append(res.fails, toFinding(o, input()))
		}
		return res
	})
	report(t, rs)
}

// runNumericSweep: deterministic.  For every seed text (one per SEC code and fixture), every record line and every
// maximal run of digits in it (plus the 4 columns in which CTX/ATX entries carry their addenda count), the run is
// replaced by a negative number, by all nines and by blanks; the text is read under nil options and under SkipAll +
// CustomTraceNumbers, and the returned file goes through Create / Validate / Write.  Numbers the library parses with
// Atoi and then uses as a size, an index or a divisor show up here whatever the random mutations happen to hit.
func runNumericSweep(t *T, seeds []seed) {
	type job struct {
		s          seed
		line, a, b int
		val        string
		opts       optSet
	}
	var jobs []job
	maxSeeds := t.Budget(40)
	for si, s := range seeds {
		if si >= maxSeeds || len(s.data) > 8000 {
			continue
		}
		lines := splitLines(s.data)
		for li, l := range lines {
			if len(l) < 94 || l[0] == '9' && strings.Count(l, "9") == len(l) {
				continue
			}
			var spans [][2]int
			for i := 1; i < len(l); {
				if l[i] >= '0' && l[i] <= '9' {
					j := i
					for j < len(l) && l[j] >= '0' && l[j] <= '9' {
						j++
					}
					if j-i >= 2 {
						spans = append(spans, [2]int{i, j})
					}
					i = j
				} else {
					i++
				}
			}
			if l[0] == '6' {
				spans = append(spans, [2]int{54, 58})
			}
			for _, sp := range spans {
				w := sp[1] - sp[0]
				for _, v := range []string{"-" + strings.Repeat("0", w-2) + "2", strings.Repeat("9", w), strings.Repeat(" ", w)} {
					for _, o := range []optSet{{isNil: true}, optsByName("SkipAll", "CustomTraceNumbers")} {
						jobs = append(jobs, job{s, li, sp[0], sp[1], v, o})
					}
				}
			}
		}
	}
	other := otherFileText(t.R.Fork(5))
	rs := parallel(len(jobs), func(i int) caseResult {
		j := jobs[i]
		lines := splitLines(j.s.data)
		lines[j.line] = replaceCols(lines[j.line], j.a, j.b, j.val)
		text := []byte(strings.Join(lines, "\n"))
		kind := "negative"
		if j.val[0] == '9' {
			kind = "nines"
		} else if j.val[0] == ' ' {
			kind = "blank"
		}
		res := caseResult{key: hash(text) + "|" + j.opts.key(), nontrivial: true, class: "text/numeric-sweep/" + kind}
		input := func() map[string]any {
			return map[string]any{"source": j.s.name, "mutation": fmt.Sprintf("line %d columns %d-%d := %q", j.line+1, j.a+1, j.b, j.val),
				"text_go_quoted": clipQ(text), "validate_opts": j.opts.names(), "sequence": systematicSeq}
		}
		var file *ach.File
		var cur atomic.Value
		cur.Store("Reader.Read")
		o := guard(&cur, func() {
			rd := ach.NewReader(bytes.NewReader(text))
			rd.SetValidation(j.opts.build())
			f, _ := rd.Read()
			file = &f
		})
		if o.bad() {
			res.fails = append(res.fails, toFinding(o, input()))
			return res
		}
		o = guard(&cur, func() { runSeq(&cur, file, parseOther(other), systematicSeq, make([]bool, len(systematicSeq))) })
		if o.bad() {
			res.fails = append(res.fails, toFinding(o, input()))
		}
		return res
	})
	report(t, rs)
}

// ------------------------------------------------------------------ JSON

type leaf struct {
	path []any // string keys and int indices
}

func (l leaf) String() string {
	var sb strings.Builder
	for _, p := range l.path {
		switch v := p.(type) {
		case string:
			if sb.Len() > 0 {
				sb.WriteByte('.')
			}
			sb.WriteString(v)
		case int:
			sb.WriteString("[]")
		}
	}
	return sb.String()
}

func leaves(v any, path []any, out *[]leaf) {
	switch x := v.(type) {
	case map[string]any:
		keys := make([]string, 0, len(x))
		for k := range x {
			keys = append(keys, k)
		}
		sort.Strings(keys)
		for _, k := range keys {
			leaves(x[k], append(append([]any(nil), path...), k), out)
		}
	case []any:
		for i := range x {
			leaves(x[i], append(append([]any(nil), path...), i), out)
		}
	default:
		*out = append(*out, leaf{path})
	}
}

func getAt(root any, path []any) any {
	cur := root
	for _, p := range path {
		switch k := p.(type) {
		case string:
			cur = cur.(map[string]any)[k]
		case int:
			cur = cur.([]any)[k]
		}
	}
	return cur
}

func setAt(root any, path []any, v any) {
	cur := root
	for i, p := range path {
		last := i == len(path)-1
		switch k := p.(type) {
		case string:
			m := cur.(map[string]any)
			if last {
				m[k] = v
				return
			}
			cur = m[k]
		case int:
			a := cur.([]any)
			if last {
				a[k] = v
				return
			}
			cur = a[k]
		}
	}
}

// boundaryJSON returns a replacement for the leaf value old, and its kind.
func boundaryJSON(r *gen.Rand, old any) (any, string) {
	if r.Chance(1, 12) { // wrong types, sparingly
		switch r.Intn(6) {
		case 0:
			return nil, "null"
		case 1:
			return map[string]any{}, "object"
		case 2:
			return []any{}, "array"
		case 3:
			return true, "bool"
		case 4:
			if _, isStr := old.(string); isStr {
				return json.Number("7"), "number-for-string"
			}
			return "7", "string-for-number"
		default:
			return []any{nil}, "array-of-null"
		}
	}
	switch old.(type) {
	case string:
		type sv struct{ v, kind string }
		vals := []sv{
			{"", "str-empty"}, {"A", "str-1"}, {"7", "str-1-digit"}, {"ab", "str-2"}, {"abc", "str-3"}, {"12345", "str-5"},
			{"123456789", "str-9"}, {"ABCDEFGHIJKLMNO", "str-15"}, {strings.Repeat("X", 23), "str-23"},
			{strings.Repeat("W", 100), "str-100"}, {strings.Repeat("9", 100), "str-100-digits"}, {strings.Repeat("L", 5000), "str-5000"},
			{"é", "str-nonascii-1"}, {"漢字テスト", "str-cjk"}, {"ÀÉÎÕÜ ñ ß", "str-latin1"}, {" ", "str-nbsp"}, {"😀😀", "str-emoji"},
			{"   ", "str-blanks"}, {" x ", "str-padded"}, {"-1", "str-negative"}, {"0", "str-zero"}, {"99999999999999999999", "str-huge-number"},
			{"2024-01-01T00:00:00Z", "str-rfc3339"}, {"991340", "str-bad-date"}, {"\x00\t\n", "str-control"},
		}
		if r.Chance(1, 40) {
			return gen.Pick(r, []string{"OFFSET", "offset"}), "str-OFFSET"
		}
		x := gen.Pick(r, vals)
		return x.v, x.kind
	case json.Number:
		type nv struct{ v, kind string }
		vals := []nv{
			{"0", "num-0"}, {"-1", "num-negative"}, {"1", "num-1"}, {"9", "num-9"}, {"99", "num-99"}, {"200", "num-200"}, {"280", "num-280"},
			{"-99999999999", "num-huge-negative"}, {"999999999999", "num-12-digits"}, {"99999999999999999", "num-17-digits"},
			{"9223372036854775807", "num-maxint64"}, {"9223372036854775808", "num-overflow"}, {"1.5", "num-fraction"}, {"1e3", "num-exponent"},
		}
		x := gen.Pick(r, vals)
		return json.Number(x.v), x.kind
	case bool:
		return !old.(bool), "bool-flipped"
	default: // null
		if r.Bool() {
			return "", "null-to-empty-string"
		}
		return json.Number("0"), "null-to-0"
	}
}

// coreValues are the replacement values of the systematic pass.
func coreValues(old any) []struct {
	v    any
	kind string
} {
	type vk = struct {
		v    any
		kind string
	}
	switch old.(type) {
	case string:
		// one length below / above each fixed slice bound the library uses (4, 6, 9, 10, 13, 15, 20, 22, 44)
		out := []vk{{"", "str-empty"}, {"é漢", "str-nonascii"}}
		for _, n := range []int{1, 5, 7, 10, 14, 16, 21, 30, 100} {
			out = append(out, vk{strings.Repeat("1", n), fmt.Sprintf("str-%d", n)})
		}
		return out
	case json.Number:
		return []vk{{json.Number("0"), "num-0"}, {json.Number("-1"), "num-negative"}, {json.Number("99999999999999999"), "num-17-digits"}}
	case bool:
		return []vk{{!old.(bool), "bool-flipped"}}
	}
	return []vk{{"", "null-to-empty-string"}, {json.Number("0"), "null-to-0"}, {[]any{nil}, "null-to-array-of-null"}, {map[string]any{}, "null-to-object"}, {[]any{map[string]any{}}, "null-to-array-of-empty-object"}}
}

var fixedSeqs = [][]string{
	{"Validate", "Create", "Write", "MarshalJSON", "SegmentFile", "FlattenBatches"},
	{"MergeFiles", "Reversal", "Batch.Create", "WriteBypass", "Validate", "Create"},
}

var systematicSeq = []string{"Batch.Create", "Create", "Validate", "WriteBypass", "MarshalJSON", "FlattenBatches"}

// runJSONSystematic: for every SEC code a forward and a return/NOC file of one
// batch; every distinct leaf path (array indices collapsed, first occurrence)
// x the core boundary values.  Same coverage for every seed, so the set of
// signatures it reports does not depend on luck.
type sysCase struct {
	tag, baseName, path, kind, target string
	doc                               []byte
	seq                               []string // nil = systematicSeq
}

// targetedCases: the D1 shapes.  A batch with an Offset and >= 3 entries
// (panics), and the same with its FIRST entry named OFFSET (never terminates).
func targetedCases(r *gen.Rand) []sysCase {
	var cases []sysCase
	// the targeted D1 shape: a batch with an Offset whose FIRST entry is named OFFSET
	for k := 0; k < 200; k++ {
		f, err := gen.File(r.Fork(uint64(1000+k)), gen.Opts{SECs: []string{"PPD"}, Offset: true, MinBatches: 1, MaxBatches: 1, MaxEntries: 3})
		if err != nil || len(f.Batches) == 0 {
			continue
		}
		es := f.Batches[0].GetEntries()
		if len(es) < 3 || es[len(es)-1].IndividualName != "OFFSET" {
			continue
		}
		doc, _ := json.Marshal(f)
		cases = append(cases, sysCase{tag: "PPD+offset", baseName: gen.Describe(f), kind: "unmutated", doc: doc})
		var root any
		dec := json.NewDecoder(bytes.NewReader(doc))
		dec.UseNumber()
		if dec.Decode(&root) == nil {
			p := []any{"batches", 0, "entryDetails", 0, "individualName"}
			func() {
				defer func() { recover() }()
				setAt(root, p, "OFFSET")
				d2, _ := json.Marshal(root)
				cases = append(cases, sysCase{tag: "PPD+offset", baseName: gen.Describe(f), path: "batches[].entryDetails[].individualName", kind: "str-OFFSET-first-entry", doc: d2})
			}()
		}
		// the existing OFFSET entry renamed: decoding appends a fresh OFFSET entry at index >= 3, a later Batch.Create trips over it
		dec = json.NewDecoder(bytes.NewReader(doc))
		dec.UseNumber()
		if dec.Decode(&root) == nil {
			func() {
				defer func() { recover() }()
				for ei, e := range es {
					if e.IndividualName == "OFFSET" {
						setAt(root, []any{"batches", 0, "entryDetails", ei, "individualName"}, "X")
					}
				}
				d2, _ := json.Marshal(root)
				cases = append(cases, sysCase{tag: "PPD+offset", baseName: gen.Describe(f), path: "batches[].entryDetails[].individualName", kind: "str-1-every-OFFSET-entry", doc: d2})
			}()
		}
		break
	}
	return cases
}

// evalSysCase decodes under nil options; evalSysCaseWith under the given ones (custom trace numbers and origin
// bypass switch off the re-sequencing that otherwise repairs short or empty trace numbers before they are sliced)
func evalSysCase(c sysCase, other []byte) caseResult {
	a := evalSysCaseWith(c, other, nil, "")
	b := evalSysCaseWith(c, other, &ach.ValidateOpts{CustomTraceNumbers: true, BypassOriginValidation: true}, "CustomTraceNumbers,BypassOriginValidation")
	a.fails = append(a.fails, b.fails...)
	return a
}

func evalSysCaseWith(c sysCase, other []byte, opts *ach.ValidateOpts, optNames string) caseResult {
	systematicSeq := systematicSeq
	if c.seq != nil {
		systematicSeq = c.seq
	}
	res := caseResult{key: c.tag + "|" + c.path + "=" + c.kind + "|" + systematicSeq[0] + "|" + optNames, nontrivial: true}
	input := func() map[string]any {
		return map[string]any{"base": c.tag + " generator: " + c.baseName, "replaced": c.path + "=" + c.kind, "json": clipQ(c.doc), "api": "FileFromJSONWith", "validate_opts": optNames, "sequence": systematicSeq,
			"replay": "f, _ := ach.FileFromJSONWith(json, opts); then the sequence on f"}
	}
	var file *ach.File
	var ferr error
	var cur atomic.Value
	cur.Store("FileFromJSON")
	o := guard(&cur, func() { file, ferr = ach.FileFromJSONWith(c.doc, opts) })
	cls := "json-systematic/" + c.tag + "/"
	if o.bad() {
		res.class = cls + "DECODE-FAILED"
		res.fails = append(res.fails, toFinding(o, input()))
		return res
	}
	switch {
	case file == nil:
		res.class = cls + "rejected-nil-file"
		return res
	case ferr != nil:
		res.class = cls + "error+file"
	default:
		res.class = cls + "accepted"
	}
	o = guard(&cur, func() { runSeq(&cur, file, parseOther(other), systematicSeq, nil) })
	if o.bad() {
		res.fails = append(res.fails, toFinding(o, input()))
	}
	return res
}

// startTargeted evaluates the targeted cases in the background (one of them
// runs into the hang timeout) and returns a function that waits and reports.
func startTargeted(t *T) func() {
	cases := targetedCases(t.R.Fork(11))
	other := otherFileText(t.R.Fork(12))
	out := make([]caseResult, len(cases))
	var wg sync.WaitGroup
	for i := range cases {
		wg.Add(1)
		go func(i int) {
			defer wg.Done()
			out[i] = evalSysCase(cases[i], other)
		}(i)
	}
	return func() {
		wg.Wait()
		report(t, out)
	}
}

func runJSONSystematic(t *T) {
	var cases []sysCase
	r := t.R.Fork(9)
	for si, sec := range gen.AllSECs() {
		for ci, cats := range [][]string{nil, {ach.CategoryReturn, ach.CategoryNOC}} {
			f, err := gen.File(r.Fork(uint64(si*2+ci)), gen.Opts{SECs: []string{sec}, Categories: cats, MinBatches: 1, MaxBatches: 1, MaxEntries: 2})
			if err != nil {
				continue
			}
			doc, err := json.Marshal(f)
			if err != nil {
				continue
			}
			tag := sec + []string{"/forward", "/return-or-noc"}[ci]
			var root any
			dec := json.NewDecoder(bytes.NewReader(doc))
			dec.UseNumber()
			if dec.Decode(&root) != nil {
				continue
			}
			var ls []leaf
			leaves(root, nil, &ls)
			seen := map[string]bool{}
			for _, l := range ls {
				ps := l.String()
				if seen[ps] {
					continue
				}
				seen[ps] = true
				old := getAt(root, l.path)
				for _, cv := range coreValues(old) {
					setAt(root, l.path, cv.v)
					d2, _ := json.Marshal(root)
					cases = append(cases, sysCase{tag: tag, baseName: gen.Describe(f), path: ps, kind: cv.kind, doc: d2})
					if old == nil {
						cases = append(cases, sysCase{tag: tag, baseName: gen.Describe(f), path: ps, kind: cv.kind, doc: d2, seq: fixedSeqs[1]})
					}
					if _, isStr := old.(string); isStr && strings.Contains(ps, "entryDetails") {
						// the same with validation switched off inside the document: the value
						// survives decoding and reaches the later operations
						m := root.(map[string]any)
						saved := m["validateOpts"]
						m["validateOpts"] = map[string]any{"skipAll": true}
						d3, _ := json.Marshal(root)
						m["validateOpts"] = saved
						cases = append(cases, sysCase{tag: tag, baseName: gen.Describe(f), path: ps + " & validateOpts={skipAll}", kind: cv.kind, doc: d3})
					}
				}
				setAt(root, l.path, old)
			}
		}
	}
	other := otherFileText(t.R.Fork(10))
	rs := parallel(len(cases), func(i int) caseResult {
		if hangs.Load() >= maxHangs {
			return caseResult{class: "json-systematic/skipped-after-too-many-hangs"}
		}
		return evalSysCase(cases[i], other)
	})
	report(t, rs)
}

func runJSON(t *T) {
	var bases []seed
	for _, f := range generatorFiles(t.R.Fork(4), 4) {
		bs, err := json.Marshal(f)
		if err != nil {
			t.Fail("C06/generator", "json.Marshal of a valid generator file failed", FileInput(f), err.Error(), "nil")
			continue
		}
		secs := map[string]bool{}
		for _, b := range f.Batches {
			secs[b.GetHeader().StandardEntryClassCode] = true
		}
		for range f.IATBatches {
			secs["IAT"] = true
		}
		var ss []string
		for s := range secs {
			ss = append(ss, s)
		}
		sort.Strings(ss)
		bases = append(bases, seed{strings.Join(ss, "+") + " generator: " + gen.Describe(f), bs})
	}
	nGen := len(bases)
	bases = append(bases, jsonFixtures()...)
	other := otherFileText(t.R.Fork(5))

	n := len(bases) + t.Budget(5000)
	base := t.R.Fork(6)
	rands := make([]*gen.Rand, n)
	for i := range rands {
		rands[i] = base.Fork(uint64(i))
	}
	rs := parallel(n, func(i int) caseResult {
		if hangs.Load() >= maxHangs {
			return caseResult{class: "json/skipped-after-too-many-hangs"}
		}
		r := rands[i]
		b := bases[i%len(bases)]
		tag := "fixture"
		if i%len(bases) < nGen {
			tag = strings.SplitN(b.name, " ", 2)[0]
		}
		doc := b.data
		what := "unmutated"
		pathKey := ""
		if i >= len(bases) {
			var root any
			dec := json.NewDecoder(bytes.NewReader(b.data))
			dec.UseNumber()
			if err := dec.Decode(&root); err != nil {
				return caseResult{class: "json/undecodable-base"}
			}
			var ls []leaf
			leaves(root, nil, &ls)
			if len(ls) == 0 {
				return caseResult{class: "json/no-leaves"}
			}
			nm := 1
			if r.Chance(1, 5) {
				nm = 2
			}
			var parts []string
			for ; nm > 0; nm-- {
				l := gen.Pick(r, ls)
				v, kind := boundaryJSON(r, getAt(root, l.path))
				setAt(root, l.path, v)
				parts = append(parts, l.String()+"="+kind)
			}
			what = strings.Join(parts, " & ")
			pathKey = what
			doc, _ = json.Marshal(root)
		}
		withOpts := r.Bool()
		opts := sampleOpts(r)
		seq := sampleSeq(r)
		choices := make([]bool, len(seq))
		for j := range choices {
			choices[j] = r.Chance(1, 3)
		}
		api := "FileFromJSON"
		if withOpts {
			api = "FileFromJSONWith"
		}
		input := func() map[string]any {
			m := map[string]any{"base": b.name, "replaced": what, "json": clipQ(doc), "api": api, "sequence": seq, "continue_on_returned_file": choices,
				"replay": "f, _ := ach." + api + "(json[, opts]); then the sequence on f"}
			if withOpts {
				m["validate_opts"] = opts.names()
			}
			return m
		}
		res := caseResult{key: tag + "|" + pathKey + "|" + api, nontrivial: true}
		if i < len(bases) {
			res.key = "base|" + b.name + "|" + api
		}
		var file *ach.File
		var ferr error
		var cur atomic.Value
		cur.Store("FileFromJSON")
		o := guard(&cur, func() {
			if withOpts {
				file, ferr = ach.FileFromJSONWith(doc, opts.build())
			} else {
				file, ferr = ach.FileFromJSON(doc)
			}
		})
		cls := "json/" + tag + "/"
		if o.bad() {
			res.class = cls + "DECODE-FAILED"
			res.fails = append(res.fails, toFinding(o, input()))
			return res
		}
		switch {
		case file == nil:
			res.class = cls + "rejected-nil-file"
			return res
		case ferr != nil:
			res.class = cls + "error+file"
		default:
			res.class = cls + "accepted"
		}
		o = guard(&cur, func() { runSeq(&cur, file, parseOther(other), seq, choices) })
		if o.bad() {
			res.fails = append(res.fails, toFinding(o, input()))
		}
		return res
	})
	report(t, rs)
}
