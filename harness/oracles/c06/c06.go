// Package c06 holds the oracle for property C06: no input makes the library
// or the HTTP server panic or hang.
package c06

import (
	"bytes"
	"encoding/json"
	"fmt"
	"hash/fnv"
	"io/fs"
	"os"
	"path/filepath"
	"runtime"
	"sort"
	"strconv"
	"strings"
	"sync"
	"sync/atomic"

	"github.com/moov-io/ach"
	"verif/harness/gen"
	. "verif/harness/oracle"
)

type finding struct {
	sig, what          string
	input              any
	observed, required string
}

type caseResult struct {
	key, class string
	nontrivial bool
	fails      []finding
}

// parallel evaluates fn(i) for i in [0,n) on a worker pool and returns the
// results by index, so that reporting is independent of scheduling.
func parallel(n int, fn func(i int) caseResult) []caseResult {
	out := make([]caseResult, n)
	workers := runtime.GOMAXPROCS(0)
	if workers > 16 {
		workers = 16
	}
	var next atomic.Int64
	var wg sync.WaitGroup
	for w := 0; w < workers; w++ {
		wg.Add(1)
		go func() {
			defer wg.Done()
			for {
				i := int(next.Add(1)) - 1
				if i >= n {
					return
				}
				out[i] = fn(i)
			}
		}()
	}
	wg.Wait()
	return out
}

func report(t *T, rs []caseResult) {
	for _, c := range rs {
		t.Case(c.key, c.class, c.nontrivial)
		for _, f := range c.fails {
			t.Fail(f.sig, f.what, f.input, f.observed, f.required)
		}
	}
}

func hash(b []byte) string {
	h := fnv.New64a()
	h.Write(b)
	return strconv.FormatUint(h.Sum64(), 36)
}

func clipQ(b []byte) string {
	if len(b) > 30000 {
		return strconv.Quote(string(b[:30000])) + fmt.Sprintf("…(+%d bytes)", len(b)-30000)
	}
	return strconv.Quote(string(b))
}

// toFinding turns a bad outcome into a failure with a signature made of the
// panic site, the panic class and the triggering operation.
func toFinding(o outcome, input map[string]any) finding {
	input["stack"] = o.stack
	if o.hung {
		return finding{
			sig:      fmt.Sprintf("C06/hang/%s/via=%s", o.site, o.op),
			what:     "operation did not terminate within " + hangTimeout.String(),
			input:    input,
			observed: "still running in " + o.site,
			required: "termination with a value or an error",
		}
	}
	return finding{
		sig:      fmt.Sprintf("C06/panic/%s/%s/via=%s", o.site, o.kind, o.op),
		what:     "panic in " + o.site + " during " + o.op,
		input:    input,
		observed: "panic: " + o.msg,
		required: "a value or an error",
	}
}

type seed struct {
	name string
	data []byte
}

func genOpts(i int, sec string) gen.Opts {
	o := gen.Opts{SECs: []string{sec}, MaxBatches: 2, MaxEntries: 3}
	switch i % 4 {
	case 1:
		o.Categories = gen.AllCategories()
	case 2:
		o.Offset = true
		o.MaxEntries = 4
	case 3:
		o.Categories = []string{ach.CategoryForward, ach.CategoryReturn, ach.CategoryNOC}
		o.NonASCII = true
		o.FullWidth = true
	}
	return o
}

// generatorFiles builds valid files, every SEC code `rounds` times with varying options.
func generatorFiles(r *gen.Rand, rounds int) []*ach.File {
	var out []*ach.File
	secs := gen.AllSECs()
	for i := 0; i < rounds*len(secs); i++ {
		f, err := gen.File(r.Fork(uint64(i)), genOpts(i/len(secs), secs[i%len(secs)]))
		if err == nil {
			out = append(out, f)
		}
	}
	return out
}

func textSeeds(r *gen.Rand) ([]seed, error) {
	var seeds []seed
	corpus := gen.CorpusTexts()
	var paths []string
	for p := range corpus {
		paths = append(paths, p)
	}
	sort.Strings(paths)
	for _, p := range paths {
		seeds = append(seeds, seed{strings.TrimPrefix(p, gen.RepoRoot+"/"), corpus[p]})
	}
	for i, f := range generatorFiles(r, 4) {
		b, err := gen.Write(f, i%2 == 1)
		if err != nil {
			return nil, fmt.Errorf("generator file not writable: %v", err)
		}
		seeds = append(seeds, seed{"generator: " + gen.Describe(f), b})
	}
	return seeds, nil
}

// jsonFixtures returns every *.json under /repo/test (sorted).
func jsonFixtures() []seed {
	var out []seed
	_ = filepath.WalkDir(filepath.Join(gen.RepoRoot, "test"), func(p string, d fs.DirEntry, err error) error {
		if err == nil && !d.IsDir() && strings.HasSuffix(p, ".json") {
			if b, err := os.ReadFile(p); err == nil && json.Valid(b) {
				out = append(out, seed{strings.TrimPrefix(p, gen.RepoRoot+"/"), b})
			}
		}
		return nil
	})
	sort.Slice(out, func(i, j int) bool { return out[i].name < out[j].name })
	return out
}

func init() {
	Register("C06", &Oracle{
		Rule: "(text) every .ach fixture under /repo/test and generator files of every SEC code (returns, NOCs, offsets, non-ASCII), unmutated and after 1-3 structure-aware mutations (byte flip/insert/delete, truncate, line dup/delete/swap/repeat, splice of two files, field replaced by boundary values, record type / SEC code / transaction code / addenda type / indicator swaps, multi-byte and invalid UTF-8, one-line files, line endings) x sampled ValidateOpts subsets of all bool flags (+CheckTransactionCode) -> Reader.Read, then a random call sequence (length<=6) over {Validate, Create, Write, WriteBypass, MarshalJSON, SegmentFile, FlattenBatches, MergeFiles, Reversal, Batch.Create} on the (possibly partial) file; " +
			"(json) json.Marshal of generator files of every SEC code and every .json fixture, one or two leaves replaced by boundary values (empty/short/long/non-ASCII strings, 0/negative/huge numbers, wrong types sparingly) -> FileFromJSON / FileFromJSONWith, then the same call sequences; " +
			"(http) the handler of cmd/server, every method x route x content type x body (valid/invalid NACHA and JSON, batch/offset/segment documents, empty, huge) through ServeHTTP, on seeded and unseeded file ids, followed by stateful scenarios; each call runs in its own goroutine under recover with a " + hangTimeout.String() + " timeout. " +
			"distinct = distinct (input hash, options, sequence) resp. (SEC, leaf path, value kind) resp. (method, route, content type, body, id kind); non-trivial = the entry point was really invoked",
		Run: run,
	})
}

func run(t *T) {
	seeds, err := textSeeds(t.R.Fork(1))
	if err != nil {
		t.Fail("C06/generator", "generator failed", nil, err.Error(), "valid files")
		return
	}
	runText(t, seeds)
	runJSON(t)
	runHTTP(t)
}

// ------------------------------------------------------------------ text

func otherFileText(r *gen.Rand) []byte {
	f, err := gen.File(r, gen.Opts{SECs: []string{"PPD"}, MaxBatches: 1, MaxEntries: 2})
	if err != nil {
		return nil
	}
	b, _ := gen.Write(f, false)
	return b
}

func parseOther(text []byte) *ach.File {
	if text == nil {
		return nil
	}
	f, err := ach.NewReader(bytes.NewReader(text)).Read()
	if err != nil {
		return nil
	}
	return &f
}

func runText(t *T, seeds []seed) {
	pool := make([][]byte, len(seeds))
	for i, s := range seeds {
		pool[i] = s.data
	}
	other := otherFileText(t.R.Fork(2))
	n := len(seeds) + t.Budget(6000)
	base := t.R.Fork(3)
	rands := make([]*gen.Rand, n)
	for i := range rands {
		rands[i] = base.Fork(uint64(i))
	}
	rs := parallel(n, func(i int) caseResult {
		if hangs.Load() >= maxHangs {
			return caseResult{class: "text/skipped-after-too-many-hangs"}
		}
		r := rands[i]
		var s seed
		text, label := []byte(nil), "unmutated"
		if i < len(seeds) {
			s = seeds[i]
			text = s.data
		} else {
			s = gen.Pick(r, seeds)
			text, label = Mutate(r, s.data, pool)
		}
		opts := sampleOpts(r)
		if i < len(seeds) && i%2 == 0 {
			opts = optSet{isNil: true}
		}
		seq := sampleSeq(r)
		choices := make([]bool, len(seq))
		for j := range choices {
			choices[j] = r.Chance(1, 3)
		}
		input := func() map[string]any {
			return map[string]any{"source": s.name, "mutation": label, "text_go_quoted": clipQ(text), "validate_opts": opts.names(),
				"sequence": seq, "continue_on_returned_file": choices,
				"replay": "r := ach.NewReader(bytes.NewReader(text)); r.SetValidation(opts); f, _ := r.Read(); then the sequence on &f (MergeFiles merges f with a small valid PPD file)"}
		}
		first := strings.SplitN(label, "+", 2)[0]
		res := caseResult{key: hash(text) + "|" + opts.key() + "|" + strings.Join(seq, ">"), nontrivial: true}
		var file *ach.File
		var readErr error
		var cur atomic.Value
		cur.Store("Reader.Read")
		o := guard(&cur, func() {
			rd := ach.NewReader(bytes.NewReader(text))
			rd.SetValidation(opts.build())
			f, err := rd.Read()
			file, readErr = &f, err
		})
		if o.bad() {
			res.class = "text/" + first + "/READ-FAILED"
			res.fails = append(res.fails, toFinding(o, input()))
			return res
		}
		if readErr != nil {
			res.class = "text/" + first + "/read-error+partial-file"
		} else {
			res.class = "text/" + first + "/read-ok"
		}
		o = guard(&cur, func() { runSeq(&cur, file, parseOther(other), seq, choices) })
		if o.bad() {
			res.fails = append(res.fails, toFinding(o, input()))
		}
		return res
	})
	report(t, rs)
}

// ------------------------------------------------------------------ JSON

type leaf struct {
	path []any // string keys and int indices
}

func (l leaf) String() string {
	var sb strings.Builder
	for _, p := range l.path {
		switch v := p.(type) {
		case string:
			if sb.Len() > 0 {
				sb.WriteByte('.')
			}
			sb.WriteString(v)
		case int:
			sb.WriteString("[]")
		}
	}
	return sb.String()
}

func leaves(v any, path []any, out *[]leaf) {
	switch x := v.(type) {
	case map[string]any:
		keys := make([]string, 0, len(x))
		for k := range x {
			keys = append(keys, k)
		}
		sort.Strings(keys)
		for _, k := range keys {
			leaves(x[k], append(append([]any(nil), path...), k), out)
		}
	case []any:
		for i := range x {
			leaves(x[i], append(append([]any(nil), path...), i), out)
		}
	default:
		*out = append(*out, leaf{path})
	}
}

func getAt(root any, path []any) any {
	cur := root
	for _, p := range path {
		switch k := p.(type) {
		case string:
			cur = cur.(map[string]any)[k]
		case int:
			cur = cur.([]any)[k]
		}
	}
	return cur
}

func setAt(root any, path []any, v any) {
	cur := root
	for i, p := range path {
		last := i == len(path)-1
		switch k := p.(type) {
		case string:
			m := cur.(map[string]any)
			if last {
				m[k] = v
				return
			}
			cur = m[k]
		case int:
			a := cur.([]any)
			if last {
				a[k] = v
				return
			}
			cur = a[k]
		}
	}
}

// boundaryJSON returns a replacement for the leaf value old, and its kind.
func boundaryJSON(r *gen.Rand, old any) (any, string) {
	if r.Chance(1, 12) { // wrong types, sparingly
		switch r.Intn(6) {
		case 0:
			return nil, "null"
		case 1:
			return map[string]any{}, "object"
		case 2:
			return []any{}, "array"
		case 3:
			return true, "bool"
		case 4:
			if _, isStr := old.(string); isStr {
				return json.Number("7"), "number-for-string"
			}
			return "7", "string-for-number"
		default:
			return []any{nil}, "array-of-null"
		}
	}
	switch old.(type) {
	case string:
		type sv struct{ v, kind string }
		vals := []sv{
			{"", "str-empty"}, {"A", "str-1"}, {"7", "str-1-digit"}, {"ab", "str-2"}, {"abc", "str-3"}, {"12345", "str-5"},
			{"123456789", "str-9"}, {"ABCDEFGHIJKLMNO", "str-15"}, {strings.Repeat("X", 23), "str-23"},
			{strings.Repeat("W", 100), "str-100"}, {strings.Repeat("9", 100), "str-100-digits"}, {strings.Repeat("L", 5000), "str-5000"},
			{"é", "str-nonascii-1"}, {"漢字テスト", "str-cjk"}, {"ÀÉÎÕÜ ñ ß", "str-latin1"}, {" ", "str-nbsp"}, {"😀😀", "str-emoji"},
			{"   ", "str-blanks"}, {" x ", "str-padded"}, {"-1", "str-negative"}, {"0", "str-zero"}, {"99999999999999999999", "str-huge-number"},
			{"2024-01-01T00:00:00Z", "str-rfc3339"}, {"991340", "str-bad-date"}, {"\x00\t\n", "str-control"},
		}
		if r.Chance(1, 40) {
			return gen.Pick(r, []string{"OFFSET", "offset"}), "str-OFFSET"
		}
		x := gen.Pick(r, vals)
		return x.v, x.kind
	case json.Number:
		type nv struct{ v, kind string }
		vals := []nv{
			{"0", "num-0"}, {"-1", "num-negative"}, {"1", "num-1"}, {"9", "num-9"}, {"99", "num-99"}, {"200", "num-200"}, {"280", "num-280"},
			{"-99999999999", "num-huge-negative"}, {"999999999999", "num-12-digits"}, {"99999999999999999", "num-17-digits"},
			{"9223372036854775807", "num-maxint64"}, {"9223372036854775808", "num-overflow"}, {"1.5", "num-fraction"}, {"1e3", "num-exponent"},
		}
		x := gen.Pick(r, vals)
		return json.Number(x.v), x.kind
	case bool:
		return !old.(bool), "bool-flipped"
	default: // null
		if r.Bool() {
			return "", "null-to-empty-string"
		}
		return json.Number("0"), "null-to-0"
	}
}

func runJSON(t *T) {
	var bases []seed
	for _, f := range generatorFiles(t.R.Fork(4), 4) {
		bs, err := json.Marshal(f)
		if err != nil {
			t.Fail("C06/generator", "json.Marshal of a valid generator file failed", FileInput(f), err.Error(), "nil")
			continue
		}
		secs := map[string]bool{}
		for _, b := range f.Batches {
			secs[b.GetHeader().StandardEntryClassCode] = true
		}
		for range f.IATBatches {
			secs["IAT"] = true
		}
		var ss []string
		for s := range secs {
			ss = append(ss, s)
		}
		sort.Strings(ss)
		bases = append(bases, seed{strings.Join(ss, "+") + " generator: " + gen.Describe(f), bs})
	}
	nGen := len(bases)
	bases = append(bases, jsonFixtures()...)
	other := otherFileText(t.R.Fork(5))

	n := len(bases) + t.Budget(5000)
	base := t.R.Fork(6)
	rands := make([]*gen.Rand, n)
	for i := range rands {
		rands[i] = base.Fork(uint64(i))
	}
	rs := parallel(n, func(i int) caseResult {
		if hangs.Load() >= maxHangs {
			return caseResult{class: "json/skipped-after-too-many-hangs"}
		}
		r := rands[i]
		b := bases[i%len(bases)]
		tag := "fixture"
		if i%len(bases) < nGen {
			tag = strings.SplitN(b.name, " ", 2)[0]
		}
		doc := b.data
		what := "unmutated"
		pathKey := ""
		if i >= len(bases) {
			var root any
			dec := json.NewDecoder(bytes.NewReader(b.data))
			dec.UseNumber()
			if err := dec.Decode(&root); err != nil {
				return caseResult{class: "json/undecodable-base"}
			}
			var ls []leaf
			leaves(root, nil, &ls)
			if len(ls) == 0 {
				return caseResult{class: "json/no-leaves"}
			}
			nm := 1
			if r.Chance(1, 5) {
				nm = 2
			}
			var parts []string
			for ; nm > 0; nm-- {
				l := gen.Pick(r, ls)
				v, kind := boundaryJSON(r, getAt(root, l.path))
				setAt(root, l.path, v)
				parts = append(parts, l.String()+"="+kind)
			}
			what = strings.Join(parts, " & ")
			pathKey = what
			doc, _ = json.Marshal(root)
		}
		withOpts := r.Bool()
		opts := sampleOpts(r)
		seq := sampleSeq(r)
		choices := make([]bool, len(seq))
		for j := range choices {
			choices[j] = r.Chance(1, 3)
		}
		api := "FileFromJSON"
		if withOpts {
			api = "FileFromJSONWith"
		}
		input := func() map[string]any {
			m := map[string]any{"base": b.name, "replaced": what, "json": clipQ(doc), "api": api, "sequence": seq, "continue_on_returned_file": choices,
				"replay": "f, _ := ach." + api + "(json[, opts]); then the sequence on f"}
			if withOpts {
				m["validate_opts"] = opts.names()
			}
			return m
		}
		res := caseResult{key: tag + "|" + pathKey + "|" + api, nontrivial: true}
		if i < len(bases) {
			res.key = "base|" + b.name + "|" + api
		}
		var file *ach.File
		var ferr error
		var cur atomic.Value
		cur.Store(api)
		o := guard(&cur, func() {
			if withOpts {
				file, ferr = ach.FileFromJSONWith(doc, opts.build())
			} else {
				file, ferr = ach.FileFromJSON(doc)
			}
		})
		cls := "json/" + tag + "/"
		if o.bad() {
			res.class = cls + "DECODE-FAILED"
			res.fails = append(res.fails, toFinding(o, input()))
			return res
		}
		switch {
		case file == nil:
			res.class = cls + "rejected-nil-file"
			return res
		case ferr != nil:
			res.class = cls + "error+file"
		default:
			res.class = cls + "accepted"
		}
		o = guard(&cur, func() { runSeq(&cur, file, parseOther(other), seq, choices) })
		if o.bad() {
			res.fails = append(res.fails, toFinding(o, input()))
		}
		return res
	})
	report(t, rs)
}
