package c06

import (
	"bytes"
	"context"
	"fmt"
	"regexp"
	"runtime"
	"runtime/debug"
	"runtime/pprof"
	"strings"
	"sync"
	"sync/atomic"
	"time"
)

// hangTimeout is deliberately generous: an ordinary case takes well under a
// millisecond, the largest bodies some tens of milliseconds.  Only a genuine
// non-termination (or a >1000x slowdown) reaches it.
const hangTimeout = 8 * time.Second

const achPkg = "github.com/moov-io/ach"

// outcome of one guarded call.
type outcome struct {
	panicked bool
	hung     bool
	site     string // function where it panicked / spins, e.g. "Batch.upsertOffsets"
	kind     string // normalised panic class, e.g. "slice-bounds"
	msg      string // panic value
	stack    string // clipped stack
	op       string // the operation that was running (set by the callee through cur)
}

func (o outcome) bad() bool { return o.panicked || o.hung }

var guardSeq atomic.Uint64

// hangs counts abandoned (still spinning) goroutines; sections stop scheduling
// new work once too many cores are lost to them.
var hangs atomic.Int64

const maxHangs = 6

// guard runs fn in its own goroutine under recover with a timeout.  cur is
// updated by fn with the name of the operation in progress.
func guard(cur *atomic.Value, fn func()) outcome {
	id := fmt.Sprintf("g%d", guardSeq.Add(1))
	done := make(chan outcome, 1)
	go func() {
		pprof.SetGoroutineLabels(pprof.WithLabels(context.Background(), pprof.Labels("c06case", id)))
		defer func() {
			if r := recover(); r != nil {
				st := string(debug.Stack())
				o := outcome{panicked: true, msg: fmt.Sprint(r), stack: clipStack(st)}
				o.site = siteFromStack(st)
				o.kind = panicKind(o.msg)
				done <- o
				return
			}
			done <- outcome{}
		}()
		fn()
	}()
	timer := time.NewTimer(hangTimeout)
	defer timer.Stop()
	var o outcome
	select {
	case o = <-done:
	case <-timer.C:
		hangs.Add(1)
		o = outcome{hung: true}
		o.site, o.stack = hangSite(id)
	}
	if cur != nil {
		if v, ok := cur.Load().(string); ok {
			o.op = v
		}
	}
	return o
}

func clipStack(s string) string {
	if len(s) > 3000 {
		return s[:3000] + "…"
	}
	return s
}

var digits = regexp.MustCompile(`[0-9]+`)

func panicKind(msg string) string {
	switch {
	case strings.Contains(msg, "slice bounds out of range"):
		return "slice-bounds"
	case strings.Contains(msg, "index out of range"):
		return "index-out-of-range"
	case strings.Contains(msg, "nil pointer dereference"):
		return "nil-deref"
	case strings.Contains(msg, "nil map"):
		return "nil-map"
	case strings.Contains(msg, "negative Repeat count"):
		return "negative-repeat"
	case strings.Contains(msg, "divide by zero"):
		return "divide-by-zero"
	case strings.Contains(msg, "interface conversion"):
		return "interface-conversion"
	case strings.Contains(msg, "makeslice"):
		return "makeslice"
	}
	m := digits.ReplaceAllString(msg, "N")
	if len(m) > 40 {
		m = m[:40]
	}
	return strings.Map(func(r rune) rune {
		if r == ' ' || r == '/' {
			return '-'
		}
		return r
	}, m)
}

// cleanFunc turns "github.com/moov-io/ach.(*Batch).upsertOffsets" into
// "Batch.upsertOffsets" and "github.com/moov-io/ach/server.foo.func1" into
// "server.foo.func1".
func cleanFunc(fn string) string {
	fn = strings.TrimPrefix(fn, achPkg)
	fn = strings.TrimPrefix(fn, "/")
	fn = strings.TrimPrefix(fn, ".")
	fn = strings.ReplaceAll(fn, "(*", "")
	fn = strings.ReplaceAll(fn, ")", "")
	return fn
}

func isRuntime(fn string) bool {
	return strings.HasPrefix(fn, "runtime.") || strings.HasPrefix(fn, "runtime/") || fn == "panic"
}

// pickSite chooses, from the frames innermost-first, the innermost frame that
// belongs to the library under test; failing that the innermost non-runtime one.
func pickSite(frames []string) string {
	for _, f := range frames {
		if strings.HasPrefix(f, achPkg) {
			return cleanFunc(f)
		}
	}
	for _, f := range frames {
		if !isRuntime(f) {
			return f
		}
	}
	return "unknown"
}

// siteFromStack parses debug.Stack() output taken inside the deferred
// recover: the frames after the "panic(" frame, innermost first.
func siteFromStack(st string) string {
	lines := strings.Split(st, "\n")
	var frames []string
	seenPanic := false
	for _, l := range lines {
		if l == "" || l[0] == '\t' || strings.HasPrefix(l, "goroutine ") {
			continue
		}
		name := l
		if i := strings.LastIndex(name, "("); i > 0 {
			name = name[:i]
		}
		if strings.HasPrefix(name, "created by ") {
			continue
		}
		if !seenPanic {
			if name == "panic" {
				seenPanic = true
			}
			continue
		}
		frames = append(frames, name)
	}
	return pickSite(frames)
}

var profMu sync.Mutex

// hangSite finds the goroutine labelled id in the goroutine profile and names
// the innermost library frame it is spinning in.
func hangSite(id string) (string, string) {
	profMu.Lock()
	defer profMu.Unlock()
	runtime.Gosched()
	var buf bytes.Buffer
	_ = pprof.Lookup("goroutine").WriteTo(&buf, 1)
	blocks := strings.Split(buf.String(), "\n\n")
	want := fmt.Sprintf(`"c06case":"%s"`, id)
	for _, b := range blocks {
		if !strings.Contains(b, want) {
			continue
		}
		var frames []string
		for _, l := range strings.Split(b, "\n") {
			if !strings.HasPrefix(l, "#\t") {
				continue
			}
			parts := strings.Split(l, "\t")
			if len(parts) < 3 {
				continue
			}
			fn := parts[2]
			if i := strings.LastIndex(fn, "+0x"); i > 0 {
				fn = fn[:i]
			}
			frames = append(frames, fn)
		}
		return pickSite(frames), clipStack(b)
	}
	return "unknown", ""
}
