package c06

import (
	"bytes"
	"encoding/json"
	"reflect"
	"strings"
	"sync/atomic"
	"time"

	"github.com/moov-io/ach"
	"verif/harness/gen"
)

// ---- ValidateOpts sampling over every bool flag (found by reflection, so a
// new flag is picked up automatically).

var boolFlags = func() []int {
	var out []int
	t := reflect.TypeOf(ach.ValidateOpts{})
	for i := 0; i < t.NumField(); i++ {
		if t.Field(i).Type.Kind() == reflect.Bool && t.Field(i).IsExported() {
			out = append(out, i)
		}
	}
	return out
}()

type optSet struct {
	isNil   bool
	mask    uint64
	checkTx bool // CheckTransactionCode set to a function rejecting odd codes
}

func (o optSet) build() *ach.ValidateOpts {
	if o.isNil {
		return nil
	}
	v := &ach.ValidateOpts{}
	rv := reflect.ValueOf(v).Elem()
	for bit, fi := range boolFlags {
		if o.mask&(1<<uint(bit)) != 0 {
			rv.Field(fi).SetBool(true)
		}
	}
	if o.checkTx {
		v.CheckTransactionCode = func(code int) error {
			if code%2 == 1 {
				return ach.ErrTransactionCode
			}
			return nil
		}
	}
	return v
}

// optsByName: the option set with exactly these boolean flags
func optsByName(names ...string) optSet {
	t := reflect.TypeOf(ach.ValidateOpts{})
	var o optSet
	for bit, fi := range boolFlags {
		for _, n := range names {
			if t.Field(fi).Name == n {
				o.mask |= 1 << uint(bit)
			}
		}
	}
	return o
}

func (o optSet) names() []string {
	if o.isNil {
		return []string{"<nil opts>"}
	}
	t := reflect.TypeOf(ach.ValidateOpts{})
	out := []string{}
	for bit, fi := range boolFlags {
		if o.mask&(1<<uint(bit)) != 0 {
			out = append(out, t.Field(fi).Name)
		}
	}
	if o.checkTx {
		out = append(out, "CheckTransactionCode=func(rejects odd codes)")
	}
	return out
}

func (o optSet) key() string { return strings.Join(o.names(), ",") }

func sampleOpts(r *gen.Rand) optSet {
	n := uint(len(boolFlags))
	all := uint64(1)<<n - 1
	var o optSet
	switch r.Intn(12) {
	case 0:
		o.isNil = true
	case 1:
		o.mask = 0
	case 2:
		o.mask = all
	case 3:
		o.mask = all &^ 1 // everything but SkipAll (flag 0)
	case 4, 5:
		o.mask = 1 << uint(r.Intn(int(n)))
	case 6, 7:
		for b := uint(0); b < n; b++ {
			if r.Chance(1, 5) {
				o.mask |= 1 << b
			}
		}
	default:
		o.mask = r.Uint64() & all
		if r.Bool() {
			o.mask &^= 1
		}
	}
	if !o.isNil && r.Chance(1, 10) {
		o.checkTx = true
	}
	return o
}

// ---- call sequences

var opNames = []string{"Validate", "Create", "Write", "WriteBypass", "MarshalJSON", "SegmentFile", "FlattenBatches", "MergeFiles", "Reversal", "Batch.Create"}

const maxSeq = 6

func sampleSeq(r *gen.Rand) []string {
	n := 1 + r.Intn(maxSeq)
	out := make([]string, n)
	for i := range out {
		out[i] = gen.Pick(r, opNames)
	}
	return out
}

var reversalDate = time.Date(2030, 1, 15, 0, 0, 0, 0, time.UTC)

// runSeq applies the operations to f.  choices decides, for operations that
// return new files, whether the sequence continues on a returned file.
// The operation in progress is published through cur.
func runSeq(cur *atomic.Value, f *ach.File, other *ach.File, seq []string, choices []bool) {
	for i, op := range seq {
		if f == nil {
			return
		}
		cur.Store(op)
		follow := i < len(choices) && choices[i]
		switch op {
		case "Validate":
			_ = f.Validate()
		case "Create":
			_ = f.Create()
		case "Write", "WriteBypass":
			var buf bytes.Buffer
			w := ach.NewWriter(&buf)
			w.BypassValidation = op == "WriteBypass"
			_ = w.Write(f)
			_ = w.Flush()
		case "MarshalJSON":
			_, _ = json.Marshal(f)
		case "SegmentFile":
			c, d, _ := f.SegmentFile(nil)
			if follow {
				if c != nil && (len(c.Batches) > 0 || len(c.IATBatches) > 0) {
					f = c
				} else if d != nil {
					f = d
				}
			}
		case "FlattenBatches":
			g, _ := f.FlattenBatches()
			if follow && g != nil {
				f = g
			}
		case "MergeFiles":
			in := []*ach.File{f}
			if other != nil {
				in = append(in, other)
			}
			if follow {
				in = append(in, f) // the same file twice
			}
			out, _ := ach.MergeFiles(in)
			if follow && len(out) > 0 && out[0] != nil {
				f = out[0]
			}
		case "Reversal":
			_ = f.Reversal(reversalDate)
		case "Batch.Create":
			for _, b := range f.Batches {
				if b == nil {
					continue
				}
				_ = b.Create()
			}
			for i := range f.IATBatches {
				_ = f.IATBatches[i].Create()
			}
		}
	}
}
