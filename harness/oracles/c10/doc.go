// Package c10 holds the oracle for property C10.
package c10
