// Package c10 holds the oracle for property C10: MergeDir equals MergeFiles over
// the directory, under every schedule, and always terminates.
package c10

import (
	"encoding/json"
	"fmt"
	"os"
	"path"
	"reflect"
	"sort"
	"strings"
	"sync"
	"sync/atomic"
	"time"

	"github.com/moov-io/ach"
	"verif/harness/gen"
	. "verif/harness/oracle"
	m "verif/harness/oracles/c08"
	"verif/harness/oracles/c09"
)

// watchdog is how long one MergeDir call over at most a dozen small files (whose
// reads are delayed by a few milliseconds at most) may take before it counts as hung.
const watchdog = 5 * time.Second

// maxHangs bounds the number of goroutines leaked by hung MergeDir calls: shapes
// for which hangs were observed are no longer explored after this many hangs.
const maxHangs = 3

type caseDesc struct {
	Tree       tree           `json:"tree"`
	SubDirs    bool           `json:"sub_directories"`
	Workers    int            `json:"parse_workers"` // 0 = default
	Cond       ach.Conditions `json:"conditions"`
	OptsExt    string         `json:"validate_opts_extension"`
	Custom     bool           `json:"custom_acceptor"` // .ach/.dat Nacha, .json/.js JSON, everything else skipped
	Mode       string         `json:"mode"`            // "fs": delaying in-memory fs.FS; "os": temporary directory, FS nil
	Dir        string         `json:"dir"`             // fs mode: the dir argument, the tree lives there inside the FS
	Reps       int            `json:"repetitions"`
	Spread     int            `json:"delay_spread"`
	DelaySeed  uint64         `json:"delay_seed"`
	Style      string         `json:"style"`
	BadMode    bool           `json:"with_unparseable_files"`
	EmptySubFS bool           `json:"empty_subdirectory_in_fs,omitempty"`
	// DirRule (with Custom): the acceptor also looks at the directory part of the path it is given and skips every path
	// without one (a bare file name)
	DirRule bool `json:"acceptor_looks_at_directory,omitempty"`
}

func (d caseDesc) accept(p string) ach.FileAcceptance {
	if d.Custom && d.DirRule {
		// what AcceptFile is given: with an fs.FS the path relative to dir (MergeDir works inside fs.Sub(FS, dir)),
		// without one dir joined with the way down
		if d.Mode == "fs" {
			return acceptBelowDir(p)
		}
		return acceptBelowDir(path.Join("tmp", p))
	}
	if d.Custom {
		return acceptCustom(p)
	}
	return acceptDefault(p)
}

// prepared is a case plus everything that is computed from it once.
type prepared struct {
	desc      caseDesc
	walk      []string // paths in the order a directory walk meets them
	accepted  []string
	bad       []string             // accepted but unparseable
	perFile   map[string][]m.Entry // entries of each parseable accepted file
	plans     map[string]*m.RoutePlan
	routes    []string
	routeOpts map[string]*ach.ValidateOpts // union of the ValidateOpts of the inputs of a route
	expected  []m.FileSnap                 // what MergeFilesWith returns over the accepted files
	expErr    error
	hangProne bool // as many unparseable files as workers, and something left to walk after them
	genErr    error
}

var nachaExts = []string{".ach", ".txt", "", ".ACH", ".Txt", ".ach", ".txt", ""}
var jsonExts = []string{".json", ".JSON", ".json"}
var skippedExts = []string{".csv", ".bak", ".go", ".ach~", ".xml", ".achx"}
var harmlessOpts = []string{`{"allowZeroBatches":true}`, `{"customReturnCodes":true}`, `{"allowInvalidCheckDigit":true}`, `{}`, `{"allowUnorderedBatchNumbers":true}`}

func badRouting(rtn string) string {
	// change the check digit: no longer a valid ABA number
	if len(rtn) != 9 {
		return "123456789"
	}
	return rtn[:8] + string('0'+(rtn[8]-'0'+3)%10)
}

func drawCase(r *gen.Rand, idx int) (caseDesc, error) {
	d := caseDesc{Mode: "fs", Dir: "root"}
	o := gen.Opts{
		SECs:            m.MergeSECs(),
		HeaderPool:      r.Range(1, 4),
		Routes:          r.Range(1, 3),
		PresetTraces:    !r.Chance(1, 6),
		CollidingTraces: true,
		MaxBatches:      r.Range(1, 3),
		MaxEntries:      r.Range(1, 4),
	}
	if r.Chance(1, 3) {
		o.Categories = gen.AllCategories()
	}
	n := r.Range(1, 12)
	if r.Chance(1, 4) {
		n = r.Range(1, 4)
	}
	d.Workers = []int{1, 2, 3, 0}[r.Intn(4)]
	d.SubDirs = r.Chance(2, 3)
	d.Style = []string{"flat", "chain", "chain", "bushy", "bushy"}[r.Intn(5)]
	d.BadMode = r.Chance(1, 4)
	if d.BadMode && d.Style == "bushy" {
		d.Style = "chain"
	}
	if r.Chance(1, 6) {
		d.Mode = "os"
		if r.Chance(1, 4) {
			n = 0
		}
	} else {
		d.Dir = []string{"root", "root", ".", "top/root"}[r.Intn(4)]
	}
	d.Custom = r.Chance(1, 5)
	d.DirRule = d.Custom && r.Bool()
	d.OptsExt = []string{"", ".opts", ".opts", ".vopts"}[r.Intn(4)]
	d.Reps = 1
	if r.Chance(1, 5) {
		d.Reps = 12
	}
	d.Spread = []int{0, 4, 6, 8, 8}[r.Intn(5)]
	d.DelaySeed = r.Uint64() >> 1

	// directories
	dirs := []string{"."}
	switch d.Style {
	case "chain": // every directory has at most one sub-directory and it sorts after all files
		depth := r.Range(1, 3)
		cur := "."
		for k := 1; k <= depth; k++ {
			cur = path.Join(cur, fmt.Sprintf("zz%d", k))
			dirs = append(dirs, cur)
		}
	case "bushy":
		for k, nd := 1, r.Range(1, 5); k <= nd; k++ {
			parent := dirs[r.Intn(len(dirs))]
			if parent != "." && strings.Count(parent, "/") >= 2 {
				parent = "."
			}
			dirs = append(dirs, path.Join(parent, fmt.Sprintf("%c%d", 'a'+rune(r.Intn(26)), k)))
		}
	}
	used := map[string]bool{}
	place := func(name string) string {
		return path.Join(dirs[r.Intn(len(dirs))], name)
	}
	sidecar := func(p, content string) {
		ext := d.OptsExt
		if ext == "" {
			ext = ".opts"
		}
		d.Tree.Items = append(d.Tree.Items, item{Path: strings.TrimSuffix(p, path.Ext(p)) + ext, Kind: "sidecar", Content: content})
	}
	nacha, jsn := nachaExts, jsonExts
	if d.Custom {
		nacha, jsn = []string{".ach", ".dat", ".DAT"}, []string{".json", ".js"}
	}
	nbad := 0
	if d.BadMode {
		nbad = r.Range(1, 4)
	}
	badAt := map[int]bool{}
	for len(badAt) < nbad && len(badAt) < n {
		badAt[r.Intn(n)] = true
	}
	for i := 0; i < n; i++ {
		f, err := gen.File(r.Fork(uint64(i)), o)
		if err != nil {
			return d, err
		}
		prefix := fmt.Sprintf("%c%02d", 'a'+rune(r.Intn(25)), i) // 'a'..'y': sorts before the zz directories
		// stems ending in characters that also occur in extensions, or holding a dot of their own
		prefix += []string{"", "", "", "h", "a", "batch", "tax", "t", ".v2", "x.t", "son", "."}[r.Intn(12)]
		if strings.HasSuffix(prefix, ".") {
			prefix += "d"
		}
		asJSON := r.Chance(1, 4)
		needs := !badAt[i] && d.OptsExt != "" && r.Chance(1, 6)
		kind := "nacha"
		if badAt[i] {
			kind = []string{"garbage", "truncated", "nacha-in-json", "json-in-nacha", "needs-sidecar", "garbage", "json-rejected"}[r.Intn(7)]
			needs = kind == "needs-sidecar"
		}
		var opts *ach.ValidateOpts
		if needs {
			f.Header.ImmediateDestination = badRouting(f.Header.ImmediateDestination)
			opts = &ach.ValidateOpts{BypassDestinationValidation: true}
			f.SetValidation(opts)
		}
		text, err := writeNacha(f)
		if err != nil {
			return d, fmt.Errorf("writing a generated file: %w", err)
		}
		var it item
		switch kind {
		case "garbage":
			it = item{Path: place(prefix + nacha[r.Intn(len(nacha))]), Kind: kind, Content: "this is not an ACH file\n" + strings.Repeat("x", r.Intn(200)) + "\n"}
		case "truncated":
			lines := strings.SplitAfter(text, "\n")
			it = item{Path: place(prefix + nacha[r.Intn(len(nacha))]), Kind: kind, Content: strings.Join(lines[:1+r.Intn(3)], "")}
		case "nacha-in-json":
			it = item{Path: place(prefix + jsn[r.Intn(len(jsn))]), Kind: kind, Content: text}
		case "json-rejected":
			// well-formed JSON of a file that decodes and is then refused by Create/Validate (FileFromJSONWith returns the
			// file *and* the error): two entries out of trace-number order, or a mandatory field blanked
			swapped := false
			for _, b := range f.Batches {
				if es := b.GetEntries(); len(es) >= 2 && es[0].TraceNumber != es[1].TraceNumber {
					es[0], es[1] = es[1], es[0]
					swapped = true
					break
				}
			}
			if !swapped && len(f.Batches) > 0 && len(f.Batches[0].GetEntries()) > 0 {
				f.Batches[0].GetEntries()[0].DFIAccountNumber = ""
			}
			bs, _ := json.Marshal(f)
			it = item{Path: place(prefix + jsn[r.Intn(len(jsn))]), Kind: kind, Content: string(bs)}
			if g, err := parse(string(bs), ach.AcceptAsJSON, nil); err == nil || g == nil {
				// not the case this kind is for (accepted after all, or refused before a file existed)
				it = item{Path: place(prefix + nacha[r.Intn(len(nacha))]), Kind: "garbage", Content: "this is not an ACH file\n"}
			}
		case "json-in-nacha":
			bs, _ := json.Marshal(f)
			it = item{Path: place(prefix + nacha[r.Intn(len(nacha))]), Kind: kind, Content: string(bs)}
		default:
			it = item{Path: place(prefix + nacha[r.Intn(len(nacha))]), Kind: "nacha", Content: text}
			if needs {
				it.Kind = "needs-sidecar"
			}
			if asJSON {
				// the JSON form must be readable (FileFromJSON has known panics); otherwise keep the Nacha form
				if bs, err := json.Marshal(f); err == nil {
					if g, err := parse(string(bs), ach.AcceptAsJSON, opts); err == nil && g != nil {
						it.Path = place(prefix + jsn[r.Intn(len(jsn))])
						it.Content = string(bs)
						it.Kind = "json"
						if needs {
							it.Kind = "needs-sidecar"
						}
					}
				}
			}
		}
		if used[it.Path] {
			continue
		}
		used[it.Path] = true
		d.Tree.Items = append(d.Tree.Items, it)
		switch {
		case needs && kind != "needs-sidecar": // a good file that is only readable with its side-car
			sidecar(it.Path, `{"bypassDestinationValidation":true}`)
		case kind == "needs-sidecar": // unparseable: the side-car is missing
		case r.Chance(1, 3):
			sidecar(it.Path, harmlessOpts[r.Intn(len(harmlessOpts))])
		}
	}
	// files with skipped extensions; with the custom acceptor also valid files the acceptor skips
	for k, ns := 0, r.Intn(4); k < ns; k++ {
		p := place(fmt.Sprintf("%c%02d%s", 'a'+rune(r.Intn(25)), 50+k, skippedExts[r.Intn(len(skippedExts))]))
		d.Tree.Items = append(d.Tree.Items, item{Path: p, Kind: "skipped", Content: "not,an,ach,file\n"})
	}
	if d.Custom && n > 0 {
		f, err := gen.File(r.Fork(99), o)
		if err != nil {
			return d, err
		}
		text, _ := writeNacha(f)
		d.Tree.Items = append(d.Tree.Items, item{Path: place("c77.txt"), Kind: "skipped", Content: text})
	}
	// empty directories: free on the real file system; inside an fs.FS only as the last
	// level of a chain and rarely (MergeDir then reads the OS directory of the same name)
	levels := func(dir string) int { // depth of a directory: "." is 0
		if dir == "." {
			return 0
		}
		return strings.Count(dir, "/") + 1
	}
	if parent := dirs[r.Intn(len(dirs))]; d.Mode == "os" && levels(parent) < 3 && r.Chance(1, 3) {
		d.Tree.EmptyDirs = append(d.Tree.EmptyDirs, path.Join(parent, "zzempty"))
	}
	if parent := dirs[len(dirs)-1]; d.Mode == "fs" && d.Style == "chain" && levels(parent) < 3 && d.SubDirs && !d.BadMode && r.Chance(1, 8) {
		d.EmptySubFS = true
		d.Tree.EmptyDirs = append(d.Tree.EmptyDirs, path.Join(parent, "zzq_verif_c10_empty"))
	}
	if d.Mode == "fs" && len(d.Tree.Items) == 0 {
		// an empty directory inside an fs.FS makes MergeDir read the process's working directory: use the OS mode
		d.Mode = "os"
	}
	sort.Slice(d.Tree.Items, func(i, j int) bool { return d.Tree.Items[i].Path < d.Tree.Items[j].Path })
	return d, nil
}

func prepare(r *gen.Rand, idx int) *prepared {
	d, err := drawCase(r, idx)
	p := &prepared{desc: d, genErr: err, perFile: map[string][]m.Entry{}}
	if err != nil {
		return p
	}
	fillPrepared(p)
	return p
}

// fillPrepared computes everything that follows from p.desc.
func fillPrepared(p *prepared) {
	d := p.desc
	p.walk = d.Tree.walk(d.SubDirs, false)
	var files []*ach.File
	var snaps []m.FileSnap
	for _, w := range p.walk {
		as := d.accept(w)
		if as == ach.SkipFile {
			continue
		}
		p.accepted = append(p.accepted, w)
		content, _ := d.Tree.content(w)
		f, err := parse(content, as, d.Tree.sidecarFor(w, d.OptsExt))
		if err != nil || f == nil {
			p.bad = append(p.bad, w)
			continue
		}
		s := m.Snap(f)
		if v := f.GetValidation(); v != nil {
			if p.routeOpts == nil {
				p.routeOpts = map[string]*ach.ValidateOpts{}
			}
			p.routeOpts[s.Route] = orOpts(p.routeOpts[s.Route], v)
		}
		p.perFile[w] = m.Entries([]m.FileSnap{s})
		snaps = append(snaps, s)
		files = append(files, f)
	}
	p.plans, p.routes = m.Plan(snaps)
	if len(p.bad) == 0 {
		func() {
			defer func() {
				if x := recover(); x != nil {
					p.expErr = fmt.Errorf("panic: %v", x)
				}
			}()
			out, err := ach.MergeFilesWith(files, d.Cond)
			p.expErr = err
			p.expected = m.SnapAll(out)
		}()
	}
	// all workers gone while the walker still has something to hand out
	if d.Workers > 0 && len(p.bad) >= d.Workers {
		seen := 0
		isBad := map[string]bool{}
		for _, b := range p.bad {
			isBad[b] = true
		}
		for i, w := range p.walk {
			if isBad[w] {
				seen++
				if seen == d.Workers {
					p.hangProne = i < len(p.walk)-1
					break
				}
			}
		}
	}
}

// drawCond needs the content, so it is drawn after the files exist.
func drawCond(r *gen.Rand, p *prepared) ach.Conditions {
	var c ach.Conditions
	var ps []*m.RoutePlan
	for _, rt := range p.routes {
		ps = append(ps, p.plans[rt])
	}
	if len(ps) == 0 {
		return c
	}
	q := ps[r.Intn(len(ps))]
	switch r.Intn(6) {
	case 0, 1:
	case 2:
		c.MaxLines = r.Range(5, q.Lines+1)
	case 3:
		c.MaxLines = q.Lines - r.Intn(2)
		if c.MaxLines < 5 {
			c.MaxLines = 5
		}
	case 4:
		c.MaxDollarAmount = int64(r.Range(1, int(q.Dollars)+1))
	case 5:
		c.MaxLines = r.Range(5, q.Lines+1)
		c.MaxDollarAmount = int64(r.Range(1, int(q.Dollars)+1))
	}
	return c
}

type failRec struct {
	sig, what          string
	input              any
	observed, required string
}

type caseOut struct {
	key, class string
	nontrivial bool
	fails      []failRec
	hangs      int
	skipped    string
}

type runResult struct {
	out      []*ach.File
	err      error
	panicked any
}

// runMergeDir performs one MergeDir call under the watchdog.  hung=true means
// it did not return in time; its goroutines are abandoned.
func runMergeDir(d caseDesc, rep int) (res runResult, hung bool) {
	opts := &ach.MergeDirOptions{ParseWorkers: d.Workers, SubDirectories: d.SubDirs, ValidateOptsExtension: d.OptsExt}
	if d.Custom {
		opts.AcceptFile = acceptCustom
		if d.DirRule {
			opts.AcceptFile = acceptBelowDir
		}
	}
	dir := d.Dir
	cleanup := func() {}
	if d.Mode == "os" {
		root, err := writeOS(d.Tree)
		cleanup = func() { os.RemoveAll(root) }
		if err != nil {
			cleanup()
			return runResult{err: fmt.Errorf("oracle: cannot write the temporary tree: %w", err), panicked: "setup"}, false
		}
		dir = root
	} else {
		opts.FS = newDelayFS(d.Tree, d.Dir, gen.NewRand(d.DelaySeed+uint64(rep)*7919), d.Spread)
	}
	defer cleanup()
	ch := make(chan runResult, 1)
	go func() {
		var rr runResult
		defer func() {
			if p := recover(); p != nil {
				rr.panicked = p
			}
			ch <- rr
		}()
		rr.out, rr.err = ach.MergeDir(dir, d.Cond, opts)
	}()
	timer := time.NewTimer(watchdog)
	defer timer.Stop()
	select {
	case res = <-ch:
		return res, false
	case <-timer.C:
		return runResult{}, true
	}
}

func shapeKey(p *prepared) string {
	d := p.desc
	var parts []string
	isBad := map[string]bool{}
	for _, b := range p.bad {
		isBad[b] = true
	}
	for _, it := range d.Tree.Items {
		k := it.Kind
		if isBad[it.Path] {
			k = "BAD-" + k
		}
		parts = append(parts, fmt.Sprintf("%d%s:%s", strings.Count(it.Path, "/"), strings.ToLower(path.Ext(it.Path)), k))
	}
	return fmt.Sprintf("%s w=%d sub=%v cond=%s ext=%q custom=%v dir=%s empty=%d [%s]", d.Mode, d.Workers, d.SubDirs, m.CondKind(d.Cond), d.OptsExt, d.Custom, d.Dir,
		len(d.Tree.EmptyDirs), strings.Join(parts, " "))
}

func classOf(p *prepared) string {
	d := p.desc
	w := fmt.Sprint(d.Workers)
	if d.Workers == 0 {
		w = "default"
	}
	kind := "parseable"
	switch {
	case len(p.accepted) == 0:
		kind = "no-accepted-file"
	case len(p.bad) > 0 && p.hangProne:
		kind = "unparseable>=workers+more-to-walk"
	case len(p.bad) > 0:
		kind = "unparseable"
	}
	sub := "off"
	if d.SubDirs {
		sub = "on"
	}
	return fmt.Sprintf("%s/workers=%s/subdirs=%s/depth=%d/%s", d.Mode, w, sub, d.Tree.depth(), kind)
}

// evalCase runs and checks one case.
func evalCase(p *prepared, hangsSoFar *atomic.Int32) caseOut {
	d := p.desc
	co := caseOut{key: shapeKey(p), class: classOf(p), nontrivial: len(p.accepted) > 0}
	fail := func(sig, what, observed, required string) {
		for _, f := range co.fails {
			if f.sig == sig {
				return // once per case
			}
		}
		co.fails = append(co.fails, failRec{sig, what, d, observed, required})
	}
	if p.genErr != nil {
		fail("C10/generator", "generator failed", p.genErr.Error(), "a directory tree")
		return co
	}
	if len(p.bad) > 0 && !d.BadMode {
		co.skipped = "skipped/unplanned-unparseable-file"
		return co
	}
	if len(p.bad) == 0 && p.expErr != nil {
		co.skipped = "skipped/MergeFiles-itself-fails"
		return co
	}
	var expEntries []m.Entry
	expPerRoute := map[string]int{}
	if len(p.bad) == 0 {
		expEntries = m.Entries(p.expected)
		for _, f := range p.expected {
			expPerRoute[f.Route]++
		}
	}
	for rep := 0; rep < d.Reps; rep++ {
		if hangsSoFar.Load() >= 2*maxHangs {
			co.skipped = "skipped/too-many-hangs"
			return co
		}
		res, hung := runMergeDir(d, rep)
		if hung {
			co.hangs++
			hangsSoFar.Add(1)
			sig := "C10/hang/unexpected"
			what := fmt.Sprintf("MergeDir did not return within %v", watchdog)
			switch {
			case p.hangProne:
				sig = "C10/hang/all-workers-exited-on-errors"
				what += ": at least ParseWorkers accepted files are unparseable and the walk has more paths after them"
			case len(p.bad) > 0:
				sig = "C10/hang/with-unparseable-files"
			}
			fail(sig, what, fmt.Sprintf("no return after %v; %d unparseable accepted files %v, %d workers, walk order %v", watchdog, len(p.bad), p.bad, d.Workers, p.walk),
				"termination (with an error if an accepted file cannot be parsed)")
			return co // one leaked call per case
		}
		if res.panicked == "setup" {
			co.skipped = "skipped/tempdir-unavailable"
			return co
		}
		if res.panicked != nil {
			fail("C10/panic", "MergeDir panicked", fmt.Sprint(res.panicked), "no panic")
			return co
		}
		if len(p.bad) > 0 {
			if res.err == nil {
				fail("C10/unparseable/no-error", "MergeDir returned no error although an accepted file cannot be parsed",
					fmt.Sprintf("nil error, %d files; unparseable: %v", len(res.out), p.bad), "an error")
			}
			continue
		}
		if res.err != nil {
			sig := "C10/unexpected-error/" + m.Slug(stripPaths(res.err.Error()))
			if strings.Contains(res.err.Error(), "os.readdir") && d.Mode == "fs" {
				sig = "C10/fs/empty-directory-read-from-os-instead"
			}
			fail(sig, "MergeDir returned an error although every accepted file can be parsed and MergeFiles succeeds on them", res.err.Error(), "the merged files")
			continue
		}
		got := m.SnapAll(res.out)
		gotEntries := m.Entries(got)
		if diffs := m.CompareEntries(expEntries, gotEntries); len(diffs) > 0 {
			sig := "C10/content/entry-" + diffs[0].Kind
			if diffs[0].Kind == "route" {
				sig = "C10/content/entry-in-file-of-other-route"
			}
			what := "the entries MergeDir returned differ from those of MergeFiles over the accepted files"
			if d.SubDirs {
				var visited []m.Entry
				for _, w := range d.Tree.walk(true, true) {
					visited = append(visited, p.perFile[w]...)
				}
				if len(m.CompareEntries(visited, gotEntries)) == 0 {
					sig = "C10/subdirs/only-first-subdirectory-walked"
					what = "MergeDir returned exactly the entries of the files met before the end of the first sub-directory of every directory: the walk stops after the first sub-directory"
				}
			}
			missing := []string{}
			gotKeys := map[string]bool{}
			for _, e := range gotEntries {
				gotKeys[e.Key()] = true
			}
			for _, w := range p.accepted {
				for _, e := range p.perFile[w] {
					if !gotKeys[e.Key()] {
						missing = append(missing, w)
						break
					}
				}
			}
			fail(sig, what, fmt.Sprintf("%d entries instead of %d; files with missing entries: %v; first difference: %s", len(gotEntries), len(expEntries), missing, diffs[0].Detail),
				"the same multiset of entries per origin/destination as MergeFilesWith over "+fmt.Sprint(p.accepted))
			continue
		}
		if d.Cond == (ach.Conditions{}) {
			gotPerRoute := map[string]int{}
			for _, f := range got {
				gotPerRoute[f.Route]++
			}
			for rt, n := range expPerRoute {
				if gotPerRoute[rt] != n {
					fail("C10/grouping/file-count-per-route", "without limits MergeDir returned another number of files for an origin/destination than MergeFiles",
						fmt.Sprintf("route %s: %d files", rt, gotPerRoute[rt]), fmt.Sprint(n))
				}
			}
		}
		c09.CheckOutputsWith("C10", res.out, d.Cond, p.plans, p.routes, false, p.routeOpts, fail)
	}
	return co
}

// orOpts returns the field-wise OR of the boolean fields of two ValidateOpts.
func orOpts(a, b *ach.ValidateOpts) *ach.ValidateOpts {
	out := ach.ValidateOpts{}
	for _, x := range []*ach.ValidateOpts{a, b} {
		if x == nil {
			continue
		}
		src, dst := reflect.ValueOf(x).Elem(), reflect.ValueOf(&out).Elem()
		for i := 0; i < src.NumField(); i++ {
			if src.Field(i).Kind() == reflect.Bool && src.Field(i).Bool() && dst.Field(i).CanSet() {
				dst.Field(i).SetBool(true)
			}
		}
	}
	return &out
}

// stripPaths removes the temporary directory and file names from an error text.
func stripPaths(s string) string {
	fs := strings.Fields(s)
	for i, f := range fs {
		if strings.ContainsAny(f, "/\\") || strings.Contains(f, ".") {
			fs[i] = "PATH"
		}
	}
	return strings.Join(fs, " ")
}

func init() {
	Register("C10", &Oracle{
		Rule: "directory trees of 0..12 generator files (non-IAT non-ADV, pooled headers/routes, colliding traces) as .ach/.txt/extension-less/upper-case (Nacha) and .json (json.Marshal) plus skipped extensions and side-car ValidateOpts files (harmless ones, and files with an invalid destination readable only through their side-car), flat / chain / bushy directory layouts 0..3 levels deep, SubDirectories on/off, ParseWorkers 1,2,3,default, default or custom acceptor, Conditions none/lines/dollars/both, run over a delaying in-memory fs.FS (per-file Open and Read delays and chunk sizes drawn per repetition; one fifth of the cases repeated 12 times) or a temporary OS directory (incl. empty directories); a quarter of the cases hold 1..4 unparseable accepted files (garbage, truncated, Nacha as .json, JSON as .ach, missing side-car, well-formed JSON that FileFromJSONWith decodes and then refuses); every call under a 5 s watchdog; distinct = distinct (mode, workers, options, per-file depth/extension/kind); non-trivial = at least one accepted file",
		Run:  run,
	})
}

func run(t *T) {
	n := t.Budget(800)
	preps := make([]*prepared, n)
	rs := make([]*gen.Rand, n)
	for i := range rs {
		rs[i] = t.R.Fork(uint64(i))
	}
	parallel(n, 8, func(i int) {
		r := rs[i]
		p := prepare(r, i)
		if p.genErr == nil {
			// conditions depend on the content: draw them, then compute the expectation again if needed
			if c := drawCond(r, p); c != (ach.Conditions{}) {
				d := p.desc
				d.Cond = c
				p = &prepared{desc: d, perFile: map[string][]m.Entry{}}
				fillPrepared(p)
			}
		}
		preps[i] = p
	})

	outs := make([]caseOut, n)
	var hangs atomic.Int32
	var prone, normal []int
	for i, p := range preps {
		if p.hangProne {
			prone = append(prone, i)
		} else {
			normal = append(normal, i)
		}
	}
	var wg sync.WaitGroup
	wg.Add(1)
	go func() {
		// shapes that hang when every parse worker has exited on an error: three at a time,
		// and no more once maxHangs calls have hung (their goroutines can never be reclaimed)
		defer wg.Done()
		proneHangs := 0
		for at := 0; at < len(prone); at += maxHangs {
			end := min(at+maxHangs, len(prone))
			if proneHangs >= maxHangs {
				for _, i := range prone[at:] {
					outs[i] = caseOut{key: shapeKey(preps[i]), class: classOf(preps[i]), skipped: "skipped/hang-budget-exhausted"}
				}
				return
			}
			group := prone[at:end]
			var local atomic.Int32
			parallel(len(group), len(group), func(k int) {
				outs[group[k]] = evalCase(preps[group[k]], &local)
			})
			for _, i := range group {
				proneHangs += outs[i].hangs
			}
		}
	}()
	parallel(len(normal), 8, func(k int) {
		outs[normal[k]] = evalCase(preps[normal[k]], &hangs)
	})
	wg.Wait()

	for i := range outs {
		o := outs[i]
		class := o.class
		if o.skipped != "" {
			class = o.skipped
		}
		t.Case(o.key, class, o.nontrivial && o.skipped == "")
		for _, f := range o.fails {
			t.Fail(f.sig, f.what, f.input, f.observed, f.required)
		}
	}
}

func parallel(n, workers int, f func(i int)) {
	if workers < 1 {
		workers = 1
	}
	var wg sync.WaitGroup
	next := atomic.Int64{}
	for w := 0; w < workers; w++ {
		wg.Add(1)
		go func() {
			defer wg.Done()
			for {
				i := int(next.Add(1)) - 1
				if i >= n {
					return
				}
				f(i)
			}
		}()
	}
	wg.Wait()
}
