package c10

import (
	"bytes"
	"encoding/json"
	"fmt"
	"io/fs"
	"os"
	"path"
	"path/filepath"
	"sort"
	"strings"
	"testing/fstest"
	"time"

	"github.com/moov-io/ach"
	"verif/harness/gen"
)

// item is one file of a directory tree.  Paths are slash separated and relative
// to the directory handed to MergeDir.
type item struct {
	Path    string `json:"path"`
	Kind    string `json:"kind"` // nacha | json | skipped | sidecar | garbage | truncated | nacha-in-json | json-in-nacha | needs-sidecar | json-rejected
	Content string `json:"content"`
}

type tree struct {
	Items     []item   `json:"items"`
	EmptyDirs []string `json:"empty_dirs,omitempty"`
}

// dirEntry is one directory listing element in fs.ReadDir order (sorted by name).
type dirEntry struct {
	name  string
	isDir bool
}

// listing returns dir -> sorted entries, "." being the root.
func (tr tree) listing() map[string][]dirEntry {
	seen := map[string]map[string]bool{}
	add := func(dir, name string, isDir bool) {
		if seen[dir] == nil {
			seen[dir] = map[string]bool{}
		}
		if v, ok := seen[dir][name]; !ok || (isDir && !v) {
			seen[dir][name] = isDir
		}
	}
	addDirs := func(d string) {
		for d != "." && d != "" {
			parent := path.Dir(d)
			add(parent, path.Base(d), true)
			d = parent
		}
	}
	seen["."] = map[string]bool{}
	for _, it := range tr.Items {
		d := path.Dir(it.Path)
		add(d, path.Base(it.Path), false)
		addDirs(d)
	}
	for _, d := range tr.EmptyDirs {
		if seen[d] == nil {
			seen[d] = map[string]bool{}
		}
		addDirs(d)
	}
	out := map[string][]dirEntry{}
	for d, m := range seen {
		var es []dirEntry
		for n, isDir := range m {
			es = append(es, dirEntry{n, isDir})
		}
		sort.Slice(es, func(i, j int) bool { return es[i].name < es[j].name })
		out[d] = es
	}
	return out
}

// walk lists the paths a directory walk sends to the parsers, in order.
// firstSubdirOnly models a walker that returns after the first sub-directory it
// descends into (used only to name that failure precisely).
func (tr tree) walk(subDirs, firstSubdirOnly bool) []string {
	ls := tr.listing()
	var out []string
	var rec func(dir string)
	rec = func(dir string) {
		for _, e := range ls[dir] {
			p := path.Join(dir, e.name)
			if e.isDir {
				if subDirs {
					rec(p)
					if firstSubdirOnly {
						return
					}
				}
				continue
			}
			out = append(out, p)
		}
	}
	rec(".")
	return out
}

func (tr tree) depth() int {
	d := 0
	for _, it := range tr.Items {
		if n := strings.Count(it.Path, "/"); n > d {
			d = n
		}
	}
	for _, e := range tr.EmptyDirs {
		if n := strings.Count(e, "/") + 1; n > d {
			d = n
		}
	}
	return d
}

func (tr tree) content(p string) (string, bool) {
	for _, it := range tr.Items {
		if it.Path == p {
			return it.Content, true
		}
	}
	return "", false
}

// ---- acceptance ----------------------------------------------------------------------

// accept is the documented default: "", .ach, .txt are Nacha, .json is JSON, anything else is skipped.
func acceptDefault(p string) ach.FileAcceptance {
	switch strings.ToLower(path.Ext(path.Base(p))) {
	case "", ".ach", ".txt":
		return ach.AcceptFile
	case ".json":
		return ach.AcceptAsJSON
	}
	return ach.SkipFile
}

// acceptCustom is an alternative acceptor handed to MergeDir in some cases.
func acceptCustom(p string) ach.FileAcceptance {
	p = filepath.ToSlash(p)
	switch strings.ToLower(path.Ext(path.Base(p))) {
	case ".ach", ".dat":
		return ach.AcceptFile
	case ".json", ".js":
		return ach.AcceptAsJSON
	}
	return ach.SkipFile
}

// acceptBelowDir: acceptCustom for paths that have a directory part, SkipFile for a bare file name.
func acceptBelowDir(p string) ach.FileAcceptance {
	p = filepath.ToSlash(p)
	if path.Dir(p) == "." {
		return ach.SkipFile
	}
	return acceptCustom(p)
}

// parse reads content the way MergeDir is documented to read an accepted file.
func parse(content string, as ach.FileAcceptance, opts *ach.ValidateOpts) (f *ach.File, err error) {
	defer func() {
		if p := recover(); p != nil {
			f, err = nil, fmt.Errorf("PANIC: %v", p)
		}
	}()
	if as == ach.AcceptAsJSON {
		return ach.FileFromJSONWith([]byte(content), opts)
	}
	r := ach.NewReader(strings.NewReader(content))
	r.SetValidation(opts)
	file, err := r.Read()
	if err != nil {
		return nil, err
	}
	return &file, nil
}

// sidecarFor returns the ValidateOpts the side-car file of p holds, if any.
func (tr tree) sidecarFor(p, ext string) *ach.ValidateOpts {
	if ext == "" {
		return nil
	}
	where := strings.TrimSuffix(p, path.Ext(p)) + ext
	c, ok := tr.content(where)
	if !ok {
		return nil
	}
	var v ach.ValidateOpts
	json.NewDecoder(strings.NewReader(c)).Decode(&v)
	return &v
}

// ---- file systems ------------------------------------------------------------------------

// delayFS delays Open and the first Read of individual files by fixed amounts.
// It is immutable after construction, hence safe for concurrent use.
type delayFS struct {
	base  fstest.MapFS
	open  map[string]time.Duration
	read  map[string]time.Duration
	chunk map[string]int
}

func (d *delayFS) Open(name string) (fs.File, error) {
	if w := d.open[name]; w > 0 {
		time.Sleep(w)
	}
	f, err := d.base.Open(name)
	if err != nil {
		return nil, err
	}
	return &delayFile{File: f, wait: d.read[name], chunk: d.chunk[name]}, nil
}

func (d *delayFS) ReadDir(name string) ([]fs.DirEntry, error) { return d.base.ReadDir(name) }

type delayFile struct {
	fs.File
	wait  time.Duration
	chunk int
}

func (f *delayFile) Read(p []byte) (int, error) {
	if f.wait > 0 {
		time.Sleep(f.wait)
		f.wait = 0
	}
	if f.chunk > 0 && len(p) > f.chunk {
		p = p[:f.chunk]
	}
	return f.File.Read(p)
}

func (f *delayFile) ReadDir(n int) ([]fs.DirEntry, error) {
	if rd, ok := f.File.(fs.ReadDirFile); ok {
		return rd.ReadDir(n)
	}
	return nil, fmt.Errorf("not a directory")
}

var delaySteps = []time.Duration{0, 0, 0, 20 * time.Microsecond, 100 * time.Microsecond, 400 * time.Microsecond, 1500 * time.Microsecond, 4 * time.Millisecond}

// newDelayFS places the tree under prefix (e.g. "root") and draws the delays.
func newDelayFS(tr tree, prefix string, r *gen.Rand, spread int) *delayFS {
	d := &delayFS{base: fstest.MapFS{}, open: map[string]time.Duration{}, read: map[string]time.Duration{}, chunk: map[string]int{}}
	for _, it := range tr.Items {
		p := path.Join(prefix, it.Path)
		d.base[p] = &fstest.MapFile{Data: []byte(it.Content), Mode: 0o644}
		if spread > 0 {
			d.open[p] = delaySteps[r.Intn(min(spread, len(delaySteps)))]
			d.read[p] = delaySteps[r.Intn(min(spread, len(delaySteps)))]
			if r.Chance(1, 4) {
				d.chunk[p] = []int{1, 94, 95, 512}[r.Intn(4)]
			}
		}
	}
	for _, e := range tr.EmptyDirs {
		d.base[path.Join(prefix, e)] = &fstest.MapFile{Mode: fs.ModeDir | 0o755}
	}
	return d
}

// writeOS writes the tree below a fresh temporary directory and returns it.
func writeOS(tr tree) (string, error) {
	root, err := os.MkdirTemp("", "verif-c10-")
	if err != nil {
		return "", err
	}
	for _, it := range tr.Items {
		p := filepath.Join(root, filepath.FromSlash(it.Path))
		if err := os.MkdirAll(filepath.Dir(p), 0o755); err != nil {
			return root, err
		}
		if err := os.WriteFile(p, []byte(it.Content), 0o644); err != nil {
			return root, err
		}
	}
	for _, e := range tr.EmptyDirs {
		if err := os.MkdirAll(filepath.Join(root, filepath.FromSlash(e)), 0o755); err != nil {
			return root, err
		}
	}
	return root, nil
}

func writeNacha(f *ach.File) (string, error) {
	var buf bytes.Buffer
	if err := ach.NewWriter(&buf).Write(f); err != nil {
		return "", err
	}
	return buf.String(), nil
}
