// Package c03 holds the oracle for property C03.
package c03
