package c03

import (
	"testing"
	"time"

	"verif/harness/oracle"
)

func TestPhases(t *testing.T) {
	for name, fn := range map[string]func(*oracle.T){"perturb": perturbPhase, "big": bigPhase, "cd": checkDigitSweep, "tx": txCodeSweep} {
		oracle.Register("X"+name, &oracle.Oracle{Rule: "x", Run: fn})
		st := time.Now()
		res := oracle.Run("X"+name, 1, "quick", "")
		t.Logf("%s: %v evals=%d fails=%d", name, time.Since(st), res.Evaluations, len(res.Failures))
	}
}
